/-
  The printer's layouts (Model/Print.lean `render`) and the Slice lexer model: every separator a layout may choose reads
  as nothing; the fold over the items keeps the lexer's reading of the text written so far in step with `ckRun` /
  `tokensWith` (Model/SliceLexer.lean).
-/
import SlicecVerif.Lemmas.SliceLexer

namespace Slicec.SLex

open Slicec

/-! ## §6 the printer's layouts -/

/-- the characters written so far -/
def txt (st : LState) : List Char := (textOf st).toList

theorem txt_push (st st' : LState) (s : String) (h : st'.out = s :: st.out) : txt st' = txt st ++ s.toList := by
  simp [txt, textOf_push st s st' h, String.toList_append]

theorem txt_emitTok (st : LState) (s : String) (d : Bool) : txt (emitTok st s d) = txt st ++ s.toList :=
  txt_push st _ s rfl

theorem afterDoc_emitTok (st : LState) (s : String) (d : Bool) : (emitTok st s d).afterDoc = d := rfl

theorem pick_mem {α : Type} [Inhabited α] (r : Rng) (xs : List α) (h : xs ≠ []) : (r.pick xs).1 ∈ xs := by
  have hl : 0 < xs.length := List.length_pos_iff.mpr h
  simp only [Rng.pick, Rng.below]
  have hi : (if (xs.length == 0) = true then 0 else r.next.1.toNat % xs.length) < xs.length := by
    split
    · exact hl
    · exact Nat.mod_lt _ hl
  generalize (if (xs.length == 0) = true then 0 else r.next.1.toNat % xs.length) = i at hi
  rw [List.getD_eq_getElem?_getD, List.getElem?_eq_getElem hi]
  exact List.getElem_mem hi

/-- the separator text `emitGap` chooses before the doc-comment correction -/
def gapChoice (style : Nat) (st : LState) (canon : String) (mandatory : Bool) : String × Rng :=
  if style == 0 then (canon, st.rng)
  else
    let (c, rng) := st.rng.below 4
    if c == 0 && !mandatory && !st.afterDoc then ("", rng)
    else
      let (g, rng) := rng.pick gapCatalogue
      (if st.afterDoc then "\n" ++ g else g, rng)

def gapFinal (st : LState) (t : String) : String :=
  if st.afterDoc && !(t.startsWith "\n") && !(t.startsWith "\r\n") then "\n" ++ t else t

theorem emitGap_eq (style : Nat) (st : LState) (canon : String) (mandatory : Bool) :
    emitGap style st canon mandatory =
      { st with out := gapFinal st (gapChoice style st canon mandatory).1 :: st.out,
                loc := advanceStr st.loc (gapFinal st (gapChoice style st canon mandatory).1),
                rng := (gapChoice style st canon mandatory).2 } := by
  unfold emitGap gapFinal gapChoice
  split
  rename_i t rng heq
  simp only [] at heq ⊢
  rw [heq]

theorem gapChoice_ok (style : Nat) (st : LState) (canon : String) (mand : Bool)
    (hcanon : canon.toList.all (fun c => c == ' ' || c == '\n') = true) (hmand : mand = true → canon.toList ≠ []) :
    GapOk (gapChoice style st canon mand).1.toList ∧ (mand = true → (gapChoice style st canon mand).1.toList ≠ []) ∧
    (st.afterDoc = true → (gapChoice style st canon mand).1.toList.head? ≠ some '\r') := by
  unfold gapChoice
  by_cases h0 : (style == 0) = true
  · simp only [h0, if_true]
    have hws : canon.toList.all isWs = true := by
      rw [List.all_eq_true] at hcanon ⊢
      intro c hc
      have := hcanon c hc
      simp only [Bool.or_eq_true, beq_iff_eq] at this
      rcases this with rfl | rfl <;> decide
    refine ⟨gapOk_ws _ hws, hmand, fun _ => ?_⟩
    cases hq : canon.toList with
    | nil => simp
    | cons c r =>
      rw [hq] at hcanon
      simp only [List.all_cons, Bool.and_eq_true, Bool.or_eq_true, beq_iff_eq] at hcanon
      simp only [List.head?_cons, ne_eq, Option.some.injEq]
      rcases hcanon.1 with rfl | rfl <;> decide
  · simp only [h0, Bool.false_eq_true, if_false]
    cases hb : st.rng.below 4 with
    | mk c rng =>
    cases hp : rng.pick gapCatalogue with
    | mk g rng2 =>
    simp only []
    by_cases h1 : (c == 0 && !mand && !st.afterDoc) = true
    · simp only [h1, if_true]
      simp only [Bool.and_eq_true, Bool.not_eq_true'] at h1
      refine ⟨gapOk_nil, fun hm => ?_, fun hd => ?_⟩
      · rw [h1.1.2] at hm; cases hm
      · rw [h1.2] at hd; cases hd
    · simp only [h1, Bool.false_eq_true, if_false]
      have hm : g ∈ gapCatalogue := by
        have := pick_mem rng gapCatalogue (by decide)
        rw [hp] at this; exact this
      obtain ⟨hrun, hhead, hne⟩ := gapCatalogue_ok g hm
      cases hd : st.afterDoc with
      | false =>
        simp only [Bool.false_eq_true, if_false]
        exact ⟨⟨hrun, hhead⟩, fun _ => hne, fun h => by cases h⟩
      | true =>
        simp only [if_true, String.toList_append]
        have e : ("\n" : String).toList = ['\n'] := by decide
        rw [e]
        exact ⟨gapOk_newline_cons _ ⟨hrun, hhead⟩, fun _ => by simp, fun _ => by simp⟩

theorem emitGap_text (style : Nat) (st : LState) (canon : String) (mand : Bool)
    (hcanon : canon.toList.all (fun c => c == ' ' || c == '\n') = true) (hmand : mand = true → canon.toList ≠ []) :
    ∃ g : List Char, txt (emitGap style st canon mand) = txt st ++ g ∧
      (emitGap style st canon mand).afterDoc = st.afterDoc ∧ GapOk g ∧ (mand = true → g ≠ []) ∧
      (st.afterDoc = true → ∃ g', g = '\n' :: g') := by
  obtain ⟨hok, hne, hcr⟩ := gapChoice_ok style st canon mand hcanon hmand
  refine ⟨(gapFinal st (gapChoice style st canon mand).1).toList, ?_, rfl, ?_⟩
  · rw [emitGap_eq]; exact txt_push st _ _ rfl
  · generalize (gapChoice style st canon mand).1 = t at hok hne hcr
    unfold gapFinal
    cases hd : st.afterDoc with
    | false =>
      simp only [Bool.false_and, Bool.false_eq_true, if_false]
      exact ⟨hok, hne, fun h => by cases h⟩
    | true =>
      have hcr' := hcr hd
      by_cases s1 : t.startsWith "\n" = true
      · simp only [s1, Bool.not_true, Bool.and_false, Bool.false_and, Bool.false_eq_true, if_false]
        refine ⟨hok, hne, fun _ => ?_⟩
        have := String.startsWith_string_iff.mp s1
        obtain ⟨r, hr⟩ := this
        exact ⟨r, by rw [← hr]; rfl⟩
      · by_cases s2 : t.startsWith "\r\n" = true
        · exfalso
          have := String.startsWith_string_iff.mp s2
          obtain ⟨r, hr⟩ := this
          apply hcr'
          rw [← hr]; rfl
        · have s1' : t.startsWith "\n" = false := by simpa using s1
          have s2' : t.startsWith "\r\n" = false := by simpa using s2
          simp only [s1', s2', Bool.not_false, Bool.and_self, if_true, String.toList_append]
          have e : ("\n" : String).toList = ['\n'] := by decide
          rw [e]
          exact ⟨gapOk_newline_cons _ hok, fun _ => by simp, fun _ => ⟨_, rfl⟩⟩


/-! ## the fold over the items -/

theorem collect_map_tok (ts : List SliceTok) : collect (ts.map .tok) = .ok ts := by
  induction ts with
  | nil => rfl
  | cons t ts ih => simp [collect, ih]

theorem map_tok_toksOf (items : List LexItem) (h : noErr items = true) : (toksOf items).map .tok = items := by
  induction items with
  | nil => rfl
  | cons i r ih =>
    cases i with
    | tok t =>
      have : noErr r = true := by simpa [noErr, LexItem.isErr] using h
      simp [toksOf, ih this]
    | err e => simp [noErr, LexItem.isErr] at h

/-- the lexer's reading of the text written so far agrees with the check state `ck` and the tokens `toks` -/
structure RInv (st : LState) (ck : CkSt) (toks : List SliceTok) : Prop where
  items : (lexRun false (txt st)).items = toks.map .tok
  attr : (lexRun false (txt st)).attr = ck.attr
  last : (lexRun false (txt st)).last = ck.last ∨ (lexRun false (txt st)).last = .closed
  noerr : ck.last ≠ .err
  doc : st.afterDoc = false → (lexRun false (txt st)).last ≠ .line

theorem RInv.last_ne_err {st ck toks} (h : RInv st ck toks) : (lexRun false (txt st)).last ≠ .err := by
  rcases h.last with e | e
  · rw [e]; exact h.noerr
  · rw [e]; decide

theorem RInv.compat_of_ck {st ck toks} (h : RInv st ck toks) (g : List Char) (hc : compat ck.last g = true) :
    compat (lexRun false (txt st)).last g = true := by
  rcases h.last with e | e
  · rw [e]; exact hc
  · rw [e]; exact compat_closed g

/-- appending text that the end of the text so far cannot affect -/
theorem RInv.append {st ck toks} (h : RInv st ck toks) (st' : LState) (g : List Char) (htxt : txt st' = txt st ++ g)
    (hc : compat (lexRun false (txt st)).last g = true) :
    lexRun false (txt st') =
      ⟨toks.map .tok ++ (lexRun ck.attr g).items, (lexRun ck.attr g).attr,
       if g.isEmpty then (lexRun false (txt st)).last else (lexRun ck.attr g).last⟩ := by
  rw [htxt, lexRun_append false (txt st) g hc, h.items, h.attr]

/-- a spelling written as is (`tok`, `docLine`) -/
theorem RInv.text {st ck ck' toks} (h : RInv st ck toks) (s : String) (isDoc : Bool)
    (hck : ckText ck s.toList isDoc = some ck') :
    RInv (emitTok st s isDoc) ck' (toks ++ toksOf (lexRun ck.attr s.toList).items) ∧
      ck'.attr = (lexRun ck.attr s.toList).attr := by
  simp only [ckText] at hck
  split at hck
  · rename_i hcond
    cases hck
    simp only [Bool.and_eq_true, Bool.not_eq_true', bne_iff_ne, ne_eq, Bool.or_eq_true] at hcond
    obtain ⟨⟨⟨⟨hne, hcomp⟩, hnoerr⟩, hlasterr⟩, hline⟩ := hcond
    have hne' : s.toList ≠ [] := by intro e; rw [e] at hne; cases hne
    have happ := h.append (emitTok st s isDoc) s.toList (txt_emitTok st s isDoc) (h.compat_of_ck _ hcomp)
    have hemp : s.toList.isEmpty = false := by simpa using hne'
    rw [hemp] at happ
    simp only [Bool.false_eq_true, if_false] at happ
    refine ⟨⟨?_, ?_, ?_, ?_, ?_⟩, rfl⟩
    · rw [happ]; simp [map_tok_toksOf _ hnoerr]
    · rw [happ]
    · rw [happ]; exact Or.inl rfl
    · exact hlasterr
    · intro hd
      rw [happ]
      rw [afterDoc_emitTok] at hd
      rcases hline with hl | hl
      · rw [hd] at hl; cases hl
      · exact hl
  · cases hck

theorem lookup_none (s : String) (l : List (String × String)) (h : ∀ p ∈ l, p.1 ≠ s) : l.lookup s = none := by
  induction l with
  | nil => rfl
  | cons p l ih =>
    obtain ⟨k, v⟩ := p
    have hk : (s == k) = false := by
      have hne : k ≠ s := h (k, v) (by simp)
      exact beq_eq_false_iff_ne.mpr (fun e => hne e.symm)
    simp only [List.lookup, hk]
    exact ih (fun q hq => h q (by simp [hq]))

theorem keyword_table_subset : ∀ k ∈ Gen.sliceKeywords, keywords.contains k.1 = true := by decide

/-- a word the printer does not escape is not in the lexer's keyword table -/
theorem checkKeyword_of_not_keyword (s : String) (h : keywords.contains s = false) :
    checkKeyword s.toList = .ident s.toList := by
  unfold checkKeyword
  rw [String.ofList_toList, lookup_none s Gen.sliceKeywords]
  intro p hp e
  have := keyword_table_subset p hp
  rw [e, h] at this
  cases this

/-- an identifier, with or without the backslash (with it whenever the printer's keyword list has the word) -/
theorem RInv.ident {st ck toks} (h : RInv st ck toks) (s : String) (esc : Bool)
    (hesc : keywords.contains s = true → esc = true)
    (hid : isIdentText s.toList = true) (hc1 : compat ck.last s.toList = true) (hc2 : compat ck.last ['\\'] = true) :
    RInv (emitTok st (if esc then "\\" ++ s else s) false) ⟨ck.attr, .word⟩ (toks ++ [.ident s.toList]) := by
  have hrun : lexRun ck.attr (if esc then "\\" ++ s else s).toList = ⟨[.tok (.ident s.toList)], ck.attr, .word⟩ := by
    cases esc with
    | true =>
      simp only [if_true, String.toList_append]
      have e : ("\\" : String).toList = ['\\'] := by decide
      rw [e]
      exact lexRun_escaped ck.attr s.toList hid
    | false =>
      simp only [Bool.false_eq_true, if_false]
      rw [lexRun_word ck.attr s.toList hid]
      have hk : keywords.contains s = false := by
        cases hq : keywords.contains s with
        | false => rfl
        | true => exact absurd (hesc hq) (by simp)
      rw [checkKeyword_of_not_keyword s hk]
      cases ck.attr <;> rfl
  have hcomp : compat ck.last (if esc then "\\" ++ s else s).toList = true := by
    cases esc with
    | true =>
      simp only [if_true, String.toList_append]
      have e : ("\\" : String).toList = ['\\'] := by decide
      rw [e, List.cons_append, compat_head]; exact hc2
    | false => exact hc1
  have hne : (if esc then "\\" ++ s else s).toList.isEmpty = false := by
    cases esc with
    | true => simp [String.toList_append]
    | false =>
      simp only [Bool.false_eq_true, if_false]
      cases hq : s.toList with
      | nil => rw [hq] at hid; simp [isIdentText] at hid
      | cons c r => rfl
  have happ := h.append (emitTok st (if esc then "\\" ++ s else s) false) _ (txt_emitTok st _ false) (h.compat_of_ck _ hcomp)
  rw [hne, hrun] at happ
  simp only [Bool.false_eq_true, if_false] at happ
  refine ⟨?_, ?_, ?_, by simp, ?_⟩
  · rw [happ]; simp
  · rw [happ]
  · rw [happ]; exact Or.inl rfl
  · intro _; rw [happ]; simp

/-- a written optional comma -/
theorem RInv.comma {st ck toks} (h : RInv st ck toks) (hc : compat ck.last [','] = true) :
    RInv (emitTok st "," false) ck (toks ++ [.comma]) := by
  have e : (",":String).toList = [','] := by decide
  have happ := h.append (emitTok st "," false) [','] (by rw [txt_emitTok, e]) (h.compat_of_ck _ hc)
  rw [lexRun_comma] at happ
  simp only [List.isEmpty_cons, Bool.false_eq_true, if_false] at happ
  refine ⟨?_, ?_, ?_, h.noerr, ?_⟩
  · rw [happ]; simp
  · rw [happ]
  · rw [happ]; exact Or.inr rfl
  · intro _; rw [happ]; simp

/-- a separator -/
theorem RInv.gap {st ck toks} (h : RInv st ck toks) (style : Nat) (canon : String) (mand : Bool)
    (hcanon : canon.toList.all (fun c => c == ' ' || c == '\n') = true) (hmand : mand = true → canon.toList ≠ []) :
    RInv (emitGap style st canon mand) (if mand then ⟨ck.attr, .closed⟩ else ck) toks := by
  obtain ⟨g, htxt, hdoc, hok, hne, hnl⟩ := emitGap_text style st canon mand hcanon hmand
  have hcomp : compat (lexRun false (txt st)).last g = true := by
    by_cases hl : (lexRun false (txt st)).last = .line
    · have hd : st.afterDoc = true := by
        cases hq : st.afterDoc with
        | true => rfl
        | false => exact absurd hl (h.doc hq)
      obtain ⟨g', rfl⟩ := hnl hd
      rw [hl]; rfl
    · exact compat_of_gapHeadOk _ g hok.head hl h.last_ne_err
  have happ := h.append (emitGap style st canon mand) g htxt hcomp
  rw [hok.run] at happ
  simp only [List.append_nil] at happ
  have hlast : (lexRun false (txt (emitGap style st canon mand))).last =
      if g.isEmpty then (lexRun false (txt st)).last else .closed := by rw [happ]
  refine ⟨?_, ?_, ?_, ?_, ?_⟩
  · rw [happ]
  · rw [happ]; cases mand <;> simp
  · rw [hlast]
    cases mand with
    | true =>
      have : g.isEmpty = false := by simpa using hne rfl
      simp [this]
    | false =>
      simp only [Bool.false_eq_true, if_false]
      cases g.isEmpty with
      | true => simpa using h.last
      | false => exact Or.inr rfl
  · cases mand with
    | true => simp
    | false => simpa using h.noerr
  · intro hd
    rw [hdoc] at hd
    rw [hlast]
    cases g.isEmpty with
    | true => simpa using h.doc hd
    | false => simp


theorem compat_newline (e : EndClass) (h : e ≠ .err) : compat e ['\n'] = true := by
  cases e <;> first | rfl | decide | exact absurd rfl h

theorem RInv.congr {st st' ck toks} (h : RInv st ck toks) (ht : txt st' = txt st) (hd : st'.afterDoc = st.afterDoc) :
    RInv st' ck toks := by
  refine ⟨?_, ?_, ?_, h.noerr, ?_⟩
  · rw [ht]; exact h.items
  · rw [ht]; exact h.attr
  · rw [ht]; exact h.last
  · rw [ht, hd]; exact h.doc

theorem closeSpan_txt (st : LState) (p : String) : txt (closeSpan st p) = txt st ∧ (closeSpan st p).afterDoc = st.afterDoc := by
  unfold closeSpan
  split <;> exact ⟨rfl, rfl⟩

theorem canon_nl (n : Nat) :
    ("\n" ++ String.ofList (List.replicate (4 * n) ' ')).toList.all (fun c => c == ' ' || c == '\n') = true ∧
    ("\n" ++ String.ofList (List.replicate (4 * n) ' ')).toList ≠ [] := by
  have e : ("\n" : String).toList = ['\n'] := by decide
  simp only [String.toList_append, e, String.toList_ofList]
  refine ⟨?_, by simp⟩
  simp

/-- **The fold.** Walking the items with `ckRun` and rendering them with any layout stay in step: the text written
    reads as the tokens `tokensWith` names for some choice of the optional commas (none in the canonical layout). -/
theorem render_fold (style : Nat) : ∀ (items : List Item) (st : LState) (ck ck' : CkSt) (toks : List SliceTok),
    RInv st ck toks → ckRun ck items = some ck' →
    ∃ cs : List Bool, (style = 0 → cs = []) ∧
      RInv (items.foldl (renderItem style) st) ck' (toks ++ tokensWith ck.attr cs items) := by
  intro items
  induction items with
  | nil =>
    intro st ck ck' toks h hck
    simp only [ckRun, Option.some.injEq] at hck
    subst hck
    exact ⟨[], fun _ => rfl, by simpa [tokensWith] using h⟩
  | cons it r ih =>
    intro st ck ck' toks h hck
    simp only [ckRun] at hck
    cases hit : ckItem ck it with
    | none => rw [hit] at hck; cases hck
    | some ck1 =>
      rw [hit] at hck
      simp only [List.foldl_cons]
      cases it with
      | tok s =>
        obtain ⟨h1, ha⟩ := h.text s false hit
        obtain ⟨cs, hcs, hr⟩ := ih _ ck1 ck' _ h1 hck
        refine ⟨cs, hcs, ?_⟩
        simp only [tokensWith, ← List.append_assoc]
        rw [← ha]; exact hr
      | docLine s =>
        obtain ⟨h1, ha⟩ := h.text ("///" ++ s) true hit
        obtain ⟨cs, hcs, hr⟩ := ih _ ck1 ck' _ h1 hck
        refine ⟨cs, hcs, ?_⟩
        simp only [tokensWith, ← List.append_assoc]
        rw [← ha]; exact hr
      | ident s =>
        simp only [ckItem] at hit
        split at hit
        · rename_i hcond
          cases hit
          simp only [Bool.and_eq_true] at hcond
          obtain ⟨⟨hid, hc1⟩, hc2⟩ := hcond
          have key : ∃ st1, renderItem style st (.ident s) = st1 ∧ RInv st1 ⟨ck.attr, .word⟩ (toks ++ [.ident s.toList]) := by
            simp only [renderItem]
            by_cases hk : keywords.contains s = true
            · simp only [hk, if_true]
              exact ⟨_, rfl, h.ident s true (fun _ => rfl) hid hc1 hc2⟩
            · simp only [hk, Bool.false_eq_true, if_false]
              have hk' : keywords.contains s = true → false = true := fun e => absurd e hk
              by_cases h0 : (style == 0) = true
              · simp only [h0, if_true]
                exact ⟨_, rfl, h.ident s false hk' hid hc1 hc2⟩
              · simp only [h0, Bool.false_eq_true, if_false]
                cases hb : st.rng.below 5 with
                | mk c rng =>
                  simp only []
                  have h' : RInv { st with rng := rng } ck toks := h.congr rfl rfl
                  cases hc : (c == 0) with
                  | true => exact ⟨_, rfl, h'.ident s true (fun _ => rfl) hid hc1 hc2⟩
                  | false => exact ⟨_, rfl, h'.ident s false hk' hid hc1 hc2⟩
          obtain ⟨st1, e1, h1⟩ := key
          rw [e1]
          obtain ⟨cs, hcs, hr⟩ := ih st1 _ ck' _ h1 hck
          refine ⟨cs, hcs, ?_⟩
          simpa [tokensWith] using hr
        · cases hit
      | optComma =>
        simp only [ckItem] at hit
        split at hit
        · rename_i hcomp
          cases hit
          simp only [renderItem]
          by_cases h0 : (style == 0) = true
          · simp only [h0, if_true]
            obtain ⟨cs, hcs, hr⟩ := ih st ck ck' toks h hck
            have hs : style = 0 := by simpa using h0
            have hcs' := hcs hs
            subst hcs'
            exact ⟨[], fun _ => rfl, by simpa [tokensWith] using hr⟩
          · simp only [h0, Bool.false_eq_true, if_false]
            have hs : style ≠ 0 := by simpa using h0
            cases hb : st.rng.below 2 with
            | mk c rng =>
              simp only []
              have h' : RInv { st with rng := rng } ck toks := h.congr rfl rfl
              cases hc : (c == 0) with
              | true =>
                simp only [if_true]
                obtain ⟨cs, _, hr⟩ := ih _ ck ck' toks h' hck
                exact ⟨false :: cs, fun e => absurd e hs, by simpa [tokensWith] using hr⟩
              | false =>
                simp only [Bool.false_eq_true, if_false]
                obtain ⟨cs, _, hr⟩ := ih _ ck ck' _ (h'.comma hcomp) hck
                exact ⟨true :: cs, fun e => absurd e hs, by simpa [tokensWith] using hr⟩
        · cases hit
      | nl n =>
        simp only [ckItem, Option.some.injEq] at hit
        subst hit
        have h1 := h.gap style ("\n" ++ String.ofList (List.replicate (4 * n) ' ')) true (canon_nl n).1 (fun _ => (canon_nl n).2)
        obtain ⟨cs, hcs, hr⟩ := ih _ _ ck' toks h1 hck
        exact ⟨cs, hcs, by simpa [tokensWith, renderItem] using hr⟩
      | sp =>
        simp only [ckItem, Option.some.injEq] at hit
        subst hit
        have h1 := h.gap style " " true (by decide) (fun _ => by decide)
        obtain ⟨cs, hcs, hr⟩ := ih _ _ ck' toks h1 hck
        exact ⟨cs, hcs, by simpa [tokensWith, renderItem] using hr⟩
      | glue =>
        simp only [ckItem, Option.some.injEq] at hit
        subst hit
        have h1 := h.gap style "" false (by decide) (fun e => by cases e)
        obtain ⟨cs, hcs, hr⟩ := ih _ _ ck' toks h1 hck
        exact ⟨cs, hcs, by simpa [tokensWith, renderItem] using hr⟩
      | op p =>
        simp only [ckItem, Option.some.injEq] at hit
        subst hit
        have h1 : RInv (renderItem style st (.op p)) ck toks := h.congr rfl rfl
        obtain ⟨cs, hcs, hr⟩ := ih _ _ ck' toks h1 hck
        exact ⟨cs, hcs, by simpa [tokensWith] using hr⟩
      | cl p =>
        simp only [ckItem, Option.some.injEq] at hit
        subst hit
        have h1 : RInv (renderItem style st (.cl p)) ck toks := h.congr (closeSpan_txt st p).1 (closeSpan_txt st p).2
        obtain ⟨cs, hcs, hr⟩ := ih _ _ ck' toks h1 hck
        exact ⟨cs, hcs, by simpa [tokensWith] using hr⟩

/-- **Layout theorem for item lists.** For every item list that passes the separation check, every layout and
    every seed, the rendered text lexes without error to the tokens the items denote, with a `Comma` exactly where
    the layout chose to write an optional comma (nowhere in the canonical layout). -/
theorem lex_render (style seed : Nat) (items : List Item) (h : itemsOk items = true) :
    ∃ cs : List Bool, (style = 0 → cs = []) ∧
      lexSlice (render style seed items).1.toList = .ok (tokensWith false cs items) := by
  unfold itemsOk at h
  cases hck : ckRun ⟨false, .closed⟩ items with
  | none => rw [hck] at h; cases h
  | some ck' =>
    let st0 : LState := { out := [], loc := ⟨1, 1⟩, lastEnd := ⟨1, 1⟩, pendingOpen := [], opened := [], spans := [],
                          rng := Rng.mk' seed, afterDoc := false }
    have h0 : RInv st0 ⟨false, .closed⟩ [] := by
      have e : txt st0 = [] := by simp [txt, textOf, st0]
      refine ⟨?_, ?_, ?_, by decide, ?_⟩ <;> rw [e] <;> simp
    obtain ⟨cs, hcs, hr⟩ := render_fold style items st0 _ ck' [] h0 hck
    refine ⟨cs, hcs, ?_⟩
    simp only [List.nil_append] at hr
    have hrender : (render style seed items).1 =
        textOf (if (items.foldl (renderItem style) st0).afterDoc
                then { (items.foldl (renderItem style) st0) with out := "\n" :: (items.foldl (renderItem style) st0).out }
                else items.foldl (renderItem style) st0) := rfl
    unfold lexSlice
    rw [hrender]
    generalize items.foldl (renderItem style) st0 = stF at hr ⊢
    cases hd : stF.afterDoc with
    | false =>
      simp only [Bool.false_eq_true, if_false]
      have := hr.items
      unfold txt at this
      rw [this, collect_map_tok]
    | true =>
      simp only [if_true]
      have e : ("\n" : String).toList = ['\n'] := by decide
      have happ := hr.append { stF with out := "\n" :: stF.out } ['\n'] (by rw [txt_push stF _ "\n" rfl, e]) (compat_newline _ hr.last_ne_err)
      rw [lexRun_newline] at happ
      unfold txt at happ
      rw [happ]
      simp [collect_map_tok]


/-! ## optional commas -/

theorem CommaExt.refl (l : List SliceTok) : CommaExt l l := by
  induction l with
  | nil => exact .nil
  | cons t l ih => exact .keep t ih

theorem CommaExt.append_left (p : List SliceTok) {l l' : List SliceTok} (h : CommaExt l l') : CommaExt (p ++ l) (p ++ l') := by
  induction p with
  | nil => exact h
  | cons t p ih => exact .keep t ih

/-- whatever the layout chose for the optional commas, the tokens are the canonical ones plus `Comma` tokens -/
theorem commaExt_tokensWith (items : List Item) : ∀ (a : Bool) (cs : List Bool),
    CommaExt (tokensWith a [] items) (tokensWith a cs items) := by
  induction items with
  | nil => intro a cs; cases cs <;> exact .nil
  | cons it r ih =>
    intro a cs
    cases it with
    | tok s => simp only [tokensWith]; exact CommaExt.append_left _ (ih _ _)
    | docLine s => simp only [tokensWith]; exact CommaExt.append_left _ (ih _ _)
    | ident s => simp only [tokensWith]; exact .keep _ (ih _ _)
    | optComma =>
      cases cs with
      | nil => simp only [tokensWith]; exact ih _ _
      | cons c cs =>
        simp only [tokensWith]
        cases c with
        | false => simpa using ih a cs
        | true => simpa using CommaExt.ins (ih a cs)
    | nl n => simp only [tokensWith]; exact ih _ _
    | sp => simp only [tokensWith]; exact ih _ _
    | glue => simp only [tokensWith]; exact ih _ _
    | op p => simp only [tokensWith]; exact ih _ _
    | cl p => simp only [tokensWith]; exact ih _ _

theorem dropCommas_of_commaExt {l l' : List SliceTok} (h : CommaExt l l') : dropCommas l' = dropCommas l := by
  induction h with
  | nil => rfl
  | keep t _ ih => simp only [dropCommas, List.filter_cons] at ih ⊢; rw [ih]
  | ins _ ih => simp only [dropCommas, List.filter_cons] at ih ⊢; simpa using ih

end Slicec.SLex
