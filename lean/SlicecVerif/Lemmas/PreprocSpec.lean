/-
  C06, from the declarative token stream to the character-level SPEC (`cspecFile`):
  located characters of ranges of the file, abstract lines of raw lines, uniqueness of the line reading.
-/
import SlicecVerif.Lemmas.PreprocLines
import SlicecVerif.Lemmas.PreprocComplete

namespace Slicec.Pp

/-! ## located characters of a range of the file -/

theorem go_append (a b : List Char) : ∀ s : Loc,
    locatedBlock.go (a ++ b) s = locatedBlock.go a s ++ locatedBlock.go b (a.foldl advance s) := by
  induction a with
  | nil => intro s; rfl
  | cons c a ih =>
    intro s
    simp only [List.cons_append, locatedBlock.go, List.foldl_cons]
    split
    · exact ih _
    · rw [ih]; rfl

theorem go_ws (a : List Char) (h : ∀ x ∈ a, isWs x = true) : ∀ s : Loc, locatedBlock.go a s = [] := by
  induction a with
  | nil => intro s; rfl
  | cons c a ih =>
    intro s
    simp only [locatedBlock.go, h c (by simp), ↓reduceIte]
    exact ih (fun x hx => h x (by simp [hx])) _

theorem advance_noNl (row col : Nat) (c : Char) (h : c ≠ '\n') : advance ⟨row, col⟩ c = ⟨row, col + 1⟩ := by
  simp [advance, h]

theorem go_line (row : Nat) (l : List Char) (h : noNl l) : ∀ col : Nat,
    locatedBlock.go l ⟨row, col⟩ = locatedLine.go row l col := by
  induction l with
  | nil => intro col; rfl
  | cons c l ih =>
    intro col
    have hc : c ≠ '\n' := h c (by simp)
    simp only [locatedBlock.go, locatedLine.go, advance_noNl row col c hc]
    rw [ih (fun x hx => h x (by simp [hx]))]

theorem foldl_advance_noNl (l : List Char) (h : noNl l) : ∀ (row col : Nat),
    l.foldl advance ⟨row, col⟩ = ⟨row, col + l.length⟩ := by
  induction l with
  | nil => intro row col; rfl
  | cons c l ih =>
    intro row col
    simp only [List.foldl_cons, advance_noNl row col c (h c (by simp)), List.length_cons]
    rw [ih (fun x hx => h x (by simp [hx]))]
    simp only [Loc.mk.injEq, true_and]; omega

theorem locAt_add (f : List Char) (a n : Nat) : locAt f (a + n) = ((f.drop a).take n).foldl advance (locAt f a) := by
  unfold locAt
  rw [List.take_add, List.foldl_append]

/-- the located non-whitespace characters of `f[a, b)` -/
def lch (f : List Char) (a b : Nat) : List LChar := locatedBlock.go ((f.drop a).take (b - a)) (locAt f a)

theorem locatedBlock_eq_lch (f : List Char) (p e : Nat) :
    locatedBlock ⟨locAt f p, p, (f.drop p).take (e - p)⟩ = lch f p e := rfl

theorem lch_split (f : List Char) (a b c : Nat) (hab : a ≤ b) (hbc : b ≤ c) : lch f a c = lch f a b ++ lch f b c := by
  unfold lch
  have e1 : c - a = (b - a) + (c - b) := by omega
  have e2 : b = a + (b - a) := by omega
  rw [e1, List.take_add, go_append, List.drop_drop, ← locAt_add, ← e2]

theorem lch_ws (f : List Char) (a b : Nat) (h : ∀ x ∈ (f.drop a).take (b - a), isWs x = true) : lch f a b = [] :=
  go_ws _ h _

theorem lch_self (f : List Char) (a : Nat) : lch f a a = [] := by
  unfold lch; simp [locatedBlock.go]

/-! ## one directive line as an abstract line -/

/-- the directive a complete token list of one line spells (the `match` of `classify`) -/
def alineOf (toks : List PTok) : Option ALine :=
  match toks with
  | [.kw .define, .ident s, .dend] => some (.define s)
  | [.kw .undef, .ident s, .dend] => some (.undef s)
  | [.kw .else_, .dend] => some .else_
  | [.kw .endif, .dend] => some .endif
  | .kw .if_ :: r =>
    match parseExpr (parseFuel r) r with
    | some (e, [.dend]) => some (.if_ e)
    | _ => none
  | .kw .elif :: r =>
    match parseExpr (parseFuel r) r with
    | some (e, [.dend]) => some (.elif e)
    | _ => none
  | _ => none

def ALine.isSrc : ALine → Bool
  | .src _ => true
  | _ => false

/-- soundness: a token list that spells a directive is the printed form of that directive -/
theorem alineOf_sound (toks : List PTok) (a : ALine) (h : alineOf toks = some a) : toks = a.toks ∧ a.isSrc = false := by
  unfold alineOf at h
  split at h
  · simp only [Option.some.injEq] at h; subst h; exact ⟨rfl, rfl⟩
  · simp only [Option.some.injEq] at h; subst h; exact ⟨rfl, rfl⟩
  · simp only [Option.some.injEq] at h; subst h; exact ⟨rfl, rfl⟩
  · simp only [Option.some.injEq] at h; subst h; exact ⟨rfl, rfl⟩
  · split at h
    · rename_i e heq
      simp only [Option.some.injEq] at h; subst h
      have := (parseExpr_sound _).2.1 _ _ _ heq
      exact ⟨by simp [ALine.toks, this], rfl⟩
    · cases h
  · split at h
    · rename_i e heq
      simp only [Option.some.injEq] at h; subst h
      have := (parseExpr_sound _).2.1 _ _ _ heq
      exact ⟨by simp [ALine.toks, this], rfl⟩
    · cases h
  · cases h

/-- completeness: the printed form of a directive spells that directive -/
theorem alineOf_toks (a : ALine) (h : a.isSrc = false) : alineOf a.toks = some a := by
  cases a with
  | src b => simp [ALine.isSrc] at h
  | define s => rfl
  | undef s => rfl
  | else_ => rfl
  | endif => rfl
  | if_ e =>
    simp only [ALine.toks, alineOf]
    rw [parseExpr_print e _ [.dend] (by
      have := PExpr.size_le_toks e
      simp only [parseFuel, List.length_append, List.length_cons, List.length_nil]; omega) (by simp [noOp])]
  | elif e =>
    simp only [ALine.toks, alineOf]
    rw [parseExpr_print e _ [.dend] (by
      have := PExpr.size_le_toks e
      simp only [parseFuel, List.length_append, List.length_cons, List.length_nil]; omega) (by simp [noOp])]

/-! ## facts about the tokens of a directive line -/

theorem dirLexR_noDend : ∀ (n : Nat) (r : List Char) (x : List PTok × List Char), dirLexR n r = some x → PTok.dend ∉ x.1 := by
  intro n
  induction n with
  | zero => intro r x h; simp [dirLexR] at h
  | succ n ih =>
    intro r x h
    unfold dirLexR at h
    cases hK : dirNextK r with
    | mk k r1 =>
      rw [hK] at h
      cases k with
      | none => simp at h
      | some t =>
        simp only at h
        by_cases hdd : t = .dend
        · simp only [hdd, ↓reduceIte, Option.some.injEq] at h
          subst h; simp
        · simp only [hdd, ↓reduceIte] at h
          cases hrec : dirLexR n r1 with
          | none => rw [hrec] at h; simp at h
          | some y =>
            rw [hrec] at h
            simp only [Option.map, Option.some.injEq] at h
            subst h
            simp only [List.mem_cons, not_or]
            exact ⟨fun e => hdd e.symm, ih r1 y hrec⟩

theorem dirLine_noDend (d : List Char) (ts : List PTok) (h : dirLine d = some ts) : PTok.dend ∉ ts := by
  unfold dirLine at h
  cases hx : dirLexR (d.length + 1) d with
  | none => rw [hx] at h; simp at h
  | some x =>
    rw [hx] at h
    simp only [Option.map, Option.some.injEq] at h
    subst h
    exact dirLexR_noDend _ _ _ hx

/-- a directive line starts with a directive keyword -/
theorem dirLine_hash (d' : List Char) (ts : List PTok) (h : dirLine ('#' :: d') = some ts) :
    ∃ k ts', ts = .kw k :: ts' := by
  unfold dirLine at h
  simp only [List.length_cons] at h
  unfold dirLexR at h
  rw [dirNextK_hash] at h
  rcases kwK_cases d' with ⟨k, hk⟩ | hk
  · cases hKw : kwK d' with
    | mk kk r'' =>
      rw [hKw] at hk h
      simp only at hk
      subst hk
      simp only [reduceCtorEq, ↓reduceIte] at h
      cases hrec : dirLexR (d'.length + 1) r'' with
      | none => rw [hrec] at h; simp at h
      | some y =>
        rw [hrec] at h
        simp only [Option.map, Option.some.injEq] at h
        exact ⟨k, y.1, h.symm⟩
  · cases hKw : kwK d' with
    | mk kk r'' =>
      rw [hKw] at hk h
      simp only at hk
      subst hk
      simp at h

/-! ## `classify`, read through `dirLine` / `alineOf` -/

theorem splitLines_noNl (l : List Char) (h : noNl l) : splitLines l = [l] := by
  induction l with
  | nil => rfl
  | cons c l ih =>
    unfold splitLines
    rw [ih (fun x hx => h x (by simp [hx]))]
    simp [h c (by simp)]

/-- a directive line lexed on its own -/
theorem lexPre_dirline (l d' : List Char) (hl : noNl l) (hd : l.dropWhile isInlineWs = '#' :: d') :
    (match lexPre l with | .ok t => some t | .error _ => none) = (dirLine ('#' :: d')).map (· ++ [.dend]) := by
  refine (toksOf_lexPreL l).symm.trans ?_
  rw [lexPre_decl, splitLines_noNl l hl]
  simp only [declLines, hd, declLine, ↓reduceIte, flushTok, List.nil_append]
  cases dirLine ('#' :: d') <;> rfl

/-- the kind of a raw line -/
def lineKind (l : List Char) : LineKind :=
  match l.dropWhile isInlineWs with
  | [] => .blank
  | c :: d' =>
    if c ≠ '#' then .source
    else
      match (dirLine (c :: d')).bind (fun ts => alineOf (ts ++ [.dend])) with
      | some a => .dir a
      | none => .malformed

theorem classify_alineOf (toks : List PTok) :
    (match toks with
      | [.kw .define, .ident s, .dend] => LineKind.dir (.define s)
      | [.kw .undef, .ident s, .dend] => .dir (.undef s)
      | [.kw .else_, .dend] => .dir .else_
      | [.kw .endif, .dend] => .dir .endif
      | .kw .if_ :: r =>
        match parseExpr (parseFuel r) r with
        | some (e, [.dend]) => .dir (.if_ e)
        | _ => .malformed
      | .kw .elif :: r =>
        match parseExpr (parseFuel r) r with
        | some (e, [.dend]) => .dir (.elif e)
        | _ => .malformed
      | _ => .malformed) =
    match alineOf toks with
    | some a => .dir a
    | none => .malformed := by
  unfold alineOf
  split
  · rfl
  · rfl
  · rfl
  · rfl
  · split <;> rfl
  · split <;> rfl
  · rfl

theorem classify_eq (l : List Char) (hl : noNl l) : classify l = lineKind l := by
  unfold classify lineKind
  cases hd : l.dropWhile isInlineWs with
  | nil => rfl
  | cons c d' =>
    simp only
    by_cases hc : c = '#'
    · subst hc
      simp only [ne_eq, not_true_eq_false, ↓reduceIte]
      have := lexPre_dirline l d' hl hd
      cases hlex : lexPre l with
      | error e =>
        rw [hlex] at this
        simp only at this ⊢
        cases hdl : dirLine ('#' :: d') with
        | none => rfl
        | some ts => rw [hdl] at this; simp at this
      | ok toks =>
        rw [hlex] at this
        simp only at this ⊢
        cases hdl : dirLine ('#' :: d') with
        | none => rw [hdl] at this; simp at this
        | some ts =>
          rw [hdl] at this
          simp only [Option.map, Option.some.injEq] at this
          subst this
          simp only [Option.bind]
          exact classify_alineOf _
    · simp [hc]

/-! ## the abstract lines of the raw lines of a file -/

def flushLine (f : List Char) (pend : Option Nat) (e : Nat) : List ALine :=
  match pend with
  | none => []
  | some p => [.src ⟨locAt f p, p, (f.drop p).take (e - p)⟩]

def absLine (f d tl : List Char) (pend : Option Nat) (k : Option Nat → Option (List ALine)) : Option (List ALine) :=
  match d with
  | [] => k pend
  | c :: d' =>
    if c = '#' then
      match (dirLine (c :: d')).bind (fun ts => alineOf (ts ++ [.dend])) with
      | none => none
      | some a => (k none).map (fun rest => flushLine f pend (f.length - (c :: d' ++ tl).length) ++ a :: rest)
    else k (some (pend.getD (f.length - (c :: d' ++ tl).length)))

/-- the abstract lines of the raw lines `ls`: one `src` line per maximal run of non-directive lines containing a source
    line, one directive line per well-formed directive; `none` = some directive line is malformed -/
def absLines (f : List Char) : List (List Char) → Option Nat → Option (List ALine)
  | [], pend => some (flushLine f pend f.length)
  | l :: ls, pend => absLine f (l.dropWhile isInlineWs) (tailLines ls) pend (absLines f ls)

theorem linesToks_flushLine (f : List Char) (pend : Option Nat) (e : Nat) :
    linesToks (flushLine f pend e) = flushTok f pend e := by
  cases pend <;> rfl

/-- the tokens of the abstract lines are the declarative token stream -/
theorem absLines_toks (f : List Char) : ∀ (ls : List (List Char)) (pend : Option Nat) (als : List ALine),
    absLines f ls pend = some als → declLines f ls pend = some (linesToks als) := by
  intro ls
  induction ls with
  | nil =>
    intro pend als h
    simp only [absLines, Option.some.injEq] at h
    subst h
    simp only [declLines, linesToks_flushLine]
  | cons l ls ih =>
    intro pend als h
    unfold absLines absLine at h
    unfold declLines declLine
    cases hd : l.dropWhile isInlineWs with
    | nil => rw [hd] at h; exact ih _ _ h
    | cons c d' =>
      rw [hd] at h
      simp only at h ⊢
      by_cases hc : c = '#'
      · simp only [hc, ↓reduceIte] at h ⊢
        cases hdl : dirLine ('#' :: d') with
        | none => rw [hdl] at h; simp at h
        | some ts =>
          rw [hdl] at h
          simp only [Option.bind] at h ⊢
          cases hal : alineOf (ts ++ [.dend]) with
          | none => rw [hal] at h; simp at h
          | some a =>
            rw [hal] at h
            simp only at h
            cases hk : absLines f ls none with
            | none => rw [hk] at h; simp at h
            | some rest =>
              rw [hk] at h
              simp only [Option.map, Option.some.injEq] at h
              subst h
              rw [ih none rest hk]
              simp only [Option.map, linesToks_append, linesToks_cons, linesToks_flushLine,
                ← (alineOf_sound _ _ hal).1, List.append_assoc, List.cons_append, List.nil_append]
      · simp only [hc, ↓reduceIte] at h ⊢
        exact ih _ _ h

/-! ## uniqueness of the line reading of a token stream -/

mutual
  theorem PExpr.noDend : ∀ e : PExpr, PTok.dend ∉ e.toks
    | .term t => by simp only [PExpr.toks]; exact PTerm.noDend t
    | .not t => by simp only [PExpr.toks, List.mem_cons, reduceCtorEq, false_or]; exact PTerm.noDend t
    | .and e t => by
      simp only [PExpr.toks, List.mem_append, List.mem_cons, reduceCtorEq, false_or, not_or]
      exact ⟨PExpr.noDend e, PTerm.noDend t⟩
    | .or e t => by
      simp only [PExpr.toks, List.mem_append, List.mem_cons, reduceCtorEq, false_or, not_or]
      exact ⟨PExpr.noDend e, PTerm.noDend t⟩
  theorem PTerm.noDend : ∀ t : PTerm, PTok.dend ∉ t.toks
    | .sym _ => by simp [PTerm.toks]
    | .paren e => by
      simp only [PTerm.toks, List.mem_cons, List.mem_append, reduceCtorEq, false_or, or_false, List.mem_nil_iff]
      exact PExpr.noDend e
end

/-- a directive line prints as a keyword, tokens without `DirectiveEnd`, and one `DirectiveEnd` -/
theorem ALine.toks_dir (a : ALine) (h : a.isSrc = false) :
    ∃ k body, a.toks = (.kw k :: body) ++ [.dend] ∧ PTok.dend ∉ (PTok.kw k :: body) := by
  cases a with
  | src b => simp [ALine.isSrc] at h
  | define s => exact ⟨.define, [.ident s], rfl, by simp⟩
  | undef s => exact ⟨.undef, [.ident s], rfl, by simp⟩
  | else_ => exact ⟨.else_, [], rfl, by simp⟩
  | endif => exact ⟨.endif, [], rfl, by simp⟩
  | if_ e => exact ⟨.if_, e.toks, rfl, by simpa using PExpr.noDend e⟩
  | elif e => exact ⟨.elif, e.toks, rfl, by simpa using PExpr.noDend e⟩

theorem split_first {α : Type} (x : α) : ∀ (a b c d : List α), x ∉ a → x ∉ b → a ++ x :: c = b ++ x :: d → a = b ∧ c = d := by
  intro a
  induction a with
  | nil =>
    intro b c d _ hb h
    cases b with
    | nil => simp only [List.nil_append, List.cons.injEq, true_and] at h; exact ⟨rfl, h⟩
    | cons y b =>
      simp only [List.nil_append, List.cons_append, List.cons.injEq] at h
      exact absurd (by rw [h.1]; simp) hb
  | cons y a ih =>
    intro b c d ha hb h
    cases b with
    | nil =>
      simp only [List.nil_append, List.cons_append, List.cons.injEq] at h
      exact absurd (by rw [← h.1]; simp) ha
    | cons z b =>
      simp only [List.cons_append, List.cons.injEq] at h
      obtain ⟨r1, r2⟩ := ih b c d (fun hx => ha (by simp [hx])) (fun hx => hb (by simp [hx])) h.2
      exact ⟨by rw [h.1, r1], r2⟩

theorem ALine.toks_ne_nil (a : ALine) : a.toks ≠ [] := by
  cases a <;> simp [ALine.toks]

theorem linesToks_nil (als : List ALine) (h : linesToks als = []) : als = [] := by
  cases als with
  | nil => rfl
  | cons a als =>
    rw [linesToks_cons] at h
    exact absurd (List.append_eq_nil_iff.mp h).1 (ALine.toks_ne_nil a)

theorem linesToks_block (als : List ALine) (b : Block) (rest : List PTok) (h : linesToks als = .block b :: rest) :
    ∃ als', als = .src b :: als' ∧ linesToks als' = rest := by
  cases als with
  | nil => simp [linesToks] at h
  | cons a als =>
    rw [linesToks_cons] at h
    cases a with
    | src b' =>
      simp only [ALine.toks, List.cons_append, List.nil_append, List.cons.injEq, PTok.block.injEq] at h
      exact ⟨als, by rw [h.1], h.2⟩
    | _ => simp [ALine.toks] at h

theorem linesToks_dir (als : List ALine) (k : PKw) (ts' rest : List PTok) (hnd : PTok.dend ∉ (PTok.kw k :: ts'))
    (h : linesToks als = (.kw k :: ts') ++ .dend :: rest) :
    ∃ a als', als = a :: als' ∧ a.isSrc = false ∧ a.toks = (.kw k :: ts') ++ [.dend] ∧ linesToks als' = rest := by
  cases als with
  | nil => simp [linesToks] at h
  | cons a als =>
    rw [linesToks_cons] at h
    cases hs : a.isSrc with
    | true =>
      cases a <;> simp [ALine.isSrc] at hs
      simp [ALine.toks] at h
    | false =>
      obtain ⟨k', body, hb, hnb⟩ := ALine.toks_dir a hs
      rw [hb, List.append_assoc] at h
      simp only [List.cons_append, List.nil_append] at h
      have := split_first PTok.dend (.kw k' :: body) (.kw k :: ts') (linesToks als) rest hnb hnd (by simpa using h)
      exact ⟨a, als, rfl, hs, by rw [hb, this.1], this.2⟩

/-- a declarative token stream that is the printed form of abstract lines comes from exactly these lines -/
theorem absLines_of_toks (f : List Char) : ∀ (ls : List (List Char)) (pend : Option Nat) (als : List ALine),
    declLines f ls pend = some (linesToks als) → absLines f ls pend = some als := by
  intro ls
  induction ls with
  | nil =>
    intro pend als h
    simp only [declLines, Option.some.injEq] at h
    simp only [absLines, Option.some.injEq]
    cases pend with
    | none => exact (linesToks_nil als h.symm).symm
    | some p =>
      obtain ⟨als', e1, e2⟩ := linesToks_block als _ _ h.symm
      rw [e1, linesToks_nil als' e2]
      rfl
  | cons l ls ih =>
    intro pend als h
    unfold declLines declLine at h
    unfold absLines absLine
    cases hd : l.dropWhile isInlineWs with
    | nil => rw [hd] at h; exact ih _ _ h
    | cons c d' =>
      rw [hd] at h
      simp only at h ⊢
      by_cases hc : c = '#'
      · simp only [hc, ↓reduceIte] at h ⊢
        cases hdl : dirLine ('#' :: d') with
        | none => rw [hdl] at h; simp at h
        | some ts =>
          rw [hdl] at h
          simp only at h
          cases hk : declLines f ls none with
          | none => rw [hk] at h; simp at h
          | some rest =>
            rw [hk] at h
            simp only [Option.map, Option.some.injEq] at h
            obtain ⟨k, ts', rfl⟩ := dirLine_hash d' ts hdl
            have hnd := dirLine_noDend _ _ hdl
            -- peel the flushed block, then the directive line
            have key : ∀ als1 : List ALine, linesToks als1 = (PTok.kw k :: ts') ++ .dend :: rest →
                ∃ a als2, als1 = a :: als2 ∧ alineOf ((PTok.kw k :: ts') ++ [.dend]) = some a ∧ absLines f ls none = some als2 := by
              intro als1 h1
              obtain ⟨a, als2, e1, e2, e3, e4⟩ := linesToks_dir als1 k ts' rest hnd h1
              refine ⟨a, als2, e1, ?_, ?_⟩
              · rw [← e3]; exact alineOf_toks a e2
              · exact ih none als2 (by rw [hk, e4])
            cases pend with
            | none =>
              simp only [flushTok, List.nil_append] at h
              obtain ⟨a, als2, e1, e2, e3⟩ := key als (by rw [← h])
              simp only [Option.bind, e2, e3, Option.map, flushLine, List.nil_append, e1]
            | some p =>
              simp only [flushTok, List.cons_append, List.nil_append] at h
              obtain ⟨als1, e0, e0'⟩ := linesToks_block als _ _ h.symm
              obtain ⟨a, als2, e1, e2, e3⟩ := key als1 (by rw [e0']; simp)
              simp only [List.cons_append] at e2
              simp only [Option.bind, e2, e3, Option.map, flushLine, e0, e1, List.cons_append, List.nil_append]
      · simp only [hc, ↓reduceIte] at h ⊢
        exact ih _ _ h

/-! ## positions of the lines of a file -/

theorem isWs_of_inline (x : Char) (h : isInlineWs x = true) : isWs x = true := by
  simp only [isInlineWs, Bool.and_eq_true] at h; exact h.1

theorem mem_takeWhile_sat (p : Char → Bool) (l : List Char) (x : Char) (h : x ∈ l.takeWhile p) : p x = true := by
  induction l with
  | nil => cases h
  | cons a l ih =>
    simp only [List.takeWhile_cons] at h
    split at h
    · simp only [List.mem_cons] at h
      rcases h with rfl | h
      · assumption
      · exact ih h
    · cases h

theorem take_length_succ (l : List Char) (c : Char) (X : List Char) : (l ++ c :: X).take (l.length + 1) = l ++ [c] := by
  induction l with
  | nil => simp
  | cons a l ih => simp only [List.cons_append, List.length_cons, List.take_succ_cons, ih]

theorem take_length_append (l X : List Char) : (l ++ X).take l.length = l := by
  induction l with
  | nil => simp
  | cons a l ih => simp only [List.cons_append, List.length_cons, List.take_succ_cons, ih]

theorem drop_length_succ (l : List Char) (c : Char) (X : List Char) : (l ++ c :: X).drop (l.length + 1) = X := by
  induction l with
  | nil => simp
  | cons a l ih => simp only [List.cons_append, List.length_cons, List.drop_succ_cons, ih]

theorem locatedLine_go_ws (row : Nat) (l : List Char) (h : ∀ x ∈ l, isWs x = true) : ∀ col, locatedLine.go row l col = [] := by
  induction l with
  | nil => intro col; rfl
  | cons c l ih =>
    intro col
    simp only [locatedLine.go, h c (by simp), ↓reduceIte]
    exact ih (fun x hx => h x (by simp [hx])) _

/-- the line `l` starts at offset `e` of `f`, on row `row`: where the next line starts, and the located characters of `l` -/
theorem line_facts (f l : List Char) (ls : List (List Char)) (e row : Nat) (hl : noNl l)
    (hdrop : f.drop e = l ++ tailLines ls) (he : e ≤ f.length) (hloc : locAt f e = ⟨row, 1⟩) :
    ∃ e', e + l.length ≤ e' ∧ e' ≤ f.length ∧ f.drop e' = joinLines ls ∧ (ls ≠ [] → locAt f e' = ⟨row + 1, 1⟩) ∧
      lch f e e' = locatedLine row l := by
  have hlen := congrArg List.length hdrop
  rw [List.length_drop, List.length_append] at hlen
  cases ls with
  | nil =>
    simp only [tailLines, List.length_nil, Nat.add_zero, List.append_nil] at hlen hdrop
    refine ⟨e + l.length, Nat.le_refl _, by omega, ?_, fun h => absurd rfl h, ?_⟩
    · rw [List.drop_eq_nil_of_le (by omega)]; rfl
    · unfold lch
      rw [hdrop, hloc, Nat.add_sub_cancel_left, List.take_length, go_line row l hl]
      rfl
  | cons l2 ls2 =>
    simp only [tailLines, List.length_cons] at hlen hdrop
    refine ⟨e + (l.length + 1), by omega, by omega, ?_, fun _ => ?_, ?_⟩
    · rw [← List.drop_drop, hdrop, drop_length_succ]; rfl
    · rw [locAt_add, hdrop, take_length_succ, hloc, List.foldl_append, foldl_advance_noNl l hl]
      simp [advance]
    · unfold lch
      rw [hdrop, hloc, Nat.add_sub_cancel_left, take_length_succ, go_append, go_line row l hl]
      simp only [locatedBlock.go, isWs_nl, ↓reduceIte, List.append_nil]
      rfl

/-- the leading whitespace of the line at offset `e`: where its first non-blank character is -/
theorem ws_facts (f l tl : List Char) (e : Nat) (c : Char) (d' : List Char) (hdrop : f.drop e = l ++ tl) (he : e ≤ f.length)
    (hd : l.dropWhile isInlineWs = c :: d') :
    f.length - (c :: d' ++ tl).length = e + (l.takeWhile isInlineWs).length ∧
    (l.takeWhile isInlineWs).length ≤ l.length ∧
    lch f e (e + (l.takeWhile isInlineWs).length) = [] := by
  have hsplit := List.takeWhile_append_dropWhile (p := isInlineWs) (l := l)
  have hlen := congrArg List.length hdrop
  have hl := congrArg List.length hsplit
  rw [hd] at hl
  rw [List.length_drop, List.length_append] at hlen
  rw [List.length_append] at hl
  refine ⟨?_, by omega, ?_⟩
  · rw [← hd, List.length_append, hd]; omega
  · apply lch_ws
    have hl2 : l ++ tl = l.takeWhile isInlineWs ++ (l.dropWhile isInlineWs ++ tl) := by
      rw [← List.append_assoc, hsplit]
    rw [Nat.add_sub_cancel_left, hdrop, hl2, take_length_append]
    intro x hx
    exact isWs_of_inline x (mem_takeWhile_sat isInlineWs l x hx)

/-! ## the stack machine of the character-level SPEC -/

/-- a directive line does not touch the emitted blocks -/
theorem specStep_blocks (stk : List Frame) (bl : List Block) (syms : Syms) (a : ALine) (h : a.isSrc = false) :
    specStep ⟨stk, ⟨bl, syms⟩⟩ a = (specStep ⟨stk, ⟨[], syms⟩⟩ a).map (fun s => ⟨s.stack, ⟨bl, s.out.syms⟩⟩) := by
  cases a with
  | src b => simp [ALine.isSrc] at h
  | define s => simp only [specStep]; split <;> rfl
  | undef s => simp only [specStep]; split <;> rfl
  | if_ e => rfl
  | elif e =>
    cases stk with
    | nil => rfl
    | cons fr stk => simp only [specStep]; split <;> rfl
  | else_ =>
    cases stk with
    | nil => rfl
    | cons fr stk => simp only [specStep]; split <;> rfl
  | endif =>
    cases stk with
    | nil => rfl
    | cons fr stk => rfl

/-- the characters already emitted for the pending block -/
def pendChars (f : List Char) (pend : Option Nat) (stk : List Frame) (e : Nat) : List LChar :=
  match pend with
  | some p => if allActive stk then lch f p e else []
  | none => []

/-- what the stack machine over abstract lines yields, as a state of the character-level machine -/
def specToC (r : Option SpecSt) : Option CSpecSt :=
  r.bind fun s' => if s'.stack.isEmpty then some ⟨s'.stack, s'.out.syms, s'.out.blocks.flatMap locatedBlock⟩ else none

theorem all_of_dropWhile_nil (p : Char → Bool) (l : List Char) (h : l.dropWhile p = []) : ∀ x ∈ l, p x = true := by
  induction l with
  | nil => intro x hx; cases hx
  | cons a l ih =>
    simp only [List.dropWhile_cons] at h
    split at h
    · intro x hx
      simp only [List.mem_cons] at hx
      rcases hx with rfl | hx
      · assumption
      · exact ih h x hx
    · cases h

/-- closing the pending block: its characters are the ones already emitted -/
theorem specRun_flush (f : List Char) (pend : Option Nat) (here e : Nat) (stk : List Frame) (bl : List Block) (syms : Syms)
    (hp : ∀ p, pend = some p → p ≤ e) (hle : e ≤ here) (hws : lch f e here = []) :
    ∃ bl', (∀ rest, specRun ⟨stk, ⟨bl, syms⟩⟩ (flushLine f pend here ++ rest) = specRun ⟨stk, ⟨bl', syms⟩⟩ rest) ∧
      bl'.flatMap locatedBlock = bl.flatMap locatedBlock ++ pendChars f pend stk e := by
  cases pend with
  | none => exact ⟨bl, fun _ => rfl, by simp [pendChars]⟩
  | some p =>
    have hpe := hp p rfl
    simp only [flushLine, List.cons_append, List.nil_append, specRun, specStep, pendChars]
    cases allActive stk with
    | true =>
      refine ⟨_, fun _ => rfl, ?_⟩
      simp only [↓reduceIte, List.flatMap_append, List.flatMap_cons, List.flatMap_nil, List.append_nil]
      rw [locatedBlock_eq_lch, lch_split f p e here hpe hle, hws, List.append_nil]
    | false => exact ⟨bl, fun _ => rfl, by simp⟩

theorem cspecRun_cons (l : List Char) (ls : List (List Char)) (row : Nat) (st : CSpecSt) :
    cspecRun (l :: ls) row st =
      match classify l with
      | .blank => cspecRun ls (row + 1) st
      | .source => cspecRun ls (row + 1) (if allActive st.stack then { st with out := st.out ++ locatedLine row l } else st)
      | .malformed => none
      | .dir a =>
        match specStep ⟨st.stack, ⟨[], st.syms⟩⟩ a with
        | some st' => cspecRun ls (row + 1) { st with stack := st'.stack, syms := st'.out.syms }
        | none => none := by
  rw [cspecRun]
  rfl

theorem pendChars_extend (f : List Char) (pend : Option Nat) (stk : List Frame) (e e' : Nat)
    (hp : ∀ p, pend = some p → p ≤ e) (hle : e ≤ e') :
    pendChars f pend stk e' = pendChars f pend stk e ++ (if pend.isSome && allActive stk then lch f e e' else []) := by
  cases pend with
  | none => simp [pendChars]
  | some p =>
    simp only [pendChars, Option.isSome_some, Bool.true_and]
    cases allActive stk with
    | true => simp only [↓reduceIte]; exact lch_split f p e e' (hp p rfl) hle
    | false => simp

/-- THE SPEC OVER RAW LINES is the stack machine over the abstract lines: `ls` are the lines from offset `e` (row `row`) on,
    `pend` the open source block, `bl` the blocks closed so far -/
theorem cspecRun_abs (f : List Char) : ∀ (ls : List (List Char)), (∀ l ∈ ls, noNl l) →
    ∀ (row e : Nat) (pend : Option Nat) (stk : List Frame) (syms : Syms) (out : List LChar) (bl : List Block),
      f.drop e = joinLines ls → e ≤ f.length → (ls ≠ [] → locAt f e = ⟨row, 1⟩) → (∀ p, pend = some p → p ≤ e) →
      out = bl.flatMap locatedBlock ++ pendChars f pend stk e →
      cspecRun ls row ⟨stk, syms, out⟩ =
        (absLines f ls pend).bind fun als => specToC (specRun ⟨stk, ⟨bl, syms⟩⟩ als) := by
  intro ls
  induction ls with
  | nil =>
    intro _ row e pend stk syms out bl hdrop he _ hp hout
    have hef : e = f.length := by
      have := List.drop_eq_nil_iff.mp hdrop
      omega
    subst hef
    obtain ⟨bl', h1, h2⟩ := specRun_flush f pend f.length f.length stk bl syms hp (Nat.le_refl _) (lch_self f _)
    simp only [absLines, Option.bind]
    rw [← List.append_nil (flushLine f pend f.length), h1]
    simp only [specRun, specToC, Option.bind, cspecRun, h2, ← hout]
  | cons l ls ih =>
    intro hnl row e pend stk syms out bl hdrop he hloc hp hout
    have hl : noNl l := hnl l (by simp)
    have hnl' : ∀ l' ∈ ls, noNl l' := fun l' hl' => hnl l' (by simp [hl'])
    simp only [joinLines] at hdrop
    obtain ⟨e', hle, he', hdrop', hloc', hlch⟩ := line_facts f l ls e row hl hdrop he (hloc (by simp))
    rw [cspecRun_cons, classify_eq l hl]
    unfold lineKind absLines absLine
    cases hd : l.dropWhile isInlineWs with
    | nil =>
      -- a blank line
      simp only
      have hall : ∀ x ∈ l, isWs x = true := fun x hx =>
        isWs_of_inline x (all_of_dropWhile_nil _ l hd x hx)
      have hnone : locatedLine row l = [] := locatedLine_go_ws row l hall 1
      refine ih hnl' (row + 1) e' pend stk syms out bl hdrop' he' hloc' (fun p h => by have := hp p h; omega) ?_
      rw [pendChars_extend f pend stk e e' hp (by omega), hlch, hnone]
      simp only [ite_self, List.append_nil]
      exact hout
    | cons c d' =>
      obtain ⟨hhere, hwl, hws⟩ := ws_facts f l (tailLines ls) e c d' hdrop he hd
      simp only
      by_cases hc : c = '#'
      · -- a directive line
        subst hc
        simp only [ne_eq, not_true_eq_false, ↓reduceIte]
        cases hal : (dirLine ('#' :: d')).bind (fun ts => alineOf (ts ++ [.dend])) with
        | none => rfl
        | some a =>
          simp only
          have hsrc : a.isSrc = false := by
            cases hdl : dirLine ('#' :: d') with
            | none => rw [hdl] at hal; simp at hal
            | some ts => rw [hdl] at hal; exact (alineOf_sound _ _ hal).2
          rw [hhere]
          obtain ⟨bl', hfl, hbl'⟩ := specRun_flush f pend (e + (l.takeWhile isInlineWs).length) e stk bl syms hp
            (by omega) hws
          have hout' : out = bl'.flatMap locatedBlock ++ pendChars f none stk e' := by
            rw [hbl', hout]; simp [pendChars]
          have hstep := specStep_blocks stk bl' syms a hsrc
          cases hst : specStep ⟨stk, ⟨[], syms⟩⟩ a with
          | none =>
            rw [hst] at hstep
            simp only
            cases absLines f ls none with
            | none => rfl
            | some rest =>
              simp only [Option.map, Option.bind]
              rw [hfl, specRun, hstep]
              rfl
          | some st' =>
            rw [hst] at hstep
            simp only
            rw [ih hnl' (row + 1) e' none st'.stack st'.out.syms out bl' hdrop' he' hloc' (fun p h => by cases h)
              (by rw [hout']; simp [pendChars])]
            cases absLines f ls none with
            | none => rfl
            | some rest =>
              simp only [Option.map, Option.bind]
              rw [hfl, specRun, hstep]
              rfl
      · -- a source line
        simp only [ne_eq, hc, not_false_eq_true, ↓reduceIte]
        rw [hhere]
        have hle2 : e + (l.takeWhile isInlineWs).length ≤ e' := by omega
        have hsplit := lch_split f e (e + (l.takeWhile isInlineWs).length) e' (by omega) hle2
        rw [hws, List.nil_append, hlch] at hsplit
        have hp' : ∀ p, some (pend.getD (e + (l.takeWhile isInlineWs).length)) = some p → p ≤ e' := by
          intro p h
          simp only [Option.some.injEq] at h
          subst h
          cases pend with
          | none => simpa using hle2
          | some q => have := hp q rfl; simp only [Option.getD]; omega
        cases hact : allActive stk with
        | false =>
          simp only [Bool.false_eq_true, ↓reduceIte]
          refine ih hnl' (row + 1) e' _ stk syms out bl hdrop' he' hloc' hp' ?_
          rw [hout]
          cases pend <;> simp [pendChars, hact]
        | true =>
          simp only [↓reduceIte]
          refine ih hnl' (row + 1) e' _ stk syms _ bl hdrop' he' hloc' hp' ?_
          rw [hout]
          cases pend with
          | none => simp [pendChars, hact, hsplit]
          | some q =>
            simp only [pendChars, hact, ↓reduceIte, Option.getD, List.append_assoc]
            rw [lch_split f q e e' (hp q rfl) (by omega), hlch]

/-- THE CHARACTER-LEVEL SPEC, READ DECLARATIVELY: `cspecFile` accepts iff every directive line is a well-formed directive
    and the stack machine over the abstract lines of the file ends balanced; its result is the located characters of
    the emitted blocks and the final symbols -/
theorem cspecFile_eq (f : List Char) (D : Syms) :
    cspecFile f D = (absLines f (splitLines f) none).bind fun als =>
      (specFile als D).map fun o => (o.blocks.flatMap locatedBlock, o.syms) := by
  obtain ⟨hj, hnl, hne⟩ := splitLines_spec f
  unfold cspecFile
  rw [cspecRun_abs f (splitLines f) hnl 1 0 none [] D [] [] (by simpa using hj.symm) (Nat.zero_le _) (fun _ => rfl)
    (fun p h => by cases h) (by simp [pendChars])]
  cases absLines f (splitLines f) none with
  | none => rfl
  | some als =>
    simp only [Option.bind, specFile, specToC]
    cases specRun ⟨[], ⟨[], D⟩⟩ als with
    | none => rfl
    | some s' =>
      obtain ⟨stk, o⟩ := s'
      cases stk with
      | nil => rfl
      | cons fr stk => rfl

/-! ## lexical well-formedness, line by line -/

/-- the line is a directive line: its first character that is not inline whitespace is `#` -/
def isDirLine (l : List Char) : Prop := ∃ d', l.dropWhile isInlineWs = '#' :: d'

theorem declLines_ne_none (f : List Char) : ∀ (ls : List (List Char)) (pend : Option Nat),
    declLines f ls pend ≠ none ↔ ∀ l ∈ ls, ∀ d', l.dropWhile isInlineWs = '#' :: d' → dirLine ('#' :: d') ≠ none := by
  intro ls
  induction ls with
  | nil => intro pend; simp [declLines]
  | cons l ls ih =>
    intro pend
    unfold declLines declLine
    cases hd : l.dropWhile isInlineWs with
    | nil =>
      simp only [List.mem_cons, forall_eq_or_imp, hd, reduceCtorEq, false_implies, implies_true, true_and]
      exact ih pend
    | cons c d' =>
      simp only [List.mem_cons, forall_eq_or_imp, hd, List.cons.injEq]
      by_cases hc : c = '#'
      · subst hc
        simp only [↓reduceIte, true_and]
        cases hdl : dirLine ('#' :: d') with
        | none =>
          simp only [ne_eq, not_true_eq_false, false_iff, not_and]
          intro h
          exact absurd hdl (h d' rfl)
        | some ts =>
          simp only
          rw [← ih none]
          cases declLines f ls none with
          | none => simp
          | some rest =>
            simp only [Option.map, ne_eq, reduceCtorEq, not_false_eq_true, and_true, true_iff]
            intro d'' h
            subst h
            rw [hdl]; simp
      · simp only [hc, ↓reduceIte, false_and, false_implies, implies_true, true_and]
        exact ih _

end Slicec.Pp
