import SlicecVerif.Lemmas.Resolve

namespace Slicec

def Table.keys (t : Table) : List String := t.map (·.1)

theorem find?_unique {α} (p : α → Bool) (l : List α) (x : α) (hx : x ∈ l) (hp : p x = true)
    (huniq : ∀ y ∈ l, p y = true → y = x) : l.find? p = some x := by
  induction l with
  | nil => cases hx
  | cons a l ih =>
    simp only [List.find?_cons]
    by_cases ha : p a = true
    · have := huniq a (by simp) ha
      subst this
      simp [hp]
    · have ha' : p a = false := by simpa using ha
      simp only [ha']
      rcases List.mem_cons.mp hx with rfl | hx'
      · exact absurd hp ha
      · exact ih hx' (fun y hy => huniq y (List.mem_cons_of_mem _ hy))

theorem Table.value_unique (t : Table) (k : String) (v1 v2 : NodeInfo) (hnd : t.keys.Nodup)
    (h1 : (k, v1) ∈ t) (h2 : (k, v2) ∈ t) : (k, v1) = (k, v2) := by
  induction t with
  | nil => cases h1
  | cons e t ih =>
    simp only [Table.keys, List.map_cons, List.nodup_cons] at hnd
    rcases List.mem_cons.mp h1 with e1 | h1' <;> rcases List.mem_cons.mp h2 with e2 | h2'
    · rw [e1, e2]
    · exact absurd (List.mem_map.mpr ⟨(k, v2), h2', by rw [← e1]⟩) hnd.1
    · exact absurd (List.mem_map.mpr ⟨(k, v1), h1', by rw [← e2]⟩) hnd.1
    · exact ih hnd.2 h1' h2'

theorem Table.find_eq_of_mem (t : Table) (k : String) (v : NodeInfo) (hnd : t.keys.Nodup) (hm : (k, v) ∈ t) :
    t.find k = some v :=
  Table.find_of_nodup t hnd k v hm

theorem Table.find_none_of_not_mem (t : Table) (k : String) (h : k ∉ t.keys) : t.find k = none := by
  induction t with
  | nil => rfl
  | cons e rest ih =>
    simp only [Table.keys, List.map_cons, List.mem_cons, not_or] at h
    simp only [Table.find]
    rw [ih h.2]
    have : ¬ (e.1 == k) = true := by
      intro hk
      have hek : e.1 = k := by simpa using hk
      exact h.1 hek.symm
    simp [this]

/-- with pairwise distinct keys the table is a finite map: lookups do not depend on insertion order -/
theorem Table.find_perm (t1 t2 : Table) (hp : t1.Perm t2) (hnd : t1.keys.Nodup) (k : String) :
    t1.find k = t2.find k := by
  have hnd2 : t2.keys.Nodup := (hp.map _).nodup_iff.mp hnd
  by_cases hk : k ∈ t1.keys
  · obtain ⟨e, he, hek⟩ := List.mem_map.mp hk
    obtain ⟨ek, ev⟩ := e
    simp only at hek; subst hek
    rw [Table.find_eq_of_mem t1 ek ev hnd he, Table.find_eq_of_mem t2 ek ev hnd2 (hp.mem_iff.mp he)]
  · have hk2 : k ∉ t2.keys := fun h => hk ((hp.map _).mem_iff.mpr h)
    rw [Table.find_none_of_not_mem t1 k hk, Table.find_none_of_not_mem t2 k hk2]


theorem firstSome_congr {α β} (f g : α → Option β) (l : List α) (h : ∀ x, f x = g x) : firstSome f l = firstSome g l := by
  induction l with
  | nil => rfl
  | cons x xs ih => simp [firstSome, h x, ih]

theorem scopeLoop_perm (t1 t2 : Table) (hp : t1.Perm t2) (hnd : t1.keys.Nodup) (id : String) (m : List String) :
    scopeLoop t1 id m = scopeLoop t2 id m := by
  induction m using scopesOutward.induct with
  | case1 => simp [scopeLoop]
  | case2 a m ih =>
    rw [scopeLoop, scopeLoop, Table.find_perm t1 t2 hp hnd, ih]

theorem findNodeWithScope_perm (t1 t2 : Table) (hp : t1.Perm t2) (hnd : t1.keys.Nodup) (id scope : String) :
    findNodeWithScope t1 id scope = findNodeWithScope t2 id scope := by
  unfold findNodeWithScope
  simp only [Table.find_perm t1 t2 hp hnd, scopeLoop_perm t1 t2 hp hnd]

theorem walkAlias_perm (t1 t2 : Table) (hp : t1.Perm t2) (hnd : t1.keys.Nodup) (fuel : Nat) :
    ∀ chain attrs cur, walkAlias t1 fuel chain attrs cur = walkAlias t2 fuel chain attrs cur := by
  induction fuel with
  | zero => intro chain attrs cur; rfl
  | succ f ih =>
    intro chain attrs cur
    unfold walkAlias
    split
    · rfl
    · cases cur.aliasOf with
      | none => rfl
      | some u =>
        simp only
        cases u.ty with
        | named id =>
          simp only [findNodeWithScope_perm t1 t2 hp hnd]
          cases findNodeWithScope t2 id cur.modScope with
          | none => rfl
          | some n => simp only [ih]
        | prim p => rfl
        | seq e => rfl
        | dict k v => rfl
        | result s f => rfl

theorem numAliases_perm (t1 t2 : Table) (hp : t1.Perm t2) : numAliases t1 = numAliases t2 := by
  unfold numAliases aliasKeys
  exact ((hp.filter _).map _).length_eq

theorem resolveNamed_perm (t1 t2 : Table) (hp : t1.Perm t2) (hnd : t1.keys.Nodup) (w : Want) (id scope : String) :
    resolveNamed t1 w id scope = resolveNamed t2 w id scope := by
  unfold resolveNamed
  rw [findNodeWithScope_perm t1 t2 hp hnd, numAliases_perm t1 t2 hp]
  cases findNodeWithScope t2 id scope with
  | none => rfl
  | some n => simp only [walkAlias_perm t1 t2 hp hnd]

end Slicec
