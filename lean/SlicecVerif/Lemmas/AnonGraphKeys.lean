/-
  The graph of anonymous types (`Cyc.anonGraph`) and the table-driven descent (`trefWithin`), for programs that are NOT
  necessarily accepted: part 7 of Lemmas/RequestBridge.lean uses acceptance (`validate P = []`) only to know that the keys of the
  alias definitions are pairwise distinct (and, for the sites, that references resolve). The lemmas `*_k` below are those
  lemmas with exactly that hypothesis (`hnd`), proofs unchanged; the new lemmas characterise, alias by alias, what the gate
  reports: alias `a` is reported iff the descent into its underlying type does not end.
-/
import SlicecVerif.Lemmas.RequestBridge

namespace Slicec

/-! ## part 7 of Lemmas/RequestBridge.lean under "alias keys are pairwise distinct" -/

/-- in a program with distinct alias keys, an alias entry of the name table is the alias `anonGraph` finds under its key: kind alias, key
    listed, and at the index of the key the start record of its underlying type, written in its module scope -/
theorem alias_indexed_k (P : Program) (hkn : ((Cyc.aliasDefs P).map (·.1)).Nodup) (n : NodeInfo) (u : TRef) (hn : ∃ k, (k, n) ∈ buildTable P)
    (ha : n.aliasOf = some u) :
    n.kind = .alias ∧ (gKeys P).contains n.key = true ∧
    ∃ c, (gStarts P)[(gKeys P).idxOf n.key]? = some (n.modScope, c) ∧ PlacedT (gNodes P) n.modScope u c := by
  obtain ⟨k, hk⟩ := hn
  obtain ⟨hkind, hmem⟩ := buildTable_alias_entry P (k, n) u hk ha
  have hnd := hkn
  have hget := getElem?_idxOf_fst (Cyc.aliasDefs P) hnd n.key (n.modScope, u) hmem
  refine ⟨hkind, ?_, ?_⟩
  · simp only [List.contains_iff_mem, gKeys]
    exact List.mem_map.mpr ⟨_, hmem, rfl⟩
  · obtain ⟨_, _, h3⟩ := foldl_alloc (Cyc.aliasDefs P) ([], [])
    obtain ⟨c, hc, hp⟩ := h3 _ _ hget
    refine ⟨c, ?_, ?_⟩
    · simpa [gStarts, gKeys, anonAlloc_eq] using hc
    · simpa [gNodes, anonAlloc_eq] using hp

theorem aliasIndexOf_alias_k (P : Program) (hkn : ((Cyc.aliasDefs P).map (·.1)).Nodup) (id scope : String) (n : NodeInfo)
    (hf : findNodeWithScope (buildTable P) id scope = some n) (hn : n.isAlias = true) :
    Cyc.aliasIndexOf (buildTable P) (gKeys P) id scope = some ((gKeys P).idxOf n.key) := by
  cases hu : n.aliasOf with
  | none => simp [NodeInfo.isAlias, hu] at hn
  | some u =>
    obtain ⟨hk, hc, _⟩ := alias_indexed_k P hkn n u (findNodeWithScope_mem _ _ _ _ hf) hu
    unfold Cyc.aliasIndexOf
    rw [hf]
    have hc' : n.key ∈ gKeys P := by simpa using hc
    simp [hk, hc']

/-- **the alias chain as `bindChild` walks it.** Along an alias chain that ends in a written type expression, `bindChild`
    (with one unit of fuel per alias left) arrives at what `allocT` made of that expression, and that is the start record of
    an alias -/
theorem bindChild_along_path_k (P : Program) (hkn : ((Cyc.aliasDefs P).map (·.1)).Nodup) {n : NodeInfo} {links : List TRef} {tgt : Target}
    (hp : AliasPath (buildTable P) n links tgt) : (∃ k, (k, n) ∈ buildTable P) → ∀ e s, tgt = .expr e s →
    ∀ fuel, links.length ≤ fuel + 1 →
    ∃ (a : Nat) (c : Cyc.AChild), (gStarts P)[a]? = some (s, c) ∧ PlacedE (gNodes P) s e c ∧
      Cyc.bindChild (buildTable P) (gKeys P) (gStarts P) fuel
        ((gStarts P).getD ((gKeys P).idxOf n.key) ("", .leaf)).1 ((gStarts P).getD ((gKeys P).idxOf n.key) ("", .leaf)).2
        = childNode c := by
  induction hp with
  | endNode _ _ _ _ => intro _ e s ht; cases ht
  | @endExpr cur u hu hne =>
    intro hc e s ht fuel _
    cases ht
    obtain ⟨_, _, c, hget, hpl⟩ := alias_indexed_k P hkn cur u hc hu
    cases u with
    | mk a ty o =>
      simp only [PlacedT] at hpl
      simp only [TRef.ty] at hne ⊢
      refine ⟨_, c, hget, hpl, ?_⟩
      rw [List.getD_eq_getElem?_getD, hget]
      simp only [Option.getD_some]
      exact bindChild_not_named _ _ _ _ _ _ (placedE_not_named _ _ _ _ hne hpl)
  | @step cur u id n' us tgt hu hty hf hn' hp' ih =>
    intro hc e s ht fuel hlen
    obtain ⟨_, _, c, hget, hpl⟩ := alias_indexed_k P hkn cur u hc hu
    cases u with
    | mk a ty o =>
      simp only [TRef.ty] at hty
      subst hty
      simp only [PlacedT, PlacedE] at hpl
      subst hpl
      have hne := hp'.ne_nil
      cases fuel with
      | zero =>
        exfalso
        cases us with
        | nil => exact hne rfl
        | cons x xs => simp at hlen
      | succ f =>
        obtain ⟨a', c', hs', hpl', hb'⟩ := ih (findNodeWithScope_mem _ _ _ _ hf) e s ht f (by simpa using hlen)
        refine ⟨a', c', hs', hpl', ?_⟩
        rw [List.getD_eq_getElem?_getD, hget]
        simp only [Option.getD_some]
        rw [Cyc.bindChild, aliasIndexOf_alias_k P hkn id cur.modScope n' hf hn']
        exact hb'

/-- **a flattened name is an edge of the graph.** When a name resolves, through aliases, to a written type expression `e`
    (module scope `s`), `bindChild` — as `anonGraph` runs it — binds the name to the node `allocT` made of `e` (to nothing when
    `e` is a keyword), and that node is the start of an alias -/
theorem bind_of_resolve_k (P : Program) (hkn : ((Cyc.aliasDefs P).map (·.1)).Nodup) (id scope : String) (e : TyExpr) (s : String) (extra : List Attr)
    (h : resolveNamed (buildTable P) .type id scope = .ok (.expr e s, extra)) :
    ∃ (a : Nat) (c : Cyc.AChild), (gStarts P)[a]? = some (s, c) ∧ PlacedE (gNodes P) s e c ∧
      gBind P scope (.named id) = childNode c := by
  unfold resolveNamed at h
  cases hf : findNodeWithScope (buildTable P) id scope with
  | none => rw [hf] at h; cases h
  | some n0 =>
    rw [hf] at h
    simp only at h
    by_cases ha : n0.isAlias = true
    · simp only [ha, if_true] at h
      cases hw : walkAlias (buildTable P) (numAliases (buildTable P) + 1) [] [] n0 with
      | error e => rw [hw] at h; cases h
      | ok res =>
        obtain ⟨tgt, attrs⟩ := res
        rw [hw] at h
        obtain ⟨links, hp, hl⟩ := walkAlias_path_len _ _ _ _ _ _ _ hw ha
        cases tgt with
        | node m => simp only at h; split at h <;> cases h
        | expr e' s' =>
          simp only at h
          split at h
          · simp only [Except.ok.injEq, Prod.mk.injEq, Target.expr.injEq] at h
            obtain ⟨⟨rfl, rfl⟩, _⟩ := h
            rw [numAliases_buildTable, ← gStarts_length] at hl
            obtain ⟨a, c, hs, hpl, hb⟩ := bindChild_along_path_k P hkn hp (findNodeWithScope_mem _ _ _ _ hf) _ _ rfl
              (gStarts P).length hl
            refine ⟨a, c, hs, hpl, ?_⟩
            unfold gBind
            rw [Cyc.bindChild, aliasIndexOf_alias_k P hkn id scope n0 hf ha]
            exact hb
          · cases h
    · simp only [ha, Bool.false_eq_true, if_false] at h
      split at h <;> cases h


/-- one reference inside a node: if the descent below every child node it is bound to stays within `2 f + 1`, the reference
    stays within `2 f + 2` -/
theorem child_within_k (P : Program) (hkn : ((Cyc.aliasDefs P).map (·.1)).Nodup) (f : Nat) (s : String) (r : TRef) (c : Cyc.AChild)
    (hpl : PlacedT (gNodes P) s r c)
    (ih : ∀ (x' : Nat) (e' : TyExpr) (s' : String), PlacedE (gNodes P) s' e' (.node x') → gBind P s c = some x' →
      tyWithin (buildTable P) s' (2 * f + 1) e' = true) :
    trefWithin (buildTable P) s (2 * f + 2) r = true := by
  cases r with
  | mk a ty o =>
    simp only [PlacedT] at hpl
    have h2 : 2 * f + 2 = (2 * f + 1) + 1 := by omega
    rw [h2]
    cases hty : ty.isAnon with
    | true =>
      obtain ⟨x1, hc, _⟩ := placedE_isAnon _ _ _ _ hty hpl
      subst hc
      have hw := ih x1 ty s hpl (bindChild_not_named _ _ _ _ _ _ (by intro id h; cases h))
      cases ty with
      | prim p => cases hty
      | named x => cases hty
      | seq r => simp only [trefWithin]; exact hw
      | dict k v => simp only [trefWithin]; exact hw
      | result a b => simp only [trefWithin]; exact hw
    | false =>
      cases ty with
      | seq r => cases hty
      | dict k v => cases hty
      | result a b => cases hty
      | prim p => simp [trefWithin, tyWithin]
      | named id =>
        simp only [PlacedE] at hpl
        subst hpl
        simp only [trefWithin]
        cases hr : resolveNamed (buildTable P) .type id s with
        | error e => simp
        | ok res =>
          obtain ⟨tgt, extra⟩ := res
          cases tgt with
          | node n => simp
          | expr e' s' =>
            simp only
            obtain ⟨a', c', _, hpl', hb⟩ := bind_of_resolve_k P hkn id s e' s' extra hr
            cases he : e'.isAnon with
            | false => exact tyWithin_not_anon _ _ _ _ he
            | true =>
              obtain ⟨x', hc', _⟩ := placedE_isAnon _ _ _ _ he hpl'
              subst hc'
              exact ih x' e' s' hpl' hb

/-- **the descent follows a path of the graph**: below a node from which `revisits_anonymous_type` finds no revisit — with the
    current path and `fuelR` nested frames — the converter's descent needs at most `2 fuelR + 1` units -/
theorem descent_in_graph_k (P : Program) (hkn : ((Cyc.aliasDefs P).map (·.1)).Nodup) : ∀ (fuelR : Nat) (path : List Nat) (x : Nat) (e : TyExpr)
    (s : String), PlacedE (gNodes P) s e (.node x) → path.Nodup → (∀ p ∈ path, p < (gGraph P).length) →
    (gGraph P).length + 1 ≤ path.length + fuelR → Cyc.revisits (gGraph P) fuelR x path = false →
    tyWithin (buildTable P) s (2 * fuelR + 1) e = true := by
  intro fuelR
  induction fuelR with
  | zero =>
    intro path x e s _ hnd hlt hlen _
    have := List.Nodup.length_le_of_subset hnd (fun p hp => List.mem_range.2 (hlt p hp))
    simp only [List.length_range] at this
    omega
  | succ f ih =>
    intro path x e s hpl hnd hlt hlen hrev
    rw [Cyc.revisits_succ] at hrev
    cases hc : path.contains x with
    | true => rw [hc] at hrev; simp at hrev
    | false =>
      rw [hc] at hrev
      simp only [Bool.false_eq_true, if_false] at hrev
      have hx : x ∉ path := by simpa using hc
      have hxlt : x < (gNodes P).length := by
        obtain ⟨x0, h0, hl⟩ := placedE_isAnon _ _ e _ (by cases e <;> simp_all [PlacedE, TyExpr.isAnon]) hpl
        cases h0; exact hl
      have hnd' : (path ++ [x]).Nodup := by
        rw [List.nodup_append]
        refine ⟨hnd, by simp, ?_⟩
        intro a ha b hb
        simp only [List.mem_singleton] at hb
        subst hb
        intro hab; subst hab; exact hx ha
      have hlt' : ∀ p ∈ path ++ [x], p < (gGraph P).length := by
        intro p hp
        rcases List.mem_append.1 hp with hp | hp
        · exact hlt p hp
        · simp only [List.mem_singleton] at hp; subst hp; rw [gGraph_length]; exact hxlt
      have hlen' : (gGraph P).length + 1 ≤ (path ++ [x]).length + f := by
        simp only [List.length_append, List.length_singleton]; omega
      -- every child node the references of node `x` are bound to
      have kid : ∀ (kids : List Cyc.AChild) (c : Cyc.AChild), (gNodes P)[x]? = some ⟨s, kids⟩ → c ∈ kids →
          ∀ (x' : Nat) (e' : TyExpr) (s' : String), PlacedE (gNodes P) s' e' (.node x') → gBind P s c = some x' →
            tyWithin (buildTable P) s' (2 * f + 1) e' = true := by
        intro kids c hk hcm x' e' s' hpl' hb
        have hx'lt : x' < (gNodes P).length := by
          obtain ⟨x0, h0, hl⟩ := placedE_isAnon _ _ e' _ (by cases e' <;> simp_all [PlacedE, TyExpr.isAnon]) hpl'
          cases h0; exact hl
        have hmem := mem_ibases_of_child P x s kids c x' hk hcm hb hx'lt
        have hr : Cyc.revisits (gGraph P) f x' (path ++ [x]) = false := by
          cases hh : Cyc.revisits (gGraph P) f x' (path ++ [x]) with
          | false => rfl
          | true =>
            have : ((Cyc.ibases (gGraph P) x).any fun c => Cyc.revisits (gGraph P) f c (path ++ [x])) = true :=
              List.any_eq_true.mpr ⟨x', hmem, hh⟩
            rw [this] at hrev; cases hrev
        exact ih (path ++ [x]) x' e' s' hpl' hnd' hlt' hlen' hr
      have h3 : 2 * (f + 1) + 1 = (2 * f + 2) + 1 := by omega
      rw [h3]
      cases e with
      | prim p => simp [PlacedE] at hpl
      | named id => simp [PlacedE] at hpl
      | seq r =>
        obtain ⟨x0, c1, h0, hk, hp1⟩ := hpl
        cases h0
        simp only [tyWithin]
        exact child_within_k P hkn f s r c1 hp1 (kid _ c1 hk (by simp))
      | dict k v =>
        obtain ⟨x0, ck, cv, h0, hk, hp1, hp2⟩ := hpl
        cases h0
        simp only [tyWithin, Bool.and_eq_true]
        exact ⟨child_within_k P hkn f s k ck hp1 (kid _ ck hk (by simp)), child_within_k P hkn f s v cv hp2 (kid _ cv hk (by simp))⟩
      | result a b =>
        obtain ⟨x0, ca, cb, h0, hk, hp1, hp2⟩ := hpl
        cases h0
        simp only [tyWithin, Bool.and_eq_true]
        exact ⟨child_within_k P hkn f s a ca hp1 (kid _ ca hk (by simp)), child_within_k P hkn f s b cb hp2 (kid _ cb hk (by simp))⟩

/-! ## what the gate reports, alias by alias -/

/-- a walk of `L` steps from `x` -/
inductive Walk (E : Cyc.EdgeFn) : Nat → Nat → Prop
  | zero (x : Nat) : Walk E x 0
  | succ {x y L : Nat} : Cyc.EStep E x y → Walk E y L → Walk E x (L + 1)

/-- from a node that lies on, or leads to, a cycle there are walks of every length -/
theorem walk_of_reach_cycle (E : Cyc.EdgeFn) {y : Nat} (hyy : Cyc.EReach E y y) :
    ∀ (L z : Nat), (z = y ∨ Cyc.EReach E z y) → Walk E z L := by
  intro L
  induction L with
  | zero => intro z _; exact .zero z
  | succ L ih =>
    intro z hz
    have hzy : Cyc.EReach E z y := by
      rcases hz with rfl | hz
      · exact hyy
      · exact hz
    obtain ⟨b, hb, hby⟩ := hzy.head
    exact .succ hb (ih b hby)

theorem walk_of_reachesCycle (ag : Cyc.IGraph) (x : Nat) (h : Cyc.ReachesCycle ag x) (L : Nat) : Walk (Cyc.igEdges ag) x L := by
  obtain ⟨y, hy, hyy⟩ := h
  refine walk_of_reach_cycle _ hyy L x ?_
  rcases hy with rfl | hy
  · exact .inl rfl
  · exact .inr hy

/-- along an alias chain that ends in a NODE (a struct, an enum, a custom type, a primitive), `bindChild` arrives nowhere -/
theorem bindChild_along_path_node_k (P : Program) (hkn : ((Cyc.aliasDefs P).map (·.1)).Nodup) {n : NodeInfo} {links : List TRef} {tgt : Target}
    (hp : AliasPath (buildTable P) n links tgt) : (∃ k, (k, n) ∈ buildTable P) → ∀ m, tgt = .node m → ∀ fuel,
    Cyc.bindChild (buildTable P) (gKeys P) (gStarts P) fuel
      ((gStarts P).getD ((gKeys P).idxOf n.key) ("", .leaf)).1 ((gStarts P).getD ((gKeys P).idxOf n.key) ("", .leaf)).2 = none := by
  induction hp with
  | @endNode cur u id n' hu hty hf hn' =>
    intro hc m _ fuel
    obtain ⟨_, _, c, hget, hpl⟩ := alias_indexed_k P hkn cur u hc hu
    cases u with
    | mk a ty o =>
      simp only [TRef.ty] at hty
      subst hty
      simp only [PlacedT, PlacedE] at hpl
      subst hpl
      rw [List.getD_eq_getElem?_getD, hget]
      simp only [Option.getD_some]
      cases fuel with
      | zero => rfl
      | succ f =>
        rw [Cyc.bindChild]
        have hk : n'.kind ≠ .alias := by
          intro hk
          obtain ⟨k', hk'⟩ := findNodeWithScope_mem _ _ _ _ hf
          have := (buildTable_entry P (k', n') hk').2.2 hk
          rw [hn'] at this; cases this
        have : Cyc.aliasIndexOf (buildTable P) (gKeys P) id cur.modScope = none := by
          unfold Cyc.aliasIndexOf
          rw [hf]
          simp [hk]
        rw [this]
  | endExpr _ _ => intro _ m ht; cases ht
  | @step cur u id n' us tgt hu hty hf hn' hp' ih =>
    intro hc m ht fuel
    obtain ⟨_, _, c, hget, hpl⟩ := alias_indexed_k P hkn cur u hc hu
    cases u with
    | mk a ty o =>
      simp only [TRef.ty] at hty
      subst hty
      simp only [PlacedT, PlacedE] at hpl
      subst hpl
      rw [List.getD_eq_getElem?_getD, hget]
      simp only [Option.getD_some]
      cases fuel with
      | zero => rfl
      | succ f =>
        rw [Cyc.bindChild, aliasIndexOf_alias_k P hkn id cur.modScope n' hf hn']
        exact ih (findNodeWithScope_mem _ _ _ _ hf) m ht f

/-- a name that resolves to a node is no edge of the graph of anonymous types -/
theorem bind_none_of_resolve_node_k (P : Program) (hkn : ((Cyc.aliasDefs P).map (·.1)).Nodup) (id scope : String) (n : NodeInfo) (extra : List Attr)
    (h : resolveNamed (buildTable P) .type id scope = .ok (.node n, extra)) : gBind P scope (.named id) = none := by
  unfold resolveNamed at h
  cases hf : findNodeWithScope (buildTable P) id scope with
  | none => rw [hf] at h; cases h
  | some n0 =>
    rw [hf] at h
    simp only at h
    by_cases ha : n0.isAlias = true
    · simp only [ha, if_true] at h
      cases hw : walkAlias (buildTable P) (numAliases (buildTable P) + 1) [] [] n0 with
      | error e => rw [hw] at h; cases h
      | ok res =>
        obtain ⟨tgt, attrs⟩ := res
        rw [hw] at h
        obtain ⟨links, hp, _⟩ := walkAlias_path_len _ _ _ _ _ _ _ hw ha
        cases tgt with
        | expr e' s' => simp only at h; split at h <;> cases h
        | node m =>
          unfold gBind
          rw [Cyc.bindChild, aliasIndexOf_alias_k P hkn id scope n0 hf ha]
          exact bindChild_along_path_node_k P hkn hp (findNodeWithScope_mem _ _ _ _ hf) m rfl _
    · unfold gBind
      rw [Cyc.bindChild]
      have hk : n0.kind ≠ .alias := by
        intro hk
        obtain ⟨k', hk'⟩ := findNodeWithScope_mem _ _ _ _ hf
        exact ha ((buildTable_entry P (k', n0) hk').2.2 hk)
      have : Cyc.aliasIndexOf (buildTable P) (gKeys P) id scope = none := by
        unfold Cyc.aliasIndexOf
        rw [hf]
        simp [hk]
      rw [this]

/-- a step of the graph of anonymous types leaves a node through one of its children -/
theorem kid_of_step (P : Program) (x y : Nat) (s : String) (kids : List Cyc.AChild)
    (hx : (gNodes P)[x]? = some ⟨s, kids⟩) (hstep : Cyc.EStep (Cyc.igEdges (gGraph P)) x y) :
    ∃ c ∈ kids, gBind P s c = some y := by
  rw [Cyc.igEdges_step] at hstep
  unfold Cyc.ibases at hstep
  rw [List.mem_filter, List.getD_eq_getElem?_getD] at hstep
  have : (gGraph P)[x]? = some (kids.filterMap (gBind P s)) := by simp [gGraph, hx]
  rw [this] at hstep
  simp only [Option.getD_some, List.mem_filterMap] at hstep
  exact hstep.1

/-- **the descent follows every walk of the graph**: if the descent into a reference that is bound to node `x` ends within
    `F` units, every walk from `x` has fewer than `F` steps -/
theorem descent_needs_fuel_k (P : Program) (hkn : ((Cyc.aliasDefs P).map (·.1)).Nodup)
    (hP : ∀ f ∈ P, ∀ d ∈ f.defs, RefsOK (buildTable P) f.modPath ((Validate.defVisitedTRefs d).flatMap Validate.subRefsT)) :
    ∀ F : Nat,
    (∀ (s : String) (r : TRef) (c : Cyc.AChild) (x L : Nat), PlacedT (gNodes P) s r c → gBind P s c = some x →
      RefsOK (buildTable P) s (Validate.subRefsT r) → Walk (Cyc.igEdges (gGraph P)) x L →
      trefWithin (buildTable P) s F r = true → L + 1 ≤ F) ∧
    (∀ (s : String) (e : TyExpr) (x L : Nat), PlacedE (gNodes P) s e (.node x) →
      RefsOK (buildTable P) s (Validate.subRefsE e) → Walk (Cyc.igEdges (gGraph P)) x L →
      tyWithin (buildTable P) s F e = true → L + 1 ≤ F) := by
  intro F
  induction F with
  | zero =>
    constructor
    · intro s r c x L _ _ _ _ h; simp [trefWithin] at h
    · intro s e x L _ _ _ h; simp [tyWithin] at h
  | succ F ih =>
    obtain ⟨ihT, ihE⟩ := ih
    constructor
    · intro s r c x L hpl hb hok hw hwi
      cases r with
      | mk a ty o =>
        simp only [PlacedT] at hpl
        have hsub : RefsOK (buildTable P) s (Validate.subRefsE ty) :=
          hok.sub (fun r hr => by simp [Validate.subRefsT, hr])
        -- an anonymous type: the reference is the node itself
        have anon : ty.isAnon = true → tyWithin (buildTable P) s F ty = true → L + 1 ≤ F + 1 := by
          intro hty hwi'
          obtain ⟨x1, hc, _⟩ := placedE_isAnon _ _ _ _ hty hpl
          subst hc
          have hx : x1 = x := by
            have := bindChild_not_named (buildTable P) (gKeys P) (gStarts P) ((gStarts P).length + 1) s (.node x1)
              (by intro id h; cases h)
            unfold gBind at hb
            rw [this] at hb
            simpa [childNode] using hb
          subst hx
          have := ihE s ty x1 L hpl hsub hw hwi'
          omega
        cases ty with
        | seq r1 => simp only [trefWithin] at hwi; exact anon rfl hwi
        | dict k v => simp only [trefWithin] at hwi; exact anon rfl hwi
        | result su f => simp only [trefWithin] at hwi; exact anon rfl hwi
        | prim p =>
          simp only [PlacedE] at hpl
          subst hpl
          have := bindChild_not_named (buildTable P) (gKeys P) (gStarts P) ((gStarts P).length + 1) s .leaf
            (by intro id h; cases h)
          unfold gBind at hb
          rw [this] at hb
          simp [childNode] at hb
        | named id =>
          simp only [PlacedE] at hpl
          subst hpl
          simp only [trefWithin] at hwi
          obtain ⟨v, hv⟩ := hok (.mk a (.named id) o) (by simp [Validate.subRefsT]) id rfl
          obtain ⟨tgt, extra⟩ := v
          rw [hv] at hwi
          cases tgt with
          | node n =>
            rw [bind_none_of_resolve_node_k P hkn id s n extra hv] at hb
            cases hb
          | expr e s' =>
            simp only at hwi
            obtain ⟨a', c', _, hpl', hb'⟩ := bind_of_resolve_k P hkn id s e s' extra hv
            rw [hb] at hb'
            cases c' with
            | leaf => simp [childNode] at hb'
            | named id' => simp [childNode] at hb'
            | node x' =>
              simp only [childNode, Option.some.injEq] at hb'
              subst hb'
              have := ihE s' e x L hpl' (alias_target_refsOK P hP _ _ _ _ _ _ hv) hw hwi
              omega
    · intro s e x L hpl hok hw hwi
      cases hw with
      | zero => omega
      | @succ _ y L' hstep hw' =>
        cases e with
        | prim p => simp [PlacedE] at hpl
        | named id => simp [PlacedE] at hpl
        | seq r1 =>
          obtain ⟨x0, c1, h0, hk, hp1⟩ := hpl
          cases h0
          simp only [tyWithin] at hwi
          obtain ⟨c, hc, hby⟩ := kid_of_step P x y s _ hk hstep
          simp only [List.mem_singleton] at hc
          subst hc
          have := ihT s r1 c y L' hp1 hby (hok.sub (fun r hr => by simp [Validate.subRefsE, hr])) hw' hwi
          omega
        | dict k v =>
          obtain ⟨x0, ck, cv, h0, hk, hp1, hp2⟩ := hpl
          cases h0
          simp only [tyWithin, Bool.and_eq_true] at hwi
          obtain ⟨c, hc, hby⟩ := kid_of_step P x y s _ hk hstep
          simp only [List.mem_cons, List.not_mem_nil, or_false] at hc
          rcases hc with rfl | rfl
          · have := ihT s k c y L' hp1 hby (hok.sub (fun r hr => by simp [Validate.subRefsE, hr])) hw' hwi.1
            omega
          · have := ihT s v c y L' hp2 hby (hok.sub (fun r hr => by simp [Validate.subRefsE, hr])) hw' hwi.2
            omega
        | result a b =>
          obtain ⟨x0, ca, cb, h0, hk, hp1, hp2⟩ := hpl
          cases h0
          simp only [tyWithin, Bool.and_eq_true] at hwi
          obtain ⟨c, hc, hby⟩ := kid_of_step P x y s _ hk hstep
          simp only [List.mem_cons, List.not_mem_nil, or_false] at hc
          rcases hc with rfl | rfl
          · have := ihT s a c y L' hp1 hby (hok.sub (fun r hr => by simp [Validate.subRefsE, hr])) hw' hwi.1
            omega
          · have := ihT s b c y L' hp2 hby (hok.sub (fun r hr => by simp [Validate.subRefsE, hr])) hw' hwi.2
            omega

/-- an alias definition listed by `aliasDefs` is a definition of a file of the program, in that file's module scope -/
theorem aliasDefs_mem (P : Program) (k ms : String) (ty : TRef) (h : (k, ms, ty) ∈ Cyc.aliasDefs P) :
    ∃ f ∈ P, ∃ doc attrs name, Def.alias doc attrs name ty ∈ f.defs ∧ ms = f.modPath := by
  unfold Cyc.aliasDefs at h
  obtain ⟨f, hf, hd⟩ := List.mem_flatMap.mp h
  simp only [List.mem_filterMap] at hd
  obtain ⟨d, hd, he⟩ := hd
  cases d with
  | alias doc attrs name t =>
    simp only [Option.some.injEq, Prod.mk.injEq] at he
    obtain ⟨_, rfl, rfl⟩ := he
    refine ⟨f, hf, doc, attrs, name, hd, ?_⟩
    unfold SFile.modPath
    cases f.module <;> rfl
  | struct _ _ _ _ _ => simp at he
  | «enum» _ _ _ _ _ _ _ => simp at he
  | custom _ _ _ => simp at he
  | iface _ _ _ _ _ => simp at he


/-- the start record of the `a`-th alias definition -/
theorem start_of_alias (P : Program) (a : Nat) (ha : a < (Cyc.aliasDefs P).length) :
    ∃ c, (gStarts P)[a]? = some ((Cyc.aliasDefs P)[a].2.1, c) ∧
      PlacedT (gNodes P) (Cyc.aliasDefs P)[a].2.1 (Cyc.aliasDefs P)[a].2.2 c ∧
      (gStartNodes P).getD a none = gBind P (Cyc.aliasDefs P)[a].2.1 c := by
  obtain ⟨_, _, h3⟩ := foldl_alloc (Cyc.aliasDefs P) ([], [])
  obtain ⟨c, hc, hpl⟩ := h3 a (Cyc.aliasDefs P)[a] (List.getElem?_eq_getElem ha)
  have hc' : (gStarts P)[a]? = some ((Cyc.aliasDefs P)[a].2.1, c) := by simpa [gStarts, anonAlloc_eq] using hc
  refine ⟨c, hc', by simpa [gNodes, anonAlloc_eq] using hpl, ?_⟩
  rw [List.getD_eq_getElem?_getD]
  simp only [gStartNodes, List.getElem?_map, hc', Option.map_some, Option.getD_some]

/-- **what the alias gate reports**: in a program whose alias keys are pairwise distinct and whose references resolve, the
    `a`-th alias definition is reported by `revisits_anonymous_type` exactly when the flattening descent into its underlying
    type does not end, whatever the budget -/
theorem alias_reported_iff_k (P : Program) (hkn : ((Cyc.aliasDefs P).map (·.1)).Nodup)
    (hP : ∀ f ∈ P, ∀ d ∈ f.defs, RefsOK (buildTable P) f.modPath ((Validate.defVisitedTRefs d).flatMap Validate.subRefsT))
    (a : Nat) (ha : a < (Cyc.aliasDefs P).length) :
    a ∈ Cyc.aliasGate (gGraph P) (gStartNodes P) ↔
      ¬ ∃ F, trefWithin (buildTable P) (Cyc.aliasDefs P)[a].2.1 F (Cyc.aliasDefs P)[a].2.2 = true := by
  obtain ⟨c, hc, hpl, hstart⟩ := start_of_alias P a ha
  have hlen : a < (gStartNodes P).length := by simpa [gStartNodes, gStarts_length] using ha
  constructor
  · intro hm
    rintro ⟨F, hF⟩
    obtain ⟨_, x, hsx, hrc⟩ := (Cyc.mem_aliasGate _ _ a).1 hm
    rw [hstart] at hsx
    have hmem : (Cyc.aliasDefs P)[a] ∈ Cyc.aliasDefs P := List.getElem_mem ha
    obtain ⟨f, hf, doc, attrs, name, hd, hms⟩ :=
      aliasDefs_mem P (Cyc.aliasDefs P)[a].1 (Cyc.aliasDefs P)[a].2.1 (Cyc.aliasDefs P)[a].2.2 hmem
    have hok : RefsOK (buildTable P) (Cyc.aliasDefs P)[a].2.1 (Validate.subRefsT (Cyc.aliasDefs P)[a].2.2) := by
      rw [hms]
      refine (hP f hf _ hd).sub ?_
      intro r hr
      simp [Validate.defVisitedTRefs, Validate.defFieldLists, Validate.defParamLists, hr]
    have := (descent_needs_fuel_k P hkn hP F).1 _ _ c x F hpl hsx hok (walk_of_reachesCycle _ x hrc F) hF
    omega
  · intro hunb
    -- not reported ⇒ the descent is bounded
    refine Classical.byContradiction fun hnot => hunb ⟨2 * ((gGraph P).length + 1) + 2, ?_⟩
    refine child_within_k P hkn ((gGraph P).length + 1) _ _ c hpl ?_
    intro x' e' s' hpl' hb
    have hrev : Cyc.revisits (gGraph P) ((gGraph P).length + 1) x' [] = false := by
      cases hr : Cyc.revisits (gGraph P) ((gGraph P).length + 1) x' [] with
      | false => rfl
      | true =>
        exfalso
        apply hnot
        refine (Cyc.mem_aliasGate _ _ a).2 ⟨hlen, x', ?_, (Cyc.revisits_iff _ x').1 hr⟩
        rw [hstart]; exact hb
    exact descent_in_graph_k P hkn ((gGraph P).length + 1) [] x' e' s' hpl' List.nodup_nil (by intro p hp; cases hp) (by simp) hrev

/-! ## counting -/

theorem filter_range'_length {α} (p : Nat → Bool) (q : α → Bool) : ∀ (l : List α) (k : Nat),
    (∀ i (hi : i < l.length), p (k + i) = q l[i]) → ((List.range' k l.length).filter p).length = l.countP q
  | [], _, _ => by simp
  | x :: l, k, h => by
    have h0 : p k = q x := by
      have := h 0 (by simp)
      rw [Nat.add_zero] at this
      exact this
    have ih := filter_range'_length p q l (k + 1) (fun i hi => by
      have := h (i + 1) (by simp; omega)
      simpa [Nat.add_assoc, Nat.add_comm 1 i] using this)
    simp only [List.length_cons, List.range'_succ, List.filter_cons, List.countP_cons, h0]
    cases q x <;> simp [ih]

theorem filter_range_length {α} (p : Nat → Bool) (q : α → Bool) (l : List α)
    (h : ∀ i (hi : i < l.length), p i = q l[i]) : ((List.range l.length).filter p).length = l.countP q := by
  rw [List.range_eq_range']
  exact filter_range'_length p q l 0 (by simpa using h)

open Classical in
/-- **the number of E019 of the alias gate**, position-free: the number of alias definitions into whose underlying type the
    flattening descent does not end -/
theorem aliasGateErrors_length_k (P : Program) (hkn : ((Cyc.aliasDefs P).map (·.1)).Nodup)
    (hP : ∀ f ∈ P, ∀ d ∈ f.defs, RefsOK (buildTable P) f.modPath ((Validate.defVisitedTRefs d).flatMap Validate.subRefsT)) :
    (Cyc.aliasGateErrors P).length =
      (Cyc.aliasDefs P).countP fun al => decide (¬ ∃ F, trefWithin (buildTable P) al.2.1 F al.2.2 = true) := by
  unfold Cyc.aliasGateErrors
  rw [anonGraph_eq]
  simp only [List.length_map]
  have hl : (gStartNodes P).length = (Cyc.aliasDefs P).length := by simp [gStartNodes, gStarts_length]
  have hg : Cyc.aliasGate (gGraph P) (gStartNodes P) =
      (List.range (Cyc.aliasDefs P).length).filter fun a => decide (a ∈ Cyc.aliasGate (gGraph P) (gStartNodes P)) := by
    conv => lhs; unfold Cyc.aliasGate
    rw [hl]
    apply List.filter_congr
    intro a ha
    have ha' : a < (gStartNodes P).length := by rw [hl]; exact List.mem_range.mp ha
    have : (a ∈ Cyc.aliasGate (gGraph P) (gStartNodes P)) ↔
        (match (gStartNodes P).getD a none with
          | some x => Cyc.revisits (gGraph P) ((gGraph P).length + 1) x []
          | none => false) = true := by
      unfold Cyc.aliasGate
      rw [List.mem_filter, List.mem_range]
      exact ⟨fun h => h.2, fun h => ⟨ha', h⟩⟩
    cases hb : (match (gStartNodes P).getD a none with
          | some x => Cyc.revisits (gGraph P) ((gGraph P).length + 1) x []
          | none => false) with
    | true => exact hb.trans (decide_eq_true (this.mpr hb)).symm
    | false =>
      have hn : ¬ (a ∈ Cyc.aliasGate (gGraph P) (gStartNodes P)) := fun h => by rw [this.mp h] at hb; cases hb
      exact hb.trans (decide_eq_false hn).symm
  rw [hg]
  apply filter_range_length
  intro i hi
  exact decide_eq_decide.mpr (alias_reported_iff_k P hkn hP i hi)

end Slicec
