/-
  Order independence of the three checks `validateFull` adds to `validate` (for Props/C15.lean).

  * the shape check is per file: its codes are permuted with the files;
  * the inheritance check: C05's model numbers the interfaces in AST order (positions). With pairwise distinct definition keys
    the inheritance graph on positions has a loop exactly when the graph on KEYS (`Validate.directBases`, the by-name graph the
    shadowing rule of C04 already walks) has one, and the graph on keys is the same function for both orders;
  * the alias gate: C05's model numbers the anonymous types written in alias definitions in AST order. In a program whose
    references resolve and whose definition keys are distinct, the gate reports alias `a` exactly when the flattening descent
    into `a`'s underlying type does not end (`trefWithin`, the table-driven descent of Lemmas/RequestBridge.lean — "silent ⇒
    bounded" is proved there, "bounded ⇒ silent" here), and the descent is the same function on both tables.
-/
import SlicecVerif.Lemmas.AnonGraphKeys
import SlicecVerif.Lemmas.PermValidate
import SlicecVerif.Lemmas.Pipeline

namespace Slicec

open Slicec.Validate

/-! ## part A: the shape check -/

theorem shapeOK_perm {P P' : Program} (hp : P.Perm P') : ShapeOK P ↔ ShapeOK P' :=
  ⟨fun h f hf => h f (hp.mem_iff.mpr hf), fun h f hf => h f (hp.mem_iff.mp hf)⟩

theorem parseCodesFull_perm {P P' : Program} (hp : P.Perm P') : (parseCodesFull P).Perm (parseCodesFull P') :=
  hp.flatMap_right _

/-! ## part B: the inheritance check -/

/-- `a →⁺ b` for a relation on keys -/
inductive KReach (R : String → String → Prop) : String → String → Prop
  | single {a b} : R a b → KReach R a b
  | cons {a b c} : R a b → KReach R b c → KReach R a c

theorem KReach.head {R : String → String → Prop} {a c : String} (h : KReach R a c) : ∃ b, R a b := by
  cases h with
  | single h => exact ⟨_, h⟩
  | cons h _ => exact ⟨_, h⟩

/-- one inheritance step on keys: `b` is the key of an interface a base of the interface with key `a` denotes -/
def BaseStep (P : Program) (a b : String) : Prop := b ∈ directBases P (buildTable P) a

theorem ifaceDefs_perm {P P' : Program} (hp : P.Perm P') : (Cyc.ifaceDefs P).Perm (Cyc.ifaceDefs P') :=
  hp.flatMap_right _

/-- the keys of the interface definitions are among the keys of all definitions -/
theorem ifaceKeys_sublist (P : Program) :
    ((Cyc.ifaceDefs P).map (·.1)).Sublist ((allDefs P).map defKey) := by
  unfold Cyc.ifaceDefs allDefs
  rw [List.map_flatMap, List.map_flatMap]
  apply flatMap_sublist
  intro f _
  simp only [List.map_map]
  rw [List.map_filterMap]
  apply filterMap_sublist_map
  intro d b hb
  cases d <;> simp at hb
  subst hb
  simp only [Function.comp, defKey, Def.name, fileScope]
  cases f.module <;> rfl

/-- an interface definition listed by `ifaceDefs` is a definition of the program, under the same key and module scope -/
theorem ifaceDefs_mem_allDefs (P : Program) (k ms : String) (bases : List TRef) (h : (k, ms, bases) ∈ Cyc.ifaceDefs P) :
    ∃ doc attrs name ops, (ms, Def.iface doc attrs name bases ops) ∈ allDefs P ∧
      defKey (ms, Def.iface doc attrs name bases ops) = k := by
  unfold Cyc.ifaceDefs at h
  obtain ⟨f, hf, hd⟩ := List.mem_flatMap.mp h
  simp only [List.mem_filterMap] at hd
  obtain ⟨d, hd, he⟩ := hd
  cases d with
  | iface doc attrs name bs ops =>
    simp only [Option.some.injEq, Prod.mk.injEq] at he
    obtain ⟨rfl, rfl, rfl⟩ := he
    refine ⟨doc, attrs, name, ops, ?_, ?_⟩
    · unfold allDefs
      refine List.mem_flatMap.mpr ⟨f, hf, List.mem_map.mpr ⟨_, hd, ?_⟩⟩
      simp only [fileScope]
      cases f.module <;> rfl
    · simp only [defKey, Def.name]
  | struct _ _ _ _ _ => simp at he
  | «enum» _ _ _ _ _ _ _ => simp at he
  | custom _ _ _ => simp at he
  | alias _ _ _ _ => simp at he

theorem allDefs_mem_ifaceDefs (P : Program) (ms : String) (doc : List String) (attrs : List Attr) (name : String)
    (bases : List TRef) (ops : List Op) (h : (ms, Def.iface doc attrs name bases ops) ∈ allDefs P) :
    (scopedId name ms, ms, bases) ∈ Cyc.ifaceDefs P := by
  unfold allDefs at h
  obtain ⟨f, hf, hd⟩ := List.mem_flatMap.mp h
  obtain ⟨d, hd, he⟩ := List.mem_map.mp hd
  simp only [Prod.mk.injEq] at he
  obtain ⟨rfl, rfl⟩ := he
  unfold Cyc.ifaceDefs
  refine List.mem_flatMap.mpr ⟨f, hf, List.mem_filterMap.mpr ⟨_, hd, ?_⟩⟩
  simp only [fileScope]
  cases f.module <;> rfl

theorem eq_of_nodup_map {α β} (g : α → β) : ∀ (l : List α), (l.map g).Nodup → ∀ x ∈ l, ∀ y ∈ l, g x = g y → x = y
  | [], _, x, hx, _, _, _ => by cases hx
  | a :: l, hnd, x, hx, y, hy, hxy => by
    simp only [List.map_cons, List.nodup_cons] at hnd
    rcases List.mem_cons.mp hx with hxa | hxl
    · rcases List.mem_cons.mp hy with hya | hyl
      · rw [hxa, hya]
      · exact absurd (List.mem_map.mpr ⟨y, hyl, by rw [← hxy, hxa]⟩) hnd.1
    · rcases List.mem_cons.mp hy with hya | hyl
      · exact absurd (List.mem_map.mpr ⟨x, hxl, by rw [hxy, hya]⟩) hnd.1
      · exact eq_of_nodup_map g l hnd.2 x hxl y hyl hxy

/-- with distinct definition keys, `findDef` retrieves the definition stored under a key -/
theorem findDef_of_mem (P : Program) (hnd : ((allDefs P).map defKey).Nodup) (sd : String × Def) (h : sd ∈ allDefs P) :
    findDef P (defKey sd) = some sd := by
  unfold findDef
  apply find?_unique
  · exact List.mem_reverse.mpr h
  · simp
  · intro y hy hk
    have hy' : y ∈ allDefs P := List.mem_reverse.mp hy
    have hk' : defKey y = defKey sd := by simpa using hk
    exact eq_of_nodup_map defKey _ hnd y hy' sd h hk'

theorem findDef_mem (P : Program) (k : String) (sd : String × Def) (h : findDef P k = some sd) :
    sd ∈ allDefs P ∧ defKey sd = k := by
  unfold findDef at h
  exact ⟨List.mem_reverse.mp (List.mem_of_find?_eq_some h), by simpa using List.find?_some h⟩

/-- the key a base denotes (as in `directBases` / `igraphOfProgram`) -/
def baseKeyOf (t : Table) (ms : String) (b : TRef) : Option String :=
  match b.ty with
  | .named id => (match resolveNamed t .interface id ms with | .ok (.node n, _) => some n.key | _ => none)
  | _ => none

theorem directBases_of_findDef (P : Program) (k ms : String) (doc : List String) (attrs : List Attr) (name : String)
    (bases : List TRef) (ops : List Op) (h : findDef P k = some (ms, .iface doc attrs name bases ops)) :
    directBases P (buildTable P) k = bases.filterMap (baseKeyOf (buildTable P) ms) := by
  unfold directBases
  rw [h]
  rfl

/-- a key with a base step is the key of an interface definition -/
theorem baseStep_source (P : Program) (a b : String) (h : BaseStep P a b) :
    ∃ ms bases, (a, ms, bases) ∈ Cyc.ifaceDefs P ∧ ∃ doc attrs name ops, findDef P a = some (ms, .iface doc attrs name bases ops) := by
  unfold BaseStep directBases at h
  cases hf : findDef P a with
  | none => rw [hf] at h; cases h
  | some sd =>
    obtain ⟨ms, d⟩ := sd
    cases d with
    | iface doc attrs name bases ops =>
      obtain ⟨hm, hk⟩ := findDef_mem P a _ hf
      have := allDefs_mem_ifaceDefs P ms doc attrs name bases ops hm
      simp only [defKey, Def.name] at hk
      rw [hk] at this
      exact ⟨ms, bases, this, doc, attrs, name, ops, rfl⟩
    | struct _ _ _ _ _ => rw [hf] at h; cases h
    | «enum» _ _ _ _ _ _ _ => rw [hf] at h; cases h
    | custom _ _ _ => rw [hf] at h; cases h
    | alias _ _ _ _ => rw [hf] at h; cases h

def iKeys (P : Program) : List String := (Cyc.ifaceDefs P).map (·.1)

theorem igraph_length (P : Program) : (Cyc.igraphOfProgram P).length = (iKeys P).length := by
  simp [Cyc.igraphOfProgram, iKeys]

/-- node `i` of the inheritance graph: the bases of the `i`-th interface definition, bound to positions -/
theorem igraph_get (P : Program) (i : Nat) (k ms : String) (bases : List TRef) (h : (Cyc.ifaceDefs P)[i]? = some (k, ms, bases)) :
    (Cyc.igraphOfProgram P)[i]? = some (bases.filterMap fun b =>
      (baseKeyOf (buildTable P) ms b).bind fun key => if (iKeys P).contains key then some ((iKeys P).idxOf key) else none) := by
  unfold Cyc.igraphOfProgram
  simp only [List.getElem?_map, h, Option.map_some, Option.some.injEq]
  apply filterMap_congr_mem
  intro b _
  unfold baseKeyOf iKeys
  cases b.ty with
  | named id =>
    simp only
    cases resolveNamed (buildTable P) .interface id ms with
    | error e => rfl
    | ok v =>
      obtain ⟨tgt, extra⟩ := v
      cases tgt with
      | node n => rfl
      | expr e s => rfl
  | prim p => rfl
  | seq e => rfl
  | dict k v => rfl
  | result s f => rfl

theorem idxOf_getElem?_of_mem (l : List String) (k : String) (h : k ∈ l) : l[l.idxOf k]? = some k := by
  have hlt : l.idxOf k < l.length := List.idxOf_lt_length_of_mem h
  rw [List.getElem?_eq_getElem hlt]
  simp

/-- a step of the graph on positions is a step of the graph on keys (distinct definition keys) -/
theorem igStep_baseStep (P : Program) (hnd : ((allDefs P).map defKey).Nodup) (i j : Nat)
    (h : Cyc.EStep (Cyc.igEdges (Cyc.igraphOfProgram P)) i j) :
    ∃ a b, (iKeys P)[i]? = some a ∧ (iKeys P)[j]? = some b ∧ BaseStep P a b := by
  rw [Cyc.igEdges_step] at h
  unfold Cyc.ibases at h
  rw [List.mem_filter] at h
  obtain ⟨hm, _⟩ := h
  rw [List.getD_eq_getElem?_getD] at hm
  cases hi : (Cyc.ifaceDefs P)[i]? with
  | none =>
    have : (Cyc.igraphOfProgram P)[i]? = none := by
      simp only [Cyc.igraphOfProgram, List.getElem?_map, hi, Option.map_none]
    rw [this] at hm; cases hm
  | some e =>
    obtain ⟨a, ms, bases⟩ := e
    rw [igraph_get P i a ms bases hi] at hm
    simp only [Option.getD_some, List.mem_filterMap] at hm
    obtain ⟨b0, hb0, hj⟩ := hm
    cases hk : baseKeyOf (buildTable P) ms b0 with
    | none => rw [hk] at hj; cases hj
    | some key =>
      rw [hk] at hj
      simp only [Option.bind_some] at hj
      split at hj
      · rename_i hc
        simp only [Option.some.injEq] at hj
        have hkm : key ∈ iKeys P := by simpa using hc
        refine ⟨a, key, ?_, ?_, ?_⟩
        · simp only [iKeys, List.getElem?_map, hi, Option.map_some]
        · rw [← hj]; exact idxOf_getElem?_of_mem _ _ hkm
        · have hmem : (a, ms, bases) ∈ Cyc.ifaceDefs P := List.mem_of_getElem? hi
          obtain ⟨doc, attrs, name, ops, hall, hkey⟩ := ifaceDefs_mem_allDefs P a ms bases hmem
          have hfd := findDef_of_mem P hnd _ hall
          rw [hkey] at hfd
          unfold BaseStep
          rw [directBases_of_findDef P a ms doc attrs name bases ops hfd]
          exact List.mem_filterMap.mpr ⟨b0, hb0, hk⟩
      · cases hj

/-- a step of the graph on keys between keys of interface definitions is a step of the graph on positions -/
theorem baseStep_igStep (P : Program) (hnd : ((allDefs P).map defKey).Nodup) (a b : String) (h : BaseStep P a b)
    (hb : b ∈ iKeys P) :
    Cyc.EStep (Cyc.igEdges (Cyc.igraphOfProgram P)) ((iKeys P).idxOf a) ((iKeys P).idxOf b) := by
  obtain ⟨ms, bases, hmem, doc, attrs, name, ops, hfd⟩ := baseStep_source P a b h
  have hknd : (iKeys P).Nodup := (ifaceKeys_sublist P).nodup hnd
  have hget : (Cyc.ifaceDefs P)[(iKeys P).idxOf a]? = some (a, ms, bases) :=
    getElem?_idxOf_fst (Cyc.ifaceDefs P) hknd a (ms, bases) hmem
  rw [Cyc.igEdges_step]
  unfold Cyc.ibases
  rw [List.mem_filter]
  refine ⟨?_, ?_⟩
  · rw [List.getD_eq_getElem?_getD, igraph_get P _ a ms bases hget]
    simp only [Option.getD_some, List.mem_filterMap]
    unfold BaseStep at h
    rw [directBases_of_findDef P a ms doc attrs name bases ops hfd] at h
    obtain ⟨b0, hb0, hk⟩ := List.mem_filterMap.mp h
    refine ⟨b0, hb0, ?_⟩
    rw [hk]
    simp only [Option.bind_some]
    have : (iKeys P).contains b = true := by simpa using hb
    rw [if_pos this]
  · rw [igraph_length]
    simpa using List.idxOf_lt_length_of_mem hb

theorem igReach_keyReach (P : Program) (hnd : ((allDefs P).map defKey).Nodup) {i j : Nat}
    (h : Cyc.EReach (Cyc.igEdges (Cyc.igraphOfProgram P)) i j) :
    ∃ a b, (iKeys P)[i]? = some a ∧ (iKeys P)[j]? = some b ∧ KReach (BaseStep P) a b := by
  induction h with
  | single hs =>
    obtain ⟨a, b, ha, hb, hab⟩ := igStep_baseStep P hnd _ _ hs
    exact ⟨a, b, ha, hb, .single hab⟩
  | cons hs _ ih =>
    obtain ⟨a, b, ha, hb, hab⟩ := igStep_baseStep P hnd _ _ hs
    obtain ⟨b', c, hb', hc, hbc⟩ := ih
    rw [hb] at hb'
    cases hb'
    exact ⟨a, c, ha, hc, .cons hab hbc⟩

theorem keyReach_igReach (P : Program) (hnd : ((allDefs P).map defKey).Nodup) {a b : String}
    (h : KReach (BaseStep P) a b) (hb : b ∈ iKeys P) :
    Cyc.EReach (Cyc.igEdges (Cyc.igraphOfProgram P)) ((iKeys P).idxOf a) ((iKeys P).idxOf b) := by
  induction h with
  | single hs => exact .single (baseStep_igStep P hnd _ _ hs hb)
  | cons hs hr ih =>
    obtain ⟨c, hc⟩ := hr.head
    obtain ⟨ms, bases, hmem, _⟩ := baseStep_source P _ c hc
    have hm : _ ∈ iKeys P := List.mem_map.mpr ⟨_, hmem, rfl⟩
    exact .cons (baseStep_igStep P hnd _ _ hs hm) (ih hb)

/-- **the inheritance graph on positions has a loop iff the graph on keys has one** (distinct definition keys) -/
theorem igraph_loop_iff_key_loop (P : Program) (hnd : ((allDefs P).map defKey).Nodup) :
    (∃ i, Cyc.EReach (Cyc.igEdges (Cyc.igraphOfProgram P)) i i) ↔ ∃ a, KReach (BaseStep P) a a := by
  constructor
  · rintro ⟨i, hi⟩
    obtain ⟨a, b, ha, hb, hab⟩ := igReach_keyReach P hnd hi
    rw [ha] at hb; cases hb
    exact ⟨a, hab⟩
  · rintro ⟨a, ha⟩
    obtain ⟨c, hc⟩ := ha.head
    obtain ⟨ms, bases, hmem, _⟩ := baseStep_source P a c hc
    have hm : a ∈ iKeys P := List.mem_map.mpr ⟨_, hmem, rfl⟩
    exact ⟨_, keyReach_igReach P hnd ha hm⟩

theorem baseStep_perm (P P' : Program) (hp : P.Perm P') (hu : UniqueKeys P) : BaseStep P = BaseStep P' := by
  funext a b
  unfold BaseStep
  rw [directBases_fun P P' hp hu]

theorem defKeys_nodup_perm {P P' : Program} (hp : P.Perm P') (h : ((allDefs P).map defKey).Nodup) :
    ((allDefs P').map defKey).Nodup :=
  (((allDefs_perm hp).map defKey).nodup_iff).mp h

/-- **the inheritance check gives the same verdict for every order of the files** (unique keys across files, distinct
    definition keys) -/
theorem ifaceLoop_nil_perm (P P' : Program) (hp : P.Perm P') (hu : UniqueKeys P) (hnd : ((allDefs P).map defKey).Nodup) :
    Cyc.ifaceLoopErrors (Cyc.igraphOfProgram P) = [] ↔ Cyc.ifaceLoopErrors (Cyc.igraphOfProgram P') = [] := by
  rw [ifaceLoop_nil_iff_noLoop, ifaceLoop_nil_iff_noLoop]
  unfold NoInheritanceLoop
  have h1 := igraph_loop_iff_key_loop P hnd
  have h2 := igraph_loop_iff_key_loop P' (defKeys_nodup_perm hp hnd)
  rw [baseStep_perm P P' hp hu] at h1
  constructor
  · intro h i hi
    obtain ⟨j, hj⟩ := h1.mpr (h2.mp ⟨i, hi⟩)
    exact h j hj
  · intro h i hi
    obtain ⟨j, hj⟩ := h2.mpr (h1.mp ⟨i, hi⟩)
    exact h j hj

/-! ## part C: the alias gate -/

/-- the table-driven descent is the same function on similar tables -/
theorem within_sim (t1 t2 : Table) (h : TableSim t1 t2) : ∀ fuel : Nat,
    (∀ (scope : String) (r : TRef), trefWithin t1 scope fuel r = trefWithin t2 scope fuel r) ∧
    (∀ (scope : String) (e : TyExpr), tyWithin t1 scope fuel e = tyWithin t2 scope fuel e) := by
  intro fuel
  induction fuel with
  | zero => exact ⟨fun _ _ => by simp [trefWithin], fun _ _ => by simp [tyWithin]⟩
  | succ fuel ih =>
    obtain ⟨ihT, ihE⟩ := ih
    constructor
    · intro scope r
      cases r with
      | mk attrs ty opt =>
        cases ty with
        | named id =>
          simp only [trefWithin]
          rcases sim_cases (resolveNamed_sim t1 t2 h .type id scope) with
            ⟨e, r1, r2⟩ | ⟨m1, m2, a, r1, r2, _⟩ | ⟨e, sc, a, r1, r2⟩
          · rw [r1, r2]
          · rw [r1, r2]
          · rw [r1, r2]; exact ihE sc e
        | prim pr => simp only [trefWithin]; exact ihE scope _
        | seq e => simp only [trefWithin]; exact ihE scope _
        | dict k v => simp only [trefWithin]; exact ihE scope _
        | result s f => simp only [trefWithin]; exact ihE scope _
    · intro scope e
      cases e with
      | prim pr => simp [tyWithin]
      | named id => simp [tyWithin]
      | seq e => simp only [tyWithin]; exact ihT scope e
      | dict k v => simp only [tyWithin]; rw [ihT scope k, ihT scope v]
      | result s f => simp only [tyWithin]; rw [ihT scope s, ihT scope f]

/-- **bounded ⇒ silent**: in a program `validate` accepts, if the flattening descent into the underlying type of every alias
    ends, the alias gate reports nothing -/
theorem gate_silent_of_bounded (P : Program) (hacc : validate P = [])
    (hb : ∀ a ∈ Cyc.aliasDefs P, ∃ F, trefWithin (buildTable P) a.2.1 F a.2.2 = true) : Cyc.aliasGateErrors P = [] := by
  unfold Cyc.aliasGateErrors
  rw [anonGraph_eq]
  simp only [List.map_eq_nil_iff]
  cases hg : Cyc.aliasGate (gGraph P) (gStartNodes P) with
  | nil => rfl
  | cons a as =>
    exfalso
    have hm : a ∈ Cyc.aliasGate (gGraph P) (gStartNodes P) := by rw [hg]; exact List.mem_cons_self ..
    obtain ⟨halt, _⟩ := (Cyc.mem_aliasGate _ _ a).1 hm
    have hlen : a < (Cyc.aliasDefs P).length := by
      rw [← gStarts_length]; simpa [gStartNodes] using halt
    exact (alias_reported_iff_k P (accepted_aliasKeys_nodup P hacc) (fun f hf d hd => accepted_refsOK P hacc f hf d hd) a hlen).mp hm
      (hb _ (List.getElem_mem hlen))

/-- **the alias gate is silent iff the flattening descent into every alias ends** (programs `validate` accepts) -/
theorem gate_silent_iff_bounded (P : Program) (hacc : validate P = []) :
    Cyc.aliasGateErrors P = [] ↔ ∀ a ∈ Cyc.aliasDefs P, ∃ F, trefWithin (buildTable P) a.2.1 F a.2.2 = true :=
  ⟨fun hg a _ => ⟨_, accepted_gate_within P hacc hg a.2.1 a.2.2⟩, gate_silent_of_bounded P hacc⟩

theorem aliasDefs_perm {P P' : Program} (hp : P.Perm P') : (Cyc.aliasDefs P).Perm (Cyc.aliasDefs P') :=
  hp.flatMap_right _

/-- **the alias gate gives the same verdict for every order of the files** (programs `validate` accepts in both orders) -/
theorem aliasGate_nil_perm (P P' : Program) (hp : P.Perm P') (hu : UniqueKeys P) (hacc : validate P = [])
    (hacc' : validate P' = []) : Cyc.aliasGateErrors P = [] ↔ Cyc.aliasGateErrors P' = [] := by
  rw [gate_silent_iff_bounded P hacc, gate_silent_iff_bounded P' hacc']
  have hsim := within_sim _ _ (buildTable_sim P P' hp hu)
  constructor
  · intro h a ha
    obtain ⟨F, hF⟩ := h a ((aliasDefs_perm hp).mem_iff.mpr ha)
    exact ⟨F, by rw [← (hsim F).1]; exact hF⟩
  · intro h a ha
    obtain ⟨F, hF⟩ := h a ((aliasDefs_perm hp).mem_iff.mp ha)
    exact ⟨F, by rw [(hsim F).1]; exact hF⟩

/-! ## part D: the verdict of the complete pipeline -/

/-- with unique keys across files, acceptance by the complete pipeline does not depend on the order of the files -/
theorem validateFull_nil_perm (P P' : Program) (hp : P.Perm P') (hu : UniqueKeys P) (h : validateFull P = []) :
    validateFull P' = [] := by
  obtain ⟨hv, hs, ha, hi⟩ := (validateFull_nil_iff P).mp h
  have hv' : validate P' = [] := by
    have := validate_perm P P' hp hu
    rw [hv] at this
    exact (List.Perm.nil_eq this).symm
  have hnd := accepted_defKeys_nodup P hv
  exact (validateFull_nil_iff P').mpr
    ⟨hv', (shapeOK_perm hp).mp hs, (aliasGate_nil_perm P P' hp hu hv hv').mp ha, (ifaceLoop_nil_perm P P' hp hu hnd).mp hi⟩

/-! ## part E: the number of reports of the two gates, and the multiset of codes of the complete pipeline -/

theorem refsOK_of_resolveCodes (P : Program) (hr : resolveCodes P = []) (f : SFile) (hf : f ∈ P) (d : Def) (hd : d ∈ f.defs) :
    RefsOK (buildTable P) f.modPath ((defVisitedTRefs d).flatMap subRefsT) := by
  unfold resolveCodes at hr
  simp only at hr
  have hm : (fileScope f, d) ∈ allDefs P := by
    unfold allDefs
    exact List.mem_flatMap.mpr ⟨f, hf, List.mem_map.mpr ⟨d, hd, rfl⟩⟩
  have h1 := List.flatMap_eq_nil_iff.mp hr _ hm
  unfold defResolveCodes at h1
  have h2 := (List.append_eq_nil_iff.mp h1).1
  rw [Slicec.fileScope_eq_modPath] at h2
  exact namedSites_nil_ok _ _ _ _ h2

theorem unbounded_sim (t1 t2 : Table) (h : TableSim t1 t2) (ms : String) (ty : TRef) :
    (¬ ∃ F, trefWithin t1 ms F ty = true) ↔ ¬ ∃ F, trefWithin t2 ms F ty = true := by
  have hs := within_sim t1 t2 h
  constructor
  · rintro h1 ⟨F, hF⟩; exact h1 ⟨F, by rw [(hs F).1]; exact hF⟩
  · rintro h1 ⟨F, hF⟩; exact h1 ⟨F, by rw [← (hs F).1]; exact hF⟩

theorem aliasKeys_nodup_of_defKeys (P : Program) (hnd : ((allDefs P).map defKey).Nodup) : ((Cyc.aliasDefs P).map (·.1)).Nodup :=
  (aliasKeys_sublist P).nodup hnd

/-- **the alias gate reports the same NUMBER of aliases for every order of the files**: unique keys across files, distinct
    definition keys, and the references of both orders resolve (the gate is only reached then) -/
theorem aliasGateErrors_length_perm (P P' : Program) (hp : P.Perm P') (hu : UniqueKeys P)
    (hnd : ((allDefs P).map defKey).Nodup) (hr : resolveCodes P = []) (hr' : resolveCodes P' = []) :
    (Cyc.aliasGateErrors P).length = (Cyc.aliasGateErrors P').length := by
  rw [aliasGateErrors_length_k P (aliasKeys_nodup_of_defKeys P hnd) (refsOK_of_resolveCodes P hr),
    aliasGateErrors_length_k P' (aliasKeys_nodup_of_defKeys P' (defKeys_nodup_perm hp hnd)) (refsOK_of_resolveCodes P' hr')]
  rw [(aliasDefs_perm hp).countP_eq]
  apply List.countP_congr
  intro al _
  simp only [decide_eq_true_eq]
  exact unbounded_sim _ _ (buildTable_sim P P' hp hu) al.2.1 al.2.2

theorem length_filterMap_isSome {α β} (f : α → Option β) : ∀ l : List α,
    (l.filterMap f).length = (l.filter fun x => (f x).isSome).length
  | [] => rfl
  | x :: l => by
    simp only [List.filterMap_cons, List.filter_cons]
    cases hf : f x with
    | none => simp [length_filterMap_isSome f l]
    | some b => simp [length_filterMap_isSome f l]

open Classical in
/-- **the number of E032 of the inheritance check**, position-free: the number of interface definitions whose key lies on a
    loop of the graph on keys (distinct definition keys) -/
theorem ifaceLoopErrors_length (P : Program) (hnd : ((allDefs P).map defKey).Nodup) :
    (Cyc.ifaceLoopErrors (Cyc.igraphOfProgram P)).length =
      (Cyc.ifaceDefs P).countP fun d => decide (KReach (BaseStep P) d.1 d.1) := by
  unfold Cyc.ifaceLoopErrors
  rw [length_filterMap_isSome]
  have hl : (Cyc.igraphOfProgram P).length = (Cyc.ifaceDefs P).length := by simp [Cyc.igraphOfProgram]
  rw [hl]
  apply filter_range_length
  intro i hi
  have hknd : (iKeys P).Nodup := (ifaceKeys_sublist P).nodup hnd
  have hki : (iKeys P)[i]? = some (Cyc.ifaceDefs P)[i].1 := by
    simp only [iKeys, List.getElem?_map, List.getElem?_eq_getElem hi, Option.map_some]
  have hiff : (Cyc.checkInterface (Cyc.igraphOfProgram P) i).isSome = true ↔
      KReach (BaseStep P) (Cyc.ifaceDefs P)[i].1 (Cyc.ifaceDefs P)[i].1 := by
    rw [Cyc.checkInterface_isSome_iff]
    constructor
    · intro hr
      obtain ⟨a, b, ha, hb, hab⟩ := igReach_keyReach P hnd hr
      rw [hki] at ha hb
      cases ha; cases hb
      exact hab
    · intro hk
      have hlen : i < (iKeys P).length := by simpa [iKeys] using hi
      have hmem : (Cyc.ifaceDefs P)[i].1 ∈ iKeys P := List.mem_map.mpr ⟨_, List.getElem_mem hi, rfl⟩
      have hidx : (iKeys P).idxOf (Cyc.ifaceDefs P)[i].1 = i := by
        have := hknd.idxOf_getElem i hlen
        have e : (iKeys P)[i] = (Cyc.ifaceDefs P)[i].1 := by simp [iKeys]
        rw [e] at this
        exact this
      have := keyReach_igReach P hnd hk hmem
      rw [hidx] at this
      exact this
  cases hc : (Cyc.checkInterface (Cyc.igraphOfProgram P) i).map (fun p => (i, p)) with
  | none =>
    have hn : (Cyc.checkInterface (Cyc.igraphOfProgram P) i).isSome = false := by
      cases h : Cyc.checkInterface (Cyc.igraphOfProgram P) i with
      | none => rfl
      | some p => rw [h] at hc; cases hc
    have : ¬ KReach (BaseStep P) (Cyc.ifaceDefs P)[i].1 (Cyc.ifaceDefs P)[i].1 := fun hk => by
      rw [hiff.mpr hk] at hn; cases hn
    simp [this]
  | some v =>
    have hs : (Cyc.checkInterface (Cyc.igraphOfProgram P) i).isSome = true := by
      cases h : Cyc.checkInterface (Cyc.igraphOfProgram P) i with
      | none => rw [h] at hc; cases hc
      | some p => rfl
    simp [hiff.mp hs]

/-- **the inheritance check reports the same NUMBER of interfaces for every order of the files** -/
theorem ifaceLoopErrors_length_perm (P P' : Program) (hp : P.Perm P') (hu : UniqueKeys P)
    (hnd : ((allDefs P).map defKey).Nodup) :
    (Cyc.ifaceLoopErrors (Cyc.igraphOfProgram P)).length = (Cyc.ifaceLoopErrors (Cyc.igraphOfProgram P')).length := by
  rw [ifaceLoopErrors_length P hnd, ifaceLoopErrors_length P' (defKeys_nodup_perm hp hnd), (ifaceDefs_perm hp).countP_eq,
    baseStep_perm P P' hp hu]

theorem map_const_perm {α β} (l l' : List α) (c : β) (h : l.length = l'.length) :
    (l.map fun _ => c).Perm (l'.map fun _ => c) := by
  have e : ∀ m : List α, (m.map fun _ => c) = List.replicate m.length c := by
    intro m
    induction m with
    | nil => rfl
    | cons a m ih => simp [List.replicate_succ, ih]
  rw [e l, e l', h]

/-- like `firstNonEmpty_cons_perm`, but the remaining phases need only agree when this one reports nothing -/
theorem firstNonEmpty_cons_perm' {a a' : List String} {r r' : List (List String)} (h : a.Perm a')
    (ht : a = [] → a' = [] → (firstNonEmpty r).Perm (firstNonEmpty r')) :
    (firstNonEmpty (a :: r)).Perm (firstNonEmpty (a' :: r')) := by
  unfold firstNonEmpty
  rw [h.isEmpty_eq]
  split
  · rename_i he
    have e' : a' = [] := List.isEmpty_iff.mp he
    have e : a = [] := by rw [e'] at h; exact h.eq_nil
    exact ht e e'
  · exact h

/-- **the codes of the complete pipeline for a permuted program are a permutation of the codes for the original**: unique keys
    across files and pairwise distinct definition keys -/
theorem validateFull_perm (P P' : Program) (hp : P.Perm P') (hu : UniqueKeys P) (hnd : ((allDefs P).map defKey).Nodup) :
    (validateFull P).Perm (validateFull P') := by
  unfold validateFull phasesFull
  refine firstNonEmpty_cons_perm (parseCodesFull_perm hp) ?_
  refine firstNonEmpty_cons_perm (attrPatch_codes_perm hp) ?_
  refine firstNonEmpty_cons_perm' (resolve_codes_perm P P' hp hu) ?_
  intro hr hr'
  have hr0 : resolveCodes P = [] := by simpa [Rule.codes, resolveRule] using hr
  have hr0' : resolveCodes P' = [] := by simpa [Rule.codes, resolveRule] using hr'
  refine firstNonEmpty_cons_perm (map_const_perm _ _ _ (aliasGateErrors_length_perm P P' hp hu hnd hr0 hr0')) ?_
  refine firstNonEmpty_cons_perm
    ((map_const_perm _ _ _ (ifaceLoopErrors_length_perm P P' hp hu hnd)).append (cycle_codes_perm P P' hp hu)) ?_
  refine firstNonEmpty_cons_perm (names_codes_perm P P' hp) ?_
  refine firstNonEmpty_cons_perm (visitor_codes_perm _ P P' hp hu) ?_
  exact List.Perm.refl _

end Slicec
