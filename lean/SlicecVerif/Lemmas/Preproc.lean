/- Helper lemmas for C06 (model: `Model/Preproc.lean`). -/
import SlicecVerif.Model.Preproc

namespace Slicec.Pp

/-! ## sizes of expression trees -/

mutual
  def PExpr.size : PExpr → Nat
    | .term t => t.size
    | .not t => t.size + 1
    | .and e t => e.size + t.size + 1
    | .or e t => e.size + t.size + 1
  def PTerm.size : PTerm → Nat
    | .sym _ => 1
    | .paren e => e.size + 1
end

/-- number of binary operators on the left spine -/
def PExpr.ops : PExpr → Nat
  | .term _ => 0
  | .not _ => 0
  | .and e _ => e.ops + 1
  | .or e _ => e.ops + 1

mutual
  theorem PExpr.size_pos : ∀ e : PExpr, 1 ≤ e.size
    | .term t => by simp only [PExpr.size]; exact PTerm.size_pos t
    | .not t => by simp only [PExpr.size]; omega
    | .and e t => by simp only [PExpr.size]; omega
    | .or e t => by simp only [PExpr.size]; omega
  theorem PTerm.size_pos : ∀ t : PTerm, 1 ≤ t.size
    | .sym _ => by simp [PTerm.size]
    | .paren e => by simp only [PTerm.size]; omega
end

theorem PExpr.ops_lt_size : ∀ e : PExpr, e.ops + 1 ≤ e.size
  | .term t => by simp only [PExpr.ops, PExpr.size]; have := PTerm.size_pos t; omega
  | .not t => by simp only [PExpr.ops, PExpr.size]; omega
  | .and e t => by simp only [PExpr.ops, PExpr.size]; have := PExpr.ops_lt_size e; have := PTerm.size_pos t; omega
  | .or e t => by simp only [PExpr.ops, PExpr.size]; have := PExpr.ops_lt_size e; have := PTerm.size_pos t; omega

mutual
  theorem PExpr.size_le_toks : ∀ e : PExpr, e.size ≤ e.toks.length
    | .term t => by simp only [PExpr.size, PExpr.toks]; exact PTerm.size_le_toks t
    | .not t => by simp only [PExpr.size, PExpr.toks, List.length_cons]; have := PTerm.size_le_toks t; omega
    | .and e t => by
      simp only [PExpr.size, PExpr.toks, List.length_append, List.length_cons]
      have := PExpr.size_le_toks e; have := PTerm.size_le_toks t; omega
    | .or e t => by
      simp only [PExpr.size, PExpr.toks, List.length_append, List.length_cons]
      have := PExpr.size_le_toks e; have := PTerm.size_le_toks t; omega
  theorem PTerm.size_le_toks : ∀ t : PTerm, t.size ≤ t.toks.length
    | .sym _ => by simp [PTerm.size, PTerm.toks]
    | .paren e => by
      simp only [PTerm.size, PTerm.toks, List.length_append, List.length_cons, List.length_nil]
      have := PExpr.size_le_toks e; omega
end

/-! ## the expression parser inverts printing -/

/-- the token after an expression is not a binary operator -/
def noOp : List PTok → Prop
  | .and :: _ => False
  | .or :: _ => False
  | _ => True

theorem exprLoop_stop (n : Nat) (acc : PExpr) (r : List PTok) (h : noOp r) : exprLoop (n + 1) acc r = some (acc, r) := by
  unfold exprLoop
  split
  · exact absurd h (by simp [noOp])
  · exact absurd h (by simp [noOp])
  · rfl

mutual
  theorem parseTerm_toks : ∀ (t : PTerm) (n : Nat) (r : List PTok), 2 * t.size ≤ n →
      parseTerm n (t.toks ++ r) = some (t, r)
    | .sym s, n, r, h => by
      simp only [PTerm.size] at h
      obtain ⟨m, rfl⟩ : ∃ m, n = m + 1 := ⟨n - 1, by omega⟩
      simp [parseTerm, PTerm.toks]
    | .paren e, n, r, h => by
      simp only [PTerm.size] at h
      obtain ⟨m, rfl⟩ : ∃ m, n = m + 1 := ⟨n - 1, by omega⟩
      have he := parseExpr_toks e m (.rpar :: r) (by omega)
      have hs := PExpr.ops_lt_size e
      obtain ⟨k, hk⟩ : ∃ k, m - e.ops - 1 = k + 1 := ⟨m - e.ops - 2, by omega⟩
      rw [hk, exprLoop_stop k e _ (by simp [noOp])] at he
      simp only [PTerm.toks, List.cons_append, List.append_assoc, List.nil_append, parseTerm]
      rw [he]
  theorem parseExpr_toks : ∀ (e : PExpr) (n : Nat) (r : List PTok), 2 * e.size + 1 ≤ n →
      parseExpr n (e.toks ++ r) = exprLoop (n - e.ops - 1) e r
    | .term t, n, r, h => by
      simp only [PExpr.size] at h
      obtain ⟨m, rfl⟩ : ∃ m, n = m + 1 := ⟨n - 1, by omega⟩
      have ht := parseTerm_toks t m r (by omega)
      simp only [PExpr.toks, PExpr.ops]
      unfold parseExpr
      split
      · -- the printed term cannot start with `!`
        rename_i r' heq
        cases t <;> simp [PTerm.toks] at heq
      · rw [ht]; simp
    | .not t, n, r, h => by
      simp only [PExpr.size] at h
      obtain ⟨m, rfl⟩ : ∃ m, n = m + 1 := ⟨n - 1, by omega⟩
      have ht := parseTerm_toks t m r (by omega)
      simp only [PExpr.toks, PExpr.ops, List.cons_append, parseExpr]
      rw [ht]; simp
    | .and e t, n, r, h => by
      simp only [PExpr.size] at h
      have ih := parseExpr_toks e n (.and :: (t.toks ++ r)) (by omega)
      have hs := PExpr.ops_lt_size e
      obtain ⟨k, hk⟩ : ∃ k, n - e.ops - 1 = k + 1 := ⟨n - e.ops - 2, by omega⟩
      have ht := parseTerm_toks t k r (by omega)
      simp only [PExpr.toks, PExpr.ops, List.append_assoc, List.cons_append]
      rw [ih, hk]
      simp only [exprLoop]
      rw [ht]
      have : n - (e.ops + 1) - 1 = k := by omega
      rw [this]
    | .or e t, n, r, h => by
      simp only [PExpr.size] at h
      have ih := parseExpr_toks e n (.or :: (t.toks ++ r)) (by omega)
      have hs := PExpr.ops_lt_size e
      obtain ⟨k, hk⟩ : ∃ k, n - e.ops - 1 = k + 1 := ⟨n - e.ops - 2, by omega⟩
      have ht := parseTerm_toks t k r (by omega)
      simp only [PExpr.toks, PExpr.ops, List.append_assoc, List.cons_append]
      rw [ih, hk]
      simp only [exprLoop]
      rw [ht]
      have : n - (e.ops + 1) - 1 = k := by omega
      rw [this]
end

/-- printing then parsing gives the tree back and leaves the rest, whatever follows (as long as it is not `&&`/`||`) -/
theorem parseExpr_print (e : PExpr) (n : Nat) (r : List PTok) (hn : 2 * e.size + 1 ≤ n) (hr : noOp r) :
    parseExpr n (e.toks ++ r) = some (e, r) := by
  rw [parseExpr_toks e n r hn]
  have hs := PExpr.ops_lt_size e
  obtain ⟨k, hk⟩ : ∃ k, n - e.ops - 1 = k + 1 := ⟨n - e.ops - 2, by omega⟩
  rw [hk, exprLoop_stop k e r hr]

/-! ## soundness of the expression parser: what it consumed is the printed form of what it returns -/

theorem parseExpr_sound : ∀ n : Nat,
    (∀ toks t r, parseTerm n toks = some (t, r) → toks = t.toks ++ r) ∧
    (∀ toks e r, parseExpr n toks = some (e, r) → toks = e.toks ++ r) ∧
    (∀ acc toks e r, exprLoop n acc toks = some (e, r) → acc.toks ++ toks = e.toks ++ r) := by
  intro n
  induction n with
  | zero => simp [parseTerm, parseExpr, exprLoop]
  | succ n ih =>
    obtain ⟨ihT, ihE, ihL⟩ := ih
    refine ⟨?_, ?_, ?_⟩
    · intro toks t r h
      unfold parseTerm at h
      split at h
      · simp only [Option.some.injEq, Prod.mk.injEq] at h
        obtain ⟨rfl, rfl⟩ := h
        simp [PTerm.toks]
      · split at h
        · rename_i e r' heq
          simp only [Option.some.injEq, Prod.mk.injEq] at h
          obtain ⟨rfl, rfl⟩ := h
          have := ihE _ _ _ heq
          simp [PTerm.toks, this]
        · simp at h
      · simp at h
    · intro toks e r h
      unfold parseExpr at h
      split at h
      · split at h
        · rename_i t r' heq
          have h1 := ihT _ _ _ heq
          have h2 := ihL _ _ _ _ h
          simp only [PExpr.toks, List.cons_append] at h2
          rw [h1, h2]
        · simp at h
      · split at h
        · rename_i t r' heq
          have h1 := ihT _ _ _ heq
          have h2 := ihL _ _ _ _ h
          simp only [PExpr.toks] at h2
          rw [h1, h2]
        · simp at h
    · intro acc toks e r h
      unfold exprLoop at h
      split at h
      · split at h
        · rename_i t r' heq
          have h1 := ihT _ _ _ heq
          have h2 := ihL _ _ _ _ h
          simp only [PExpr.toks, List.append_assoc, List.cons_append] at h2
          rw [h1, h2]
        · simp at h
      · split at h
        · rename_i t r' heq
          have h1 := ihT _ _ _ heq
          have h2 := ihL _ _ _ _ h
          simp only [PExpr.toks, List.append_assoc, List.cons_append] at h2
          rw [h1, h2]
        · simp at h
      · simp only [Option.some.injEq, Prod.mk.injEq] at h
        obtain ⟨rfl, rfl⟩ := h
        rfl

/-! ## trees as tokens -/

def Nodes.toks (ns : Nodes) : List PTok := linesToks ns.lines
def Node.toks (n : Node) : List PTok := linesToks n.lines
def CondRest.toks (c : CondRest) : List PTok := linesToks c.lines

theorem linesToks_append (a b : List ALine) : linesToks (a ++ b) = linesToks a ++ linesToks b := by
  simp [linesToks]

theorem linesToks_cons (a : ALine) (b : List ALine) : linesToks (a :: b) = a.toks ++ linesToks b := by
  simp [linesToks]

/-- soundness of the node parser -/
theorem parseNodes_sound : ∀ n : Nat,
    (∀ toks ns r, parseNodes n toks = some (ns, r) → toks = ns.toks ++ r) ∧
    (∀ toks nd r, parseNode n toks = some (nd, r) → toks = nd.toks ++ r) ∧
    (∀ toks c r, parseRest n toks = some (c, r) → toks = c.toks ++ r) := by
  intro n
  induction n with
  | zero => simp [parseNodes, parseNode, parseRest]
  | succ n ih =>
    obtain ⟨ihNs, ihN, ihR⟩ := ih
    have hE := (parseExpr_sound n).2.1
    refine ⟨?_, ?_, ?_⟩
    · intro toks ns r h
      unfold parseNodes at h
      split at h
      all_goals try (simp only [Option.some.injEq, Prod.mk.injEq] at h; obtain ⟨rfl, rfl⟩ := h; simp [Nodes.toks, Nodes.lines, linesToks])
      split at h
      · rename_i nd r1 h1
        split at h
        · rename_i ns' r2 h2
          simp only [Option.some.injEq, Prod.mk.injEq] at h
          obtain ⟨rfl, rfl⟩ := h
          have e1 := ihN _ _ _ h1
          have e2 := ihNs _ _ _ h2
          simp only [Nodes.toks, Node.toks, Nodes.lines, linesToks_append] at *
          rw [e1, e2, List.append_assoc]
        · simp at h
      · simp at h
    · intro toks nd r h
      unfold parseNode at h
      split at h
      · simp only [Option.some.injEq, Prod.mk.injEq] at h
        obtain ⟨rfl, rfl⟩ := h
        simp [Node.toks, Node.lines, linesToks, ALine.toks]
      · simp only [Option.some.injEq, Prod.mk.injEq] at h
        obtain ⟨rfl, rfl⟩ := h
        simp [Node.toks, Node.lines, linesToks, ALine.toks]
      · simp only [Option.some.injEq, Prod.mk.injEq] at h
        obtain ⟨rfl, rfl⟩ := h
        simp [Node.toks, Node.lines, linesToks, ALine.toks]
      · split at h
        · rename_i e r1 h1
          split at h
          · rename_i body r2 h2
            split at h
            · rename_i rest r3 h3
              simp only [Option.some.injEq, Prod.mk.injEq] at h
              obtain ⟨rfl, rfl⟩ := h
              have e1 := hE _ _ _ h1
              have e2 := ihNs _ _ _ h2
              have e3 := ihR _ _ _ h3
              simp only [Nodes.toks, Node.toks, CondRest.toks, Node.lines, linesToks_append, linesToks_cons, ALine.toks] at *
              rw [e1, e2, e3]
              simp
            · simp at h
          · simp at h
        · simp at h
      · simp at h
    · intro toks c r h
      unfold parseRest at h
      split at h
      · simp only [Option.some.injEq, Prod.mk.injEq] at h
        obtain ⟨rfl, rfl⟩ := h
        simp [CondRest.toks, CondRest.lines, linesToks, ALine.toks]
      · split at h
        · rename_i body r1 h1
          simp only [Option.some.injEq, Prod.mk.injEq] at h
          obtain ⟨rfl, rfl⟩ := h
          have e1 := ihNs _ _ _ h1
          simp only [Nodes.toks, CondRest.toks, CondRest.lines, linesToks_append, linesToks_cons, ALine.toks] at *
          rw [e1]
          simp [linesToks]
        · simp at h
      · split at h
        · rename_i e r1 h1
          split at h
          · rename_i body r2 h2
            split at h
            · rename_i rest r3 h3
              simp only [Option.some.injEq, Prod.mk.injEq] at h
              obtain ⟨rfl, rfl⟩ := h
              have e1 := hE _ _ _ h1
              have e2 := ihNs _ _ _ h2
              have e3 := ihR _ _ _ h3
              simp only [Nodes.toks, CondRest.toks, CondRest.lines, linesToks_append, linesToks_cons, ALine.toks] at *
              rw [e1, e2, e3]
              simp
            · simp at h
          · simp at h
        · simp at h
      · simp at h

/-- an accepted token stream is exactly the printed form of its tree -/
theorem parsePre_sound (toks : List PTok) (ns : Nodes) (h : parsePre toks = some ns) : toks = ns.toks := by
  unfold parsePre at h
  split at h
  · rename_i ns' heq
    simp only [Option.some.injEq] at h
    subst h
    have := (parseNodes_sound _).1 _ _ _ heq
    simpa using this
  · simp at h

/-! ## the cursor tracks `locAt` -/

/-- the single fold lemma: advancing over `a` and then over `b` is advancing over `a ++ b` -/
theorem foldl_advance_append (l : Loc) (a b : List Char) :
    b.foldl advance (a.foldl advance l) = (a ++ b).foldl advance l := by
  rw [List.foldl_append]

/-- the cursor is at offset `off` of `f`, its remaining input is the rest of `f`, its location is the location of `off` -/
structure CurInv (f : List Char) (c : Cur) : Prop where
  le : c.off ≤ f.length
  rest : c.rest = f.drop c.off
  loc : c.loc = locAt f c.off

theorem drop_cons_facts (f : List Char) (i : Nat) (c : Char) (r : List Char) (h : f.drop i = c :: r) :
    i < f.length ∧ f.drop (i + 1) = r ∧ f.take (i + 1) = f.take i ++ [c] := by
  have hlt : i < f.length := by
    rcases Nat.lt_or_ge i f.length with h1 | h1
    · exact h1
    · rw [List.drop_eq_nil_of_le h1] at h; cases h
  have hd : f.drop (i + 1) = r := by
    rw [← List.tail_drop, h]; rfl
  have hg : f[i]? = some c := by
    rw [← List.head?_drop, h]; rfl
  refine ⟨hlt, hd, ?_⟩
  rw [List.take_add_one, hg]; rfl

theorem locAt_succ (f : List Char) (i : Nat) (c : Char) (r : List Char) (h : f.drop i = c :: r) :
    locAt f (i + 1) = advance (locAt f i) c := by
  unfold locAt
  rw [(drop_cons_facts f i c r h).2.2, List.foldl_append]; rfl

theorem CurInv.cons_step {f : List Char} {c : Char} {r : List Char} {o : Nat} {l : Loc}
    (h : CurInv f ⟨c :: r, o, l⟩) : CurInv f ⟨r, o + 1, advance l c⟩ := by
  obtain ⟨h1, h2, h3⟩ := h
  simp only at h1 h2 h3
  have hf := drop_cons_facts f o c r h2.symm
  refine ⟨by simp only; omega, by simp only; exact hf.2.1.symm, ?_⟩
  simp only
  rw [locAt_succ f o c r h2.symm, h3]

/-- `c'` is reached from `c` by consuming input: the invariant carries over and the offset does not decrease -/
def Reach (f : List Char) (c c' : Cur) : Prop := CurInv f c → CurInv f c' ∧ c.off ≤ c'.off

theorem Reach.refl (f : List Char) (c : Cur) : Reach f c c := fun h => ⟨h, Nat.le_refl _⟩

theorem Reach.trans {f : List Char} {a b c : Cur} (h1 : Reach f a b) (h2 : Reach f b c) : Reach f a c := by
  intro h
  obtain ⟨hb, l1⟩ := h1 h
  obtain ⟨hc, l2⟩ := h2 hb
  exact ⟨hc, Nat.le_trans l1 l2⟩

theorem reach_adv (f : List Char) (c : Cur) : Reach f c c.adv := by
  intro h
  obtain ⟨rest, off, loc⟩ := c
  cases rest with
  | nil => exact ⟨h, Nat.le_refl _⟩
  | cons ch r => exact ⟨h.cons_step, by simp [Cur.adv]⟩

theorem skipWhileAux_reach (f : List Char) (p : Char → Bool) :
    ∀ (rest : List Char) (o : Nat) (l : Loc), Reach f ⟨rest, o, l⟩ (skipWhileAux p rest o l) := by
  intro rest
  induction rest with
  | nil => intro o l h; exact ⟨h, Nat.le_refl _⟩
  | cons ch r ih =>
    intro o l h
    unfold skipWhileAux
    split
    · obtain ⟨h', hle⟩ := ih (o + 1) (advance l ch) h.cons_step
      exact ⟨h', by simp only at hle ⊢; omega⟩
    · exact ⟨h, Nat.le_refl _⟩

theorem reach_skipWhile (f : List Char) (p : Char → Bool) (c : Cur) : Reach f c (c.skipWhile p) := by
  obtain ⟨rest, off, loc⟩ := c
  exact skipWhileAux_reach f p rest off loc

theorem reach_skipWs (f : List Char) (c : Cur) : Reach f c c.skipWs := reach_skipWhile f _ c
theorem reach_toEol (f : List Char) (c : Cur) : Reach f c c.toEol := reach_skipWhile f _ c

/-- a token that is not a source block -/
def PTok.notBlock : PTok → Prop
  | .block _ => False
  | _ => True

def DirStep.notBlock : DirStep → Prop
  | .tok t => t.tok.notBlock
  | _ => True

theorem lexKeyword_facts (f : List Char) (cur : Cur) : Reach f cur (lexKeyword cur).2 ∧ (lexKeyword cur).1.notBlock := by
  unfold lexKeyword
  have hr : Reach f cur ((cur.adv.skipWs).skipWhile isIdentChar) :=
    ((reach_adv f cur).trans (reach_skipWs f _)).trans (reach_skipWhile f _ _)
  simp only
  split <;> exact ⟨hr, trivial⟩

theorem lexDirTok_facts (f : List Char) (c : Char) (st : LexSt) :
    Reach f st.cur (lexDirTok c st).2.cur ∧ (lexDirTok c st).1.notBlock := by
  have ra := reach_adv f st.cur
  have raa := (reach_adv f st.cur).trans (reach_adv f st.cur.adv)
  unfold lexDirTok simpleTok
  simp only
  split
  · exact ⟨ra, trivial⟩
  split
  · exact ⟨ra, trivial⟩
  split
  · exact ⟨ra, trivial⟩
  split
  · split
    · exact ⟨raa, trivial⟩
    · exact ⟨ra, trivial⟩
  split
  · split
    · exact ⟨raa, trivial⟩
    · exact ⟨ra, trivial⟩
  split
  · exact lexKeyword_facts f st.cur
  split
  · split
    · exact ⟨ra.trans (reach_toEol f _), trivial⟩
    · exact ⟨ra, trivial⟩
  split
  · exact ⟨reach_skipWhile f _ _, trivial⟩
  split
  · exact ⟨ra, trivial⟩
  split
  · exact ⟨Reach.refl f _, trivial⟩
  · exact ⟨Reach.refl f _, trivial⟩

/-! ## every block token is a located substring of the input -/

/-- `b` is the text of `f` at `[b.off, b.off + |b|)`, lies inside `[lo, hi)` and starts at the location of `b.off` -/
def Block.ok (f : List Char) (lo hi : Nat) (b : Block) : Prop :=
  lo ≤ b.off ∧ b.off + b.content.length ≤ hi ∧ b.start = locAt f b.off ∧
  b.content = (f.drop b.off).take b.content.length

def ResOK (f : List Char) (lo hi : Nat) : Option (Except LexErr LTok) → Prop
  | some (.ok ⟨_, .block b, _⟩) => b.ok f lo hi
  | _ => True

theorem resOK_of_notBlock (f : List Char) (lo hi : Nat) (t : LTok) (h : t.tok.notBlock) : ResOK f lo hi (some (.ok t)) := by
  obtain ⟨s, tok, e⟩ := t
  cases tok <;> first | trivial | exact absurd h (by simp [PTok.notBlock])

theorem mkBlock_ok (f : List Char) (lo : Nat) (start : Option (Loc × Nat)) (endPos : Nat) (cursor : Loc)
    (hs : ∀ l p, start = some (l, p) → l = locAt f p ∧ lo ≤ p ∧ p ≤ endPos) (he : endPos ≤ f.length) :
    ResOK f lo endPos (some (mkBlock f start endPos cursor)) := by
  unfold mkBlock
  split
  · rename_i l p
    obtain ⟨h1, h2, h3⟩ := hs l p rfl
    have hlen : ((f.drop p).take (endPos - p)).length = endPos - p := by
      rw [List.length_take, List.length_drop]; omega
    refine ⟨h2, ?_, h1, ?_⟩
    · simp only [hlen]; omega
    · simp only [hlen]
  · trivial

theorem start_mono {f : List Char} {start : Option (Loc × Nat)} {lo a b : Nat}
    (h : ∀ l p, start = some (l, p) → l = locAt f p ∧ lo ≤ p ∧ p ≤ a) (hab : a ≤ b) :
    ∀ l p, start = some (l, p) → l = locAt f p ∧ lo ≤ p ∧ p ≤ b := by
  intro l p hs
  obtain ⟨h1, h2, h3⟩ := h l p hs
  exact ⟨h1, h2, Nat.le_trans h3 hab⟩

theorem nextLoop_facts (f : List Char) : ∀ (fuel : Nat) (st : LexSt) (start : Option (Loc × Nat)) (lo : Nat),
    CurInv f st.cur → (∀ l p, start = some (l, p) → l = locAt f p ∧ lo ≤ p ∧ p ≤ st.cur.off) → lo ≤ st.cur.off →
    CurInv f (nextLoop f fuel st start).2.cur ∧ st.cur.off ≤ (nextLoop f fuel st start).2.cur.off ∧
    ResOK f lo (nextLoop f fuel st start).2.cur.off (nextLoop f fuel st start).1 := by
  intro fuel
  induction fuel with
  | zero => intro st start lo h _ _; exact ⟨h, Nat.le_refl _, trivial⟩
  | succ fuel ih =>
    intro st start lo hinv hstart hlo
    unfold nextLoop
    split
    · -- end of input
      rename_i hrest
      have hoff : st.cur.off = f.length := by
        have h1 := hinv.rest
        rw [hrest] at h1
        have := List.drop_eq_nil_iff.mp h1.symm
        have := hinv.le
        omega
      split
      · refine ⟨hinv, Nat.le_refl _, ?_⟩
        simp only
        rw [hoff]
        exact mkBlock_ok f lo start f.length _ (start_mono hstart (by omega)) (Nat.le_refl _)
      · exact ⟨hinv, Nat.le_refl _, trivial⟩
      · exact ⟨hinv, Nat.le_refl _, trivial⟩
    · rename_i c crest hrest
      split
      · -- directive mode
        have hf := lexDirTok_facts f c st
        split
        · rename_i t st' heq
          rw [heq] at hf
          obtain ⟨hi', hle⟩ := hf.1 hinv
          exact ⟨hi', hle, resOK_of_notBlock f lo _ t hf.2⟩
        · rename_i e st' heq
          rw [heq] at hf
          obtain ⟨hi', hle⟩ := hf.1 hinv
          exact ⟨hi', hle, trivial⟩
        · rename_i st' heq
          rw [heq] at hf
          obtain ⟨hi', hle⟩ := hf.1 hinv
          obtain ⟨hi2, hle2⟩ := reach_skipWs f st'.cur hi'
          dsimp only at hle hle2 hi2
          have := ih { st' with cur := st'.cur.skipWs } start lo hi2
            (start_mono hstart (by dsimp only; omega)) (by dsimp only; omega)
          dsimp only at this
          exact ⟨this.1, by omega, this.2.2⟩
      · split
        · -- newline
          obtain ⟨hi2, hle2⟩ := ((reach_adv f st.cur).trans (reach_skipWs f _)) hinv
          have := ih { st with cur := st.cur.adv.skipWs } start lo hi2
            (start_mono hstart (by dsimp only; omega)) (by dsimp only; omega)
          dsimp only at this
          exact ⟨this.1, by omega, this.2.2⟩
        · split
          · -- '#'
            split
            · refine ⟨hinv, Nat.le_refl _, ?_⟩
              exact mkBlock_ok f lo start st.cur.off _ hstart hinv.le
            · have hf := lexKeyword_facts f st.cur
              split
              · rename_i t cur' heq
                rw [heq] at hf
                obtain ⟨hi', hle⟩ := hf.1 hinv
                exact ⟨hi', hle, resOK_of_notBlock f lo _ t hf.2⟩
              · rename_i e cur' heq
                rw [heq] at hf
                obtain ⟨hi', hle⟩ := hf.1 hinv
                exact ⟨hi', hle, trivial⟩
              · rename_i cur' heq
                rw [heq] at hf
                obtain ⟨hi', hle⟩ := hf.1 hinv
                exact ⟨hi', hle, trivial⟩
          · -- a source line
            obtain ⟨hi2, hle2⟩ := ((reach_toEol f st.cur).trans (reach_skipWs f _)) hinv
            have := ih { cur := st.cur.toEol.skipWs, mode := .sourceBlock }
              (if st.mode = .unknown then some (st.cur.loc, st.cur.off) else start) lo hi2
              (fun l p h => by
                dsimp only
                split at h
                · simp only [Option.some.injEq, Prod.mk.injEq] at h
                  obtain ⟨rfl, rfl⟩ := h
                  exact ⟨hinv.loc, hlo, hle2⟩
                · exact start_mono hstart hle2 l p h) (by dsimp only; omega)
            dsimp only at this ⊢
            exact ⟨this.1, by omega, this.2.2⟩

theorem lexNext_facts (f : List Char) (st : LexSt) (h : CurInv f st.cur) :
    CurInv f (lexNext f st).2.cur ∧ st.cur.off ≤ (lexNext f st).2.cur.off ∧
    ResOK f st.cur.off (lexNext f st).2.cur.off (lexNext f st).1 := by
  unfold lexNext
  obtain ⟨h2, hle⟩ := reach_skipWs f st.cur h
  have := nextLoop_facts f (st.cur.rest.length + 1) { st with cur := st.cur.skipWs } none st.cur.off h2
    (fun l p hs => by cases hs) hle
  dsimp only at this
  exact ⟨this.1, by omega, this.2.2⟩

/-- the blocks among a token list, in order -/
def blocksOfToks : List PTok → List Block
  | [] => []
  | .block b :: r => b :: blocksOfToks r
  | _ :: r => blocksOfToks r

/-- consecutive blocks, each the located text of `f` at its offset, none starting before the previous one ends -/
def Chain (f : List Char) : Nat → List Block → Prop
  | _, [] => True
  | lo, b :: bs => b.ok f lo f.length ∧ Chain f (b.off + b.content.length) bs

theorem Chain.weaken {f : List Char} {lo lo' : Nat} {bs : List Block} (h : Chain f lo bs) (hl : lo' ≤ lo) : Chain f lo' bs := by
  cases bs with
  | nil => trivial
  | cons b bs =>
    obtain ⟨⟨h1, h2, h3, h4⟩, hc⟩ := h
    exact ⟨⟨Nat.le_trans hl h1, h2, h3, h4⟩, hc⟩

theorem Chain.tail {f : List Char} {lo : Nat} {b : Block} {bs : List Block} (h : Chain f lo (b :: bs)) : Chain f lo bs := by
  obtain ⟨⟨h1, _, _, _⟩, hc⟩ := h
  exact hc.weaken (by omega)

theorem Chain.sublist {f : List Char} {bs' bs : List Block} (hs : bs'.Sublist bs) : ∀ {lo : Nat}, Chain f lo bs → Chain f lo bs' := by
  induction hs with
  | slnil => intro lo h; exact h
  | cons a _ ih => intro lo h; exact ih h.tail
  | cons_cons a _ ih => intro lo h; exact ⟨h.1, ih h.2⟩

theorem lexAll_chain (f : List Char) : ∀ (fuel : Nat) (st : LexSt) (ts : List LTok), CurInv f st.cur →
    lexAll f fuel st = .ok ts → Chain f st.cur.off (blocksOfToks (ts.map (·.tok))) := by
  intro fuel
  induction fuel with
  | zero =>
    intro st ts _ h
    simp only [lexAll, Except.ok.injEq] at h
    subst h; trivial
  | succ fuel ih =>
    intro st ts hinv h
    have hf := lexNext_facts f st hinv
    unfold lexAll at h
    split at h
    · simp only [Except.ok.injEq] at h
      subst h; trivial
    · cases h
    · rename_i t st' heq
      rw [heq] at hf
      obtain ⟨hi', hle, hres⟩ := hf
      dsimp only at hi' hle hres
      split at h
      · rename_i ts' hrec
        simp only [Except.ok.injEq] at h
        subst h
        have hc := ih st' ts' hi' hrec
        obtain ⟨s, tok, e⟩ := t
        cases tok with
        | block b =>
          obtain ⟨h1, h2, h3, h4⟩ := hres
          have := hi'.le
          exact ⟨⟨h1, by omega, h3, h4⟩, hc.weaken h2⟩
        | _ => exact hc.weaken hle
      · cases h

theorem lexPre_chain (f : List Char) (toks : List PTok) (h : lexPre f = .ok toks) : Chain f 0 (blocksOfToks toks) := by
  unfold lexPre lexPreL at h
  cases hl : lexAll f (2 * f.length + 3) (lexInit f) with
  | error e => rw [hl] at h; cases h
  | ok ts =>
    rw [hl] at h
    simp only [Except.map, Except.ok.injEq] at h
    subst h
    exact lexAll_chain f _ (lexInit f) ts ⟨Nat.zero_le _, rfl, rfl⟩ hl

/-! ## the blocks that evaluation emits are a sub-sequence of the blocks of the token stream -/

theorem blocksOfToks_append (a b : List PTok) : blocksOfToks (a ++ b) = blocksOfToks a ++ blocksOfToks b := by
  induction a with
  | nil => rfl
  | cons t a ih => cases t <;> simp [blocksOfToks, ih]

mutual
  theorem PExpr.blocks_nil : ∀ e : PExpr, blocksOfToks e.toks = []
    | .term t => by simp only [PExpr.toks]; exact PTerm.blocks_nil t
    | .not t => by simp only [PExpr.toks, blocksOfToks]; exact PTerm.blocks_nil t
    | .and e t => by
      simp only [PExpr.toks, blocksOfToks_append, blocksOfToks, PExpr.blocks_nil e, PTerm.blocks_nil t, List.append_nil]
    | .or e t => by
      simp only [PExpr.toks, blocksOfToks_append, blocksOfToks, PExpr.blocks_nil e, PTerm.blocks_nil t, List.append_nil]
  theorem PTerm.blocks_nil : ∀ t : PTerm, blocksOfToks t.toks = []
    | .sym _ => rfl
    | .paren e => by
      simp only [PTerm.toks, blocksOfToks_append, blocksOfToks, PExpr.blocks_nil e, List.append_nil]
end

theorem Node.toks_cond (e : PExpr) (body : Nodes) (rest : CondRest) :
    blocksOfToks (Node.cond e body rest).toks = blocksOfToks body.toks ++ blocksOfToks rest.toks := by
  simp only [Node.toks, Nodes.toks, CondRest.toks, Node.lines, linesToks_cons, linesToks_append, ALine.toks,
    List.cons_append, blocksOfToks, blocksOfToks_append, PExpr.blocks_nil, List.nil_append]

theorem CondRest.toks_elif (e : PExpr) (body : Nodes) (rest : CondRest) :
    blocksOfToks (CondRest.elif e body rest).toks = blocksOfToks body.toks ++ blocksOfToks rest.toks := by
  simp only [Nodes.toks, CondRest.toks, CondRest.lines, linesToks_cons, linesToks_append, ALine.toks,
    List.cons_append, blocksOfToks, blocksOfToks_append, PExpr.blocks_nil, List.nil_append]

theorem CondRest.toks_els (body : Nodes) : blocksOfToks (CondRest.els body).toks = blocksOfToks body.toks := by
  simp [Nodes.toks, CondRest.toks, CondRest.lines, ALine.toks, blocksOfToks, blocksOfToks_append, linesToks]

theorem Nodes.toks_cons (n : Node) (ns : Nodes) :
    blocksOfToks (Nodes.cons n ns).toks = blocksOfToks n.toks ++ blocksOfToks ns.toks := by
  simp only [Nodes.toks, Node.toks, Nodes.lines, linesToks_append, blocksOfToks_append]

mutual
  theorem evalNode_sub : ∀ (n : Node) (st : PState),
      ∃ sel, (evalNode n st).blocks = st.blocks ++ sel ∧ sel.Sublist (blocksOfToks n.toks)
    | .block b, st => ⟨[b], by simp [evalNode, Node.toks, Node.lines, linesToks, ALine.toks, blocksOfToks]⟩
    | .define s, st => ⟨[], by simp [evalNode]⟩
    | .undef s, st => ⟨[], by simp [evalNode]⟩
    | .cond e body rest, st => by
      rw [Node.toks_cond]
      simp only [evalNode]
      split
      · obtain ⟨sel, h1, h2⟩ := evalNodes_sub body st
        exact ⟨sel, h1, h2.trans (List.sublist_append_left _ _)⟩
      · obtain ⟨sel, h1, h2⟩ := evalRest_sub rest st
        exact ⟨sel, h1, h2.trans (List.sublist_append_right _ _)⟩
  theorem evalNodes_sub : ∀ (ns : Nodes) (st : PState),
      ∃ sel, (evalNodes ns st).blocks = st.blocks ++ sel ∧ sel.Sublist (blocksOfToks ns.toks)
    | .nil, st => ⟨[], by simp [evalNodes]⟩
    | .cons n ns, st => by
      rw [Nodes.toks_cons]
      simp only [evalNodes]
      obtain ⟨s1, h1, h1'⟩ := evalNode_sub n st
      obtain ⟨s2, h2, h2'⟩ := evalNodes_sub ns (evalNode n st)
      exact ⟨s1 ++ s2, by rw [h2, h1, List.append_assoc], List.Sublist.append h1' h2'⟩
  theorem evalRest_sub : ∀ (c : CondRest) (st : PState),
      ∃ sel, (evalRest c st).blocks = st.blocks ++ sel ∧ sel.Sublist (blocksOfToks c.toks)
    | .endif, st => ⟨[], by simp [evalRest]⟩
    | .els body, st => by
      rw [CondRest.toks_els]
      simp only [evalRest]
      exact evalNodes_sub body st
    | .elif e body rest, st => by
      rw [CondRest.toks_elif]
      simp only [evalRest]
      split
      · obtain ⟨sel, h1, h2⟩ := evalNodes_sub body st
        exact ⟨sel, h1, h2.trans (List.sublist_append_left _ _)⟩
      · obtain ⟨sel, h1, h2⟩ := evalRest_sub rest st
        exact ⟨sel, h1, h2.trans (List.sublist_append_right _ _)⟩
end

/-- the blocks a file's preprocessing returns form a chain of located substrings of the file -/
theorem preprocess_chain (f : List Char) (D : Syms) (bs : List Block) (D' : Syms)
    (h : preprocess f D = .ok (bs, D')) : Chain f 0 bs := by
  unfold preprocess at h
  split at h
  · cases h
  · rename_i toks hl
    split at h
    · cases h
    · rename_i ns hp
      simp only [Except.ok.injEq, Prod.mk.injEq] at h
      obtain ⟨rfl, _⟩ := h
      have hc := lexPre_chain f toks hl
      rw [parsePre_sound toks ns hp] at hc
      obtain ⟨sel, hs1, hs2⟩ := evalNodes_sub ns ⟨[], D⟩
      simp only [List.nil_append] at hs1
      rw [hs1]
      exact Chain.sublist hs2 hc

/-! ## consequences of a chain -/

theorem block_in_place (f : List Char) (lo hi : Nat) (b : Block) (h : b.ok f lo hi) (i : Nat) (hi' : i ≤ b.content.length) :
    (b.content.take i).foldl advance b.start = locAt f (b.off + i) := by
  obtain ⟨_, _, h3, h4⟩ := h
  rw [h3, h4, List.take_take, Nat.min_eq_left hi']
  unfold locAt
  rw [foldl_advance_append, ← List.take_add]

theorem chain_mem {f : List Char} : ∀ {bs : List Block} {lo : Nat}, Chain f lo bs → ∀ b ∈ bs, b.ok f lo f.length := by
  intro bs
  induction bs with
  | nil => intro lo _ b hb; cases hb
  | cons a bs ih =>
    intro lo h b hb
    cases hb with
    | head => exact h.1
    | tail _ hm => exact ih h.tail b hm

theorem chain_pairwise {f : List Char} : ∀ {bs : List Block} {lo : Nat}, Chain f lo bs →
    bs.Pairwise (fun a b => a.off + a.content.length ≤ b.off) := by
  intro bs
  induction bs with
  | nil => intro _ _; exact List.Pairwise.nil
  | cons a bs ih =>
    intro lo h
    refine List.Pairwise.cons ?_ (ih h.2)
    intro b hb
    exact (chain_mem h.2 b hb).1

/-! ## the stack machine on the lines of a tree computes `evalNodes` -/

theorem specRun_append (st : SpecSt) (a b : List ALine) :
    specRun st (a ++ b) = (specRun st a).bind (fun st' => specRun st' b) := by
  induction a generalizing st with
  | nil => rfl
  | cons l a ih =>
    simp only [List.cons_append, specRun]
    split
    · exact ih _
    · rfl

theorem allActive_cons (fr : Frame) (stk : List Frame) : allActive (fr :: stk) = (fr.active && allActive stk) := by
  simp [allActive]

mutual
  theorem spec_node : ∀ (n : Node) (stk : List Frame) (out : PState),
      specRun ⟨stk, out⟩ n.lines = some ⟨stk, if allActive stk then evalNode n out else out⟩
    | .block b, stk, out => by
      simp only [Node.lines, specRun, specStep, evalNode]
      split <;> rfl
    | .define s, stk, out => by
      simp only [Node.lines, specRun, specStep, evalNode]
      split <;> rfl
    | .undef s, stk, out => by
      simp only [Node.lines, specRun, specStep, evalNode]
      split <;> rfl
    | .cond e body rest, stk, out => by
      simp only [Node.lines, specRun, specStep]
      rw [specRun_append, spec_nodes body _ out]
      simp only [Option.bind]
      rw [spec_rest rest _ stk _ rfl]
      simp only [allActive_cons, evalNode]
      cases allActive stk <;> cases e.eval out.syms <;> simp
  theorem spec_nodes : ∀ (ns : Nodes) (stk : List Frame) (out : PState),
      specRun ⟨stk, out⟩ ns.lines = some ⟨stk, if allActive stk then evalNodes ns out else out⟩
    | .nil, stk, out => by simp [Nodes.lines, specRun, evalNodes]
    | .cons n ns, stk, out => by
      simp only [Nodes.lines]
      rw [specRun_append, spec_node n stk out]
      simp only [Option.bind]
      rw [spec_nodes ns stk _]
      simp only [evalNodes]
      cases allActive stk <;> simp
  theorem spec_rest : ∀ (c : CondRest) (fr : Frame) (stk : List Frame) (out : PState), fr.seenElse = false →
      specRun ⟨fr :: stk, out⟩ c.lines = some ⟨stk, if allActive stk && !fr.taken then evalRest c out else out⟩
    | .endif, fr, stk, out, _ => by
      simp [CondRest.lines, specRun, specStep, evalRest]
    | .els body, fr, stk, out, h => by
      simp only [CondRest.lines, specRun, specStep, h, Bool.false_eq_true, ↓reduceIte]
      rw [specRun_append]
      rw [spec_nodes body _ out]
      simp only [Option.bind, specRun, specStep, allActive_cons, evalRest]
      cases allActive stk <;> cases fr.taken <;> simp
    | .elif e body rest, fr, stk, out, h => by
      simp only [CondRest.lines, specRun, specStep, h, Bool.false_eq_true, ↓reduceIte]
      rw [specRun_append]
      rw [spec_nodes body _ out]
      simp only [Option.bind]
      rw [spec_rest rest _ stk _ rfl]
      simp only [allActive_cons, evalRest]
      cases allActive stk <;> cases fr.taken <;> cases e.eval out.syms <;> simp
end

/-- on the lines of any tree the stack machine ends balanced with exactly the blocks and symbols of `evalNodes` -/
theorem specFile_tree (ns : Nodes) (D : Syms) : specFile ns.lines D = some (evalNodes ns ⟨[], D⟩) := by
  unfold specFile
  rw [spec_nodes ns [] ⟨[], D⟩]
  simp [allActive]

end Slicec.Pp
