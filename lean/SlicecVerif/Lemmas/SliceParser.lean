/-
  The parser model inverts the structural token printer (C02, parser half), stage 2:
  shapes of token sequences (`Shape`: which sequences an abstract element may be written as, optional commas
  included) and, for every nonterminal, "the parser applied to a sequence of that shape, followed by anything that
  cannot continue the element, returns the element and the rest".
-/
import SlicecVerif.Model.SliceParser

namespace Slicec.SPar

open Slicec Slicec.SLex

/-! ## shapes -/

abbrev Shape := Toks → Prop

/-- an optional comma: written or not -/
def OptComma (c : Toks) : Prop := c = [] ∨ c = [.comma]

/-- elements, each followed by an optional comma (`UndelimitedList`) -/
def SepShape : List Shape → Shape
  | [], T => T = []
  | S :: Ss, T => ∃ T1 c T2, S T1 ∧ OptComma c ∧ SepShape Ss T2 ∧ T = T1 ++ (c ++ T2)

/-- elements one after the other (`X*`) -/
def CatShape : List Shape → Shape
  | [], T => T = []
  | S :: Ss, T => ∃ T1 T2, S T1 ∧ CatShape Ss T2 ∧ T = T1 ++ T2

/-- what may follow an element: not a token that would continue it (`?` `::` `=` `(` `->` or a second comma) -/
def okNext : Toks → Bool
  | .qmark :: _ => false
  | .dcolon :: _ => false
  | .equals :: _ => false
  | .lparen :: _ => false
  | .arrow :: _ => false
  | .comma :: _ => false
  | _ => true

/-! ## `manyF` -/

theorem manyF_cat {α : Type} (step : Step α) (Q : Toks → Prop) (sh : α → Shape) (rest : Toks)
    (hrest : Q rest) (hstop : step rest = some none) :
    ∀ (xs : List α) (T : Toks) (n : Nat), xs.length < n → CatShape (xs.map sh) T →
      (∀ x ∈ xs, ∀ T1 R, sh x T1 → Q R → step (T1 ++ R) = some (some (x, R))) →
      (∀ x ∈ xs, ∀ T1 R, sh x T1 → Q (T1 ++ R)) →
      manyF step n (T ++ rest) = some (xs, rest) := by
  intro xs
  induction xs with
  | nil =>
    intro T n hn hT _ _
    simp only [List.map_nil, CatShape] at hT
    subst hT
    cases n with
    | zero => omega
    | succ n => simp [manyF, hstop]
  | cons x xs ih =>
    intro T n hn hT hstep hhead
    simp only [List.map_cons, CatShape] at hT
    obtain ⟨T1, T2, h1, h2, rfl⟩ := hT
    cases n with
    | zero => omega
    | succ n =>
      have hQ : Q (T2 ++ rest) := by
        cases xs with
        | nil => simp only [List.map_nil, CatShape] at h2; subst h2; simpa using hrest
        | cons y ys =>
          simp only [List.map_cons, CatShape] at h2
          obtain ⟨U1, U2, g1, _, rfl⟩ := h2
          rw [List.append_assoc]
          exact hhead y (by simp) U1 _ g1
      have e := hstep x (by simp) T1 (T2 ++ rest) h1 hQ
      have ih' := ih T2 n (by simp only [List.length_cons] at hn; omega) h2
        (fun y hy => hstep y (by simp [hy])) (fun y hy => hhead y (by simp [hy]))
      simp only [manyF, List.append_assoc, e, ih']

theorem manyF_sep {α : Type} (step : Step α) (sh : α → Shape) (rest : Toks)
    (hrest : okNext rest = true) (hstop : step rest = some none) :
    ∀ (xs : List α) (T : Toks) (n : Nat), xs.length < n → SepShape (xs.map sh) T →
      (∀ x ∈ xs, ∀ T1 c R, sh x T1 → OptComma c → okNext R = true → step (T1 ++ (c ++ R)) = some (some (x, R))) →
      (∀ x ∈ xs, ∀ T1 R, sh x T1 → okNext (T1 ++ R) = true) →
      manyF step n (T ++ rest) = some (xs, rest) := by
  intro xs
  induction xs with
  | nil =>
    intro T n hn hT _ _
    simp only [List.map_nil, SepShape] at hT
    subst hT
    cases n with
    | zero => omega
    | succ n => simp [manyF, hstop]
  | cons x xs ih =>
    intro T n hn hT hstep hhead
    simp only [List.map_cons, SepShape] at hT
    obtain ⟨T1, c, T2, h1, hc, h2, rfl⟩ := hT
    cases n with
    | zero => omega
    | succ n =>
      have hQ : okNext (T2 ++ rest) = true := by
        cases xs with
        | nil => simp only [List.map_nil, SepShape] at h2; subst h2; simpa using hrest
        | cons y ys =>
          simp only [List.map_cons, SepShape] at h2
          obtain ⟨U1, d, U2, g1, _, _, rfl⟩ := h2
          rw [List.append_assoc]
          exact hhead y (by simp) U1 _ g1
      have e := hstep x (by simp) T1 c (T2 ++ rest) h1 hc hQ
      have ih' := ih T2 n (by simp only [List.length_cons] at hn; omega) h2
        (fun y hy => hstep y (by simp [hy])) (fun y hy => hhead y (by simp [hy]))
      simp only [manyF, List.append_assoc, e, ih']

/-- the number of elements of a shape whose elements are not empty is at most the number of tokens -/
theorem catShape_length {α : Type} (sh : α → Shape) (hne : ∀ x T1, sh x T1 → T1 ≠ []) :
    ∀ (xs : List α) (T : Toks), CatShape (xs.map sh) T → xs.length ≤ T.length := by
  intro xs
  induction xs with
  | nil => intro T _; simp
  | cons x xs ih =>
    intro T hT
    simp only [List.map_cons, CatShape] at hT
    obtain ⟨T1, T2, h1, h2, rfl⟩ := hT
    have := ih T2 h2
    have h0 : 0 < T1.length := List.length_pos_iff.mpr (hne x T1 h1)
    simp only [List.length_cons, List.length_append]
    omega

theorem sepShape_length {α : Type} (sh : α → Shape) (hne : ∀ x T1, sh x T1 → T1 ≠ []) :
    ∀ (xs : List α) (T : Toks), SepShape (xs.map sh) T → xs.length ≤ T.length := by
  intro xs
  induction xs with
  | nil => intro T _; simp
  | cons x xs ih =>
    intro T hT
    simp only [List.map_cons, SepShape] at hT
    obtain ⟨T1, c, T2, h1, _, h2, rfl⟩ := hT
    have := ih T2 h2
    have h0 : 0 < T1.length := List.length_pos_iff.mpr (hne x T1 h1)
    simp only [List.length_cons, List.length_append]
    omega

theorem many_cat {α : Type} (step : Step α) (Q : Toks → Prop) (sh : α → Shape) (xs : List α) (T rest : Toks)
    (hT : CatShape (xs.map sh) T) (hne : ∀ x T1, sh x T1 → T1 ≠ [])
    (hstep : ∀ x ∈ xs, ∀ T1 R, sh x T1 → Q R → step (T1 ++ R) = some (some (x, R)))
    (hhead : ∀ x ∈ xs, ∀ T1 R, sh x T1 → Q (T1 ++ R))
    (hrest : Q rest) (hstop : step rest = some none) :
    many step (T ++ rest) = some (xs, rest) := by
  have := catShape_length sh hne xs T hT
  exact manyF_cat step Q sh rest hrest hstop xs T _ (by simp only [List.length_append]; omega) hT hstep hhead

theorem many_sep {α : Type} (step : Step α) (sh : α → Shape) (xs : List α) (T rest : Toks)
    (hT : SepShape (xs.map sh) T) (hne : ∀ x T1, sh x T1 → T1 ≠ [])
    (hstep : ∀ x ∈ xs, ∀ T1 c R, sh x T1 → OptComma c → okNext R = true → step (T1 ++ (c ++ R)) = some (some (x, R)))
    (hhead : ∀ x ∈ xs, ∀ T1 R, sh x T1 → okNext (T1 ++ R) = true)
    (hrest : okNext rest = true) (hstop : step rest = some none) :
    many step (T ++ rest) = some (xs, rest) := by
  have := sepShape_length sh hne xs T hT
  exact manyF_sep step sh rest hrest hstop xs T _ (by simp only [List.length_append]; omega) hT hstep hhead

/-! ## follow conditions -/

def notDc : Toks → Bool
  | .dcolon :: _ => false
  | _ => true

def notLp : Toks → Bool
  | .lparen :: _ => false
  | _ => true

def notLb : Toks → Bool
  | .lbracket :: _ => false
  | _ => true

/-- not the start of a prelude element -/
def notPre : Toks → Bool
  | .lbracket :: _ => false
  | .doc _ :: _ => false
  | _ => true

theorem okNext_notDc (R : Toks) (h : okNext R = true) : notDc R = true := by
  cases R with
  | nil => rfl
  | cons t r => cases t <;> simp_all [okNext, notDc]

theorem okNext_notLp (R : Toks) (h : okNext R = true) : notLp R = true := by
  cases R with
  | nil => rfl
  | cons t r => cases t <;> simp_all [okNext, notLp]

/-! ## identifiers -/

theorem parseScopedTail_append (T R : Toks) (v : List (List Char)) (h : parseScopedTail T = some (v, []))
    (hR : notDc R = true) : parseScopedTail (T ++ R) = some (v, R) := by
  fun_induction parseScopedTail T generalizing v with
  | case1 s r v' r' hrec ih =>
    simp only [Option.some.injEq, Prod.mk.injEq] at h
    obtain ⟨rfl, rfl⟩ := h
    simp [parseScopedTail, ih v' hrec]
  | case2 s r hrec => simp at h
  | case3 r hne => simp at h
  | case4 r h1 h2 =>
    simp only [Option.some.injEq, Prod.mk.injEq] at h
    obtain ⟨rfl, rfl⟩ := h
    cases R with
    | nil => simp [parseScopedTail]
    | cons t R' =>
      cases t <;> simp_all [parseScopedTail, notDc]

theorem relOf_append (T R : Toks) (id : String) (h : relOf T = some id) (hR : notDc R = true) :
    parseRelIdent (T ++ R) = some (id, R) ∧ ∃ s r, T = .ident s :: r := by
  unfold relOf at h
  cases T with
  | nil => simp [parseRelIdent] at h
  | cons t r =>
    cases t with
    | ident s =>
      simp only [parseRelIdent] at h
      cases hq : parseScopedTail r with
      | none => simp [hq] at h
      | some p =>
        obtain ⟨v, r'⟩ := p
        simp only [hq] at h
        cases r' with
        | cons _ _ => simp at h
        | nil =>
          simp only [Option.some.injEq] at h
          subst h
          refine ⟨?_, s, r, rfl⟩
          simp [parseRelIdent, parseScopedTail_append r R v hq hR]
    | _ => simp [parseRelIdent] at h

theorem scopedOf_append (T R : Toks) (id : String) (h : scopedOf T = some id) (hR : notDc R = true) :
    (parseRelIdent (T ++ R) = some (id, R) ∧ ∃ s r, T = .ident s :: r) ∨
    (parseGlobalIdent (T ++ R) = some (id, R) ∧ ∃ r, T = .dcolon :: r) := by
  cases T with
  | nil => simp [scopedOf, relOf, parseRelIdent] at h
  | cons t r =>
    by_cases ht : t = .dcolon
    · subst ht
      right
      refine ⟨?_, r, rfl⟩
      simp only [scopedOf] at h
      cases r with
      | nil => simp [parseGlobalIdent] at h
      | cons u r2 =>
        cases u with
        | ident s =>
          simp only [parseGlobalIdent] at h
          cases hq : parseScopedTail r2 with
          | none => simp [hq] at h
          | some p =>
            obtain ⟨v, r'⟩ := p
            simp only [hq] at h
            cases r' with
            | cons _ _ => simp at h
            | nil =>
              simp only [Option.some.injEq] at h
              subst h
              simp [parseGlobalIdent, parseScopedTail_append r2 R v hq hR]
        | _ => simp [parseGlobalIdent] at h
    · left
      have h' : relOf (t :: r) = some id := by
        cases t <;> first | exact absurd rfl ht | exact h
      exact relOf_append _ R id h' hR

/-! ## attributes -/

theorem escArg_cons (c : Char) (cs : List Char) :
    escArg (c :: cs) = (if c == '"' || c == '\\' then ['\\', c] else [c]) ++ escArg cs := rfl

theorem unescape_escArg (s : List Char) : unescapeLit (escArg s) false = s := by
  induction s with
  | nil => rfl
  | cons c cs ih =>
    rw [escArg_cons]
    by_cases hq : c = '"'
    · subst hq
      simp only [show (('"' == '"') || ('"' == '\\')) = true by decide, if_true, List.cons_append, List.nil_append]
      simp [unescapeLit, ih]
    · by_cases hb : c = '\\'
      · subst hb
        simp only [show (('\\' == '"') || ('\\' == '\\')) = true by decide, if_true, List.cons_append, List.nil_append]
        simp [unescapeLit, ih]
      · have h1 : (c == '"' || c == '\\') = false := by simp [hq, hb]
        have h2 : (c == '\\') = false := by simp [hb]
        simp only [h1, Bool.false_eq_true, if_false, List.cons_append, List.nil_append]
        simp [unescapeLit, h2, ih]

theorem argOf_argTok (x : String) : argOf (argTok x) = some x := by
  unfold argTok
  split
  · simp [argOf, String.ofList_toList]
  · simp [argOf, unescape_escArg, String.ofList_toList]

theorem argTok_ne_rparen (x : String) : argTok x ≠ .rparen := by
  unfold argTok; split <;> simp

theorem argsToks_cons (x : String) (xs : List String) :
    argsToks (x :: xs) = argTok x :: xs.flatMap (fun y => [.comma, argTok y]) := by
  induction xs generalizing x with
  | nil => rfl
  | cons y ys ih => simp only [argsToks, ih y, List.flatMap_cons, List.cons_append, List.nil_append]

theorem parseArgsTail_toks (xs : List String) (R : Toks) :
    parseArgsTail (xs.flatMap (fun y => [.comma, argTok y]) ++ .rparen :: R) = some (xs, R) := by
  induction xs with
  | nil => simp [parseArgsTail]
  | cons y ys ih =>
    simp only [List.flatMap_cons, List.cons_append, List.nil_append, List.append_assoc]
    have hne := argTok_ne_rparen y
    have ha := argOf_argTok y
    cases ht : argTok y <;> rw [ht] at ha hne <;> first | exact absurd rfl hne | simp [parseArgsTail, ha, ih]

theorem parseArgs_toks (x : String) (xs : List String) (R : Toks) :
    parseArgs (argsToks (x :: xs) ++ .rparen :: R) = some (x :: xs, R) := by
  rw [argsToks_cons]
  simp only [List.cons_append]
  have hne := argTok_ne_rparen x
  have ha := argOf_argTok x
  have ht := parseArgsTail_toks xs R
  cases hx : argTok x <;> rw [hx] at ha hne <;> first | exact absurd rfl hne | simp [parseArgs, ha, ht]

theorem parseAttribute_toks (a : Attr) (h : attrRT a = true) (R : Toks) (hR : notDc R = true) (hR2 : notLp R = true) :
    parseAttribute (attrToks a ++ R) = some (a, R) := by
  obtain ⟨d, args⟩ := a
  simp only [attrRT, dirRT, beq_iff_eq] at h
  unfold attrToks parseAttribute
  cases args with
  | nil =>
    simp only [List.isEmpty_nil, if_true, List.append_nil]
    rw [(relOf_append _ R d h hR).1]
    cases R with
    | nil => rfl
    | cons t r => cases t <;> simp_all [notLp]
  | cons x xs =>
    simp only [List.isEmpty_cons, Bool.false_eq_true, if_false, List.append_assoc, List.cons_append, List.nil_append]
    rw [(relOf_append _ _ d h (by rfl)).1]
    simp [parseArgs_toks]

def localAttrSh (a : Attr) : Shape := fun T => T = .lbracket :: attrToks a ++ [.rbracket]

theorem localAttrStep_toks (a : Attr) (h : attrRT a = true) (R : Toks) :
    localAttrStep ((.lbracket :: attrToks a ++ [.rbracket]) ++ R) = some (some (a, R)) := by
  simp only [List.cons_append, List.append_assoc, List.nil_append, localAttrStep]
  rw [parseAttribute_toks a h _ (by rfl) (by rfl)]

theorem fileAttrStep_toks (a : Attr) (h : attrRT a = true) (R : Toks) :
    fileAttrStep ((.dlbracket :: attrToks a ++ [.drbracket]) ++ R) = some (some (a, R)) := by
  simp only [List.cons_append, List.append_assoc, List.nil_append, fileAttrStep]
  rw [parseAttribute_toks a h _ (by rfl) (by rfl)]

theorem catShape_flatMap {α : Type} (g : α → Toks) (xs : List α) :
    CatShape (xs.map fun x => (fun T => T = g x)) (xs.flatMap g) := by
  induction xs with
  | nil => simp [CatShape]
  | cons x xs ih => exact ⟨g x, xs.flatMap g, rfl, ih, by simp⟩

theorem flatMap_single {α β : Type} (f : α → β) (xs : List α) : (xs.flatMap fun x => [f x]) = xs.map f := by
  induction xs with
  | nil => rfl
  | cons x xs ih => simp [List.flatMap_cons, ih]

theorem catShape_append (A B : List Shape) (T1 T2 : Toks) (h1 : CatShape A T1) (h2 : CatShape B T2) :
    CatShape (A ++ B) (T1 ++ T2) := by
  induction A generalizing T1 with
  | nil => simp only [CatShape] at h1; subst h1; simpa using h2
  | cons S Ss ih =>
    obtain ⟨U1, U2, g1, g2, rfl⟩ := h1
    exact ⟨U1, U2 ++ T2, g1, ih U2 g2, by simp⟩

theorem localAttrStep_stop (R : Toks) (h : notLb R = true) : localAttrStep R = some none := by
  cases R with
  | nil => rfl
  | cons t r => cases t <;> simp_all [notLb, localAttrStep]

theorem many_localAttrs (as : List Attr) (h : as.all attrRT = true) (R : Toks) (hR : notLb R = true) :
    many localAttrStep (localAttrsToks as ++ R) = some (as, R) := by
  refine many_cat localAttrStep (fun _ => True) (fun a T => T = .lbracket :: attrToks a ++ [.rbracket]) as _ R
    (catShape_flatMap _ as) ?_ ?_ (fun _ _ _ _ _ => trivial) trivial (localAttrStep_stop R hR)
  · intro a T1 h1; subst h1; simp
  · intro a ha T1 R' h1 _
    subst h1
    rw [List.all_eq_true] at h
    exact localAttrStep_toks a (h a ha) R'

theorem fileAttrStep_stop (R : Toks) (h : R.head? ≠ some .dlbracket) : fileAttrStep R = some none := by
  cases R with
  | nil => rfl
  | cons t r => cases t <;> simp_all [fileAttrStep]

theorem many_fileAttrs (as : List Attr) (h : as.all attrRT = true) (R : Toks) (hR : R.head? ≠ some .dlbracket) :
    many fileAttrStep (fileAttrsToks as ++ R) = some (as, R) := by
  refine many_cat fileAttrStep (fun _ => True) (fun a T => T = .dlbracket :: attrToks a ++ [.drbracket]) as _ R
    (catShape_flatMap _ as) ?_ ?_ (fun _ _ _ _ _ => trivial) trivial (fileAttrStep_stop R hR)
  · intro a T1 h1; subst h1; simp
  · intro a ha T1 R' h1 _
    subst h1
    rw [List.all_eq_true] at h
    exact fileAttrStep_toks a (h a ha) R'

/-! ## prelude -/

def preSh : PreItem → Shape
  | .doc s => fun T => T = [.doc s.toList]
  | .attr a => fun T => T = .lbracket :: attrToks a ++ [.rbracket]

theorem preDocs_append (d : List String) (as : List Attr) :
    preDocs (d.map PreItem.doc ++ as.map PreItem.attr) = d ∧ preAttrs (d.map PreItem.doc ++ as.map PreItem.attr) = as := by
  induction d with
  | nil =>
    induction as with
    | nil => exact ⟨rfl, rfl⟩
    | cons a as ih => simp only [List.map_nil, List.nil_append, List.map_cons, preDocs, preAttrs] at ih ⊢; exact ⟨ih.1, by rw [ih.2]⟩
  | cons l d ih => simp only [List.map_cons, List.cons_append, preDocs, preAttrs]; exact ⟨by rw [ih.1], ih.2⟩

theorem preludeStep_stop (R : Toks) (h : notPre R = true) : preludeStep R = some none := by
  cases R with
  | nil => rfl
  | cons t r => cases t <;> simp_all [notPre, preludeStep]

theorem parsePrelude_toks (d : List String) (as : List Attr) (h : as.all attrRT = true) (R : Toks) (hR : notPre R = true) :
    parsePrelude (docToks d ++ localAttrsToks as ++ R) = some ((d, as), R) := by
  have hm : many preludeStep (docToks d ++ localAttrsToks as ++ R) = some (d.map PreItem.doc ++ as.map PreItem.attr, R) := by
    refine many_cat preludeStep (fun _ => True) preSh _ _ R ?_ ?_ ?_ (fun _ _ _ _ _ => trivial) trivial (preludeStep_stop R hR)
    · rw [List.map_append]
      refine catShape_append _ _ _ _ ?_ ?_
      · have := catShape_flatMap (fun l : String => [SliceTok.doc l.toList]) d
        rw [flatMap_single] at this
        simpa [docToks, List.map_map, Function.comp_def, preSh] using this
      · have := catShape_flatMap (fun a : Attr => SliceTok.lbracket :: attrToks a ++ [.rbracket]) as
        simpa [localAttrsToks, List.map_map, Function.comp_def, preSh] using this
    · intro x T1 h1
      cases x <;> (simp only [preSh] at h1; subst h1; simp)
    · intro x hx T1 R' h1 _
      cases x with
      | doc s =>
        simp only [preSh] at h1; subst h1
        simp [preludeStep, String.ofList_toList]
      | attr a =>
        simp only [preSh] at h1; subst h1
        have ha : attrRT a = true := by
          rw [List.all_eq_true] at h
          simp only [List.mem_append, List.mem_map] at hx
          rcases hx with ⟨_, _, hh⟩ | ⟨b, hb, hh⟩
          · cases hh
          · obtain rfl : b = a := PreItem.attr.inj hh
            exact h b hb
        simp only [List.cons_append, List.append_assoc, List.nil_append, preludeStep]
        rw [parseAttribute_toks a ha _ (by rfl) (by rfl)]
  simp only [parsePrelude, hm, (preDocs_append d as).1, (preDocs_append d as).2]


/-! ## integers and tags -/

theorem parseSignedInt_toks (l : IntLit) (h : intRT l = true) (R : Toks) :
    parseSignedInt (intToks l ++ R) = some (l, R) := by
  simp only [intRT, beq_iff_eq] at h
  obtain ⟨neg, base, mag, us⟩ := l
  cases neg with
  | false => simp only [intToks, Bool.false_eq_true, if_false, List.nil_append, List.cons_append, parseSignedInt, h]
  | true => simp only [intToks, if_true, List.cons_append, List.nil_append, parseSignedInt, h]

def notTag : Toks → Bool
  | .kw k :: _ => k != "TagKeyword"
  | _ => true

theorem parseTagOpt_toks (t : Option IntLit) (h : tagRT t = true) (R : Toks) (hR : notTag R = true) :
    parseTagOpt (tagToks t ++ R) = some (t, R) := by
  cases t with
  | none =>
    simp only [tagToks, List.nil_append]
    cases R with
    | nil => rfl
    | cons u r =>
      cases u with
      | kw k =>
        simp only [notTag, bne_iff_ne, ne_eq] at hR
        unfold parseTagOpt
        split
        · rename_i heq; simp only [List.cons.injEq, SliceTok.kw.injEq] at heq; exact absurd heq.1 hR
        · rename_i heq; simp only [List.cons.injEq, SliceTok.kw.injEq] at heq; exact absurd heq.1 hR
        · rfl
      | _ => rfl
  | some l =>
    simp only [tagRT] at h
    simp only [tagToks, List.cons_append, List.append_assoc, parseTagOpt, parseSignedInt_toks l h]
    rfl

/-! ## type references -/

def okTy : Toks → Bool
  | .qmark :: _ => false
  | .dcolon :: _ => false
  | _ => true

theorem okNext_okTy (R : Toks) (h : okNext R = true) : okTy R = true := by
  cases R with
  | nil => rfl
  | cons t r => cases t <;> simp_all [okNext, okTy]

theorem okTy_notDc (R : Toks) (h : okTy R = true) : notDc R = true := by
  cases R with
  | nil => rfl
  | cons t r => cases t <;> simp_all [okTy, notDc]

theorem finTy_toks (attrs : List Attr) (ty : TyExpr) (opt : Bool) (R : Toks) (hR : okTy R = true) :
    finTy attrs ty ((if opt then [SliceTok.qmark] else []) ++ R) = some (.mk attrs ty opt, R) := by
  cases opt with
  | true => rfl
  | false =>
    simp only [Bool.false_eq_true, if_false, List.nil_append]
    cases R with
    | nil => rfl
    | cons t r => cases t <;> simp_all [okTy, finTy]

theorem okTy_opt (opt : Bool) (R : Toks) (hR : okTy R = true) : notDc ((if opt then [SliceTok.qmark] else []) ++ R) = true := by
  cases opt with
  | true => rfl
  | false => simpa using okTy_notDc R hR

def primKind (p : Prim) : String := (Gen.sliceKeywords.lookup p.kw).getD ""

theorem prim_kw (p : Prim) : checkKeyword p.kw.toList = .kw (primKind p) ∧ (primKind p == "SequenceKeyword") = false ∧
    (primKind p == "DictionaryKeyword") = false ∧ (primKind p == "ResultKeyword") = false ∧ primOfKind (primKind p) = some p ∧
    (primKind p != "TagKeyword") = true ∧ (primKind p != "StreamKeyword") = true := by
  cases p <;> decide

/-- the first token of a type reference -/
theorem tyToks_head (ty : TyExpr) (h : tyRT ty = true) (X : Toks) :
    (∃ k r, tyToks ty ++ X = .kw k :: r ∧ (k == "SequenceKeyword" || k == "DictionaryKeyword" || k == "ResultKeyword" || (primOfKind k).isSome) = true
       ∧ (k != "TagKeyword") = true ∧ (k != "StreamKeyword") = true) ∨
    (∃ s r, tyToks ty ++ X = .ident s :: r) ∨ (∃ r, tyToks ty ++ X = .dcolon :: r) := by
  cases ty with
  | prim p =>
    obtain ⟨h1, _, _, _, h5, h6, h7⟩ := prim_kw p
    left
    exact ⟨primKind p, X, by simp [tyToks, h1], by simp [h5], h6, h7⟩
  | named id =>
    simp only [tyRT, nameRT, beq_iff_eq] at h
    rcases scopedOf_append _ [] id h rfl with ⟨_, s, r, e⟩ | ⟨_, r, e⟩
    · right; left; exact ⟨s, r ++ X, by simp [tyToks, e]⟩
    · right; right; exact ⟨r ++ X, by simp [tyToks, e]⟩
  | seq e => left; exact ⟨_, _, by simp only [tyToks, List.cons_append]; rfl, by decide, by decide, by decide⟩
  | dict k v => left; exact ⟨_, _, by simp only [tyToks, List.cons_append]; rfl, by decide, by decide, by decide⟩
  | result s f => left; exact ⟨_, _, by simp only [tyToks, List.cons_append]; rfl, by decide, by decide, by decide⟩


def notStream : Toks → Bool
  | .kw k :: _ => k != "StreamKeyword"
  | _ => true

theorem localAttrsToks_cons (a : Attr) (as : List Attr) :
    localAttrsToks (a :: as) = .lbracket :: (attrToks a ++ .rbracket :: localAttrsToks as) := by
  simp [localAttrsToks, List.flatMap_cons]

theorem tyToks_notLb (ty : TyExpr) (h : tyRT ty = true) (X : Toks) : notLb (tyToks ty ++ X) = true := by
  rcases tyToks_head ty h X with ⟨k, r, e, _⟩ | ⟨s, r, e⟩ | ⟨r, e⟩ <;> rw [e] <;> rfl

theorem trefToks_head (t : TRef) (h : trefRT t = true) (X : Toks) :
    startsTypeRef (trefToks t ++ X) = true ∧ notTag (trefToks t ++ X) = true ∧ notStream (trefToks t ++ X) = true := by
  obtain ⟨attrs, ty, opt⟩ := t
  simp only [trefRT, Bool.and_eq_true] at h
  cases attrs with
  | cons a as => simp only [trefToks, localAttrsToks_cons, List.cons_append]; exact ⟨rfl, rfl, rfl⟩
  | nil =>
    simp only [trefToks, localAttrsToks, List.flatMap_nil, List.nil_append, List.append_assoc]
    rcases tyToks_head ty h.2 ((if opt then [SliceTok.qmark] else []) ++ X) with ⟨k, r, e, h1, h2, h3⟩ | ⟨s, r, e⟩ | ⟨r, e⟩
    · rw [e]; exact ⟨h1, h2, h3⟩
    · rw [e]; exact ⟨rfl, rfl, rfl⟩
    · rw [e]; exact ⟨rfl, rfl, rfl⟩

theorem tyBody_named (rec : P TRef) (attrs : List Attr) (id : String) (h : nameRT id = true) (opt : Bool) (R : Toks)
    (hR : okTy R = true) :
    tyBody rec attrs (nameToks id ++ ((if opt then [SliceTok.qmark] else []) ++ R)) = some (.mk attrs (.named id) opt, R) := by
  simp only [nameRT, beq_iff_eq] at h
  rcases scopedOf_append _ ((if opt then [SliceTok.qmark] else []) ++ R) id h (okTy_opt opt R hR) with ⟨e, s, r, hT⟩ | ⟨e, r, hT⟩
  · have e' := e
    rw [hT] at e' ⊢
    simp only [List.cons_append] at e' ⊢
    simp only [tyBody, e', finTy_toks attrs _ opt R hR]
  · have e' := e
    rw [hT] at e' ⊢
    simp only [List.cons_append] at e' ⊢
    simp only [tyBody, e', finTy_toks attrs _ opt R hR]

theorem tyBody_prim (rec : P TRef) (attrs : List Attr) (p : Prim) (opt : Bool) (R : Toks) (hR : okTy R = true) :
    tyBody rec attrs (tyToks (.prim p) ++ ((if opt then [SliceTok.qmark] else []) ++ R)) = some (.mk attrs (.prim p) opt, R) := by
  obtain ⟨h1, h2, h3, h4, h5, _, _⟩ := prim_kw p
  simp only [tyToks, h1, List.cons_append, List.nil_append, tyBody, h2, h3, h4, h5, Bool.false_eq_true, if_false,
    finTy_toks attrs _ opt R hR]

theorem trefToks_length (attrs : List Attr) (ty : TyExpr) (opt : Bool) :
    (tyToks ty).length ≤ (trefToks (.mk attrs ty opt)).length := by
  simp only [trefToks, List.length_append]; omega

mutual
theorem parseTy_toks : ∀ (ty : TyExpr) (attrs : List Attr) (opt : Bool), attrs.all attrRT = true → tyRT ty = true →
    ∀ (n : Nat) (R : Toks), (tyToks ty).length < n → okTy R = true →
      parseTypeRefF n (trefToks (.mk attrs ty opt) ++ R) = some (.mk attrs ty opt, R)
  | .prim p, attrs, opt, ha, hty, n, R, hn, hR => by
    cases n with
    | zero => omega
    | succ n =>
      simp only [parseTypeRefF, trefToks, List.append_assoc]
      rw [many_localAttrs attrs ha _ (tyToks_notLb _ hty _)]
      exact tyBody_prim _ attrs p opt R hR
  | .named id, attrs, opt, ha, hty, n, R, hn, hR => by
    cases n with
    | zero => omega
    | succ n =>
      simp only [parseTypeRefF, trefToks, List.append_assoc]
      rw [many_localAttrs attrs ha _ (tyToks_notLb _ hty _)]
      simp only [tyRT] at hty
      exact tyBody_named _ attrs id hty opt R hR
  | .seq e, attrs, opt, ha, hty, n, R, hn, hR => by
    cases n with
    | zero => omega
    | succ n =>
      simp only [parseTypeRefF, trefToks, List.append_assoc]
      rw [many_localAttrs attrs ha _ (tyToks_notLb _ hty _)]
      simp only [tyRT] at hty
      simp only [tyToks, List.length_cons, List.length_append, List.length_nil] at hn
      have ih := parseTRef_toks e hty n (.rchevron :: ((if opt then [SliceTok.qmark] else []) ++ R)) (by omega) rfl
      simp only [tyToks, List.cons_append, List.append_assoc, List.nil_append, tyBody, beq_self_eq_true, if_true, ih,
        finTy_toks attrs _ opt R hR]
  | .dict k v, attrs, opt, ha, hty, n, R, hn, hR => by
    cases n with
    | zero => omega
    | succ n =>
      simp only [parseTypeRefF, trefToks, List.append_assoc]
      rw [many_localAttrs attrs ha _ (tyToks_notLb _ hty _)]
      simp only [tyRT, Bool.and_eq_true] at hty
      simp only [tyToks, List.length_cons, List.length_append, List.length_nil] at hn
      have ih2 := parseTRef_toks v hty.2 n (.rchevron :: ((if opt then [SliceTok.qmark] else []) ++ R)) (by omega) rfl
      have ih1 := parseTRef_toks k hty.1 n (.comma :: (trefToks v ++ .rchevron :: ((if opt then [SliceTok.qmark] else []) ++ R)))
        (by omega) rfl
      simp only [tyToks, List.cons_append, List.append_assoc, List.nil_append, tyBody, ih1, ih2,
        show ("DictionaryKeyword" == "SequenceKeyword") = false by decide, beq_self_eq_true, Bool.false_eq_true, if_false, if_true,
        finTy_toks attrs _ opt R hR]
  | .result s f, attrs, opt, ha, hty, n, R, hn, hR => by
    cases n with
    | zero => omega
    | succ n =>
      simp only [parseTypeRefF, trefToks, List.append_assoc]
      rw [many_localAttrs attrs ha _ (tyToks_notLb _ hty _)]
      simp only [tyRT, Bool.and_eq_true] at hty
      simp only [tyToks, List.length_cons, List.length_append, List.length_nil] at hn
      have ih2 := parseTRef_toks f hty.2 n (.rchevron :: ((if opt then [SliceTok.qmark] else []) ++ R)) (by omega) rfl
      have ih1 := parseTRef_toks s hty.1 n (.comma :: (trefToks f ++ .rchevron :: ((if opt then [SliceTok.qmark] else []) ++ R)))
        (by omega) rfl
      simp only [tyToks, List.cons_append, List.append_assoc, List.nil_append, tyBody, ih1, ih2,
        show ("ResultKeyword" == "SequenceKeyword") = false by decide, show ("ResultKeyword" == "DictionaryKeyword") = false by decide,
        beq_self_eq_true, Bool.false_eq_true, if_false, if_true, finTy_toks attrs _ opt R hR]
theorem parseTRef_toks : ∀ (t : TRef), trefRT t = true → ∀ (n : Nat) (R : Toks), (trefToks t).length < n → okTy R = true →
    parseTypeRefF n (trefToks t ++ R) = some (t, R)
  | .mk attrs ty opt, h, n, R, hn, hR => by
    simp only [trefRT, Bool.and_eq_true] at h
    exact parseTy_toks ty attrs opt h.1 h.2 n R (by have := trefToks_length attrs ty opt; omega) hR
end

theorem parseTypeRef_toks (t : TRef) (h : trefRT t = true) (R : Toks) (hR : okTy R = true) :
    parseTypeRef (trefToks t ++ R) = some (t, R) :=
  parseTRef_toks t h _ R (by simp only [List.length_append]; omega) hR


/-! ## members -/

theorem skipComma_opt (c R : Toks) (hc : OptComma c) (hR : okNext R = true) : skipComma (c ++ R) = R := by
  rcases hc with rfl | rfl
  · cases R with
    | nil => rfl
    | cons t r => cases t <;> simp_all [okNext, skipComma]
  · rfl

theorem okTy_opt_next (c R : Toks) (hc : OptComma c) (hR : okNext R = true) : okTy (c ++ R) = true := by
  rcases hc with rfl | rfl
  · simpa using okNext_okTy R hR
  · rfl

theorem okNext_opt_next (c R : Toks) (hc : OptComma c) (hR : okNext R = true) :
    notLp (c ++ R) = true ∧ (c ++ R).head? ≠ some .equals ∧ (c ++ R).head? ≠ some .arrow := by
  rcases hc with rfl | rfl
  · cases R with
    | nil => simp [notLp]
    | cons t r => cases t <;> simp_all [okNext, notLp]
  · simp [notLp]

theorem takeKw_yes (kind : String) (r : Toks) : takeKw kind (.kw kind :: r) = (true, r) := by
  simp [takeKw]

theorem takeKw_no (kind : String) (Y : Toks) (h : ∀ r, Y ≠ .kw kind :: r) : takeKw kind Y = (false, Y) := by
  cases Y with
  | nil => rfl
  | cons t r =>
    cases t with
    | kw k =>
      have : (k == kind) = false := by
        cases hk : (k == kind) with
        | false => rfl
        | true => exact absurd (by rw [beq_iff_eq.mp hk]) (h r)
      simp [takeKw, this]
    | _ => rfl

theorem takeKw_stream (b : Bool) (Y : Toks) (h : notStream Y = true) :
    takeKw "StreamKeyword" (streamToks b ++ Y) = (b, Y) := by
  cases b with
  | true => simp [streamToks, takeKw_yes]
  | false =>
    simp only [streamToks, Bool.false_eq_true, if_false, List.nil_append]
    refine takeKw_no _ Y ?_
    intro r e
    subst e
    simp [notStream] at h

/-- the tokens of a tag followed by the member's name: where a member starts -/
theorem tag_ident_start (t : Option IntLit) (s : List Char) (X : Toks) :
    notPre (tagToks t ++ .ident s :: X) = true ∧ startsMember (tagToks t ++ .ident s :: X) = true := by
  cases t <;> exact ⟨rfl, rfl⟩

theorem field_eta (f : Field) : (⟨f.doc, f.attrs, f.tag, String.ofList f.name.toList, f.ty⟩ : Field) = f := by
  cases f; simp [String.ofList_toList]

theorem parseFieldBody_toks (f : Field) (h : fieldRT f = true) (Y : Toks) (hY : okTy Y = true) :
    parseFieldBody f.doc f.attrs (tagToks f.tag ++ .ident f.name.toList :: .colon :: (trefToks f.ty ++ Y)) = some (f, Y) := by
  simp only [fieldRT, Bool.and_eq_true] at h
  have e1 := parseTagOpt_toks f.tag h.1.2 (.ident f.name.toList :: .colon :: (trefToks f.ty ++ Y)) rfl
  simp only [parseFieldBody, e1, parseTypeRef_toks f.ty h.2 Y hY, field_eta]

theorem fieldStep_toks (f : Field) (h : fieldRT f = true) (c R : Toks) (hc : OptComma c) (hR : okNext R = true) :
    fieldStep (fieldToks f ++ (c ++ R)) = some (some (f, R)) := by
  have h' := h
  simp only [fieldRT, Bool.and_eq_true] at h'
  obtain ⟨hp1, hp2⟩ := tag_ident_start f.tag f.name.toList (.colon :: (trefToks f.ty ++ (c ++ R)))
  simp only [fieldStep, preStep, ↓reduceIte, fieldToks, List.append_assoc, List.cons_append]
  rw [← List.append_assoc (docToks f.doc), parsePrelude_toks f.doc f.attrs h'.1.1.2 _ hp1]
  simp only [hp2, if_true, parseFieldBody_toks f h _ (okTy_opt_next c R hc hR), skipComma_opt c R hc hR]

theorem param_eta (p : Param) : (⟨p.attrs, p.tag, String.ofList p.name.toList, p.stream, p.ty⟩ : Param) = p := by
  cases p; simp [String.ofList_toList]

theorem parseParamBody_toks (p : Param) (h : paramRT p = true) (Y : Toks) (hY : okTy Y = true) :
    parseParamBody [] p.attrs (tagToks p.tag ++ .ident p.name.toList :: .colon :: (streamToks p.stream ++ (trefToks p.ty ++ Y))) =
      some ((p, false), Y) := by
  simp only [paramRT, Bool.and_eq_true] at h
  have e1 := parseTagOpt_toks p.tag h.1.2 (.ident p.name.toList :: .colon :: (streamToks p.stream ++ (trefToks p.ty ++ Y))) rfl
  simp only [parseParamBody, e1, takeKw_stream p.stream _ (trefToks_head p.ty h.2 Y).2.2, parseTypeRef_toks p.ty h.2 Y hY, param_eta]
  rfl

theorem docToks_nil : docToks [] = [] := rfl

theorem paramStep_toks (p : Param) (h : paramRT p = true) (c R : Toks) (hc : OptComma c) (hR : okNext R = true) :
    paramStep (paramToks p ++ (c ++ R)) = some (some ((p, false), R)) := by
  have h' := h
  simp only [paramRT, Bool.and_eq_true] at h'
  obtain ⟨hp1, hp2⟩ := tag_ident_start p.tag p.name.toList (.colon :: (streamToks p.stream ++ (trefToks p.ty ++ (c ++ R))))
  simp only [paramStep, preStep, ↓reduceIte, paramToks, List.append_assoc, List.cons_append]
  have := parsePrelude_toks [] p.attrs h'.1.1 _ hp1
  simp only [docToks_nil, List.nil_append] at this
  rw [this]
  simp only [hp2, if_true, parseParamBody_toks p h _ (okTy_opt_next c R hc hR), skipComma_opt c R hc hR]

/-- what the tokens of an element start with: a doc comment, `[`, a keyword or an identifier -/
def elemStart : Toks → Bool
  | .doc _ :: _ => true
  | .lbracket :: _ => true
  | .kw _ :: _ => true
  | .ident _ :: _ => true
  | _ => false

theorem elemStart_okNext (Y : Toks) (h : elemStart Y = true) : okNext Y = true := by
  cases Y with
  | nil => rfl
  | cons t r => cases t <;> simp_all [elemStart, okNext]

theorem elemStart_ne_nil (Y : Toks) (h : elemStart Y = true) : Y ≠ [] := by
  intro e; subst e; simp [elemStart] at h

theorem elemStart_append (Y Z : Toks) (h : elemStart Y = true) : elemStart (Y ++ Z) = true := by
  cases Y with
  | nil => simp [elemStart] at h
  | cons t r => cases t <;> simp_all [elemStart]

theorem elemStart_pre (d : List String) (as : List Attr) (Y : Toks) (h : elemStart Y = true) :
    elemStart (docToks d ++ localAttrsToks as ++ Y) = true := by
  cases d with
  | cons l d => rfl
  | nil =>
    cases as with
    | cons a as => simp only [docToks_nil, List.nil_append, localAttrsToks_cons, List.cons_append]; rfl
    | nil => simpa [docToks_nil, localAttrsToks] using h

theorem fieldToks_start (f : Field) : elemStart (fieldToks f) = true := by
  have := elemStart_pre f.doc f.attrs (tagToks f.tag ++ .ident f.name.toList :: .colon :: trefToks f.ty) (by cases f.tag <;> rfl)
  simpa [fieldToks, List.append_assoc] using this

theorem paramToks_start (p : Param) : elemStart (paramToks p) = true := by
  have := elemStart_pre [] p.attrs (tagToks p.tag ++ .ident p.name.toList :: .colon :: (streamToks p.stream ++ trefToks p.ty))
    (by cases p.tag <;> rfl)
  simpa [paramToks, docToks_nil] using this

/-- the end of a member list: `}` or `)` (or anything that is neither the start of a prelude nor of a member) -/
theorem memberStep_stop_field (R : Toks) (h1 : notPre R = true) (h2 : startsMember R = false) : fieldStep R = some none := by
  have hm : many preludeStep R = some ([], R) := by
    simp [many, manyF, preludeStep_stop R h1]
  simp [fieldStep, preStep, parsePrelude, hm, preDocs, preAttrs, h2]

theorem memberStep_stop_param (R : Toks) (h1 : notPre R = true) (h2 : startsMember R = false) : paramStep R = some none := by
  have hm : many preludeStep R = some ([], R) := by
    simp [many, manyF, preludeStep_stop R h1]
  simp [paramStep, preStep, parsePrelude, hm, preDocs, preAttrs, h2]

def fieldsSh (fs : List Field) : Shape := SepShape (fs.map fun f => (fun T => T = fieldToks f))
def paramsSh (ps : List Param) : Shape := SepShape (ps.map fun p => (fun T => T = paramToks p))

theorem many_fields (fs : List Field) (h : fs.all fieldRT = true) (T R : Toks) (hT : fieldsSh fs T)
    (hR : okNext R = true) (h1 : notPre R = true) (h2 : startsMember R = false) :
    many fieldStep (T ++ R) = some (fs, R) := by
  rw [List.all_eq_true] at h
  refine many_sep fieldStep (fun f T => T = fieldToks f) fs T R hT ?_ ?_ ?_ hR (memberStep_stop_field R h1 h2)
  · intro f T1 e; subst e; exact elemStart_ne_nil _ (fieldToks_start f)
  · intro f hf T1 c R' e hc hR'; subst e; exact fieldStep_toks f (h f hf) c R' hc hR'
  · intro f _ T1 R' e; subst e; exact elemStart_okNext _ (elemStart_append _ _ (fieldToks_start f))

theorem map_fst_false {α : Type} (xs : List α) :
    (xs.map fun x => (x, false)).map (·.1) = xs ∧ (xs.map fun x => (x, false)).any (·.2) = false := by
  induction xs with
  | nil => exact ⟨rfl, rfl⟩
  | cons x xs ih => simp [ih.1, ih.2]

theorem parseParams_toks (ps : List Param) (h : ps.all paramRT = true) (T R : Toks) (hT : paramsSh ps T) :
    parseParams (T ++ .rparen :: R) = some ((ps, false), R) := by
  rw [List.all_eq_true] at h
  have hm : many paramStep (T ++ .rparen :: R) = some (ps.map fun p => (p, false), .rparen :: R) := by
    refine many_sep paramStep (fun q T => T = paramToks q.1 ∧ q.2 = false) _ T _ ?_ ?_ ?_ ?_ rfl
      (memberStep_stop_param _ rfl rfl)
    · simpa [paramsSh, List.map_map, Function.comp_def] using hT
    · intro q T1 e; rw [e.1]; exact elemStart_ne_nil _ (paramToks_start q.1)
    · intro q hq T1 c R' e hc hR'
      obtain ⟨p, hp, rfl⟩ := List.mem_map.mp hq
      rw [e.1]
      exact paramStep_toks p (h p hp) c R' hc hR'
    · intro q _ T1 R' e; rw [e.1]; exact elemStart_okNext _ (elemStart_append _ _ (paramToks_start q.1))
  simp only [parseParams, hm, (map_fst_false ps).1, (map_fst_false ps).2]


end Slicec.SPar
