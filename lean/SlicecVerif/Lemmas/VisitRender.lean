/-
  Lemmas for C20, rendering: the string a structured path is rendered to (`pathStr`, what the harness compares)
  determines the path, and the rendered event list (`eventsStr`) determines the events.
-/
import SlicecVerif.Model.Visit

namespace Slicec.Visit

open Slicec

/-! ## joining with a separator is injective on non-empty separator-free pieces -/

def sepJoin (sep : Char) : List (List Char) → List Char
  | [] => []
  | [x] => x
  | x :: y :: r => x ++ sep :: sepJoin sep (y :: r)

theorem intercalate_eq_sepJoin (sep : Char) : ∀ xs : List (List Char), [sep].intercalate xs = sepJoin sep xs
  | [] => by simp [List.intercalate, sepJoin]
  | [x] => by simp [List.intercalate, sepJoin]
  | x :: y :: r => by
    have ih := intercalate_eq_sepJoin sep (y :: r)
    simp only [List.intercalate] at ih
    simp [List.intercalate, sepJoin, ih]

/-- `l` is empty or starts with the separator -/
def SepHead (sep : Char) (l : List Char) : Prop := l = [] ∨ ∃ r, l = sep :: r

/-- the first piece is determined: it ends at the first separator -/
theorem sep_split (sep : Char) : ∀ (x x' l l' : List Char), sep ∉ x → sep ∉ x' → SepHead sep l → SepHead sep l' →
    x ++ l = x' ++ l' → x = x' ∧ l = l'
  | [], [], l, l', _, _, _, _, h => ⟨rfl, by simpa using h⟩
  | [], c :: x', l, l', _, hx', hl, _, h => by
    simp only [List.nil_append, List.cons_append] at h
    rcases hl with rfl | ⟨r, rfl⟩
    · cases h
    · simp only [List.cons.injEq] at h
      exact absurd (h.1 ▸ List.mem_cons_self) hx'
  | c :: x, [], l, l', hx, _, _, hl', h => by
    simp only [List.nil_append, List.cons_append] at h
    rcases hl' with rfl | ⟨r, rfl⟩
    · cases h
    · simp only [List.cons.injEq] at h
      exact absurd (h.1 ▸ List.mem_cons_self) hx
  | c :: x, c' :: x', l, l', hx, hx', hl, hl', h => by
    simp only [List.cons_append, List.cons.injEq] at h
    obtain ⟨rfl, h⟩ := h
    obtain ⟨rfl, rfl⟩ := sep_split sep x x' l l' (fun hm => hx (List.mem_cons_of_mem _ hm))
      (fun hm => hx' (List.mem_cons_of_mem _ hm)) hl hl' h
    exact ⟨rfl, rfl⟩

theorem sepJoin_cons (sep : Char) (x : List Char) (r : List (List Char)) :
    ∃ l, sepJoin sep (x :: r) = x ++ l ∧ SepHead sep l ∧ (r = [] → l = []) ∧ (r ≠ [] → l = sep :: sepJoin sep r) := by
  cases r with
  | nil => exact ⟨[], by simp [sepJoin], Or.inl rfl, fun _ => rfl, fun h => absurd rfl h⟩
  | cons y r => exact ⟨sep :: sepJoin sep (y :: r), by simp [sepJoin], Or.inr ⟨_, rfl⟩, (fun h => by cases h), fun _ => rfl⟩

theorem sepJoin_inj (sep : Char) : ∀ (xs ys : List (List Char)),
    (∀ x ∈ xs, x ≠ [] ∧ sep ∉ x) → (∀ y ∈ ys, y ≠ [] ∧ sep ∉ y) → sepJoin sep xs = sepJoin sep ys → xs = ys
  | [], [], _, _, _ => rfl
  | [], y :: ys, _, hy, h => by
    obtain ⟨l, hl, _⟩ := sepJoin_cons sep y ys
    rw [hl] at h
    simp only [sepJoin] at h
    have : y = [] := by
      cases y with
      | nil => rfl
      | cons c y => simp at h
    exact absurd this (hy y List.mem_cons_self).1
  | x :: xs, [], hx, _, h => by
    obtain ⟨l, hl, _⟩ := sepJoin_cons sep x xs
    rw [hl] at h
    simp only [sepJoin] at h
    have : x = [] := by
      cases x with
      | nil => rfl
      | cons c x => simp at h
    exact absurd this (hx x List.mem_cons_self).1
  | x :: xs, y :: ys, hx, hy, h => by
    obtain ⟨l, hl, hsl, hl0, hl1⟩ := sepJoin_cons sep x xs
    obtain ⟨l', hl', hsl', hl0', hl1'⟩ := sepJoin_cons sep y ys
    rw [hl, hl'] at h
    obtain ⟨rfl, rfl⟩ := sep_split sep x y l l' (hx x List.mem_cons_self).2 (hy y List.mem_cons_self).2 hsl hsl' h
    have hxs : ∀ x ∈ xs, x ≠ [] ∧ sep ∉ x := fun z hz => hx z (List.mem_cons_of_mem _ hz)
    have hys : ∀ y ∈ ys, y ≠ [] ∧ sep ∉ y := fun z hz => hy z (List.mem_cons_of_mem _ hz)
    by_cases hxe : xs = []
    · by_cases hye : ys = []
      · rw [hxe, hye]
      · have := hl1' hye; rw [hl0 hxe] at this; cases this
    · by_cases hye : ys = []
      · have := hl1 hxe; rw [hl0' hye] at this; cases this
      · have e := hl1 hxe
        rw [hl1' hye] at e
        simp only [List.cons.injEq, true_and] at e
        rw [sepJoin_inj sep xs ys hxs hys e.symm]

/-! ## the rendering of one step -/

def Seg.chars (s : Seg) : List Char := (Seg.str s).toList

theorem digits_ne_nil (i : Nat) : Nat.toDigits 10 i ≠ [] := Nat.toDigits_ne_nil

theorem digits_isDigit (i : Nat) (c : Char) (h : c ∈ Nat.toDigits 10 i) : c.isDigit = true :=
  Nat.isDigit_of_mem_toDigits (by decide) (by decide) h

theorem digits_inj (i j : Nat) (h : Nat.toDigits 10 i = Nat.toDigits 10 j) : i = j := by
  have := congrArg (fun l => Nat.ofDigitChars 10 l 0) h
  simpa [Nat.ofDigitChars_ten_toDigits] using this

theorem not_digits_cons (c : Char) (r : List Char) (i : Nat) (hc : c.isDigit = false) : c :: r ≠ Nat.toDigits 10 i := by
  intro h
  have := digits_isDigit i c (h ▸ List.mem_cons_self)
  rw [hc] at this; cases this

theorem Seg.chars_eq (s : Seg) : s.chars =
    match s with
    | .file => ['f', 'i', 'l', 'e'] | .mod => ['m', 'o', 'd']
    | .d i => 'd' :: Nat.toDigits 10 i | .f i => 'f' :: Nat.toDigits 10 i | .o i => 'o' :: Nat.toDigits 10 i
    | .p i => 'p' :: Nat.toDigits 10 i | .r i => 'r' :: Nat.toDigits 10 i | .e i => 'e' :: Nat.toDigits 10 i
    | .t => ['t'] | .te => ['e'] | .tk => ['k'] | .tv => ['v'] | .ts => ['s'] | .tf => ['f'] := by
  cases s <;> simp [Seg.chars, Seg.str, Nat.toList_repr]

theorem Seg.chars_ne_nil (s : Seg) : s.chars ≠ [] := by
  rw [Seg.chars_eq]; cases s <;> simp

theorem Seg.chars_no_dot (s : Seg) : '.' ∉ s.chars := by
  rw [Seg.chars_eq]
  cases s <;> simp <;> (intro h; have := digits_isDigit _ _ h; revert this; decide)

theorem Seg.chars_inj (a b : Seg) (h : a.chars = b.chars) : a = b := by
  rw [Seg.chars_eq, Seg.chars_eq] at h
  cases a <;> cases b <;> simp at h <;>
    first
    | rfl
    | (congr 1; exact digits_inj _ _ h)
    | exact absurd h.symm (digits_ne_nil _)
    | exact absurd h (digits_ne_nil _)
    | exact absurd h (not_digits_cons _ _ _ (by decide))
    | exact absurd h.symm (not_digits_cons _ _ _ (by decide))

/-! ## paths -/

theorem map_inj_of_inj {α β} (g : α → β) (hg : ∀ a b, g a = g b → a = b) : ∀ (xs ys : List α), xs.map g = ys.map g → xs = ys
  | [], [], _ => rfl
  | [], y :: ys, h => by simp at h
  | x :: xs, [], h => by simp at h
  | x :: xs, y :: ys, h => by
    simp only [List.map_cons, List.cons.injEq] at h
    rw [hg x y h.1, map_inj_of_inj g hg xs ys h.2]

theorem pathStr_toList (p : Path) : (pathStr p).toList = sepJoin '.' (p.map Seg.chars) := by
  unfold pathStr
  rw [String.toList_intercalate, List.map_map]
  have : ".".toList = ['.'] := by decide
  rw [this, intercalate_eq_sepJoin]
  rfl

/-- the rendered path determines the structured path -/
theorem pathStr_inj (p q : Path) (h : pathStr p = pathStr q) : p = q := by
  have h' := congrArg String.toList h
  rw [pathStr_toList, pathStr_toList] at h'
  have hp : ∀ (p : Path), ∀ x ∈ p.map Seg.chars, x ≠ [] ∧ '.' ∉ x := by
    intro p x hx
    obtain ⟨s, _, rfl⟩ := List.mem_map.mp hx
    exact ⟨Seg.chars_ne_nil s, Seg.chars_no_dot s⟩
  have := sepJoin_inj '.' _ _ (hp p) (hp q) h'
  exact map_inj_of_inj Seg.chars Seg.chars_inj p q this

/-! ## the wire format: `Event.str` and `eventsStr` -/

/-- the kinds of callbacks the model produces -/
def kinds : List String :=
  ["file", "module", "struct", "interface", "enum", "custom", "alias", "field", "operation", "parameter", "enumerator", "typeref"]

/-- a well-formed event: a known kind, and only type references carry the own/other-file flag -/
def PEvent.OK (e : PEvent) : Prop := e.kind ∈ kinds ∧ (e.kind ≠ "typeref" → e.foreign = false)

theorem Seg.chars_alnum (s : Seg) : ∀ c ∈ s.chars, c.isAlphanum = true := by
  rw [Seg.chars_eq]
  cases s <;> simp <;> try decide
  all_goals
    intro c hc
    have := digits_isDigit _ c hc
    simp [Char.isAlphanum, this]

theorem sepJoin_chars (sep : Char) (P : Char → Prop) (hsep : P sep) :
    ∀ (xs : List (List Char)), (∀ x ∈ xs, ∀ c ∈ x, P c) → ∀ c ∈ sepJoin sep xs, P c
  | [], _, c, hc => by simp [sepJoin] at hc
  | [x], h, c, hc => by simp only [sepJoin] at hc; exact h x List.mem_cons_self c hc
  | x :: y :: r, h, c, hc => by
    simp only [sepJoin, List.mem_append, List.mem_cons] at hc
    rcases hc with hc | rfl | hc
    · exact h x List.mem_cons_self c hc
    · exact hsep
    · exact sepJoin_chars sep P hsep (y :: r) (fun z hz => h z (List.mem_cons_of_mem _ hz)) c hc

/-- a rendered path consists of letters, digits and dots -/
theorem pathStr_chars (p : Path) : ∀ c ∈ (pathStr p).toList, c.isAlphanum = true ∨ c = '.' := by
  rw [pathStr_toList]
  refine sepJoin_chars '.' _ (Or.inr rfl) _ ?_
  intro x hx c hc
  obtain ⟨s, _, rfl⟩ := List.mem_map.mp hx
  exact Or.inl (Seg.chars_alnum s c hc)

theorem kinds_chars : ∀ k ∈ kinds, k.toList ≠ [] ∧ ∀ c ∈ k.toList, c.isAlphanum = true := by
  decide

def suffixChars (e : PEvent) : List Char :=
  if e.kind == "typeref" then (if e.foreign then "@other".toList else "@own".toList) else []

/-- the characters of one event on the wire: `kind:path` and, for type references, `@own` / `@other` -/
theorem eventStr_toList (e : PEvent) :
    (Event.str e.render).toList = e.kind.toList ++ ':' :: ((pathStr e.path).toList ++ suffixChars e) := by
  unfold Event.str PEvent.render suffixChars
  simp only [String.toList_append]
  have : ":".toList = [':'] := by decide
  rw [this]
  cases hk : (e.kind == "typeref") <;> cases hf : e.foreign <;> simp

theorem suffixChars_sepHead (e : PEvent) : SepHead '@' (suffixChars e) := by
  unfold suffixChars
  split
  · split
    · exact Or.inr ⟨"other".toList, by decide⟩
    · exact Or.inr ⟨"own".toList, by decide⟩
  · exact Or.inl rfl

theorem suffixChars_chars (e : PEvent) : ∀ c ∈ suffixChars e, c.isAlphanum = true ∨ c = '@' := by
  unfold suffixChars
  split
  · split <;> decide
  · simp

theorem not_alnum_or (c d : Char) (hc : c.isAlphanum = false) (hd : c ≠ d) {x : Char} (h : x.isAlphanum = true ∨ x = d) : x ≠ c := by
  rintro rfl
  rcases h with h | h
  · rw [hc] at h; cases h
  · exact hd h

/-- **one event**: the wire string of a well-formed event determines the event -/
theorem eventStr_inj (a b : PEvent) (ha : a.OK) (hb : b.OK) (h : Event.str a.render = Event.str b.render) : a = b := by
  have h' := congrArg String.toList h
  rw [eventStr_toList, eventStr_toList] at h'
  have hka := kinds_chars _ ha.1
  have hkb := kinds_chars _ hb.1
  have nocolon : ∀ (k : String), (∀ c ∈ k.toList, c.isAlphanum = true) → ':' ∉ k.toList := by
    intro k hk hm
    have := hk _ hm
    revert this; decide
  obtain ⟨hk, hrest⟩ := sep_split ':' _ _ _ _ (nocolon _ hka.2) (nocolon _ hkb.2) (Or.inr ⟨_, rfl⟩) (Or.inr ⟨_, rfl⟩) h'
  have hkind : a.kind = b.kind := String.toList_inj.mp hk
  simp only [List.cons.injEq, true_and] at hrest
  have noat : ∀ (p : Path), '@' ∉ (pathStr p).toList := by
    intro p hm
    exact not_alnum_or '@' '.' (by decide) (by decide) (pathStr_chars p _ hm) rfl
  obtain ⟨hp, hs⟩ := sep_split '@' _ _ _ _ (noat _) (noat _) (suffixChars_sepHead a) (suffixChars_sepHead b) hrest
  have hpath : a.path = b.path := pathStr_inj _ _ (String.toList_inj.mp hp)
  have hfor : a.foreign = b.foreign := by
    by_cases ht : a.kind = "typeref"
    · have ht' : b.kind = "typeref" := hkind ▸ ht
      unfold suffixChars at hs
      simp only [ht, ht', beq_self_eq_true, if_true] at hs
      cases hfa : a.foreign <;> cases hfb : b.foreign <;> simp [hfa, hfb] at hs ⊢ <;> exact absurd hs (by decide)
    · rw [ha.2 ht, hb.2 (hkind ▸ ht)]
  cases a; cases b
  simp only at hkind hpath hfor
  rw [hkind, hpath, hfor]

theorem eventStr_chars (e : PEvent) (he : e.OK) :
    (Event.str e.render).toList ≠ [] ∧ ',' ∉ (Event.str e.render).toList ∧ '|' ∉ (Event.str e.render).toList ∧
      ' ' ∉ (Event.str e.render).toList := by
  rw [eventStr_toList]
  have hk := (kinds_chars _ he.1).2
  have key : ∀ c ∈ e.kind.toList ++ ':' :: ((pathStr e.path).toList ++ suffixChars e),
      c.isAlphanum = true ∨ c = ':' ∨ c = '.' ∨ c = '@' := by
    intro c hc
    simp only [List.mem_append, List.mem_cons] at hc
    rcases hc with hc | rfl | hc | hc
    · exact Or.inl (hk c hc)
    · exact Or.inr (Or.inl rfl)
    · rcases pathStr_chars _ c hc with h | h
      · exact Or.inl h
      · exact Or.inr (Or.inr (Or.inl h))
    · rcases suffixChars_chars _ c hc with h | h
      · exact Or.inl h
      · exact Or.inr (Or.inr (Or.inr h))
  refine ⟨by simp, ?_, ?_, ?_⟩ <;>
  · intro hm
    have := key _ hm
    revert this; decide

theorem map_inj_on {α β} (g : α → β) : ∀ (xs ys : List α), (∀ a ∈ xs, ∀ b ∈ ys, g a = g b → a = b) → xs.map g = ys.map g → xs = ys
  | [], [], _, _ => rfl
  | [], y :: ys, _, h => by simp at h
  | x :: xs, [], _, h => by simp at h
  | x :: xs, y :: ys, hg, h => by
    simp only [List.map_cons, List.cons.injEq] at h
    rw [hg x List.mem_cons_self y List.mem_cons_self h.1,
      map_inj_on g xs ys (fun a ha b hb => hg a (List.mem_cons_of_mem _ ha) b (List.mem_cons_of_mem _ hb)) h.2]

theorem eventsStr_toList (A : List PEvent) :
    (eventsStr (A.map PEvent.render)).toList = sepJoin ',' (A.map fun e => (Event.str e.render).toList) := by
  unfold eventsStr
  rw [String.toList_intercalate, List.map_map, List.map_map]
  have : ",".toList = [','] := by decide
  rw [this, intercalate_eq_sepJoin]
  rfl

/-- **a walk**: the comma-joined wire string of a list of well-formed events determines the list -/
theorem eventsStr_inj (A B : List PEvent) (hA : ∀ e ∈ A, e.OK) (hB : ∀ e ∈ B, e.OK)
    (h : eventsStr (A.map PEvent.render) = eventsStr (B.map PEvent.render)) : A = B := by
  have h' := congrArg String.toList h
  rw [eventsStr_toList, eventsStr_toList] at h'
  have hp : ∀ (L : List PEvent), (∀ e ∈ L, e.OK) → ∀ x ∈ L.map (fun e => (Event.str e.render).toList), x ≠ [] ∧ ',' ∉ x := by
    intro L hL x hx
    obtain ⟨e, he, rfl⟩ := List.mem_map.mp hx
    exact ⟨(eventStr_chars e (hL e he)).1, (eventStr_chars e (hL e he)).2.1⟩
  have := sepJoin_inj ',' _ _ (hp A hA) (hp B hB) h'
  exact map_inj_on _ A B (fun a ha b hb hab => eventStr_inj a b (hA a ha) (hB b hb) (String.toList_inj.mp hab)) this

/-! ## every callback of a walk is a well-formed event -/

def Forest.KindOK : Forest → Prop
  | .nil => True
  | .cons _ k fr ch rest => (k ∈ kinds ∧ (k ≠ "typeref" → fr = false)) ∧ ch.KindOK ∧ rest.KindOK

theorem flat_kindOK : ∀ (F : Forest) (q : Path), F.KindOK → ∀ e ∈ flat q F, e.OK
  | .nil, _, _, e, he => by simp [flat] at he
  | .cons s k fr ch rest, q, h, e, he => by
    simp only [flat, List.cons_append, List.mem_cons, List.mem_append] at he
    rcases he with rfl | he | he
    · exact h.1
    · exact flat_kindOK ch _ h.2.1 e he
    · exact flat_kindOK rest _ h.2.2 e he

theorem kindOK_append {A B : Forest} (hA : A.KindOK) (hB : B.KindOK) : (A.append B).KindOK := by
  induction A with
  | nil => exact hB
  | cons s k fr ch rest _ ih => exact ⟨hA.1, hA.2.1, ih hA.2.2⟩

theorem idxF_kindOK {α} (seg : Nat → Seg) (kind : α → String) (ch : α → Forest)
    (h : ∀ x, kind x ∈ kinds ∧ (ch x).KindOK) : ∀ (xs : List α) (i : Nat), (idxF seg kind ch i xs).KindOK
  | [], _ => trivial
  | x :: xs, i => ⟨⟨(h x).1, fun _ => rfl⟩, (h x).2, idxF_kindOK seg kind ch h xs (i + 1)⟩

theorem tyF_kindOK (t : Table) (self fuel : Nat) (sc : String) (fr : Bool) (ty : TyExpr) :
    (tyF t self fuel sc fr ty).KindOK := by
  fun_induction tyF t self fuel sc fr ty <;> simp_all [Forest.KindOK, kinds]

theorem tref_kindOK (c : Ctx) (r : TRef) : (c.tref r).KindOK :=
  ⟨⟨by simp [kinds], fun h => absurd rfl h⟩, tyF_kindOK _ _ _ _ _ _, trivial⟩

theorem fieldsF_kindOK (c : Ctx) (fs : List Field) : (fieldsF c fs).KindOK :=
  idxF_kindOK _ _ _ (fun _ => ⟨by simp [kinds], tref_kindOK c _⟩) fs 0

theorem paramsF_kindOK (c : Ctx) (seg : Nat → Seg) (ps : List Param) : (paramsF c seg ps).KindOK :=
  idxF_kindOK _ _ _ (fun _ => ⟨by simp [kinds], tref_kindOK c _⟩) ps 0

theorem opF_kindOK (c : Ctx) (o : Op) : (opF c o).KindOK :=
  kindOK_append (paramsF_kindOK c _ _) (paramsF_kindOK c _ _)

theorem enumeratorF_kindOK (c : Ctx) (en : Enumerator) : (enumeratorF c en).KindOK := by
  unfold enumeratorF; split
  · exact fieldsF_kindOK c _
  · trivial

theorem defF_kindOK (c : Ctx) (d : Def) : defKind d ∈ kinds ∧ (defF c d).KindOK := by
  cases d with
  | struct _ _ _ _ fs => exact ⟨by simp [defKind, kinds], fieldsF_kindOK c fs⟩
  | iface _ _ _ _ ops => exact ⟨by simp [defKind, kinds], idxF_kindOK _ _ _ (fun o => ⟨by simp [kinds], opF_kindOK c o⟩) ops 0⟩
  | «enum» _ _ _ _ _ _ es =>
    exact ⟨by simp [defKind, kinds], idxF_kindOK _ _ _ (fun e => ⟨by simp [kinds], enumeratorF_kindOK c e⟩) es 0⟩
  | custom _ _ _ => exact ⟨by simp [defKind, kinds], trivial⟩
  | «alias» _ _ _ ty => exact ⟨by simp [defKind, kinds], tref_kindOK c ty⟩

theorem fileF_kindOK (c : Ctx) (f : SFile) : (fileF c f).KindOK := by
  refine ⟨⟨by simp [kinds], fun _ => rfl⟩, trivial, kindOK_append ?_ (idxF_kindOK _ _ _ (defF_kindOK c) f.defs 0)⟩
  cases f.module
  · trivial
  · exact ⟨⟨by simp [kinds], fun _ => rfl⟩, trivial, trivial⟩

theorem visitP_OK (t : Table) (self : Nat) (f : SFile) : ∀ e ∈ visitP t self f, e.OK :=
  flat_kindOK _ _ (fileF_kindOK _ f)

/-! ## the whole observation: files joined by `|` -/

theorem eventsStr_visit_chars (t : Table) (self : Nat) (f : SFile) :
    (eventsStr (visit t self f)).toList ≠ [] ∧ '|' ∉ (eventsStr (visit t self f)).toList ∧
      ' ' ∉ (eventsStr (visit t self f)).toList := by
  unfold visit
  rw [eventsStr_toList]
  have hall : ∀ x ∈ (visitP t self f).map (fun e => (Event.str e.render).toList), ∀ c ∈ x, c ≠ '|' ∧ c ≠ ' ' := by
    intro x hx c hc
    obtain ⟨e, he, rfl⟩ := List.mem_map.mp hx
    have := eventStr_chars e (visitP_OK t self f e he)
    exact ⟨fun h => this.2.2.1 (h ▸ hc), fun h => this.2.2.2 (h ▸ hc)⟩
  refine ⟨?_, ?_, ?_⟩
  · -- the first event is the file itself
    obtain ⟨rest, hrest⟩ : ∃ rest, visitP t self f = ⟨"file", [.file], false⟩ :: rest := by
      unfold visitP fileF
      simp only [flat, List.nil_append, List.cons_append]
      exact ⟨_, rfl⟩
    rw [hrest, List.map_cons]
    obtain ⟨l, hl, _⟩ := sepJoin_cons ',' ((Event.str (PEvent.render ⟨"file", [.file], false⟩)).toList)
      (rest.map (fun e => (Event.str e.render).toList))
    rw [hl]
    intro h
    have : (Event.str (PEvent.render ⟨"file", [.file], false⟩)).toList ≠ [] := by decide
    exact this (List.append_eq_nil_iff.mp h).1
  · intro hm
    have := sepJoin_chars ',' (fun c => c ≠ '|' ∧ c ≠ ' ') (by decide) _ hall _ hm
    exact this.1 rfl
  · intro hm
    have := sepJoin_chars ',' (fun c => c ≠ '|' ∧ c ≠ ' ') (by decide) _ hall _ hm
    exact this.2 rfl

theorem map_transfer {α α' β γ} (g : α → β) (g' : α' → β) (h : α → γ) (h' : α' → γ) (hg : ∀ a b, g a = g' b → h a = h' b) :
    ∀ (xs : List α) (ys : List α'), xs.map g = ys.map g' → xs.map h = ys.map h'
  | [], [], _ => rfl
  | [], y :: ys, e => by simp at e
  | x :: xs, [], e => by simp at e
  | x :: xs, y :: ys, e => by
    simp only [List.map_cons, List.cons.injEq] at e ⊢
    exact ⟨hg x y e.1, map_transfer g g' h h' hg xs ys e.2⟩

/-- **the whole observation**: the string the driver emits for a program (`visitDump`: the files' walks joined by `|`, plus
    the fixed trailer) determines the structured walk of every file -/
theorem visitDump_inj (p p' : Program) (h : visitDump p = visitDump p') :
    (p.zipIdx.map fun (f, i) => visitP (buildTable p) i f) = (p'.zipIdx.map fun (f, i) => visitP (buildTable p') i f) := by
  have h' := congrArg String.toList h
  unfold visitDump at h'
  simp only [String.toList_append, String.toList_intercalate, List.map_map] at h'
  have h'' := List.append_cancel_right h'
  have hb : "|".toList = ['|'] := by decide
  rw [hb, intercalate_eq_sepJoin, intercalate_eq_sepJoin] at h''
  have hp : ∀ (q : Program), ∀ x ∈ q.zipIdx.map (String.toList ∘ fun (x : SFile × Nat) => eventsStr (visit (buildTable q) x.2 x.1)),
      x ≠ [] ∧ '|' ∉ x := by
    intro q x hx
    obtain ⟨⟨f, i⟩, _, rfl⟩ := List.mem_map.mp hx
    exact ⟨(eventsStr_visit_chars _ i f).1, (eventsStr_visit_chars _ i f).2.1⟩
  have := sepJoin_inj '|' _ _ (hp p) (hp p') h''
  refine map_transfer _ _ _ _ ?_ _ _ this
  rintro ⟨f, i⟩ ⟨f', i'⟩ hab
  simp only [Function.comp] at hab
  have := String.toList_inj.mp hab
  unfold visit at this
  exact eventsStr_inj _ _ (visitP_OK _ _ _) (visitP_OK _ _ _) this

end Slicec.Visit
