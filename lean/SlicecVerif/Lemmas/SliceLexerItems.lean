/-
  The items the printer produces for a well-formed file pass the separation check (`itemsOk (fileItems f)`), C02.
  Hoare-style triples over `ckRun`: `Runs P items Q` = from every check state in `P` the walk over `items` succeeds
  and ends in `Q`.  State sets are `In a es` = attribute mode `a`, end class among `es`.
-/
import SlicecVerif.Lemmas.SliceLexer

namespace Slicec.SLex

open Slicec

abbrev SP := CkSt → Prop

def Step1 (P : SP) (it : Item) (Q : SP) : Prop := ∀ st, P st → ∃ st', ckItem st it = some st' ∧ Q st'

def Runs (P : SP) (items : List Item) (Q : SP) : Prop := ∀ st, P st → ∃ st', ckRun st items = some st' ∧ Q st'

def In (a : Bool) (es : List EndClass) : SP := fun st => st.attr = a ∧ st.last ∈ es

theorem ckRun_append (st : CkSt) (a b : List Item) :
    ckRun st (a ++ b) = (ckRun st a).bind (fun st' => ckRun st' b) := by
  induction a generalizing st with
  | nil => rfl
  | cons it r ih =>
    simp only [List.cons_append, ckRun]
    cases ckItem st it with
    | none => rfl
    | some st' => exact ih st'

theorem Runs.nil (P : SP) : Runs P [] P := fun st h => ⟨st, rfl, h⟩

theorem Runs.append {P Q R : SP} {a b : List Item} (h1 : Runs P a Q) (h2 : Runs Q b R) : Runs P (a ++ b) R := by
  intro st hp
  obtain ⟨st1, e1, q1⟩ := h1 st hp
  obtain ⟨st2, e2, q2⟩ := h2 st1 q1
  exact ⟨st2, by rw [ckRun_append, e1]; exact e2, q2⟩

theorem Runs.cons {P Q R : SP} {it : Item} {r : List Item} (h1 : Step1 P it Q) (h2 : Runs Q r R) : Runs P (it :: r) R := by
  intro st hp
  obtain ⟨st1, e1, q1⟩ := h1 st hp
  obtain ⟨st2, e2, q2⟩ := h2 st1 q1
  exact ⟨st2, by simp only [ckRun, e1]; exact e2, q2⟩

theorem Runs.weaken {P P' Q Q' : SP} {a : List Item} (h : Runs P a Q) (hp : ∀ st, P' st → P st) (hq : ∀ st, Q st → Q' st) :
    Runs P' a Q' := by
  intro st h'
  obtain ⟨st1, e1, q1⟩ := h st (hp st h')
  exact ⟨st1, e1, hq st1 q1⟩

theorem Step1.weaken {P P' Q Q' : SP} {it : Item} (h : Step1 P it Q) (hp : ∀ st, P' st → P st) (hq : ∀ st, Q st → Q' st) :
    Step1 P' it Q' := by
  intro st h'
  obtain ⟨st1, e1, q1⟩ := h st (hp st h')
  exact ⟨st1, e1, hq st1 q1⟩

theorem In.mono {a : Bool} {es es' : List EndClass} (h : ∀ e ∈ es, e ∈ es') : ∀ st, In a es st → In a es' st :=
  fun _ hs => ⟨hs.1, h _ hs.2⟩

theorem Runs.flatMap {β : Type} (ps : List β) (f : β → List Item) (P : SP) (h : ∀ p ∈ ps, Runs P (f p) P) :
    Runs P (ps.flatMap f) P := by
  induction ps with
  | nil => exact Runs.nil P
  | cons p r ih =>
    rw [List.flatMap_cons]
    exact Runs.append (h p (by simp)) (ih (fun q hq => h q (by simp [hq])))

/-- an indexed list whose first element is treated differently -/
theorem Runs.flatMap_zipIdx {α : Type} (xs : List α) (f : α × Nat → List Item) (P Q : SP) (hPQ : ∀ st, P st → Q st)
    (h0 : ∀ x ∈ xs, Runs P (f (x, 0)) Q) (h : ∀ x ∈ xs, ∀ i, 1 ≤ i → Runs Q (f (x, i)) Q) :
    Runs P (xs.zipIdx.flatMap f) Q := by
  cases xs with
  | nil => exact (Runs.nil P).weaken (fun _ h => h) hPQ
  | cons x r =>
    rw [List.zipIdx_cons, List.flatMap_cons]
    refine Runs.append (h0 x (by simp)) (Runs.flatMap _ f Q ?_)
    intro p hp
    have h1 := List.fst_mem_of_mem_zipIdx hp
    have h2 := List.le_snd_of_mem_zipIdx hp
    obtain ⟨y, i⟩ := p
    exact h y (by simp [h1]) i (by simpa using h2)

/-! ## single items -/

theorem step_op (P : SP) (p : String) : Step1 P (.op p) P := fun st h => ⟨st, rfl, h⟩
theorem step_cl (P : SP) (p : String) : Step1 P (.cl p) P := fun st h => ⟨st, rfl, h⟩
theorem step_glue (P : SP) : Step1 P .glue P := fun st h => ⟨st, rfl, h⟩
theorem step_sp (a : Bool) (es : List EndClass) : Step1 (In a es) .sp (In a [.closed]) :=
  fun st h => ⟨⟨st.attr, .closed⟩, rfl, h.1, by simp⟩
theorem step_nl (a : Bool) (es : List EndClass) (n : Nat) : Step1 (In a es) (.nl n) (In a [.closed]) :=
  fun st h => ⟨⟨st.attr, .closed⟩, rfl, h.1, by simp⟩

theorem step_optComma (a : Bool) : Step1 (In a [.closed, .word]) .optComma (In a [.closed, .word]) := by
  intro st h
  refine ⟨st, ?_, h⟩
  obtain ⟨a', e⟩ := st
  obtain ⟨_, he⟩ := h
  simp only [List.mem_cons, List.mem_nil_iff, or_false] at he
  rcases he with rfl | rfl <;> rfl

/-- a constant spelling: the table is evaluated -/
theorem step_const (s : String) (a a' : Bool) (es : List EndClass) (e' : EndClass)
    (h : ∀ e ∈ es, ckText ⟨a, e⟩ s.toList false = some ⟨a', e'⟩) : Step1 (In a es) (.tok s) (In a' [e']) := by
  intro st hs
  obtain ⟨a0, e0⟩ := st
  obtain ⟨ha, he⟩ := hs
  simp only at ha he
  subst ha
  exact ⟨⟨a', e'⟩, h e0 he, rfl, by simp⟩


/-! ## spellings with variable text -/

theorem compat_word_start (e : EndClass) (w : List Char) (hid : isIdentText w = true)
    (he : e ∈ [EndClass.closed, .afterLBracket, .afterRBracket, .afterColon, .afterMinus]) : compat e w = true := by
  cases w with
  | nil => simp [isIdentText] at hid
  | cons c r =>
    simp only [isIdentText, Bool.and_eq_true] at hid
    have h1 := beq_false_of_isAlpha c '[' (by decide) hid.1
    have h2 := beq_false_of_isAlpha c ']' (by decide) hid.1
    have h3 := beq_false_of_isAlpha c ':' (by decide) hid.1
    have h4 := beq_false_of_isAlpha c '>' (by decide) hid.1
    simp only [List.mem_cons, List.mem_nil_iff, or_false] at he
    rcases he with rfl | rfl | rfl | rfl | rfl <;> simp [compat, bne, h1, h2, h3, h4]

theorem ckText_word (st : CkSt) (w : List Char) (hid : isIdentText w = true) (hc : compat st.last w = true) :
    ckText st w false = some ⟨st.attr, .word⟩ := by
  have hne : w.isEmpty = false := by
    cases w with
    | nil => simp [isIdentText] at hid
    | cons c r => rfl
  simp only [ckText, lexRun_word st.attr w hid, hne, hc]
  simp [noErr, LexItem.isErr]

/-- a word written as is (keyword or identifier) -/
theorem step_word (s : String) (a : Bool) (es : List EndClass) (hid : isIdentText s.toList = true)
    (hes : ∀ e ∈ es, e ∈ [EndClass.closed, .afterLBracket, .afterRBracket, .afterColon, .afterMinus]) :
    Step1 (In a es) (.tok s) (In a [.word]) := by
  intro st hs
  refine ⟨⟨st.attr, .word⟩, ckText_word st _ hid (compat_word_start _ _ hid (hes _ hs.2)), hs.1, by simp⟩

/-- an identifier item -/
theorem step_ident (s : String) (a : Bool) (hid : isIdentText s.toList = true) :
    Step1 (In a [.closed]) (.ident s) (In a [.word]) := by
  intro st hs
  obtain ⟨a0, e0⟩ := st
  obtain ⟨ha, he⟩ := hs
  simp only [List.mem_cons, List.mem_nil_iff, or_false] at ha he
  subst ha he
  refine ⟨⟨a0, .word⟩, ?_, rfl, by simp⟩
  simp [ckItem, hid, compat_closed]

theorem isDigit_mem (c : Char) (h : c.isDigit = true) : c ∈ ['0', '1', '2', '3', '4', '5', '6', '7', '8', '9'] := by
  have hc := Char.ofNat_toNat c
  have hm : c.toNat ∈ [48, 49, 50, 51, 52, 53, 54, 55, 56, 57] := by
    simp only [Char.isDigit, Bool.and_eq_true, decide_eq_true_eq, ge_iff_le, UInt32.le_iff_toNat_le] at h
    simp only [List.mem_cons, List.mem_nil_iff, or_false]
    have h1 := h.1
    have h2 := h.2
    have : c.val.toNat = c.toNat := rfl
    simp at h1 h2
    omega
  have : c ∈ [48, 49, 50, 51, 52, 53, 54, 55, 56, 57].map Char.ofNat := List.mem_map.mpr ⟨c.toNat, hm, hc⟩
  simpa using this

theorem digit_arms : ∀ c ∈ ['0', '1', '2', '3', '4', '5', '6', '7', '8', '9'],
    simpleTok c = none ∧ (c == '[') = false ∧ (c == ']') = false ∧ (c == ':') = false ∧ (c == '-') = false ∧
    (c == '"') = false ∧ (c == '/') = false ∧ (c == '\\') = false ∧ c.isAlpha = false ∧ (c == '>') = false := by decide

theorem lexNext_digit (a : Bool) (c : Char) (cs : List Char) (h : c.isDigit = true) : lexNext a c cs = lexInteger a c cs := by
  obtain ⟨h0, h1, h2, h3, h4, h5, h6, h7, h8, _⟩ := digit_arms c (isDigit_mem c h)
  unfold lexNext
  simp [h0, h1, h2, h3, h4, h5, h6, h7, h8, h]

/-- `[0-9][A-Za-z0-9_]*` -/
def isIntText (cs : List Char) : Bool :=
  match cs with
  | [] => false
  | c :: r => c.isDigit && r.all isWordChar

theorem lexRun_int (a : Bool) (w : List Char) (h : isIntText w = true) : lexRun a w = ⟨[.tok (.intLit w)], a, .word⟩ := by
  cases w with
  | nil => simp [isIntText] at h
  | cons c cs =>
    simp only [isIntText, Bool.and_eq_true] at h
    rw [lexRun_cons, lexNext_digit a c cs h.1]
    simp [lexInteger, takeWhile_all _ _ h.2, dropWhile_all _ _ h.2, StepRes.items, StepRes.endClass]

/-- an integer literal written as is, after a separator, a self-delimiting token or a minus sign -/
theorem step_int (s : String) (a : Bool) (es : List EndClass) (hid : isIntText s.toList = true)
    (hes : ∀ e ∈ es, e ∈ [EndClass.closed, .afterMinus]) : Step1 (In a es) (.tok s) (In a [.word]) := by
  intro st hs
  refine ⟨⟨st.attr, .word⟩, ?_, hs.1, by simp⟩
  cases hw : s.toList with
  | nil => rw [hw] at hid; simp [isIntText] at hid
  | cons c r =>
    rw [hw] at hid
    have hc : compat st.last (c :: r) = true := by
      simp only [isIntText, Bool.and_eq_true] at hid
      obtain ⟨_, _, _, _, _, _, _, _, _, h9⟩ := digit_arms c (isDigit_mem c hid.1)
      have := hes _ hs.2
      simp only [List.mem_cons, List.mem_nil_iff, or_false] at this
      rcases this with e | e <;> rw [e] <;> simp [compat, bne, h9]
    simp only [ckItem, ckText, hw, lexRun_int st.attr _ hid, hc]
    simp [noErr, LexItem.isErr]

/-- the printer's escaping of a string argument, on characters -/
def escL (x : List Char) : List Char := x.flatMap fun c => if c == '"' || c == '\\' then ['\\', c] else [c]

theorem readString_escL (x rest : List Char) (h : x.all (· != '\n') = true) :
    readString false (escL x ++ '"' :: rest) = (some (escL x), rest) := by
  induction x with
  | nil => simp [escL, readString]
  | cons c x ih =>
    simp only [List.all_cons, Bool.and_eq_true, bne_iff_ne, ne_eq] at h
    have ih := ih (by simpa using h.2)
    have hn : (c == '\n') = false := by simpa using h.1
    simp only [escL, List.flatMap_cons] at ih ⊢
    by_cases hq : (c == '"' || c == '\\') = true
    · simp only [hq, if_true, List.cons_append, List.nil_append]
      rw [readString]
      simp only [show (('\\' : Char) == '\n') = false by decide, Bool.false_eq_true, if_false,
        show (('\\' : Char) == '"') = false by decide, show (('\\' : Char) == '\\') = true by decide]
      rw [readString]
      simp only [hn, Bool.false_eq_true, if_false, if_true]
      rw [ih]
      rfl
    · have hq' : (c == '"' || c == '\\') = false := by simpa using hq
      simp only [hq', Bool.false_eq_true, if_false, List.cons_append, List.nil_append]
      rw [readString]
      simp only [Bool.or_eq_false_iff] at hq'
      simp only [hn, hq'.1, hq'.2, Bool.false_eq_true, if_false]
      rw [ih]
      rfl

theorem lexRun_quoted (a : Bool) (x : List Char) (h : x.all (· != '\n') = true) :
    lexRun a ('"' :: (escL x ++ ['"'])) = ⟨[.tok (.strLit (escL x))], a, .closed⟩ := by
  have e : ∀ cs, lexNext a '"' cs = lexString a cs := by
    intro cs
    unfold lexNext
    simp only [show simpleTok '"' = none by decide]
    simp
  rw [lexRun_cons, e]
  simp only [lexString, readString_escL x [] h]
  simp [StepRes.items, StepRes.endClass]

theorem not_contains_all (s : List Char) (c : Char) (h : s.contains c = false) : s.all (· != c) = true := by
  induction s with
  | nil => rfl
  | cons d r ih =>
    simp only [List.contains_cons, Bool.or_eq_false_iff] at h
    simp only [List.all_cons, Bool.and_eq_true]
    have hcd : ¬ c = d := by simpa using h.1
    exact ⟨by simpa [bne] using (fun e : d = c => hcd e.symm), ih h.2⟩

theorem quoted_toList (x : String) : ("\"" ++ escapeStrLit x ++ "\"").toList = '"' :: (escL x.toList ++ ['"']) := by
  have e : ("\"" : String).toList = ['"'] := by decide
  simp only [String.toList_append, e, escapeStrLit, String.toList_ofList, escL]
  rfl

/-- a quoted string argument -/
theorem step_quoted (x : String) (a : Bool) (es : List EndClass) (h : x.toList.contains '\n' = false)
    (hes : ∀ e ∈ es, e ∈ [EndClass.closed, .word]) :
    Step1 (In a es) (.tok ("\"" ++ escapeStrLit x ++ "\"")) (In a [.closed]) := by
  intro st hs
  refine ⟨⟨st.attr, .closed⟩, ?_, hs.1, by simp⟩
  have hc : compat st.last ('"' :: (escL x.toList ++ ['"'])) = true := by
    have := hes _ hs.2
    simp only [List.mem_cons, List.mem_nil_iff, or_false] at this
    rcases this with e | e <;> rw [e] <;> simp [compat] <;> decide
  simp only [ckItem, ckText, quoted_toList, lexRun_quoted st.attr _ (not_contains_all _ _ h), hc]
  simp [noErr, LexItem.isErr]

theorem noErr_of_isNameItem (items : List LexItem) (h : items.all isNameItem = true) : noErr items = true := by
  rw [List.all_eq_true] at h
  unfold noErr
  rw [List.all_eq_true]
  intro i hi
  have := h i hi
  cases i with
  | tok t => rfl
  | err e => simp [isNameItem] at this

/-- a name or directive written as is -/
theorem step_name (s : String) (a : Bool) (es : List EndClass) (h : nameTextOk a s.toList = true)
    (hes : ∀ e ∈ es, e ∈ [EndClass.closed, .afterLBracket]) : Step1 (In a es) (.tok s) (In a [.word]) := by
  intro st hs
  simp only [nameTextOk, Bool.and_eq_true, Bool.not_eq_true', beq_iff_eq] at h
  obtain ⟨⟨⟨⟨hne, hitems⟩, hlast⟩, hattr⟩, hcomp⟩ := h
  refine ⟨⟨a, .word⟩, ?_, rfl, by simp⟩
  have hc : compat st.last s.toList = true := by
    have := hes _ hs.2
    simp only [List.mem_cons, List.mem_nil_iff, or_false] at this
    rcases this with e | e <;> rw [e]
    · exact compat_closed _
    · exact hcomp
  simp only [ckItem, ckText, hs.1, hne, hc, noErr_of_isNameItem _ hitems, hlast, hattr]
  simp

theorem lexRun_docLine (a : Bool) (s : List Char) (h : s.all (· != '\n') = true) :
    ∃ items, lexRun a ('/' :: '/' :: '/' :: s) = ⟨items, a, .line⟩ ∧ noErr items = true := by
  have e : ∀ cs, lexNext a '/' cs = lexSlash a cs := by
    intro cs
    unfold lexNext
    simp only [show simpleTok '/' = none by decide]
    simp
  rw [lexRun_cons, e]
  simp only [lexSlash, lexLineComment]
  split
  · rw [dropWhile_all _ _ h]
    exact ⟨[], by simp [StepRes.items, StepRes.endClass], rfl⟩
  · rw [dropWhile_all _ _ h, takeWhile_all _ _ h]
    exact ⟨[.tok (.doc (stripCr s))], by simp [StepRes.items, StepRes.endClass], rfl⟩

/-- a doc line -/
theorem step_docLine (s : String) (a : Bool) (h : s.toList.contains '\n' = false) :
    Step1 (In a [.closed]) (.docLine s) (In a [.line]) := by
  intro st hs
  obtain ⟨a0, e0⟩ := st
  obtain ⟨ha, he⟩ := hs
  simp only [List.mem_cons, List.mem_nil_iff, or_false] at ha he
  subst ha he
  refine ⟨⟨a0, .line⟩, ?_, rfl, by simp⟩
  have e : ("///" ++ s).toList = '/' :: '/' :: '/' :: s.toList := by
    have : ("///" : String).toList = ['/', '/', '/'] := by decide
    simp [String.toList_append, this]
  obtain ⟨items, hrun, hno⟩ := lexRun_docLine a0 s.toList (not_contains_all _ _ h)
  simp only [ckItem, ckText, e, hrun, hno, compat_closed]
  simp


/-! ## integer literals as printed -/

theorem natDigits_mem (b fuel n : Nat) (hb : 0 < b) : ∀ c ∈ natDigits b fuel n, ∃ d, d < b ∧ c = digitChar d := by
  induction fuel generalizing n with
  | zero => simp [natDigits]
  | succ fuel ih =>
    intro c hc
    simp only [natDigits] at hc
    split at hc
    · rename_i hlt
      simp only [List.mem_cons, List.mem_nil_iff, or_false] at hc
      exact ⟨n, hlt, hc⟩
    · simp only [List.mem_append, List.mem_cons, List.mem_nil_iff, or_false] at hc
      rcases hc with hc | hc
      · exact ih _ c hc
      · exact ⟨n % b, Nat.mod_lt _ hb, hc⟩

theorem natDigits_ne_nil (b fuel n : Nat) : natDigits b (fuel + 1) n ≠ [] := by
  simp only [natDigits]
  split <;> simp

theorem withUnderscores_mem (l : List Char) : ∀ c ∈ withUnderscores l, c ∈ l ∨ c = '_' := by
  fun_induction withUnderscores l with
  | case1 a b c rest ih =>
    intro x hx
    simp only [List.mem_cons] at hx ⊢
    rcases hx with h | h | h | h | h
    · exact Or.inl (Or.inl h)
    · exact Or.inl (Or.inr (Or.inl h))
    · exact Or.inr h
    · exact Or.inl (Or.inr (Or.inr (Or.inl h)))
    · rcases ih x h with h | h
      · exact Or.inl (Or.inr (Or.inr (Or.inr h)))
      · exact Or.inr h
  | case2 l _ => intro x hx; exact Or.inl hx

theorem withUnderscores_head (l : List Char) : (withUnderscores l).head? = l.head? := by
  fun_induction withUnderscores l with
  | case1 a b c rest ih => rfl
  | case2 l _ => rfl

theorem digitChar_word : ∀ d, d < 16 → isWordChar (digitChar d) = true := by decide
theorem digitChar_digit : ∀ d, d < 10 → (digitChar d).isDigit = true := by decide

theorem isIntText_of (w : List Char) (hne : w ≠ []) (hhead : ∀ c, w.head? = some c → c.isDigit = true)
    (hall : ∀ c ∈ w, isWordChar c = true) : isIntText w = true := by
  cases w with
  | nil => exact absurd rfl hne
  | cons c r =>
    simp only [isIntText, Bool.and_eq_true, List.all_eq_true]
    exact ⟨hhead c rfl, fun x hx => hall x (by simp [hx])⟩

/-- the digits the printer writes for base `b ≤ 16`, with or without underscores -/
theorem digits_props (b mag : Nat) (us : Bool) (hb0 : 0 < b) (hb : b ≤ 16) :
    let ds := if us then withUnderscores (natDigits b 200 mag) else natDigits b 200 mag
    ds ≠ [] ∧ (∀ c ∈ ds, isWordChar c = true) ∧ (b ≤ 10 → ∀ c, ds.head? = some c → c.isDigit = true) := by
  have hne : natDigits b 200 mag ≠ [] := natDigits_ne_nil b 199 mag
  have hw : ∀ c ∈ natDigits b 200 mag, isWordChar c = true := by
    intro c hc
    obtain ⟨d, hd, rfl⟩ := natDigits_mem b 200 mag hb0 c hc
    exact digitChar_word d (by omega)
  have hd : b ≤ 10 → ∀ c, (natDigits b 200 mag).head? = some c → c.isDigit = true := by
    intro hb10 c hc
    have hm : c ∈ natDigits b 200 mag := List.mem_of_head? hc
    obtain ⟨d, hd, rfl⟩ := natDigits_mem b 200 mag hb0 c hm
    exact digitChar_digit d (by omega)
  cases us with
  | false => exact ⟨hne, hw, hd⟩
  | true =>
    simp only [if_true]
    refine ⟨?_, ?_, ?_⟩
    · intro e
      have := withUnderscores_head (natDigits b 200 mag)
      rw [e] at this
      cases hq : natDigits b 200 mag with
      | nil => exact hne hq
      | cons c r => rw [hq] at this; cases this
    · intro c hc
      rcases withUnderscores_mem _ c hc with h | h
      · exact hw c h
      · subst h; decide
    · intro hb10 c hc
      rw [withUnderscores_head] at hc
      exact hd hb10 c hc

theorem magText_int (l : IntLit) (h : intLitOk l = true) : isIntText l.magText.toList = true := by
  simp only [intLitOk, Bool.or_eq_true, beq_iff_eq] at h
  have e0 : ("0x" : String).toList = ['0', 'x'] := by decide
  have e1 : ("0b" : String).toList = ['0', 'b'] := by decide
  have e2 : ("" : String).toList = [] := by decide
  rcases h with (h | h) | h
  · obtain ⟨hne, hw, _⟩ := digits_props 2 l.mag l.underscores (by decide) (by decide)
    simp only [IntLit.magText, h, String.toList_append, String.toList_ofList,
      show ((2 : Nat) == 16) = false by decide, show ((2 : Nat) == 2) = true by decide,
      show ¬ ((2 : Nat) < 2) by decide, Bool.false_eq_true, if_false, if_true, e1]
    refine isIntText_of _ (by simp) (fun c hc => by simp at hc; subst hc; decide) ?_
    intro c hc
    simp only [List.cons_append, List.nil_append, List.mem_cons] at hc
    rcases hc with rfl | rfl | hc
    · decide
    · decide
    · exact hw c hc
  · obtain ⟨hne, hw, hd⟩ := digits_props 10 l.mag l.underscores (by decide) (by decide)
    simp only [IntLit.magText, h, String.toList_append, String.toList_ofList,
      show ((10 : Nat) == 16) = false by decide, show ((10 : Nat) == 2) = false by decide,
      show ¬ ((10 : Nat) < 2) by decide, Bool.false_eq_true, if_false, e2, List.nil_append]
    exact isIntText_of _ hne (hd (by decide)) hw
  · obtain ⟨hne, hw, _⟩ := digits_props 16 l.mag l.underscores (by decide) (by decide)
    simp only [IntLit.magText, h, String.toList_append, String.toList_ofList,
      show ((16 : Nat) == 16) = true by decide,
      show ¬ ((16 : Nat) < 2) by decide, if_false, if_true, e0]
    refine isIntText_of _ (by simp) (fun c hc => by simp at hc; subst hc; decide) ?_
    intro c hc
    simp only [List.cons_append, List.nil_append, List.mem_cons] at hc
    rcases hc with rfl | rfl | hc
    · decide
    · decide
    · exact hw c hc

/-! ## constant spellings -/

theorem tbl_closed : ∀ s ∈ ["(", ")", "{", "}", "<", ">", ",", "=", "?", "->"], ∀ a ∈ [true, false],
    ∀ e ∈ [EndClass.closed, .word], ckText ⟨a, e⟩ s.toList false = some ⟨a, .closed⟩ := by decide

theorem tbl_lbracket : ∀ e ∈ [EndClass.closed], ckText ⟨false, e⟩ "[".toList false = some ⟨true, .afterLBracket⟩ := by decide
theorem tbl_rbracket : ∀ e ∈ [EndClass.closed, .word], ckText ⟨true, e⟩ "]".toList false = some ⟨false, .afterRBracket⟩ := by decide
theorem tbl_dlbracket : ∀ e ∈ [EndClass.closed], ckText ⟨false, e⟩ "[[".toList false = some ⟨true, .closed⟩ := by decide
theorem tbl_drbracket : ∀ e ∈ [EndClass.closed, .word], ckText ⟨true, e⟩ "]]".toList false = some ⟨false, .closed⟩ := by decide
theorem tbl_colon : ∀ e ∈ [EndClass.closed, .word], ckText ⟨false, e⟩ ":".toList false = some ⟨false, .afterColon⟩ := by decide
theorem tbl_minus : ∀ e ∈ [EndClass.closed], ckText ⟨false, e⟩ "-".toList false = some ⟨false, .afterMinus⟩ := by decide

/-- a self-delimiting punctuation token after a word or a self-delimiting token -/
theorem step_punct (s : String) (a : Bool) (hs : s ∈ ["(", ")", "{", "}", "<", ">", ",", "=", "?", "->"]) :
    Step1 (In a [.closed, .word]) (.tok s) (In a [.closed]) :=
  step_const s a a _ _ (tbl_closed s hs a (by cases a <;> simp))

theorem prim_kw_ident (p : Prim) : isIdentText p.kw.toList = true := by cases p <;> decide


/-! ## the printer's item lists -/

theorem Runs.post {P Q Q' : SP} {a : List Item} (h : Runs P a Q) (hq : ∀ st, Q st → Q' st) : Runs P a Q' :=
  h.weaken (fun _ x => x) hq

theorem Runs.pre {P P' Q : SP} {a : List Item} (h : Runs P a Q) (hp : ∀ st, P' st → P st) : Runs P' a Q :=
  h.weaken hp (fun _ x => x)

theorem Runs.ite {P Q : SP} (c : Bool) {a b : List Item} (h1 : Runs P a Q) (h2 : Runs P b Q) :
    Runs P (if c then a else b) Q := by
  cases c
  · exact h2
  · exact h1

/-- after a separator or a self-delimiting token, outside attributes -/
abbrev F : SP := In false [.closed]
/-- after a complete element outside attributes: a word or a self-delimiting token -/
abbrev G : SP := In false [.closed, .word]
/-- at the start of an attribute: after `[` or `[[` -/
abbrev AS : SP := In true [.closed, .afterLBracket]
abbrev AG : SP := In true [.closed, .word]
abbrev AF : SP := In true [.closed]

theorem step_punct' (s : String) (a : Bool) (es : List EndClass)
    (hs : s ∈ ["(", ")", "{", "}", "<", ">", ",", "=", "?", "->"]) (hes : ∀ e ∈ es, e ∈ [EndClass.closed, .word]) :
    Step1 (In a es) (.tok s) (In a [.closed]) :=
  (step_punct s a hs).weaken (In.mono hes) (fun _ h => h)

theorem step_optComma' (a : Bool) (es : List EndClass) (hes : ∀ e ∈ es, e ∈ [EndClass.closed, .word]) :
    Step1 (In a es) .optComma (In a [.closed, .word]) :=
  (step_optComma a).weaken (In.mono hes) (fun _ h => h)

theorem isIdentLike_eq (x : String) : isIdentLike x = isIdentText x.toList := by
  unfold isIdentLike isIdentText
  cases x.toList <;> rfl

/-- one attribute argument: a bare identifier or a quoted string -/
theorem step_arg (x : String) (hx : x.toList.contains '\n' = false) :
    Step1 AF (if isIdentLike x && !(keywords.contains x) then Item.tok x else Item.tok ("\"" ++ escapeStrLit x ++ "\"")) AG := by
  split
  · rename_i hc
    simp only [Bool.and_eq_true] at hc
    exact (step_word x true [.closed] (by rw [← isIdentLike_eq]; exact hc.1) (by decide)).weaken (fun _ h => h)
      (In.mono (by decide))
  · exact (step_quoted x true [.closed] hx (by decide)).weaken (fun _ h => h) (In.mono (by decide))

theorem attrOk_args (a : Attr) (h : attrOk a = true) : ∀ x ∈ a.args, x.toList.contains '\n' = false := by
  simp only [attrOk, Bool.and_eq_true, List.all_eq_true, Bool.not_eq_true'] at h
  exact h.2

theorem attrOk_dir (a : Attr) (h : attrOk a = true) : nameTextOk true a.directive.toList = true := by
  simp only [attrOk, Bool.and_eq_true] at h
  exact h.1

theorem runs_attr (path : String) (a : Attr) (h : attrOk a = true) : Runs AS (attrItems path a) AG := by
  unfold attrItems
  have h1 : Runs AS [.op path, .tok a.directive] (In true [.word]) :=
    Runs.cons (step_op _ _) (Runs.cons (step_name _ true _ (attrOk_dir a h) (by decide)) (Runs.nil _))
  have h3 : Runs AG [.cl path] AG := Runs.cons (step_cl _ _) (Runs.nil _)
  refine Runs.append (Runs.append h1 ?_) h3
  refine Runs.ite _ ((Runs.nil _).post (In.mono (by decide))) ?_
  have g1 : Runs (In true [.word]) [.glue, .tok "("] AF :=
    Runs.cons (step_glue _) (Runs.cons (step_punct' "(" true _ (by decide) (by decide)) (Runs.nil _))
  have g3 : Runs AG [.glue, .tok ")"] AG :=
    Runs.cons (step_glue _) (Runs.cons (step_punct' ")" true _ (by decide) (by decide))
      ((Runs.nil _).post (In.mono (by decide))))
  refine Runs.append (Runs.append g1 ?_) g3
  refine Runs.flatMap_zipIdx a.args _ AF AG (In.mono (by decide)) ?_ ?_
  · intro x hx
    exact Runs.cons (step_glue _) (Runs.cons (step_arg x (attrOk_args a h x hx)) (Runs.nil _))
  · intro x hx i hi
    have hi0 : (i == 0) = false := by cases i with | zero => omega | succ n => rfl
    simp only [hi0, Bool.false_eq_true, if_false]
    exact Runs.cons (step_glue _) (Runs.cons (step_punct' "," true _ (by decide) (by decide))
      (Runs.cons (step_sp _ _) (Runs.cons (step_arg x (attrOk_args a h x hx)) (Runs.nil _))))

theorem step_sepAfter (sep : Item) (hsep : sep = .sp ∨ ∃ n, sep = .nl n) (a : Bool) (es : List EndClass) :
    Step1 (In a es) sep (In a [.closed]) := by
  rcases hsep with rfl | ⟨n, rfl⟩
  · exact step_sp a es
  · exact step_nl a es n

theorem runs_localAttrsWith (sfx path : String) (as : List Attr) (sep : Item) (h : as.all attrOk = true)
    (hsep : sep = .sp ∨ ∃ n, sep = .nl n) : Runs F (localAttrsWith sfx path as sep) F := by
  unfold localAttrsWith
  refine Runs.flatMap _ _ F ?_
  intro p hp
  obtain ⟨a, i⟩ := p
  have ha : attrOk a = true := by
    rw [List.all_eq_true] at h
    exact h a (List.fst_mem_of_mem_zipIdx hp)
  show Runs F ([.tok "[", .glue] ++ attrItems (path ++ sfx ++ toString i) a ++ [.glue, .tok "]", sep]) F
  refine Runs.append (Runs.append ?_ (runs_attr _ a ha)) ?_
  · exact Runs.cons (step_const "[" false true _ _ tbl_lbracket) (Runs.cons (step_glue _) ((Runs.nil _).post (In.mono (by decide))))
  · exact Runs.cons (step_glue _) (Runs.cons (step_const "]" true false _ _ tbl_rbracket)
      (Runs.cons (step_sepAfter sep hsep _ _) (Runs.nil _)))

theorem runs_localAttrs (path : String) (as : List Attr) (sep : Item) (h : as.all attrOk = true)
    (hsep : sep = .sp ∨ ∃ n, sep = .nl n) : Runs F (localAttrs path as sep) F :=
  runs_localAttrsWith ".a" path as sep h hsep

theorem runs_kw (s : String) (hid : isIdentText s.toList = true) (r : List Item) (Q : SP) (h : Runs (In false [.word]) r Q) :
    Runs F (.tok s :: r) Q :=
  Runs.cons (step_word s false [.closed] hid (by decide)) h

/-- `<` type `>` etc.: the opening of a generic type -/
theorem runs_generic_open (kw : String) (hid : isIdentText kw.toList = true) :
    Runs F [.tok kw, .glue, .tok "<", .glue] F :=
  runs_kw kw hid _ _ (Runs.cons (step_glue _) (Runs.cons (step_punct' "<" false _ (by decide) (by decide))
    (Runs.cons (step_glue _) (Runs.nil _))))

theorem runs_close_chevron : Runs G [.glue, .tok ">"] G :=
  Runs.cons (step_glue _) (Runs.cons (step_punct' ">" false _ (by decide) (by decide)) ((Runs.nil _).post (In.mono (by decide))))

theorem runs_comma_sp : Runs G [.glue, .tok ",", .sp] F :=
  Runs.cons (step_glue _) (Runs.cons (step_punct' "," false _ (by decide) (by decide)) (Runs.cons (step_sp _ _) (Runs.nil _)))

mutual
theorem runs_ty : ∀ (path : String) (t : TyExpr), tyOk t = true → Runs F (tyItems path t) G
  | path, .prim p, _ => by
    simp only [tyItems]
    exact runs_kw _ (prim_kw_ident p) _ _ ((Runs.nil _).post (In.mono (by decide)))
  | path, .named id, h => by
    simp only [tyItems]
    simp only [tyOk] at h
    exact Runs.cons (step_name _ false _ h (by decide)) ((Runs.nil _).post (In.mono (by decide)))
  | path, .seq e, h => by
    simp only [tyItems]
    simp only [tyOk] at h
    exact Runs.append (Runs.append (runs_generic_open "Sequence" (by decide)) (runs_tref _ e h)) runs_close_chevron
  | path, .dict k v, h => by
    simp only [tyItems]
    simp only [tyOk, Bool.and_eq_true] at h
    exact Runs.append (Runs.append (Runs.append (Runs.append (runs_generic_open "Dictionary" (by decide))
      (runs_tref _ k h.1)) runs_comma_sp) (runs_tref _ v h.2)) runs_close_chevron
  | path, .result s f, h => by
    simp only [tyItems]
    simp only [tyOk, Bool.and_eq_true] at h
    exact Runs.append (Runs.append (Runs.append (Runs.append (runs_generic_open "Result" (by decide))
      (runs_tref _ s h.1)) runs_comma_sp) (runs_tref _ f h.2)) runs_close_chevron
theorem runs_tref : ∀ (path : String) (t : TRef), trefOk t = true → Runs F (trefItems path t) G
  | path, .mk attrs ty opt, h => by
    simp only [trefItems]
    simp only [trefOk, Bool.and_eq_true] at h
    have t1 : Runs F [.op path] F := Runs.cons (step_op _ _) (Runs.nil _)
    have t4 : Runs G (if opt then [.glue, .tok "?"] else []) G :=
      Runs.ite opt (Runs.cons (step_glue _) (Runs.cons (step_punct' "?" false _ (by decide) (by decide))
        ((Runs.nil _).post (In.mono (by decide))))) (Runs.nil _)
    have t5 : Runs G [.cl path] G := Runs.cons (step_cl _ _) (Runs.nil _)
    exact Runs.append (Runs.append (Runs.append (Runs.append t1 (runs_localAttrsWith _ _ _ _ h.1 (Or.inl rfl)))
      (runs_ty path ty h.2)) t4) t5
end


theorem runs_minus_int (neg : Bool) (l : IntLit) (hl : intLitOk l = true) (r : List Item) (Q : SP)
    (h : Runs (In false [.word]) r Q) :
    Runs F ((if neg then [Item.tok "-", .glue] else []) ++ (.tok l.magText :: r)) Q := by
  have m1 : Runs F (if neg then [Item.tok "-", .glue] else []) (In false [.closed, .afterMinus]) :=
    Runs.ite neg (Runs.cons (step_const "-" false false _ _ tbl_minus) (Runs.cons (step_glue _)
      ((Runs.nil _).post (In.mono (by decide))))) ((Runs.nil _).post (In.mono (by decide)))
  exact Runs.append m1 (Runs.cons (step_int _ false _ (magText_int l hl) (by decide)) h)

theorem runs_tag (path : String) (t : Option IntLit) (h : tagOk t = true) : Runs F (tagItems path t) F := by
  cases t with
  | none => exact Runs.nil _
  | some l =>
    simp only [tagItems]
    have t1 : Runs F [.tok "tag", .glue, .tok "(", .glue, .op (path ++ ".tag")] F :=
      runs_kw "tag" (by decide) _ _ (Runs.cons (step_glue _) (Runs.cons (step_punct' "(" false _ (by decide) (by decide))
        (Runs.cons (step_glue _) (Runs.cons (step_op _ _) (Runs.nil _)))))
    have t3 : Runs (In false [.word]) [.cl (path ++ ".tag"), .glue, .tok ")", .sp] F :=
      Runs.cons (step_cl _ _) (Runs.cons (step_glue _) (Runs.cons (step_punct' ")" false _ (by decide) (by decide))
        (Runs.cons (step_sp _ _) (Runs.nil _))))
    have := Runs.append t1 (runs_minus_int l.neg l h _ _ t3)
    simpa [List.append_assoc] using this

theorem runs_doc (doc : List String) (indent : Nat) (h : docOk doc = true) : Runs F (docItems doc indent) F := by
  unfold docItems
  refine Runs.flatMap _ _ F ?_
  intro l hl
  have hl' : l.toList.contains '\n' = false := by
    simp only [docOk, List.all_eq_true, Bool.not_eq_true'] at h
    exact h l hl
  exact Runs.cons (step_docLine l false hl') (Runs.cons (step_nl _ _ _) (Runs.nil _))

theorem runs_ident (path name : String) (h : identOk name = true) : Runs F (identItems path name) (In false [.word]) :=
  Runs.cons (step_op _ _) (Runs.cons (step_ident name false h) (Runs.cons (step_cl _ _) (Runs.nil _)))

theorem runs_colon_sp : Runs (In false [.word]) [.glue, .tok ":", .sp] F :=
  Runs.cons (step_glue _) (Runs.cons (step_const ":" false false _ _ tbl_colon |>.weaken (In.mono (by decide)) (fun _ h => h))
    (Runs.cons (step_sp _ _) (Runs.nil _)))

theorem sep_inl (inl : Bool) (indent : Nat) : (if inl then Item.sp else Item.nl indent) = .sp ∨ ∃ n, (if inl then Item.sp else Item.nl indent) = .nl n := by
  cases inl
  · exact Or.inr ⟨indent, rfl⟩
  · exact Or.inl rfl

theorem runs_field (path : String) (indent : Nat) (inl : Bool) (f : Field) (h : fieldOk f = true) :
    Runs F (fieldItems path indent inl f) G := by
  simp only [fieldOk, Bool.and_eq_true] at h
  obtain ⟨⟨⟨⟨hdoc, hattrs⟩, htag⟩, hname⟩, hty⟩ := h
  unfold fieldItems
  have t3 : Runs F [.op path] F := Runs.cons (step_op _ _) (Runs.nil _)
  have t8 : Runs G [.cl path] G := Runs.cons (step_cl _ _) (Runs.nil _)
  exact Runs.append (Runs.append (Runs.append (Runs.append (Runs.append (Runs.append (Runs.append
    (runs_doc _ _ hdoc) (runs_localAttrs _ _ _ hattrs (sep_inl inl indent))) t3) (runs_tag _ _ htag))
    (runs_ident _ _ hname)) runs_colon_sp) (runs_tref _ _ hty)) t8

theorem runs_stream (b : Bool) : Runs F (if b then [Item.tok "stream", .sp] else []) F :=
  Runs.ite b (runs_kw "stream" (by decide) _ _ (Runs.cons (step_sp _ _) (Runs.nil _))) (Runs.nil _)

theorem runs_param (path : String) (p : Param) (h : paramOk p = true) : Runs F (paramItems path p) G := by
  simp only [paramOk, Bool.and_eq_true] at h
  obtain ⟨⟨⟨hattrs, htag⟩, hname⟩, hty⟩ := h
  unfold paramItems
  have t3 : Runs F [.op path] F := Runs.cons (step_op _ _) (Runs.nil _)
  have t8 : Runs G [.cl path] G := Runs.cons (step_cl _ _) (Runs.nil _)
  exact Runs.append (Runs.append (Runs.append (Runs.append (Runs.append (Runs.append (Runs.append
    (runs_localAttrs _ _ _ hattrs (Or.inl rfl)) t3) (runs_tag _ _ htag))
    (runs_ident _ _ hname)) runs_colon_sp) (runs_stream _)) (runs_tref _ _ hty)) t8

theorem runs_commaSep (xs : List (List Item)) (h : ∀ x ∈ xs, Runs F x G) : Runs F (commaSep xs) G := by
  unfold commaSep
  refine Runs.flatMap_zipIdx xs _ F G (In.mono (by decide)) ?_ ?_
  · intro x hx
    simpa using h x hx
  · intro x hx i hi
    have hi0 : (i == 0) = false := by cases i with | zero => omega | succ n => rfl
    simp only [hi0, Bool.false_eq_true, if_false]
    have c1 : Runs G [.glue, .optComma, .sp] F :=
      Runs.cons (step_glue _) (Runs.cons (step_optComma' false _ (by decide)) (Runs.cons (step_sp _ _) (Runs.nil _)))
    exact Runs.append c1 (h x hx)

theorem mem_zipIdx_map {α : Type} (xs : List α) (g : α × Nat → List Item) (P : α → Prop) (Q : List Item → Prop)
    (hP : ∀ x ∈ xs, P x) (h : ∀ x i, P x → Q (g (x, i))) : ∀ m ∈ xs.zipIdx.map g, Q m := by
  intro m hm
  obtain ⟨p, hp, rfl⟩ := List.mem_map.mp hm
  obtain ⟨x, i⟩ := p
  exact h x i (hP x (List.fst_mem_of_mem_zipIdx hp))

theorem all_mem {α : Type} (xs : List α) (p : α → Bool) (h : xs.all p = true) : ∀ x ∈ xs, p x = true := by
  rw [List.all_eq_true] at h; exact h

theorem runs_ret (path : String) (r : Ret) (h : retOk r = true) : Runs F (retItems path r) G := by
  cases r with
  | none => exact (Runs.nil _).post (In.mono (by decide))
  | single tag stream ty =>
    simp only [retOk, Bool.and_eq_true] at h
    simp only [retItems]
    have r1 : Runs F [.sp, .tok "->", .sp, .op (path ++ ".r0")] F :=
      Runs.cons (step_sp _ _) (Runs.cons (step_punct' "->" false _ (by decide) (by decide))
        (Runs.cons (step_sp _ _) (Runs.cons (step_op _ _) (Runs.nil _))))
    have r5 : Runs G [.cl (path ++ ".r0")] G := Runs.cons (step_cl _ _) (Runs.nil _)
    exact Runs.append (Runs.append (Runs.append (Runs.append r1 (runs_tag _ _ h.1)) (runs_stream _)) (runs_tref _ _ h.2)) r5
  | tuple ps =>
    simp only [retOk] at h
    simp only [retItems]
    have r1 : Runs F [.sp, .tok "->", .sp, .tok "(", .glue] F :=
      Runs.cons (step_sp _ _) (Runs.cons (step_punct' "->" false _ (by decide) (by decide))
        (Runs.cons (step_sp _ _) (Runs.cons (step_punct' "(" false _ (by decide) (by decide))
          (Runs.cons (step_glue _) (Runs.nil _)))))
    have r3 : Runs G [.glue, .tok ")"] G :=
      Runs.cons (step_glue _) (Runs.cons (step_punct' ")" false _ (by decide) (by decide))
        ((Runs.nil _).post (In.mono (by decide))))
    refine Runs.append (Runs.append r1 (runs_commaSep _ ?_)) r3
    exact mem_zipIdx_map ps _ (fun p => paramOk p = true) (fun m => Runs F m G) (all_mem _ _ h)
      (fun p i hp => runs_param _ p hp)

theorem runs_op (path : String) (o : Op) (h : opOk o = true) : Runs F (opItems path o) G := by
  simp only [opOk, Bool.and_eq_true] at h
  obtain ⟨⟨⟨⟨hdoc, hattrs⟩, hname⟩, hparams⟩, hret⟩ := h
  unfold opItems
  have t3 : Runs F [.op path] F := Runs.cons (step_op _ _) (Runs.nil _)
  have t4 : Runs F (if o.idempotent then [Item.tok "idempotent", .sp] else []) F :=
    Runs.ite _ (runs_kw "idempotent" (by decide) _ _ (Runs.cons (step_sp _ _) (Runs.nil _))) (Runs.nil _)
  have t6 : Runs (In false [.word]) [.glue, .tok "(", .glue] F :=
    Runs.cons (step_glue _) (Runs.cons (step_punct' "(" false _ (by decide) (by decide)) (Runs.cons (step_glue _) (Runs.nil _)))
  have t8 : Runs G [.glue, .tok ")"] F :=
    Runs.cons (step_glue _) (Runs.cons (step_punct' ")" false _ (by decide) (by decide)) (Runs.nil _))
  have t10 : Runs G [.cl path] G := Runs.cons (step_cl _ _) (Runs.nil _)
  have t7 : Runs F (commaSep (o.params.zipIdx.map fun (p, i) => paramItems (path ++ ".p" ++ toString i) p)) G :=
    runs_commaSep _ (mem_zipIdx_map o.params _ (fun p => paramOk p = true) (fun m => Runs F m G) (all_mem _ _ hparams)
      (fun p i hp => runs_param _ p hp))
  exact Runs.append (Runs.append (Runs.append (Runs.append (Runs.append (Runs.append (Runs.append (Runs.append (Runs.append
    (runs_doc _ _ hdoc) (runs_localAttrs _ _ _ hattrs (Or.inr ⟨1, rfl⟩))) t3) t4) (runs_ident _ _ hname)) t6) t7) t8)
    (runs_ret _ _ hret)) t10


theorem runs_enumerator (path : String) (e : Enumerator) (h : enumeratorOk e = true) : Runs F (enumeratorItems path e) G := by
  simp only [enumeratorOk, Bool.and_eq_true] at h
  obtain ⟨⟨⟨⟨hdoc, hattrs⟩, hname⟩, hfields⟩, hval⟩ := h
  unfold enumeratorItems
  have t3 : Runs F [.op path] F := Runs.cons (step_op _ _) (Runs.nil _)
  have t7 : Runs G [.cl path] G := Runs.cons (step_cl _ _) (Runs.nil _)
  have t5 : Runs (In false [.word])
      (match e.fields with
       | none => []
       | some fs => [.glue, .tok "(", .glue] ++
          commaSep (fs.zipIdx.map fun (f, i) => fieldItems (path ++ ".f" ++ toString i) 1 true f) ++ [.glue, .tok ")"]) G := by
    cases hf : e.fields with
    | none => exact (Runs.nil _).post (In.mono (by decide))
    | some fs =>
      rw [hf] at hfields
      simp only [] at hfields ⊢
      have f1 : Runs (In false [.word]) [.glue, .tok "(", .glue] F :=
        Runs.cons (step_glue _) (Runs.cons (step_punct' "(" false _ (by decide) (by decide)) (Runs.cons (step_glue _) (Runs.nil _)))
      have f3 : Runs G [.glue, .tok ")"] G :=
        Runs.cons (step_glue _) (Runs.cons (step_punct' ")" false _ (by decide) (by decide))
          ((Runs.nil _).post (In.mono (by decide))))
      refine Runs.append (Runs.append f1 (runs_commaSep _ ?_)) f3
      exact mem_zipIdx_map fs _ (fun f => fieldOk f = true) (fun m => Runs F m G) (all_mem _ _ hfields)
        (fun f i hf => runs_field _ 1 true f hf)
  have t6 : Runs G
      (match e.value with
       | none => []
       | some l => [.sp, .tok "=", .sp, .op (path ++ ".val")] ++ (if l.neg then [.tok "-", .glue] else []) ++
          [.tok l.magText, .cl (path ++ ".val")]) G := by
    cases hv : e.value with
    | none => exact Runs.nil _
    | some l =>
      rw [hv] at hval
      simp only [] at hval ⊢
      have v1 : Runs G [.sp, .tok "=", .sp, .op (path ++ ".val")] F :=
        Runs.cons (step_sp _ _) (Runs.cons (step_punct' "=" false _ (by decide) (by decide))
          (Runs.cons (step_sp _ _) (Runs.cons (step_op _ _) (Runs.nil _))))
      have v3 : Runs (In false [.word]) [.cl (path ++ ".val")] G :=
        Runs.cons (step_cl _ _) ((Runs.nil _).post (In.mono (by decide)))
      have := Runs.append v1 (runs_minus_int l.neg l hval _ _ v3)
      simpa [List.append_assoc] using this
  exact Runs.append (Runs.append (Runs.append (Runs.append (Runs.append (Runs.append
    (runs_doc _ _ hdoc) (runs_localAttrs _ _ _ hattrs (Or.inr ⟨1, rfl⟩))) t3) (runs_ident _ _ hname)) t5) t6) t7

theorem runs_membersBlock (ms : List (List Item)) (h : ∀ m ∈ ms, Runs F m G) : Runs G (membersBlock ms) G := by
  unfold membersBlock
  have b1 : Runs G [.sp, .tok "{"] G :=
    Runs.cons (step_sp _ _) (Runs.cons (step_punct' "{" false _ (by decide) (by decide)) ((Runs.nil _).post (In.mono (by decide))))
  have b3 : Runs G [.nl 0, .tok "}"] G :=
    Runs.cons (step_nl _ _ _) (Runs.cons (step_punct' "}" false _ (by decide) (by decide)) ((Runs.nil _).post (In.mono (by decide))))
  refine Runs.append (Runs.append b1 (Runs.flatMap _ _ G ?_)) b3
  intro m hm
  have m1 : Runs G [.nl 1] F := Runs.cons (step_nl _ _ _) (Runs.nil _)
  have m3 : Runs G [.glue, .optComma] G := Runs.cons (step_glue _) (Runs.cons (step_optComma' false _ (by decide)) (Runs.nil _))
  exact Runs.append (Runs.append m1 (h m hm)) m3

theorem runs_def_head (path : String) (doc : List String) (attrs : List Attr) (hdoc : docOk doc = true)
    (hattrs : attrs.all attrOk = true) : Runs F (docItems doc 0 ++ localAttrs path attrs (.nl 0)) F :=
  Runs.append (runs_doc _ _ hdoc) (runs_localAttrs _ _ _ hattrs (Or.inr ⟨0, rfl⟩))

theorem runs_flag (b : Bool) (kw : String) (hid : isIdentText kw.toList = true) :
    Runs F (if b then [Item.tok kw, .sp] else []) F :=
  Runs.ite b (runs_kw kw hid _ _ (Runs.cons (step_sp _ _) (Runs.nil _))) (Runs.nil _)

theorem runs_kw_sp (kw : String) (hid : isIdentText kw.toList = true) : Runs F [.tok kw, .sp] F :=
  runs_kw kw hid _ _ (Runs.cons (step_sp _ _) (Runs.nil _))

theorem runs_def (path : String) (d : Def) (h : defOk d = true) : Runs F (defItems path d) G := by
  cases d with
  | struct doc attrs compact name fields =>
    simp only [defOk, Bool.and_eq_true] at h
    obtain ⟨⟨⟨hdoc, hattrs⟩, hname⟩, hfields⟩ := h
    simp only [defItems]
    have t3 : Runs F [.op path] F := Runs.cons (step_op _ _) (Runs.nil _)
    have t7 : Runs (In false [.word]) [.cl path] G := Runs.cons (step_cl _ _) ((Runs.nil _).post (In.mono (by decide)))
    have t8 := runs_membersBlock (fields.zipIdx.map fun (f, i) => fieldItems (path ++ ".f" ++ toString i) 1 false f)
      (mem_zipIdx_map fields _ (fun f => fieldOk f = true) (fun m => Runs F m G) (all_mem _ _ hfields)
        (fun f i hf => runs_field _ 1 false f hf))
    exact Runs.append (Runs.append (Runs.append (Runs.append (Runs.append (Runs.append
      (runs_def_head path doc attrs hdoc hattrs) t3) (runs_flag compact "compact" (by decide)))
      (runs_kw_sp "struct" (by decide))) (runs_ident _ _ hname)) t7) t8
  | iface doc attrs name bases ops =>
    simp only [defOk, Bool.and_eq_true] at h
    obtain ⟨⟨⟨⟨hdoc, hattrs⟩, hname⟩, hbases⟩, hops⟩ := h
    simp only [defItems]
    have t3 : Runs F [.op path, .tok "interface", .sp] F :=
      Runs.cons (step_op _ _) (runs_kw_sp "interface" (by decide))
    have t5 : Runs (In false [.word]) [.cl path] G := Runs.cons (step_cl _ _) ((Runs.nil _).post (In.mono (by decide)))
    have t6 : Runs G (if bases.isEmpty then [] else [.sp, .tok ":", .sp] ++
        (bases.zipIdx.flatMap fun (b, i) => (if i == 0 then [] else [.glue, .tok ",", .sp]) ++ trefItems (path ++ ".b" ++ toString i) b)) G := by
      refine Runs.ite _ (Runs.nil _) ?_
      have c1 : Runs G [.sp, .tok ":", .sp] F :=
        Runs.cons (step_sp _ _) (Runs.cons (step_const ":" false false _ _ tbl_colon |>.weaken (In.mono (by decide)) (fun _ h => h))
          (Runs.cons (step_sp _ _) (Runs.nil _)))
      refine Runs.append c1 (Runs.flatMap_zipIdx bases _ F G (In.mono (by decide)) ?_ ?_)
      · intro b hb
        simpa using runs_tref _ b (all_mem _ _ hbases b hb)
      · intro b hb i hi
        have hi0 : (i == 0) = false := by cases i with | zero => omega | succ n => rfl
        simp only [hi0, Bool.false_eq_true, if_false]
        exact Runs.append runs_comma_sp (runs_tref _ b (all_mem _ _ hbases b hb))
    have t7 : Runs G [.sp, .tok "{"] G :=
      Runs.cons (step_sp _ _) (Runs.cons (step_punct' "{" false _ (by decide) (by decide)) ((Runs.nil _).post (In.mono (by decide))))
    have t8 : Runs G (ops.zipIdx.flatMap fun (o, i) => [.nl 1] ++ opItems (path ++ ".o" ++ toString i) o) G := by
      refine Runs.flatMap _ _ G ?_
      intro p hp
      obtain ⟨o, i⟩ := p
      have ho := all_mem _ _ hops o (List.fst_mem_of_mem_zipIdx hp)
      have m1 : Runs G [.nl 1] F := Runs.cons (step_nl _ _ _) (Runs.nil _)
      exact Runs.append m1 (runs_op _ o ho)
    have t9 : Runs G [.nl 0, .tok "}"] G :=
      Runs.cons (step_nl _ _ _) (Runs.cons (step_punct' "}" false _ (by decide) (by decide)) ((Runs.nil _).post (In.mono (by decide))))
    exact Runs.append (Runs.append (Runs.append (Runs.append (Runs.append (Runs.append (Runs.append
      (runs_def_head path doc attrs hdoc hattrs) t3) (runs_ident _ _ hname)) t5) t6) t7) t8) t9
  | enum doc attrs compact unchecked name underlying es =>
    simp only [defOk, Bool.and_eq_true] at h
    obtain ⟨⟨⟨⟨hdoc, hattrs⟩, hname⟩, hund⟩, hes⟩ := h
    simp only [defItems]
    have t3 : Runs F [.op path] F := Runs.cons (step_op _ _) (Runs.nil _)
    have t8 : Runs (In false [.word]) [.cl path] G := Runs.cons (step_cl _ _) ((Runs.nil _).post (In.mono (by decide)))
    have t9 : Runs G (match (generalizing := false) underlying with | none => [] | some u => [.sp, .tok ":", .sp] ++ trefItems (path ++ ".u") u) G := by
      cases underlying with
      | none => exact Runs.nil _
      | some u =>
        simp only [] at hund ⊢
        have c1 : Runs G [.sp, .tok ":", .sp] F :=
          Runs.cons (step_sp _ _) (Runs.cons (step_const ":" false false _ _ tbl_colon |>.weaken (In.mono (by decide)) (fun _ h => h))
            (Runs.cons (step_sp _ _) (Runs.nil _)))
        exact Runs.append c1 (runs_tref _ u hund)
    have t10 := runs_membersBlock (es.zipIdx.map fun (e, i) => enumeratorItems (path ++ ".e" ++ toString i) e)
      (mem_zipIdx_map es _ (fun e => enumeratorOk e = true) (fun m => Runs F m G) (all_mem _ _ hes)
        (fun e i he => runs_enumerator _ e he))
    exact Runs.append (Runs.append (Runs.append (Runs.append (Runs.append (Runs.append (Runs.append (Runs.append
      (runs_def_head path doc attrs hdoc hattrs) t3) (runs_flag compact "compact" (by decide)))
      (runs_flag unchecked "unchecked" (by decide))) (runs_kw_sp "enum" (by decide))) (runs_ident _ _ hname)) t8) t9) t10
  | custom doc attrs name =>
    simp only [defOk, Bool.and_eq_true] at h
    obtain ⟨⟨hdoc, hattrs⟩, hname⟩ := h
    simp only [defItems]
    have t3 : Runs F [.op path, .tok "custom", .sp] F := Runs.cons (step_op _ _) (runs_kw_sp "custom" (by decide))
    have t5 : Runs (In false [.word]) [.cl path] G := Runs.cons (step_cl _ _) ((Runs.nil _).post (In.mono (by decide)))
    exact Runs.append (Runs.append (Runs.append (runs_def_head path doc attrs hdoc hattrs) t3) (runs_ident _ _ hname)) t5
  | alias doc attrs name ty =>
    simp only [defOk, Bool.and_eq_true] at h
    obtain ⟨⟨⟨hdoc, hattrs⟩, hname⟩, hty⟩ := h
    simp only [defItems]
    have t3 : Runs F [.op path, .tok "typealias", .sp] F := Runs.cons (step_op _ _) (runs_kw_sp "typealias" (by decide))
    have t5 : Runs (In false [.word]) [.cl path] G := Runs.cons (step_cl _ _) ((Runs.nil _).post (In.mono (by decide)))
    have t6 : Runs G [.sp, .tok "=", .sp] F :=
      Runs.cons (step_sp _ _) (Runs.cons (step_punct' "=" false _ (by decide) (by decide)) (Runs.cons (step_sp _ _) (Runs.nil _)))
    exact Runs.append (Runs.append (Runs.append (Runs.append (Runs.append (runs_def_head path doc attrs hdoc hattrs) t3)
      (runs_ident _ _ hname)) t5) t6) (runs_tref _ _ hty)

theorem runs_file (f : SFile) (h : fileOk f = true) : Runs F (fileItems f) F := by
  simp only [fileOk, Bool.and_eq_true] at h
  obtain ⟨⟨hfa, hmod⟩, hdefs⟩ := h
  unfold fileItems
  have p1 : Runs F (f.fileAttrs.zipIdx.flatMap fun (a, i) =>
      [.tok "[[", .glue] ++ attrItems ("fa" ++ toString i) a ++ [.glue, .tok "]]", .nl 0]) F := by
    refine Runs.flatMap _ _ F ?_
    intro p hp
    obtain ⟨a, i⟩ := p
    have ha := all_mem _ _ hfa a (List.fst_mem_of_mem_zipIdx hp)
    have a1 : Runs F [.tok "[[", .glue] AS :=
      Runs.cons (step_const "[[" false true _ _ tbl_dlbracket) (Runs.cons (step_glue _) ((Runs.nil _).post (In.mono (by decide))))
    have a3 : Runs AG [.glue, .tok "]]", .nl 0] F :=
      Runs.cons (step_glue _) (Runs.cons (step_const "]]" true false _ _ tbl_drbracket) (Runs.cons (step_nl _ _ _) (Runs.nil _)))
    exact Runs.append (Runs.append a1 (runs_attr _ a ha)) a3
  have p2 : Runs F (match f.module with
      | none => []
      | some m => localAttrs "mod" m.attrs (.nl 0) ++
          [.op "mod", .tok "module", .sp, .op "mod.id", .tok (escapeScoped m.path), .cl "mod.id", .cl "mod", .nl 0]) F := by
    cases hm : f.module with
    | none => exact Runs.nil _
    | some m =>
      rw [hm] at hmod
      simp only [Bool.and_eq_true] at hmod ⊢
      have m2 : Runs F [.op "mod", .tok "module", .sp, .op "mod.id", .tok (escapeScoped m.path), .cl "mod.id", .cl "mod", .nl 0] F :=
        Runs.cons (step_op _ _) (runs_kw "module" (by decide) _ _ (Runs.cons (step_sp _ _) (Runs.cons (step_op _ _)
          (Runs.cons (step_name _ false _ hmod.2 (by decide)) (Runs.cons (step_cl _ _) (Runs.cons (step_cl _ _)
            (Runs.cons (step_nl _ _ _) (Runs.nil _))))))))
      exact Runs.append (runs_localAttrs _ _ _ hmod.1 (Or.inr ⟨0, rfl⟩)) m2
  have p3 : Runs F (f.defs.zipIdx.flatMap fun (d, i) => [.nl 0] ++ defItems ("d" ++ toString i) d ++ [.nl 0]) F := by
    refine Runs.flatMap _ _ F ?_
    intro p hp
    obtain ⟨d, i⟩ := p
    have hd := all_mem _ _ hdefs d (List.fst_mem_of_mem_zipIdx hp)
    have d1 : Runs F [.nl 0] F := Runs.cons (step_nl _ _ _) (Runs.nil _)
    have d3 : Runs G [.nl 0] F := Runs.cons (step_nl _ _ _) (Runs.nil _)
    exact Runs.append (Runs.append d1 (runs_def _ d hd)) d3
  exact Runs.append (Runs.append p1 p2) p3

/-- **The printer respects the separation rule.** The items of every well-formed file pass the separation check:
    no two spellings that a layout may write without a separator can merge or split differently, every spelling
    lexes cleanly on its own, every identifier is an identifier. -/
theorem itemsOk_fileItems (f : SFile) (h : fileOk f = true) : itemsOk (fileItems f) = true := by
  obtain ⟨st', hrun, _⟩ := runs_file f h ⟨false, .closed⟩ ⟨rfl, by simp⟩
  simp [itemsOk, hrun]

end Slicec.SLex
