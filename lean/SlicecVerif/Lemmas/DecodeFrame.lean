/-
  C11, framing: a successful decode depends only on the bytes it consumed. Appending ANY bytes behind the
  input changes neither the value nor the consumed prefix — the decoder never looks past what it reads
  ("no over-read" in the strong sense: not only inside the buffer, but not even inside the unread part).
-/
import SlicecVerif.Lemmas.Decode

namespace Slicec

/-- `dec` is framed: success on `bs` is success with the same value on `bs ++ ex`, the extra bytes unread -/
def Framed {α} (dec : Bytes → Dec α) : Prop :=
  ∀ (bs : Bytes) (v : α) (rest ex : Bytes), dec bs = .ok (v, rest) → dec (bs ++ ex) = .ok (v, rest ++ ex)

theorem readN_framed (n : Nat) : Framed (readN n) := by
  intro bs v rest ex h
  unfold readN at h ⊢
  by_cases hl : bs.length < n
  · simp [hl] at h
  · have hle : n ≤ bs.length := by omega
    simp only [hl, if_false] at h
    injection h with h
    injection h with h1 h2
    have hl' : ¬ (bs ++ ex).length < n := by simp; omega
    simp only [hl', if_false]
    rw [List.take_append_of_le_length hle, List.drop_append_of_le_length hle, h1, h2]

theorem decVaruintRaw_framed : Framed decVaruintRaw := by
  intro bs v rest ex h
  cases bs with
  | nil => simp [decVaruintRaw] at h
  | cons b tl =>
    simp only [decVaruintRaw, List.cons_append] at h ⊢
    cases hw : lookupWidth Gen.varuintDecode (b.toNat % (Gen.decodeMask + 1)) with
    | none => rw [hw] at h; simp at h
    | some ws =>
      obtain ⟨w, s⟩ := ws
      rw [hw] at h
      simp only at h ⊢
      cases hr : readN w (b :: tl) with
      | error e => rw [hr] at h; simp at h
      | ok p =>
        obtain ⟨raw, r⟩ := p
        rw [hr] at h
        simp only at h
        injection h with h
        injection h with h1 h2
        have := readN_framed w (b :: tl) raw r ex hr
        simp only [List.cons_append] at this
        rw [this]
        simp only
        rw [h1, h2]

theorem decVarintRaw_framed : Framed decVarintRaw := by
  intro bs v rest ex h
  cases bs with
  | nil => simp [decVarintRaw] at h
  | cons b tl =>
    simp only [decVarintRaw, List.cons_append] at h ⊢
    cases hw : lookupWidth Gen.varintDecode (b.toNat % (Gen.decodeMask + 1)) with
    | none => rw [hw] at h; simp at h
    | some ws =>
      obtain ⟨w, s⟩ := ws
      rw [hw] at h
      simp only at h ⊢
      cases hr : readN w (b :: tl) with
      | error e => rw [hr] at h; simp at h
      | ok p =>
        obtain ⟨raw, r⟩ := p
        rw [hr] at h
        simp only at h
        injection h with h
        injection h with h1 h2
        have := readN_framed w (b :: tl) raw r ex hr
        simp only [List.cons_append] at this
        rw [this]
        simp only
        rw [h1, h2]

theorem decVaruintRawI_framed : Framed decVaruintRawI := by
  intro bs v rest ex h
  unfold decVaruintRawI at h ⊢
  cases hr : decVaruintRaw bs with
  | error e => rw [hr] at h; simp at h
  | ok p =>
    obtain ⟨n, r⟩ := p
    rw [hr] at h
    simp only at h
    injection h with h
    injection h with h1 h2
    rw [decVaruintRaw_framed bs n r ex hr]
    simp only
    rw [h1, h2]

theorem narrow_framed (lo hi : Int) (dec : Bytes → Dec Int) (hd : Framed dec) :
    Framed (fun bs => narrow lo hi (dec bs)) := by
  intro bs v rest ex h
  simp only [narrow] at h ⊢
  cases hr : dec bs with
  | error e => rw [hr] at h; simp at h
  | ok p =>
    obtain ⟨n, r⟩ := p
    rw [hr] at h
    simp only at h
    rw [hd bs n r ex hr]
    simp only
    by_cases hc : lo ≤ n ∧ n ≤ hi
    · rw [if_pos hc] at h ⊢
      injection h with h
      injection h with h1 h2
      rw [h1, h2]
    · rw [if_neg hc] at h; simp at h

theorem decFixedU_framed (w : Nat) : Framed (decFixedU w) := by
  intro bs v rest ex h
  unfold decFixedU at h ⊢
  cases hr : readN w bs with
  | error e => rw [hr] at h; simp at h
  | ok p =>
    obtain ⟨raw, r⟩ := p
    rw [hr] at h
    simp only at h
    injection h with h
    injection h with h1 h2
    rw [readN_framed w bs raw r ex hr]
    simp only
    rw [h1, h2]

theorem decFixedS_framed (w : Nat) : Framed (decFixedS w) := by
  intro bs v rest ex h
  unfold decFixedS at h ⊢
  cases hr : readN w bs with
  | error e => rw [hr] at h; simp at h
  | ok p =>
    obtain ⟨raw, r⟩ := p
    rw [hr] at h
    simp only at h
    injection h with h
    injection h with h1 h2
    rw [readN_framed w bs raw r ex hr]
    simp only
    rw [h1, h2]

theorem decBits_framed (w : Nat) : Framed (decBits w) := by
  intro bs v rest ex h
  unfold decBits at h ⊢
  cases hr : readN w bs with
  | error e => rw [hr] at h; simp at h
  | ok p =>
    obtain ⟨raw, r⟩ := p
    rw [hr] at h
    simp only at h
    injection h with h
    injection h with h1 h2
    rw [readN_framed w bs raw r ex hr]
    simp only
    rw [h1, h2]

theorem decBool_framed : Framed decBool := by
  intro bs v rest ex h
  cases bs with
  | nil => simp [decBool] at h
  | cons b tl =>
    simp only [decBool, List.cons_append] at h ⊢
    by_cases h0 : b = 0
    · simp only [h0, if_true] at h ⊢
      injection h with h; injection h with h1 h2; rw [h1, h2]
    · by_cases h1 : b = 1
      · subst h1
        simp at h ⊢
        obtain ⟨h1, h2⟩ := h
        simp [h1, h2]
      · simp [h0, h1] at h

theorem decStr_framed : Framed decStr := by
  intro bs v rest ex h
  unfold decStr at h ⊢
  cases hr : decVaruintRaw bs with
  | error e => rw [hr] at h; simp at h
  | ok p =>
    obtain ⟨n, r⟩ := p
    rw [hr] at h
    simp only at h
    rw [decVaruintRaw_framed bs n r ex hr]
    simp only
    cases hq : readN n r with
    | error e => rw [hq] at h; simp at h
    | ok q =>
      obtain ⟨raw, r'⟩ := q
      rw [hq] at h
      simp only at h
      rw [readN_framed n r raw r' ex hq]
      simp only
      by_cases hv : validUTF8 raw = true
      · rw [if_pos hv] at h ⊢
        injection h with h; injection h with h1 h2; rw [h1, h2]
      · rw [if_neg hv] at h; simp at h

theorem decList_framed {α} (dec : Bytes → Dec α) (hd : Framed dec) : ∀ n, Framed (decList dec n)
  | 0 => by
    intro bs v rest ex h
    simp only [decList] at h ⊢
    injection h with h; injection h with h1 h2; rw [h1, h2]
  | n + 1 => by
    intro bs v rest ex h
    simp only [decList] at h ⊢
    cases hr : dec bs with
    | error e => rw [hr] at h; simp at h
    | ok p =>
      obtain ⟨x, r⟩ := p
      rw [hr] at h
      simp only at h
      rw [hd bs x r ex hr]
      simp only
      cases hq : decList dec n r with
      | error e => rw [hq] at h; simp at h
      | ok q =>
        obtain ⟨xs, r'⟩ := q
        rw [hq] at h
        simp only at h
        rw [decList_framed dec hd n r xs r' ex hq]
        simp only
        injection h with h; injection h with h1 h2; rw [h1, h2]

theorem decPair_framed {α β} (dk : Bytes → Dec α) (dv : Bytes → Dec β) (hk : Framed dk) (hv : Framed dv) :
    Framed (decPair dk dv) := by
  intro bs v rest ex h
  unfold decPair at h ⊢
  cases hr : dk bs with
  | error e => rw [hr] at h; simp at h
  | ok p =>
    obtain ⟨k, r⟩ := p
    rw [hr] at h
    simp only at h
    rw [hk bs k r ex hr]
    simp only
    cases hq : dv r with
    | error e => rw [hq] at h; simp at h
    | ok q =>
      obtain ⟨x, r'⟩ := q
      rw [hq] at h
      simp only at h
      rw [hv r x r' ex hq]
      simp only
      injection h with h; injection h with h1 h2; rw [h1, h2]

theorem decEntries_framed {α β} [DecidableEq α] (dk : Bytes → Dec α) (dv : Bytes → Dec β)
    (hk : Framed dk) (hv : Framed dv) : ∀ n seen, Framed (decEntries dk dv n seen)
  | 0, seen => by
    intro bs v rest ex h
    simp only [decEntries] at h ⊢
    injection h with h; injection h with h1 h2; rw [h1, h2]
  | n + 1, seen => by
    intro bs v rest ex h
    simp only [decEntries] at h ⊢
    cases hr : decPair dk dv bs with
    | error e => rw [hr] at h; simp at h
    | ok p =>
      obtain ⟨⟨k, x⟩, r⟩ := p
      rw [hr] at h
      simp only at h
      rw [decPair_framed dk dv hk hv bs (k, x) r ex hr]
      simp only
      by_cases hm : k ∈ seen
      · rw [if_pos hm] at h; simp at h
      · rw [if_neg hm] at h ⊢
        cases hq : decEntries dk dv n (k :: seen) r with
        | error e => rw [hq] at h; simp at h
        | ok q =>
          obtain ⟨es, r'⟩ := q
          rw [hq] at h
          simp only at h
          rw [decEntries_framed dk dv hk hv n (k :: seen) r es r' ex hq]
          simp only
          injection h with h; injection h with h1 h2; rw [h1, h2]

theorem sized_framed {α} (body : Nat → Bytes → Dec α) (hb : ∀ n, Framed (body n)) :
    Framed (fun bs => match decVaruintRaw bs with
      | .error e => .error e
      | .ok (n, rest) => body n rest) := by
  intro bs v rest ex h
  simp only at h ⊢
  cases hr : decVaruintRaw bs with
  | error e => rw [hr] at h; simp at h
  | ok p =>
    obtain ⟨n, r⟩ := p
    rw [hr] at h
    simp only at h
    rw [decVaruintRaw_framed bs n r ex hr]
    simp only
    exact hb n r v rest ex h

/-- every decoder of the codec is framed -/
theorem decode_framed : ∀ t : Ty, Framed (decode t)
  | .bool => decBool_framed
  | .uint w => decFixedU_framed w.n
  | .sint w => decFixedS_framed w.n
  | .f32 => decBits_framed 4
  | .f64 => decBits_framed 8
  | .varint32 => narrow_framed _ _ _ decVarintRaw_framed
  | .varuint32 => narrow_framed _ _ _ decVaruintRawI_framed
  | .varint62 => decVarintRaw_framed
  | .varuint62 => decVaruintRawI_framed
  | .size => decVaruintRawI_framed
  | .str => decStr_framed
  | .seq t => by
    have := sized_framed (fun n => decList (decode t) n) (decList_framed _ (decode_framed t))
    intro bs v rest ex h
    simp only [decode] at h ⊢
    exact this bs v rest ex h
  | .dictB k v => by
    have := sized_framed (fun n => decEntries (decode k) (decode v) n [])
      (fun n => decEntries_framed _ _ (decode_framed k) (decode_framed v) n [])
    intro bs x rest ex h
    simp only [decode] at h ⊢
    exact this bs x rest ex h
  | .dictH k v => by
    have := sized_framed (fun n => decEntries (decode k) (decode v) n [])
      (fun n => decEntries_framed _ _ (decode_framed k) (decode_framed v) n [])
    intro bs x rest ex h
    simp only [decode] at h ⊢
    exact this bs x rest ex h

end Slicec
