/-
  Helper lemmas for C17: the de-duplication loop of `remove_duplicate_file_paths` against a first-occurrence
  specification (`keepFirst`), the reference-merging loop, the directory walk against a reachability relation
  (`BelowDir`), and the codes of the diagnostics each phase can emit.  Everything is over an arbitrary `FsEnv`.
-/
import SlicecVerif.Model.Files

namespace Slicec

section
variable {P C : Type}

/-! ## specification of de-duplication: keep the first entry of every canonical path -/

variable [DecidableEq C]

/-- entries of `l` whose canonical path is neither in `seen` nor carried by an earlier entry of `l` -/
def keepFirst (seen : List C) : List (FilePath P C) → List (FilePath P C)
  | [] => []
  | f :: fs => if f.canon ∈ seen then keepFirst seen fs else f :: keepFirst (seen ++ [f.canon]) fs

/-- the complementary entries: the repeats -/
def repeats (seen : List C) : List (FilePath P C) → List (FilePath P C)
  | [] => []
  | f :: fs => if f.canon ∈ seen then f :: repeats seen fs else repeats (seen ++ [f.canon]) fs

theorem removeDupLoop_eq (l acc : List (FilePath P C)) (d : List (FDiag P)) :
    removeDupLoop l acc d =
      (acc ++ keepFirst (acc.map (·.canon)) l, d ++ (repeats (acc.map (·.canon)) l).map (fun f => dupWarn f.path)) := by
  induction l generalizing acc d with
  | nil => simp [removeDupLoop, keepFirst, repeats]
  | cons f fs ih =>
    simp only [removeDupLoop, keepFirst, repeats]
    split
    · rw [ih]; simp
    · rw [ih]; simp

theorem removeDuplicates_eq (l : List (FilePath P C)) :
    removeDuplicates l = (keepFirst [] l, (repeats [] l).map (fun f => dupWarn f.path)) := by
  simp [removeDuplicates, removeDupLoop_eq]

theorem keepFirst_sublist (seen : List C) (l : List (FilePath P C)) : (keepFirst seen l).Sublist l := by
  induction l generalizing seen with
  | nil => simp [keepFirst]
  | cons f fs ih =>
    simp only [keepFirst]
    split
    · exact (ih seen).cons f
    · exact (ih _).cons_cons f

theorem keepFirst_subset {seen : List C} {l : List (FilePath P C)} {f : FilePath P C} (h : f ∈ keepFirst seen l) : f ∈ l :=
  (keepFirst_sublist seen l).subset h

theorem keepFirst_not_seen {seen : List C} {l : List (FilePath P C)} {f : FilePath P C} (h : f ∈ keepFirst seen l) :
    f.canon ∉ seen := by
  induction l generalizing seen with
  | nil => simp [keepFirst] at h
  | cons g gs ih =>
    simp only [keepFirst] at h
    split at h
    · exact ih h
    · rcases List.mem_cons.mp h with h | h
      · subst h; assumption
      · have := ih h
        intro hc; exact this (List.mem_append_left _ hc)

theorem keepFirst_nodup (seen : List C) (l : List (FilePath P C)) : ((keepFirst seen l).map (·.canon)).Nodup := by
  induction l generalizing seen with
  | nil => simp [keepFirst]
  | cons f fs ih =>
    simp only [keepFirst]
    split
    · exact ih seen
    · rw [List.map_cons, List.nodup_cons]
      refine ⟨?_, ih _⟩
      intro hc
      rcases List.mem_map.mp hc with ⟨g, hg, hgc⟩
      have := keepFirst_not_seen hg
      apply this
      simp [hgc]

theorem mem_keepFirst_canon (seen : List C) (l : List (FilePath P C)) (c : C) :
    c ∈ (keepFirst seen l).map (·.canon) ↔ c ∈ l.map (·.canon) ∧ c ∉ seen := by
  induction l generalizing seen with
  | nil => simp [keepFirst]
  | cons f fs ih =>
    simp only [keepFirst]
    split
    · rename_i hf
      rw [ih, List.map_cons, List.mem_cons]
      constructor
      · rintro ⟨h1, h2⟩; exact ⟨Or.inr h1, h2⟩
      · rintro ⟨h1 | h1, h2⟩
        · subst h1; exact absurd hf h2
        · exact ⟨h1, h2⟩
    · rename_i hf
      rw [List.map_cons, List.mem_cons, ih, List.map_cons, List.mem_cons]
      constructor
      · rintro (h | ⟨h1, h2⟩)
        · subst h; exact ⟨Or.inl rfl, hf⟩
        · exact ⟨Or.inr h1, fun hc => h2 (List.mem_append_left _ hc)⟩
      · rintro ⟨h1 | h1, h2⟩
        · exact Or.inl h1
        · by_cases hcf : c = f.canon
          · exact Or.inl hcf
          · refine Or.inr ⟨h1, ?_⟩
            intro hc
            rcases List.mem_append.mp hc with hc | hc
            · exact h2 hc
            · simp at hc; exact hcf hc

/-- every kept entry is the FIRST entry of `l` with its canonical path -/
theorem keepFirst_first {seen : List C} {l : List (FilePath P C)} {f : FilePath P C} (h : f ∈ keepFirst seen l) :
    ∃ pre post, l = pre ++ f :: post ∧ ∀ g ∈ pre, g.canon ≠ f.canon := by
  induction l generalizing seen with
  | nil => simp [keepFirst] at h
  | cons g gs ih =>
    simp only [keepFirst] at h
    split at h
    · rename_i hg
      obtain ⟨pre, post, e, hp⟩ := ih h
      refine ⟨g :: pre, post, by simp [e], ?_⟩
      intro x hx
      rcases List.mem_cons.mp hx with hx | hx
      · subst hx
        intro hc
        exact keepFirst_not_seen h (hc ▸ hg)
      · exact hp x hx
    · rcases List.mem_cons.mp h with h | h
      · subst h
        exact ⟨[], gs, rfl, by simp⟩
      · obtain ⟨pre, post, e, hp⟩ := ih h
        refine ⟨g :: pre, post, by simp [e], ?_⟩
        intro x hx
        rcases List.mem_cons.mp hx with hx | hx
        · subst hx
          intro hc
          exact keepFirst_not_seen h (by simp [hc])
        · exact hp x hx

theorem keepFirst_length (seen : List C) (l : List (FilePath P C)) :
    (keepFirst seen l).length + (repeats seen l).length = l.length := by
  induction l generalizing seen with
  | nil => simp [keepFirst, repeats]
  | cons f fs ih =>
    simp only [keepFirst, repeats]
    split
    · have := ih seen; simp only [List.length_cons]; omega
    · have := ih (seen ++ [f.canon]); simp only [List.length_cons]; omega

/-- a list without repeated canonical paths (and none already seen) is returned unchanged -/
theorem keepFirst_of_nodup (seen : List C) (l : List (FilePath P C)) (hs : ∀ f ∈ l, f.canon ∉ seen)
    (hn : (l.map (·.canon)).Nodup) : keepFirst seen l = l ∧ repeats seen l = [] := by
  induction l generalizing seen with
  | nil => simp [keepFirst, repeats]
  | cons f fs ih =>
    simp only [keepFirst, repeats]
    rw [List.map_cons, List.nodup_cons] at hn
    have hf : f.canon ∉ seen := hs f (List.mem_cons_self ..)
    simp only [hf, if_false]
    have := ih (seen ++ [f.canon]) (by
      intro g hg hc
      rcases List.mem_append.mp hc with hc | hc
      · exact hs g (List.mem_cons_of_mem _ hg) hc
      · simp at hc
        exact hn.1 (List.mem_map.mpr ⟨g, hg, hc⟩)) hn.2
    simp [this.1, this.2]

omit [DecidableEq C] in
/-- distinct keys: entries of a list whose keys are pairwise different are determined by their key -/
theorem eq_of_canon_eq_of_nodup {l : List (FilePath P C)} (hn : (l.map (·.canon)).Nodup) {f g : FilePath P C}
    (hf : f ∈ l) (hg : g ∈ l) (h : f.canon = g.canon) : f = g := by
  induction l with
  | nil => simp at hf
  | cons x xs ih =>
    rw [List.map_cons, List.nodup_cons] at hn
    rcases List.mem_cons.mp hf with hf | hf <;> rcases List.mem_cons.mp hg with hg | hg
    · rw [hf, hg]
    · exact absurd (List.mem_map.mpr ⟨g, hg, by rw [← h, hf]⟩) hn.1
    · exact absurd (List.mem_map.mpr ⟨f, hf, by rw [h, hg]⟩) hn.1
    · exact ih hn.2 hf hg

/-! ## the reference-merging loop -/

theorem mergeReferences_eq (acc refs : List (FilePath P C)) (hn : (refs.map (·.canon)).Nodup) :
    mergeReferences acc refs = acc ++ refs.filter (fun r => decide (r.canon ∉ acc.map (·.canon))) := by
  induction refs generalizing acc with
  | nil => simp [mergeReferences]
  | cons r rs ih =>
    rw [List.map_cons, List.nodup_cons] at hn
    have step : mergeReferences acc (r :: rs) =
        mergeReferences (if r.canon ∈ acc.map (·.canon) then acc else acc ++ [r]) rs := by
      simp only [mergeReferences, List.foldl_cons]
    rw [step]
    by_cases hr : r.canon ∈ acc.map (·.canon)
    · rw [if_pos hr, ih acc hn.2, List.filter_cons]
      have hd : decide (r.canon ∉ acc.map (·.canon)) = false := by simpa using hr
      rw [hd]; rfl
    · rw [if_neg hr, ih (acc ++ [r]) hn.2, List.filter_cons]
      have hd : decide (r.canon ∉ acc.map (·.canon)) = true := by simpa using hr
      rw [hd, if_pos rfl, List.append_assoc, List.singleton_append]
      congr 2
      apply List.filter_congr
      intro x hx
      have hne : x.canon ≠ r.canon := by
        intro hc; exact hn.1 (List.mem_map.mpr ⟨x, hx, hc⟩)
      simp [hne]

end

/-! ## the directory walk -/

section
variable {P C : Type}

/-- `BelowDir env n p q`: `q` is reached from `p` by listing `n` nested directories (each step: `p` is a directory,
    `read_dir` succeeds, the next path is one of the children it returns) -/
inductive BelowDir (env : FsEnv P C) : Nat → P → P → Prop where
  | here (p : P) : BelowDir env 0 p p
  | child {n : Nat} {p c q : P} {cs : List P} :
      env.isDir p = true → env.readDir p = some cs → c ∈ cs → BelowDir env n c q → BelowDir env (n + 1) p q

/-- a path kept by the walk: not a directory, a file, spelled with the `slice` extension -/
def sliceLeaf (env : FsEnv P C) (q : P) : Prop := env.isDir q = false ∧ env.isFile q = true ∧ env.isSlice q = true

theorem mem_flatMap_map_fst {α β γ : Type} (g : α → List β × List γ) (cs : List α) (q : β) :
    q ∈ (cs.map g).flatMap (·.1) ↔ ∃ c ∈ cs, q ∈ (g c).1 := by
  simp only [List.mem_flatMap, List.mem_map]
  constructor
  · rintro ⟨_, ⟨c, hc, rfl⟩, hq⟩; exact ⟨c, hc, hq⟩
  · rintro ⟨c, hc, hq⟩; exact ⟨_, ⟨c, hc, rfl⟩, hq⟩

theorem mem_flatMap_map_snd {α β γ : Type} (g : α → List β × List γ) (cs : List α) (q : γ) :
    q ∈ (cs.map g).flatMap (·.2) ↔ ∃ c ∈ cs, q ∈ (g c).2 := by
  simp only [List.mem_flatMap, List.mem_map]
  constructor
  · rintro ⟨_, ⟨c, hc, rfl⟩, hq⟩; exact ⟨c, hc, hq⟩
  · rintro ⟨c, hc, hq⟩; exact ⟨_, ⟨c, hc, rfl⟩, hq⟩

/-- the walk returns exactly the slice-named files reachable by listing fewer than `fuel` nested directories -/
theorem mem_walk (env : FsEnv P C) (fuel : Nat) (p q : P) :
    q ∈ (walkFiles env fuel p).1 ↔ ∃ n, n < fuel ∧ BelowDir env n p q ∧ sliceLeaf env q := by
  induction fuel generalizing p with
  | zero => simp [walkFiles]
  | succ fuel ih =>
    unfold walkFiles
    cases hd : env.isDir p with
    | true =>
      cases hr : env.readDir p with
      | some cs =>
        simp only [if_true]
        rw [mem_flatMap_map_fst]
        constructor
        · rintro ⟨c, hc, hq⟩
          obtain ⟨n, hn, hb, hl⟩ := (ih c).mp hq
          exact ⟨n + 1, by omega, BelowDir.child hd hr hc hb, hl⟩
        · rintro ⟨n, hn, hb, hl⟩
          cases hb with
          | here => exact absurd hd (by simp [hl.1])
          | child h1 h2 h3 h4 =>
            rw [hr] at h2
            cases h2
            exact ⟨_, h3, (ih _).mpr ⟨_, by omega, h4, hl⟩⟩
      | none =>
        simp only [if_true]
        constructor
        · intro h; simp at h
        · rintro ⟨n, _, hb, hl⟩
          cases hb with
          | here => exact absurd hd (by simp [hl.1])
          | child h1 h2 h3 h4 => rw [hr] at h2; cases h2
    | false =>
      simp only [Bool.false_eq_true, if_false]
      by_cases hfs : (env.isFile p && env.isSlice p) = true
      · simp only [hfs, if_true, List.mem_singleton]
        constructor
        · intro h; subst h
          simp only [Bool.and_eq_true] at hfs
          exact ⟨0, by omega, BelowDir.here _, hd, hfs.1, hfs.2⟩
        · rintro ⟨n, _, hb, hl⟩
          cases hb with
          | here => rfl
          | child h1 _ _ _ => rw [hd] at h1; cases h1
      · simp only [hfs]
        constructor
        · intro h; simp at h
        · rintro ⟨n, _, hb, hl⟩
          cases hb with
          | here => exact absurd (by simp [hl.2.1, hl.2.2]) hfs
          | child h1 _ _ _ => rw [hd] at h1; cases h1

theorem walk_diag_code (env : FsEnv P C) (fuel : Nat) (p : P) : ∀ d ∈ (walkFiles env fuel p).2, d.code = .io := by
  induction fuel generalizing p with
  | zero => simp [walkFiles]
  | succ fuel ih =>
    unfold walkFiles
    intro d hd
    split at hd
    · split at hd
      · rw [mem_flatMap_map_snd] at hd
        obtain ⟨c, _, hc⟩ := hd
        exact ih c d hc
      · simp at hd; subst hd; rfl
    · split at hd <;> simp at hd

theorem findStep_diag_code (env : FsEnv P C) (fuel : Nat) (a : Bool) (p : P) : ∀ d ∈ (findStep env fuel a p).2, d.code = .io := by
  intro d hd
  unfold findStep at hd
  split at hd
  · simp at hd; subst hd; rfl
  · split at hd
    · simp at hd; subst hd; rfl
    · split at hd
      · simp at hd; subst hd; rfl
      · exact walk_diag_code env fuel p d hd

/-- what one argument contributes to the discovered paths -/
theorem mem_findStep (env : FsEnv P C) (fuel : Nat) (a : Bool) (p q : P) (h : q ∈ (findStep env fuel a p).1) :
    env.pathExists p = true ∧ q ∈ (walkFiles env fuel p).1 ∧ (env.isDir p = true → a = true) := by
  unfold findStep at h
  split at h
  · simp at h
  · rename_i h1
    split at h
    · simp at h
    · split at h
      · simp at h
      · rename_i h3
        refine ⟨by simpa using h1, h, ?_⟩
        intro hd
        cases a with
        | true => rfl
        | false => simp [hd] at h3

theorem findSliceFiles_diag_code (env : FsEnv P C) (fuel : Nat) (paths : List P) (s : Bool) :
    ∀ d ∈ (findSliceFiles env fuel paths s).2, d.code = .io := by
  intro d hd
  simp only [findSliceFiles, createAll, List.mem_append, List.mem_flatMap, List.mem_filterMap] at hd
  rcases hd with ⟨p, _, hp⟩ | ⟨p, _, hp⟩
  · exact findStep_diag_code env fuel _ p d hp
  · split at hp
    · simp at hp; subst hp; rfl
    · simp at hp

/-- an entry produced by `find_slice_files`: its spelling was discovered, its canonical path is the
    environment's, its flag is the list's -/
theorem mem_findSliceFiles (env : FsEnv P C) (fuel : Nat) (paths : List P) (s : Bool) (f : FilePath P C)
    (h : f ∈ (findSliceFiles env fuel paths s).1) :
    f.path ∈ discovered env fuel paths s ∧ env.canon f.path = some f.canon ∧ f.isSource = s := by
  simp only [findSliceFiles, createAll, List.mem_filterMap] at h
  obtain ⟨p, hp, hc⟩ := h
  cases hcp : env.canon p with
  | none => simp [hcp] at hc
  | some c =>
    simp [hcp] at hc
    subst hc
    exact ⟨hp, hcp, rfl⟩

end

/-! ## the shape of `resolve_files_from` -/

section
variable {P C : Type} [DecidableEq C]

/-- the entries `find_slice_files` yields for the source list / the reference list (before de-duplication) -/
abbrev srcFound (env : FsEnv P C) (fuel : Nat) (sources : List P) : List (FilePath P C) := (findSliceFiles env fuel sources true).1
abbrev refFound (env : FsEnv P C) (fuel : Nat) (references : List P) : List (FilePath P C) := (findSliceFiles env fuel references false).1

theorem resolve_filePaths (env : FsEnv P C) (fuel : Nat) (sources references : List P) :
    (resolveFilesFrom env fuel sources references).filePaths =
      keepFirst [] (srcFound env fuel sources) ++
      (keepFirst [] (refFound env fuel references)).filter
        (fun f => decide (f.canon ∉ (srcFound env fuel sources).map (·.canon))) := by
  simp only [resolveFilesFrom, removeDuplicates_eq]
  rw [mergeReferences_eq _ _ (keepFirst_nodup _ _)]
  congr 1
  apply List.filter_congr
  intro x _
  have := mem_keepFirst_canon (P := P) [] (srcFound env fuel sources) x.canon
  simp only [List.not_mem_nil, not_false_eq_true, and_true] at this
  simp only [this, srcFound]

theorem resolve_diags (env : FsEnv P C) (fuel : Nat) (sources references : List P) :
    (resolveFilesFrom env fuel sources references).diags =
      (findSliceFiles env fuel sources true).2 ++ (repeats [] (srcFound env fuel sources)).map (fun f => dupWarn f.path) ++
      (findSliceFiles env fuel references false).2 ++ (repeats [] (refFound env fuel references)).map (fun f => dupWarn f.path) ++
      ((resolveFilesFrom env fuel sources references).filePaths.filter (fun f => !env.readOk f.path)).map (fun f => ioErr f.path) := by
  simp only [resolveFilesFrom, removeDuplicates_eq, srcFound, refFound]

theorem filePaths_nodup (env : FsEnv P C) (fuel : Nat) (sources references : List P) :
    ((resolveFilesFrom env fuel sources references).filePaths.map (·.canon)).Nodup := by
  rw [resolve_filePaths, List.map_append, List.nodup_append]
  refine ⟨keepFirst_nodup _ _, ?_, ?_⟩
  · exact (keepFirst_nodup [] (refFound env fuel references)).sublist ((List.filter_sublist).map _)
  · intro a ha b hb hab
    subst hab
    have h1 := ((mem_keepFirst_canon _ _ _).mp ha).1
    obtain ⟨x, hx, hxc⟩ := List.mem_map.mp hb
    have h2 := (List.mem_filter.mp hx).2
    simp only [decide_eq_true_eq] at h2
    exact h2 (hxc ▸ h1)

theorem mem_filePaths (env : FsEnv P C) (fuel : Nat) (sources references : List P) (f : FilePath P C) :
    f ∈ (resolveFilesFrom env fuel sources references).filePaths ↔
      f ∈ keepFirst [] (srcFound env fuel sources) ∨
      (f ∈ keepFirst [] (refFound env fuel references) ∧ f.canon ∉ (srcFound env fuel sources).map (·.canon)) := by
  rw [resolve_filePaths, List.mem_append, List.mem_filter]
  simp only [decide_eq_true_eq]

end

/-- a small environment for the non-vacuity examples of `Props/C17.lean`: paths are numbers; 0 and 1 are two
    spellings of one file, 2 is another file, 3 does not exist, 10 is a directory listing 0 1 2 -/
def c17DemoEnv : FsEnv Nat Nat where
  pathExists p := p != 3
  isFile p := p < 3
  isDir p := p == 10
  isSlice _ := true
  readDir p := if p == 10 then some [0, 1, 2] else none
  canon p := if p == 1 then some 0 else if p == 3 then none else some p
  readOk _ := true


end Slicec
