/-
  A worked example for the non-vacuity checks of Props/C20.lean: one file in which an alias of an anonymous type is used
  several times, once nested inside the anonymous type of another alias; the table `buildTable` makes for it, and what the
  two alias names resolve to (computed by `simp` from the model's definitions, no evaluation outside the kernel).
-/
import SlicecVerif.Lemmas.VisitComplete

namespace Slicec.Visit

open Slicec

def tr (ty : TyExpr) (opt : Bool := false) : TRef := .mk [] ty opt

/-- `module M  typealias T = Sequence<bool>  typealias U = Dictionary<int32, T>  struct S { a: T, b: U, c: Sequence<T> }`:
    `T` (an alias of an anonymous type) is used three times, once nested inside the anonymous type of the alias `U` -/
def exFile2 : SFile :=
  { fileAttrs := [], module := some ⟨[], "M"⟩,
    defs := [ .alias [] [] "T" (tr (.seq (tr (.prim .bool)))),
              .alias [] [] "U" (tr (.dict (tr (.prim .int32)) (tr (.named "T")))),
              .struct [] [] false "S" [⟨[], [], none, "a", tr (.named "T")⟩, ⟨[], [], none, "b", tr (.named "U")⟩,
                                       ⟨[], [], none, "c", tr (.seq (tr (.named "T")))⟩] ] }

/-- the name table of the one-file program -/
def exTab : Table := buildTable [exFile2]

theorem exTab_eq : exTab = primTable ++
   [("M::T", { kind := .alias, key := "M::T", modScope := "M", ident := "T", aliasOf := some (tr (.seq (tr (.prim .bool)))), file := 0 }),
    ("M::U", { kind := .alias, key := "M::U", modScope := "M", ident := "U", aliasOf := some (tr (.dict (tr (.prim .int32)) (tr (.named "T")))), file := 0 }),
    ("M::S::a", { kind := .field, key := "M::S::a", modScope := "M", ident := "a", file := 0 }),
    ("M::S::b", { kind := .field, key := "M::S::b", modScope := "M", ident := "b", file := 0 }),
    ("M::S::c", { kind := .field, key := "M::S::c", modScope := "M", ident := "c", file := 0 }),
    ("M::S", { kind := .struct, key := "M::S", modScope := "M", ident := "S", file := 0 }),
    ("M", { kind := .module, key := "M", modScope := "M", ident := "M", file := 0 })] := by
  simp [exTab, buildTable, exFile2, fileEntries, defEntries, fieldEntries, scopedId, SFile.modPath, List.zipIdx]

theorem ex_find (id : String) (h : id = "T" ∨ id = "U") : findNodeWithScope exTab id "M" = exTab.find ("M::" ++ id) := by
  rcases h with rfl | rfl <;>
  · rw [exTab_eq]
    simp [findNodeWithScope, show stripGlobal "T" = none by decide, show stripGlobal "U" = none by decide,
      show splitSegs "M" = ["M"] by decide, scopeLoop, Table.find, joinSegs, primTable, Prim.all, Prim.kw]

theorem ex_numAliases : numAliases exTab = 2 := by
  rw [exTab_eq]; simp [numAliases, aliasKeys, primTable, Prim.all, NodeInfo.isAlias]

/-- `T` is bound to the anonymous type `Sequence<bool>` written in module `M` -/
theorem ex_res_T : resolveNamed exTab .type "T" "M" = .ok (.expr (.seq (tr (.prim .bool))) "M", []) := by
  rw [resolveNamed, ex_find "T" (Or.inl rfl), exTab_eq]
  simp [Table.find, primTable, Prim.all, Prim.kw, NodeInfo.isAlias, walkAlias, tr, TRef.ty, TRef.attrs, acceptableExpr,
    Gen.typeNodeVariants, TyExpr.variant]

/-- `U` is bound to the anonymous type `Dictionary<int32, T>` written in module `M` -/
theorem ex_res_U : resolveNamed exTab .type "U" "M" = .ok (.expr (.dict (tr (.prim .int32)) (tr (.named "T"))) "M", []) := by
  rw [resolveNamed, ex_find "U" (Or.inr rfl), exTab_eq]
  simp [Table.find, primTable, Prim.all, Prim.kw, NodeInfo.isAlias, walkAlias, tr, TRef.ty, TRef.attrs, acceptableExpr,
    Gen.typeNodeVariants, TyExpr.variant]

/-- the written references of the example: `T` is named at `d2.f0.t`, `d2.f2.t.e` and `d1.t.v`, `U` at `d2.f1.t` -/
theorem ex_refs : refAt exFile2 [.d 2, .f 0, .t] = some (.named "T") ∧ refAt exFile2 [.d 2, .f 2, .t, .te] = some (.named "T") ∧
    refAt exFile2 [.d 2, .f 1, .t] = some (.named "U") ∧ refAt exFile2 [.d 1, .t, .tv] = some (.named "T") ∧
    refAt exFile2 [.d 2, .f 0] = none ∧ refAt exFile2 [.d 2, .f 0, .t, .te] = none := by
  simp [refAt, locate, exFile2, locDef, locFields, locOwner, subTy, TyExpr.child, tr, TRef.ty]

theorem ex_inT : InTy exTab 2 "M" (.seq (tr (.prim .bool))) [.te] ∧ ¬ InTy exTab 2 "M" (.seq (tr (.prim .bool))) [.te, .te] ∧
    ¬ InTy exTab 2 "M" (.seq (tr (.prim .bool))) [.tk] := by
  simp [InTy_step, TyExpr.child, tr, InTy_nil]

/-- nested: inside the anonymous type of `U` the value reference names `T`, whose element is reached with one more unit of fuel -/
theorem ex_inU : InTy exTab 2 "M" (.dict (tr (.prim .int32)) (tr (.named "T"))) [.tv, .te] := by
  rw [InTy_step _ _ _ _ _ _ (by simp)]
  refine ⟨.named "T", by simp [TyExpr.child, tr], ?_⟩
  exact (InTy_named _ _ _ _ _ (by simp)).mpr ⟨1, _, _, _, rfl, ex_res_T, by simp [InTy_step, TyExpr.child, tr, InTy_nil]⟩

/-! ### a two-file example: an alias of an anonymous type written in another file -/

/-- file 0: `module N  typealias T0 = Sequence<bool>` -/
def exFileA : SFile := { fileAttrs := [], module := some ⟨[], "N"⟩, defs := [ .alias [] [] "T0" (tr (.seq (tr (.prim .bool)))) ] }

/-- file 1: `module M  struct S { a: N::T0 }` -/
def exFileB : SFile :=
  { fileAttrs := [], module := some ⟨[], "M"⟩, defs := [ .struct [] [] false "S" [⟨[], [], none, "a", tr (.named "N::T0")⟩] ] }

def exTab2 : Table := buildTable [exFileA, exFileB]

theorem exTab2_eq : exTab2 = primTable ++
   [("N::T0", { kind := .alias, key := "N::T0", modScope := "N", ident := "T0", aliasOf := some (tr (.seq (tr (.prim .bool)))), file := 0 }),
    ("N", { kind := .module, key := "N", modScope := "N", ident := "N", file := 0 }),
    ("M::S::a", { kind := .field, key := "M::S::a", modScope := "M", ident := "a", file := 1 }),
    ("M::S", { kind := .struct, key := "M::S", modScope := "M", ident := "S", file := 1 }),
    ("M", { kind := .module, key := "M", modScope := "M", ident := "M", file := 1 })] := by
  simp [exTab2, buildTable, exFileA, exFileB, fileEntries, defEntries, fieldEntries, scopedId, SFile.modPath, List.zipIdx]

theorem ex2_find : findNodeWithScope exTab2 "N::T0" "M" = exTab2.find "N::T0" := by
  rw [exTab2_eq]
  simp [findNodeWithScope, show stripGlobal "N::T0" = none by decide,
      show splitSegs "M" = ["M"] by decide, scopeLoop, Table.find, joinSegs, primTable, Prim.all, Prim.kw]

theorem ex2_numAliases : numAliases exTab2 = 1 := by
  rw [exTab2_eq]; simp [numAliases, aliasKeys, primTable, Prim.all, NodeInfo.isAlias]

theorem ex2_res : resolveNamed exTab2 .type "N::T0" "M" = .ok (.expr (.seq (tr (.prim .bool))) "N", []) := by
  rw [resolveNamed, ex2_find, exTab2_eq]
  simp [Table.find, primTable, Prim.all, Prim.kw, NodeInfo.isAlias, walkAlias, tr, TRef.ty, TRef.attrs, acceptableExpr,
    Gen.typeNodeVariants, TyExpr.variant]

/-- the alias chain of `N::T0` ends in file 0 -/
theorem ex2_exprFile : exprFile exTab2 "N::T0" "M" = 0 := by
  rw [exprFile, ex2_find, exTab2_eq]
  simp [Table.find, primTable, Prim.all, Prim.kw, walkAliasFile, tr, TRef.ty]

end Slicec.Visit
