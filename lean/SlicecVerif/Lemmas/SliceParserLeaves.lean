/-
  Syntactic criteria for the leaf conditions of `parse_print` (C02, parser half): when an integer literal, an attribute
  directive, a scoped name reads back as itself.
-/
import SlicecVerif.Lemmas.SliceParserItems
import SlicecVerif.Lemmas.SliceLexerNames

namespace Slicec.SPar

open Slicec Slicec.SLex

/-! ## integer literals -/

theorem digitChar_facts : ∀ d, d < 16 → digitVal (digitChar d) = some d ∧ digitChar d ≠ '_' := by decide

theorem digitChar_dec : ∀ d, d < 10 → digitChar d ≠ 'b' ∧ digitChar d ≠ 'x' := by decide

theorem fromDigits_append (b : Nat) (xs ys : List Char) (acc : Nat) :
    fromDigits b (xs ++ ys) acc = (fromDigits b xs acc).bind (fun a => fromDigits b ys a) := by
  induction xs generalizing acc with
  | nil => rfl
  | cons c cs ih =>
    simp only [List.cons_append, fromDigits]
    cases digitVal c with
    | none => rfl
    | some d =>
      simp only []
      split
      · exact ih _
      · rfl

/-- the digits the printer writes are the value: `from_str_radix` reads them back -/
theorem fromDigits_natDigits (b : Nat) (hb2 : 2 ≤ b) (hb : b ≤ 16) : ∀ fuel n, n < b ^ fuel →
    fromDigits b (natDigits b fuel n) 0 = some n := by
  intro fuel
  induction fuel with
  | zero =>
    intro n hn
    simp only [Nat.pow_zero, Nat.lt_one_iff] at hn
    subst hn
    rfl
  | succ fuel ih =>
    intro n hn
    simp only [natDigits]
    split
    · rename_i hlt
      simp [fromDigits, (digitChar_facts n (by omega)).1, hlt]
    · rename_i hge
      have hdiv : n / b < b ^ fuel := by
        rw [Nat.pow_succ] at hn
        exact Nat.div_lt_of_lt_mul (by rw [Nat.mul_comm]; exact hn)
      have hmod : n % b < b := Nat.mod_lt _ (by omega)
      rw [fromDigits_append, ih _ hdiv]
      simp only [Option.bind_some, fromDigits, (digitChar_facts (n % b) (by omega)).1, hmod, if_true]
      congr 1
      rw [Nat.mul_comm]
      exact Nat.div_add_mod n b

theorem natDigits_no_us (b fuel n : Nat) (hb0 : 0 < b) (hb : b ≤ 16) : ∀ c ∈ natDigits b fuel n, c ≠ '_' := by
  intro c hc
  obtain ⟨d, hd, rfl⟩ := natDigits_mem b fuel n hb0 c hc
  exact (digitChar_facts d (by omega)).2

theorem filter_no_us (l : List Char) (h : ∀ c ∈ l, c ≠ '_') : l.filter (· ≠ '_') = l := by
  rw [List.filter_eq_self]
  intro c hc
  simpa using h c hc

theorem withUnderscores_filter (l : List Char) (h : ∀ c ∈ l, c ≠ '_') : (withUnderscores l).filter (· ≠ '_') = l := by
  fun_induction withUnderscores l with
  | case1 a b c rest ih =>
    have ha := h a (by simp)
    have hb := h b (by simp)
    have hc := h c (by simp)
    have := ih (fun x hx => h x (by simp [hx]))
    simp only [decide_not] at this
    simp [withUnderscores, List.filter_cons, ha, hb, hc, this]
  | case2 l _ => exact filter_no_us l h

theorem contains_us_false (l : List Char) (h : ∀ c ∈ l, c ≠ '_') : l.contains '_' = false := by
  cases hq : l.contains '_' with
  | false => rfl
  | true => exact absurd rfl (h '_' (by simpa using hq))

theorem withUnderscores_contains (l : List Char) (h : 3 ≤ l.length) : (withUnderscores l).contains '_' = true := by
  match l, h with
  | a :: b :: c :: rest, _ => simp [withUnderscores]

/-- an integer literal in canonical form: base 2, 10 or 16; the value needs no more than the 200 digits the printer writes;
    `underscores` is set only where the printer writes one (three digits or more) -/
def intCanon (l : IntLit) : Bool :=
  intLitOk l && decide (l.mag < l.base ^ 200) && (!l.underscores || decide (3 ≤ (natDigits l.base 200 l.mag).length))

/-- the digits as written, and what remains after removing the underscores -/
theorem digits_written (b mag : Nat) (us : Bool) (hb2 : 2 ≤ b) (hb : b ≤ 16) (hus : us = true → 3 ≤ (natDigits b 200 mag).length) :
    let ds := if us then withUnderscores (natDigits b 200 mag) else natDigits b 200 mag
    ds.filter (· ≠ '_') = natDigits b 200 mag ∧ ds.contains '_' = us := by
  have hno := natDigits_no_us b 200 mag (by omega) hb
  cases us with
  | false => exact ⟨filter_no_us _ hno, contains_us_false _ hno⟩
  | true => exact ⟨withUnderscores_filter _ hno, withUnderscores_contains _ (hus rfl)⟩

theorem dec_head (mag : Nat) : ∀ c ∈ natDigits 10 200 mag, c ≠ 'b' ∧ c ≠ 'x' := by
  intro c hc
  obtain ⟨d, hd, rfl⟩ := natDigits_mem 10 200 mag (by decide) c hc
  exact digitChar_dec d hd

/-- `try_parse_integer` after the underscores are removed: the base … -/
def baseOf : List Char → Nat
  | '0' :: 'b' :: _ => 2
  | '0' :: 'x' :: _ => 16
  | _ => 10

/-- … and the value -/
def magOf : List Char → Option Nat
  | '0' :: 'b' :: rest => if rest.isEmpty then none else fromDigits 2 rest 0
  | '0' :: 'x' :: rest => if rest.isEmpty then none else fromDigits 16 rest 0
  | [] => none
  | ds => fromDigits 10 ds 0

theorem intOfText_eq (s : List Char) :
    intOfText s = ⟨false, baseOf (s.filter (· ≠ '_')), (magOf (s.filter (· ≠ '_'))).getD 0, s.contains '_'⟩ := rfl

/-- a decimal digit string is read in base 10 -/
theorem dec_arm (ds : List Char) (hne : ds ≠ []) (h : ∀ c ∈ ds, c ≠ 'b' ∧ c ≠ 'x') :
    baseOf ds = 10 ∧ magOf ds = fromDigits 10 ds 0 := by
  cases ds with
  | nil => exact absurd rfl hne
  | cons c1 r =>
    cases r with
    | nil =>
      constructor
      · unfold baseOf; split <;> simp_all
      · unfold magOf; split <;> simp_all
    | cons c2 r2 =>
      have h2 := h c2 (by simp)
      constructor
      · unfold baseOf; split <;> simp_all
      · unfold magOf; split <;> simp_all

theorem filter_prefix2 (c1 c2 : Char) (h1 : c1 ≠ '_') (h2 : c2 ≠ '_') (ds : List Char) :
    (c1 :: c2 :: ds).filter (· ≠ '_') = c1 :: c2 :: ds.filter (· ≠ '_') := by
  simp [List.filter_cons, h1, h2]

theorem contains_prefix2 (c1 c2 : Char) (h1 : c1 ≠ '_') (h2 : c2 ≠ '_') (ds : List Char) :
    (c1 :: c2 :: ds).contains '_' = ds.contains '_' := by
  have e1 : ¬ '_' = c1 := fun e => h1 e.symm
  have e2 : ¬ '_' = c2 := fun e => h2 e.symm
  simp [List.contains_cons, e1, e2]

/-- the text of a literal: base prefix, then the digits (with or without underscores) -/
def digitsOf (l : IntLit) : List Char :=
  if l.underscores then withUnderscores (natDigits l.base 200 l.mag) else natDigits l.base 200 l.mag

theorem magText_toList (l : IntLit) (h : intLitOk l = true) :
    l.magText.toList = (if l.base = 16 then ['0', 'x'] else if l.base = 2 then ['0', 'b'] else []) ++ digitsOf l := by
  simp only [intLitOk, Bool.or_eq_true, beq_iff_eq] at h
  have e0 : ("0x" : String).toList = ['0', 'x'] := by decide
  have e1 : ("0b" : String).toList = ['0', 'b'] := by decide
  have e2 : ("" : String).toList = [] := by decide
  have hb : ¬ l.base < 2 := by rcases h with (h | h) | h <;> omega
  simp only [IntLit.magText, digitsOf, hb, if_false, String.toList_append, String.toList_ofList, beq_iff_eq]
  rcases h with (h | h) | h <;> simp [h, e0, e1, e2]

theorem nonempty_isEmpty (l : List Char) (h : l ≠ []) : l.isEmpty = false := by
  cases l with
  | nil => exact absurd rfl h
  | cons _ _ => rfl

theorem intRT_of_canon (l : IntLit) (h : intCanon l = true) : intRT l = true := by
  have h' := h
  simp only [intCanon, Bool.and_eq_true, Bool.or_eq_true, Bool.not_eq_true', decide_eq_true_eq] at h'
  obtain ⟨⟨hok, hmag⟩, hus⟩ := h'
  have hus' : l.underscores = true → 3 ≤ (natDigits l.base 200 l.mag).length := by
    intro e
    rcases hus with h0 | h0
    · rw [e] at h0; cases h0
    · exact h0
  have hok' := hok
  simp only [intLitOk, Bool.or_eq_true, beq_iff_eq] at hok'
  have hb2 : 2 ≤ l.base := by rcases hok' with (h | h) | h <;> omega
  have hb16 : l.base ≤ 16 := by rcases hok' with (h | h) | h <;> omega
  obtain ⟨hf, hc⟩ := digits_written l.base l.mag l.underscores hb2 hb16 hus'
  have hne : natDigits l.base 200 l.mag ≠ [] := natDigits_ne_nil l.base 199 l.mag
  have hval := fromDigits_natDigits l.base hb2 hb16 200 l.mag hmag
  simp only [intRT, beq_iff_eq]
  rw [intOfText_eq, magText_toList l hok]
  obtain ⟨neg, base, mag, us⟩ := l
  simp only [digitsOf] at hf hc hne hval ⊢
  rcases hok' with (hb | hb) | hb <;> simp only at hb <;> subst hb
  · simp only [show ¬ ((2 : Nat) = 16) by decide, if_false, if_true, List.cons_append, List.nil_append,
      filter_prefix2 '0' 'b' (by decide) (by decide), contains_prefix2 '0' 'b' (by decide) (by decide), hf, hc,
      baseOf, magOf, nonempty_isEmpty _ hne, Bool.false_eq_true, hval, Option.getD_some]
  · obtain ⟨d1, d2⟩ := dec_arm (natDigits 10 200 mag) hne (dec_head mag)
    simp only [show ¬ ((10 : Nat) = 16) by decide, show ¬ ((10 : Nat) = 2) by decide, if_false, List.nil_append, hf, hc, d1, d2,
      hval, Option.getD_some]
  · simp only [if_true, List.cons_append, List.nil_append,
      filter_prefix2 '0' 'x' (by decide) (by decide), contains_prefix2 '0' 'x' (by decide) (by decide), hf, hc,
      baseOf, magOf, nonempty_isEmpty _ hne, Bool.false_eq_true, if_false, hval, Option.getD_some]

/-! ## directives and scoped names -/

/-- identifiers separated by `::` -/
def joinedToks : List (List Char) → Toks
  | [] => []
  | [v] => [.ident v]
  | v :: v' :: r => .ident v :: .dcolon :: joinedToks (v' :: r)

theorem toksOf_cons_tok (t : SliceTok) (r : List LexItem) : toksOf (.tok t :: r) = t :: toksOf r := rfl

/-- the exact tokens of spellings joined by `::`, each of which reads as one identifier -/
theorem lexRun_joined_exact (a : Bool) (l : List (List Char × List Char)) (hne : l ≠ [])
    (h : ∀ p ∈ l, lexRun a p.1 = ⟨[.tok (.ident p.2)], a, .word⟩ ∧ p.1 ≠ []) :
    toksOf (lexRun a ([':', ':'].intercalate (l.map (·.1)))).items = joinedToks (l.map (·.2)) ∧
    [':', ':'].intercalate (l.map (·.1)) ≠ [] := by
  induction l with
  | nil => exact absurd rfl hne
  | cons p rest ih =>
    obtain ⟨hrun, hwne⟩ := h p (by simp)
    cases rest with
    | nil =>
      simp only [List.map_cons, List.map_nil, List.intercalate_singleton, hrun, joinedToks]
      exact ⟨rfl, hwne⟩
    | cons p' rest' =>
      obtain ⟨i1, i4⟩ := ih (by simp) (fun x hx => h x (by simp [hx]))
      simp only [List.map_cons] at i1 i4 ⊢
      rw [List.intercalate_cons_cons]
      generalize [':', ':'].intercalate (p'.1 :: rest'.map (·.1)) = T at i1 i4
      have hcomp : compat (lexRun a p.1).last ([':', ':'] ++ T) = true := by rw [hrun]; simp [compat]; decide
      have happ := lexRun_append a p.1 ([':', ':'] ++ T) hcomp
      rw [hrun] at happ
      simp only [List.cons_append, List.nil_append] at happ
      rw [List.append_assoc, List.cons_append, List.cons_append, List.nil_append, happ, lexRun_dcolon]
      simp only [List.cons_append, List.nil_append, toksOf_cons_tok, joinedToks, i1]
      exact ⟨trivial, by simp⟩

theorem joinedToks_cons (v : List Char) (vs : List (List Char)) :
    joinedToks (v :: vs) = .ident v :: vs.flatMap (fun w => [.dcolon, .ident w]) := by
  induction vs generalizing v with
  | nil => rfl
  | cons w ws ih => simp only [joinedToks, ih w, List.flatMap_cons, List.cons_append, List.nil_append]

theorem parseScopedTail_joined (vs : List (List Char)) :
    parseScopedTail (vs.flatMap (fun w => [SliceTok.dcolon, .ident w])) = some (vs, []) := by
  induction vs with
  | nil => rfl
  | cons w ws ih => simp only [List.flatMap_cons, List.cons_append, List.nil_append, parseScopedTail, ih]

theorem relOf_joined (v : List Char) (vs : List (List Char)) : relOf (joinedToks (v :: vs)) = some (joinScoped (v :: vs)) := by
  simp only [relOf, joinedToks_cons, parseRelIdent, parseScopedTail_joined]

theorem scopedOf_global (v : List Char) (vs : List (List Char)) :
    scopedOf (.dcolon :: joinedToks (v :: vs)) = some (joinScoped ([] :: v :: vs)) := by
  simp only [scopedOf, joinedToks_cons, parseGlobalIdent, parseScopedTail_joined]

theorem joinScoped_toList (segs : List String) : joinScoped (segs.map String.toList) = "::".intercalate segs := by
  simp [joinScoped, List.map_map, Function.comp_def, String.ofList_toList]

/-- **Directives read back.** Any identifiers joined by `::` (keyword spellings included: the keyword table is off inside
    `[ ]`) form a directive that satisfies `dirRT`. -/
theorem dirRT_of_segments (segs : List String) (hne : segs ≠ []) (h : ∀ s ∈ segs, isIdentText s.toList = true) :
    dirRT ("::".intercalate segs) = true := by
  have e : ("::" : String).toList = [':', ':'] := by decide
  have hex := lexRun_joined_exact true (segs.map fun s => (s.toList, s.toList)) (by simpa using hne) (by
    intro p hp
    obtain ⟨s, hs, rfl⟩ := List.mem_map.mp hp
    refine ⟨by rw [lexRun_word true _ (h s hs)]; rfl, ?_⟩
    intro e0
    have := h s hs
    simp only at e0
    rw [e0] at this
    simp [isIdentText] at this)
  simp only [List.map_map, Function.comp_def] at hex
  cases segs with
  | nil => exact absurd rfl hne
  | cons s rest =>
    simp only [dirRT, dirToks, beq_iff_eq, String.toList_intercalate, e]
    rw [hex.1, List.map_cons, relOf_joined, ← List.map_cons, joinScoped_toList]

/-- the spelling of one segment as the printer writes it (a keyword is escaped) reads as that identifier -/
theorem esc_seg_run (seg : String) (h : isIdentText seg.toList = true) :
    lexRun false (if keywords.contains seg then "\\" ++ seg else seg).toList = ⟨[.tok (.ident seg.toList)], false, .word⟩ ∧
    (if keywords.contains seg then "\\" ++ seg else seg).toList ≠ [] := by
  cases hk : keywords.contains seg with
  | true =>
    have e : ("\\" : String).toList = ['\\'] := by decide
    simp only [if_true, String.toList_append, e, List.cons_append, List.nil_append]
    exact ⟨lexRun_escaped false _ h, by simp⟩
  | false =>
    simp only [Bool.false_eq_true, if_false]
    refine ⟨?_, ?_⟩
    · rw [lexRun_word false _ h]
      simp [checkKeyword_of_not_keyword seg hk]
    · intro e0; rw [e0] at h; simp [isIdentText] at h

/-- **Scoped names read back**, up to one fact about `String.splitOn` that core does not prove: if the `::`-separated
    segments of `id` (as the printer splits them) are identifiers — the first may be empty: global scope — and joining
    them with `::` gives `id` back, then `id` satisfies `nameRT`; with no empty segment also `pathRT`. -/
theorem nameRT_of_segments (id : String) (h : nameSegsOk (id.splitOn "::") = true)
    (hjoin : "::".intercalate (id.splitOn "::") = id) :
    nameRT id = true ∧ ((id.splitOn "::").all (fun s => isIdentText s.toList) = true → pathRT id = true) := by
  have e : ("::" : String).toList = [':', ':'] := by decide
  have htoks : nameToks id = toksOf (lexRun false ([':', ':'].intercalate
      ((id.splitOn "::").map fun seg => (if keywords.contains seg then "\\" ++ seg else seg).toList))).items := by
    simp only [nameToks, escapeScoped, String.toList_intercalate, e, List.map_map, Function.comp_def]
  generalize id.splitOn "::" = segs at h hjoin htoks
  have hrel : ∀ (ss : List String), ss ≠ [] → (∀ s ∈ ss, isIdentText s.toList = true) →
      toksOf (lexRun false ([':', ':'].intercalate
        (ss.map fun seg => (if keywords.contains seg then "\\" ++ seg else seg).toList))).items = joinedToks (ss.map String.toList) ∧
      [':', ':'].intercalate (ss.map fun seg => (if keywords.contains seg then "\\" ++ seg else seg).toList) ≠ [] := by
    intro ss hne hall
    have := lexRun_joined_exact false (ss.map fun s => ((if keywords.contains s then "\\" ++ s else s).toList, s.toList))
      (by simpa using hne) (by
        intro p hp
        obtain ⟨s, hs, rfl⟩ := List.mem_map.mp hp
        exact esc_seg_run s (hall s hs))
    simpa [List.map_map, Function.comp_def] using this
  cases segs with
  | nil => simp [nameSegsOk] at h
  | cons s rest =>
    cases rest with
    | nil =>
      simp only [nameSegsOk, nameSegsOk.identOk'] at h
      have hr := (hrel [s] (by simp) (by intro x hx; simp at hx; subst hx; exact h)).1
      rw [← htoks] at hr
      have hrelof : relOf (nameToks id) = some id := by
        rw [hr, List.map_cons, List.map_nil, relOf_joined, ← List.map_nil (f := String.toList), ← List.map_cons, joinScoped_toList, hjoin]
      refine ⟨?_, fun _ => by simp [pathRT, hrelof]⟩
      simp only [nameRT, beq_iff_eq, scopedOf]
      rw [hr] at hrelof ⊢
      simp only [List.map_cons, List.map_nil, joinedToks] at hrelof ⊢
      exact hrelof
    | cons s' rest' =>
      simp only [nameSegsOk, nameSegsOk.identOk', Bool.and_eq_true, Bool.or_eq_true, List.all_eq_true] at h
      rcases h.1 with hs | hs
      · -- global scope: the first segment is empty
        have hs' : s.toList = [] := by simpa using hs
        have hsE : s = "" := by rw [← String.ofList_toList (s := s), hs']
        subst hsE
        have hr := hrel (s' :: rest') (by simp) (fun x hx => h.2 x hx)
        have e0 : (if keywords.contains "" then "\\" ++ "" else "").toList = ([] : List Char) := by decide
        have htoks' : nameToks id = .dcolon :: joinedToks ((s' :: rest').map String.toList) := by
          rw [htoks, List.map_cons, e0]
          have hr1 := hr.1
          simp only [List.map_cons] at hr1 ⊢
          rw [List.intercalate_cons_cons]
          generalize [':', ':'].intercalate ((if keywords.contains s' then "\\" ++ s' else s').toList ::
            rest'.map fun seg => (if keywords.contains seg then "\\" ++ seg else seg).toList) = T at hr1
          simp only [List.nil_append, List.cons_append]
          rw [lexRun_dcolon, toksOf_cons_tok, hr1]
        refine ⟨?_, ?_⟩
        · simp only [nameRT, beq_iff_eq]
          rw [htoks', List.map_cons, scopedOf_global]
          have : joinScoped ([] :: s'.toList :: rest'.map String.toList) = joinScoped (("" :: s' :: rest').map String.toList) := by
            simp only [List.map_cons]; rfl
          rw [this, joinScoped_toList, hjoin]
        · intro hall
          simp only [List.all_cons, Bool.and_eq_true] at hall
          have := hall.1
          simp [isIdentText] at this
      · have hall : ∀ x ∈ s :: s' :: rest', isIdentText x.toList = true := by
          intro x hx
          rw [List.mem_cons] at hx
          rcases hx with rfl | hx
          · exact hs
          · exact h.2 x hx
        have hr := (hrel (s :: s' :: rest') (by simp) hall).1
        rw [← htoks] at hr
        have hrelof : relOf (nameToks id) = some id := by
          rw [hr, List.map_cons, relOf_joined, ← List.map_cons, joinScoped_toList, hjoin]
        refine ⟨?_, fun _ => by simp [pathRT, hrelof]⟩
        simp only [nameRT, beq_iff_eq, scopedOf]
        rw [hr] at hrelof ⊢
        simp only [List.map_cons, joinedToks] at hrelof ⊢
        exact hrelof


end Slicec.SPar
