/-
  Lemmas for C20, order: the document order on paths as a decidable (Boolean) strict total order `pathLt`, and the
  fact that a strictly increasing list is determined by its members.
-/
import SlicecVerif.Lemmas.Visit

namespace Slicec.Visit

open Slicec

/-- declaration order of two sibling steps, computed: first by class (`file < mod < d· < f· < o· < p· < r· < e· < t < .e <
    .k < .v < .s < .f`), then by index -/
def segLt (a b : Seg) : Bool := a.cls < b.cls || (a.cls == b.cls && a.idx < b.idx)

/-- document order of two paths, computed: at the first step where they differ the sibling order decides; a proper prefix
    (the container) comes first -/
def pathLt : Path → Path → Bool
  | [], [] => false
  | [], _ :: _ => true
  | _ :: _, [] => false
  | a :: p, b :: q => segLt a b || (a == b && pathLt p q)

theorem segLt_iff (a b : Seg) : segLt a b = true ↔ Seg.lt a b := by
  simp [segLt, Seg.lt]

theorem pathLt_iff : ∀ (a b : Path), pathLt a b = true ↔ Path.lt a b
  | [], [] => by simp [pathLt]
  | [], _ :: _ => by simp [pathLt]
  | _ :: _, [] => by simp [pathLt]
  | a :: p, b :: q => by
    simp only [pathLt, Bool.or_eq_true, Bool.and_eq_true, beq_iff_eq, segLt_iff, pathLt_iff p q]
    constructor
    · rintro (h | ⟨rfl, h⟩)
      · exact List.Lex.rel h
      · exact List.Lex.cons h
    · intro h
      cases h with
      | rel h => exact Or.inl h
      | cons h => exact Or.inr ⟨rfl, h⟩

theorem Seg.lt_trans {a b c : Seg} : Seg.lt a b → Seg.lt b c → Seg.lt a c := by
  unfold Seg.lt; omega

/-- two different steps are ordered one way or the other -/
theorem Seg.lt_total (a b : Seg) : Seg.lt a b ∨ a = b ∨ Seg.lt b a := by
  cases a <;> cases b <;> simp [Seg.lt, Seg.cls, Seg.idx] <;> omega

theorem lex_trans : ∀ {a b c : Path}, Path.lt a b → Path.lt b c → Path.lt a c
  | [], _, c, h, h' => by
    cases h; cases h' <;> exact List.Lex.nil
  | x :: xs, _, _, h, h' => by
    cases h with
    | rel h =>
      cases h' with
      | rel h' => exact List.Lex.rel (Seg.lt_trans h h')
      | cons h' => exact List.Lex.rel h
    | cons h =>
      cases h' with
      | rel h' => exact List.Lex.rel h'
      | cons h' => exact List.Lex.cons (lex_trans h h')

theorem lex_total : ∀ (a b : Path), Path.lt a b ∨ a = b ∨ Path.lt b a
  | [], [] => Or.inr (Or.inl rfl)
  | [], _ :: _ => Or.inl List.Lex.nil
  | _ :: _, [] => Or.inr (Or.inr List.Lex.nil)
  | x :: xs, y :: ys => by
    rcases Seg.lt_total x y with h | rfl | h
    · exact Or.inl (List.Lex.rel h)
    · rcases lex_total xs ys with h | rfl | h
      · exact Or.inl (List.Lex.cons h)
      · exact Or.inr (Or.inl rfl)
      · exact Or.inr (Or.inr (List.Lex.cons h))
    · exact Or.inr (Or.inr (List.Lex.rel h))

/-- a strictly increasing list is determined by its members -/
theorem sorted_ext : ∀ (L M : List Path), L.Pairwise Path.lt → M.Pairwise Path.lt → (∀ p, p ∈ L ↔ p ∈ M) → L = M
  | [], [], _, _, _ => rfl
  | [], b :: M, _, _, h => by have := (h b).mpr List.mem_cons_self; cases this
  | a :: L, [], _, _, h => by have := (h a).mp List.mem_cons_self; cases this
  | a :: L, b :: M, hL, hM, h => by
    rw [List.pairwise_cons] at hL hM
    have hab : a = b := by
      rcases List.mem_cons.mp ((h a).mp List.mem_cons_self) with e | ha
      · exact e
      · rcases List.mem_cons.mp ((h b).mpr List.mem_cons_self) with e | hb
        · exact e.symm
        · exact absurd (hL.1 b hb) (fun h' => lex_asymm h' (hM.1 a ha))
    subst hab
    congr 1
    refine sorted_ext L M hL.2 hM.2 (fun p => ?_)
    constructor
    · intro hp
      rcases List.mem_cons.mp ((h p).mp (List.mem_cons_of_mem _ hp)) with e | hp'
      · subst e; exact absurd (hL.1 p hp) (lex_irrefl _)
      · exact hp'
    · intro hp
      rcases List.mem_cons.mp ((h p).mpr (List.mem_cons_of_mem _ hp)) with e | hp'
      · subst e; exact absurd (hM.1 p hp) (lex_irrefl _)
      · exact hp'

end Slicec.Visit
