/-
  C08 — the bridge from "the program is accepted by the compiler model" (`validate P = []`, Model/Validate.lean: parse-time
  checks, attribute patching, C03's resolution codes, the cycle gate, the redefinition scan, the validating visitor) to the
  guard `AllResolve` of `named_ids_exist` / `resolved_links_exist` / `content_faithful_decoded` (Lemmas/RequestContent.lean).

  part 1  what `validate P = []` gives: the parse-time rules (`moduleRequired`), `resolveCodes P = []`;
  part 2  an error-free resolution site resolves (`.ok`), never out of fuel;
  part 3  every named reference written in a definition — at any depth, in alias targets too — is such a site;
  part 4  a written type expression returned by `resolveNamed` (`.expr e s`) is the target of an alias definition of a
          file of the program whose module scope is `s`: its nested sites are error-free too;
  part 5  the descent bound: `trefWithin` (the fuel of `convTRef` is not exhausted on the flattened type) — an explicit
          decidable hypothesis, because `elabFuel` is a constant of the model that accepted programs can exceed;
  part 6  `AllResolve` from the three hypotheses;
  part 7  the descent bound from C05's alias gate (`Cyc.aliasGateErrors`, Model/Cycles.lean — NOT a phase of `validate`):
          the converter's descent follows a path of the graph of anonymous types `Cyc.anonGraph`; when the gate is silent
          that graph has no cycle below an alias start, so the descent needs at most `2 d + 2 n + 5` units
          (`d` = written nesting of the reference, `n` = anonymous types written in alias definitions): finite and linear
          in the program size for every accepted program — what is left of the hypothesis is the constant `elabFuel` alone.
-/
import SlicecVerif.Lemmas.RequestContent
import SlicecVerif.Lemmas.Validate
import SlicecVerif.Lemmas.Cycles

namespace Slicec

/-! ## part 1: what acceptance gives -/

theorem validate_nil_phases (P : Program) (h : validate P = []) : ∀ l ∈ Validate.phases P, l = [] :=
  (Validate.firstNonEmpty_nil_iff _).mp h

theorem validate_nil_parse (P : Program) (h : validate P = []) : Validate.parseCodes P = [] :=
  validate_nil_phases P h _ (by simp [Validate.phases])

theorem validate_nil_resolve (P : Program) (h : validate P = []) : Validate.resolveCodes P = [] := by
  have := validate_nil_phases P h (Validate.resolveRule.codes P) (by simp [Validate.phases])
  simpa [Validate.Rule.codes, Validate.resolveRule] using this

theorem validate_nil_names (P : Program) (h : validate P = []) : Validate.namesRule.codes P = [] :=
  validate_nil_phases P h _ (by simp [Validate.phases])

/-- (c) "module declaration is required": in an accepted program a file without module declaration has no definitions -/
theorem accepted_moduleRequired (P : Program) (h : validate P = []) (f : SFile) (hf : f ∈ P)
    (hm : f.module = none) : f.defs = [] := by
  have hp := List.flatMap_eq_nil_iff.mp (validate_nil_parse P h) f hf
  unfold Validate.fileParseCodes at hp
  simp only at hp
  by_cases he : (Validate.fileActionCodes f).isEmpty = true
  · rw [if_pos he] at hp
    unfold Validate.moduleCheck at hp
    cases hd : f.defs with
    | nil => rfl
    | cons d ds => rw [hd, hm] at hp; simp at hp
  · rw [if_neg he] at hp
    exact absurd (by simp [hp]) he

/-! ## part 2: an error-free site resolves -/

/-- with the fuel `resolveNamed` passes to the alias walk, resolution never fails for lack of fuel
    (same statement as `C03.resolve_never_out_of_fuel`, from `walkAlias_no_fuel`) -/
theorem resolveNamed_ne_fuel (t : Table) (w : Want) (id scope : String) :
    resolveNamed t w id scope ≠ .error .fuel := by
  unfold resolveNamed
  cases hf : findNodeWithScope t id scope with
  | none => simp
  | some n =>
    simp only
    by_cases hn : n.isAlias = true
    · simp only [hn, if_true]
      have := walkAlias_no_fuel t (numAliases t + 1) [] [] n (by simp) (by simp) (findNodeWithScope_mem t id scope n hf) (by simp)
      cases hw : walkAlias t (numAliases t + 1) [] [] n with
      | error e =>
        simp only
        intro h
        rw [hw] at this
        exact this h
      | ok v =>
        obtain ⟨tgt, out⟩ := v
        cases tgt with
        | node m => simp only; split <;> simp
        | expr e s => simp only; split <;> simp
    · rw [if_neg hn]
      split <;> simp

/-- a site for which the resolution phase of `validate` reports nothing resolves -/
theorem siteCodes_nil_ok (t : Table) (s : Validate.RefSite) (h : Validate.siteCodes t s = []) :
    ∃ v, resolveNamed t s.want s.id s.scope = .ok v := by
  unfold Validate.siteCodes at h
  cases hr : resolveNamed t s.want s.id s.scope with
  | ok v => exact ⟨v, rfl⟩
  | error e =>
    rw [hr] at h
    simp only at h
    cases e with
    | fuel => exact absurd hr (resolveNamed_ne_fuel t _ _ _)
    | aliasCycle b id => cases b <;> simp [Validate.resErrCodes] at h
    | _ => simp [Validate.resErrCodes] at h

/-- bases: no code means every named base resolved (the scan stops at the first failure) -/
theorem basesCodes_nil_ok (t : Table) : ∀ (ss : List Validate.RefSite), Validate.basesCodes t ss = [] →
    ∀ s ∈ ss, ∃ v, resolveNamed t s.want s.id s.scope = .ok v
  | [], _, s, hs => by cases hs
  | s0 :: rest, h, s, hs => by
    unfold Validate.basesCodes at h
    cases hc : Validate.siteCodes t s0 with
    | nil =>
      rw [hc] at h
      simp only at h
      rcases List.mem_cons.mp hs with rfl | hs
      · exact siteCodes_nil_ok t _ hc
      · exact basesCodes_nil_ok t rest h s hs
    | cons c cs => rw [hc] at h; simp at h

/-- every named reference of the list resolves, in a type position, from module scope `scope` -/
def RefsOK (t : Table) (scope : String) (rs : List TRef) : Prop :=
  ∀ r ∈ rs, ∀ id, r.ty = .named id → ∃ v, resolveNamed t .type id scope = .ok v

theorem RefsOK.sub {t : Table} {scope : String} {rs rs' : List TRef} (h : RefsOK t scope rs) (hs : ∀ r ∈ rs', r ∈ rs) :
    RefsOK t scope rs' := fun r hr => h r (hs r hr)

theorem namedSites_nil_ok (t : Table) (w : Want) (scope : String) (rs : List TRef)
    (h : (Validate.namedSites w scope rs).flatMap (Validate.siteCodes t) = []) :
    ∀ r ∈ rs, ∀ id, r.ty = .named id → ∃ v, resolveNamed t w id scope = .ok v := by
  intro r hr id hid
  have hm : (⟨w, id, scope⟩ : Validate.RefSite) ∈ Validate.namedSites w scope rs := by
    unfold Validate.namedSites
    exact List.mem_filterMap.mpr ⟨r, hr, by rw [hid]⟩
  exact siteCodes_nil_ok t _ (List.flatMap_eq_nil_iff.mp h _ hm)

/-! ## part 3: the sites of an accepted program -/

theorem fileScope_eq_modPath (f : SFile) : Validate.fileScope f = f.modPath := by
  unfold Validate.fileScope SFile.modPath; cases f.module <;> rfl

/-- in an accepted program every named reference written in a visited position of a definition — at any depth, the
    targets of aliases included — resolves in the module scope of its file -/
theorem accepted_refsOK (P : Program) (h : validate P = []) (f : SFile) (hf : f ∈ P) (d : Def) (hd : d ∈ f.defs) :
    RefsOK (buildTable P) f.modPath ((Validate.defVisitedTRefs d).flatMap Validate.subRefsT) := by
  have hr := validate_nil_resolve P h
  unfold Validate.resolveCodes at hr
  simp only at hr
  have hm : (Validate.fileScope f, d) ∈ Validate.allDefs P := by
    unfold Validate.allDefs
    exact List.mem_flatMap.mpr ⟨f, hf, List.mem_map.mpr ⟨d, hd, rfl⟩⟩
  have h1 := List.flatMap_eq_nil_iff.mp hr _ hm
  unfold Validate.defResolveCodes at h1
  have h2 := (List.append_eq_nil_iff.mp h1).1
  rw [fileScope_eq_modPath] at h2
  exact namedSites_nil_ok _ _ _ _ h2

/-- … and every base written as a name resolves in an interface position -/
theorem accepted_basesOK (P : Program) (h : validate P = []) (f : SFile) (hf : f ∈ P) (doc : List String) (attrs : List Attr)
    (name : String) (bases : List TRef) (ops : List Op) (hd : Def.iface doc attrs name bases ops ∈ f.defs) :
    ∀ b ∈ bases, ∀ id, b.ty = .named id → ∃ v, resolveNamed (buildTable P) .interface id f.modPath = .ok v := by
  have hr := validate_nil_resolve P h
  unfold Validate.resolveCodes at hr
  simp only at hr
  have hm : (Validate.fileScope f, Def.iface doc attrs name bases ops) ∈ Validate.allDefs P := by
    unfold Validate.allDefs
    exact List.mem_flatMap.mpr ⟨f, hf, List.mem_map.mpr ⟨_, hd, rfl⟩⟩
  have h1 := List.flatMap_eq_nil_iff.mp hr _ hm
  unfold Validate.defResolveCodes at h1
  have h2 := (List.append_eq_nil_iff.mp h1).2
  simp only at h2
  rw [fileScope_eq_modPath] at h2
  intro b hb id hid
  have hm : (⟨.interface, id, f.modPath⟩ : Validate.RefSite) ∈ Validate.namedSites .interface f.modPath bases := by
    unfold Validate.namedSites
    exact List.mem_filterMap.mpr ⟨b, hb, by rw [hid]⟩
  exact basesCodes_nil_ok _ _ h2 _ hm

/-! ## part 4: from a written alias target back to the alias definition -/

/-- an entry of the name table that carries an underlying type is the entry of an alias definition of a file of the
    program, stored with that file's module scope -/
theorem buildTable_alias_origin (p : Program) (e : String × NodeInfo) (u : TRef) (he : e ∈ buildTable p)
    (ha : e.2.aliasOf = some u) :
    ∃ f ∈ p, ∃ doc attrs name, Def.alias doc attrs name u ∈ f.defs ∧ e.2.modScope = f.modPath := by
  simp only [buildTable, List.mem_append, List.mem_flatMap] at he
  rcases he with he | ⟨⟨f, i⟩, hfi, he⟩
  · simp only [primTable, List.mem_map] at he
    obtain ⟨pr, _, rfl⟩ := he
    cases ha
  · have hf : f ∈ p := List.fst_mem_of_mem_zipIdx hfi
    simp only [fileEntries, List.mem_append, List.mem_flatMap] at he
    rcases he with ⟨d, hd, he⟩ | he
    · cases d with
      | struct doc attrs compact name fields =>
        simp only [defEntries, List.mem_append, List.mem_singleton, fieldEntries, List.mem_map] at he
        rcases he with ⟨x, _, rfl⟩ | rfl <;> cases ha
      | iface doc attrs name bases ops =>
        simp only [defEntries, List.mem_append, List.mem_singleton, List.mem_flatMap, opEntries, paramEntries, List.mem_map] at he
        rcases he with ⟨o, _, (⟨x, _, rfl⟩ | ⟨x, _, rfl⟩) | rfl⟩ | rfl <;> cases ha
      | «enum» doc attrs compact unchecked name underlying es =>
        simp only [defEntries, List.mem_append, List.mem_singleton, List.mem_flatMap, enumeratorEntries, fieldEntries, List.mem_map] at he
        rcases he with ⟨x, _, ⟨y, _, rfl⟩ | rfl⟩ | rfl <;> cases ha
      | custom doc attrs name =>
        simp only [defEntries, List.mem_singleton] at he
        subst he; cases ha
      | alias doc attrs name ty =>
        simp only [defEntries, List.mem_singleton] at he
        subst he
        simp only [Option.some.injEq] at ha
        subst ha
        exact ⟨f, hf, doc, attrs, name, hd, rfl⟩
    · cases hm : f.module with
      | none => rw [hm] at he; simp at he
      | some m =>
        rw [hm] at he
        simp only [List.mem_singleton] at he
        subst he; cases ha

/-- the written expression an alias chain ends in is the underlying type of a stored alias, written in its module scope -/
theorem AliasPath.expr_origin {t : Table} {cur : NodeInfo} {links : List TRef} {tgt : Target}
    (h : AliasPath t cur links tgt) : (∃ k, (k, cur) ∈ t) → ∀ e s, tgt = .expr e s →
    ∃ (last : NodeInfo) (u : TRef), (∃ k, (k, last) ∈ t) ∧ last.aliasOf = some u ∧ u.ty = e ∧ last.modScope = s := by
  induction h with
  | endNode _ _ _ _ => intro _ e s ht; cases ht
  | @endExpr cur u hu _ =>
    intro hc e s ht
    cases ht
    exact ⟨cur, u, hc, hu, rfl, rfl⟩
  | step _ _ hf _ _ ih =>
    intro _ e s ht
    exact ih (findNodeWithScope_mem _ _ _ _ hf) e s ht

/-- **(a), the way back**: when a name resolves, through aliases, to a written type expression `e` (with module scope
    `s`), then `e` is the target of an alias definition of a file of the program whose module scope is `s` -/
theorem resolveNamed_expr_origin (p : Program) (w : Want) (id scope : String) (e : TyExpr) (s : String) (extra : List Attr)
    (h : resolveNamed (buildTable p) w id scope = .ok (.expr e s, extra)) :
    ∃ f ∈ p, ∃ doc attrs name a o, Def.alias doc attrs name (.mk a e o) ∈ f.defs ∧ s = f.modPath := by
  unfold resolveNamed at h
  cases hf : findNodeWithScope (buildTable p) id scope with
  | none => rw [hf] at h; cases h
  | some n0 =>
    rw [hf] at h
    simp only at h
    by_cases ha : n0.isAlias = true
    · simp only [ha, if_true] at h
      cases hw : walkAlias (buildTable p) (numAliases (buildTable p) + 1) [] [] n0 with
      | error e => rw [hw] at h; cases h
      | ok res =>
        obtain ⟨tgt, attrs⟩ := res
        rw [hw] at h
        obtain ⟨links, hp, _⟩ := walkAlias_path _ _ _ _ _ _ _ hw ha
        cases tgt with
        | node m => simp only at h; split at h <;> cases h
        | expr e' s' =>
          simp only at h
          split at h
          · simp only [Except.ok.injEq, Prod.mk.injEq, Target.expr.injEq] at h
            obtain ⟨⟨rfl, rfl⟩, _⟩ := h
            obtain ⟨last, u, ⟨k, hk⟩, hu, hty, hs⟩ := hp.expr_origin (findNodeWithScope_mem _ _ _ _ hf) _ _ rfl
            obtain ⟨f, hfp, doc, attrs', name, hd, hms⟩ := buildTable_alias_origin p (k, last) u hk hu
            cases u with
            | mk a ty o =>
              simp only [TRef.ty] at hty
              subst hty
              exact ⟨f, hfp, doc, attrs', name, a, o, hd, by rw [← hs]; exact hms⟩
          · cases h
    · simp only [ha, Bool.false_eq_true, if_false] at h
      split at h <;> cases h

/-- a name in an interface position never resolves to a written type expression -/
theorem resolveNamed_interface_node (t : Table) (id scope : String) (v : Target × List Attr)
    (h : resolveNamed t .interface id scope = .ok v) : ∃ n extra, v = (.node n, extra) := by
  obtain ⟨tgt, extra⟩ := v
  cases tgt with
  | node n => exact ⟨n, extra, rfl⟩
  | expr e s =>
    exfalso
    unfold resolveNamed at h
    cases hf : findNodeWithScope t id scope with
    | none => rw [hf] at h; cases h
    | some n0 =>
      rw [hf] at h
      simp only at h
      by_cases ha : n0.isAlias = true
      · simp only [ha, if_true] at h
        cases hw : walkAlias t (numAliases t + 1) [] [] n0 with
        | error e => rw [hw] at h; cases h
        | ok res =>
          obtain ⟨tgt, attrs⟩ := res
          rw [hw] at h
          cases tgt with
          | node m => simp only at h; split at h <;> cases h
          | expr e' s' =>
            simp only at h
            have : acceptableExpr .interface e' = false := by cases e' <;> rfl
            rw [this] at h
            simp at h
      · simp only [ha, Bool.false_eq_true, if_false] at h
        split at h <;> cases h

/-! ## part 5: the descent bound

`convTRef` / `convTy` (Model/Request.lean) descend with the fuel `elabFuel` (a constant of the MODEL, 64; the Rust converter
recurses without a bound): one unit per type reference and one per type expression, so a flattened type that nests `d`
anonymous types around a name needs `2 d + 1` units and around a keyword `2 d + 2`. `trefWithin t scope fuel r` says that the
fuel is not exhausted on `r`: it follows the same path as `convTRef` — through the written anonymous types and, where a name
resolves through aliases to a written type, on into that type — and answers `true` wherever the descent stops for another
reason. Nothing about resolution is demanded: an unresolved name is a leaf. -/

mutual
def trefWithin (t : Table) (scope : String) : Nat → TRef → Bool
  | 0, _ => false
  | fuel + 1, .mk _ ty _ =>
    match ty with
    | .named id =>
      match resolveNamed t .type id scope with
      | .ok (.expr e s, _) => tyWithin t s fuel e
      | _ => true
    | e => tyWithin t scope fuel e
def tyWithin (t : Table) (scope : String) : Nat → TyExpr → Bool
  | 0, _ => false
  | _ + 1, .prim _ => true
  | _ + 1, .named _ => true
  | fuel + 1, .seq e => trefWithin t scope fuel e
  | fuel + 1, .dict k v => trefWithin t scope fuel k && trefWithin t scope fuel v
  | fuel + 1, .result s f => trefWithin t scope fuel s && trefWithin t scope fuel f
end

/-- more fuel never hurts -/
theorem within_mono (t : Table) : ∀ fuel : Nat,
    (∀ (scope : String) (r : TRef), trefWithin t scope fuel r = true → trefWithin t scope (fuel + 1) r = true) ∧
    (∀ (scope : String) (e : TyExpr), tyWithin t scope fuel e = true → tyWithin t scope (fuel + 1) e = true) := by
  intro fuel
  induction fuel with
  | zero =>
    constructor
    · intro scope r h; simp [trefWithin] at h
    · intro scope e h; simp [tyWithin] at h
  | succ fuel ih =>
    obtain ⟨ihT, ihE⟩ := ih
    constructor
    · intro scope r h
      cases r with
      | mk attrs ty opt =>
        cases ty with
        | named id =>
          simp only [trefWithin] at h ⊢
          cases hr : resolveNamed t .type id scope with
          | error e => simp
          | ok res =>
            obtain ⟨tgt, extra⟩ := res
            cases tgt with
            | node n => simp
            | expr e s =>
              rw [hr] at h
              simp only at h ⊢
              exact ihE s e h
        | prim pr => simp only [trefWithin] at h ⊢; exact ihE scope _ h
        | seq e => simp only [trefWithin] at h ⊢; exact ihE scope _ h
        | dict k v => simp only [trefWithin] at h ⊢; exact ihE scope _ h
        | result s f => simp only [trefWithin] at h ⊢; exact ihE scope _ h
    · intro scope e h
      cases e with
      | prim pr => simp [tyWithin]
      | named id => simp [tyWithin]
      | seq e => simp only [tyWithin] at h ⊢; exact ihT scope e h
      | dict k v =>
        simp only [tyWithin, Bool.and_eq_true] at h ⊢
        exact ⟨ihT scope k h.1, ihT scope v h.2⟩
      | result s f =>
        simp only [tyWithin, Bool.and_eq_true] at h ⊢
        exact ⟨ihT scope s h.1, ihT scope f h.2⟩

theorem trefWithin_le (t : Table) (scope : String) (r : TRef) {a b : Nat} (hab : a ≤ b)
    (h : trefWithin t scope a r = true) : trefWithin t scope b r = true := by
  induction hab with
  | refl => exact h
  | step _ ih => exact (within_mono t _).1 scope r ih

mutual
/-- the nesting of anonymous types as WRITTEN (names and keywords are leaves) -/
def TRef.nesting : TRef → Nat
  | .mk _ ty _ => ty.nesting
def TyExpr.nesting : TyExpr → Nat
  | .prim _ => 0
  | .named _ => 0
  | .seq e => e.nesting + 1
  | .dict k v => max k.nesting v.nesting + 1
  | .result s f => max s.nesting f.nesting + 1
end

mutual
/-- no name written in the reference (at any depth) is flattened into a written type: every name is unresolved or
    resolves to a node (a struct, an enum, a custom type, a primitive) -/
def trefNoAliasExpr (t : Table) (scope : String) : TRef → Bool
  | .mk _ ty _ => tyNoAliasExpr t scope ty
def tyNoAliasExpr (t : Table) (scope : String) : TyExpr → Bool
  | .prim _ => true
  | .named id => (match resolveNamed t .type id scope with | .ok (.expr _ _, _) => false | _ => true)
  | .seq e => trefNoAliasExpr t scope e
  | .dict k v => trefNoAliasExpr t scope k && trefNoAliasExpr t scope v
  | .result s f => trefNoAliasExpr t scope s && trefNoAliasExpr t scope f
end

/-- what the bound means on a reference that uses no alias of an anonymous type: written nesting `d` fits into `2 d + 2` -/
theorem within_of_nesting (t : Table) (scope : String) : ∀ fuel : Nat,
    (∀ r : TRef, trefNoAliasExpr t scope r = true → 2 * r.nesting + 2 ≤ fuel → trefWithin t scope fuel r = true) ∧
    (∀ e : TyExpr, tyNoAliasExpr t scope e = true → 2 * e.nesting + 1 ≤ fuel → tyWithin t scope fuel e = true) := by
  intro fuel
  induction fuel with
  | zero =>
    constructor
    · intro r _ h; omega
    · intro e _ h; omega
  | succ fuel ih =>
    obtain ⟨ihT, ihE⟩ := ih
    constructor
    · intro r hn hd
      cases r with
      | mk attrs ty opt =>
        simp only [TRef.nesting] at hd
        simp only [trefNoAliasExpr] at hn
        cases ty with
        | named id =>
          simp only [trefWithin]
          simp only [tyNoAliasExpr] at hn
          cases hr : resolveNamed t .type id scope with
          | error e => simp
          | ok res =>
            obtain ⟨tgt, extra⟩ := res
            cases tgt with
            | node n => simp
            | expr e s => rw [hr] at hn; simp at hn
        | prim pr => simp only [trefWithin]; exact ihE _ hn (by omega)
        | seq e => simp only [trefWithin]; exact ihE _ hn (by omega)
        | dict k v => simp only [trefWithin]; exact ihE _ hn (by omega)
        | result s f => simp only [trefWithin]; exact ihE _ hn (by omega)
    · intro e hn hd
      cases e with
      | prim pr => simp [tyWithin]
      | named id => simp [tyWithin]
      | seq e =>
        simp only [TyExpr.nesting] at hd
        simp only [tyNoAliasExpr] at hn
        simp only [tyWithin]
        exact ihT e hn (by omega)
      | dict k v =>
        simp only [TyExpr.nesting] at hd
        simp only [tyNoAliasExpr, Bool.and_eq_true] at hn
        simp only [tyWithin, Bool.and_eq_true]
        exact ⟨ihT k hn.1 (by omega), ihT v hn.2 (by omega)⟩
      | result s f =>
        simp only [TyExpr.nesting] at hd
        simp only [tyNoAliasExpr, Bool.and_eq_true] at hn
        simp only [tyWithin, Bool.and_eq_true]
        exact ⟨ihT s hn.1 (by omega), ihT f hn.2 (by omega)⟩

/-- the sites of an alias target, from the sites of its definition -/
theorem alias_target_refsOK (p : Program)
    (hP : ∀ f ∈ p, ∀ d ∈ f.defs, RefsOK (buildTable p) f.modPath ((Validate.defVisitedTRefs d).flatMap Validate.subRefsT))
    (w : Want) (id scope : String) (e : TyExpr) (s : String) (extra : List Attr)
    (h : resolveNamed (buildTable p) w id scope = .ok (.expr e s, extra)) :
    RefsOK (buildTable p) s (Validate.subRefsE e) := by
  obtain ⟨f, hf, doc, attrs, name, a, o, hd, rfl⟩ := resolveNamed_expr_origin p w id scope e s extra h
  refine (hP f hf _ hd).sub ?_
  intro r hr
  simp [Validate.defVisitedTRefs, Validate.defFieldLists, Validate.defParamLists, Validate.subRefsT, hr]

/-- **(a) + (b)**: in a program all of whose sites resolve, a reference whose own sites resolve and on which the descent
    bound is not exhausted is converted without any fallback -/
theorem resolves_of_within (p : Program)
    (hP : ∀ f ∈ p, ∀ d ∈ f.defs, RefsOK (buildTable p) f.modPath ((Validate.defVisitedTRefs d).flatMap Validate.subRefsT)) :
    ∀ fuel : Nat,
    (∀ (scope : String) (r : TRef), RefsOK (buildTable p) scope (Validate.subRefsT r) →
      trefWithin (buildTable p) scope fuel r = true → trefResolves (buildTable p) scope fuel r = true) ∧
    (∀ (scope : String) (e : TyExpr), (∀ x, e ≠ .named x) → RefsOK (buildTable p) scope (Validate.subRefsE e) →
      tyWithin (buildTable p) scope fuel e = true → tyResolves (buildTable p) scope fuel e = true) := by
  intro fuel
  induction fuel with
  | zero =>
    constructor
    · intro scope r _ h; simp [trefWithin] at h
    · intro scope e _ _ h; simp [tyWithin] at h
  | succ fuel ih =>
    obtain ⟨ihT, ihE⟩ := ih
    constructor
    · intro scope r hok hw
      cases r with
      | mk attrs ty opt =>
        have hsub : RefsOK (buildTable p) scope (Validate.subRefsE ty) :=
          hok.sub (fun r hr => by simp [Validate.subRefsT, hr])
        cases ty with
        | named id =>
          simp only [trefWithin] at hw
          simp only [trefResolves]
          obtain ⟨v, hv⟩ := hok (.mk attrs (.named id) opt) (by simp [Validate.subRefsT]) id rfl
          obtain ⟨tgt, extra⟩ := v
          rw [hv] at hw ⊢
          cases tgt with
          | node n => rfl
          | expr e s =>
            simp only at hw ⊢
            exact ihE s e (resolveNamed_expr _ _ _ _ _ _ hv) (alias_target_refsOK p hP _ _ _ _ _ _ hv) hw
        | prim pr => simp only [trefWithin] at hw; simp only [trefResolves]; exact ihE scope _ (by intro x hx; cases hx) hsub hw
        | seq e => simp only [trefWithin] at hw; simp only [trefResolves]; exact ihE scope _ (by intro x hx; cases hx) hsub hw
        | dict k v => simp only [trefWithin] at hw; simp only [trefResolves]; exact ihE scope _ (by intro x hx; cases hx) hsub hw
        | result s f => simp only [trefWithin] at hw; simp only [trefResolves]; exact ihE scope _ (by intro x hx; cases hx) hsub hw
    · intro scope e hne hok hw
      cases e with
      | prim pr => simp [tyResolves]
      | named id => exact absurd rfl (hne id)
      | seq e =>
        simp only [tyWithin] at hw
        simp only [tyResolves]
        exact ihT scope e (hok.sub (fun r hr => by simp [Validate.subRefsE, hr])) hw
      | dict k v =>
        simp only [tyWithin, Bool.and_eq_true] at hw
        simp only [tyResolves, Bool.and_eq_true]
        exact ⟨ihT scope k (hok.sub (fun r hr => by simp [Validate.subRefsE, hr])) hw.1,
               ihT scope v (hok.sub (fun r hr => by simp [Validate.subRefsE, hr])) hw.2⟩
      | result s f =>
        simp only [tyWithin, Bool.and_eq_true] at hw
        simp only [tyResolves, Bool.and_eq_true]
        exact ⟨ihT scope s (hok.sub (fun r hr => by simp [Validate.subRefsE, hr])) hw.1,
               ihT scope f (hok.sub (fun r hr => by simp [Validate.subRefsE, hr])) hw.2⟩

/-! ## part 6: the guard from acceptance -/

/-- what the abstract syntax must share with a parsed file beyond what `validate` looks at: a module declaration names a
    module (the grammar demands an identifier), and every base of an interface is written as a name. (A base written as a
    keyword or an anonymous type is reported by the PARSER — `construct_interface`, `report_type_mismatch`, E017 — and
    dropped; the parse-time checks of `validate` do not include that diagnostic, so it has to be asked for here.) -/
def fileShaped (f : SFile) : Bool :=
  (match f.module with | some m => !m.path.isEmpty | none => true) &&
  f.defs.all fun d =>
    match d with
    | .iface _ _ _ bases _ => bases.all fun b => match b.ty with | .named _ => true | _ => false
    | _ => true

def ParserShaped (P : Program) : Bool := P.all fileShaped

/-- **the descent bound as an explicit hypothesis** (decidable): on every type reference written in a visited position of a
    definition (field, parameter and return types, enumerator fields, alias targets) the fuel `elabFuel` of the converter
    model is not exhausted — the type with aliases replaced by their targets nests at most 31 anonymous types. -/
def DescentWithin (P : Program) : Bool :=
  P.all fun f => f.defs.all fun d => (Validate.defVisitedTRefs d).all (trefWithin (buildTable P) f.modPath elabFuel)

theorem modPath_of_module (f : SFile) (m : ModDecl) (h : f.module = some m) : f.modPath = m.path := by
  unfold SFile.modPath; rw [h]

/-- **the bridge.** A program accepted by the compiler model (`validate … = []`), shaped as the parser shapes it, whose
    flattened types stay within the descent bound of the converter model, satisfies the guard `AllResolve`. -/
theorem allResolve_of_accepted (fs : List ReqFile) (hacc : validate (programOf fs) = [])
    (hshape : ParserShaped (programOf fs) = true) (hdepth : DescentWithin (programOf fs) = true) : AllResolve fs = true := by
  unfold AllResolve
  rw [List.all_eq_true]
  intro f hf
  have hsh : fileShaped f = true := (List.all_eq_true.mp hshape) f hf
  unfold fileShaped at hsh
  rw [Bool.and_eq_true] at hsh
  obtain ⟨hsm, hsb⟩ := hsh
  unfold fileResolves
  cases hm : f.module with
  | none =>
    simp only
    rw [accepted_moduleRequired _ hacc f hf hm]; rfl
  | some m =>
    simp only
    rw [hm] at hsm
    simp only at hsm
    rw [Bool.and_eq_true]
    refine ⟨hsm, ?_⟩
    rw [List.all_eq_true]
    intro d hd
    have hmp := modPath_of_module f m hm
    rw [← hmp]
    have hP := fun f hf d hd => accepted_refsOK (programOf fs) hacc f hf d hd
    have hok := hP f hf d hd
    have hw : ∀ r ∈ Validate.defVisitedTRefs d, trefWithin (buildTable (programOf fs)) f.modPath elabFuel r = true := by
      have h1 := (List.all_eq_true.mp hdepth) f hf
      have h2 := (List.all_eq_true.mp h1) d hd
      exact List.all_eq_true.mp h2
    have hres : ∀ r ∈ Validate.defVisitedTRefs d, trefResolves (buildTable (programOf fs)) f.modPath elabFuel r = true := by
      intro r hr
      refine (resolves_of_within (programOf fs) hP elabFuel).1 f.modPath r (hok.sub ?_) (hw r hr)
      intro x hx
      exact List.mem_flatMap.mpr ⟨r, hr, hx⟩
    cases d with
    | struct doc attrs compact name fields =>
      simp only [defResolves, fieldsResolve, List.all_eq_true]
      intro fl hfl
      exact hres fl.ty (by simp only [Validate.defVisitedTRefs, Validate.defFieldLists, Validate.defParamLists]; simp; exact ⟨fl, hfl, rfl⟩)
    | iface doc attrs name bases ops =>
      simp only [defResolves, Bool.and_eq_true, List.all_eq_true]
      constructor
      · intro b hb
        have hbn := List.all_eq_true.mp ((List.all_eq_true.mp hsb) _ hd) b hb
        unfold baseResolves
        cases hty : b.ty with
        | named id =>
          simp only
          obtain ⟨v, hv⟩ := accepted_basesOK (programOf fs) hacc f hf doc attrs name bases ops hd b hb id hty
          obtain ⟨n, extra, rfl⟩ := resolveNamed_interface_node _ _ _ _ hv
          rw [hv]
        | prim pr => rw [hty] at hbn; simp at hbn
        | seq e => rw [hty] at hbn; simp at hbn
        | dict k v => rw [hty] at hbn; simp at hbn
        | result s e => rw [hty] at hbn; simp at hbn
      · intro o ho
        simp only [opResolves, paramsResolve, Bool.and_eq_true, List.all_eq_true]
        constructor
        · intro q hq
          exact hres q.ty (by
            simp only [Validate.defVisitedTRefs, Validate.defFieldLists, Validate.defParamLists]; simp
            exact ⟨_, ⟨o, ho, Or.inl rfl⟩, q, hq, rfl⟩)
        · intro q hq
          exact hres q.ty (by
            simp only [Validate.defVisitedTRefs, Validate.defFieldLists, Validate.defParamLists]; simp
            exact ⟨_, ⟨o, ho, Or.inr rfl⟩, q, hq, rfl⟩)
    | «enum» doc attrs compact unchecked name underlying es =>
      simp only [defResolves, Bool.or_eq_true, List.all_eq_true]
      right
      intro e he
      simp only [fieldsResolve, List.all_eq_true]
      intro fl hfl
      exact hres fl.ty (by
        simp only [Validate.defVisitedTRefs, Validate.defFieldLists, Validate.defParamLists]; simp
        exact ⟨_, ⟨e, he, rfl⟩, fl, hfl, rfl⟩)
    | custom doc attrs name => rfl
    | alias doc attrs name ty =>
      simp only [defResolves]
      exact hres ty (by simp [Validate.defVisitedTRefs, Validate.defFieldLists, Validate.defParamLists])

/-- `resolved_link_entity` needs of the guard only "no definition outside a module", which acceptance alone gives: a link
    that resolves to an entity is transmitted as the entity's scoped identifier, and the entity is declared in a
    transmitted file -/
theorem resolved_link_entity_accepted (fs : List ReqFile) (hacc : validate (programOf fs) = []) (selfKey id : String)
    (n : NodeInfo) (hf : findNodeWithScope (buildTable (programOf fs)) id selfKey = some n)
    (hk : n.kind ≠ .module ∧ n.kind ≠ .parameter ∧ n.kind ≠ .primitive) :
    convLink (buildTable (programOf fs)) selfKey id = sb n.key ∧
    ∃ rf ∈ transmitted fs, EntityOf rf.file n.key n.kind n.ident := by
  refine ⟨?_, ?_⟩
  · simp only [convLink, hf]
    obtain ⟨h1, h2, h3⟩ := hk
    simp [h1, h2, h3]
  · obtain ⟨k, hmem⟩ := findNodeWithScope_mem _ _ _ _ hf
    obtain ⟨f, hfp, hent⟩ := buildTable_entity (programOf fs) (k, n) hmem hk
    have hfp' := hfp
    simp only [programOf, List.mem_map] at hfp'
    obtain ⟨rf, hrf, rfl⟩ := hfp'
    refine ⟨rf, ?_, hent⟩
    simp only [transmitted, List.mem_filter]
    refine ⟨hrf, ?_⟩
    cases hm : rf.file.module with
    | none =>
      obtain ⟨d, hd⟩ := hent.has_def
      rw [accepted_moduleRequired _ hacc rf.file hfp hm] at hd; cases hd
    | some m => simp

/-- the list of compiled files the driver builds from a program: file `i` with the path the command line gave it, a source
    file unless `i` is one of the reference files (Drv/C08.lean `reqFiles`, harness/src/proj_c08.rs) -/
def reqFilesOf (pathOf : Nat → String) (refs : List Nat) (P : Program) : List ReqFile :=
  P.zipIdx.map fun (f, i) => { path := pathOf i, isSource := !refs.contains i, file := f }

theorem programOf_reqFilesOf (pathOf : Nat → String) (refs : List Nat) (P : Program) :
    programOf (reqFilesOf pathOf refs P) = P := by
  unfold programOf reqFilesOf
  rw [List.map_map]
  have : ((fun x : ReqFile => x.file) ∘ fun x : SFile × Nat => ({ path := pathOf x.2, isSource := !refs.contains x.2, file := x.1 } : ReqFile))
      = Prod.fst := by funext x; rfl
  rw [this]
  exact List.zipIdx_map_fst 0 P

/-! ## part 7: the alias gate of C05 bounds the descent -/

mutual
/-- `PlacedT nodes s r c`: in the node list `nodes` of the anonymous-type graph, `c` is what `allocT` made of the reference `r`
    written in module scope `s` — a leaf for a keyword, the name for a name, and for an anonymous type a node whose
    children are what was made of its element / key, value / success, failure references -/
def PlacedT (nodes : List Cyc.ANode) (s : String) : TRef → Cyc.AChild → Prop
  | .mk _ ty _, c => PlacedE nodes s ty c
def PlacedE (nodes : List Cyc.ANode) (s : String) : TyExpr → Cyc.AChild → Prop
  | .prim _, c => c = .leaf
  | .named id, c => c = .named id
  | .seq r, c => ∃ x c1, c = .node x ∧ nodes[x]? = some ⟨s, [c1]⟩ ∧ PlacedT nodes s r c1
  | .dict k v, c => ∃ x ck cv, c = .node x ∧ nodes[x]? = some ⟨s, [ck, cv]⟩ ∧ PlacedT nodes s k ck ∧ PlacedT nodes s v cv
  | .result a b, c => ∃ x ca cb, c = .node x ∧ nodes[x]? = some ⟨s, [ca, cb]⟩ ∧ PlacedT nodes s a ca ∧ PlacedT nodes s b cb
end

mutual
theorem allocT_placed : ∀ (r : TRef) (s : String) (nodes pre post : List Cyc.ANode) (off : Nat),
    nodes = pre ++ (Cyc.allocT s r off).2 ++ post → off = pre.length → PlacedT nodes s r (Cyc.allocT s r off).1
  | .mk a ty o, s, nodes, pre, post, off, hn, ho => by
    simp only [PlacedT, Cyc.allocT] at hn ⊢
    exact allocE_placed ty s nodes pre post off hn ho
theorem allocE_placed : ∀ (e : TyExpr) (s : String) (nodes pre post : List Cyc.ANode) (off : Nat),
    nodes = pre ++ (Cyc.allocE s e off).2 ++ post → off = pre.length → PlacedE nodes s e (Cyc.allocE s e off).1
  | .prim p, s, nodes, pre, post, off, hn, ho => by simp [PlacedE, Cyc.allocE]
  | .named id, s, nodes, pre, post, off, hn, ho => by simp [PlacedE, Cyc.allocE]
  | .seq r, s, nodes, pre, post, off, hn, ho => by
    simp only [Cyc.allocE] at hn ⊢
    simp only [PlacedE]
    refine ⟨off, (Cyc.allocT s r (off + 1)).1, rfl, ?_, ?_⟩
    · subst ho; rw [hn]; simp
    · exact allocT_placed r s nodes (pre ++ [⟨s, [(Cyc.allocT s r (off + 1)).1]⟩]) post (off + 1)
        (by rw [hn]; simp) (by simp [ho])
  | .dict k v, s, nodes, pre, post, off, hn, ho => by
    simp only [Cyc.allocE] at hn ⊢
    simp only [PlacedE]
    refine ⟨off, (Cyc.allocT s k (off + 1)).1, (Cyc.allocT s v (off + 1 + (Cyc.allocT s k (off + 1)).2.length)).1, rfl, ?_, ?_, ?_⟩
    · subst ho; rw [hn]; simp
    · exact allocT_placed k s nodes (pre ++ [⟨s, [(Cyc.allocT s k (off + 1)).1,
          (Cyc.allocT s v (off + 1 + (Cyc.allocT s k (off + 1)).2.length)).1]⟩])
        ((Cyc.allocT s v (off + 1 + (Cyc.allocT s k (off + 1)).2.length)).2 ++ post) (off + 1)
        (by rw [hn]; simp) (by simp [ho])
    · exact allocT_placed v s nodes (pre ++ [⟨s, [(Cyc.allocT s k (off + 1)).1,
          (Cyc.allocT s v (off + 1 + (Cyc.allocT s k (off + 1)).2.length)).1]⟩] ++ (Cyc.allocT s k (off + 1)).2)
        post (off + 1 + (Cyc.allocT s k (off + 1)).2.length)
        (by rw [hn]; simp) (by simp [ho]; omega)
  | .result a b, s, nodes, pre, post, off, hn, ho => by
    simp only [Cyc.allocE] at hn ⊢
    simp only [PlacedE]
    refine ⟨off, (Cyc.allocT s a (off + 1)).1, (Cyc.allocT s b (off + 1 + (Cyc.allocT s a (off + 1)).2.length)).1, rfl, ?_, ?_, ?_⟩
    · subst ho; rw [hn]; simp
    · exact allocT_placed a s nodes (pre ++ [⟨s, [(Cyc.allocT s a (off + 1)).1,
          (Cyc.allocT s b (off + 1 + (Cyc.allocT s a (off + 1)).2.length)).1]⟩])
        ((Cyc.allocT s b (off + 1 + (Cyc.allocT s a (off + 1)).2.length)).2 ++ post) (off + 1)
        (by rw [hn]; simp) (by simp [ho])
    · exact allocT_placed b s nodes (pre ++ [⟨s, [(Cyc.allocT s a (off + 1)).1,
          (Cyc.allocT s b (off + 1 + (Cyc.allocT s a (off + 1)).2.length)).1]⟩] ++ (Cyc.allocT s a (off + 1)).2)
        post (off + 1 + (Cyc.allocT s a (off + 1)).2.length)
        (by rw [hn]; simp) (by simp [ho]; omega)
end

/-- one step of `anonAlloc` -/
def allocStep (acc : List Cyc.ANode × List (String × Cyc.AChild)) (a : String × String × TRef) :
    List Cyc.ANode × List (String × Cyc.AChild) :=
  (acc.1 ++ (Cyc.allocT a.2.1 a.2.2 acc.1.length).2, acc.2 ++ [(a.2.1, (Cyc.allocT a.2.1 a.2.2 acc.1.length).1)])

theorem anonAlloc_eq (p : Program) : Cyc.anonAlloc p = (Cyc.aliasDefs p).foldl allocStep ([], []) := rfl

theorem foldl_alloc : ∀ (as : List (String × String × TRef)) (acc : List Cyc.ANode × List (String × Cyc.AChild)),
    (∃ ext, (as.foldl allocStep acc).1 = acc.1 ++ ext) ∧
    (∃ ext2, (as.foldl allocStep acc).2 = acc.2 ++ ext2 ∧ ext2.length = as.length) ∧
    ∀ j a, as[j]? = some a → ∃ c, (as.foldl allocStep acc).2[acc.2.length + j]? = some (a.2.1, c) ∧
      PlacedT (as.foldl allocStep acc).1 a.2.1 a.2.2 c
  | [], acc => ⟨⟨[], by simp⟩, ⟨[], by simp⟩, by intro j a h; simp at h⟩
  | a0 :: as, acc => by
    obtain ⟨⟨ext, he⟩, ⟨ext2, he2, hl2⟩, ih3⟩ := foldl_alloc as (allocStep acc a0)
    simp only [List.foldl_cons]
    refine ⟨⟨(Cyc.allocT a0.2.1 a0.2.2 acc.1.length).2 ++ ext, by rw [he]; simp [allocStep]⟩,
      ⟨(a0.2.1, (Cyc.allocT a0.2.1 a0.2.2 acc.1.length).1) :: ext2, by rw [he2]; simp [allocStep], by simp [hl2]⟩, ?_⟩
    intro j a hj
    cases j with
    | zero =>
      simp only [List.getElem?_cons_zero, Option.some.injEq] at hj
      subst hj
      refine ⟨(Cyc.allocT a0.2.1 a0.2.2 acc.1.length).1, ?_, ?_⟩
      · rw [he2]; simp [allocStep]
      · exact allocT_placed a0.2.2 a0.2.1 _ acc.1 ext acc.1.length (by rw [he]; simp [allocStep]) rfl
    | succ j =>
      simp only [List.getElem?_cons_succ] at hj
      obtain ⟨c, hc, hp⟩ := ih3 j a hj
      refine ⟨c, ?_, hp⟩
      have : (allocStep acc a0).2.length + j = acc.2.length + (j + 1) := by simp [allocStep]; omega
      rw [← this]; exact hc

/-! ### alias keys are unique in an accepted program -/

theorem accepted_defKeys_nodup (P : Program) (h : validate P = []) : ((Validate.allDefs P).map Validate.defKey).Nodup := by
  have hn := validate_nil_names P h
  unfold Validate.Rule.codes at hn
  have hm : (Validate.modulePrefixes P, (Validate.allDefs P).map Validate.defKey) ∈ Validate.namesRule.ctxs P := by
    show _ ∈ Validate.nameScopes P
    unfold Validate.nameScopes
    exact List.mem_append_left _ (List.mem_singleton.mpr rfl)
  have h1 := List.flatMap_eq_nil_iff.mp hn _ hm
  have h2 : (Validate.repeats (Validate.modulePrefixes P) ((Validate.allDefs P).map Validate.defKey)).map
      (fun _ => Validate.code "Redefinition") = [] := h1
  rw [List.map_eq_nil_iff, Validate.repeats_nil_iff] at h2
  exact h2.1

theorem filterMap_sublist_map {α β} (h : α → Option β) (k : α → β) (hk : ∀ a b, h a = some b → b = k a) :
    ∀ l : List α, (l.filterMap h).Sublist (l.map k)
  | [] => by simp
  | a :: l => by
    simp only [List.filterMap_cons, List.map_cons]
    cases ha : h a with
    | none => exact (filterMap_sublist_map h k hk l).cons _
    | some b => rw [hk a b ha]; exact (filterMap_sublist_map h k hk l).cons_cons _

theorem flatMap_sublist {α β} (f g : α → List β) : ∀ l : List α, (∀ a ∈ l, (f a).Sublist (g a)) →
    (l.flatMap f).Sublist (l.flatMap g)
  | [], _ => by simp
  | a :: l, h => by
    simp only [List.flatMap_cons]
    exact (h a (by simp)).append (flatMap_sublist f g l (fun b hb => h b (by simp [hb])))

/-- the keys of the alias definitions (what `anonGraph` indexes aliases by) are among the keys of all definitions -/
theorem aliasKeys_sublist (P : Program) :
    ((Cyc.aliasDefs P).map (·.1)).Sublist ((Validate.allDefs P).map Validate.defKey) := by
  unfold Cyc.aliasDefs Validate.allDefs
  rw [List.map_flatMap, List.map_flatMap]
  apply flatMap_sublist
  intro f _
  simp only [List.map_map]
  rw [List.map_filterMap]
  apply filterMap_sublist_map
  intro d b hb
  cases d <;> simp at hb
  subst hb
  simp only [Function.comp, Validate.defKey, Def.name, Validate.fileScope]
  cases f.module <;> rfl

theorem accepted_aliasKeys_nodup (P : Program) (h : validate P = []) : ((Cyc.aliasDefs P).map (·.1)).Nodup :=
  (aliasKeys_sublist P).nodup (accepted_defKeys_nodup P h)

/-- with unique keys, the index `idxOf` computes retrieves the entry -/
theorem getElem?_idxOf_fst {β} : ∀ (l : List (String × β)), (l.map (·.1)).Nodup → ∀ k v, (k, v) ∈ l →
    l[(l.map (·.1)).idxOf k]? = some (k, v)
  | [], _, _, _, h => by cases h
  | (k0, v0) :: l, hnd, k, v, h => by
    simp only [List.map_cons, List.nodup_cons] at hnd
    simp only [List.map_cons, List.idxOf_cons]
    by_cases hk : k0 = k
    · subst hk
      simp only [beq_self_eq_true, cond_true, List.getElem?_cons_zero, Option.some.injEq, Prod.mk.injEq, true_and]
      rcases List.mem_cons.mp h with h | h
      · simp only [Prod.mk.injEq] at h; exact h.2.symm
      · exact absurd (List.mem_map.mpr ⟨(k0, v), h, rfl⟩) hnd.1
    · have hb : (k0 == k) = false := by simpa using hk
      simp only [hb, cond_false, List.getElem?_cons_succ]
      rcases List.mem_cons.mp h with h | h
      · simp only [Prod.mk.injEq] at h; exact absurd h.1.symm hk
      · exact getElem?_idxOf_fst l hnd.2 k v h

/-! ### the alias entries of the name table and the alias definitions `anonGraph` indexes -/

/-- an entry of the name table that carries an underlying type has kind alias and is listed by `aliasDefs` with its key,
    module scope and underlying type -/
theorem buildTable_alias_entry (p : Program) (e : String × NodeInfo) (u : TRef) (he : e ∈ buildTable p)
    (ha : e.2.aliasOf = some u) : e.2.kind = .alias ∧ (e.2.key, e.2.modScope, u) ∈ Cyc.aliasDefs p := by
  simp only [buildTable, List.mem_append, List.mem_flatMap] at he
  rcases he with he | ⟨⟨f, i⟩, hfi, he⟩
  · simp only [primTable, List.mem_map] at he
    obtain ⟨pr, _, rfl⟩ := he
    cases ha
  · have hf : f ∈ p := List.fst_mem_of_mem_zipIdx hfi
    simp only [fileEntries, List.mem_append, List.mem_flatMap] at he
    rcases he with ⟨d, hd, he⟩ | he
    · cases d with
      | struct doc attrs compact name fields =>
        simp only [defEntries, List.mem_append, List.mem_singleton, fieldEntries, List.mem_map] at he
        rcases he with ⟨x, _, rfl⟩ | rfl <;> cases ha
      | iface doc attrs name bases ops =>
        simp only [defEntries, List.mem_append, List.mem_singleton, List.mem_flatMap, opEntries, paramEntries, List.mem_map] at he
        rcases he with ⟨o, _, (⟨x, _, rfl⟩ | ⟨x, _, rfl⟩) | rfl⟩ | rfl <;> cases ha
      | «enum» doc attrs compact unchecked name underlying es =>
        simp only [defEntries, List.mem_append, List.mem_singleton, List.mem_flatMap, enumeratorEntries, fieldEntries, List.mem_map] at he
        rcases he with ⟨x, _, ⟨y, _, rfl⟩ | rfl⟩ | rfl <;> cases ha
      | custom doc attrs name =>
        simp only [defEntries, List.mem_singleton] at he
        subst he; cases ha
      | alias doc attrs name ty =>
        simp only [defEntries, List.mem_singleton] at he
        subst he
        simp only [Option.some.injEq] at ha
        subst ha
        refine ⟨rfl, ?_⟩
        unfold Cyc.aliasDefs
        refine List.mem_flatMap.mpr ⟨f, hf, ?_⟩
        simp only
        refine List.mem_filterMap.mpr ⟨_, hd, ?_⟩
        simp only [SFile.modPath]
        cases f.module <;> rfl
    · cases hm : f.module with
      | none => rw [hm] at he; simp at he
      | some m =>
        rw [hm] at he
        simp only [List.mem_singleton] at he
        subst he; cases ha

/-- the alias walk takes one unit of fuel per alias -/
theorem walkAlias_path_len (t : Table) : ∀ (fuel : Nat) (chain : List String) (attrs : List Attr) (cur : NodeInfo)
    (tgt : Target) (out : List Attr),
    walkAlias t fuel chain attrs cur = .ok (tgt, out) → cur.isAlias = true →
    ∃ links, AliasPath t cur links tgt ∧ links.length ≤ fuel := by
  intro fuel
  induction fuel with
  | zero => intro chain attrs cur tgt out h; simp [walkAlias] at h
  | succ fuel ih =>
    intro chain attrs cur tgt out h hcur
    simp only [walkAlias] at h
    by_cases hc : cur.key ∈ chain
    · simp [hc] at h
    · have hc' : ¬ (chain.contains cur.key = true) := by simpa using hc
      rw [if_neg hc'] at h
      cases hu : cur.aliasOf with
      | none => simp [NodeInfo.isAlias, hu] at hcur
      | some u =>
        rw [hu] at h
        simp only at h
        cases hty : u.ty with
        | named id =>
          rw [hty] at h
          simp only at h
          cases hf : findNodeWithScope t id cur.modScope with
          | none => rw [hf] at h; simp at h
          | some n =>
            rw [hf] at h
            simp only at h
            by_cases hn : n.isAlias = true
            · simp only [hn, if_true] at h
              obtain ⟨links, hp, hl⟩ := ih _ _ _ _ _ h hn
              exact ⟨u :: links, .step hu hty hf hn hp, by simp; omega⟩
            · simp only [hn] at h
              simp at h
              obtain ⟨h1, h2⟩ := h
              subst h1; subst h2
              exact ⟨[u], .endNode hu hty hf (by simpa using hn), by simp⟩
        | prim p =>
          rw [hty] at h; simp at h; obtain ⟨h1, h2⟩ := h; subst h1; subst h2
          exact ⟨[u], by rw [← hty]; exact .endExpr hu (by intro id; rw [hty]; simp), by simp⟩
        | seq e =>
          rw [hty] at h; simp at h; obtain ⟨h1, h2⟩ := h; subst h1; subst h2
          exact ⟨[u], by rw [← hty]; exact .endExpr hu (by intro id; rw [hty]; simp), by simp⟩
        | dict k v =>
          rw [hty] at h; simp at h; obtain ⟨h1, h2⟩ := h; subst h1; subst h2
          exact ⟨[u], by rw [← hty]; exact .endExpr hu (by intro id; rw [hty]; simp), by simp⟩
        | result s f =>
          rw [hty] at h; simp at h; obtain ⟨h1, h2⟩ := h; subst h1; subst h2
          exact ⟨[u], by rw [← hty]; exact .endExpr hu (by intro id; rw [hty]; simp), by simp⟩

/-! ### as many alias entries as alias definitions -/

def entryIsAlias (e : String × NodeInfo) : Bool := e.2.isAlias

theorem defEntries_aliasCount (i : Nat) (ms : String) (d : Def) :
    ((defEntries i ms d).filter entryIsAlias).length = (match d with | .alias .. => 1 | _ => 0) := by
  cases d with
  | struct doc attrs compact name fields =>
    simp only [defEntries, List.filter_append, List.length_append, fieldEntries]
    rw [List.filter_eq_nil_iff.mpr (by intro e he; obtain ⟨x, _, rfl⟩ := List.mem_map.mp he; simp [entryIsAlias, NodeInfo.isAlias])]
    simp [entryIsAlias, NodeInfo.isAlias]
  | iface doc attrs name bases ops =>
    simp only [defEntries, List.filter_append, List.length_append]
    rw [List.filter_eq_nil_iff.mpr (by
      intro e he
      simp only [List.mem_flatMap, opEntries, paramEntries, List.mem_append, List.mem_map, List.mem_singleton] at he
      rcases he with ⟨o, _, (⟨x, _, rfl⟩ | ⟨x, _, rfl⟩) | rfl⟩ <;> simp [entryIsAlias, NodeInfo.isAlias])]
    simp [entryIsAlias, NodeInfo.isAlias]
  | «enum» doc attrs compact unchecked name underlying es =>
    simp only [defEntries, List.filter_append, List.length_append]
    rw [List.filter_eq_nil_iff.mpr (by
      intro e he
      simp only [List.mem_flatMap, enumeratorEntries, fieldEntries, List.mem_append, List.mem_map, List.mem_singleton] at he
      rcases he with ⟨x, _, ⟨y, _, rfl⟩ | rfl⟩ <;> simp [entryIsAlias, NodeInfo.isAlias])]
    simp [entryIsAlias, NodeInfo.isAlias]
  | custom doc attrs name => simp [defEntries, entryIsAlias, NodeInfo.isAlias]
  | alias doc attrs name ty => simp [defEntries, List.filter, entryIsAlias, NodeInfo.isAlias]

theorem defs_aliasCount (i : Nat) (ms : String) (g : Def → Option (String × String × TRef))
    (hg : ∀ d, (g d).isSome = (match d with | .alias .. => true | _ => false)) : ∀ ds : List Def,
    ((ds.flatMap (defEntries i ms)).filter entryIsAlias).length = (ds.filterMap g).length
  | [] => by simp
  | d :: ds => by
    simp only [List.flatMap_cons, List.filter_append, List.length_append]
    rw [defEntries_aliasCount, defs_aliasCount i ms g hg ds]
    have h := hg d
    cases hgd : g d with
    | none =>
      rw [List.filterMap_cons_none hgd]
      rw [hgd] at h
      cases d <;> simp at h ⊢
    | some b =>
      rw [List.filterMap_cons_some hgd]
      rw [hgd] at h
      cases d <;> simp at h ⊢
      omega

theorem aliasDefs_single (f : SFile) : Cyc.aliasDefs [f] =
    f.defs.filterMap (fun d => match d with
      | .alias _ _ name ty => some (scopedId name f.modPath, f.modPath, ty)
      | _ => none) := by
  unfold Cyc.aliasDefs SFile.modPath
  simp only [List.flatMap_cons, List.flatMap_nil, List.append_nil]
  cases f.module <;> rfl

theorem fileEntries_aliasCount (i : Nat) (f : SFile) :
    ((fileEntries i f).filter entryIsAlias).length = (Cyc.aliasDefs [f]).length := by
  rw [aliasDefs_single]
  unfold fileEntries
  simp only [List.filter_append, List.length_append]
  rw [defs_aliasCount i f.modPath (fun d => match d with
      | .alias _ _ name ty => some (scopedId name f.modPath, f.modPath, ty)
      | _ => none) (by intro d; cases d <;> rfl)]
  cases f.module <;> simp [entryIsAlias, NodeInfo.isAlias]

theorem aliasDefs_cons (f : SFile) (p : Program) : Cyc.aliasDefs (f :: p) = Cyc.aliasDefs [f] ++ Cyc.aliasDefs p := by
  simp [Cyc.aliasDefs]

theorem files_aliasCount : ∀ (p : Program) (k : Nat),
    (((p.zipIdx k).flatMap fun fi => fileEntries fi.2 fi.1).filter entryIsAlias).length = (Cyc.aliasDefs p).length
  | [], k => by simp [Cyc.aliasDefs]
  | f :: p, k => by
    rw [List.zipIdx_cons, List.flatMap_cons, List.filter_append, List.length_append, aliasDefs_cons, List.length_append,
      fileEntries_aliasCount, files_aliasCount p (k + 1)]

theorem numAliases_buildTable (p : Program) : numAliases (buildTable p) = (Cyc.aliasDefs p).length := by
  unfold numAliases aliasKeys buildTable
  rw [List.length_map]
  have e : (fun e : String × NodeInfo => e.2.isAlias) = entryIsAlias := rfl
  rw [e, List.filter_append, List.length_append]
  have hp : primTable.filter entryIsAlias = [] := by
    rw [List.filter_eq_nil_iff]
    intro x hx
    simp only [primTable, List.mem_map] at hx
    obtain ⟨pr, _, rfl⟩ := hx
    simp [entryIsAlias, NodeInfo.isAlias]
  rw [hp]
  simp only [List.length_nil, Nat.zero_add]
  exact files_aliasCount p 0

/-! ### the graph of anonymous types of a program (`Cyc.anonGraph`), by its parts -/

def gKeys (P : Program) : List String := (Cyc.aliasDefs P).map (·.1)
def gNodes (P : Program) : List Cyc.ANode := (Cyc.anonAlloc P).1
def gStarts (P : Program) : List (String × Cyc.AChild) := (Cyc.anonAlloc P).2
/-- what a reference inside an anonymous type is bound to, with the fuel `anonGraph` uses -/
def gBind (P : Program) : String → Cyc.AChild → Option Nat :=
  Cyc.bindChild (buildTable P) (gKeys P) (gStarts P) ((gStarts P).length + 1)

theorem gStarts_length (P : Program) : (gStarts P).length = (Cyc.aliasDefs P).length := by
  obtain ⟨_, ⟨ext2, h2, hl⟩, _⟩ := foldl_alloc (Cyc.aliasDefs P) ([], [])
  unfold gStarts
  rw [anonAlloc_eq, h2]
  simpa using hl

def childNode : Cyc.AChild → Option Nat
  | .node k => some k
  | _ => none

theorem bindChild_not_named (t : Table) (keys : List String) (starts : List (String × Cyc.AChild)) (fuel : Nat) (s : String)
    (c : Cyc.AChild) (h : ∀ id, c ≠ .named id) : Cyc.bindChild t keys starts fuel s c = childNode c := by
  cases c with
  | node k => cases fuel <;> rfl
  | leaf => cases fuel <;> rfl
  | named id => exact absurd rfl (h id)

theorem placedE_not_named (nodes : List Cyc.ANode) (s : String) (e : TyExpr) (c : Cyc.AChild) (hne : ∀ id, e ≠ .named id)
    (h : PlacedE nodes s e c) : ∀ id, c ≠ .named id := by
  intro id hc
  subst hc
  cases e with
  | prim p => simp [PlacedE] at h
  | named x => exact hne x rfl
  | seq r => obtain ⟨x, c1, h1, _⟩ := h; cases h1
  | dict k v => obtain ⟨x, ck, cv, h1, _⟩ := h; cases h1
  | result a b => obtain ⟨x, ca, cb, h1, _⟩ := h; cases h1

/-- in an accepted program, an alias entry of the name table is the alias `anonGraph` finds under its key: kind alias, key
    listed, and at the index of the key the start record of its underlying type, written in its module scope -/
theorem alias_indexed (P : Program) (hacc : validate P = []) (n : NodeInfo) (u : TRef) (hn : ∃ k, (k, n) ∈ buildTable P)
    (ha : n.aliasOf = some u) :
    n.kind = .alias ∧ (gKeys P).contains n.key = true ∧
    ∃ c, (gStarts P)[(gKeys P).idxOf n.key]? = some (n.modScope, c) ∧ PlacedT (gNodes P) n.modScope u c := by
  obtain ⟨k, hk⟩ := hn
  obtain ⟨hkind, hmem⟩ := buildTable_alias_entry P (k, n) u hk ha
  have hnd := accepted_aliasKeys_nodup P hacc
  have hget := getElem?_idxOf_fst (Cyc.aliasDefs P) hnd n.key (n.modScope, u) hmem
  refine ⟨hkind, ?_, ?_⟩
  · simp only [List.contains_iff_mem, gKeys]
    exact List.mem_map.mpr ⟨_, hmem, rfl⟩
  · obtain ⟨_, _, h3⟩ := foldl_alloc (Cyc.aliasDefs P) ([], [])
    obtain ⟨c, hc, hp⟩ := h3 _ _ hget
    refine ⟨c, ?_, ?_⟩
    · simpa [gStarts, gKeys, anonAlloc_eq] using hc
    · simpa [gNodes, anonAlloc_eq] using hp

theorem aliasIndexOf_alias (P : Program) (hacc : validate P = []) (id scope : String) (n : NodeInfo)
    (hf : findNodeWithScope (buildTable P) id scope = some n) (hn : n.isAlias = true) :
    Cyc.aliasIndexOf (buildTable P) (gKeys P) id scope = some ((gKeys P).idxOf n.key) := by
  cases hu : n.aliasOf with
  | none => simp [NodeInfo.isAlias, hu] at hn
  | some u =>
    obtain ⟨hk, hc, _⟩ := alias_indexed P hacc n u (findNodeWithScope_mem _ _ _ _ hf) hu
    unfold Cyc.aliasIndexOf
    rw [hf]
    have hc' : n.key ∈ gKeys P := by simpa using hc
    simp [hk, hc']

/-- **the alias chain as `bindChild` walks it.** Along an alias chain that ends in a written type expression, `bindChild`
    (with one unit of fuel per alias left) arrives at what `allocT` made of that expression, and that is the start record of
    an alias -/
theorem bindChild_along_path (P : Program) (hacc : validate P = []) {n : NodeInfo} {links : List TRef} {tgt : Target}
    (hp : AliasPath (buildTable P) n links tgt) : (∃ k, (k, n) ∈ buildTable P) → ∀ e s, tgt = .expr e s →
    ∀ fuel, links.length ≤ fuel + 1 →
    ∃ (a : Nat) (c : Cyc.AChild), (gStarts P)[a]? = some (s, c) ∧ PlacedE (gNodes P) s e c ∧
      Cyc.bindChild (buildTable P) (gKeys P) (gStarts P) fuel
        ((gStarts P).getD ((gKeys P).idxOf n.key) ("", .leaf)).1 ((gStarts P).getD ((gKeys P).idxOf n.key) ("", .leaf)).2
        = childNode c := by
  induction hp with
  | endNode _ _ _ _ => intro _ e s ht; cases ht
  | @endExpr cur u hu hne =>
    intro hc e s ht fuel _
    cases ht
    obtain ⟨_, _, c, hget, hpl⟩ := alias_indexed P hacc cur u hc hu
    cases u with
    | mk a ty o =>
      simp only [PlacedT] at hpl
      simp only [TRef.ty] at hne ⊢
      refine ⟨_, c, hget, hpl, ?_⟩
      rw [List.getD_eq_getElem?_getD, hget]
      simp only [Option.getD_some]
      exact bindChild_not_named _ _ _ _ _ _ (placedE_not_named _ _ _ _ hne hpl)
  | @step cur u id n' us tgt hu hty hf hn' hp' ih =>
    intro hc e s ht fuel hlen
    obtain ⟨_, _, c, hget, hpl⟩ := alias_indexed P hacc cur u hc hu
    cases u with
    | mk a ty o =>
      simp only [TRef.ty] at hty
      subst hty
      simp only [PlacedT, PlacedE] at hpl
      subst hpl
      have hne := hp'.ne_nil
      cases fuel with
      | zero =>
        exfalso
        cases us with
        | nil => exact hne rfl
        | cons x xs => simp at hlen
      | succ f =>
        obtain ⟨a', c', hs', hpl', hb'⟩ := ih (findNodeWithScope_mem _ _ _ _ hf) e s ht f (by simpa using hlen)
        refine ⟨a', c', hs', hpl', ?_⟩
        rw [List.getD_eq_getElem?_getD, hget]
        simp only [Option.getD_some]
        rw [Cyc.bindChild, aliasIndexOf_alias P hacc id cur.modScope n' hf hn']
        exact hb'

/-- **a flattened name is an edge of the graph.** When a name resolves, through aliases, to a written type expression `e`
    (module scope `s`), `bindChild` — as `anonGraph` runs it — binds the name to the node `allocT` made of `e` (to nothing when
    `e` is a keyword), and that node is the start of an alias -/
theorem bind_of_resolve (P : Program) (hacc : validate P = []) (id scope : String) (e : TyExpr) (s : String) (extra : List Attr)
    (h : resolveNamed (buildTable P) .type id scope = .ok (.expr e s, extra)) :
    ∃ (a : Nat) (c : Cyc.AChild), (gStarts P)[a]? = some (s, c) ∧ PlacedE (gNodes P) s e c ∧
      gBind P scope (.named id) = childNode c := by
  unfold resolveNamed at h
  cases hf : findNodeWithScope (buildTable P) id scope with
  | none => rw [hf] at h; cases h
  | some n0 =>
    rw [hf] at h
    simp only at h
    by_cases ha : n0.isAlias = true
    · simp only [ha, if_true] at h
      cases hw : walkAlias (buildTable P) (numAliases (buildTable P) + 1) [] [] n0 with
      | error e => rw [hw] at h; cases h
      | ok res =>
        obtain ⟨tgt, attrs⟩ := res
        rw [hw] at h
        obtain ⟨links, hp, hl⟩ := walkAlias_path_len _ _ _ _ _ _ _ hw ha
        cases tgt with
        | node m => simp only at h; split at h <;> cases h
        | expr e' s' =>
          simp only at h
          split at h
          · simp only [Except.ok.injEq, Prod.mk.injEq, Target.expr.injEq] at h
            obtain ⟨⟨rfl, rfl⟩, _⟩ := h
            rw [numAliases_buildTable, ← gStarts_length] at hl
            obtain ⟨a, c, hs, hpl, hb⟩ := bindChild_along_path P hacc hp (findNodeWithScope_mem _ _ _ _ hf) _ _ rfl
              (gStarts P).length hl
            refine ⟨a, c, hs, hpl, ?_⟩
            unfold gBind
            rw [Cyc.bindChild, aliasIndexOf_alias P hacc id scope n0 hf ha]
            exact hb
          · cases h
    · simp only [ha, Bool.false_eq_true, if_false] at h
      split at h <;> cases h

def gGraph (P : Program) : Cyc.IGraph := (gNodes P).map fun nd => nd.children.filterMap (gBind P nd.scope)
def gStartNodes (P : Program) : List (Option Nat) := (gStarts P).map fun sc => gBind P sc.1 sc.2

/-- `Cyc.anonGraph`, by its parts -/
theorem anonGraph_eq (P : Program) : Cyc.anonGraph P = (gGraph P, gStartNodes P) := rfl

theorem gGraph_length (P : Program) : (gGraph P).length = (gNodes P).length := by simp [gGraph]

theorem mem_ibases_of_child (P : Program) (x : Nat) (s : String) (kids : List Cyc.AChild) (c : Cyc.AChild) (x' : Nat)
    (hx : (gNodes P)[x]? = some ⟨s, kids⟩) (hc : c ∈ kids) (hb : gBind P s c = some x') (hlt : x' < (gNodes P).length) :
    x' ∈ Cyc.ibases (gGraph P) x := by
  unfold Cyc.ibases
  rw [List.mem_filter]
  refine ⟨?_, by simpa [gGraph_length] using hlt⟩
  rw [List.getD_eq_getElem?_getD]
  have : (gGraph P)[x]? = some (kids.filterMap (gBind P s)) := by
    simp [gGraph, hx]
  rw [this]
  simp only [Option.getD_some]
  exact List.mem_filterMap.mpr ⟨c, hc, hb⟩

/-- the alias gate is silent: from no alias start can a cycle of anonymous types be reached -/
theorem gate_start_ok (P : Program) (hgate : Cyc.aliasGateErrors P = []) (a : Nat) (s : String) (x : Nat)
    (hs : (gStarts P)[a]? = some (s, .node x)) :
    Cyc.revisits (gGraph P) ((gGraph P).length + 1) x [] = false := by
  unfold Cyc.aliasGateErrors at hgate
  rw [anonGraph_eq] at hgate
  simp only [List.map_eq_nil_iff] at hgate
  unfold Cyc.aliasGate at hgate
  rw [List.filter_eq_nil_iff] at hgate
  have ha : a < (gStarts P).length := by
    rcases Nat.lt_or_ge a (gStarts P).length with h | h
    · exact h
    · rw [List.getElem?_eq_none h] at hs; cases hs
  have h1 := hgate a (List.mem_range.mpr (by simpa [gStartNodes] using ha))
  have h2 : (gStartNodes P).getD a none = some x := by
    rw [List.getD_eq_getElem?_getD]
    simp only [gStartNodes, List.getElem?_map, hs, Option.map_some, Option.getD_some]
    exact bindChild_not_named _ _ _ _ _ _ (by intro id h; cases h)
  rw [h2] at h1
  simpa using h1

def TyExpr.isAnon : TyExpr → Bool
  | .seq _ | .dict _ _ | .result _ _ => true
  | _ => false

theorem placedE_isAnon (nodes : List Cyc.ANode) (s : String) (e : TyExpr) (c : Cyc.AChild) (ha : e.isAnon = true)
    (h : PlacedE nodes s e c) : ∃ x, c = .node x ∧ x < nodes.length := by
  have lt : ∀ (x : Nat) (nd : Cyc.ANode), nodes[x]? = some nd → x < nodes.length := by
    intro x nd hx
    rcases Nat.lt_or_ge x nodes.length with h | h
    · exact h
    · rw [List.getElem?_eq_none h] at hx; cases hx
  cases e with
  | prim p => cases ha
  | named x => cases ha
  | seq r => obtain ⟨x, c1, h1, h2, _⟩ := h; exact ⟨x, h1, lt x _ h2⟩
  | dict k v => obtain ⟨x, ck, cv, h1, h2, _⟩ := h; exact ⟨x, h1, lt x _ h2⟩
  | result a b => obtain ⟨x, ca, cb, h1, h2, _⟩ := h; exact ⟨x, h1, lt x _ h2⟩

theorem tyWithin_not_anon (t : Table) (s : String) (fuel : Nat) (e : TyExpr) (ha : e.isAnon = false) :
    tyWithin t s (fuel + 1) e = true := by
  cases e with
  | prim p => simp [tyWithin]
  | named x => simp [tyWithin]
  | seq r => cases ha
  | dict k v => cases ha
  | result a b => cases ha

/-- one reference inside a node: if the descent below every child node it is bound to stays within `2 f + 1`, the reference
    stays within `2 f + 2` -/
theorem child_within (P : Program) (hacc : validate P = []) (f : Nat) (s : String) (r : TRef) (c : Cyc.AChild)
    (hpl : PlacedT (gNodes P) s r c)
    (ih : ∀ (x' : Nat) (e' : TyExpr) (s' : String), PlacedE (gNodes P) s' e' (.node x') → gBind P s c = some x' →
      tyWithin (buildTable P) s' (2 * f + 1) e' = true) :
    trefWithin (buildTable P) s (2 * f + 2) r = true := by
  cases r with
  | mk a ty o =>
    simp only [PlacedT] at hpl
    have h2 : 2 * f + 2 = (2 * f + 1) + 1 := by omega
    rw [h2]
    cases hty : ty.isAnon with
    | true =>
      obtain ⟨x1, hc, _⟩ := placedE_isAnon _ _ _ _ hty hpl
      subst hc
      have hw := ih x1 ty s hpl (bindChild_not_named _ _ _ _ _ _ (by intro id h; cases h))
      cases ty with
      | prim p => cases hty
      | named x => cases hty
      | seq r => simp only [trefWithin]; exact hw
      | dict k v => simp only [trefWithin]; exact hw
      | result a b => simp only [trefWithin]; exact hw
    | false =>
      cases ty with
      | seq r => cases hty
      | dict k v => cases hty
      | result a b => cases hty
      | prim p => simp [trefWithin, tyWithin]
      | named id =>
        simp only [PlacedE] at hpl
        subst hpl
        simp only [trefWithin]
        cases hr : resolveNamed (buildTable P) .type id s with
        | error e => simp
        | ok res =>
          obtain ⟨tgt, extra⟩ := res
          cases tgt with
          | node n => simp
          | expr e' s' =>
            simp only
            obtain ⟨a', c', _, hpl', hb⟩ := bind_of_resolve P hacc id s e' s' extra hr
            cases he : e'.isAnon with
            | false => exact tyWithin_not_anon _ _ _ _ he
            | true =>
              obtain ⟨x', hc', _⟩ := placedE_isAnon _ _ _ _ he hpl'
              subst hc'
              exact ih x' e' s' hpl' hb

/-- **the descent follows a path of the graph**: below a node from which `revisits_anonymous_type` finds no revisit — with the
    current path and `fuelR` nested frames — the converter's descent needs at most `2 fuelR + 1` units -/
theorem descent_in_graph (P : Program) (hacc : validate P = []) : ∀ (fuelR : Nat) (path : List Nat) (x : Nat) (e : TyExpr)
    (s : String), PlacedE (gNodes P) s e (.node x) → path.Nodup → (∀ p ∈ path, p < (gGraph P).length) →
    (gGraph P).length + 1 ≤ path.length + fuelR → Cyc.revisits (gGraph P) fuelR x path = false →
    tyWithin (buildTable P) s (2 * fuelR + 1) e = true := by
  intro fuelR
  induction fuelR with
  | zero =>
    intro path x e s _ hnd hlt hlen _
    have := List.Nodup.length_le_of_subset hnd (fun p hp => List.mem_range.2 (hlt p hp))
    simp only [List.length_range] at this
    omega
  | succ f ih =>
    intro path x e s hpl hnd hlt hlen hrev
    rw [Cyc.revisits_succ] at hrev
    cases hc : path.contains x with
    | true => rw [hc] at hrev; simp at hrev
    | false =>
      rw [hc] at hrev
      simp only [Bool.false_eq_true, if_false] at hrev
      have hx : x ∉ path := by simpa using hc
      have hxlt : x < (gNodes P).length := by
        obtain ⟨x0, h0, hl⟩ := placedE_isAnon _ _ e _ (by cases e <;> simp_all [PlacedE, TyExpr.isAnon]) hpl
        cases h0; exact hl
      have hnd' : (path ++ [x]).Nodup := by
        rw [List.nodup_append]
        refine ⟨hnd, by simp, ?_⟩
        intro a ha b hb
        simp only [List.mem_singleton] at hb
        subst hb
        intro hab; subst hab; exact hx ha
      have hlt' : ∀ p ∈ path ++ [x], p < (gGraph P).length := by
        intro p hp
        rcases List.mem_append.1 hp with hp | hp
        · exact hlt p hp
        · simp only [List.mem_singleton] at hp; subst hp; rw [gGraph_length]; exact hxlt
      have hlen' : (gGraph P).length + 1 ≤ (path ++ [x]).length + f := by
        simp only [List.length_append, List.length_singleton]; omega
      -- every child node the references of node `x` are bound to
      have kid : ∀ (kids : List Cyc.AChild) (c : Cyc.AChild), (gNodes P)[x]? = some ⟨s, kids⟩ → c ∈ kids →
          ∀ (x' : Nat) (e' : TyExpr) (s' : String), PlacedE (gNodes P) s' e' (.node x') → gBind P s c = some x' →
            tyWithin (buildTable P) s' (2 * f + 1) e' = true := by
        intro kids c hk hcm x' e' s' hpl' hb
        have hx'lt : x' < (gNodes P).length := by
          obtain ⟨x0, h0, hl⟩ := placedE_isAnon _ _ e' _ (by cases e' <;> simp_all [PlacedE, TyExpr.isAnon]) hpl'
          cases h0; exact hl
        have hmem := mem_ibases_of_child P x s kids c x' hk hcm hb hx'lt
        have hr : Cyc.revisits (gGraph P) f x' (path ++ [x]) = false := by
          cases hh : Cyc.revisits (gGraph P) f x' (path ++ [x]) with
          | false => rfl
          | true =>
            have : ((Cyc.ibases (gGraph P) x).any fun c => Cyc.revisits (gGraph P) f c (path ++ [x])) = true :=
              List.any_eq_true.mpr ⟨x', hmem, hh⟩
            rw [this] at hrev; cases hrev
        exact ih (path ++ [x]) x' e' s' hpl' hnd' hlt' hlen' hr
      have h3 : 2 * (f + 1) + 1 = (2 * f + 2) + 1 := by omega
      rw [h3]
      cases e with
      | prim p => simp [PlacedE] at hpl
      | named id => simp [PlacedE] at hpl
      | seq r =>
        obtain ⟨x0, c1, h0, hk, hp1⟩ := hpl
        cases h0
        simp only [tyWithin]
        exact child_within P hacc f s r c1 hp1 (kid _ c1 hk (by simp))
      | dict k v =>
        obtain ⟨x0, ck, cv, h0, hk, hp1, hp2⟩ := hpl
        cases h0
        simp only [tyWithin, Bool.and_eq_true]
        exact ⟨child_within P hacc f s k ck hp1 (kid _ ck hk (by simp)), child_within P hacc f s v cv hp2 (kid _ cv hk (by simp))⟩
      | result a b =>
        obtain ⟨x0, ca, cb, h0, hk, hp1, hp2⟩ := hpl
        cases h0
        simp only [tyWithin, Bool.and_eq_true]
        exact ⟨child_within P hacc f s a ca hp1 (kid _ ca hk (by simp)), child_within P hacc f s b cb hp2 (kid _ cb hk (by simp))⟩

theorem tyWithin_le (t : Table) (scope : String) (e : TyExpr) {a b : Nat} (hab : a ≤ b)
    (h : tyWithin t scope a e = true) : tyWithin t scope b e = true := by
  induction hab with
  | refl => exact h
  | step _ ih => exact (within_mono t _).2 scope e ih

/-- the units the descent needs below any alias start of a program that passed the alias gate -/
def gateFuel (P : Program) : Nat := 2 * ((gNodes P).length + 1) + 1

/-- **(b), with C05's alias gate**: in a program accepted by the compiler model on which the alias gate is silent, a written
    type reference with `d` nested anonymous types — wherever it is written, whatever it names — is flattened within
    `2 d + 2 + gateFuel P` units: its own nesting, plus at most one pass through every anonymous type written in an alias
    definition (the descent follows a path of the graph of anonymous types, which has no cycle below an alias start). -/
theorem within_of_gate (P : Program) (hacc : validate P = []) (hgate : Cyc.aliasGateErrors P = []) (scope : String) :
    ∀ fuel : Nat,
    (∀ r : TRef, 2 * r.nesting + 2 + gateFuel P ≤ fuel → trefWithin (buildTable P) scope fuel r = true) ∧
    (∀ e : TyExpr, 2 * e.nesting + 1 + gateFuel P ≤ fuel → tyWithin (buildTable P) scope fuel e = true) := by
  intro fuel
  induction fuel with
  | zero =>
    constructor
    · intro r h; omega
    · intro e h; omega
  | succ fuel ih =>
    obtain ⟨ihT, ihE⟩ := ih
    constructor
    · intro r hd
      cases r with
      | mk attrs ty opt =>
        simp only [TRef.nesting] at hd
        cases ty with
        | named id =>
          simp only [trefWithin]
          cases hr : resolveNamed (buildTable P) .type id scope with
          | error e => simp
          | ok res =>
            obtain ⟨tgt, extra⟩ := res
            cases tgt with
            | node n => simp
            | expr e' s' =>
              simp only
              obtain ⟨a, c, hs, hpl, _⟩ := bind_of_resolve P hacc id scope e' s' extra hr
              simp only [TyExpr.nesting] at hd
              cases he : e'.isAnon with
              | false =>
                cases fuel with
                | zero => simp only [gateFuel] at hd; omega
                | succ k => exact tyWithin_not_anon _ _ _ _ he
              | true =>
                obtain ⟨x, hc, _⟩ := placedE_isAnon _ _ _ _ he hpl
                subst hc
                have hrev := gate_start_ok P hgate a s' x hs
                have hw := descent_in_graph P hacc ((gGraph P).length + 1) [] x e' s' hpl List.nodup_nil
                  (by intro p hp; cases hp) (by simp) hrev
                rw [gGraph_length] at hw
                exact tyWithin_le _ _ _ (by simp only [gateFuel] at hd; omega) hw
        | prim pr => simp only [trefWithin]; exact ihE _ (by omega)
        | seq e => simp only [trefWithin]; exact ihE _ (by omega)
        | dict k v => simp only [trefWithin]; exact ihE _ (by omega)
        | result s f => simp only [trefWithin]; exact ihE _ (by omega)
    · intro e hd
      cases e with
      | prim pr => simp [tyWithin]
      | named id => simp [tyWithin]
      | seq e =>
        simp only [TyExpr.nesting] at hd
        simp only [tyWithin]
        exact ihT e (by omega)
      | dict k v =>
        simp only [TyExpr.nesting] at hd
        simp only [tyWithin, Bool.and_eq_true]
        exact ⟨ihT k (by omega), ihT v (by omega)⟩
      | result s f =>
        simp only [TyExpr.nesting] at hd
        simp only [tyWithin, Bool.and_eq_true]
        exact ⟨ihT s (by omega), ihT f (by omega)⟩

mutual
/-- number of anonymous types (sequences, dictionaries, results) written in a reference -/
def TRef.anonTypes : TRef → Nat
  | .mk _ ty _ => ty.anonTypes
def TyExpr.anonTypes : TyExpr → Nat
  | .prim _ => 0
  | .named _ => 0
  | .seq e => e.anonTypes + 1
  | .dict k v => k.anonTypes + v.anonTypes + 1
  | .result s f => s.anonTypes + f.anonTypes + 1
end

mutual
theorem allocT_length : ∀ (r : TRef) (s : String) (off : Nat), (Cyc.allocT s r off).2.length = r.anonTypes
  | .mk a ty o, s, off => by simp only [Cyc.allocT, TRef.anonTypes]; exact allocE_length ty s off
theorem allocE_length : ∀ (e : TyExpr) (s : String) (off : Nat), (Cyc.allocE s e off).2.length = e.anonTypes
  | .prim p, s, off => by simp [Cyc.allocE, TyExpr.anonTypes]
  | .named id, s, off => by simp [Cyc.allocE, TyExpr.anonTypes]
  | .seq r, s, off => by simp [Cyc.allocE, TyExpr.anonTypes, allocT_length r]
  | .dict k v, s, off => by simp [Cyc.allocE, TyExpr.anonTypes, allocT_length k, allocT_length v]
  | .result a b, s, off => by simp [Cyc.allocE, TyExpr.anonTypes, allocT_length a, allocT_length b]
end

theorem foldl_alloc_length : ∀ (as : List (String × String × TRef)) (acc : List Cyc.ANode × List (String × Cyc.AChild)),
    (as.foldl allocStep acc).1.length = acc.1.length + (as.map fun a => a.2.2.anonTypes).sum
  | [], acc => by simp
  | a :: as, acc => by
    simp only [List.foldl_cons, List.map_cons, List.sum_cons]
    rw [foldl_alloc_length as]
    simp only [allocStep, List.length_append, allocT_length]
    omega

/-- the number of nodes of the graph of anonymous types: the anonymous types written in the alias definitions -/
def anonCount (P : Program) : Nat := ((Cyc.aliasDefs P).map fun a => a.2.2.anonTypes).sum

theorem gNodes_length (P : Program) : (gNodes P).length = anonCount P := by
  unfold gNodes anonCount
  rw [anonAlloc_eq, foldl_alloc_length]
  simp

/-- **(b) in closed form**: accepted + alias gate silent ⇒ a reference with `d` written nested anonymous types is flattened
    within `2 d + 2 n + 5` units, `n` = number of anonymous types written in alias definitions -/
theorem accepted_gate_within (P : Program) (hacc : validate P = []) (hgate : Cyc.aliasGateErrors P = []) (scope : String)
    (r : TRef) : trefWithin (buildTable P) scope (2 * r.nesting + 2 * anonCount P + 5) r = true := by
  refine (within_of_gate P hacc hgate scope _).1 r ?_
  simp only [gateFuel, gNodes_length]
  omega

/-- a purely syntactic size condition (decidable, no resolution involved): every written reference of a visited position
    nests few enough anonymous types for the bound `2 d + 2 n + 5` to stay within the converter model's `elabFuel` -/
def NestingSmall (P : Program) : Bool :=
  P.all fun f => f.defs.all fun d =>
    (Validate.defVisitedTRefs d).all fun r => decide (2 * r.nesting + 2 * anonCount P + 5 ≤ elabFuel)

/-- the descent bound from acceptance, the alias gate, and the syntactic size condition -/
theorem descentWithin_of_gate (P : Program) (hacc : validate P = []) (hgate : Cyc.aliasGateErrors P = [])
    (hsmall : NestingSmall P = true) : DescentWithin P = true := by
  unfold DescentWithin
  rw [List.all_eq_true]
  intro f hf
  rw [List.all_eq_true]
  intro d hd
  rw [List.all_eq_true]
  intro r hr
  have h1 := List.all_eq_true.mp ((List.all_eq_true.mp ((List.all_eq_true.mp hsmall) f hf)) d hd) r hr
  exact trefWithin_le _ _ _ (by simpa using h1) (accepted_gate_within P hacc hgate f.modPath r)

/-- the alias gate as part of C05's model of `detect_cycles` -/
theorem gate_accepts_alias (P : Program) (h : (Cyc.gateOfProgram P).rejected = false) : Cyc.aliasGateErrors P = [] := by
  unfold Cyc.gateOfProgram Cyc.cycleGate at h
  cases hg : Cyc.aliasGateErrors P with
  | nil => rfl
  | cons a as => rw [hg] at h; simp [Cyc.GateOutcome.rejected] at h

end Slicec

/-! ## the two-file program of Props/C08.lean is accepted by the compiler model; programs that show each hypothesis is needed -/
namespace Slicec.C08Demo
open Slicec

/-- `String.splitOn` is defined by well-founded recursion on byte positions and does not evaluate in the kernel; unrolled by hand -/
theorem split_cs_ns : "cs::ns".splitOn "::" = ["cs", "ns"] := by
  unfold String.splitOn
  rw [if_neg (by decide)]
  rw [String.splitOnAux.eq_1, if_neg (by decide), if_neg (by decide)]
  rw [String.splitOnAux.eq_1, if_neg (by decide), if_neg (by decide)]
  rw [String.splitOnAux.eq_1, if_neg (by decide), if_pos (by decide)]
  simp only
  rw [if_neg (by decide)]
  rw [String.splitOnAux.eq_1, if_neg (by decide), if_pos (by decide)]
  simp only
  rw [if_pos (by decide)]
  rw [String.splitOnAux.eq_1, if_neg (by decide), if_neg (by decide)]
  rw [String.splitOnAux.eq_1, if_neg (by decide), if_neg (by decide)]
  rw [String.splitOnAux.eq_1, if_pos (by decide)]
  decide

theorem split_cs_1 (c : Char) (h : c = 't' ∨ c = 'u') :
    ("cs::" ++ String.singleton c).splitOn "::" = ["cs", String.singleton c] := by
  rcases h with rfl | rfl <;>
  · unfold String.splitOn
    rw [if_neg (by decide)]
    rw [String.splitOnAux.eq_1, if_neg (by decide), if_neg (by decide)]
    rw [String.splitOnAux.eq_1, if_neg (by decide), if_neg (by decide)]
    rw [String.splitOnAux.eq_1, if_neg (by decide), if_pos (by decide)]
    simp only
    rw [if_neg (by decide)]
    rw [String.splitOnAux.eq_1, if_neg (by decide), if_pos (by decide)]
    simp only
    rw [if_pos (by decide)]
    rw [String.splitOnAux.eq_1, if_neg (by decide), if_neg (by decide)]
    rw [String.splitOnAux.eq_1, if_pos (by decide)]
    decide

/-- an attribute with a foreign prefix (`cs::…`) passes attribute patching -/
theorem patch_foreign (d : String) (args : List String) (p q : String) (rest : List String)
    (hrow : Validate.attrRow d = none) (hs : d.splitOn "::" = p :: q :: rest) (hp : (p == Gen.attributePrefix) = false) :
    Validate.patchAttrCheck ⟨d, args⟩ = [] := by
  unfold Validate.patchAttrCheck
  simp only [hrow]
  unfold Validate.directivePrefix
  rw [hs]
  simp only [hp]
  rfl

theorem demo_attrs : Validate.attrPatchRule.codes (programOf files) = [] := by
  show ((programOf files).flatMap Validate.fileAllAttrs).flatMap Validate.patchAttrCheck = []
  have h : (programOf files).flatMap Validate.fileAllAttrs = [⟨"cs::ns", ["X"]⟩, ⟨"cs::t", []⟩, ⟨"cs::u", []⟩] := by decide
  rw [h]
  simp only [List.flatMap_cons, List.flatMap_nil, List.append_nil]
  rw [patch_foreign "cs::ns" ["X"] "cs" "ns" [] (by decide) split_cs_ns (by decide),
      patch_foreign "cs::t" [] "cs" "t" [] (by decide) (split_cs_1 't' (Or.inl rfl)) (by decide),
      patch_foreign "cs::u" [] "cs" "u" [] (by decide) (split_cs_1 'u' (Or.inr rfl)) (by decide)]
  rfl

/-- **the two-file program is accepted by the compiler model**: no phase of `validate` reports a code (the lookups of the
    resolution, cycle and visitor phases are evaluated by the kernel) -/
theorem demo_accepted : validate (programOf files) = [] := by
  unfold validate
  rw [Validate.firstNonEmpty_nil_iff]
  intro l hl
  simp only [Validate.phases, List.mem_cons, List.not_mem_nil, or_false] at hl
  rcases hl with rfl | rfl | rfl | rfl | rfl | rfl
  · decide
  · exact demo_attrs
  · decide +kernel
  · decide +kernel
  · decide
  · decide +kernel

theorem demo_shaped : ParserShaped (programOf files) = true := by decide

theorem demo_within : DescentWithin (programOf files) = true := by decide +kernel

/-- C05's alias gate is silent on it, and it is small: the descent bound also follows from `descentWithin_of_gate` -/
theorem demo_gate : Cyc.aliasGateErrors (programOf files) = [] := by decide +kernel

theorem demo_small : NestingSmall (programOf files) = true := by decide +kernel

/-! ### each hypothesis of the bridge is needed -/

def nestSeq : Nat → TRef
  | 0 => .mk [] (.prim .bool) false
  | n + 1 => .mk [] (.seq (nestSeq n)) false

/-- `module M  struct S { x: Sequence<Sequence<…<bool>…>> }` with 32 nested sequences: a legal Slice program -/
def deepFile : SFile :=
  { fileAttrs := [], module := some ⟨[], "M"⟩, defs := [.struct [] [] false "S" [⟨[], [], none, "x", nestSeq 32⟩]] }
def deep : List ReqFile := [⟨"a.slice", true, deepFile⟩]

/-- the compiler model accepts it and it is shaped as the parser shapes it, but the descent of the converter MODEL
    (`elabFuel = 64` = 2·31 + 2) is exhausted on it: the descent bound is a constant of the model, not a consequence of
    acceptance. (With 31 nested sequences the bound holds.) -/
theorem deep_accepted_not_within :
    validate (programOf deep) = [] ∧ ParserShaped (programOf deep) = true ∧ DescentWithin (programOf deep) = false ∧
    AllResolve deep = false ∧
    trefWithin (buildTable (programOf deep)) "M" elabFuel (nestSeq 31) = true := by
  refine ⟨by decide +kernel, by decide, by decide +kernel, by decide +kernel, by decide +kernel⟩

/-- `module M  typealias A = Sequence<A>`: the patcher binds the element reference to the very sequence that contains it;
    the real compiler rejects the program in the alias gate of `detect_cycles` (E019, C05's `aliasGateErrors`), which is NOT
    one of the phases of `validate` -/
def aliasLoopFile : SFile :=
  { fileAttrs := [], module := some ⟨[], "M"⟩,
    defs := [.alias [] [] "A" (.mk [] (.seq (.mk [] (.named "A") false)) false)] }
def aliasLoop : List ReqFile := [⟨"a.slice", true, aliasLoopFile⟩]

theorem aliasLoop_accepted_not_within :
    validate (programOf aliasLoop) = [] ∧ ParserShaped (programOf aliasLoop) = true ∧
    Cyc.aliasGateErrors (programOf aliasLoop) = ["M::A"] ∧
    DescentWithin (programOf aliasLoop) = false ∧ AllResolve aliasLoop = false := by
  refine ⟨by decide +kernel, by decide, by decide +kernel, by decide +kernel, by decide +kernel⟩

/-- `module M  interface I : bool {}`: the parser reports the base (E017, `construct_interface`) and drops it; `validate`
    has no such parse-time check -/
def primBaseFile : SFile :=
  { fileAttrs := [], module := some ⟨[], "M"⟩, defs := [.iface [] [] "I" [.mk [] (.prim .bool) false] []] }
def primBase : List ReqFile := [⟨"a.slice", true, primBaseFile⟩]

/-- a module declaration without a name cannot be written, but the abstract syntax has it: `module ⟨⟩  struct S {}` -/
def noNameFile : SFile := { fileAttrs := [], module := some ⟨[], ""⟩, defs := [.struct [] [] false "S" []] }
def noName : List ReqFile := [⟨"a.slice", true, noNameFile⟩]

theorem shape_needed :
    (validate (programOf primBase) = [] ∧ DescentWithin (programOf primBase) = true ∧ ParserShaped (programOf primBase) = false ∧
      AllResolve primBase = false) ∧
    (validate (programOf noName) = [] ∧ DescentWithin (programOf noName) = true ∧ ParserShaped (programOf noName) = false ∧
      AllResolve noName = false) := by
  refine ⟨⟨by decide +kernel, by decide +kernel, by decide, by decide +kernel⟩,
          ⟨by decide +kernel, by decide +kernel, by decide, by decide +kernel⟩⟩

end Slicec.C08Demo
