/-
  C08 with the complete pipeline: acceptance by `validateFull` (Model/Pipeline.lean) gives the two hypotheses of
  `compiled_programs_resolve_gate` that `validate` could not give — every base of an interface is written as a name (the
  parser's E017) and the alias gate is silent (E019 of `detect_cycles`). What stays explicit is what no phase of the compiler
  looks at: a module declaration with an empty path (only the abstract syntax can express it), and the descent constant of
  the converter MODEL (`NestingSmall`).
-/
import SlicecVerif.Lemmas.RequestBridge
import SlicecVerif.Lemmas.Pipeline

namespace Slicec

/-- every module declaration names a module. The grammar demands an identifier after `module`, so every parsed file satisfies
    this; the abstract syntax can express `module ""`, which no phase of the compiler (hence of the model) would notice. -/
def ModulesNamed (P : Program) : Bool :=
  P.all fun f => match f.module with | some m => !m.path.isEmpty | none => true

/-- `ParserShaped` = module declarations are named + the interface half of the shape rule -/
theorem parserShaped_of_shape (P : Program) (hm : ModulesNamed P = true) (hs : Validate.ShapeOK P) : ParserShaped P = true := by
  unfold ParserShaped
  rw [List.all_eq_true]
  intro f hf
  unfold fileShaped
  rw [Bool.and_eq_true]
  refine ⟨(List.all_eq_true.mp hm) f hf, ?_⟩
  rw [List.all_eq_true]
  intro d hd
  have hsd := hs f hf d hd
  cases d with
  | struct doc attrs compact name fields => rfl
  | custom doc attrs name => rfl
  | alias doc attrs name ty => rfl
  | «enum» doc attrs compact unchecked name underlying es => rfl
  | iface doc attrs name bases ops =>
    simp only [List.all_eq_true]
    intro b hb
    obtain ⟨id, hid⟩ := hsd b hb
    rw [hid]

theorem modulesNamed_of_parserShaped (P : Program) (h : ParserShaped P = true) : ModulesNamed P = true := by
  unfold ModulesNamed
  rw [List.all_eq_true]
  intro f hf
  have := (List.all_eq_true.mp h) f hf
  unfold fileShaped at this
  rw [Bool.and_eq_true] at this
  exact this.1

/-- **the bridge from the complete verdict.** A program the complete pipeline accepts, whose module declarations are named and
    whose written types are syntactically small, satisfies the converter's guard. -/
theorem allResolve_of_accepted_full (fs : List ReqFile) (hacc : validateFull (programOf fs) = [])
    (hmod : ModulesNamed (programOf fs) = true) (hsmall : NestingSmall (programOf fs) = true) : AllResolve fs = true := by
  obtain ⟨hv, hs, hg, _⟩ := (Validate.validateFull_nil_iff _).mp hacc
  exact allResolve_of_accepted fs hv (parserShaped_of_shape _ hmod hs) (descentWithin_of_gate _ hv hg hsmall)

end Slicec

namespace Slicec.C08Demo
open Slicec

/-- the two-file program of Props/C08.lean is accepted by the complete pipeline -/
theorem demo_accepted_full : validateFull (programOf files) = [] :=
  (Validate.validateFull_nil_iff _).mpr ⟨demo_accepted, by decide, demo_gate, by decide +kernel⟩

theorem demo_modules_named : ModulesNamed (programOf files) = true := by decide

/-- the two programs that showed `validate` lacks a phase are rejected by the complete pipeline, with the compiler's code -/
theorem aliasLoop_rejected_full :
    validateFull (programOf aliasLoop) = [Validate.code "SelfReferentialTypeAliasNeedsConcreteType"] := by decide +kernel

theorem primBase_rejected_full : validateFull (programOf primBase) = [Validate.code "TypeMismatch"] := by decide +kernel

/-- what stays explicit: a module declaration without a name passes every phase, and 32 nested sequences are accepted -/
theorem noName_accepted_full :
    validateFull (programOf noName) = [] ∧ ModulesNamed (programOf noName) = false ∧ AllResolve noName = false := by
  refine ⟨by decide +kernel, by decide, by decide +kernel⟩

theorem deep_accepted_full :
    validateFull (programOf deep) = [] ∧ ModulesNamed (programOf deep) = true ∧ NestingSmall (programOf deep) = false ∧
    AllResolve deep = false := by
  refine ⟨(Validate.validateFull_nil_iff _).mpr ⟨deep_accepted_not_within.1, by decide, by decide +kernel, by decide +kernel⟩,
    by decide, by decide +kernel, deep_accepted_not_within.2.2.2.1⟩

end Slicec.C08Demo
