/-
  C15 — the lints the compiler records (the model `lintSites` of C13) do not depend on the order of the input files.

  A lint site carries the *index* of its file, which a permutation changes; `LintSite.located` replaces the index by the
  file itself. `lintSites_located_perm`: for `P.Perm P'` and `UniqueKeys P` the located lint sites of `P'` are a
  permutation of those of `P`.
-/
import SlicecVerif.Lemmas.PermTable
import SlicecVerif.Model.Lints

namespace Slicec

/-! ## lint generators consult the table only through what `TableSim` preserves -/

theorem isDeprecatedTarget_fun (t1 t2 : Table) (h : TableSim t1 t2) : isDeprecatedTarget t1 = isDeprecatedTarget t2 := by
  funext id ms
  unfold isDeprecatedTarget
  rcases optmap_cases (findNodeWithScope_sim t1 t2 h id ms) with ⟨h1, h2⟩ | ⟨n1, n2, h1, h2, hn⟩
  · rw [h1, h2]
  · rw [h1, h2]
    obtain ⟨hk, _, _, _, _, _, ha⟩ := NodeInfo.norm_fields hn
    simp only
    rw [← hk]
    by_cases hm : n1.kind = .module
    · simp [hm]
    · rw [ha hm]

theorem directHit_fun (t1 t2 : Table) (h : TableSim t1 t2) : directHit t1 = directHit t2 := by
  funext ms path r
  unfold directHit
  rw [isDeprecatedTarget_fun t1 t2 h]

mutual
theorem anonHits_sim (t1 t2 : Table) (h : TableSim t1 t2) : ∀ (r : TRef) (ms path : String), anonHits t1 ms path r = anonHits t2 ms path r
  | .mk _ ty _, ms, path => by
    simp only [anonHits]
    exact anonHitsTy_sim t1 t2 h ty ms path
theorem anonHitsTy_sim (t1 t2 : Table) (h : TableSim t1 t2) : ∀ (e : TyExpr) (ms path : String), anonHitsTy t1 ms path e = anonHitsTy t2 ms path e
  | .prim _, _, _ => by simp only [anonHitsTy]
  | .named _, _, _ => by simp only [anonHitsTy]
  | .seq e, ms, path => by
    simp only [anonHitsTy]
    rw [anonHits_sim t1 t2 h e, directHit_fun t1 t2 h]
  | .dict k v, ms, path => by
    simp only [anonHitsTy]
    rw [anonHits_sim t1 t2 h k, anonHits_sim t1 t2 h v, directHit_fun t1 t2 h]
  | .result s f, ms, path => by
    simp only [anonHitsTy]
    rw [anonHits_sim t1 t2 h s, anonHits_sim t1 t2 h f, directHit_fun t1 t2 h]
end

theorem anonHits_fun (t1 t2 : Table) (h : TableSim t1 t2) : anonHits t1 = anonHits t2 := by
  funext ms path r
  exact anonHits_sim t1 t2 h r ms path

theorem defDeprecatedSites_fun (t1 t2 : Table) (h : TableSim t1 t2) : defDeprecatedSites t1 = defDeprecatedSites t2 := by
  funext file ms path d
  unfold defDeprecatedSites memberRefSites
  rw [anonHits_fun t1 t2 h, directHit_fun t1 t2 h]

theorem linkBroken_fun (t1 t2 : Table) (h : TableSim t1 t2) : linkBroken t1 = linkBroken t2 := by
  funext c id
  unfold linkBroken
  rcases optmap_cases (findNodeWithScope_sim t1 t2 h id c.key) with ⟨h1, h2⟩ | ⟨n1, n2, h1, h2, hn⟩
  · rw [h1, h2]
  · rw [h1, h2]
    simp only [(NodeInfo.norm_fields hn).1]

theorem brokenLinkSites_fun (t1 t2 : Table) (h : TableSim t1 t2) : brokenLinkSites t1 = brokenLinkSites t2 := by
  funext file c
  unfold brokenLinkSites
  rw [linkBroken_fun t1 t2 h]

/-! ## the file index of a site -/

def LintSite.setFile (i : Nat) (s : LintSite) : LintSite := { s with file := i }

/-- a lint site with the file it lies in — the file itself instead of its position in the list of inputs -/
def LintSite.located (P : Program) (s : LintSite) : Option SFile × LintSite := (P[s.file]?, s.setFile 0)

/-- a generator of sites that uses the file index only to stamp it on the sites -/
def FileUniform (G : Nat → List LintSite) : Prop := ∀ i, G i = (G 0).map (LintSite.setFile i)

theorem FileUniform.flatMap {α} (l : List α) (G : α → Nat → List LintSite) (h : ∀ a ∈ l, FileUniform (G a)) :
    FileUniform fun i => l.flatMap fun a => G a i := by
  intro i
  simp only
  rw [List.map_flatMap]
  exact flatMap_congr_mem _ _ _ fun a ha => h a ha i

theorem FileUniform.append {G H : Nat → List LintSite} (hG : FileUniform G) (hH : FileUniform H) :
    FileUniform fun i => G i ++ H i := by
  intro i
  simp only
  rw [List.map_append, ← hG i, ← hH i]

theorem FileUniform.const_map {α} (l : List α) (s : Nat → LintSite) (hs : ∀ i, s i = (s 0).setFile i) :
    FileUniform fun i => l.map fun _ => s i := by
  intro i
  simp only [List.map_map]
  apply List.map_congr_left
  intro _ _
  exact hs i

theorem FileUniform.nil : FileUniform fun _ => [] := fun _ => rfl

theorem docSite_setFile (k : String) (i : Nat) (c : Commented) : (docSite k 0 c).setFile i = docSite k i c := rfl

theorem depSite_setFile (i : Nat) (m : MemberRef) (path : String) : (depSite 0 m path).setFile i = depSite i m path := rfl

theorem malformedSites_uniform (c : Commented) : FileUniform fun i => malformedSites i c := by
  intro i
  unfold malformedSites
  split
  · simp only [List.map_cons, List.map_nil, docSite_setFile]
  · rfl

theorem brokenLinkSites_uniform (t : Table) (c : Commented) : FileUniform fun i => brokenLinkSites t i c := by
  intro i
  unfold brokenLinkSites
  simp only
  split
  · rfl
  · simp only [List.map_map, Function.comp_def, docSite_setFile]

theorem incorrectTagSites_uniform (c : Commented) : FileUniform fun i => incorrectTagSites i c := by
  intro i
  unfold incorrectTagSites
  simp only
  split
  · rfl
  · cases c.rets with
    | none =>
      simp only
      split <;> simp only [List.map_append, List.map_map, Function.comp_def, docSite_setFile, List.map_nil]
    | some rets =>
      simp only
      match rets with
      | [] => simp only [List.map_append, List.map_map, Function.comp_def, docSite_setFile]
      | [_] => simp only [List.map_append, List.map_map, Function.comp_def, docSite_setFile]
      | _ :: _ :: _ => simp only [List.map_append, List.map_map, Function.comp_def, docSite_setFile]

theorem memberRefSites_uniform (t : Table) (ms : String) (l : List MemberRef) : FileUniform fun i => memberRefSites t i ms l := by
  intro i
  unfold memberRefSites
  simp only [List.map_append, List.map_flatMap, List.map_map, Function.comp_def, depSite_setFile]

theorem defDeprecatedSites_uniform (t : Table) (ms path : String) (d : Def) : FileUniform fun i => defDeprecatedSites t i ms path d := by
  unfold defDeprecatedSites
  exact FileUniform.flatMap _ (fun g i => memberRefSites t i ms g) fun g _ => memberRefSites_uniform t ms g

/-! ## located sites of one block of `lintSites` -/

theorem zipIdx_flatMap_fst {α β} (l : List α) (k : Nat) (K : α → List β) : (l.zipIdx k).flatMap (fun fi => K fi.1) = l.flatMap K := by
  induction l generalizing k with
  | nil => rfl
  | cons a l ih => rw [List.zipIdx_cons, List.flatMap_cons, List.flatMap_cons, ih]

/-- the sites one file contributes to a block of `lintSites` -/
def fileLintSites (g : Nat → String → String → Def → List LintSite) (f : SFile) (i : Nat) : List LintSite :=
  f.defs.zipIdx.flatMap fun (d, j) => g i (fileModScope f) ("d" ++ toString j) d

theorem perDef_eq (P : Program) (g : Nat → String → String → Def → List LintSite) :
    perDef P g = P.zipIdx.flatMap fun fi => fileLintSites g fi.1 fi.2 := rfl

theorem fileSites_uniform (g : Nat → String → String → Def → List LintSite)
    (hg : ∀ ms path d, FileUniform fun i => g i ms path d) (f : SFile) : FileUniform (fileLintSites g f) := by
  intro i
  unfold fileLintSites
  rw [List.map_flatMap]
  apply flatMap_congr_mem
  intro dj _
  obtain ⟨d, j⟩ := dj
  exact hg _ _ _ i

/-- … stamped with file index 0 and tagged with the file -/
def fileLintBlock (g : Nat → String → String → Def → List LintSite) (f : SFile) : List (Option SFile × LintSite) :=
  (fileLintSites g f 0).map fun s => (some f, s.setFile 0)

theorem perDef_located (P : Program) (g : Nat → String → String → Def → List LintSite)
    (hg : ∀ ms path d, FileUniform fun i => g i ms path d) :
    (perDef P g).map (LintSite.located P) = P.flatMap (fileLintBlock g) := by
  rw [perDef_eq, List.map_flatMap, ← zipIdx_flatMap_fst P 0 (fileLintBlock g)]
  apply flatMap_congr_mem
  intro fi hfi
  obtain ⟨f, i⟩ := fi
  have hget : P[i]? = some f := List.mem_zipIdx_iff_getElem?.mp hfi
  simp only
  unfold fileLintBlock
  rw [fileSites_uniform g hg f i, List.map_map]
  apply List.map_congr_left
  intro s _
  simp only [Function.comp, LintSite.located, LintSite.setFile, hget]

/-- the located lint sites of a program, file by file -/
theorem lintSites_located (P : Program) :
    (lintSites P).map (LintSite.located P) =
      P.flatMap (fileLintBlock fun i ms path d => (defCommentedParseOrder ms path d).flatMap (malformedSites i)) ++
      P.flatMap (fileLintBlock fun i ms path d => defDeprecatedSites (buildTable P) i ms path d) ++
      P.flatMap (fileLintBlock fun i ms path d => (defCommentedAstOrder ms path d).flatMap (brokenLinkSites (buildTable P) i)) ++
      P.flatMap (fileLintBlock fun i ms path d => (defCommentedVisitOrder ms path d).flatMap (incorrectTagSites i)) := by
  unfold lintSites
  simp only [List.map_append]
  rw [perDef_located P _ (fun ms path d => FileUniform.flatMap _ (fun c i => malformedSites i c) fun c _ => malformedSites_uniform c),
    perDef_located P _ (fun ms path d => defDeprecatedSites_uniform (buildTable P) ms path d),
    perDef_located P _ (fun ms path d => FileUniform.flatMap _ (fun c i => brokenLinkSites (buildTable P) i c) fun c _ =>
      brokenLinkSites_uniform (buildTable P) c),
    perDef_located P _ (fun ms path d => FileUniform.flatMap _ (fun c i => incorrectTagSites i c) fun c _ => incorrectTagSites_uniform c)]

/-- **the lints do not depend on the order of the files**: the located lint sites (which lint, in which file, about which
    element, with which scope, `allow` chain and position) of a permuted program are a permutation of the original's -/
theorem lintSites_located_perm (P P' : Program) (hp : P.Perm P') (hu : UniqueKeys P) :
    ((lintSites P).map (LintSite.located P)).Perm ((lintSites P').map (LintSite.located P')) := by
  rw [lintSites_located P, lintSites_located P', defDeprecatedSites_fun _ _ (buildTable_sim P P' hp hu),
    brokenLinkSites_fun _ _ (buildTable_sim P P' hp hu)]
  exact (((hp.flatMap_right _).append (hp.flatMap_right _)).append (hp.flatMap_right _)).append (hp.flatMap_right _)

end Slicec

/-! ## the level a lint is emitted with (`into_updated`): `--allow`, file-level `allow`, `allow` of the element named by the scope -/

namespace Slicec

theorem fileModScope_eq_modPath (f : SFile) : fileModScope f = f.modPath := by
  unfold fileModScope SFile.modPath
  cases f.module <;> rfl

theorem defAllowEntries_keys (ms : String) (d : Def) : (defAllowEntries ms d).map (·.1) = Table.keys (defEntries 0 ms d) := by
  cases d <;>
    simp [defAllowEntries, defEntries, memberAllows, fieldEntries, opEntries, paramEntries, enumeratorEntries, Table.keys,
      List.map_flatMap, Function.comp_def]

theorem declAllow_keys (f : SFile) : (f.defs.flatMap (defAllowEntries (fileModScope f))).map (·.1) = f.declKeys := by
  unfold SFile.declKeys declTable Table.keys
  rw [List.map_flatMap, List.map_flatMap, fileModScope_eq_modPath]
  exact flatMap_congr_mem _ _ _ fun d _ => defAllowEntries_keys _ d

theorem fileAllowEntries_keys (f : SFile) : (fileAllowEntries f).map (·.1) = f.allKeys := by
  unfold fileAllowEntries SFile.allKeys
  rw [fileEntries_eq, List.map_append, declAllow_keys]
  unfold Table.keys
  rw [List.map_append]
  congr 1
  unfold modEntries
  cases f.module <;> rfl

theorem fileAllowEntries_module (f : SFile) (x : String × Option (List (List String))) (hx : x ∈ fileAllowEntries f)
    (hk : x.1 ∉ f.declKeys) : x = (x.1, none) := by
  unfold fileAllowEntries at hx
  rcases List.mem_append.mp hx with h | h
  · exact absurd (by rw [← declAllow_keys]; exact List.mem_map.mpr ⟨x, h, rfl⟩) hk
  · cases hm : f.module with
    | none => rw [hm] at h; cases h
    | some m => rw [hm] at h; simp only [List.mem_singleton] at h; rw [h]

/-- **under `UniqueKeys` the element a scope string names for `into_updated`, and its `allow` attributes, do not depend on
    the order of the files** -/
theorem scopeAllowsOf_perm (P P' : Program) (hp : P.Perm P') (hu : UniqueKeys P) : scopeAllowsOf P = scopeAllowsOf P' := by
  funext scope
  unfold scopeAllowsOf allowTable
  have happ : ∀ a b : AllowTable, (a ++ b).reverse.find? (fun e => e.1 == scope) =
      (b.reverse.find? (fun e => e.1 == scope)).or (a.reverse.find? (fun e => e.1 == scope)) := by
    intro a b; simp only [List.reverse_append, List.find?_append]
  rw [happ, happ]
  rw [lastWins_perm (fun l : AllowTable => l.reverse.find? (fun e => e.1 == scope)) rfl happ fileAllowEntries P P' hp ?_]
  intro f hf g hg x y hx hy
  rcases pairwise_mem_cases FilesDisjoint.symm hu f hf g hg with rfl | hd
  · rw [hx] at hy; exact Option.some.inj hy
  · have kx : x.1 = scope := by simpa using List.find?_some hx
    have ky : y.1 = scope := by simpa using List.find?_some hy
    have mx : x ∈ fileAllowEntries f := List.mem_reverse.mp (List.mem_of_find?_eq_some hx)
    have my : y ∈ fileAllowEntries g := List.mem_reverse.mp (List.mem_of_find?_eq_some hy)
    have ax : scope ∈ f.allKeys := by rw [← fileAllowEntries_keys, ← kx]; exact List.mem_map.mpr ⟨x, mx, rfl⟩
    have ay : scope ∈ g.allKeys := by rw [← fileAllowEntries_keys, ← ky]; exact List.mem_map.mpr ⟨y, my, rfl⟩
    have nx : x.1 ∉ f.declKeys := by rw [kx]; exact fun h => hd.1 scope h ay
    have ny : y.1 ∉ g.declKeys := by rw [ky]; exact fun h => hd.2 scope h ax
    rw [fileAllowEntries_module f x mx nx, fileAllowEntries_module g y my ny, kx, ky]

/-- the level `into_updated` leaves a lint with -/
def emittedLevel (cli : List String) (P : Program) (s : LintSite) : Level := (updateOne (envOf cli P) s.diag).level

/-- the same, computed from the located site: the `allow` attributes of the file come from the file itself -/
def locatedLevel (cli : List String) (sa : String → Option (List (List String))) (x : Option SFile × LintSite) : Level :=
  updateLevel ⟨cli, fun _ => match x.1 with | some f => allowArgs f.fileAttrs | none => [], sa⟩ x.2.diag

theorem emittedLevel_eq (cli : List String) (P : Program) (s : LintSite) :
    emittedLevel cli P s = locatedLevel cli (scopeAllowsOf P) (s.located P) := by
  unfold emittedLevel locatedLevel updateOne
  simp only [LintSite.diag, Diag.lint, Bool.false_eq_true, if_false, updateLevel, envOf, fileAllowsOf, LintSite.located, LintSite.setFile]
  rfl

/-- **the emitted warnings do not depend on the order of the files**: the located lint sites *together with the level they
    are emitted with* after `--allow` values, file-level `allow` attributes and the `allow` attributes of the element named
    by the recorded scope have been applied -/
theorem lintLevels_perm (cli : List String) (P P' : Program) (hp : P.Perm P') (hu : UniqueKeys P) :
    ((lintSites P).map fun s => (s.located P, emittedLevel cli P s)).Perm
      ((lintSites P').map fun s => (s.located P', emittedLevel cli P' s)) := by
  have h := (lintSites_located_perm P P' hp hu).map fun x => (x, locatedLevel cli (scopeAllowsOf P') x)
  simp only [List.map_map, Function.comp_def] at h
  simp only [emittedLevel_eq, scopeAllowsOf_perm P P' hp hu]
  exact h

end Slicec
