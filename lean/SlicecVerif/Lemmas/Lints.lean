/- Helper lemmas for C13 (Model/Lints.lean). -/
import SlicecVerif.Model.Lints

namespace Slicec

/-- `is_lint_allowed_by` as a statement: some identifier of the list matches `All` or the lint's code under the
    comparison the code uses -/
def NamedBy (ids : List String) (code : String) : Prop :=
  ∃ id ∈ ids, lintIdEq id Gen.allowAllIdentifier = true ∨ lintIdEq id code = true

/-- `is_lint_allowed_by_attributes` as a statement -/
def NamedByAttrs (allows : List (List String)) (code : String) : Prop := ∃ a ∈ allows, NamedBy a code

theorem isLintAllowedBy_iff (ids : List String) (code : String) : isLintAllowedBy ids code = true ↔ NamedBy ids code := by
  simp [isLintAllowedBy, NamedBy, List.any_eq_true]

theorem isLintAllowedByAttributes_iff (allows : List (List String)) (code : String) :
    isLintAllowedByAttributes allows code = true ↔ NamedByAttrs allows code := by
  simp [isLintAllowedByAttributes, NamedByAttrs, List.any_eq_true, isLintAllowedBy_iff]

/-- the file check of the loop body -/
def FileNames (env : AllowEnv) (d : Diag) : Prop := ∃ f, d.spanFile = some f ∧ NamedByAttrs (env.fileAllows f) d.code

/-- the scope check of the loop body: the scope string resolves to an entity whose own or inherited `allow`s name the lint -/
def ScopeNames (env : AllowEnv) (d : Diag) : Prop :=
  ∃ s as, d.scope = some s ∧ env.scopeAllows s = some as ∧ NamedByAttrs as d.code

theorem updateLevel_cases (env : AllowEnv) (d : Diag) : updateLevel env d = d.level ∨ updateLevel env d = .allowed := by
  unfold updateLevel
  cases d.spanFile <;> cases d.scope <;> simp only []
  all_goals (repeat' split) <;> simp

/-- the level after the three checks is `Allowed` exactly when one of them fires (for a lint that is not allowed yet) -/
theorem updateLevel_allowed_iff (env : AllowEnv) (d : Diag) (h : d.level ≠ .allowed) :
    updateLevel env d = .allowed ↔ (NamedBy env.cli d.code ∨ FileNames env d ∨ ScopeNames env d) := by
  unfold updateLevel FileNames ScopeNames
  rw [← isLintAllowedBy_iff]
  cases hf : d.spanFile with
  | none =>
    cases hs : d.scope with
    | none => by_cases c1 : isLintAllowedBy env.cli d.code = true <;> simp [c1, h]
    | some s =>
      cases ha : env.scopeAllows s with
      | none => by_cases c1 : isLintAllowedBy env.cli d.code = true <;> simp [c1, h, ha]
      | some as =>
        by_cases c1 : isLintAllowedBy env.cli d.code = true <;>
        by_cases c3 : isLintAllowedByAttributes as d.code = true <;>
        simp [c1, c3, h, ha, ← isLintAllowedByAttributes_iff]
  | some f =>
    cases hs : d.scope with
    | none =>
      by_cases c1 : isLintAllowedBy env.cli d.code = true <;>
      by_cases c2 : isLintAllowedByAttributes (env.fileAllows f) d.code = true <;>
      simp [c1, c2, h, ← isLintAllowedByAttributes_iff]
    | some s =>
      cases ha : env.scopeAllows s with
      | none =>
        by_cases c1 : isLintAllowedBy env.cli d.code = true <;>
        by_cases c2 : isLintAllowedByAttributes (env.fileAllows f) d.code = true <;>
        simp [c1, c2, h, ha, ← isLintAllowedByAttributes_iff]
      | some as =>
        by_cases c1 : isLintAllowedBy env.cli d.code = true <;>
        by_cases c2 : isLintAllowedByAttributes (env.fileAllows f) d.code = true <;>
        by_cases c3 : isLintAllowedByAttributes as d.code = true <;>
        simp [c1, c2, c3, h, ha, ← isLintAllowedByAttributes_iff]

/-! ### exactly spelled identifiers: every comparison in play coincides with equality -/

theorem lintIdEq_allowable : ∀ a ∈ Gen.allowableLintIdentifiers, ∀ b ∈ Gen.allowableLintIdentifiers, (lintIdEq a b = true ↔ a = b) := by
  decide

theorem eqIgnoreAsciiCase_allowable :
    ∀ a ∈ Gen.allowableLintIdentifiers, ∀ b ∈ Gen.allowableLintIdentifiers, (eqIgnoreAsciiCase a b = true ↔ a = b) := by
  decide

theorem cliAccepts_allowable : ∀ a ∈ Gen.allowableLintIdentifiers, cliAccepts a = true := by decide

theorem all_allowable : Gen.allowAllIdentifier ∈ Gen.allowableLintIdentifiers := by decide

theorem kinds_allowable : ∀ k ∈ Gen.lintKinds, k ∈ Gen.allowableLintIdentifiers := by decide

theorem default_level_not_error : ∀ k ∈ Gen.lintKinds, lintDefaultLevel k = .warning := by decide

/-- every creation site of every lint kind records its scope by a rule the model knows -/
theorem scope_rules_known : ∀ k ∈ Gen.lintKinds, scopeRule k ≠ .unknown := by decide

/-! ### well-formed diagnostics, exact naming (used by Props/C13.lean) -/

/-- errors carry level `Error`, lints never do (this is what `Diagnostic::new` establishes: `default_level_not_error`) -/
def DiagWellFormed (d : Diag) : Prop := (d.isError = true → d.level = .error) ∧ (d.isError = false → d.level ≠ .error)

theorem updateOne_isError_level (env : AllowEnv) (d : Diag) (h : DiagWellFormed d) :
    ((updateOne env d).level == Level.error) = (d.level == Level.error) := by
  unfold updateOne
  by_cases he : d.isError = true
  · simp [he]
  · have he' : d.isError = false := by simpa using he
    have hne := h.2 he'
    simp only [he]
    rcases updateLevel_cases env d with h1 | h1
    · simp [h1]
    · show (updateLevel env d == Level.error) = (d.level == Level.error)
      rw [h1]
      cases hl : d.level with
      | error => exact absurd hl hne
      | warning => rfl
      | allowed => rfl

theorem namedBy_exact (ids : List String) (code : String) (hids : ∀ v ∈ ids, v ∈ Gen.allowableLintIdentifiers)
    (hcode : code ∈ Gen.allowableLintIdentifiers) :
    NamedBy ids code ↔ ∃ id ∈ ids, id = Gen.allowAllIdentifier ∨ id = code := by
  unfold NamedBy
  constructor
  · rintro ⟨id, hid, h⟩
    refine ⟨id, hid, ?_⟩
    rcases h with h | h
    · exact Or.inl ((lintIdEq_allowable id (hids id hid) _ all_allowable).1 h)
    · exact Or.inr ((lintIdEq_allowable id (hids id hid) _ hcode).1 h)
  · rintro ⟨id, hid, h⟩
    refine ⟨id, hid, ?_⟩
    rcases h with h | h
    · exact Or.inl ((lintIdEq_allowable id (hids id hid) _ all_allowable).2 h)
    · exact Or.inr ((lintIdEq_allowable id (hids id hid) _ hcode).2 h)

theorem namedByCli_exact (ids : List String) (code : String) (hids : ∀ v ∈ ids, v ∈ Gen.allowableLintIdentifiers)
    (hcode : code ∈ Gen.allowableLintIdentifiers) :
    namedByCli ids code = true ↔ ∃ id ∈ ids, id = Gen.allowAllIdentifier ∨ id = code := by
  simp only [namedByCli, List.any_eq_true, Bool.and_eq_true, Bool.or_eq_true]
  constructor
  · rintro ⟨id, hid, _, h⟩
    refine ⟨id, hid, ?_⟩
    rcases h with h | h
    · exact Or.inl ((eqIgnoreAsciiCase_allowable id (hids id hid) _ all_allowable).1 h)
    · exact Or.inr ((eqIgnoreAsciiCase_allowable id (hids id hid) _ hcode).1 h)
  · rintro ⟨id, hid, h⟩
    refine ⟨id, hid, cliAccepts_allowable id (hids id hid), ?_⟩
    rcases h with h | h
    · exact Or.inl ((eqIgnoreAsciiCase_allowable id (hids id hid) _ all_allowable).2 h)
    · exact Or.inr ((eqIgnoreAsciiCase_allowable id (hids id hid) _ hcode).2 h)

theorem namedByAttrs_exact (allows : List (List String)) (code : String)
    (hids : ∀ a ∈ allows, ∀ v ∈ a, v ∈ Gen.allowableLintIdentifiers) (hcode : code ∈ Gen.allowableLintIdentifiers) :
    NamedByAttrs allows code ↔ namedByAttrs allows code = true := by
  simp only [NamedByAttrs, namedByAttrs, List.any_eq_true, Bool.or_eq_true, beq_iff_eq]
  constructor
  · rintro ⟨a, ha, h⟩
    obtain ⟨id, hid, h⟩ := (namedBy_exact a code (hids a ha) hcode).1 h
    exact ⟨a, ha, id, hid, h⟩
  · rintro ⟨a, ha, id, hid, h⟩
    exact ⟨a, ha, (namedBy_exact a code (hids a ha) hcode).2 ⟨id, hid, h⟩⟩

/-! ### lookup in a table with a unique key -/

theorem mem_length_le_one {α} {l : List α} {a b : α} (h : l.length ≤ 1) (ha : a ∈ l) (hb : b ∈ l) : a = b := by
  match l, h with
  | [], _ => cases ha
  | [x], _ =>
    simp at ha hb
    rw [ha, hb]
  | _ :: _ :: _, h => simp at h

/-- `HashMap::insert` + `get` on a key that was inserted once: the lookup returns that entry -/
theorem find_rev_unique {α} (l : List (String × α)) (k : String) (e : String × α) (he : e ∈ l) (hk : e.1 = k)
    (hu : (l.filter fun x => x.1 == k).length ≤ 1) : l.reverse.find? (fun x => x.1 == k) = some e := by
  cases h : l.reverse.find? (fun x => x.1 == k) with
  | none =>
    rw [List.find?_eq_none] at h
    exact absurd (by simp [hk]) (h e (List.mem_reverse.2 he))
  | some e' =>
    have h1 : e' ∈ l := List.mem_reverse.1 (List.mem_of_find?_eq_some h)
    have h2 := List.find?_some h
    have m1 : e ∈ l.filter fun x => x.1 == k := List.mem_filter.2 ⟨he, by simp [hk]⟩
    have m2 : e' ∈ l.filter fun x => x.1 == k := List.mem_filter.2 ⟨h1, h2⟩
    rw [mem_length_le_one hu m2 m1]

theorem scopeAllowsOf_of_mem (p : Program) (k : String) (c : List (List String)) (hm : (k, some c) ∈ allowTable p)
    (hu : keyCount p k ≤ 1) : scopeAllowsOf p k = some c := by
  unfold scopeAllowsOf
  rw [find_rev_unique (allowTable p) k (k, some c) hm rfl hu]

/-! ### `all_attributes()` by the extracted inheritance table = own attributes, then the enclosing definitions' -/

theorem withInherited_struct (own par) : withInherited "Struct" own par = own := by
  have : Gen.attributeInheritance.any (fun r => r.1 == "Struct") = false := by decide
  simp [withInherited, this]
theorem withInherited_interface (own par) : withInherited "Interface" own par = own := by
  have : Gen.attributeInheritance.any (fun r => r.1 == "Interface") = false := by decide
  simp [withInherited, this]
theorem withInherited_enum (own par) : withInherited "Enum" own par = own := by
  have : Gen.attributeInheritance.any (fun r => r.1 == "Enum") = false := by decide
  simp [withInherited, this]
theorem withInherited_custom (own par) : withInherited "CustomType" own par = own := by
  have : Gen.attributeInheritance.any (fun r => r.1 == "CustomType") = false := by decide
  simp [withInherited, this]
theorem withInherited_alias (own par) : withInherited "TypeAlias" own par = own := by
  have : Gen.attributeInheritance.any (fun r => r.1 == "TypeAlias") = false := by decide
  simp [withInherited, this]
theorem withInherited_field (own par) : withInherited "Field" own par = own ++ par := by
  have : Gen.attributeInheritance.any (fun r => r.1 == "Field") = true := by decide
  simp [withInherited, this]
theorem withInherited_operation (own par) : withInherited "Operation" own par = own ++ par := by
  have : Gen.attributeInheritance.any (fun r => r.1 == "Operation") = true := by decide
  simp [withInherited, this]
theorem withInherited_parameter (own par) : withInherited "Parameter" own par = own ++ par := by
  have : Gen.attributeInheritance.any (fun r => r.1 == "Parameter") = true := by decide
  simp [withInherited, this]
theorem withInherited_enumerator (own par) : withInherited "Enumerator" own par = own ++ par := by
  have : Gen.attributeInheritance.any (fun r => r.1 == "Enumerator") = true := by decide
  simp [withInherited, this]


/-! ### every written type reference is registered under its written scope with its chain -/

/-- the key a lint about this reference records resolves (in the table of definition `d`) to the reference's own chain -/
def RefOk (tbl : AllowTable) (m : MemberRef) : Prop := (m.writtenScope, some m.chain) ∈ tbl

theorem memberAllows_mem {kind scope : String} {par : List (List String)} {ms : List (String × List Attr)} {name : String} {attrs : List Attr}
    (h : (name, attrs) ∈ ms) : (scopedId name scope, some (withInherited kind (allowArgs attrs) par)) ∈ memberAllows kind scope par ms := by
  unfold memberAllows
  exact List.mem_map.2 ⟨(name, attrs), h, rfl⟩

theorem fieldRefs_mem {ckey path : String} {cchain : List (List String)} {fs : List Field} {m : MemberRef} (h : m ∈ fieldRefs ckey cchain path fs) :
    ∃ f ∈ fs, ∃ pth, m = namedMemberRef ckey cchain f.name f.attrs pth f.ty := by
  unfold fieldRefs at h
  obtain ⟨⟨f, i⟩, hfi, rfl⟩ := List.mem_map.1 h
  exact ⟨f, List.fst_mem_of_mem_zipIdx hfi, _, rfl⟩

theorem namedMemberRef_ok (hflag : Gen.memberTypesParsedInMemberScope = true) {tbl : AllowTable} {ckey : String} {cchain : List (List String)}
    {name : String} {attrs : List Attr} {pth : String} {ty : TRef}
    (h : (scopedId name ckey, some (allowArgs attrs ++ cchain)) ∈ tbl) : RefOk tbl (namedMemberRef ckey cchain name attrs pth ty) := by
  simpa [RefOk, namedMemberRef, memberTypeScope, hflag] using h

theorem RefOk.mono {t1 t2 : AllowTable} {m : MemberRef} (h : RefOk t1 m) (hsub : ∀ e ∈ t1, e ∈ t2) : RefOk t2 m := hsub _ h

/-- the table entries of one operation: its parameters and return members, then the operation -/
def opAllowEntries (ikey : String) (iall : List (List String)) (o : Op) : AllowTable :=
  memberAllows "Parameter" (scopedId o.name ikey) (withInherited "Operation" (allowArgs o.attrs) iall)
    ((o.params ++ retParams o.ret).map fun q => (q.name, q.attrs)) ++
  [(scopedId o.name ikey, some (withInherited "Operation" (allowArgs o.attrs) iall))]

theorem opRefs_ok (hflag : Gen.memberTypesParsedInMemberScope = true) (ikey pth : String) (iall : List (List String)) (o : Op) :
    ∀ m ∈ opRefs (scopedId o.name ikey) (allowArgs o.attrs ++ iall) pth o, RefOk (opAllowEntries ikey iall o) m := by
  intro m hm
  have hparam : ∀ q : Param, q ∈ o.params ++ retParams o.ret → ∀ p2 : String,
      RefOk (opAllowEntries ikey iall o) (namedMemberRef (scopedId o.name ikey) (allowArgs o.attrs ++ iall) q.name q.attrs p2 q.ty) := by
    intro q hq p2
    apply namedMemberRef_ok hflag
    unfold opAllowEntries
    apply List.mem_append_left
    have := memberAllows_mem (kind := "Parameter") (scope := scopedId o.name ikey) (par := withInherited "Operation" (allowArgs o.attrs) iall)
      (ms := (o.params ++ retParams o.ret).map fun q => (q.name, q.attrs)) (name := q.name) (attrs := q.attrs) (List.mem_map.2 ⟨q, hq, rfl⟩)
    simpa [withInherited_parameter, withInherited_operation] using this
  unfold opRefs at hm
  rcases List.mem_append.1 hm with h | h
  · obtain ⟨⟨q, i⟩, hqi, rfl⟩ := List.mem_map.1 h
    exact hparam q (List.mem_append_left _ (List.fst_mem_of_mem_zipIdx hqi)) _
  · cases hr : o.ret with
    | none => simp [hr] at h
    | single tg st ty =>
      simp only [hr, List.mem_singleton] at h
      subst h
      simp [RefOk, opAllowEntries, withInherited_operation]
    | tuple ps =>
      simp only [hr] at h
      obtain ⟨⟨q, i⟩, hqi, rfl⟩ := List.mem_map.1 h
      exact hparam q (List.mem_append_right _ (by simpa [hr, retParams] using List.fst_mem_of_mem_zipIdx hqi)) _

/-- the table entries of one enumerator: its fields, then the enumerator -/
def enumeratorAllowEntries (ekey : String) (eall : List (List String)) (e : Enumerator) : AllowTable :=
  memberAllows "Field" (scopedId e.name ekey) (withInherited "Enumerator" (allowArgs e.attrs) eall)
    ((e.fields.getD []).map fun f => (f.name, f.attrs)) ++
  [(scopedId e.name ekey, some (withInherited "Enumerator" (allowArgs e.attrs) eall))]

theorem enumeratorRefs_ok (hflag : Gen.memberTypesParsedInMemberScope = true) (ekey pth : String) (eall : List (List String)) (e : Enumerator) :
    ∀ m ∈ fieldRefs (scopedId e.name ekey) (allowArgs e.attrs ++ eall) pth (e.fields.getD []), RefOk (enumeratorAllowEntries ekey eall e) m := by
  intro m hm
  obtain ⟨f, hf, p2, rfl⟩ := fieldRefs_mem hm
  apply namedMemberRef_ok hflag
  unfold enumeratorAllowEntries
  apply List.mem_append_left
  have := memberAllows_mem (kind := "Field") (scope := scopedId e.name ekey) (par := withInherited "Enumerator" (allowArgs e.attrs) eall)
    (ms := (e.fields.getD []).map fun f => (f.name, f.attrs)) (name := f.name) (attrs := f.attrs) (List.mem_map.2 ⟨f, hf, rfl⟩)
  simpa [withInherited_field, withInherited_enumerator] using this

theorem defAllowEntries_iface (ms : String) (doc attrs name bases ops) :
    defAllowEntries ms (.iface doc attrs name bases ops) =
      (ops.flatMap (opAllowEntries (scopedId name ms) (withInherited "Interface" (allowArgs attrs) []))) ++
      [(scopedId name ms, some (withInherited "Interface" (allowArgs attrs) []))] := rfl

theorem defAllowEntries_enum (ms : String) (doc attrs c u name und es) :
    defAllowEntries ms (.enum doc attrs c u name und es) =
      (es.flatMap (enumeratorAllowEntries (scopedId name ms) (withInherited "Enum" (allowArgs attrs) []))) ++
      [(scopedId name ms, some (withInherited "Enum" (allowArgs attrs) []))] := rfl

theorem defRefGroups_ok (hflag : Gen.memberTypesParsedInMemberScope = true) (ms path : String) (d : Def) :
    ∀ g ∈ defRefGroups ms path d, ∀ m ∈ g, RefOk (defAllowEntries ms d) m := by
  intro g hg m hm
  cases d with
  | struct doc attrs c name fields =>
    simp only [defRefGroups, List.mem_singleton] at hg
    subst hg
    obtain ⟨f, hf, pth, rfl⟩ := fieldRefs_mem hm
    apply namedMemberRef_ok hflag
    simp only [defAllowEntries, List.mem_append]
    left
    have := memberAllows_mem (kind := "Field") (scope := scopedId name ms) (par := withInherited "Struct" (allowArgs attrs) [])
      (ms := fields.map fun f => (f.name, f.attrs)) (name := f.name) (attrs := f.attrs) (List.mem_map.2 ⟨f, hf, rfl⟩)
    simpa [withInherited_field, withInherited_struct] using this
  | iface doc attrs name bases ops =>
    rw [defAllowEntries_iface, withInherited_interface]
    simp only [defRefGroups] at hg
    rcases List.mem_append.1 hg with h | h
    · obtain ⟨⟨o, i⟩, hoi, rfl⟩ := List.mem_map.1 h
      refine (opRefs_ok hflag (scopedId name ms) _ (allowArgs attrs) o m hm).mono ?_
      intro e he
      exact List.mem_append_left _ (List.mem_flatMap.2 ⟨o, List.fst_mem_of_mem_zipIdx hoi, he⟩)
    · simp only [List.mem_singleton] at h
      subst h
      obtain ⟨⟨b, i⟩, _, rfl⟩ := List.mem_map.1 hm
      simp [RefOk, ownRef]
  | enum doc attrs c u name und es =>
    rw [defAllowEntries_enum, withInherited_enum]
    simp only [defRefGroups] at hg
    rcases List.mem_append.1 hg with h | h
    · obtain ⟨⟨e, i⟩, hei, rfl⟩ := List.mem_map.1 h
      refine (enumeratorRefs_ok hflag (scopedId name ms) _ (allowArgs attrs) e m hm).mono ?_
      intro x hx
      exact List.mem_append_left _ (List.mem_flatMap.2 ⟨e, List.fst_mem_of_mem_zipIdx hei, hx⟩)
    · simp only [List.mem_singleton] at h
      subst h
      cases und with
      | none => simp at hm
      | some u2 =>
        simp only [List.mem_singleton] at hm
        subst hm
        simp [RefOk, ownRef]
  | custom doc attrs name => simp [defRefGroups] at hg
  | «alias» doc attrs name ty =>
    simp only [defRefGroups, List.mem_singleton] at hg
    subst hg
    simp only [List.mem_singleton] at hm
    subst hm
    simp [RefOk, defAllowEntries, memberTypeScope, hflag, withInherited_alias]

/-! ### every commented element is registered under its key with its chain -/

def ComOk (tbl : AllowTable) (c : Commented) : Prop := (c.key, some c.chain) ∈ tbl

/-- all commented parts of a definition satisfy `P` -/
def DefParts.All (q : DefParts) (P : Commented → Prop) : Prop := P q.self ∧ ∀ m ∈ q.members, P m.1 ∧ ∀ c ∈ m.2, P c

theorem DefParts.All.parseOrder {q : DefParts} {P : Commented → Prop} (h : q.All P) : ∀ c ∈ q.parseOrder, P c := by
  intro c hc
  unfold DefParts.parseOrder at hc
  rcases List.mem_append.1 hc with h1 | h1
  · obtain ⟨m, hm, hcm⟩ := List.mem_flatMap.1 h1
    rcases List.mem_append.1 hcm with h2 | h2
    · exact (h.2 m hm).2 c h2
    · rw [List.mem_singleton.1 h2]; exact (h.2 m hm).1
  · rw [List.mem_singleton.1 h1]; exact h.1

theorem DefParts.All.astOrder {q : DefParts} {P : Commented → Prop} (h : q.All P) : ∀ c ∈ q.astOrder, P c := by
  intro c hc
  unfold DefParts.astOrder at hc
  rcases List.mem_append.1 hc with h1 | h1
  · rcases List.mem_append.1 h1 with h2 | h2
    · obtain ⟨m, hm, hcm⟩ := List.mem_flatMap.1 h2
      exact (h.2 m hm).2 c hcm
    · obtain ⟨m, hm, rfl⟩ := List.mem_map.1 h2
      exact (h.2 m hm).1
  · rw [List.mem_singleton.1 h1]; exact h.1

theorem DefParts.All.visitOrder {q : DefParts} {P : Commented → Prop} (h : q.All P) : ∀ c ∈ q.visitOrder, P c := by
  intro c hc
  unfold DefParts.visitOrder at hc
  rcases List.mem_append.1 hc with h1 | h1
  · rw [List.mem_singleton.1 h1]; exact h.1
  · obtain ⟨m, hm, hcm⟩ := List.mem_flatMap.1 h1
    rcases List.mem_cons.1 hcm with h2 | h2
    · rw [h2]; exact (h.2 m hm).1
    · exact (h.2 m hm).2 c h2

theorem fieldsCommented_ok {tbl : AllowTable} {scope path : String} {cchain : List (List String)} {fs : List Field}
    (h : ∀ f ∈ fs, (scopedId f.name scope, some (allowArgs f.attrs ++ cchain)) ∈ tbl) :
    ∀ c ∈ fieldsCommented scope path cchain fs, ComOk tbl c := by
  intro c hc
  unfold fieldsCommented at hc
  obtain ⟨⟨f, i⟩, hfi, rfl⟩ := List.mem_map.1 hc
  exact h f (List.fst_mem_of_mem_zipIdx hfi)

theorem defParts_ok (ms path : String) (d : Def) : (defParts ms path d).All (ComOk (defAllowEntries ms d)) := by
  cases d with
  | struct doc attrs c name fields =>
    refine ⟨by simp [defParts, ComOk, defAllowEntries, withInherited_struct], ?_⟩
    intro m hm
    simp only [defParts] at hm
    obtain ⟨c0, hc0, rfl⟩ := List.mem_map.1 hm
    refine ⟨?_, by simp⟩
    refine fieldsCommented_ok ?_ c0 hc0
    intro f hf
    simp only [defAllowEntries]
    apply List.mem_append_left
    have := memberAllows_mem (kind := "Field") (scope := scopedId name ms) (par := withInherited "Struct" (allowArgs attrs) [])
      (ms := fields.map fun f => (f.name, f.attrs)) (name := f.name) (attrs := f.attrs) (List.mem_map.2 ⟨f, hf, rfl⟩)
    simpa [withInherited_field, withInherited_struct] using this
  | iface doc attrs name bases ops =>
    rw [defAllowEntries_iface, withInherited_interface]
    refine ⟨by simp [defParts, ComOk], ?_⟩
    intro m hm
    simp only [defParts] at hm
    obtain ⟨⟨o, i⟩, hoi, rfl⟩ := List.mem_map.1 hm
    refine ⟨?_, by simp⟩
    apply List.mem_append_left
    refine List.mem_flatMap.2 ⟨o, List.fst_mem_of_mem_zipIdx hoi, ?_⟩
    simp [opAllowEntries, opCommented, withInherited_operation]
  | enum doc attrs c u name und es =>
    rw [defAllowEntries_enum, withInherited_enum]
    refine ⟨by simp [defParts, ComOk], ?_⟩
    intro m hm
    simp only [defParts] at hm
    obtain ⟨⟨e, i⟩, hei, rfl⟩ := List.mem_map.1 hm
    have he := List.fst_mem_of_mem_zipIdx hei
    constructor
    · apply List.mem_append_left
      refine List.mem_flatMap.2 ⟨e, he, ?_⟩
      simp [enumeratorAllowEntries, withInherited_enumerator]
    · refine fieldsCommented_ok ?_
      intro f hf
      apply List.mem_append_left
      refine List.mem_flatMap.2 ⟨e, he, ?_⟩
      unfold enumeratorAllowEntries
      apply List.mem_append_left
      have := memberAllows_mem (kind := "Field") (scope := scopedId e.name (scopedId name ms)) (par := withInherited "Enumerator" (allowArgs e.attrs) (allowArgs attrs))
        (ms := (e.fields.getD []).map fun f => (f.name, f.attrs)) (name := f.name) (attrs := f.attrs) (List.mem_map.2 ⟨f, hf, rfl⟩)
      simpa [withInherited_field, withInherited_enumerator] using this
  | custom doc attrs name => exact ⟨by simp [defParts, ComOk, defAllowEntries, withInherited_custom], by simp [defParts]⟩
  | «alias» doc attrs name ty => exact ⟨by simp [defParts, ComOk, defAllowEntries, withInherited_alias], by simp [defParts]⟩

/-! ### from definitions to the program -/

theorem perDef_mem {α} {p : Program} {g : Nat → String → String → Def → List α} {x : α} (h : x ∈ perDef p g) :
    ∃ f ∈ p, ∃ d ∈ f.defs, ∃ i path, x ∈ g i (fileModScope f) path d := by
  unfold perDef at h
  obtain ⟨⟨f, i⟩, hfi, h1⟩ := List.mem_flatMap.1 h
  obtain ⟨⟨d, j⟩, hdj, h2⟩ := List.mem_flatMap.1 h1
  exact ⟨f, List.fst_mem_of_mem_zipIdx hfi, d, List.fst_mem_of_mem_zipIdx hdj, i, _, h2⟩

theorem allowTable_of_def {p : Program} {f : SFile} {d : Def} (hf : f ∈ p) (hd : d ∈ f.defs) :
    ∀ e ∈ defAllowEntries (fileModScope f) d, e ∈ allowTable p := by
  intro e he
  unfold allowTable
  apply List.mem_append_right
  refine List.mem_flatMap.2 ⟨f, hf, ?_⟩
  unfold fileAllowEntries
  apply List.mem_append_left
  exact List.mem_flatMap.2 ⟨d, hd, he⟩

/-! ### what a lint site records -/

theorem recordedScope_deprecated (w o : String) : recordedScope "Deprecated" w o = some w := by
  have : scopeRule "Deprecated" = .writtenScope := by decide
  simp [recordedScope, this]

theorem recordedScope_malformed (w o : String) : recordedScope "MalformedDocComment" w o = some o := by
  have : scopeRule "MalformedDocComment" = .ownScopedId := by decide
  simp [recordedScope, this]

theorem recordedScope_brokenLink (w o : String) : recordedScope "BrokenDocLink" w o = some o := by
  have : scopeRule "BrokenDocLink" = .ownScopedId := by decide
  simp [recordedScope, this]

theorem recordedScope_incorrect (w o : String) : recordedScope "IncorrectDocComment" w o = some o := by
  have : scopeRule "IncorrectDocComment" = .ownScopedId := by decide
  simp [recordedScope, this]

/-- the scope string a site records is a key of the table, registered with exactly the site's chain -/
def SiteOk (tbl : AllowTable) (s : LintSite) : Prop := ∃ k, s.scope = some k ∧ (k, some s.chain) ∈ tbl

theorem memberRefSites_mem {t : Table} {file : Nat} {ms : String} {g : List MemberRef} {s : LintSite}
    (h : s ∈ memberRefSites t file ms g) : ∃ m ∈ g, ∃ pth, s = depSite file m pth := by
  unfold memberRefSites at h
  rcases List.mem_append.1 h with h1 | h1 <;>
  · obtain ⟨m, hm, h2⟩ := List.mem_flatMap.1 h1
    obtain ⟨pth, _, rfl⟩ := List.mem_map.1 h2
    exact ⟨m, hm, pth, rfl⟩

theorem depSite_ok {tbl : AllowTable} {file : Nat} {m : MemberRef} {pth : String} (h : RefOk tbl m) :
    SiteOk tbl (depSite file m pth) ∧ (depSite file m pth).kind ∈ Gen.lintKinds :=
  ⟨⟨m.writtenScope, by simp [depSite, recordedScope_deprecated], h⟩, by simp [depSite]; decide⟩

theorem malformedSites_mem {file : Nat} {c : Commented} {s : LintSite} (h : s ∈ malformedSites file c) :
    s = docSite "MalformedDocComment" file c := by
  unfold malformedSites at h
  split at h <;> simp at h
  exact h

theorem brokenLinkSites_mem {t : Table} {file : Nat} {c : Commented} {s : LintSite} (h : s ∈ brokenLinkSites t file c) :
    s = docSite "BrokenDocLink" file c := by
  unfold brokenLinkSites at h
  simp only at h
  split at h
  · simp at h
  · obtain ⟨_, _, rfl⟩ := List.mem_map.1 h
    rfl

theorem incorrectTagSites_mem {file : Nat} {c : Commented} {s : LintSite} (h : s ∈ incorrectTagSites file c) :
    s = docSite "IncorrectDocComment" file c := by
  unfold incorrectTagSites at h
  simp only at h
  split at h
  · simp at h
  · split at h
    · rcases List.mem_append.1 h with h1 | h1
      · split at h1
        · simp at h1
        · obtain ⟨_, _, rfl⟩ := List.mem_map.1 h1; rfl
      · obtain ⟨_, _, rfl⟩ := List.mem_map.1 h1; rfl
    · rcases List.mem_append.1 h with h1 | h1
      · obtain ⟨_, _, rfl⟩ := List.mem_map.1 h1; rfl
      · split at h1 <;> (obtain ⟨_, _, rfl⟩ := List.mem_map.1 h1; rfl)

theorem docSite_ok {tbl : AllowTable} {kind : String} {file : Nat} {c : Commented} (h : ComOk tbl c)
    (hk : recordedScope kind "" c.key = some c.key) : SiteOk tbl (docSite kind file c) :=
  ⟨c.key, by simp [docSite, hk], h⟩

/-- **the lookup lemma.** Every lint the model records for a program carries a scope string that is a key of the
    program's table, registered there with exactly the `allow` chain of the element the lint concerns (own attributes,
    then the enclosing definitions'). Holds because member types are parsed in the member's own scope. -/
theorem lintSites_ok (hflag : Gen.memberTypesParsedInMemberScope = true) (p : Program) :
    ∀ s ∈ lintSites p, SiteOk (allowTable p) s ∧ s.kind ∈ Gen.lintKinds := by
  intro s hs
  unfold lintSites at hs
  simp only [List.mem_append] at hs
  rcases hs with ((h | h) | h) | h
  · obtain ⟨f, hf, d, hd, i, path, hx⟩ := perDef_mem h
    obtain ⟨c, hc, hsc⟩ := List.mem_flatMap.1 hx
    rw [malformedSites_mem hsc]
    have hok := (defParts_ok (fileModScope f) path d).parseOrder c hc
    exact ⟨docSite_ok (allowTable_of_def hf hd _ hok) (recordedScope_malformed _ _), by simp [docSite]; decide⟩
  · obtain ⟨f, hf, d, hd, i, path, hx⟩ := perDef_mem h
    unfold defDeprecatedSites at hx
    obtain ⟨g, hg, hsg⟩ := List.mem_flatMap.1 hx
    obtain ⟨m, hm, pth, rfl⟩ := memberRefSites_mem hsg
    exact depSite_ok ((defRefGroups_ok hflag (fileModScope f) path d g hg m hm).mono (allowTable_of_def hf hd))
  · obtain ⟨f, hf, d, hd, i, path, hx⟩ := perDef_mem h
    obtain ⟨c, hc, hsc⟩ := List.mem_flatMap.1 hx
    rw [brokenLinkSites_mem hsc]
    have hok := (defParts_ok (fileModScope f) path d).astOrder c hc
    exact ⟨docSite_ok (allowTable_of_def hf hd _ hok) (recordedScope_brokenLink _ _), by simp [docSite]; decide⟩
  · obtain ⟨f, hf, d, hd, i, path, hx⟩ := perDef_mem h
    obtain ⟨c, hc, hsc⟩ := List.mem_flatMap.1 hx
    rw [incorrectTagSites_mem hsc]
    have hok := (defParts_ok (fileModScope f) path d).visitOrder c hc
    exact ⟨docSite_ok (allowTable_of_def hf hd _ hok) (recordedScope_incorrect _ _), by simp [docSite]; decide⟩

/-! ### facts of the grammar the model relies on -/

/-- every `TypeRef` position of grammar.lalrpop is one the model knows, with the scope the model gives it: a new
    production mentioning `TypeRef`, or a base / underlying type / single return type / anonymous-type argument parsed in
    another scope than assumed, stops this from compiling -/
theorem typeRef_scopes_known : Gen.typeRefParseScopes = typeRefScopesExpected := by decide

/-- members are written inside the scope their container opens (`ContainerIdentifier … ContainerEnd`) -/
theorem member_nesting_known :
    (∀ q ∈ [("Struct", "Field"), ("Interface", "Operation"), ("Interface", "TypeRef"), ("Operation", "Parameter"), ("Operation", "ReturnType"),
            ("Enum", "Enumerator"), ("Enum", "TypeRef"), ("Enumerator", "Field")],
      Gen.scopedProductions.any (fun r => r.1 == q.1 && r.2.contains q.2) = true) := by decide

/-! ### the command line and the attributes in play -/

theorem cliParse_some {vs cli : List String} (h : cliParse vs = some cli) : cli = vs ∧ ∀ v ∈ cli, cliAccepts v = true := by
  unfold cliParse at h
  split at h
  · rename_i hall
    simp only [Option.some.injEq] at h
    subst h
    exact ⟨rfl, fun v hv => List.all_eq_true.1 hall v hv⟩
  · cases h

theorem namedByCli_iff (cli : List String) (code : String) :
    namedByCli cli code = true ↔
      ∃ v ∈ cli, cliAccepts v = true ∧ (eqIgnoreAsciiCase v Gen.allowAllIdentifier = true ∨ eqIgnoreAsciiCase v code = true) := by
  simp [namedByCli, List.any_eq_true]

theorem namedByAttrs_iff (allows : List (List String)) (code : String) :
    namedByAttrs allows code = true ↔ ∃ a ∈ allows, ∃ id ∈ a, id = Gen.allowAllIdentifier ∨ id = code := by
  simp [namedByAttrs, List.any_eq_true]

/-- with the case-insensitive comparison of `is_lint_allowed_by`, every value clap accepts names what it spells -/
theorem namedBy_cli_iff (hcmp : Gen.allowCompareIgnoresCase = true) (cli : List String) (code : String)
    (hacc : ∀ v ∈ cli, cliAccepts v = true) : NamedBy cli code ↔ namedByCli cli code = true := by
  rw [namedByCli_iff]
  unfold NamedBy
  simp only [lintIdEq, hcmp, if_true]
  constructor
  · rintro ⟨v, hv, h⟩; exact ⟨v, hv, hacc v hv, h⟩
  · rintro ⟨v, hv, _, h⟩; exact ⟨v, hv, h⟩

theorem allowable_of_not_invalid {v : String} (h : (!allowArgInvalid v) = true) : v ∈ Gen.allowableLintIdentifiers := by
  unfold allowArgInvalid at h
  simp only [Bool.not_or, Bool.not_not, Bool.and_eq_true] at h
  exact List.contains_iff_mem.1 h.1

theorem siteArgsOk_mem {p : Program} {s : LintSite} (h : siteArgsOk p s = true) :
    (∀ a ∈ fileAllowsOf p s.file, ∀ v ∈ a, v ∈ Gen.allowableLintIdentifiers) ∧
    (∀ a ∈ s.chain, ∀ v ∈ a, v ∈ Gen.allowableLintIdentifiers) := by
  unfold siteArgsOk at h
  rw [List.all_eq_true] at h
  constructor
  · intro a ha v hv
    exact allowable_of_not_invalid (List.all_eq_true.1 (h a (List.mem_append_left _ ha)) v hv)
  · intro a ha v hv
    exact allowable_of_not_invalid (List.all_eq_true.1 (h a (List.mem_append_right _ ha)) v hv)

end Slicec
