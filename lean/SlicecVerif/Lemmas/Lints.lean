/- Helper lemmas for C13 (Model/Lints.lean). -/
import SlicecVerif.Model.Lints

namespace Slicec

/-- `is_lint_allowed_by` as a statement: some identifier of the list matches `All` or the lint's code under the
    comparison the code uses -/
def NamedBy (ids : List String) (code : String) : Prop :=
  ∃ id ∈ ids, lintIdEq id Gen.allowAllIdentifier = true ∨ lintIdEq id code = true

/-- `is_lint_allowed_by_attributes` as a statement -/
def NamedByAttrs (allows : List (List String)) (code : String) : Prop := ∃ a ∈ allows, NamedBy a code

theorem isLintAllowedBy_iff (ids : List String) (code : String) : isLintAllowedBy ids code = true ↔ NamedBy ids code := by
  simp [isLintAllowedBy, NamedBy, List.any_eq_true]

theorem isLintAllowedByAttributes_iff (allows : List (List String)) (code : String) :
    isLintAllowedByAttributes allows code = true ↔ NamedByAttrs allows code := by
  simp [isLintAllowedByAttributes, NamedByAttrs, List.any_eq_true, isLintAllowedBy_iff]

/-- the file check of the loop body -/
def FileNames (env : AllowEnv) (d : Diag) : Prop := ∃ f, d.spanFile = some f ∧ NamedByAttrs (env.fileAllows f) d.code

/-- the scope check of the loop body: the scope string resolves to an entity whose own or inherited `allow`s name the lint -/
def ScopeNames (env : AllowEnv) (d : Diag) : Prop :=
  ∃ s as, d.scope = some s ∧ env.scopeAllows s = some as ∧ NamedByAttrs as d.code

theorem updateLevel_cases (env : AllowEnv) (d : Diag) : updateLevel env d = d.level ∨ updateLevel env d = .allowed := by
  unfold updateLevel
  cases d.spanFile <;> cases d.scope <;> simp only []
  all_goals (repeat' split) <;> simp

/-- the level after the three checks is `Allowed` exactly when one of them fires (for a lint that is not allowed yet) -/
theorem updateLevel_allowed_iff (env : AllowEnv) (d : Diag) (h : d.level ≠ .allowed) :
    updateLevel env d = .allowed ↔ (NamedBy env.cli d.code ∨ FileNames env d ∨ ScopeNames env d) := by
  unfold updateLevel FileNames ScopeNames
  rw [← isLintAllowedBy_iff]
  cases hf : d.spanFile with
  | none =>
    cases hs : d.scope with
    | none => by_cases c1 : isLintAllowedBy env.cli d.code = true <;> simp [c1, h]
    | some s =>
      cases ha : env.scopeAllows s with
      | none => by_cases c1 : isLintAllowedBy env.cli d.code = true <;> simp [c1, h, ha]
      | some as =>
        by_cases c1 : isLintAllowedBy env.cli d.code = true <;>
        by_cases c3 : isLintAllowedByAttributes as d.code = true <;>
        simp [c1, c3, h, ha, ← isLintAllowedByAttributes_iff]
  | some f =>
    cases hs : d.scope with
    | none =>
      by_cases c1 : isLintAllowedBy env.cli d.code = true <;>
      by_cases c2 : isLintAllowedByAttributes (env.fileAllows f) d.code = true <;>
      simp [c1, c2, h, ← isLintAllowedByAttributes_iff]
    | some s =>
      cases ha : env.scopeAllows s with
      | none =>
        by_cases c1 : isLintAllowedBy env.cli d.code = true <;>
        by_cases c2 : isLintAllowedByAttributes (env.fileAllows f) d.code = true <;>
        simp [c1, c2, h, ha, ← isLintAllowedByAttributes_iff]
      | some as =>
        by_cases c1 : isLintAllowedBy env.cli d.code = true <;>
        by_cases c2 : isLintAllowedByAttributes (env.fileAllows f) d.code = true <;>
        by_cases c3 : isLintAllowedByAttributes as d.code = true <;>
        simp [c1, c2, c3, h, ha, ← isLintAllowedByAttributes_iff]

/-! ### exactly spelled identifiers: every comparison in play coincides with equality -/

theorem lintIdEq_allowable : ∀ a ∈ Gen.allowableLintIdentifiers, ∀ b ∈ Gen.allowableLintIdentifiers, (lintIdEq a b = true ↔ a = b) := by
  decide

theorem eqIgnoreAsciiCase_allowable :
    ∀ a ∈ Gen.allowableLintIdentifiers, ∀ b ∈ Gen.allowableLintIdentifiers, (eqIgnoreAsciiCase a b = true ↔ a = b) := by
  decide

theorem cliAccepts_allowable : ∀ a ∈ Gen.allowableLintIdentifiers, cliAccepts a = true := by decide

theorem all_allowable : Gen.allowAllIdentifier ∈ Gen.allowableLintIdentifiers := by decide

theorem kinds_allowable : ∀ k ∈ Gen.lintKinds, k ∈ Gen.allowableLintIdentifiers := by decide

theorem default_level_not_error : ∀ k ∈ Gen.lintKinds, lintDefaultLevel k = .warning := by decide

/-- every creation site of every lint kind records its scope by a rule the model knows -/
theorem scope_rules_known : ∀ k ∈ Gen.lintKinds, scopeRule k ≠ .unknown := by decide

/-! ### well-formed diagnostics, exact naming (used by Props/C13.lean) -/

/-- errors carry level `Error`, lints never do (this is what `Diagnostic::new` establishes: `default_level_not_error`) -/
def DiagWellFormed (d : Diag) : Prop := (d.isError = true → d.level = .error) ∧ (d.isError = false → d.level ≠ .error)

theorem updateOne_isError_level (env : AllowEnv) (d : Diag) (h : DiagWellFormed d) :
    ((updateOne env d).level == Level.error) = (d.level == Level.error) := by
  unfold updateOne
  by_cases he : d.isError = true
  · simp [he]
  · have he' : d.isError = false := by simpa using he
    have hne := h.2 he'
    simp only [he]
    rcases updateLevel_cases env d with h1 | h1
    · simp [h1]
    · show (updateLevel env d == Level.error) = (d.level == Level.error)
      rw [h1]
      cases hl : d.level with
      | error => exact absurd hl hne
      | warning => rfl
      | allowed => rfl

theorem namedBy_exact (ids : List String) (code : String) (hids : ∀ v ∈ ids, v ∈ Gen.allowableLintIdentifiers)
    (hcode : code ∈ Gen.allowableLintIdentifiers) :
    NamedBy ids code ↔ ∃ id ∈ ids, id = Gen.allowAllIdentifier ∨ id = code := by
  unfold NamedBy
  constructor
  · rintro ⟨id, hid, h⟩
    refine ⟨id, hid, ?_⟩
    rcases h with h | h
    · exact Or.inl ((lintIdEq_allowable id (hids id hid) _ all_allowable).1 h)
    · exact Or.inr ((lintIdEq_allowable id (hids id hid) _ hcode).1 h)
  · rintro ⟨id, hid, h⟩
    refine ⟨id, hid, ?_⟩
    rcases h with h | h
    · exact Or.inl ((lintIdEq_allowable id (hids id hid) _ all_allowable).2 h)
    · exact Or.inr ((lintIdEq_allowable id (hids id hid) _ hcode).2 h)

theorem namedByCli_exact (ids : List String) (code : String) (hids : ∀ v ∈ ids, v ∈ Gen.allowableLintIdentifiers)
    (hcode : code ∈ Gen.allowableLintIdentifiers) :
    namedByCli ids code = true ↔ ∃ id ∈ ids, id = Gen.allowAllIdentifier ∨ id = code := by
  simp only [namedByCli, List.any_eq_true, Bool.and_eq_true, Bool.or_eq_true]
  constructor
  · rintro ⟨id, hid, _, h⟩
    refine ⟨id, hid, ?_⟩
    rcases h with h | h
    · exact Or.inl ((eqIgnoreAsciiCase_allowable id (hids id hid) _ all_allowable).1 h)
    · exact Or.inr ((eqIgnoreAsciiCase_allowable id (hids id hid) _ hcode).1 h)
  · rintro ⟨id, hid, h⟩
    refine ⟨id, hid, cliAccepts_allowable id (hids id hid), ?_⟩
    rcases h with h | h
    · exact Or.inl ((eqIgnoreAsciiCase_allowable id (hids id hid) _ all_allowable).2 h)
    · exact Or.inr ((eqIgnoreAsciiCase_allowable id (hids id hid) _ hcode).2 h)

theorem namedByAttrs_exact (allows : List (List String)) (code : String)
    (hids : ∀ a ∈ allows, ∀ v ∈ a, v ∈ Gen.allowableLintIdentifiers) (hcode : code ∈ Gen.allowableLintIdentifiers) :
    NamedByAttrs allows code ↔ namedByAttrs allows code = true := by
  simp only [NamedByAttrs, namedByAttrs, List.any_eq_true, Bool.or_eq_true, beq_iff_eq]
  constructor
  · rintro ⟨a, ha, h⟩
    obtain ⟨id, hid, h⟩ := (namedBy_exact a code (hids a ha) hcode).1 h
    exact ⟨a, ha, id, hid, h⟩
  · rintro ⟨a, ha, id, hid, h⟩
    exact ⟨a, ha, (namedBy_exact a code (hids a ha) hcode).2 ⟨id, hid, h⟩⟩

end Slicec
