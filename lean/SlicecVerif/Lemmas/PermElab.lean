/-
  C15 — the compiled content of a file (the canonical dump `fileS` of C02: every element with its resolved type references,
  bases and underlying types) does not depend on the order of the input files.
-/
import SlicecVerif.Lemmas.PermTable
import SlicecVerif.Model.Elab

namespace Slicec

theorem elabS_sim (t1 t2 : Table) (h : TableSim t1 t2) : ∀ fuel : Nat,
    (∀ scope r, trefS t1 scope fuel r = trefS t2 scope fuel r) ∧ (∀ scope e, tyS t1 scope fuel e = tyS t2 scope fuel e) := by
  intro fuel
  induction fuel with
  | zero => exact ⟨fun scope r => by simp [trefS], fun scope e => by simp [tyS]⟩
  | succ n ih =>
    refine ⟨fun scope r => ?_, fun scope e => ?_⟩
    · cases r with
      | mk attrs ty opt =>
        cases ty with
        | named id =>
          simp only [trefS]
          rcases sim_cases (resolveNamed_sim t1 t2 h .type id scope) with
            ⟨e, r1, r2⟩ | ⟨m1, m2, a, r1, r2, hm⟩ | ⟨e, sc, a, r1, r2⟩
          · rw [r1, r2]
          · rw [r1, r2]
            obtain ⟨hk, hkey, _, hid, _⟩ := NodeInfo.norm_fields hm
            simp only [hk, hkey, hid]
          · rw [r1, r2]
            simp only [ih.2 sc e]
        | prim p => simp only [trefS, ih.2]
        | seq e => simp only [trefS, ih.2]
        | dict k v => simp only [trefS, ih.2]
        | result s f => simp only [trefS, ih.2]
    · cases e with
      | prim p => simp only [tyS]
      | named id => simp only [tyS]
      | seq e => simp only [tyS, ih.1]
      | dict k v => simp only [tyS, ih.1]
      | result s f => simp only [tyS, ih.1]

theorem trefS_fun (t1 t2 : Table) (h : TableSim t1 t2) : trefS t1 = trefS t2 := by
  funext scope fuel r
  exact (elabS_sim t1 t2 h fuel).1 scope r

theorem fieldS_fun (t1 t2 : Table) (h : TableSim t1 t2) : fieldS t1 = fieldS t2 := by
  funext scope f
  unfold fieldS
  rw [trefS_fun t1 t2 h]

theorem paramS_fun (t1 t2 : Table) (h : TableSim t1 t2) : paramS t1 = paramS t2 := by
  funext scope p
  unfold paramS
  rw [trefS_fun t1 t2 h]

theorem baseS_sim (t1 t2 : Table) (h : TableSim t1 t2) (scope : String) (b : TRef) :
    (match b.ty with
      | .named id =>
        (match resolveNamed t1 .interface id scope with
         | .ok (.node n, _) => "base(" ++ hs n.key ++ ")"
         | _ => "unpatched(" ++ hs id ++ ")")
      | _ => "unpatched(-)") =
    (match b.ty with
      | .named id =>
        (match resolveNamed t2 .interface id scope with
         | .ok (.node n, _) => "base(" ++ hs n.key ++ ")"
         | _ => "unpatched(" ++ hs id ++ ")")
      | _ => "unpatched(-)") := by
  cases b.ty with
  | named id =>
    simp only
    rcases sim_cases (resolveNamed_sim t1 t2 h .interface id scope) with
      ⟨e, r1, r2⟩ | ⟨m1, m2, a, r1, r2, hm⟩ | ⟨e, sc, a, r1, r2⟩
    · rw [r1, r2]
    · rw [r1, r2]; simp only [(NodeInfo.norm_fields hm).2.1]
    · rw [r1, r2]
  | prim p => rfl
  | seq e => rfl
  | dict k v => rfl
  | result s f => rfl

theorem defS_sim (t1 t2 : Table) (h : TableSim t1 t2) (scope : String) (d : Def) : defS t1 scope d = defS t2 scope d := by
  cases d with
  | struct doc attrs compact name fields =>
    delta defS
    simp only
    rw [fieldS_fun t1 t2 h]
  | iface doc attrs name bases ops =>
    delta defS
    simp only
    rw [paramS_fun t1 t2 h]
    have hb := List.map_congr_left (l := bases) (fun b _ => baseS_sim t1 t2 h scope b)
    erw [hb]
    rfl
  | enum doc attrs compact unchecked name underlying es =>
    cases underlying with
    | none =>
      delta defS
      simp only
      rw [fieldS_fun t1 t2 h]
    | some u =>
      cases u with
      | mk uattrs ty opt =>
        cases ty with
        | named id =>
          delta defS
          simp only
          rw [fieldS_fun t1 t2 h]
          rcases sim_cases (resolveNamed_sim t1 t2 h .primitive id scope) with
            ⟨e, r1, r2⟩ | ⟨m1, m2, a, r1, r2, hm⟩ | ⟨e, sc, a, r1, r2⟩
          · rw [r1, r2]
          · rw [r1, r2]; simp only [(NodeInfo.norm_fields hm).2.2.2.1]
          · rw [r1, r2]
        | prim p => delta defS; simp only; rw [fieldS_fun t1 t2 h]
        | seq e => delta defS; simp only; rw [fieldS_fun t1 t2 h]
        | dict k v => delta defS; simp only; rw [fieldS_fun t1 t2 h]
        | result s f => delta defS; simp only; rw [fieldS_fun t1 t2 h]
  | custom doc attrs name => rfl
  | alias doc attrs name ty =>
    delta defS
    simp only
    rw [trefS_fun t1 t2 h]

/-- the dump of a file is the same on similar tables -/
theorem fileS_fun (t1 t2 : Table) (h : TableSim t1 t2) : fileS t1 = fileS t2 := by
  funext f
  unfold fileS
  simp only
  rw [List.map_congr_left (fun d _ => defS_sim t1 t2 h _ d)]

/-- **the compiled content of every file is the same whatever the order of the files**, and the dump of the permuted program
    consists of the same per-file dumps in the permuted order -/
theorem fileS_perm (P P' : Program) (hp : P.Perm P') (hu : UniqueKeys P) :
    (∀ f, fileS (buildTable P) f = fileS (buildTable P') f) ∧
    (P.map (fileS (buildTable P))).Perm (P'.map (fileS (buildTable P'))) := by
  have hf := fileS_fun _ _ (buildTable_sim P P' hp hu)
  refine ⟨fun f => by rw [hf], ?_⟩
  rw [hf]
  exact hp.map _

end Slicec
