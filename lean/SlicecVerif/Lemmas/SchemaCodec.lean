/- Round trip of the schema-driven codec (Model/SchemaCodec.lean), for every schema. -/
import SlicecVerif.Model.SchemaCodec
import SlicecVerif.Lemmas.Codec

namespace Slicec

open Gen (STy SField SStruct SVariant SEnum SAlias SOp)

theorem catOpt_cons_some (x : Option Bytes) (xs : List (Option Bytes)) (bs : Bytes) (h : catOpt (x :: xs) = some bs) :
    ∃ a b, x = some a ∧ catOpt xs = some b ∧ bs = a ++ b := by
  unfold catOpt at h
  cases hx : x with
  | none => simp [hx] at h
  | some a =>
    cases hb : catOpt xs with
    | none => simp [hx, hb] at h
    | some b => simp [hx, hb] at h; exact ⟨a, b, rfl, rfl, h.symm⟩

theorem catOpt_nil_some (bs : Bytes) (h : catOpt [] = some bs) : bs = [] := by
  simp only [catOpt, Option.some.injEq] at h; exact h.symm

theorem tagEndB_eq : tagEndB = some [0xFC] := by decide

theorem skipTagged_tagEnd (rest : Bytes) : skipTaggedFields (0xFC :: rest) = .ok ((), rest) := by
  have h := varint32_rt (-1) [0xFC] rest (by decide)
  simp only [List.cons_append, List.nil_append] at h
  simp only [skipTaggedFields, List.length_cons, skipTagged]
  rw [h]
  simp [Gen.tagEndMarker]

/-! ### primitives -/

theorem liftDec_ok {α β} (f : α → β) (r : Dec α) (a : α) (rest : Bytes) (h : r = .ok (a, rest)) :
    liftDec f r = .ok (f a, rest) := by subst h; rfl

theorem prim_rt (p : String) (v : SVal) (bs rest : Bytes) (h : encPrim p v = some bs) :
    decPrim p (bs ++ rest) = .ok (v, rest) := by
  unfold encPrim at h
  split at h
  · exact liftDec_ok _ _ _ _ (bool_rt _ _ _ h)
  · exact liftDec_ok _ _ _ _ (str_rt _ _ _ h)
  · exact liftDec_ok _ _ _ _ (fixedU_rt .w1 _ _ _ h)
  · exact liftDec_ok _ _ _ _ (fixedU_rt .w2 _ _ _ h)
  · exact liftDec_ok _ _ _ _ (fixedU_rt .w4 _ _ _ h)
  · exact liftDec_ok _ _ _ _ (fixedU_rt .w8 _ _ _ h)
  · exact liftDec_ok _ _ _ _ (fixedS_rt .w1 _ _ _ h)
  · exact liftDec_ok _ _ _ _ (fixedS_rt .w2 _ _ _ h)
  · exact liftDec_ok _ _ _ _ (fixedS_rt .w4 _ _ _ h)
  · exact liftDec_ok _ _ _ _ (fixedS_rt .w8 _ _ _ h)
  · exact liftDec_ok _ _ _ _ (varint32_rt _ _ _ h)
  · exact liftDec_ok _ _ _ _ (varuint32_rt _ _ _ h)
  · exact liftDec_ok _ _ _ _ (encVarintI_dec _ _ _ _ _ (by omega) (by omega) h)
  · exact liftDec_ok _ _ _ _ (encVaruintI_dec _ _ _ _ (by omega) h)
  · rename_i i
    split at h
    · rename_i h0
      have := bits_rt 4 _ _ rest h
      refine liftDec_ok _ _ _ _ ?_
      simp only [natI, this, Int.toNat_of_nonneg h0]
    · simp at h
  · rename_i i
    split at h
    · rename_i h0
      have := bits_rt 8 _ _ rest h
      refine liftDec_ok _ _ _ _ ?_
      simp only [natI, this, Int.toNat_of_nonneg h0]
    · simp at h
  · simp at h

/-! ### element loops -/

theorem encList_decListS (enc : SVal → Option Bytes) (dec : Bytes → SDec SVal) (xs : List SVal)
    (hrt : ∀ x bs rest, enc x = some bs → dec (bs ++ rest) = .ok (x, rest))
    (bs rest : Bytes) (h : encList enc xs = some bs) :
    decListS dec xs.length (bs ++ rest) = .ok (xs, rest) := by
  induction xs generalizing bs with
  | nil => simp [encList] at h; subst h; simp [decListS]
  | cons x xs ih =>
    unfold encList at h
    split at h
    · rename_i a b ha hb
      simp at h; subst h
      simp only [List.length_cons, decListS, List.append_assoc]
      rw [hrt x a (b ++ rest) ha]
      simp only
      rw [ih b hb]
    · simp at h

theorem encPairs_decPairsS (ek ev : SVal → Option Bytes) (dk dv : Bytes → SDec SVal) (es : List SVal)
    (hk : ∀ x bs rest, ek x = some bs → dk (bs ++ rest) = .ok (x, rest))
    (hv : ∀ x bs rest, ev x = some bs → dv (bs ++ rest) = .ok (x, rest))
    (seen : List SVal) (hnd : noDupKeys seen es = true)
    (bs rest : Bytes) (h : encList (encPairS ek ev) es = some bs) :
    decPairsS dk dv es.length seen (bs ++ rest) = .ok (es, rest) := by
  induction es generalizing bs seen with
  | nil => simp [encList] at h; subst h; simp [decPairsS]
  | cons e es ih =>
    unfold encList at h
    split at h
    · rename_i a b ha hb
      simp at h; subst h
      cases e with
      | pair k v =>
        simp only [encPairS] at ha
        obtain ⟨a1, r1, hk1, hr1, rfl⟩ := catOpt_cons_some _ _ _ ha
        obtain ⟨a2, r2, hv1, hr2, rfl⟩ := catOpt_cons_some _ _ _ hr1
        have := catOpt_nil_some _ hr2; subst this
        simp only [noDupKeys, Bool.and_eq_true, Bool.not_eq_true'] at hnd
        simp only [List.length_cons, decPairsS, List.append_assoc, List.append_nil]
        rw [hk k a1 _ hk1]
        simp only
        rw [hv v a2 _ hv1]
        simp only [hnd.1]
        rw [ih (k :: seen) hnd.2 b hb]
        simp
      | _ => simp [encPairS] at ha
    · simp at h

/-! ### bit sequences -/

theorem bitsVal_lt (bs : List Bool) : bitsVal bs < 2 ^ bs.length := by
  induction bs with
  | nil => simp [bitsVal]
  | cons b bs ih => simp only [bitsVal, List.length_cons, Nat.pow_succ]; split <;> omega

theorem bitsVal_testBit (bs : List Bool) (i : Nat) : ((bitsVal bs / 2 ^ i) % 2 == 1) = bs.getD i false := by
  induction bs generalizing i with
  | nil => simp [bitsVal]
  | cons b bs ih =>
    cases i with
    | zero => cases b <;> simp [bitsVal] <;> omega
    | succ i =>
      have : (bitsVal (b :: bs)) / 2 ^ (i + 1) = bitsVal bs / 2 ^ i := by
        simp only [bitsVal, Nat.pow_succ]
        rw [Nat.mul_comm (2 ^ i) 2, ← Nat.div_div_eq_div_mul]
        congr 1
        split <;> omega
      rw [this, ih]
      simp

theorem bitAt_packBits (n : Nat) (bits : List Bool) (i : Nat) (hi : i < 8 * n) :
    bitAt (packBits n bits) i = bits.getD i false := by
  induction n generalizing bits i with
  | zero => omega
  | succ n ih =>
    by_cases h8 : i < 8
    · have h0 : i / 8 = 0 := by omega
      have hm : i % 8 = i := by omega
      have hlt : bitsVal (bits.take 8) < 256 := by
        have := bitsVal_lt (bits.take 8)
        have hl : (bits.take 8).length ≤ 8 := by simp; omega
        calc bitsVal (bits.take 8) < 2 ^ (bits.take 8).length := this
          _ ≤ 2 ^ 8 := Nat.pow_le_pow_right (by omega) hl
      simp only [bitAt, packBits, h0, hm, List.getD_cons_zero, u8_ofNat_toNat, Nat.mod_eq_of_lt hlt]
      rw [bitsVal_testBit]
      simp only [List.getD_eq_getElem?_getD, List.getElem?_take, h8, if_true]
    · have hd : i / 8 = (i - 8) / 8 + 1 := by omega
      have hm : i % 8 = (i - 8) % 8 := by omega
      have := ih (bits.drop 8) (i - 8) (by omega)
      simp only [bitAt] at this ⊢
      simp only [packBits, hd, hm, List.getD_cons_succ]
      rw [this]
      simp only [List.getD_eq_getElem?_getD, List.getElem?_drop]
      congr 2
      omega

/-! ### struct bodies -/

theorem encFields_bits_length (enc : STy → SVal → Option Bytes) (fs : List SField) (vs : List SVal) (bits : List Bool) (body : Bytes)
    (h : encFields enc fs vs = some (bits, body)) : bits.length = optCount fs := by
  induction fs generalizing vs bits body with
  | nil =>
    cases vs with
    | nil => simp [encFields] at h; simp [h.1.symm, optCount]
    | cons _ _ => simp [encFields] at h
  | cons f fs ih =>
    cases vs with
    | nil => simp [encFields] at h
    | cons v vs =>
      simp only [encFields] at h
      split at h
      · simp at h
      · rename_i hts
        simp only [Bool.or_eq_true, not_or, Bool.not_eq_true] at hts
        have htag : f.tag.isNone = true := by cases ht : f.tag <;> simp_all
        split at h
        · rename_i hopt
          have hc : optCount (f :: fs) = optCount fs + 1 := by simp [optCount, List.filter, hopt, htag]
          split at h
          · split at h
            · rename_i a bits' b ha hb
              simp at h; obtain ⟨rfl, _⟩ := h
              simp [ih _ _ _ hb, hc]
            · simp at h
          · split at h
            · rename_i bits' b hb
              simp at h; obtain ⟨rfl, _⟩ := h
              simp [ih _ _ _ hb, hc]
            · simp at h
          · simp at h
        · rename_i hopt
          have hc : optCount (f :: fs) = optCount fs := by simp [optCount, List.filter, hopt]
          split at h
          · rename_i a bits' b ha hb
            simp at h; obtain ⟨rfl, _⟩ := h
            simp [ih _ _ _ hb, hc]
          · simp at h

theorem encFields_decFields (enc : STy → SVal → Option Bytes) (dec : STy → Bytes → SDec SVal)
    (hrt : ∀ ty v bs rest, enc ty v = some bs → dec ty (bs ++ rest) = .ok (v, rest))
    (allBits : Bytes) (rest : Bytes) (fs : List SField) :
    ∀ (vs : List SVal) (bits : List Bool) (body : Bytes) (k : Nat),
      encFields enc fs vs = some (bits, body) →
      (∀ i, i < bits.length → bitAt allBits (k + i) = bits.getD i false) →
      decFields dec allBits k fs (body ++ rest) = .ok (vs, rest) := by
  induction fs with
  | nil =>
    intro vs bits body k h _
    cases vs with
    | nil => simp [encFields] at h; simp [h.2.symm, decFields]
    | cons _ _ => simp [encFields] at h
  | cons f fs ih =>
    intro vs bits body k h hb
    cases vs with
    | nil => simp [encFields] at h
    | cons v vs =>
      simp only [encFields] at h
      split at h
      · simp at h
      · rename_i hts
        simp only [Bool.or_eq_true, not_or, Bool.not_eq_true] at hts
        have htag : f.tag.isSome = false := hts.1
        have hstream : f.stream = false := hts.2
        split at h
        · rename_i hopt
          split at h
          · rename_i x
            split at h
            · rename_i a bits' b ha hbb
              simp at h; obtain ⟨rfl, rfl⟩ := h
              have hk : bitAt allBits k = true := by simpa using hb 0 (by simp)
              simp only [decFields, htag, hstream, hopt, hk, if_true, List.append_assoc]
              simp only [Bool.false_eq_true, if_false]
              rw [hrt _ _ _ _ ha]
              simp only
              rw [ih vs bits' b (k + 1) hbb (fun i hi => by
                have := hb (i + 1) (by simp; omega)
                simpa [Nat.add_assoc, Nat.add_comm 1 i] using this)]
            · simp at h
          · split at h
            · rename_i bits' b hbb
              simp at h; obtain ⟨rfl, rfl⟩ := h
              have hk : bitAt allBits k = false := by simpa using hb 0 (by simp)
              simp only [decFields, htag, hstream, hopt, hk, if_true]
              simp only [Bool.false_eq_true, if_false]
              rw [ih vs bits' b (k + 1) hbb (fun i hi => by
                have := hb (i + 1) (by simp; omega)
                simpa [Nat.add_assoc, Nat.add_comm 1 i] using this)]
            · simp at h
          · simp at h
        · rename_i hopt
          split at h
          · rename_i a bits' b ha hbb
            simp at h; obtain ⟨rfl, rfl⟩ := h
            simp only [decFields, htag, hstream, hopt, List.append_assoc]
            simp only [Bool.false_eq_true, if_false]
            rw [hrt _ _ _ _ ha]
            simp only
            rw [ih vs bits' b k hbb hb]
          · simp at h

theorem packBits_length (n : Nat) (bits : List Bool) : (packBits n bits).length = n := by
  induction n generalizing bits with
  | zero => simp [packBits]
  | succ n ih => simp [packBits, ih]

theorem encBody_decBody (enc : STy → SVal → Option Bytes) (dec : STy → Bytes → SDec SVal)
    (hrt : ∀ ty v bs rest, enc ty v = some bs → dec ty (bs ++ rest) = .ok (v, rest))
    (compact : Bool) (fs : List SField) (vs : List SVal) (bs rest : Bytes)
    (h : encBody enc compact fs vs = some bs) :
    decBody dec compact fs (bs ++ rest) = .ok (vs, rest) := by
  cases hf : encFields enc fs vs with
  | none => simp [encBody, hf] at h
  | some p =>
    obtain ⟨bits, body⟩ := p
    simp only [encBody, hf] at h
    obtain ⟨a1, r1, h1, hr1, rfl⟩ := catOpt_cons_some _ _ _ h
    obtain ⟨a2, r2, h2, hr2, rfl⟩ := catOpt_cons_some _ _ _ hr1
    obtain ⟨a3, r3, h3, hr3, rfl⟩ := catOpt_cons_some _ _ _ hr2
    have := catOpt_nil_some _ hr3; subst this
    simp only [Option.some.injEq] at h1 h2; subst h1 h2
    have hbl := encFields_bits_length _ _ _ _ _ hf
    have hread : readN ((optCount fs + 7) / 8) (packBits ((optCount fs + 7) / 8) bits ++ (body ++ (a3 ++ rest))) =
        .ok (packBits ((optCount fs + 7) / 8) bits, body ++ (a3 ++ rest)) := by
      have := readN_append (packBits ((optCount fs + 7) / 8) bits) (body ++ (a3 ++ rest))
      rw [packBits_length] at this; exact this
    have hfields := encFields_decFields enc dec hrt (packBits ((optCount fs + 7) / 8) bits) (a3 ++ rest) fs vs bits body 0 hf
      (fun i hi => by
        rw [Nat.zero_add]
        exact bitAt_packBits _ _ _ (by omega))
    simp only [decBody, List.append_assoc, List.append_nil, hread, hfields]
    cases compact with
    | true => simp at h3; subst h3; simp
    | false =>
      simp only [Bool.false_eq_true, if_false] at h3 ⊢
      rw [tagEndB_eq] at h3
      simp only [Option.some.injEq] at h3; subst h3
      simp [skipTagged_tagEnd]

/-! ### enumerations -/

theorem encEnum_decEnum (enc : STy → SVal → Option Bytes) (dec : STy → Bytes → SDec SVal)
    (hrt : ∀ ty v bs rest, enc ty v = some bs → dec ty (bs ++ rest) = .ok (v, rest))
    (e : SEnum) (v : SVal) (bs rest : Bytes) (h : encEnum enc e v = some bs) :
    decEnum dec e (bs ++ rest) = .ok (v, rest) := by
  cases hu : e.underlying with
  | some u => simp [encEnum, hu] at h
  | none =>
    cases v with
    | variant i vs =>
      simp only [encEnum, hu] at h
      cases hvar : e.variants[i]? with
      | none => simp [hvar] at h
      | some var =>
        cases hd : (variantValues 0 e.variants)[i]? with
        | none => simp [hvar, hd] at h
        | some d =>
          simp only [hvar, hd] at h
          split at h
          · rename_i hfind
            obtain ⟨a1, r1, h1, hr1, rfl⟩ := catOpt_cons_some _ _ _ h
            obtain ⟨a2, r2, h2, hr2, rfl⟩ := catOpt_cons_some _ _ _ hr1
            have := catOpt_nil_some _ hr2; subst this
            have hfind' : findIdx (fun x => x == d) (variantValues 0 e.variants) 0 = some i := by simpa using hfind
            simp only [decEnum, hu, List.append_assoc, List.append_nil, varint32_rt _ _ _ h1, hfind', hvar]
            rw [encBody_decBody enc dec hrt _ _ _ _ _ h2]
          · simp at h
    | _ => simp [encEnum, hu] at h

/-! ### the round trip -/

/-- for every schema: reading what the schema-driven encoder wrote gives the value back and leaves exactly the
    bytes that followed -/
theorem decTy_encTy (S : Schema) : ∀ (f : Nat) (ty : STy) (v : SVal) (bs rest : Bytes),
    encTy S f ty v = some bs → decTy S f ty (bs ++ rest) = .ok (v, rest) := by
  intro f
  induction f with
  | zero => intro ty v bs rest h; simp [encTy] at h
  | succ f ih =>
    intro ty v bs rest h
    cases ty with
    | prim p => simp only [encTy] at h; simp only [decTy]; exact prim_rt p v bs rest h
    | seq t opt =>
      simp only [encTy] at h
      split at h
      · simp at h
      · rename_i hopt
        split at h
        · rename_i xs
          obtain ⟨a, b, ha, hb, rfl⟩ := withSize_some _ _ _ h
          simp only [decTy, hopt, if_false, List.append_assoc, encSize_dec _ _ _ ha]
          rw [encList_decListS (encTy S f t) (decTy S f t) xs (fun x bs rest hx => ih t x bs rest hx) b rest hb]
          simp
        · simp at h
    | dict k v' opt =>
      simp only [encTy] at h
      split at h
      · simp at h
      · rename_i hopt
        split at h
        · rename_i es
          split at h
          · rename_i hnd
            obtain ⟨a, b, ha, hb, rfl⟩ := withSize_some _ _ _ h
            simp only [decTy, hopt, if_false, List.append_assoc, encSize_dec _ _ _ ha]
            rw [encPairs_decPairsS (encTy S f k) (encTy S f v') (decTy S f k) (decTy S f v') es
              (fun x bs rest hx => ih k x bs rest hx) (fun x bs rest hx => ih v' x bs rest hx) [] hnd b rest hb]
            simp
          · simp at h
        · simp at h
    | named n =>
      simp only [encTy] at h
      simp only [decTy]
      cases hfind : S.find n with
      | none => simp [hfind] at h
      | some d =>
        cases d with
        | alias a =>
          simp only [hfind] at h ⊢
          split at h
          · simp at h
          · rename_i ho
            simp only [ho, if_false]
            exact ih _ _ _ _ h
        | struct s =>
          simp only [hfind] at h ⊢
          split at h
          · rename_i vs
            rw [encBody_decBody (encTy S f) (decTy S f) (fun ty v bs rest hx => ih ty v bs rest hx) _ _ _ _ _ h]
          · simp at h
        | enum e =>
          simp only [hfind] at h ⊢
          exact encEnum_decEnum (encTy S f) (decTy S f) (fun ty v bs rest hx => ih ty v bs rest hx) e v bs rest h

end Slicec
