/-
  The parser model inverts the structural token printer (C02, parser half), stage 2 continued:
  operations, enumerators, definitions, the file.
-/
import SlicecVerif.Lemmas.SliceParser

namespace Slicec.SPar

open Slicec Slicec.SLex

/-! ## return types and operations -/

def RetSh : Ret → Shape
  | .none => fun T => T = []
  | .single tag stream ty => fun T => T = .arrow :: (tagToks tag ++ (streamToks stream ++ trefToks ty))
  | .tuple ps => fun T => ∃ Tp, paramsSh ps Tp ∧ T = .arrow :: .lparen :: (Tp ++ [.rparen])

def idemToks (b : Bool) : Toks := if b then [.kw "IdempotentKeyword"] else []

def OpSh (o : Op) : Shape := fun T => ∃ Tp Tr, paramsSh o.params Tp ∧ RetSh o.ret Tr ∧
  T = docToks o.doc ++ localAttrsToks o.attrs ++
    (idemToks o.idempotent ++ .ident o.name.toList :: .lparen :: (Tp ++ .rparen :: Tr))

theorem startsTypeRef_notLp (Z : Toks) (h : startsTypeRef Z = true) : notLp Z = true := by
  cases Z with
  | nil => rfl
  | cons t r => cases t <;> simp_all [startsTypeRef, notLp]

theorem single_head (tag : Option IntLit) (stream : Bool) (ty : TRef) (h : trefRT ty = true) (X : Toks) :
    notLp (tagToks tag ++ (streamToks stream ++ (trefToks ty ++ X))) = true ∧
    notTag (streamToks stream ++ (trefToks ty ++ X)) = true := by
  obtain ⟨h1, h2, _⟩ := trefToks_head ty h X
  cases tag <;> cases stream <;>
    simp only [tagToks, streamToks, List.nil_append, List.cons_append, if_true, Bool.false_eq_true, if_false] <;>
    first
      | exact ⟨startsTypeRef_notLp _ h1, h2⟩
      | exact ⟨rfl, h2⟩
      | exact ⟨startsTypeRef_notLp _ h1, by simp [notTag]⟩
      | exact ⟨rfl, by simp [notTag]⟩

theorem parseRet_toks (r : Ret) (h : retRT r = true) (T Y : Toks) (hT : RetSh r T) (hY : okNext Y = true) :
    parseRet (T ++ Y) = some ((r, false), Y) := by
  cases r with
  | none =>
    simp only [RetSh] at hT
    subst hT
    cases Y with
    | nil => rfl
    | cons t r => cases t <;> simp_all [okNext, parseRet]
  | single tag stream ty =>
    simp only [RetSh] at hT
    subst hT
    simp only [retRT, Bool.and_eq_true] at h
    obtain ⟨g1, g2⟩ := single_head tag stream ty h.2 Y
    have e1 := parseTagOpt_toks tag h.1 (streamToks stream ++ (trefToks ty ++ Y)) g2
    simp only [List.cons_append, List.append_assoc]
    unfold parseRet
    split
    · rename_i r heq
      have heq' := (List.cons.inj heq).2
      rw [heq'] at g1
      simp [notLp] at g1
    · rename_i r _ heq
      have heq' := (List.cons.inj heq).2
      subst heq'
      simp only [e1, takeKw_stream stream _ (trefToks_head ty h.2 Y).2.2, parseTypeRef_toks ty h.2 Y (okNext_okTy Y hY)]
    · rename_i _ hne
      exact absurd rfl (hne _)
  | tuple ps =>
    simp only [RetSh] at hT
    obtain ⟨Tp, hTp, rfl⟩ := hT
    simp only [retRT] at h
    simp only [List.cons_append, List.append_assoc, List.nil_append, parseRet, parseParams_toks ps h Tp Y hTp]

theorem takeKw_idem (b : Bool) (s : List Char) (X : Toks) :
    takeKw "IdempotentKeyword" (idemToks b ++ .ident s :: X) = (b, .ident s :: X) := by
  cases b with
  | true => simp [idemToks, takeKw_yes]
  | false => rfl

theorem op_eta (o : Op) : (⟨o.doc, o.attrs, o.idempotent, String.ofList o.name.toList, o.params, o.ret⟩ : Op) = o := by
  cases o; simp [String.ofList_toList]

theorem idem_ident_start (b : Bool) (s : List Char) (X : Toks) :
    notPre (idemToks b ++ .ident s :: X) = true ∧ startsOp (idemToks b ++ .ident s :: X) = true ∧
    elemStart (idemToks b ++ .ident s :: X) = true := by
  cases b <;> exact ⟨rfl, rfl, rfl⟩

theorem opStep_toks (o : Op) (h : opRT o = true) (T R : Toks) (hT : OpSh o T) (hR : okNext R = true) :
    opStep (T ++ R) = some (some ((o, false), R)) := by
  obtain ⟨Tp, Tr, hTp, hTr, rfl⟩ := hT
  simp only [opRT, Bool.and_eq_true] at h
  obtain ⟨⟨⟨_, hattrs⟩, hps⟩, hret⟩ := h
  obtain ⟨hp1, hp2, _⟩ := idem_ident_start o.idempotent o.name.toList (.lparen :: (Tp ++ .rparen :: (Tr ++ R)))
  simp only [opStep, preStep, ↓reduceIte, List.append_assoc, List.cons_append]
  rw [← List.append_assoc (docToks o.doc), parsePrelude_toks o.doc o.attrs hattrs _ hp1]
  simp only [hp2, if_true, parseOpBody, takeKw_idem, parseParams_toks o.params hps Tp _ hTp,
    parseRet_toks o.ret hret Tr R hTr hR, op_eta, Bool.or_self, Bool.false_eq_true, if_false]

theorem opSh_start (o : Op) (T : Toks) (hT : OpSh o T) : elemStart T = true := by
  obtain ⟨Tp, Tr, _, _, rfl⟩ := hT
  exact elemStart_pre _ _ _ (idem_ident_start _ _ _).2.2

theorem opStep_stop (R : Toks) (h1 : notPre R = true) (h2 : startsOp R = false) : opStep R = some none := by
  have hm : many preludeStep R = some ([], R) := by
    simp [many, manyF, preludeStep_stop R h1]
  simp [opStep, preStep, parsePrelude, hm, preDocs, preAttrs, h2]

def opsSh (os : List Op) : Shape := CatShape (os.map OpSh)

theorem parseOpBlock_toks (os : List Op) (h : os.all opRT = true) (T R : Toks) (hT : opsSh os T) :
    parseOpBlock (.lbrace :: (T ++ .rbrace :: R)) = some (os.map fun o => (o, false), R) := by
  rw [List.all_eq_true] at h
  have hm : many opStep (T ++ .rbrace :: R) = some (os.map fun o => (o, false), .rbrace :: R) := by
    refine many_cat opStep (fun Y => okNext Y = true) (fun q T => OpSh q.1 T ∧ q.2 = false) _ T _ ?_ ?_ ?_ ?_ rfl
      (opStep_stop _ rfl rfl)
    · simpa [opsSh, List.map_map, Function.comp_def] using hT
    · intro q T1 e; exact elemStart_ne_nil _ (opSh_start q.1 T1 e.1)
    · intro q hq T1 R' e hR'
      obtain ⟨o, ho, rfl⟩ := List.mem_map.mp hq
      exact opStep_toks o (h o ho) T1 R' e.1 hR'
    · intro q _ T1 R' e; exact elemStart_okNext _ (elemStart_append _ _ (opSh_start q.1 T1 e.1))
  simp only [parseOpBlock, hm]

/-! ## enumerators -/

def valueToks : Option IntLit → Toks
  | none => []
  | some l => .equals :: intToks l

def EnumFieldsSh : Option (List Field) → Shape
  | none => fun T => T = []
  | some fs => fun T => ∃ T', fieldsSh fs T' ∧ T = .lparen :: (T' ++ [.rparen])

def EnumeratorSh (e : Enumerator) : Shape := fun T => ∃ Tf, EnumFieldsSh e.fields Tf ∧
  T = docToks e.doc ++ localAttrsToks e.attrs ++ (.ident e.name.toList :: (Tf ++ valueToks e.value))

theorem parseEnumFields_toks (fs : Option (List Field)) (h : (match fs with | none => true | some l => l.all fieldRT) = true)
    (T Y : Toks) (hT : EnumFieldsSh fs T) (hY : notLp Y = true) : parseEnumFields (T ++ Y) = some (fs, Y) := by
  cases fs with
  | none =>
    simp only [EnumFieldsSh] at hT
    subst hT
    cases Y with
    | nil => rfl
    | cons t r => cases t <;> simp_all [notLp, parseEnumFields]
  | some l =>
    simp only [EnumFieldsSh] at hT
    obtain ⟨T', hT', rfl⟩ := hT
    simp only [List.cons_append, List.append_assoc, List.nil_append, parseEnumFields,
      many_fields l h T' (.rparen :: Y) hT' rfl rfl rfl]

theorem parseEnumValue_toks (v : Option IntLit) (h : (match v with | none => true | some l => intRT l) = true)
    (Y : Toks) (hY : Y.head? ≠ some .equals) : parseEnumValue (valueToks v ++ Y) = some (v, Y) := by
  cases v with
  | none =>
    cases Y with
    | nil => rfl
    | cons t r => cases t <;> simp_all [valueToks, parseEnumValue]
  | some l => simp only [valueToks, List.cons_append, parseEnumValue, parseSignedInt_toks l h Y]

theorem enumerator_eta (e : Enumerator) :
    (⟨e.doc, e.attrs, String.ofList e.name.toList, e.fields, e.value⟩ : Enumerator) = e := by
  cases e; simp [String.ofList_toList]

theorem valueToks_notLp (v : Option IntLit) (Y : Toks) (hY : notLp Y = true) : notLp (valueToks v ++ Y) = true := by
  cases v with
  | none => simpa [valueToks] using hY
  | some l => rfl

theorem enumeratorStep_toks (e : Enumerator) (h : enumeratorRT e = true) (T c R : Toks) (hT : EnumeratorSh e T)
    (hc : OptComma c) (hR : okNext R = true) : enumeratorStep (T ++ (c ++ R)) = some (some (e, R)) := by
  obtain ⟨Tf, hTf, rfl⟩ := hT
  simp only [enumeratorRT, Bool.and_eq_true] at h
  obtain ⟨⟨⟨_, hattrs⟩, hfs⟩, hv⟩ := h
  obtain ⟨g1, g2, _⟩ := okNext_opt_next c R hc hR
  simp only [enumeratorStep, preStep, ↓reduceIte, List.append_assoc, List.cons_append]
  rw [← List.append_assoc (docToks e.doc), parsePrelude_toks e.doc e.attrs hattrs _ rfl]
  simp only [startsEnumerator, if_true, parseEnumeratorBody,
    parseEnumFields_toks e.fields hfs Tf _ hTf (valueToks_notLp e.value _ g1),
    parseEnumValue_toks e.value hv _ g2, enumerator_eta, skipComma_opt c R hc hR]

theorem enumeratorSh_start (e : Enumerator) (T : Toks) (hT : EnumeratorSh e T) : elemStart T = true := by
  obtain ⟨Tf, _, rfl⟩ := hT
  exact elemStart_pre _ _ _ rfl

theorem enumeratorStep_stop (R : Toks) (h1 : notPre R = true) (h2 : startsEnumerator R = false) :
    enumeratorStep R = some none := by
  have hm : many preludeStep R = some ([], R) := by
    simp [many, manyF, preludeStep_stop R h1]
  simp [enumeratorStep, preStep, parsePrelude, hm, preDocs, preAttrs, h2]

def enumeratorsSh (es : List Enumerator) : Shape := SepShape (es.map EnumeratorSh)

theorem parseEnumeratorBlock_toks (es : List Enumerator) (h : es.all enumeratorRT = true) (T R : Toks)
    (hT : enumeratorsSh es T) : parseEnumeratorBlock (.lbrace :: (T ++ .rbrace :: R)) = some (es, R) := by
  rw [List.all_eq_true] at h
  have hm : many enumeratorStep (T ++ .rbrace :: R) = some (es, .rbrace :: R) := by
    refine many_sep enumeratorStep EnumeratorSh es T _ hT ?_ ?_ ?_ rfl (enumeratorStep_stop _ rfl rfl)
    · intro e T1 hs; exact elemStart_ne_nil _ (enumeratorSh_start e T1 hs)
    · intro e he T1 c R' hs hc hR'; exact enumeratorStep_toks e (h e he) T1 c R' hs hc hR'
    · intro e _ T1 R' hs; exact elemStart_okNext _ (elemStart_append _ _ (enumeratorSh_start e T1 hs))
  simp only [parseEnumeratorBlock, hm]

/-! ## definitions -/

def basesToks : List TRef → Toks
  | [] => []
  | b :: bs => .colon :: (trefToks b ++ bs.flatMap fun t => .comma :: trefToks t)

def underlyingToks : Option TRef → Toks
  | none => []
  | some u => .colon :: trefToks u

def flagToks (b : Bool) (kind : String) : Toks := if b then [.kw kind] else []

def DefSh : Def → Shape
  | .struct doc attrs compact name fields => fun T => ∃ Tf, fieldsSh fields Tf ∧
      T = docToks doc ++ localAttrsToks attrs ++
        (flagToks compact "CompactKeyword" ++ .kw "StructKeyword" :: .ident name.toList :: .lbrace :: (Tf ++ [.rbrace]))
  | .iface doc attrs name bases ops => fun T => ∃ To, opsSh ops To ∧
      T = docToks doc ++ localAttrsToks attrs ++
        (.kw "InterfaceKeyword" :: .ident name.toList :: (basesToks bases ++ .lbrace :: (To ++ [.rbrace])))
  | .enum doc attrs compact unchecked name underlying es => fun T => ∃ Te, enumeratorsSh es Te ∧
      T = docToks doc ++ localAttrsToks attrs ++
        (flagToks compact "CompactKeyword" ++ (flagToks unchecked "UncheckedKeyword" ++
          .kw "EnumKeyword" :: .ident name.toList :: (underlyingToks underlying ++ .lbrace :: (Te ++ [.rbrace]))))
  | .custom doc attrs name => fun T => T = docToks doc ++ localAttrsToks attrs ++ [.kw "CustomKeyword", .ident name.toList]
  | .alias doc attrs name ty => fun T =>
      T = docToks doc ++ localAttrsToks attrs ++ (.kw "TypeAliasKeyword" :: .ident name.toList :: .equals :: trefToks ty)

def defDoc : Def → List String
  | .struct d _ _ _ _ => d | .iface d _ _ _ _ => d | .enum d _ _ _ _ _ _ => d | .custom d _ _ => d | .alias d _ _ _ => d

def defAttrs : Def → List Attr
  | .struct _ a _ _ _ => a | .iface _ a _ _ _ => a | .enum _ a _ _ _ _ _ => a | .custom _ a _ => a | .alias _ a _ _ => a

/-- where the keywords of a definition start -/
def defKwStart (X : Toks) : Prop := startsDef X = true ∧ notPre X = true ∧ elemStart X = true ∧ ∀ r, X ≠ .kw "ModuleKeyword" :: r

theorem defSh_split (d : Def) (T : Toks) (hT : DefSh d T) :
    ∃ X, T = docToks (defDoc d) ++ localAttrsToks (defAttrs d) ++ X ∧ defKwStart X := by
  cases d with
  | struct doc attrs compact name fields =>
    obtain ⟨Tf, _, rfl⟩ := hT
    refine ⟨_, rfl, ?_⟩
    cases compact <;> refine ⟨rfl, rfl, rfl, ?_⟩ <;> intro r e <;> simp [flagToks] at e
  | iface doc attrs name bases ops =>
    obtain ⟨To, _, rfl⟩ := hT
    refine ⟨_, rfl, rfl, rfl, rfl, ?_⟩
    intro r e; simp at e
  | enum doc attrs compact unchecked name underlying es =>
    obtain ⟨Te, _, rfl⟩ := hT
    refine ⟨_, rfl, ?_⟩
    cases compact <;> cases unchecked <;> refine ⟨rfl, rfl, rfl, ?_⟩ <;> intro r e <;> simp [flagToks] at e
  | custom doc attrs name =>
    simp only [DefSh] at hT
    subst hT
    refine ⟨_, rfl, rfl, rfl, rfl, ?_⟩
    intro r e; simp at e
  | alias doc attrs name ty =>
    simp only [DefSh] at hT
    subst hT
    refine ⟨_, rfl, rfl, rfl, rfl, ?_⟩
    intro r e; simp at e

theorem defSh_start (d : Def) (T : Toks) (hT : DefSh d T) : elemStart T = true := by
  obtain ⟨X, rfl, hX⟩ := defSh_split d T hT
  exact elemStart_pre _ _ _ hX.2.2.1

theorem parseFieldBlock_toks (fs : List Field) (h : fs.all fieldRT = true) (T R : Toks) (hT : fieldsSh fs T) :
    parseFieldBlock (.lbrace :: (T ++ .rbrace :: R)) = some (fs, R) := by
  simp only [parseFieldBlock, many_fields fs h T (.rbrace :: R) hT rfl rfl rfl]

theorem baseStep_toks (t : TRef) (h : trefRT t = true) (R : Toks) (hR : okTy R = true) :
    baseStep ((.comma :: trefToks t) ++ R) = some (some (t, R)) := by
  simp only [List.cons_append, baseStep, (trefToks_head t h R).1, if_true, parseTypeRef_toks t h R hR]

theorem parseBases_toks (b : TRef) (bs : List TRef) (h : (b :: bs).all trefRT = true) (Z : Toks) :
    parseBases (trefToks b ++ (bs.flatMap (fun t => .comma :: trefToks t) ++ .lbrace :: Z)) = some (b :: bs, .lbrace :: Z) := by
  simp only [List.all_cons, Bool.and_eq_true] at h
  have hbs := h.2
  rw [List.all_eq_true] at hbs
  have hm : many baseStep (bs.flatMap (fun t => .comma :: trefToks t) ++ .lbrace :: Z) = some (bs, .lbrace :: Z) := by
    refine many_cat baseStep (fun Y => okTy Y = true) (fun t T => T = .comma :: trefToks t) bs _ _
      (catShape_flatMap _ bs) ?_ ?_ ?_ rfl rfl
    · intro t T1 e; subst e; simp
    · intro t ht T1 R' e hR'; subst e; exact baseStep_toks t (hbs t ht) R' hR'
    · intro t _ T1 R' e; subst e; rfl
  have hok : okTy (bs.flatMap (fun t => .comma :: trefToks t) ++ .lbrace :: Z) = true := by
    cases bs with
    | nil => rfl
    | cons t ts => rfl
  simp only [parseBases, parseTypeRef_toks b h.1 _ hok, hm, skipComma]

theorem parseBasesOpt_toks (bs : List TRef) (h : bs.all trefRT = true) (Z : Toks) :
    parseBasesOpt (basesToks bs ++ .lbrace :: Z) = some (bs, .lbrace :: Z) := by
  cases bs with
  | nil => rfl
  | cons b bs =>
    simp only [basesToks, List.cons_append, List.append_assoc, parseBasesOpt, parseBases_toks b bs h Z]

theorem parseUnderlying_toks (u : Option TRef) (h : (match u with | none => true | some t => trefRT t) = true) (Z : Toks) :
    parseUnderlying (underlyingToks u ++ .lbrace :: Z) = some (u, .lbrace :: Z) := by
  cases u with
  | none => rfl
  | some t => simp only [underlyingToks, List.cons_append, parseUnderlying, parseTypeRef_toks t h (.lbrace :: Z) rfl]

theorem parseDefBody_toks (d : Def) (h : defRT d = true) (X R : Toks) (hR : okNext R = true)
    (hT : DefSh d (docToks (defDoc d) ++ localAttrsToks (defAttrs d) ++ X)) :
    parseDefBody (defDoc d) (defAttrs d) (X ++ R) = some ((d, false), R) := by
  cases d with
  | struct doc attrs compact name fields =>
    obtain ⟨Tf, hTf, e⟩ := hT
    have e' := List.append_cancel_left e
    subst e'
    simp only [defRT, Bool.and_eq_true] at h
    cases compact <;>
      simp [flagToks, parseDefBody, parseStructRest, parseFieldBlock_toks fields h.2 Tf R hTf, String.ofList_toList, defDoc, defAttrs]
  | iface doc attrs name bases ops =>
    obtain ⟨To, hTo, e⟩ := hT
    have e' := List.append_cancel_left e
    subst e'
    simp only [defRT, Bool.and_eq_true] at h
    have hb := parseBasesOpt_toks bases h.1.2 (To ++ .rbrace :: R)
    have ho := parseOpBlock_toks ops h.2 To R hTo
    simp only [List.append_assoc, List.cons_append, List.nil_append] at hb ⊢
    simp [parseDefBody, parseIfaceRest, hb, ho, String.ofList_toList, defDoc, defAttrs, (map_fst_false ops).1, (map_fst_false ops).2]
  | enum doc attrs compact unchecked name underlying es =>
    obtain ⟨Te, hTe, e⟩ := hT
    have e' := List.append_cancel_left e
    subst e'
    simp only [defRT, Bool.and_eq_true] at h
    have hu := parseUnderlying_toks underlying h.1.2 (Te ++ .rbrace :: R)
    have he := parseEnumeratorBlock_toks es h.2 Te R hTe
    simp only [List.append_assoc, List.cons_append, List.nil_append] at hu ⊢
    cases compact <;> cases unchecked <;>
      simp [flagToks, parseDefBody, parseEnumRest, hu, he, String.ofList_toList, defDoc, defAttrs]
  | custom doc attrs name =>
    simp only [DefSh] at hT
    have e' := List.append_cancel_left hT
    subst e'
    simp [parseDefBody, String.ofList_toList, defDoc, defAttrs]
  | alias doc attrs name ty =>
    simp only [DefSh] at hT
    have e' := List.append_cancel_left hT
    subst e'
    simp only [defRT, Bool.and_eq_true] at h
    simp [parseDefBody, parseTypeRef_toks ty h.2 R (okNext_okTy R hR), String.ofList_toList, defDoc, defAttrs]

theorem defRT_attrs (d : Def) (h : defRT d = true) : (defAttrs d).all attrRT = true := by
  cases d <;> simp only [defRT, Bool.and_eq_true] at h <;> simp only [defAttrs]
  · exact h.1.2
  · exact h.1.1.2
  · exact h.1.1.2
  · exact h.2
  · exact h.1.2

theorem defStep_toks (d : Def) (h : defRT d = true) (T R : Toks) (hT : DefSh d T) (hR : okNext R = true) :
    defStep (T ++ R) = some (some ((d, false), R)) := by
  obtain ⟨X, rfl, hX⟩ := defSh_split d T hT
  simp only [defStep, preStep, ↓reduceIte, List.append_assoc]
  rw [← List.append_assoc (docToks (defDoc d)), parsePrelude_toks (defDoc d) (defAttrs d) (defRT_attrs d h) _ (by
    cases X with
    | nil => have := hX.1; simp [startsDef] at this
    | cons t r => have := hX.2.1; cases t <;> simp_all [notPre])]
  have hs : startsDef (X ++ R) = true := by
    cases X with
    | nil => have := hX.1; simp [startsDef] at this
    | cons t r => have := hX.1; cases t <;> simp_all [startsDef]
  simp only [hs, if_true, parseDefBody_toks d h X R hR hT, Bool.false_eq_true, if_false]

def defsSh (ds : List Def) : Shape := CatShape (ds.map DefSh)

theorem parseDefs_toks (ds : List Def) (h : ds.all defRT = true) (T : Toks) (hT : defsSh ds T) :
    parseDefs T = some (ds, false) := by
  rw [List.all_eq_true] at h
  have hm : many defStep (T ++ []) = some (ds.map fun d => (d, false), []) := by
    refine many_cat defStep (fun Y => okNext Y = true) (fun q T => DefSh q.1 T ∧ q.2 = false) _ T _ ?_ ?_ ?_ ?_ rfl (by
      simp [defStep, preStep, parsePrelude, many, manyF, preludeStep, preDocs, preAttrs, startsDef])
    · simpa [defsSh, List.map_map, Function.comp_def] using hT
    · intro q T1 e; exact elemStart_ne_nil _ (defSh_start q.1 T1 e.1)
    · intro q hq T1 R' e hR'
      obtain ⟨d, hd, rfl⟩ := List.mem_map.mp hq
      exact defStep_toks d (h d hd) T1 R' e.1 hR'
    · intro q _ T1 R' e; exact elemStart_okNext _ (elemStart_append _ _ (defSh_start q.1 T1 e.1))
  rw [List.append_nil] at hm
  simp only [parseDefs, hm, (map_fst_false ds).1, (map_fst_false ds).2]

/-! ## the file -/

def moduleToks : Option ModDecl → Toks
  | none => []
  | some m => localAttrsToks m.attrs ++ .kw "ModuleKeyword" :: nameToks m.path

/-- **the shape of the token sequence of a file**: file attributes, the module declaration, the definitions, with an
    optional comma wherever the grammar has `","?` -/
def FileSh (f : SFile) : Shape := fun T => ∃ Td, defsSh f.defs Td ∧ T = fileAttrsToks f.fileAttrs ++ (moduleToks f.module ++ Td)

theorem defsSh_cases (ds : List Def) (h : ds.all defRT = true) (Td : Toks) (hT : defsSh ds Td) :
    (ds = [] ∧ Td = []) ∨
    (elemStart Td = true ∧ ∃ d as X, as.all attrRT = true ∧ Td = docToks d ++ localAttrsToks as ++ X ∧ notPre X = true ∧
      afterModuleKw X = none) := by
  cases ds with
  | nil => left; exact ⟨rfl, by simpa [defsSh, CatShape] using hT⟩
  | cons d ds =>
    right
    simp only [defsSh, List.map_cons, CatShape] at hT
    obtain ⟨T1, T2, h1, _, rfl⟩ := hT
    refine ⟨elemStart_append _ _ (defSh_start d T1 h1), ?_⟩
    obtain ⟨X, rfl, hX⟩ := defSh_split d T1 h1
    simp only [List.all_cons, Bool.and_eq_true] at h
    refine ⟨defDoc d, defAttrs d, X ++ T2, defRT_attrs d h.1, by simp, ?_, ?_⟩
    · cases X with
      | nil => have := hX.1; simp [startsDef] at this
      | cons t r => have := hX.2.1; cases t <;> simp_all [notPre]
    · cases X with
      | nil => have := hX.1; simp [startsDef] at this
      | cons t r =>
        cases t with
        | kw k =>
          have hk : k ≠ "ModuleKeyword" := fun e => hX.2.2.2 r (by rw [e])
          simp only [List.cons_append]
          unfold afterModuleKw
          split
          · rename_i heq; simp only [List.cons.injEq, SliceTok.kw.injEq] at heq; exact absurd heq.1 hk
          · rfl
        | _ => rfl

theorem elemStart_head (Y : Toks) (h : Y = [] ∨ elemStart Y = true) :
    Y.head? ≠ some .dlbracket ∧ notDc Y = true ∧ okNext Y = true := by
  rcases h with rfl | h
  · exact ⟨by simp, rfl, rfl⟩
  · cases Y with
    | nil => simp [elemStart] at h
    | cons t r => cases t <;> simp_all [elemStart, notDc, okNext]

/-- **Stage 2: the parser inverts every token sequence of the file's shape.** -/
theorem parseFileRaw_shape (f : SFile) (h : fileRT f = true) (T : Toks) (hT : FileSh f T) :
    parseFileRaw T = some (f, false) := by
  obtain ⟨fa, m, ds⟩ := f
  obtain ⟨Td, hTd, rfl⟩ := hT
  simp only [fileRT, Bool.and_eq_true] at h
  obtain ⟨⟨hfa, hm⟩, hds⟩ := h
  simp only at hTd hfa hm hds
  have hpd := parseDefs_toks ds hds Td hTd
  have hcases := defsSh_cases ds hds Td hTd
  have hstart : Td = [] ∨ elemStart Td = true := by
    rcases hcases with ⟨_, e⟩ | ⟨e, _⟩
    · exact Or.inl e
    · exact Or.inr e
  cases m with
  | some md =>
    obtain ⟨mattrs, path⟩ := md
    simp only [Bool.and_eq_true, pathRT, beq_iff_eq] at hm
    have hrest : (moduleToks (some ⟨mattrs, path⟩) ++ Td).head? ≠ some .dlbracket := by
      cases mattrs with
      | nil => simp [moduleToks, localAttrsToks]
      | cons a as => simp [moduleToks, localAttrsToks_cons]
    have hp := parsePrelude_toks [] mattrs hm.1 (.kw "ModuleKeyword" :: (nameToks path ++ Td)) rfl
    simp only [docToks_nil, List.nil_append] at hp
    have hrel := (relOf_append (nameToks path) Td path hm.2 (elemStart_head Td hstart).2.1).1
    have e1 := many_fileAttrs fa hfa _ hrest
    simp only [moduleToks, List.append_assoc, List.cons_append] at e1
    simp only [parseFileRaw, moduleToks, List.append_assoc, List.cons_append, e1, hp, afterModuleKw, hrel, hpd]
    rfl
  | none =>
    simp only [moduleToks, List.nil_append]
    rcases hcases with ⟨rfl, rfl⟩ | ⟨hs, d, as, X, has, rfl, hX1, hX2⟩
    · have hp : parsePrelude [] = some (([], []), []) := by
        simp [parsePrelude, many, manyF, preludeStep, preDocs, preAttrs]
      simp only [parseFileRaw, many_fileAttrs fa hfa [] (by simp), hp, afterModuleKw, hpd]
    · simp only [parseFileRaw, many_fileAttrs fa hfa _ (elemStart_head _ (Or.inr hs)).1, parsePrelude_toks d as has X hX1, hX2, hpd]

theorem parseFile_shape (f : SFile) (h : fileRT f = true) (T : Toks) (hT : FileSh f T) : parseFile T = some f := by
  simp only [parseFile, parseFileRaw_shape f h T hT]

end Slicec.SPar
