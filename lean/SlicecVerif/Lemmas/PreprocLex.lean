/-
  C06, the preprocessor lexer read position-free: what one call of `lex_next_preprocessor_token` / `Iterator::next`
  does to the REMAINING INPUT (a `List Char`) and which token kind it returns.  Offsets and locations are recovered
  from the cursor invariant `CurInv` (`Lemmas/Preproc.lean`): a cursor is determined by its remaining input.
-/
import SlicecVerif.Lemmas.Preproc

namespace Slicec.Pp

/-! ## `skipWhile` is `dropWhile` -/

theorem skipWhileAux_eq (p : Char → Bool) : ∀ (rest : List Char) (o : Nat) (l : Loc),
    skipWhileAux p rest o l = ⟨rest.dropWhile p, o + (rest.takeWhile p).length, (rest.takeWhile p).foldl advance l⟩ := by
  intro rest
  induction rest with
  | nil => intro o l; rfl
  | cons ch r ih =>
    intro o l
    unfold skipWhileAux
    cases hp : p ch with
    | true =>
      simp only [↓reduceIte, List.dropWhile_cons, List.takeWhile_cons, hp, List.length_cons, List.foldl_cons]
      rw [ih, Nat.add_assoc, Nat.add_comm 1]
    | false => simp [hp]

theorem Cur.skipWhile_rest (p : Char → Bool) (c : Cur) : (c.skipWhile p).rest = c.rest.dropWhile p := by
  unfold Cur.skipWhile; rw [skipWhileAux_eq]

theorem Cur.adv_rest (c : Cur) : c.adv.rest = c.rest.tail := by
  unfold Cur.adv
  cases h : c.rest with
  | nil => simp [h]
  | cons ch r => simp

theorem Cur.adv_cons (ch : Char) (r : List Char) (o : Nat) (l : Loc) :
    Cur.adv ⟨ch :: r, o, l⟩ = ⟨r, o + 1, advance l ch⟩ := rfl

theorem Cur.skipWs_rest (c : Cur) : c.skipWs.rest = c.rest.dropWhile isInlineWs := Cur.skipWhile_rest _ c
theorem Cur.toEol_rest (c : Cur) : c.toEol.rest = c.rest.dropWhile notNewline := Cur.skipWhile_rest _ c

theorem length_dropWhile_le (p : Char → Bool) (l : List Char) : (l.dropWhile p).length ≤ l.length := by
  induction l with
  | nil => simp
  | cons a l ih =>
    simp only [List.dropWhile_cons]
    split
    · simp only [List.length_cons]; omega
    · simp

theorem isAsciiAlpha_nl : isAsciiAlpha '\n' = false := by decide
theorem isWs_nl : isWs '\n' = true := by decide
theorem isInlineWs_nl : isInlineWs '\n' = false := by decide
theorem isIdentChar_nl : isIdentChar '\n' = false := by decide
theorem notNewline_nl : notNewline '\n' = false := by decide

/-! ## one directive token, position-free -/

inductive DirK where
  | tok (t : PTok)
  | err
  | skip
  deriving DecidableEq

def DirStep.kind : DirStep → DirK
  | .tok t => .tok t.tok
  | .err _ => .err
  | .skip => .skip

/-- the `'#'` arm on the characters after the `#` -/
def kwK (r : List Char) : DirK × List Char :=
  let r1 := r.dropWhile isInlineWs
  match directiveOf (String.ofList (r1.takeWhile isIdentChar)) with
  | .ok k => (.tok (.kw k), r1.dropWhile isIdentChar)
  | .error _ => (.err, r1.dropWhile isIdentChar)

/-- `lex_next_preprocessor_token` on the remaining input `c :: r`: the token kind and the input left -/
def dirTokK (c : Char) (r : List Char) : DirK × List Char :=
  if c = '(' then (.tok .lpar, r)
  else if c = ')' then (.tok .rpar, r)
  else if c = '!' then (.tok .not, r)
  else if c = '&' then (if r.head? = some '&' then (.tok .and, r.tail) else (.err, r))
  else if c = '|' then (if r.head? = some '|' then (.tok .or, r.tail) else (.err, r))
  else if c = '#' then kwK r
  else if c = '/' then (if r.head? = some '/' then (.skip, r.dropWhile notNewline) else (.err, r))
  else if isAsciiAlpha c then
    (.tok (.ident (String.ofList ((c :: r).takeWhile isIdentChar))), (c :: r).dropWhile isIdentChar)
  else if !isWs c then (.err, r)
  else if c = '\n' then (.tok .dend, c :: r)
  else (.err, c :: r)

theorem kwK_ne_dend (r : List Char) : (kwK r).1 ≠ .tok .dend := by
  unfold kwK
  dsimp only
  split <;> simp

/-- the arms of `dirTokK`, as a disjunction -/
theorem dirTokK_cases (c : Char) (r : List Char) :
    dirTokK c r = (.tok .lpar, r) ∨ dirTokK c r = (.tok .rpar, r) ∨ dirTokK c r = (.tok .not, r) ∨
    (r.head? = some '&' ∧ dirTokK c r = (.tok .and, r.tail)) ∨
    (r.head? = some '|' ∧ dirTokK c r = (.tok .or, r.tail)) ∨
    dirTokK c r = (.err, r) ∨
    (c = '#' ∧ dirTokK c r = kwK r) ∨
    dirTokK c r = (.skip, r.dropWhile notNewline) ∨
    (isAsciiAlpha c = true ∧
      dirTokK c r = (.tok (.ident (String.ofList ((c :: r).takeWhile isIdentChar))), (c :: r).dropWhile isIdentChar)) ∨
    (c = '\n' ∧ dirTokK c r = (.tok .dend, c :: r)) ∨
    dirTokK c r = (.err, c :: r) := by
  unfold dirTokK
  by_cases h1 : c = '('
  · rw [if_pos h1]; exact Or.inl rfl
  rw [if_neg h1]
  by_cases h2 : c = ')'
  · rw [if_pos h2]; exact Or.inr (Or.inl rfl)
  rw [if_neg h2]
  by_cases h3 : c = '!'
  · rw [if_pos h3]; exact Or.inr (Or.inr (Or.inl rfl))
  rw [if_neg h3]
  by_cases h4 : c = '&'
  · rw [if_pos h4]
    by_cases hh : r.head? = some '&'
    · rw [if_pos hh]; exact Or.inr (Or.inr (Or.inr (Or.inl ⟨hh, rfl⟩)))
    · rw [if_neg hh]; exact Or.inr (Or.inr (Or.inr (Or.inr (Or.inr (Or.inl rfl)))))
  rw [if_neg h4]
  by_cases h5 : c = '|'
  · rw [if_pos h5]
    by_cases hh : r.head? = some '|'
    · rw [if_pos hh]; exact Or.inr (Or.inr (Or.inr (Or.inr (Or.inl ⟨hh, rfl⟩))))
    · rw [if_neg hh]; exact Or.inr (Or.inr (Or.inr (Or.inr (Or.inr (Or.inl rfl)))))
  rw [if_neg h5]
  by_cases h6 : c = '#'
  · rw [if_pos h6]; exact Or.inr (Or.inr (Or.inr (Or.inr (Or.inr (Or.inr (Or.inl ⟨h6, rfl⟩))))))
  rw [if_neg h6]
  by_cases h7 : c = '/'
  · rw [if_pos h7]
    by_cases hh : r.head? = some '/'
    · rw [if_pos hh]; exact Or.inr (Or.inr (Or.inr (Or.inr (Or.inr (Or.inr (Or.inr (Or.inl rfl)))))))
    · rw [if_neg hh]; exact Or.inr (Or.inr (Or.inr (Or.inr (Or.inr (Or.inl rfl)))))
  rw [if_neg h7]
  by_cases h8 : isAsciiAlpha c = true
  · rw [if_pos h8]; exact Or.inr (Or.inr (Or.inr (Or.inr (Or.inr (Or.inr (Or.inr (Or.inr (Or.inl ⟨h8, rfl⟩))))))))
  rw [if_neg h8]
  by_cases h9 : (!isWs c) = true
  · rw [if_pos h9]; exact Or.inr (Or.inr (Or.inr (Or.inr (Or.inr (Or.inl rfl)))))
  rw [if_neg h9]
  by_cases h10 : c = '\n'
  · rw [if_pos h10]
    exact Or.inr (Or.inr (Or.inr (Or.inr (Or.inr (Or.inr (Or.inr (Or.inr (Or.inr (Or.inl ⟨h10, rfl⟩)))))))))
  · rw [if_neg h10]
    exact Or.inr (Or.inr (Or.inr (Or.inr (Or.inr (Or.inr (Or.inr (Or.inr (Or.inr (Or.inr rfl)))))))))

theorem kwK_ne_skip (r : List Char) : (kwK r).1 ≠ .skip := by
  unfold kwK
  dsimp only
  split <;> simp

theorem lexKeyword_kind (r : List Char) (o : Nat) (l : Loc) :
    (lexKeyword ⟨'#' :: r, o, l⟩).1.kind = (kwK r).1 ∧ (lexKeyword ⟨'#' :: r, o, l⟩).2.rest = (kwK r).2 := by
  unfold lexKeyword kwK
  simp only [Cur.adv_cons, Cur.skipWs_rest]
  split <;> simp [DirStep.kind, Cur.skipWs_rest, Cur.skipWhile_rest, *]

theorem lexKeyword_kind' (cur : Cur) (r : List Char) (h : cur.rest = '#' :: r) :
    (lexKeyword cur).1.kind = (kwK r).1 ∧ (lexKeyword cur).2.rest = (kwK r).2 := by
  obtain ⟨rest, o, l⟩ := cur
  simp only at h; subst h
  exact lexKeyword_kind r o l

/-- the model's directive tokenizer, read on the remaining input -/
theorem lexDirTok_kind (c : Char) (r : List Char) (o : Nat) (l : Loc) (m : Mode) :
    (lexDirTok c ⟨⟨c :: r, o, l⟩, m⟩).1.kind = (dirTokK c r).1 ∧
    (lexDirTok c ⟨⟨c :: r, o, l⟩, m⟩).2.cur.rest = (dirTokK c r).2 ∧
    (lexDirTok c ⟨⟨c :: r, o, l⟩, m⟩).2.mode = if (dirTokK c r).1 = .tok .dend then .unknown else m := by
  suffices key : ∀ res, lexDirTok c ⟨⟨c :: r, o, l⟩, m⟩ = res → res.1.kind = (dirTokK c r).1 ∧
      res.2.cur.rest = (dirTokK c r).2 ∧ res.2.mode = if (dirTokK c r).1 = .tok .dend then .unknown else m from
    key _ rfl
  intro res hres
  unfold lexDirTok simpleTok at hres
  unfold dirTokK
  simp only [Cur.adv_cons, Cur.peek] at hres
  by_cases h1 : c = '('
  · rw [if_pos h1] at hres; rw [if_pos h1]; subst hres; simp [DirStep.kind]
  rw [if_neg h1] at hres; rw [if_neg h1]
  by_cases h2 : c = ')'
  · rw [if_pos h2] at hres; rw [if_pos h2]; subst hres; simp [DirStep.kind]
  rw [if_neg h2] at hres; rw [if_neg h2]
  by_cases h3 : c = '!'
  · rw [if_pos h3] at hres; rw [if_pos h3]; subst hres; simp [DirStep.kind]
  rw [if_neg h3] at hres; rw [if_neg h3]
  by_cases h4 : c = '&'
  · rw [if_pos h4] at hres; rw [if_pos h4]
    by_cases hh : r.head? = some '&' <;> simp only [hh, ↓reduceIte] at hres ⊢ <;> subst hres <;>
      simp [DirStep.kind, Cur.adv_rest]
  rw [if_neg h4] at hres; rw [if_neg h4]
  by_cases h5 : c = '|'
  · rw [if_pos h5] at hres; rw [if_pos h5]
    by_cases hh : r.head? = some '|' <;> simp only [hh, ↓reduceIte] at hres ⊢ <;> subst hres <;>
      simp [DirStep.kind, Cur.adv_rest]
  rw [if_neg h5] at hres; rw [if_neg h5]
  by_cases h6 : c = '#'
  · rw [if_pos h6] at hres; rw [if_pos h6]
    subst hres
    subst h6
    have := lexKeyword_kind r o l
    refine ⟨this.1, this.2, ?_⟩
    rw [if_neg (kwK_ne_dend r)]
  rw [if_neg h6] at hres; rw [if_neg h6]
  by_cases h7 : c = '/'
  · rw [if_pos h7] at hres; rw [if_pos h7]
    by_cases hh : r.head? = some '/' <;> simp only [hh, ↓reduceIte] at hres ⊢ <;> subst hres <;>
      simp [DirStep.kind, Cur.toEol_rest]
  rw [if_neg h7] at hres; rw [if_neg h7]
  by_cases h8 : isAsciiAlpha c = true
  · rw [if_pos h8] at hres; rw [if_pos h8]; subst hres; simp [DirStep.kind, Cur.skipWhile_rest]
  rw [if_neg h8] at hres; rw [if_neg h8]
  by_cases h9 : (!isWs c) = true
  · rw [if_pos h9] at hres; rw [if_pos h9]; subst hres; simp [DirStep.kind]
  rw [if_neg h9] at hres; rw [if_neg h9]
  by_cases h10 : c = '\n'
  · rw [if_pos h10] at hres; rw [if_pos h10]; subst hres; simp [DirStep.kind]
  · rw [if_neg h10] at hres; rw [if_neg h10]; subst hres; simp [DirStep.kind]

theorem lexDirTok_kind' (c : Char) (st : LexSt) (r : List Char) (h : st.cur.rest = c :: r) :
    (lexDirTok c st).1.kind = (dirTokK c r).1 ∧ (lexDirTok c st).2.cur.rest = (dirTokK c r).2 ∧
    (lexDirTok c st).2.mode = if (dirTokK c r).1 = .tok .dend then .unknown else st.mode := by
  obtain ⟨⟨rest, o, l⟩, m⟩ := st
  simp only at h; subst h
  exact lexDirTok_kind c r o l m

theorem isIdentChar_of_alpha (c : Char) (h : isAsciiAlpha c = true) : isIdentChar c = true := by
  simp [isIdentChar, h]

theorem kwK_len (r : List Char) : (kwK r).2.length ≤ r.length := by
  unfold kwK
  dsimp only
  have h1 := length_dropWhile_le isIdentChar (r.dropWhile isInlineWs)
  have h2 := length_dropWhile_le isInlineWs r
  split <;> (dsimp only; omega)

/-- every token except the end of the directive consumes input -/
theorem dirTokK_len (c : Char) (r : List Char) (h1 : (dirTokK c r).1 ≠ .tok .dend) (h2 : (dirTokK c r).1 ≠ .err) :
    (dirTokK c r).2.length ≤ r.length := by
  have ht : r.tail.length ≤ r.length := by simp
  rcases dirTokK_cases c r with h | h | h | ⟨_, h⟩ | ⟨_, h⟩ | h | ⟨_, h⟩ | h | ⟨ha, h⟩ | ⟨_, h⟩ | h <;> rw [h] at h1 h2 ⊢
  · exact Nat.le_refl _
  · exact Nat.le_refl _
  · exact Nat.le_refl _
  · exact ht
  · exact ht
  · exact absurd rfl h2
  · exact kwK_len r
  · exact length_dropWhile_le _ _
  · simp only [List.dropWhile_cons, isIdentChar_of_alpha c ha, ↓reduceIte]
    exact length_dropWhile_le _ _
  · exact absurd rfl h1
  · exact absurd rfl h2

/-! ## one iteration of the loop of `next` -/

theorem nextLoop_nil (f : List Char) (n : Nat) (st : LexSt) (start : Option (Loc × Nat)) (h : st.cur.rest = []) :
    nextLoop f (n + 1) st start =
      match st.mode with
      | .sourceBlock => (some (mkBlock f start f.length st.cur.loc), { st with mode := .unknown })
      | .directive => (some (.ok ⟨st.cur.loc, .dend, st.cur.loc⟩), { st with mode := .unknown })
      | .unknown => (none, st) := by
  rw [nextLoop]
  simp only [h]
  rfl

theorem nextLoop_cons (f : List Char) (n : Nat) (st : LexSt) (start : Option (Loc × Nat)) (c : Char) (r : List Char)
    (h : st.cur.rest = c :: r) :
    nextLoop f (n + 1) st start =
      if st.mode = .directive then
        match lexDirTok c st with
        | (.tok t, st') => (some (.ok t), st')
        | (.err e, st') => (some (.error e), st')
        | (.skip, st') => nextLoop f n { st' with cur := st'.cur.skipWs } start
      else if c = '\n' then
        nextLoop f n { st with cur := st.cur.adv.skipWs } start
      else if c = '#' then
        match st.mode with
        | .sourceBlock => (some (mkBlock f start st.cur.off st.cur.loc), { st with mode := .directive })
        | _ =>
          match lexKeyword st.cur with
          | (.tok t, cur') => (some (.ok t), { cur := cur', mode := .directive })
          | (.err e, cur') => (some (.error e), { cur := cur', mode := .directive })
          | (.skip, cur') => (none, { cur := cur', mode := .directive })
      else
        nextLoop f n { cur := st.cur.toEol.skipWs, mode := .sourceBlock }
          (if st.mode = .unknown then some (st.cur.loc, st.cur.off) else start) := by
  rw [nextLoop]
  simp only [h]
  rfl

theorem dirTokK_dend (c : Char) (r : List Char) (h : (dirTokK c r).1 = .tok .dend) :
    c = '\n' ∧ (dirTokK c r).2 = c :: r := by
  rcases dirTokK_cases c r with h' | h' | h' | ⟨_, h'⟩ | ⟨_, h'⟩ | h' | ⟨_, h'⟩ | h' | ⟨_, h'⟩ | ⟨hc, h'⟩ | h' <;>
    rw [h'] at h ⊢
  · simp at h
  · simp at h
  · simp at h
  · simp at h
  · simp at h
  · simp at h
  · exact absurd h (kwK_ne_dend r)
  · simp at h
  · simp at h
  · exact ⟨hc, rfl⟩
  · simp at h

/-! ## the fuel of `lexAll` and of `nextLoop` never runs out -/

def Mode.rank : Mode → Nat
  | .unknown => 0
  | .directive => 1
  | .sourceBlock => 2

/-- twice the remaining input plus the rank of the mode: decreases with every token -/
def LexSt.meas (st : LexSt) : Nat := 2 * st.cur.rest.length + st.mode.rank

theorem nextLoop_meas (f : List Char) : ∀ (n : Nat) (st : LexSt) (start : Option (Loc × Nat)) (t : LTok) (st' : LexSt),
    nextLoop f n st start = (some (.ok t), st') → st'.meas < st.meas := by
  intro n
  induction n with
  | zero => intro st start t st' h; simp [nextLoop] at h
  | succ n ih =>
    intro st start t st' h
    cases hrest : st.cur.rest with
    | nil =>
      rw [nextLoop_nil f n st start hrest] at h
      cases hm : st.mode <;> simp only [hm, Prod.mk.injEq, Option.some.injEq, reduceCtorEq, false_and] at h
      all_goals
        obtain ⟨_, rfl⟩ := h
        simp [LexSt.meas, Mode.rank, hrest, hm]
    | cons c r =>
      rw [nextLoop_cons f n st start c r hrest] at h
      split at h
      · rename_i hm
        have hk := lexDirTok_kind' c st r hrest
        cases hd : lexDirTok c st with
        | mk ds st1 =>
          rw [hd] at h hk
          cases ds with
          | tok t1 =>
            simp only [Prod.mk.injEq, Option.some.injEq, Except.ok.injEq] at h
            obtain ⟨_, rfl⟩ := h
            simp only [DirStep.kind] at hk
            by_cases hdend : (dirTokK c r).1 = .tok .dend
            · have := dirTokK_dend c r hdend
              simp only [LexSt.meas, hk.2.1, hk.2.2, hdend, ↓reduceIte, this.2, hrest, hm, Mode.rank]
              omega
            · have hl := dirTokK_len c r hdend (by rw [← hk.1]; simp)
              simp only [LexSt.meas, hk.2.1, hk.2.2, hdend, ↓reduceIte, hrest, hm, Mode.rank, List.length_cons]
              omega
          | err e => simp at h
          | skip =>
            simp only at h
            have h' := ih _ _ _ _ h
            simp only [DirStep.kind] at hk
            have hne : (dirTokK c r).1 ≠ .tok .dend := by rw [← hk.1]; simp
            have hl := dirTokK_len c r hne (by rw [← hk.1]; simp)
            have hw := length_dropWhile_le isInlineWs st1.cur.rest
            simp only [LexSt.meas, Cur.skipWs_rest, hk.2.2, hne, ↓reduceIte] at h'
            rw [hk.2.1] at hw h'
            simp only [LexSt.meas, hrest, List.length_cons]
            omega
      · split at h
        · have h' := ih _ _ _ _ h
          have hw := length_dropWhile_le isInlineWs st.cur.adv.rest
          simp only [LexSt.meas, Cur.skipWs_rest] at h'
          rw [Cur.adv_rest, hrest, List.tail_cons] at hw h'
          simp only [LexSt.meas, hrest, List.length_cons]
          omega
        · split at h
          · rename_i hm _ hc
            subst hc
            have hk := lexKeyword_kind' st.cur r hrest
            have hl := kwK_len r
            cases hmode : st.mode with
            | directive => exact absurd hmode hm
            | sourceBlock =>
              simp only [hmode, Prod.mk.injEq, Option.some.injEq] at h
              obtain ⟨_, rfl⟩ := h
              simp [LexSt.meas, Mode.rank, hmode]
            | unknown =>
              simp only [hmode] at h
              cases hd : lexKeyword st.cur with
              | mk ds cur1 =>
                rw [hd] at h hk
                cases ds with
                | tok t1 =>
                  simp only [Prod.mk.injEq, Option.some.injEq, Except.ok.injEq] at h
                  obtain ⟨_, rfl⟩ := h
                  have e2 : cur1.rest = (kwK r).2 := hk.2
                  simp only [LexSt.meas, e2, hrest, hmode, Mode.rank, List.length_cons]
                  omega
                | err e => simp at h
                | skip => simp at h
          · rename_i hm hnl _
            have h' := ih _ _ _ _ h
            have hw := length_dropWhile_le isInlineWs st.cur.toEol.rest
            have hn := length_dropWhile_le notNewline r
            have hnn : notNewline c = true := by simp [notNewline, hnl]
            have hr2 : Mode.rank Mode.sourceBlock = 2 := rfl
            simp only [LexSt.meas, Cur.skipWs_rest, hr2] at h'
            rw [Cur.toEol_rest, hrest, List.dropWhile_cons, hnn] at hw h'
            simp only [↓reduceIte] at hw h'
            simp only [LexSt.meas, hrest, List.length_cons]
            omega

theorem lexNext_meas (f : List Char) (st : LexSt) (t : LTok) (st' : LexSt)
    (h : lexNext f st = (some (.ok t), st')) : st'.meas < st.meas := by
  unfold lexNext at h
  have := nextLoop_meas f _ _ _ _ _ h
  have hw := length_dropWhile_le isInlineWs st.cur.rest
  simp only [LexSt.meas, Cur.skipWs_rest] at this
  simp only [LexSt.meas]
  omega

theorem lexAll_fuel_succ (f : List Char) : ∀ (n : Nat) (st : LexSt), st.meas + 1 ≤ n →
    lexAll f (n + 1) st = lexAll f n st := by
  intro n
  induction n with
  | zero => intro st h; omega
  | succ n ih =>
    intro st h
    rw [lexAll, lexAll]
    cases hn : lexNext f st with
    | mk res st1 =>
      cases res with
      | none => rfl
      | some r =>
        cases r with
        | error e => rfl
        | ok t =>
          have := lexNext_meas f st t st1 hn
          simp only
          rw [ih st1 (by omega)]

theorem lexAll_fuel (f : List Char) (st : LexSt) : ∀ (k : Nat), lexAll f (st.meas + 1 + k) st = lexAll f (st.meas + 1) st := by
  intro k
  induction k with
  | zero => rfl
  | succ k ih => rw [← Nat.add_assoc, lexAll_fuel_succ f _ st (by omega), ih]

/-- `lexAll` with sufficient fuel -/
def lexAllS (f : List Char) (st : LexSt) : Except LexErr (List LTok) := lexAll f (st.meas + 1) st

theorem lexAll_eq_S (f : List Char) (st : LexSt) (n : Nat) (h : st.meas + 1 ≤ n) : lexAll f n st = lexAllS f st := by
  obtain ⟨k, rfl⟩ : ∃ k, n = st.meas + 1 + k := ⟨n - (st.meas + 1), by omega⟩
  exact lexAll_fuel f st k

/-- the fuel-free unfolding of the token stream -/
theorem lexAllS_unfold (f : List Char) (st : LexSt) :
    lexAllS f st =
      match lexNext f st with
      | (none, _) => .ok []
      | (some (.error e), _) => .error e
      | (some (.ok t), st') =>
        match lexAllS f st' with
        | .ok ts => .ok (t :: ts)
        | .error e => .error e := by
  unfold lexAllS
  rw [lexAll]
  cases hn : lexNext f st with
  | mk res st1 =>
    cases res with
    | none => rfl
    | some r =>
      cases r with
      | error e => rfl
      | ok t =>
        have := lexNext_meas f st t st1 hn
        simp only
        rw [lexAll_eq_S f st1 st.meas (by omega)]
        rfl

theorem lexPreL_eq_S (f : List Char) : lexPreL f = lexAllS f (lexInit f) := by
  unfold lexPreL
  exact lexAll_eq_S f _ _ (by simp [LexSt.meas, lexInit, Mode.rank])

/-! ## one call of `next()` in directive mode, position-free -/

/-- `[]` or starting with a newline: where a line ends -/
def stopNl : List Char → Prop
  | [] => True
  | c :: _ => c = '\n'

theorem dropWhile_stop (p : Char → Bool) (hp : p '\n' = false) (tl : List Char) (h : stopNl tl) : tl.dropWhile p = tl := by
  cases tl with
  | nil => rfl
  | cons c tl => simp only [stopNl] at h; subst h; simp [hp]

theorem stopNl_dropWhile_notNewline (r : List Char) : stopNl (r.dropWhile notNewline) := by
  induction r with
  | nil => trivial
  | cons c r ih =>
    simp only [List.dropWhile_cons]
    split
    · exact ih
    · rename_i h; simpa [notNewline, stopNl] using h

theorem dirTokK_skip (c : Char) (r : List Char) (h : (dirTokK c r).1 = .skip) : (dirTokK c r).2 = r.dropWhile notNewline := by
  rcases dirTokK_cases c r with h' | h' | h' | ⟨_, h'⟩ | ⟨_, h'⟩ | h' | ⟨_, h'⟩ | h' | ⟨_, h'⟩ | ⟨hc, h'⟩ | h' <;>
    rw [h'] at h ⊢
  · simp at h
  · simp at h
  · simp at h
  · simp at h
  · simp at h
  · simp at h
  · exact absurd h (kwK_ne_skip r)
  · simp at h
  · simp at h
  · simp at h

theorem dirTokK_nl (r : List Char) : dirTokK '\n' r = (.tok .dend, '\n' :: r) := by
  unfold dirTokK
  rw [if_neg (by decide), if_neg (by decide), if_neg (by decide), if_neg (by decide), if_neg (by decide),
    if_neg (by decide), if_neg (by decide), if_neg (by simp [isAsciiAlpha_nl]), if_neg (by simp [isWs_nl]), if_pos rfl]

/-- one `next()` in directive mode on the remaining input: the token (`none` = lexical error) and the input left;
    a `//` comment runs to the end of the line, which ends the directive -/
def dirNextK (rest : List Char) : Option PTok × List Char :=
  match rest.dropWhile isInlineWs with
  | [] => (some .dend, [])
  | c :: r' =>
    match dirTokK c r' with
    | (.tok t, r'') => (some t, r'')
    | (.err, r'') => (none, r'')
    | (.skip, r'') => (some .dend, r'')

theorem lexNext_dir (f : List Char) (st : LexSt) (hm : st.mode = .directive) :
    match dirNextK st.cur.rest with
    | (some t, r1) => ∃ lt st1, lexNext f st = (some (.ok lt), st1) ∧ lt.tok = t ∧ st1.cur.rest = r1 ∧
        st1.mode = if t = .dend then .unknown else .directive
    | (none, _) => ∃ e st1, lexNext f st = (some (.error e), st1) := by
  obtain ⟨cur, mode⟩ := st
  simp only at hm
  subst hm
  generalize hst : ({ cur := cur, mode := Mode.directive } : LexSt) = st
  have hm : st.mode = .directive := by rw [← hst]
  have hst0 : ({ st with cur := st.cur.skipWs } : LexSt) = ⟨st.cur.skipWs, .directive⟩ := by rw [← hst]
  unfold dirNextK lexNext
  rw [hst0]
  have hws := Cur.skipWs_rest st.cur
  cases h0 : st.cur.rest.dropWhile isInlineWs with
  | nil =>
    rw [h0] at hws
    simp only
    rw [nextLoop_nil f _ ⟨st.cur.skipWs, .directive⟩ none hws]
    exact ⟨_, _, rfl, rfl, hws, rfl⟩
  | cons c r' =>
    rw [h0] at hws
    have hlen : 1 ≤ st.cur.rest.length := by
      have := length_dropWhile_le isInlineWs st.cur.rest
      rw [h0] at this; simp only [List.length_cons] at this; omega
    simp only
    rw [nextLoop_cons f _ ⟨st.cur.skipWs, .directive⟩ none c r' hws]
    simp only [↓reduceIte]
    have hk := lexDirTok_kind' c ⟨st.cur.skipWs, .directive⟩ r' hws
    cases hd : lexDirTok c ⟨st.cur.skipWs, .directive⟩ with
    | mk ds st1 =>
      rw [hd] at hk
      cases hK : dirTokK c r' with
      | mk k r'' =>
        rw [hK] at hk
        cases ds with
        | tok t1 =>
          simp only [DirStep.kind] at hk
          obtain ⟨hk1, hk2, hk3⟩ := hk
          subst hk1
          simp only
          refine ⟨t1, st1, rfl, rfl, hk2, ?_⟩
          rw [hk3]
          by_cases hdd : t1.tok = .dend <;> simp [hdd]
        | err e =>
          simp only [DirStep.kind] at hk
          obtain ⟨hk1, hk2, hk3⟩ := hk
          subst hk1
          exact ⟨e, st1, rfl⟩
        | skip =>
          simp only [DirStep.kind] at hk
          obtain ⟨hk1, hk2, hk3⟩ := hk
          subst hk1
          simp only [reduceCtorEq, ↓reduceIte] at hk3
          have hsk := dirTokK_skip c r' (by rw [hK])
          rw [hK] at hsk
          simp only at hsk hk2 ⊢
          have hstop : stopNl r'' := by rw [hsk]; exact stopNl_dropWhile_notNewline r'
          have hrest2 : (st1.cur.skipWs).rest = r'' := by
            rw [Cur.skipWs_rest, hk2]; exact dropWhile_stop _ isInlineWs_nl _ hstop
          obtain ⟨k, hk⟩ : ∃ k, st.cur.rest.length = k + 1 := ⟨st.cur.rest.length - 1, by omega⟩
          rw [hk]
          cases r'' with
          | nil =>
            rw [nextLoop_nil f _ { st1 with cur := st1.cur.skipWs } none hrest2]
            simp only [hk3]
            exact ⟨_, _, rfl, rfl, hrest2, rfl⟩
          | cons c2 r2 =>
            simp only [stopNl] at hstop
            subst hstop
            rw [nextLoop_cons f _ { st1 with cur := st1.cur.skipWs } none '\n' r2 hrest2]
            simp only [hk3, ↓reduceIte]
            have hk' := lexDirTok_kind' '\n' ⟨st1.cur.skipWs, .directive⟩ r2 hrest2
            rw [dirTokK_nl] at hk'
            cases hd2 : lexDirTok '\n' ⟨st1.cur.skipWs, .directive⟩ with
            | mk ds2 st2 =>
              rw [hd2] at hk'
              cases ds2 with
              | tok t2 =>
                simp only [DirStep.kind, DirK.tok.injEq, ↓reduceIte] at hk'
                exact ⟨t2, st2, rfl, hk'.1, hk'.2.1, hk'.2.2⟩
              | err e => simp [DirStep.kind] at hk'
              | skip => simp [DirStep.kind] at hk'

/-! ## canonical states: under `CurInv` a cursor is determined by its remaining input -/

def curOf (f rest : List Char) : Cur := ⟨rest, f.length - rest.length, locAt f (f.length - rest.length)⟩
def stAt (f rest : List Char) (m : Mode) : LexSt := ⟨curOf f rest, m⟩

theorem CurInv.off_eq {f : List Char} {c : Cur} (h : CurInv f c) : c.off = f.length - c.rest.length := by
  have h1 := h.le
  have h2 := congrArg List.length h.rest
  rw [List.length_drop] at h2
  omega

theorem CurInv.eq_curOf {f : List Char} {c : Cur} (h : CurInv f c) : c = curOf f c.rest := by
  obtain ⟨rest, off, loc⟩ := c
  have ho := h.off_eq
  have hl := h.loc
  simp only at ho hl
  simp only [curOf, Cur.mk.injEq, true_and]
  rw [← ho]
  exact ⟨rfl, hl⟩

theorem LexSt.eq_stAt {f : List Char} {st : LexSt} (h : CurInv f st.cur) : st = stAt f st.cur.rest st.mode := by
  obtain ⟨cur, m⟩ := st
  simp only [stAt, LexSt.mk.injEq, and_true]
  exact h.eq_curOf

/-! ## the token stream as an option -/

def toksOf : Except LexErr (List LTok) → Option (List PTok)
  | .ok ts => some (ts.map (·.tok))
  | .error _ => none

/-- what one `next()` contributes to the rest of the token stream -/
def cont (f : List Char) : Option (Except LexErr LTok) × LexSt → Option (List PTok)
  | (none, _) => some []
  | (some (.error _), _) => none
  | (some (.ok t), st') => (toksOf (lexAllS f st')).map (t.tok :: ·)

theorem toksOf_lexAllS (f : List Char) (st : LexSt) : toksOf (lexAllS f st) = cont f (lexNext f st) := by
  rw [lexAllS_unfold]
  cases hn : lexNext f st with
  | mk res st1 =>
    cases res with
    | none => rfl
    | some r =>
      cases r with
      | error e => rfl
      | ok t =>
        simp only [cont]
        cases lexAllS f st1 with
        | ok ts => simp [toksOf]
        | error e => simp [toksOf]

/-! ## the rest of a directive line -/

/-- the tokens up to (not including) the `DirectiveEnd` and the input left at the end of the line; `none` = lexical error -/
def dirLexR : Nat → List Char → Option (List PTok × List Char)
  | 0, _ => none
  | n + 1, rest =>
    match dirNextK rest with
    | (none, _) => none
    | (some t, r1) => if t = .dend then some ([], r1) else (dirLexR n r1).map (fun x => (t :: x.1, x.2))

theorem lexAllS_dir (f : List Char) : ∀ (n : Nat) (st : LexSt), st.mode = .directive → CurInv f st.cur →
    st.cur.rest.length < n →
    (∀ x, dirLexR n st.cur.rest = some x → CurInv f (curOf f x.2)) ∧
    toksOf (lexAllS f st) = (dirLexR n st.cur.rest).bind fun x =>
      (toksOf (lexAllS f (stAt f x.2 .unknown))).map (fun ts => x.1 ++ .dend :: ts) := by
  intro n
  induction n with
  | zero => intro st _ _ h; omega
  | succ n ih =>
    intro st hm hinv hlen
    have hd := lexNext_dir f st hm
    rw [toksOf_lexAllS]
    unfold dirLexR
    cases hK : dirNextK st.cur.rest with
    | mk k r1 =>
      rw [hK] at hd
      cases k with
      | none =>
        obtain ⟨e, st1, hn⟩ := hd
        simp only at hn ⊢
        rw [hn]
        simp [cont]
      | some t =>
        obtain ⟨lt, st1, hn, ht, hr1, hm1⟩ := hd
        have hf := lexNext_facts f st hinv
        rw [hn] at hf
        have hinv1 : CurInv f st1.cur := hf.1
        have hst1 := LexSt.eq_stAt hinv1
        rw [hr1, hm1] at hst1
        simp only
        rw [hn]
        simp only [cont, ht]
        by_cases hdd : t = .dend
        · simp only [hdd, ↓reduceIte] at hst1 ⊢
          refine ⟨?_, ?_⟩
          · intro x hx
            simp only [Option.some.injEq] at hx
            subst hx
            rw [← hr1, ← hinv1.eq_curOf]; exact hinv1
          · simp only [Option.bind, List.nil_append]
            rw [← hst1]
        · simp only [hdd, ↓reduceIte] at hst1 ⊢
          have hmeas := lexNext_meas f st lt st1 hn
          have hm1' : st1.mode = .directive := by rw [hst1]; rfl
          have hlt : st1.cur.rest.length < n := by
            simp only [LexSt.meas, hm, hm1', Mode.rank] at hmeas
            omega
          obtain ⟨ih1, ih2⟩ := ih st1 hm1' hinv1 hlt
          rw [hr1] at ih1 ih2
          refine ⟨?_, ?_⟩
          · intro x hx
            cases hrec : dirLexR n r1 with
            | none => rw [hrec] at hx; simp at hx
            | some y =>
              rw [hrec] at hx
              simp only [Option.map, Option.some.injEq] at hx
              subst hx
              exact ih1 y hrec
          · rw [ih2]
            cases hrec : dirLexR n r1 with
            | none => simp
            | some y =>
              simp only [Option.bind, Option.map]
              cases toksOf (lexAllS f (stAt f y.2 .unknown)) <;> simp

/-! ## a directive line is lexed independently of what follows the line -/

/-- no newline inside -/
def noNl (l : List Char) : Prop := ∀ x ∈ l, x ≠ '\n'

theorem noNl_of_suffix {a b : List Char} (h : a <:+ b) (hb : noNl b) : noNl a := fun x hx => hb x (h.subset hx)

theorem dropWhile_append_stop (p : Char → Bool) (hp : p '\n' = false) (a tl : List Char) (h : stopNl tl) :
    (a ++ tl).dropWhile p = a.dropWhile p ++ tl := by
  induction a with
  | nil => simpa using dropWhile_stop p hp tl h
  | cons x a ih =>
    simp only [List.cons_append, List.dropWhile_cons]
    split
    · exact ih
    · rfl

theorem takeWhile_append_stop (p : Char → Bool) (hp : p '\n' = false) (a tl : List Char) (h : stopNl tl) :
    (a ++ tl).takeWhile p = a.takeWhile p := by
  induction a with
  | nil =>
    cases tl with
    | nil => rfl
    | cons c tl => simp only [stopNl] at h; subst h; simp [hp]
  | cons x a ih =>
    simp only [List.cons_append, List.takeWhile_cons]
    split
    · rw [ih]
    · rfl

theorem head?_append_stop (x : Char) (hx : x ≠ '\n') (r tl : List Char) (h : stopNl tl) :
    ((r ++ tl).head? = some x) = (r.head? = some x) := by
  cases r with
  | nil =>
    cases tl with
    | nil => rfl
    | cons c tl =>
      simp only [stopNl] at h; subst h
      simp only [List.nil_append, List.head?_cons, Option.some.injEq, List.head?_nil, reduceCtorEq, eq_iff_iff, iff_false]
      exact fun e => hx e.symm
  | cons c r => rfl

theorem tail_append_of_head? (x : Char) (r tl : List Char) (h : r.head? = some x) : (r ++ tl).tail = r.tail ++ tl := by
  cases r with
  | nil => simp at h
  | cons c r => rfl

theorem kwK_append (r tl : List Char) (h : stopNl tl) : kwK (r ++ tl) = ((kwK r).1, (kwK r).2 ++ tl) := by
  unfold kwK
  simp only [dropWhile_append_stop _ isInlineWs_nl _ _ h, takeWhile_append_stop _ isIdentChar_nl _ _ h,
    dropWhile_append_stop _ isIdentChar_nl _ _ h]
  split <;> rfl

theorem dirTokK_append (c : Char) (r tl : List Char) (hc : c ≠ '\n') (h : stopNl tl) :
    dirTokK c (r ++ tl) = ((dirTokK c r).1, (dirTokK c r).2 ++ tl) := by
  unfold dirTokK
  by_cases h1 : c = '('
  · simp [h1]
  by_cases h2 : c = ')'
  · simp [h2]
  by_cases h3 : c = '!'
  · simp [h3]
  rw [if_neg h1, if_neg h2, if_neg h3, if_neg h1, if_neg h2, if_neg h3]
  by_cases h4 : c = '&'
  · rw [if_pos h4, if_pos h4]
    simp only [head?_append_stop '&' (by decide) r tl h]
    by_cases hh : r.head? = some '&'
    · simp [hh, tail_append_of_head? '&' r tl hh]
    · simp [hh]
  rw [if_neg h4, if_neg h4]
  by_cases h5 : c = '|'
  · rw [if_pos h5, if_pos h5]
    simp only [head?_append_stop '|' (by decide) r tl h]
    by_cases hh : r.head? = some '|'
    · simp [hh, tail_append_of_head? '|' r tl hh]
    · simp [hh]
  rw [if_neg h5, if_neg h5]
  by_cases h6 : c = '#'
  · rw [if_pos h6, if_pos h6]; exact kwK_append r tl h
  rw [if_neg h6, if_neg h6]
  by_cases h7 : c = '/'
  · rw [if_pos h7, if_pos h7]
    simp only [head?_append_stop '/' (by decide) r tl h]
    by_cases hh : r.head? = some '/'
    · simp [hh, dropWhile_append_stop _ notNewline_nl _ _ h]
    · simp [hh]
  rw [if_neg h7, if_neg h7]
  by_cases h8 : isAsciiAlpha c = true
  · rw [if_pos h8, if_pos h8]
    have e1 := takeWhile_append_stop _ isIdentChar_nl (c :: r) tl h
    have e2 := dropWhile_append_stop _ isIdentChar_nl (c :: r) tl h
    rw [List.cons_append] at e1 e2
    rw [e1, e2]
  rw [if_neg h8, if_neg h8]
  by_cases h9 : (!isWs c) = true
  · simp [h9]
  rw [if_neg h9, if_neg h9, if_neg hc, if_neg hc]
  rfl

theorem kwK_suffix (r : List Char) : (kwK r).2 <:+ r := by
  unfold kwK
  dsimp only
  have : (r.dropWhile isInlineWs).dropWhile isIdentChar <:+ r :=
    (List.dropWhile_suffix _).trans (List.dropWhile_suffix _)
  split <;> exact this

theorem dirTokK_suffix (c : Char) (r : List Char) : (dirTokK c r).2 <:+ c :: r := by
  have hr : r <:+ c :: r := List.suffix_cons c r
  rcases dirTokK_cases c r with h | h | h | ⟨_, h⟩ | ⟨_, h⟩ | h | ⟨_, h⟩ | h | ⟨_, h⟩ | ⟨_, h⟩ | h <;> rw [h]
  · exact hr
  · exact hr
  · exact hr
  · exact (List.tail_suffix r).trans hr
  · exact (List.tail_suffix r).trans hr
  · exact hr
  · exact (kwK_suffix r).trans hr
  · exact (List.dropWhile_suffix _).trans hr
  · exact List.dropWhile_suffix _
  · exact List.suffix_refl _
  · exact List.suffix_refl _

theorem dirNextK_suffix (r : List Char) : (dirNextK r).2 <:+ r := by
  unfold dirNextK
  cases h0 : r.dropWhile isInlineWs with
  | nil => exact List.nil_suffix
  | cons c r' =>
    have h1 : c :: r' <:+ r := by rw [← h0]; exact List.dropWhile_suffix _
    have h2 := (dirTokK_suffix c r').trans h1
    simp only
    cases hK : dirTokK c r' with
    | mk k r'' =>
      rw [hK] at h2
      cases k <;> exact h2

theorem dropWhile_notNewline_noNl (r : List Char) (h : noNl r) : r.dropWhile notNewline = [] := by
  induction r with
  | nil => rfl
  | cons c r ih =>
    have hc : notNewline c = true := by simp [notNewline, h c (by simp)]
    simp only [List.dropWhile_cons, hc, ↓reduceIte]
    exact ih (fun x hx => h x (by simp [hx]))

theorem dirNextK_append (r tl : List Char) (hr : noNl r) (h : stopNl tl) :
    dirNextK (r ++ tl) = ((dirNextK r).1, (dirNextK r).2 ++ tl) ∧
    ((dirNextK r).1 = some .dend → (dirNextK r).2 = []) := by
  unfold dirNextK
  rw [dropWhile_append_stop _ isInlineWs_nl _ _ h]
  cases h0 : r.dropWhile isInlineWs with
  | nil =>
    simp only [List.nil_append, implies_true, and_true]
    cases tl with
    | nil => rfl
    | cons c tl =>
      simp only [stopNl] at h; subst h
      simp only [dirTokK_nl]
  | cons c r' =>
    have h1 : c :: r' <:+ r := by rw [← h0]; exact List.dropWhile_suffix _
    have hn := noNl_of_suffix h1 hr
    have hc : c ≠ '\n' := hn c (by simp)
    simp only [List.cons_append]
    rw [dirTokK_append c r' tl hc h]
    cases hK : dirTokK c r' with
    | mk k r'' =>
      cases k with
      | tok t =>
        refine ⟨rfl, ?_⟩
        intro ht
        simp only [Option.some.injEq] at ht
        subst ht
        exact absurd (dirTokK_dend c r' (by rw [hK])).1 hc
      | err => exact ⟨rfl, by simp⟩
      | skip =>
        refine ⟨rfl, fun _ => ?_⟩
        have := dirTokK_skip c r' (by rw [hK])
        rw [hK] at this
        simp only at this ⊢
        rw [this]
        exact dropWhile_notNewline_noNl r' (fun x hx => hn x (by simp [hx]))

theorem dirLexR_append : ∀ (n : Nat) (r tl : List Char), noNl r → stopNl tl →
    dirLexR n (r ++ tl) = (dirLexR n r).map (fun x => (x.1, tl)) := by
  intro n
  induction n with
  | zero => intro r tl _ _; rfl
  | succ n ih =>
    intro r tl hr h
    have ha := dirNextK_append r tl hr h
    have hs := dirNextK_suffix r
    unfold dirLexR
    rw [ha.1]
    cases hK : dirNextK r with
    | mk k r1 =>
      rw [hK] at ha hs
      cases k with
      | none => rfl
      | some t =>
        simp only
        by_cases hdd : t = .dend
        · have := ha.2 (by rw [hdd])
          simp only at this
          simp [hdd, this]
        · simp only [hdd, ↓reduceIte]
          rw [ih r1 tl (noNl_of_suffix hs hr) h]
          cases dirLexR n r1 <;> rfl

theorem dirNextK_len (r : List Char) (t : PTok) (h : (dirNextK r).1 = some t) (ht : t ≠ .dend) :
    (dirNextK r).2.length < r.length := by
  unfold dirNextK at h ⊢
  cases h0 : r.dropWhile isInlineWs with
  | nil => rw [h0] at h; simp only [Option.some.injEq] at h; exact absurd h.symm ht
  | cons c r' =>
    rw [h0] at h
    have h1 := length_dropWhile_le isInlineWs r
    rw [h0, List.length_cons] at h1
    simp only at h ⊢
    cases hK : dirTokK c r' with
    | mk k r'' =>
      rw [hK] at h
      cases k with
      | tok t' =>
        simp only [Option.some.injEq] at h
        subst h
        have := dirTokK_len c r' (by rw [hK]; simpa using ht) (by rw [hK]; simp)
        rw [hK] at this
        simp only at this ⊢
        omega
      | err => simp at h
      | skip => simp only [Option.some.injEq] at h; exact absurd h.symm ht

theorem dirLexR_fuel : ∀ (n m : Nat) (r : List Char), r.length < n → r.length < m → dirLexR n r = dirLexR m r := by
  intro n
  induction n with
  | zero => intro m r h; omega
  | succ n ih =>
    intro m r hn hm
    obtain ⟨m, rfl⟩ : ∃ k, m = k + 1 := ⟨m - 1, by omega⟩
    unfold dirLexR
    cases hK : dirNextK r with
    | mk k r1 =>
      cases k with
      | none => rfl
      | some t =>
        simp only
        by_cases hdd : t = .dend
        · simp [hdd]
        · have := dirNextK_len r t (by rw [hK]) hdd
          rw [hK] at this
          simp only at this
          simp only [hdd, ↓reduceIte]
          rw [ih m r1 (by omega) (by omega)]

/-- the tokens of a directive line `d` (from its `#` on), without the final `DirectiveEnd`; `none` = lexical error -/
def dirLine (d : List Char) : Option (List PTok) := (dirLexR (d.length + 1) d).map (·.1)

end Slicec.Pp
