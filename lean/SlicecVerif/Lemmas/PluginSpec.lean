/-
  Helper lemmas for C19: the character loop `scan` factors through the un-escaping tokenizer; on
  tokens the look-ahead test of the separator arm is "drop one trailing comma"; the token loop is
  the split-based specification; tokens of a rendered specification.
-/
import SlicecVerif.Model.PluginSpec

namespace Slicec.PluginSpec

/-! ## the extracted table, as facts -/

theorem isEscapable_iff (c : Char) : isEscapable c = true ↔ (c = ',' ∨ c = '=') := by
  simp [isEscapable, Gen.pluginEscapable]

theorem isEscapable_false_iff (c : Char) : isEscapable c = false ↔ ¬ (c = ',' ∨ c = '=') := by
  rw [← isEscapable_iff]; simp

/-! ## one-step unfoldings with the table's characters written out -/

theorem tokenize_cons (c : Char) (rest : List Char) : tokenize (c :: rest) =
    if c = '\\' then
      match rest with
      | n :: rest' => if n = ',' ∨ n = '=' then .lit n :: tokenize rest' else .lit c :: tokenize (n :: rest')
      | [] => [.lit c]
    else if c = ',' then .comma :: tokenize rest
    else if c = '=' then .eq :: tokenize rest
    else .lit c :: tokenize rest := by
  rw [tokenize.eq_def]; rfl

theorem scan_cons (st : PSt) (c : Char) (rest : List Char) : scan st (c :: rest) =
    if c = '\\' then
      match rest with
      | n :: rest' => if isEscapable n then scan (st.push n) rest' else scan (st.push c) (n :: rest')
      | [] => .ok (st.push c)
    else if c = ',' then
      if rest.isEmpty then scan st rest else scan st.newArg rest
    else if c = '=' then
      match st with
      | .path _ => scan (st.push '=') rest
      | .key p d k => scan (.value p d k []) rest
      | .value _ _ _ _ => .error .secondEq
    else scan (st.push c) rest := by
  rw [scan.eq_def]; rfl

/-! ## the loop on tokens -/

/-- the loop of `plugin_parser` after un-escaping -/
def scanT (st : PSt) : List Tok → Except PErr PSt
  | [] => .ok st
  | .lit c :: ts => scanT (st.push c) ts
  | .comma :: ts => if ts.isEmpty then .ok st else scanT st.newArg ts
  | .eq :: ts =>
    match st with
    | .path _ => scanT (st.push '=') ts
    | .key p d k => scanT (.value p d k []) ts
    | .value _ _ _ _ => .error .secondEq

/-- the same loop without the look-ahead test (every comma starts a pair) -/
def scanU (st : PSt) : List Tok → Except PErr PSt
  | [] => .ok st
  | .lit c :: ts => scanU (st.push c) ts
  | .comma :: ts => scanU st.newArg ts
  | .eq :: ts =>
    match st with
    | .path _ => scanU (st.push '=') ts
    | .key p d k => scanU (.value p d k []) ts
    | .value _ _ _ _ => .error .secondEq

theorem tokenize_eq_nil (s : List Char) : tokenize s = [] ↔ s = [] := by
  cases s with
  | nil => simp [tokenize]
  | cons c rest =>
    rw [tokenize_cons]
    split
    · cases rest with
      | nil => simp
      | cons n r => simp only []; split <;> simp
    · split
      · simp
      · split <;> simp

theorem scan_eq_scanT_aux (n : Nat) : ∀ (s : List Char) (st : PSt), s.length ≤ n → scan st s = scanT st (tokenize s) := by
  induction n with
  | zero =>
    intro s st h
    have : s = [] := List.eq_nil_of_length_eq_zero (by omega)
    subst this; simp [scan, tokenize, scanT]
  | succ n ih =>
    intro s st h
    cases s with
    | nil => simp [scan, tokenize, scanT]
    | cons c rest =>
      simp only [List.length_cons] at h
      rw [scan_cons, tokenize_cons]
      by_cases h1 : c = '\\'
      · simp only [h1, if_true]
        cases rest with
        | nil => simp [scanT]
        | cons m r =>
          simp only [List.length_cons] at h
          by_cases h2 : (m = ',' ∨ m = '=')
          · have := (isEscapable_iff m).2 h2
            simp only [this, if_true, h2, scanT]
            exact ih _ _ (by omega)
          · have := (isEscapable_false_iff m).2 h2
            simp only [this, h2, if_false, scanT]
            exact ih _ _ (by simp; omega)
      · simp only [h1, if_false]
        by_cases h2 : c = ','
        · simp only [h2, if_true, scanT]
          have hr : (tokenize rest).isEmpty = rest.isEmpty := by
            cases rest with
            | nil => simp [tokenize]
            | cons a b =>
              have := tokenize_eq_nil (a :: b)
              cases ht : tokenize (a :: b) with
              | nil => simp [ht] at this
              | cons _ _ => simp
          rw [hr]
          split
          · rename_i he
            have : rest = [] := by simpa using he
            subst this; simp [scan]
          · exact ih _ _ (by omega)
        · simp only [h2, if_false]
          by_cases h3 : c = '='
          · simp only [h3, if_true, scanT]
            cases st with
            | path p => exact ih _ _ (by omega)
            | key p d k => exact ih _ _ (by omega)
            | value p d k v => rfl
          · simp only [h3, if_false, scanT]
            exact ih _ _ (by omega)

theorem scan_eq_scanT (st : PSt) (s : List Char) : scan st s = scanT st (tokenize s) :=
  scan_eq_scanT_aux s.length s st (Nat.le_refl _)

/-! ## the look-ahead test of the separator arm = "one trailing comma is dropped" -/

theorem dropTrailingComma_nil : dropTrailingComma [] = [] := by simp [dropTrailingComma]

theorem dropTrailingComma_single (t : Tok) : dropTrailingComma [t] = if t = .comma then [] else [t] := by
  simp [dropTrailingComma]

theorem dropTrailingComma_cons (t u : Tok) (ts : List Tok) :
    dropTrailingComma (t :: u :: ts) = t :: dropTrailingComma (u :: ts) := by
  simp only [dropTrailingComma, List.getLast?_cons_cons]
  split <;> simp

theorem scanT_eq_scanU (ts : List Tok) : ∀ st, scanT st ts = scanU st (dropTrailingComma ts) := by
  induction ts with
  | nil => intro st; simp [dropTrailingComma_nil, scanT, scanU]
  | cons t ts ih =>
    intro st
    cases ts with
    | nil =>
      rw [dropTrailingComma_single]
      cases t <;> cases st <;> simp [scanT, scanU]
    | cons u ts =>
      rw [dropTrailingComma_cons]
      cases t with
      | lit c => simp only [scanT, scanU]; exact ih _
      | comma => simp only [scanT, scanU, List.isEmpty_cons]; exact ih _
      | eq =>
        cases st with
        | path p => simp only [scanT, scanU]; exact ih _
        | key p d k => simp only [scanT, scanU]; exact ih _
        | value p d k v => simp [scanT, scanU]

/-! ## the token loop is the split-based specification -/

@[simp] theorem isEq_lit (c : Char) : isEq (.lit c) = false := by simp [isEq]
@[simp] theorem isEq_comma : isEq .comma = false := by simp [isEq]
@[simp] theorem isEq_eq : isEq .eq = true := by simp [isEq]

theorem specArg_nil : specArg [] = .ok ([], []) := by simp [specArg]

theorem specArg_lit (c : Char) (seg : List Tok) :
    specArg (.lit c :: seg) = match specArg seg with | .error e => .error e | .ok a => .ok (c :: a.1, a.2) := by
  unfold specArg
  simp only [List.takeWhile_cons, List.dropWhile_cons, isEq_lit, Bool.not_false, if_true]
  split <;> simp [Tok.char]

theorem specArg_eq (seg : List Tok) :
    specArg (.eq :: seg) = if seg.any isEq then .error .secondEq else .ok ([], seg.map Tok.char) := by
  unfold specArg
  simp

/-- result of the value phase and of the key phase of the token loop, in terms of the pieces -/
theorem scanU_key_value (ts : List Tok) :
    (∀ p d k v, (scanU (.value p d k v) ts).map PSt.fin =
        if (splitCommas ts).1.any isEq then .error .secondEq
        else match specArgs (splitCommas ts).2 with
          | .error e => .error e
          | .ok as => .ok (p, d ++ (k, v ++ (splitCommas ts).1.map Tok.char) :: as)) ∧
    (∀ p d k, (scanU (.key p d k) ts).map PSt.fin =
        match specArg (splitCommas ts).1 with
        | .error e => .error e
        | .ok a => match specArgs (splitCommas ts).2 with
          | .error e => .error e
          | .ok as => .ok (p, d ++ (k ++ a.1, a.2) :: as)) := by
  induction ts with
  | nil =>
    constructor
    · intro p d k v; simp [scanU, splitCommas, specArgs, PSt.fin, Except.map]
    · intro p d k; simp [scanU, splitCommas, specArgs, specArg_nil, PSt.fin, Except.map]
  | cons t ts ih =>
    obtain ⟨ihV, ihK⟩ := ih
    cases t with
    | lit c =>
      constructor
      · intro p d k v
        simp only [scanU, PSt.push, splitCommas, ihV]
        simp [Tok.char]
      · intro p d k
        simp only [scanU, PSt.push, splitCommas, ihK, specArg_lit]
        cases specArg (splitCommas ts).1 with
        | error e => rfl
        | ok a => cases specArgs (splitCommas ts).2 <;> simp
    | comma =>
      constructor
      · intro p d k v
        simp only [scanU, PSt.newArg, splitCommas, ihK, specArgs]
        simp
        cases specArg (splitCommas ts).1 with
        | error e => rfl
        | ok a => cases specArgs (splitCommas ts).2 <;> simp
      · intro p d k
        simp only [scanU, PSt.newArg, splitCommas, ihK, specArgs, specArg_nil]
        cases specArg (splitCommas ts).1 with
        | error e => rfl
        | ok a => cases specArgs (splitCommas ts).2 <;> simp
    | eq =>
      constructor
      · intro p d k v
        simp [scanU, splitCommas, Except.map]
      · intro p d k
        simp only [scanU, splitCommas, ihV, specArg_eq]
        split
        · rfl
        · cases specArgs (splitCommas ts).2 <;> simp

theorem scanU_path (ts : List Tok) : ∀ p, (scanU (.path p) ts).map PSt.fin =
    match specArgs (splitCommas ts).2 with
    | .error e => .error e
    | .ok as => .ok (p ++ (splitCommas ts).1.map Tok.char, as) := by
  induction ts with
  | nil => intro p; simp [scanU, splitCommas, specArgs, PSt.fin, Except.map]
  | cons t ts ih =>
    intro p
    cases t with
    | lit c =>
      simp only [scanU, PSt.push, splitCommas, ih]
      cases specArgs (splitCommas ts).2 <;> simp [Tok.char]
    | comma =>
      simp only [scanU, PSt.newArg, splitCommas, (scanU_key_value ts).2, specArgs]
      cases specArg (splitCommas ts).1 with
      | error e => rfl
      | ok a => cases specArgs (splitCommas ts).2 <;> simp
    | eq =>
      simp only [scanU, PSt.push, splitCommas, ih]
      cases specArgs (splitCommas ts).2 <;> simp [Tok.char]

/-! ## the parser through tokens -/

theorem finish_eq (raw : List Char × List Arg) : finish raw =
    if trim raw.1 = [] then .error .missingPath
    else if ∃ a ∈ raw.2.map trimArg, a.1 = [] then .error .missingKey
    else .ok (trim raw.1, raw.2.map trimArg) := by
  have hany : (raw.2.map trimArg).any (fun a => a.1.isEmpty) = true ↔ ∃ a ∈ raw.2.map trimArg, a.1 = [] := by
    rw [List.any_eq_true]
    constructor
    · rintro ⟨a, ha, h⟩; exact ⟨a, ha, by simpa using h⟩
    · rintro ⟨a, ha, h⟩; exact ⟨a, ha, by simp [h]⟩
  unfold finish
  by_cases h1 : trim raw.1 = []
  · simp [h1]
  · have h1' : (trim raw.1).isEmpty = false := by simpa using h1
    by_cases h2 : ∃ a ∈ raw.2.map trimArg, a.1 = []
    · rw [if_neg h1, if_pos h2]
      simp only [h1', Bool.false_eq_true, if_false, hany.2 h2, if_true]
    · rw [if_neg h1, if_neg h2]
      have : ¬ ((raw.2.map trimArg).any (fun a => a.1.isEmpty) = true) := fun h => h2 (hany.1 h)
      simp only [h1', Bool.false_eq_true, if_false, this]

/-- `plugin_parser` = token loop without look-ahead on the un-escaped text minus one trailing comma -/
theorem pluginParser_eq_scanU (s : List Char) : pluginParser s =
    match scanU (.path []) (dropTrailingComma (tokenize s)) with
    | .error e => .error e
    | .ok st => finish st.fin := by
  unfold pluginParser
  rw [scan_eq_scanT, scanT_eq_scanU]
  cases scanU (.path []) (dropTrailingComma (tokenize s)) <;> rfl

/-! ## tokens of a rendered specification -/

/-- the text starts with one of the two separators -/
def startsSep : List Char → Bool
  | n :: _ => n = ',' ∨ n = '='
  | [] => false

/-- every component is free of a trailing backslash, except possibly the last one when no separator follows -/
def compsOk (sepAfter : Bool) : List (List Char) → Prop
  | [] => True
  | [c] => endsBs c = false ∨ sepAfter = false
  | c :: d :: cs => endsBs c = false ∧ compsOk sepAfter (d :: cs)

theorem endsBs_cons_cons (c d : Char) (cs : List Char) : endsBs (c :: d :: cs) = endsBs (d :: cs) := by
  simp [endsBs, List.getLast?_cons_cons]

theorem endsBs_single (c : Char) : endsBs [c] = decide (c = '\\') := by
  simp [endsBs]

theorem startsSep_escape_append (c : Char) (cs rest : List Char) : startsSep (escape (c :: cs) ++ rest) = false := by
  simp only [escape]
  split
  · simp [startsSep]
  · rename_i h; simpa [startsSep] using h

theorem tokenize_bs_nosep (X : List Char) (h : startsSep X = false) :
    tokenize ('\\' :: X) = .lit '\\' :: tokenize X := by
  rw [tokenize_cons]
  cases X with
  | nil => simp [tokenize]
  | cons n r =>
    have : ¬ (n = ',' ∨ n = '=') := by simpa [startsSep] using h
    simp [this]

theorem tokenize_escape_append (comp : List Char) : ∀ rest, (endsBs comp = false ∨ startsSep rest = false) →
    tokenize (escape comp ++ rest) = comp.map .lit ++ tokenize rest := by
  induction comp with
  | nil => intro rest _; simp [escape]
  | cons c cs ih =>
    intro rest h
    have h' : endsBs cs = false ∨ startsSep rest = false := by
      cases cs with
      | nil => left; simp [endsBs]
      | cons d ds => rw [endsBs_cons_cons] at h; exact h
    by_cases hc : c = ',' ∨ c = '='
    · have hne : c ≠ '\\' := by rcases hc with rfl | rfl <;> decide
      simp only [escape, hc, if_true, List.cons_append, List.map_cons]
      rw [tokenize_cons]
      simp only [if_true, hc]
      rw [ih rest h']
    · by_cases hb : c = '\\'
      · subst hb
        simp only [escape, hc, if_false, List.cons_append, List.map_cons]
        have hX : startsSep (escape cs ++ rest) = false := by
          cases cs with
          | nil =>
            rcases h with h | h
            · simp [endsBs] at h
            · simpa [escape] using h
          | cons d ds => exact startsSep_escape_append d ds rest
        rw [tokenize_bs_nosep _ hX, ih rest h']
      · simp only [escape, hc, if_false, List.cons_append, List.map_cons]
        rw [tokenize_cons]
        have h1 : c ≠ ',' := fun e => hc (Or.inl e)
        have h2 : c ≠ '=' := fun e => hc (Or.inr e)
        simp only [hb, h1, h2, if_false]
        rw [ih rest h']

/-- tokens of one written argument -/
def argToks (bare : Bool) (a : Arg) : List Tok :=
  a.1.map .lit ++ (if bare ∧ a.2 = [] then [] else .eq :: a.2.map .lit)

def argsToks (bare : Bool) : List Arg → List Tok
  | [] => []
  | a :: as => .comma :: argToks bare a ++ argsToks bare as

theorem startsSep_renderArgs (bare : Bool) (a : Arg) (as : List Arg) (rest : List Char) :
    startsSep (renderArgs bare (a :: as) ++ rest) = true := by
  simp [renderArgs, startsSep]

theorem tokenize_renderArgs (bare : Bool) (as : List Arg) : ∀ rest,
    compsOk (startsSep rest) (as.flatMap (fun a => [a.1, a.2])) →
    tokenize (renderArgs bare as ++ rest) = argsToks bare as ++ tokenize rest := by
  induction as with
  | nil => intro rest _; simp [renderArgs, argsToks]
  | cons a as ih =>
    intro rest h
    obtain ⟨k, v⟩ := a
    -- what the hypothesis says about k, v and the remaining arguments
    have hk : endsBs k = false := by
      cases as <;> exact h.1
    have hv : endsBs v = false ∨ startsSep (renderArgs bare as ++ rest) = false := by
      cases as with
      | nil => simpa [renderArgs, compsOk] using h.2
      | cons b bs => exact Or.inl h.2.1
    have hrest : compsOk (startsSep rest) (as.flatMap (fun a => [a.1, a.2])) := by
      cases as with
      | nil => simp [compsOk]
      | cons b bs => exact h.2.2
    simp only [renderArgs, argsToks, List.cons_append, List.append_assoc]
    rw [tokenize_cons]
    simp only [show ¬ (',' = '\\') by decide, if_false, if_true]
    congr 1
    unfold renderArg argToks
    by_cases hb : (bare = true ∧ v = [])
    · obtain ⟨rfl, rfl⟩ := hb
      simp only [and_self, if_true, List.append_nil]
      rw [tokenize_escape_append k _ (Or.inl hk), ih rest hrest]
    · simp only [hb, if_false, List.append_assoc, List.cons_append]
      rw [tokenize_escape_append k _ (Or.inl hk), tokenize_cons]
      simp only [show ¬ ('=' = '\\') by decide, show ¬ ('=' = ',') by decide, if_false, if_true]
      rw [tokenize_escape_append v _ hv, ih rest hrest]

/-! ## the token loop on a rendered specification -/

theorem scanT_lits_path (l : List Char) : ∀ p ts, scanT (.path p) (l.map .lit ++ ts) = scanT (.path (p ++ l)) ts := by
  induction l with
  | nil => intro p ts; simp
  | cons c cs ih => intro p ts; simp [scanT, PSt.push, ih]

theorem scanT_lits_key (l : List Char) : ∀ p d k ts,
    scanT (.key p d k) (l.map .lit ++ ts) = scanT (.key p d (k ++ l)) ts := by
  induction l with
  | nil => intro p d k ts; simp
  | cons c cs ih => intro p d k ts; simp [scanT, PSt.push, ih]

theorem scanT_lits_value (l : List Char) : ∀ p d k v ts,
    scanT (.value p d k v) (l.map .lit ++ ts) = scanT (.value p d k (v ++ l)) ts := by
  induction l with
  | nil => intro p d k v ts; simp
  | cons c cs ih => intro p d k v ts; simp [scanT, PSt.push, ih]

theorem newArg_eq (st : PSt) : st.newArg = .key st.fin.1 st.fin.2 [] := by
  cases st <;> simp [PSt.newArg, PSt.fin]

theorem scanT_argsToks (bare : Bool) (tail : List Tok) (ht : tail = [] ∨ tail = [.comma]) (as : List Arg) :
    ∀ st, (∀ a ∈ as, a.1 ≠ []) →
    ∃ st', scanT st (argsToks bare as ++ tail) = .ok st' ∧ st'.fin = (st.fin.1, st.fin.2 ++ as) := by
  induction as with
  | nil =>
    intro st _
    refine ⟨st, ?_, by simp⟩
    rcases ht with rfl | rfl <;> simp [argsToks, scanT]
  | cons a as ih =>
    intro st hk
    obtain ⟨k, v⟩ := a
    have hkne : k ≠ [] := hk (k, v) (by simp)
    have hk' : ∀ a ∈ as, a.1 ≠ [] := fun a ha => hk a (by simp [ha])
    obtain ⟨c, cs, rfl⟩ := List.exists_cons_of_ne_nil hkne
    simp only [argsToks, argToks, List.cons_append, List.append_assoc, List.map_cons, scanT, List.isEmpty_cons]
    rw [newArg_eq]
    simp only [Bool.false_eq_true, if_false]
    have hpush : (PSt.key st.fin.1 st.fin.2 []).push c = .key st.fin.1 st.fin.2 [c] := by simp [PSt.push]
    rw [hpush, scanT_lits_key]
    by_cases hb : (bare = true ∧ v = [])
    · obtain ⟨rfl, rfl⟩ := hb
      simp only [and_self, if_true, List.nil_append]
      obtain ⟨st', h1, h2⟩ := ih (.key st.fin.1 st.fin.2 ([c] ++ cs)) hk'
      refine ⟨st', h1, ?_⟩
      rw [h2]; simp [PSt.fin]
    · simp only [hb, if_false, List.cons_append, scanT]
      rw [scanT_lits_value]
      obtain ⟨st', h1, h2⟩ := ih (.value st.fin.1 st.fin.2 ([c] ++ cs) ([] ++ v)) hk'
      refine ⟨st', h1, ?_⟩
      rw [h2]; simp [PSt.fin]

/-! ## the round trip, for both ways of writing an empty value and with or without a trailing comma -/

theorem trim_nil : trim [] = [] := by simp [trim, trimStart, trimEnd]

theorem finish_ok (path : List Char) (args : List Arg) (hp : trim path ≠ []) (hk : ∀ a ∈ args, trim a.1 ≠ []) :
    finish (path, args) = .ok (trim path, args.map trimArg) := by
  rw [finish_eq]
  have h2 : ¬ ∃ a ∈ (args.map trimArg), a.1 = [] := by
    rintro ⟨a, ha, h⟩
    obtain ⟨b, hb, rfl⟩ := List.mem_map.1 ha
    exact hk b hb h
  simp only [hp, if_false]
  rw [if_neg h2]

theorem compsOk_of_all (s : Bool) (cs : List (List Char)) (h : ∀ c ∈ cs, endsBs c = false) : compsOk s cs := by
  induction cs with
  | nil => trivial
  | cons c cs ih =>
    cases cs with
    | nil => exact Or.inl (h c (by simp))
    | cons d ds => exact ⟨h c (by simp), ih (fun x hx => h x (by simp [hx]))⟩

theorem compsOk_of_dropLast (cs : List (List Char)) (h : ∀ c ∈ cs.dropLast, endsBs c = false) : compsOk false cs := by
  induction cs with
  | nil => trivial
  | cons c cs ih =>
    cases cs with
    | nil => exact Or.inr rfl
    | cons d ds =>
      refine ⟨h c (by simp [List.dropLast]), ih (fun x hx => h x ?_)⟩
      simp only [List.dropLast_cons_cons, List.mem_cons]
      exact Or.inr hx

theorem parse_render_gen (bare tc : Bool) (path : List Char) (args : List Arg)
    (hp : trim path ≠ []) (hk : ∀ a ∈ args, trim a.1 ≠ [])
    (hb : compsOk tc (components path args)) :
    pluginParser (escape path ++ renderArgs bare args ++ (if tc then [','] else [])) =
      .ok (trim path, args.map trimArg) := by
  have hsep : startsSep (if tc then [','] else []) = tc := by cases tc <;> simp [startsSep]
  have htok : tokenize (if tc then [','] else []) = (if tc then [Tok.comma] else []) := by
    cases tc <;> simp [tokenize]
  have hpath : endsBs path = false ∨ startsSep (renderArgs bare args ++ (if tc then [','] else [])) = false := by
    cases args with
    | nil => simpa [renderArgs, hsep, components, compsOk] using hb
    | cons a as => exact Or.inl hb.1
  have hargs : compsOk (startsSep (if tc then [','] else [])) (args.flatMap (fun a => [a.1, a.2])) := by
    rw [hsep]
    cases args with
    | nil => simp [compsOk]
    | cons a as => exact hb.2
  have hkne : ∀ a ∈ args, a.1 ≠ [] := fun a ha h => hk a ha (by rw [h, trim_nil])
  unfold pluginParser
  rw [scan_eq_scanT, List.append_assoc, tokenize_escape_append path _ hpath, tokenize_renderArgs bare args _ hargs,
    htok, scanT_lits_path]
  obtain ⟨st', h1, h2⟩ := scanT_argsToks bare (if tc then [Tok.comma] else []) (by cases tc <;> simp) args
    (.path ([] ++ path)) hkne
  rw [h1]
  have h3 : st'.fin = (path, args) := by rw [h2]; simp [PSt.fin]
  simp only [h3]
  exact finish_ok path args hp hk

/-! ## when the reference parser rejects -/

/-- text of the key of a piece: everything before its first unescaped `=` -/
def segKey (seg : List Tok) : List Char := (seg.takeWhile (fun t => !isEq t)).map Tok.char

/-- text of the value of a piece: everything after its first unescaped `=` -/
def segVal (seg : List Tok) : List Char := ((seg.dropWhile (fun t => !isEq t)).drop 1).map Tok.char

theorem any_isEq_iff (l : List Tok) : l.any isEq = true ↔ 1 ≤ l.count .eq := by
  induction l with
  | nil => simp
  | cons t l ih => cases t <;> simp [ih]

theorem secondEq_iff_count (seg : List Tok) :
    ((seg.dropWhile (fun t => !isEq t)).drop 1).any isEq = true ↔ 2 ≤ seg.count .eq := by
  induction seg with
  | nil => simp
  | cons t seg ih =>
    cases t with
    | lit c => simpa [List.dropWhile_cons, List.count_cons] using ih
    | comma => simpa [List.dropWhile_cons, List.count_cons] using ih
    | eq =>
      simp only [List.dropWhile_cons, isEq_eq, Bool.not_true, Bool.false_eq_true, if_false, List.drop_succ_cons,
        List.drop_zero, List.count_cons_self]
      rw [any_isEq_iff]; omega

theorem specArg_error_iff (seg : List Tok) (e : PErr) :
    specArg seg = .error e ↔ (e = .secondEq ∧ 2 ≤ seg.count .eq) := by
  unfold specArg
  rw [← secondEq_iff_count]
  dsimp only
  generalize ((seg.dropWhile (fun t => !isEq t)).drop 1).any isEq = b
  cases b
  · simp
  · simp only [if_true, and_true]
    constructor
    · intro h'; injection h' with h'; exact h'.symm
    · rintro rfl; rfl

theorem specArg_ok_iff (seg : List Tok) (a : Arg) :
    specArg seg = .ok a ↔ (¬ 2 ≤ seg.count .eq ∧ a = (segKey seg, segVal seg)) := by
  unfold specArg segKey segVal
  rw [← secondEq_iff_count]
  dsimp only
  generalize ((seg.dropWhile (fun t => !isEq t)).drop 1).any isEq = b
  cases b
  · simp only [Bool.false_eq_true, if_false, not_false_eq_true, true_and]
    constructor
    · intro h'; injection h' with h'; exact h'.symm
    · rintro rfl; rfl
  · simp

theorem specArgs_error (segs : List (List Tok)) (e : PErr) (h : specArgs segs = .error e) :
    e = .secondEq ∧ ∃ seg ∈ segs, 2 ≤ seg.count .eq := by
  induction segs with
  | nil => simp [specArgs] at h
  | cons seg segs ih =>
    simp only [specArgs] at h
    cases h1 : specArg seg with
    | error e1 =>
      rw [h1] at h; injection h with h; subst h
      have := (specArg_error_iff seg e1).1 h1
      exact ⟨this.1, seg, by simp, this.2⟩
    | ok a =>
      rw [h1] at h
      cases h2 : specArgs segs with
      | error e2 =>
        rw [h2] at h; injection h with h; subst h
        obtain ⟨he, seg', hm, hc⟩ := ih h2
        exact ⟨he, seg', by simp [hm], hc⟩
      | ok as => rw [h2] at h; cases h

theorem specArgs_ok (segs : List (List Tok)) (as : List Arg) (h : specArgs segs = .ok as) :
    (∀ seg ∈ segs, ¬ 2 ≤ seg.count .eq) ∧ as = segs.map (fun seg => (segKey seg, segVal seg)) := by
  induction segs generalizing as with
  | nil => simp [specArgs] at h; simp [h]
  | cons seg segs ih =>
    simp only [specArgs] at h
    cases h1 : specArg seg with
    | error e1 => rw [h1] at h; cases h
    | ok a =>
      rw [h1] at h
      cases h2 : specArgs segs with
      | error e2 => rw [h2] at h; cases h
      | ok as' =>
        rw [h2] at h; injection h with h; subst h
        obtain ⟨hno, ha⟩ := (specArg_ok_iff seg a).1 h1
        obtain ⟨ih1, ih2⟩ := ih as' h2
        refine ⟨?_, by simp [ha, ih2]⟩
        intro seg' hm
        rcases List.mem_cons.1 hm with rfl | hm
        · exact hno
        · exact ih1 seg' hm

end Slicec.PluginSpec
