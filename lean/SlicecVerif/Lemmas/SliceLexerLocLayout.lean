/-
  The printer's layouts and the LOCATED model of the Slice lexer (C09): the fold of `render` keeps the located reading of
  the text written so far in step with the printer's own bookkeeping (`trace`, Model/SliceLexerLoc.lean).
  §6 what `renderItem` does for the items with a random choice; §7 the located invariant and the fold (`lex_render_loc`);
  §8 the span bookkeeping on token indices (`spans_render`).
-/
import SlicecVerif.Lemmas.SliceLexerLoc
import SlicecVerif.Lemmas.SliceLexerLayout
import SlicecVerif.Lemmas.SliceLexerItems

namespace Slicec.SLex

open Slicec

/-! ## §6 `renderItem`, without the random generator -/

/-- an identifier item is written by `emitTok`, with or without a backslash (with, if it is a keyword) -/
theorem renderItem_ident (style : Nat) (st : LState) (s : String) :
    ∃ (rng : Rng) (esc : Bool), (keywords.contains s = true → esc = true) ∧
      renderItem style st (.ident s) = emitTok { st with rng := rng } (if esc then "\\" ++ s else s) false := by
  simp only [renderItem]
  by_cases hk : keywords.contains s = true
  · simp only [hk, if_true]
    exact ⟨st.rng, true, fun _ => rfl, rfl⟩
  · simp only [hk, Bool.false_eq_true, if_false]
    by_cases h0 : (style == 0) = true
    · simp only [h0, if_true]
      exact ⟨st.rng, false, False.elim, rfl⟩
    · simp only [h0, Bool.false_eq_true, if_false]
      cases hb : st.rng.below 5 with
      | mk c rng =>
        simp only []
        cases hc : (c == 0) with
        | true => exact ⟨rng, true, fun _ => rfl, rfl⟩
        | false => exact ⟨rng, false, False.elim, rfl⟩

/-- an optional comma is either not written (always so in the canonical layout) or written by `emitTok` -/
theorem renderItem_optComma (style : Nat) (st : LState) :
    ∃ rng : Rng, renderItem style st .optComma = { st with rng := rng } ∨
      (style ≠ 0 ∧ renderItem style st .optComma = emitTok { st with rng := rng } "," false) := by
  simp only [renderItem]
  by_cases h0 : (style == 0) = true
  · simp only [h0, if_true]
    exact ⟨st.rng, Or.inl rfl⟩
  · simp only [h0, Bool.false_eq_true, if_false]
    have hs : style ≠ 0 := by simpa using h0
    cases hb : st.rng.below 2 with
    | mk c rng =>
      simp only []
      cases hc : (c == 0) with
      | true => exact ⟨rng, Or.inl rfl⟩
      | false => exact ⟨rng, Or.inr ⟨hs, rfl⟩⟩

theorem foldl_advance_txt (st : LState) (h : LInv st) : (txt st).foldl advance ⟨1, 1⟩ = st.loc := h.loc.symm

theorem advance_ne_self (l : Loc) (c : Char) : advance l c ≠ l := by
  unfold advance
  split
  · intro e; have := congrArg Loc.row e; simp at this
  · intro e; have := congrArg Loc.col e; simp at this

/-- the printer's state after an item is the one `render` computes: `trace` only takes notes -/
theorem traceStep_st (style : Nat) (T : Trace) (it : Item) : (traceStep style T it).st = renderItem style T.st it := by
  cases it with
  | tok s => rfl
  | ident s => rfl
  | optComma =>
    simp only [traceStep]
    split <;> rfl
  | nl n => rfl
  | sp => rfl
  | glue => rfl
  | docLine s => rfl
  | op p => rfl
  | cl p =>
    simp only [traceStep]
    split <;> rfl

theorem trace_foldl_st (style : Nat) (items : List Item) (T : Trace) :
    (items.foldl (traceStep style) T).st = items.foldl (renderItem style) T.st := by
  induction items generalizing T with
  | nil => rfl
  | cons it r ih => simp only [List.foldl_cons]; rw [ih, traceStep_st]


/-! ## §7 the located invariant and the fold -/

/-- the located reading of the text written so far is the token list noted so far -/
structure LocI (T : Trace) : Prop where
  items : (lexRunLoc false ⟨1, 1⟩ (txt T.st)).items = T.toks.map LTok.toItem

theorem toItem_toksLocOf (items : List LLexItem) (h : noErr (items.map (·.item)) = true) :
    (toksLocOf items).map LTok.toItem = items := by
  induction items with
  | nil => rfl
  | cons i r ih =>
    obtain ⟨it, x, y⟩ := i
    cases it with
    | tok t =>
      have : noErr (r.map (·.item)) = true := by simpa [noErr, LexItem.isErr] using h
      simp [toksLocOf, LTok.toItem, ih this]
    | err e => simp [noErr, LexItem.isErr] at h

theorem toksLocOf_toks (items : List LLexItem) : (toksLocOf items).map (·.tok) = toksOf (items.map (·.item)) := by
  induction items with
  | nil => rfl
  | cons i r ih =>
    obtain ⟨it, x, y⟩ := i
    cases it with
    | tok t => simp [toksLocOf, toksOf, ih]
    | err e => simp [toksLocOf, toksOf, ih]

theorem collectLoc_map_toItem (ts : List LTok) : collectLoc (ts.map LTok.toItem) = .ok ts := by
  induction ts with
  | nil => rfl
  | cons t ts ih =>
    obtain ⟨t, x, y⟩ := t
    simp only [List.map_cons, LTok.toItem, collectLoc]
    rw [ih]

/-- one step of the fold: the item wrote the text `g` (possibly nothing), which the end of the text so far cannot
    affect, and `g` read on its own from the printer's cursor gives the located tokens `new` -/
theorem LocI.step {T T' : Trace} {ck : CkSt} {toks : List SliceTok} (h : RInv T.st ck toks) (hl : LInv T.st) (hi : LocI T)
    (g : List Char) (htxt : txt T'.st = txt T.st ++ g) (hc : compat (lexRun false (txt T.st)).last g = true)
    (new : List LTok) (htoks : T'.toks = T.toks ++ new)
    (hnew : (lexRunLoc ck.attr T.st.loc g).items = new.map LTok.toItem) : LocI T' := by
  refine ⟨?_⟩
  rw [htxt, lexRunLoc_append false ⟨1, 1⟩ (txt T.st) g hc, hi.items, h.attr, foldl_advance_txt T.st hl, hnew, htoks]
  simp

theorem LocI.congr {T T' : Trace} (hi : LocI T) (ht : txt T'.st = txt T.st) (htoks : T'.toks = T.toks) : LocI T' := by
  refine ⟨?_⟩
  rw [ht, htoks]; exact hi.items

/-- a word, escaped or not, read from `cur`: one identifier token from `cur` to the end of the spelling -/
theorem lexRunLoc_identSpelling (a : Bool) (cur : Loc) (s : String) (esc : Bool)
    (hesc : keywords.contains s = true → esc = true) (hid : isIdentText s.toList = true) :
    (lexRunLoc a cur (if esc then "\\" ++ s else s).toList).items =
      [⟨.tok (.ident s.toList), cur, advanceStr cur (if esc then "\\" ++ s else s)⟩] := by
  cases hq : s.toList with
  | nil => rw [hq] at hid; simp [isIdentText] at hid
  | cons c cs =>
    have hid' := hid
    rw [hq] at hid'
    simp only [isIdentText, Bool.and_eq_true] at hid'
    cases esc with
    | true =>
      simp only [if_true, String.toList_append, advanceStr]
      have e : ("\\" : String).toList = ['\\'] := by decide
      rw [e, hq]
      have hall : (c :: cs).all isWordChar = true := by simp [isWordChar_of_isAlpha c hid'.1, hid'.2]
      have e1 : lexNext a '\\' (c :: cs) = ⟨.tok (.ident (c :: cs)), [], a⟩ := by
        have : lexNext a '\\' (c :: cs) = lexBackslash a (c :: cs) := by
          unfold lexNext
          simp only [show simpleTok '\\' = none by decide]
          simp
        rw [this]
        simp only [lexBackslash, hid'.1, if_true, takeWhile_all _ _ hall, dropWhile_all _ _ hall]
      simp only [List.singleton_append]
      rw [lexRunLoc_oneCall a cur '\\' (c :: cs) (by rw [e1])]
      simp [e1, StepRes.items, tokStart]
    | false =>
      simp only [Bool.false_eq_true, if_false, advanceStr]
      rw [hq]
      have hk : keywords.contains s = false := by
        cases hk : keywords.contains s with
        | false => rfl
        | true => exact absurd (hesc hk) (by simp)
      have e1 : lexNext a c cs = ⟨.tok (.ident (c :: cs)), [], a⟩ := by
        rw [lexNext_alpha a c cs hid'.1]
        simp only [lexWord, takeWhile_all _ _ hid'.2, dropWhile_all _ _ hid'.2]
        have := checkKeyword_of_not_keyword s hk
        rw [hq] at this
        rw [this]
        cases a <;> rfl
      rw [lexRunLoc_oneCall a cur c cs (by rw [e1])]
      simp [e1, StepRes.items, tokStart]

theorem lexRunLoc_commaSpelling (a : Bool) (cur : Loc) :
    (lexRunLoc a cur [',']).items = [⟨.tok .comma, cur, advanceStr cur ","⟩] := by
  have e1 : lexNext a ',' [] = ⟨.tok .comma, [], a⟩ := by cases a <;> rfl
  rw [lexRunLoc_oneCall a cur ',' [] (by rw [e1])]
  simp only [e1, StepRes.items, List.map_cons, List.map_nil, tokStart]
  rfl

theorem ckText_some {ck ck' : CkSt} {cs : List Char} {d : Bool} (h : ckText ck cs d = some ck') :
    compat ck.last cs = true ∧ noErr (lexRun ck.attr cs).items = true ∧ ck' = ⟨(lexRun ck.attr cs).attr, (lexRun ck.attr cs).last⟩ ∧
    (d = false → (lexRun ck.attr cs).last ≠ .line) ∧ cs ≠ [] := by
  simp only [ckText] at h
  split at h
  · rename_i hcond
    cases h
    simp only [Bool.and_eq_true, Bool.not_eq_true', bne_iff_ne, ne_eq, Bool.or_eq_true] at hcond
    obtain ⟨⟨⟨⟨hne, hcomp⟩, hnoerr⟩, _⟩, hline⟩ := hcond
    refine ⟨hcomp, hnoerr, rfl, ?_, ?_⟩
    · intro hd
      rcases hline with hl | hl
      · rw [hd] at hl; cases hl
      · exact hl
    · intro e; rw [e] at hne; cases hne
  · cases h

/-- what a separator adds to the text, and that it may follow the text so far (the analysis inside `RInv.gap`) -/
theorem gap_text {st : LState} {ck : CkSt} {toks : List SliceTok} (h : RInv st ck toks) (style : Nat) (canon : String) (mand : Bool)
    (hcanon : canon.toList.all (fun c => c == ' ' || c == '\n') = true) (hmand : mand = true → canon.toList ≠ []) :
    ∃ g : List Char, txt (emitGap style st canon mand) = txt st ++ g ∧ compat (lexRun false (txt st)).last g = true ∧
      ∀ a, (lexRun a g).items = [] := by
  obtain ⟨g, htxt, _, hok, _, hnl⟩ := emitGap_text style st canon mand hcanon hmand
  refine ⟨g, htxt, ?_, fun a => by rw [hok.run]⟩
  by_cases hl : (lexRun false (txt st)).last = .line
  · have hd : st.afterDoc = true := by
      cases hq : st.afterDoc with
      | true => rfl
      | false => exact absurd hl (h.doc hq)
    obtain ⟨g', rfl⟩ := hnl hd
    rw [hl]; rfl
  · exact compat_of_gapHeadOk _ g hok.head hl h.last_ne_err

/-- **The located fold.** Walking the items with `ckRun`, rendering them with any layout and taking the printer's notes
    (`traceStep`) stay in step: the located reading of the text written so far is the noted token list. -/
theorem trace_fold (style : Nat) : ∀ (items : List Item) (T : Trace) (ck ck' : CkSt) (toks : List SliceTok),
    RInv T.st ck toks → LInv T.st → T.attr = ck.attr → LocI T → ckRun ck items = some ck' →
    ∃ toks', RInv (items.foldl (traceStep style) T).st ck' toks' ∧ LocI (items.foldl (traceStep style) T) := by
  intro items
  induction items with
  | nil =>
    intro T ck ck' toks h _ _ hi hck
    simp only [ckRun, Option.some.injEq] at hck
    subst hck
    exact ⟨toks, h, hi⟩
  | cons it r ih =>
    intro T ck ck' toks h hl ha hi hck
    simp only [ckRun] at hck
    cases hit : ckItem ck it with
    | none => rw [hit] at hck; cases hck
    | some ck1 =>
      rw [hit] at hck
      simp only [List.foldl_cons]
      have hl1 : LInv (traceStep style T it).st := by rw [traceStep_st]; exact renderItem_inv style T.st it hl
      cases it with
      | tok s =>
        obtain ⟨h1, ha1⟩ := h.text s false hit
        obtain ⟨hcomp, hnoerr, _, _, _⟩ := ckText_some hit
        have hi1 : LocI (traceStep style T (.tok s)) := by
          refine hi.step h hl s.toList (txt_emitTok T.st s false) (h.compat_of_ck _ hcomp) _ rfl ?_
          rw [ha, toItem_toksLocOf _ (by rw [lexRunLoc_items_erase]; exact hnoerr)]
        exact ih _ ck1 ck' _ h1 hl1 (by simp only [traceStep, Trace.emit]; rw [lexRunLoc_attr, ha, ha1]) hi1 hck
      | docLine s =>
        obtain ⟨h1, ha1⟩ := h.text ("///" ++ s) true hit
        obtain ⟨hcomp, hnoerr, _, _, _⟩ := ckText_some hit
        have hi1 : LocI (traceStep style T (.docLine s)) := by
          refine hi.step h hl ("///" ++ s).toList (txt_emitTok T.st _ true) (h.compat_of_ck _ hcomp) _ rfl ?_
          rw [ha, toItem_toksLocOf _ (by rw [lexRunLoc_items_erase]; exact hnoerr)]
        exact ih _ ck1 ck' _ h1 hl1 (by simp only [traceStep, Trace.emit]; rw [lexRunLoc_attr, ha, ha1]) hi1 hck
      | ident s =>
        simp only [ckItem] at hit
        split at hit
        · rename_i hcond
          cases hit
          simp only [Bool.and_eq_true] at hcond
          obtain ⟨⟨hid, hc1⟩, hc2⟩ := hcond
          obtain ⟨rng, esc, hesc, hren⟩ := renderItem_ident style T.st s
          have h' : RInv { T.st with rng := rng } ck toks := h.congr rfl rfl
          have h1 := h'.ident s esc hesc hid hc1 hc2
          have hst : (traceStep style T (.ident s)).st = emitTok { T.st with rng := rng } (if esc then "\\" ++ s else s) false := by
            rw [traceStep_st, hren]
          have hcomp : compat ck.last (if esc then "\\" ++ s else s).toList = true := by
            cases esc with
            | true =>
              simp only [if_true, String.toList_append]
              have e : ("\\" : String).toList = ['\\'] := by decide
              rw [e, List.cons_append, compat_head]; exact hc2
            | false => exact hc1
          have hi1 : LocI (traceStep style T (.ident s)) := by
            refine hi.step h hl (if esc then "\\" ++ s else s).toList ?_ (h.compat_of_ck _ hcomp)
              [⟨.ident s.toList, T.st.loc, (renderItem style T.st (.ident s)).lastEnd⟩] rfl ?_
            · rw [hst]; exact txt_emitTok _ _ false
            · rw [lexRunLoc_identSpelling ck.attr T.st.loc s esc hesc hid, hren]
              rfl
          rw [← hst] at h1
          exact ih _ _ ck' _ h1 hl1 ha hi1 hck
        · cases hit
      | optComma =>
        simp only [ckItem] at hit
        split at hit
        · rename_i hcomp
          cases hit
          obtain ⟨rng, hren | ⟨_, hren⟩⟩ := renderItem_optComma style T.st
          · have hT : traceStep style T .optComma = { T with st := { T.st with rng := rng } } := by
              simp only [traceStep, hren]
              simp
            rw [hT]
            exact ih _ ck ck' toks (h.congr rfl rfl) ⟨hl.loc, hl.lastEnd_le, hl.lastEnd_pos, hl.opened_ok, hl.spans_ok⟩ ha
              (hi.congr rfl rfl) hck
          · have hne : ((emitTok { T.st with rng := rng } "," false).loc == T.st.loc) = false := by
              have : (emitTok { T.st with rng := rng } "," false).loc = advance T.st.loc ',' := rfl
              rw [this]
              exact beq_eq_false_iff_ne.mpr (advance_ne_self _ _)
            have hT : traceStep style T .optComma =
                T.emit (emitTok { T.st with rng := rng } "," false) T.attr
                  [⟨.comma, T.st.loc, (emitTok { T.st with rng := rng } "," false).lastEnd⟩] := by
              simp only [traceStep, hren, hne]
              simp
            have h' : RInv { T.st with rng := rng } ck toks := h.congr rfl rfl
            have h1 := h'.comma hcomp
            have e : (",":String).toList = [','] := by decide
            have hi1 : LocI (traceStep style T .optComma) := by
              rw [hT]
              refine hi.step h hl [','] ?_ (h.compat_of_ck _ hcomp) _ rfl ?_
              · show txt (emitTok { T.st with rng := rng } "," false) = txt T.st ++ [',']
                rw [txt_emitTok, e]; rfl
              · rw [lexRunLoc_commaSpelling]; rfl
            have hst : (traceStep style T .optComma).st = emitTok { T.st with rng := rng } "," false := by rw [hT]; rfl
            rw [← hst] at h1
            exact ih _ ck ck' _ h1 hl1 (by rw [hT]; exact ha) hi1 hck
        · cases hit
      | nl n =>
        simp only [ckItem, Option.some.injEq] at hit
        subst hit
        have h1 := h.gap style ("\n" ++ String.ofList (List.replicate (4 * n) ' ')) true (canon_nl n).1 (fun _ => (canon_nl n).2)
        obtain ⟨g, htxt, hcomp, hnil⟩ := gap_text h style ("\n" ++ String.ofList (List.replicate (4 * n) ' ')) true (canon_nl n).1
          (fun _ => (canon_nl n).2)
        have hi1 : LocI (traceStep style T (.nl n)) :=
          hi.step h hl g htxt hcomp [] (by simp [traceStep]) (by rw [lexRunLoc_items_nil _ _ _ (hnil _)]; rfl)
        exact ih _ _ ck' toks h1 hl1 ha hi1 hck
      | sp =>
        simp only [ckItem, Option.some.injEq] at hit
        subst hit
        have h1 := h.gap style " " true (by decide) (fun _ => by decide)
        obtain ⟨g, htxt, hcomp, hnil⟩ := gap_text h style " " true (by decide) (fun _ => by decide)
        have hi1 : LocI (traceStep style T .sp) :=
          hi.step h hl g htxt hcomp [] (by simp [traceStep]) (by rw [lexRunLoc_items_nil _ _ _ (hnil _)]; rfl)
        exact ih _ _ ck' toks h1 hl1 ha hi1 hck
      | glue =>
        simp only [ckItem, Option.some.injEq] at hit
        subst hit
        have h1 := h.gap style "" false (by decide) (fun e => by cases e)
        obtain ⟨g, htxt, hcomp, hnil⟩ := gap_text h style "" false (by decide) (fun e => by cases e)
        have hi1 : LocI (traceStep style T .glue) :=
          hi.step h hl g htxt hcomp [] (by simp [traceStep]) (by rw [lexRunLoc_items_nil _ _ _ (hnil _)]; rfl)
        exact ih _ _ ck' toks h1 hl1 ha hi1 hck
      | op p =>
        simp only [ckItem, Option.some.injEq] at hit
        subst hit
        have h1 : RInv (traceStep style T (.op p)).st ck toks := h.congr rfl rfl
        exact ih _ _ ck' toks h1 hl1 ha (hi.congr rfl rfl) hck
      | cl p =>
        simp only [ckItem, Option.some.injEq] at hit
        subst hit
        have hst : (traceStep style T (.cl p)).st = closeSpan T.st p := traceStep_st style T (.cl p)
        have h1 : RInv (traceStep style T (.cl p)).st ck toks := by
          rw [hst]; exact h.congr (closeSpan_txt T.st p).1 (closeSpan_txt T.st p).2
        have hi1 : LocI (traceStep style T (.cl p)) := by
          refine hi.congr (by rw [hst]; exact (closeSpan_txt T.st p).1) ?_
          simp only [traceStep]
          split <;> rfl
        have ha1 : (traceStep style T (.cl p)).attr = ck.attr := by
          simp only [traceStep]
          split <;> exact ha
        exact ih _ _ ck' toks h1 hl1 ha1 hi1 hck


theorem renderInit_LInv (seed : Nat) : LInv (renderInit seed) :=
  ⟨by simp [renderInit, textOf, String.join, advanceStr], Loc.le_refl _, ⟨Nat.le_refl _, Nat.le_refl _⟩,
   by simp [renderInit], by simp [renderInit]⟩

theorem txt_renderInit (seed : Nat) : txt (renderInit seed) = [] := by simp [txt, textOf, renderInit]

theorem renderInit_RInv (seed : Nat) : RInv (renderInit seed) ⟨false, .closed⟩ [] := by
  have e := txt_renderInit seed
  refine ⟨?_, ?_, ?_, by decide, ?_⟩ <;> rw [e] <;> simp

/-- the printer's final state is the state of `trace` -/
theorem trace_st (style seed : Nat) (items : List Item) :
    (trace style seed items).st = items.foldl (renderItem style) (renderInit seed) := trace_foldl_st style items _

theorem render_text (style seed : Nat) (items : List Item) :
    (render style seed items).1 =
      textOf (if (trace style seed items).st.afterDoc
              then { (trace style seed items).st with out := "\n" :: (trace style seed items).st.out }
              else (trace style seed items).st) := by
  rw [trace_st]; rfl

theorem render_spans (style seed : Nat) (items : List Item) :
    (render style seed items).2 = (trace style seed items).st.spans.reverse := by
  rw [trace_st]
  show (if _ then _ else _ : LState).spans.reverse = _
  split <;> rfl

/-- **Located layout theorem for item lists.** For every item list that passes the separation check of C02, every
    layout and every seed: the rendered text lexes (one block starting at 1:1) without error to exactly the located
    token list the printer's bookkeeping names. -/
theorem lex_render_loc (style seed : Nat) (items : List Item) (h : itemsOk items = true) :
    lexSliceLoc (render style seed items).1.toList = .ok (tokenLocs style seed items) := by
  unfold itemsOk at h
  cases hck : ckRun ⟨false, .closed⟩ items with
  | none => rw [hck] at h; cases h
  | some ck' =>
    have hi0 : LocI ⟨renderInit seed, false, [], [], []⟩ := ⟨by simp only [txt_renderInit]; rfl⟩
    obtain ⟨toks', hr, hi⟩ := trace_fold style items ⟨renderInit seed, false, [], [], []⟩ _ ck' []
      (renderInit_RInv seed) (renderInit_LInv seed) rfl hi0 hck
    have hl : LInv (trace style seed items).st := by rw [trace_st]; exact foldl_renderItem_inv style items _ (renderInit_LInv seed)
    rw [render_text]
    unfold lexSliceLoc lexSliceLocAt tokenLocs
    change RInv (trace style seed items).st ck' toks' at hr
    change LocI (trace style seed items) at hi
    generalize trace style seed items = TF at hr hi hl ⊢
    cases hd : TF.st.afterDoc with
    | false =>
      simp only [Bool.false_eq_true, if_false]
      have := hi.items
      unfold txt at this
      rw [this, collectLoc_map_toItem]
    | true =>
      simp only [if_true]
      have e : ("\n" : String).toList = ['\n'] := by decide
      have htxt : (textOf { TF.st with out := "\n" :: TF.st.out }).toList = txt TF.st ++ ['\n'] := by
        have := txt_push TF.st { TF.st with out := "\n" :: TF.st.out } "\n" rfl
        rw [e] at this; exact this
      rw [htxt, lexRunLoc_append false ⟨1, 1⟩ (txt TF.st) ['\n'] (compat_newline _ hr.last_ne_err), hi.items,
        lexRunLoc_items_nil _ _ _ (by rw [lexRun_newline]), List.append_nil, collectLoc_map_toItem]


/-! ## §8 the span bookkeeping, on token indices -/

/-- an open element with the location of the token it names -/
def locOfOpened (toks : List LTok) (e : String × Nat) : String × Loc := (e.1, (toks.getD e.2 default).spellStart)

/-- the printer's span bookkeeping (locations) is the index bookkeeping of `trace` read through the token list -/
structure SpanI (T : Trace) : Prop where
  opened : T.st.opened = T.opened.map (locOfOpened T.toks)
  spans : T.st.spans = T.spans.map (spanOfTokens T.toks)
  openedLt : ∀ e ∈ T.opened, e.2 < T.toks.length
  spansLt : ∀ e ∈ T.spans, e.2.1 ≤ e.2.2 ∧ e.2.2 < T.toks.length
  lastEnd : ∀ t, T.toks.getLast? = some t → T.st.lastEnd = t.stop

theorem getD_append_left' {α : Type} (l m : List α) (i : Nat) (d : α) (h : i < l.length) : (l ++ m).getD i d = l.getD i d := by
  simp only [List.getD_eq_getElem?_getD, List.getElem?_append_left h]

theorem getD_append_length {α : Type} (l m : List α) (d : α) : (l ++ m).getD l.length d = m.head?.getD d := by
  simp only [List.getD_eq_getElem?_getD, List.getElem?_append_right (Nat.le_refl _), Nat.sub_self]
  cases m <;> rfl

theorem getD_pred_length {α : Type} (l : List α) (d x : α) (h : l.getLast? = some x) : l.getD (l.length - 1) d = x := by
  rw [List.getLast?_eq_getElem?] at h
  simp only [List.getD_eq_getElem?_getD, h, Option.getD_some]

theorem locOfOpened_append (toks new : List LTok) (e : String × Nat) (h : e.2 < toks.length) :
    locOfOpened (toks ++ new) e = locOfOpened toks e := by
  simp only [locOfOpened, getD_append_left' _ _ _ _ h]

theorem spanOfTokens_append (toks new : List LTok) (e : String × Nat × Nat) (h : e.2.1 ≤ e.2.2 ∧ e.2.2 < toks.length) :
    spanOfTokens (toks ++ new) e = spanOfTokens toks e := by
  simp only [spanOfTokens, getD_append_left' _ _ _ _ h.2, getD_append_left' _ _ _ _ (Nat.lt_of_le_of_lt h.1 h.2)]

/-- an item that does not touch the printer's span bookkeeping -/
theorem SpanI.congr {T : Trace} (hs : SpanI T) (st' : LState) (h1 : st'.opened = T.st.opened) (h2 : st'.spans = T.st.spans)
    (h3 : st'.lastEnd = T.st.lastEnd) : SpanI { T with st := st' } :=
  ⟨by rw [h1]; exact hs.opened, by rw [h2]; exact hs.spans, hs.openedLt, hs.spansLt, fun t ht => by rw [h3]; exact hs.lastEnd t ht⟩

/-- an item that writes text standing for the tokens `new` (not none), the first of which starts (spelling) at the
    location `emitTok` notes as start and the last of which ends at the location it notes as end -/
theorem SpanI.emit {T : Trace} (hs : SpanI T) (rng : Rng) (sp : String) (d : Bool) (a' : Bool) (new : List LTok) (first last : LTok)
    (hhead : new.head? = some first) (hlast : new.getLast? = some last)
    (hstart : first.spellStart = T.st.loc) (hstop : last.stop = (emitTok { T.st with rng := rng } sp d).lastEnd) :
    SpanI (T.emit (emitTok { T.st with rng := rng } sp d) a' new) := by
  have hne : new ≠ [] := by intro e; rw [e] at hhead; cases hhead
  have hlen : T.toks.length < (T.toks ++ new).length := by
    rw [List.length_append]
    have := List.length_pos_iff.mpr hne
    omega
  refine ⟨?_, ?_, ?_, ?_, ?_⟩
  · show (T.st.pendingOpen.map (fun p => (p, T.st.loc)) ++ T.st.opened) =
      (T.st.pendingOpen.map (fun p => (p, T.toks.length)) ++ T.opened).map (locOfOpened (T.toks ++ new))
    rw [List.map_append, List.map_map]
    congr 1
    · apply List.map_congr_left
      intro p _
      simp only [Function.comp, locOfOpened, getD_append_length, hhead, Option.getD_some, hstart]
    · rw [hs.opened]
      apply List.map_congr_left
      intro e he
      exact (locOfOpened_append _ _ _ (hs.openedLt e he)).symm
  · show T.st.spans = T.spans.map (spanOfTokens (T.toks ++ new))
    rw [hs.spans]
    apply List.map_congr_left
    intro e he
    exact (spanOfTokens_append _ _ _ (hs.spansLt e he)).symm
  · intro e he
    show e.2 < (T.toks ++ new).length
    have he' : e ∈ T.st.pendingOpen.map (fun p => (p, T.toks.length)) ++ T.opened := he
    rcases List.mem_append.mp he' with h | h
    · obtain ⟨p, _, rfl⟩ := List.mem_map.mp h
      exact hlen
    · exact Nat.lt_trans (hs.openedLt e h) hlen
  · intro e he
    show e.2.1 ≤ e.2.2 ∧ e.2.2 < (T.toks ++ new).length
    have := hs.spansLt e he
    exact ⟨this.1, Nat.lt_trans this.2 hlen⟩
  · intro t ht
    have ht' : (T.toks ++ new).getLast? = some t := ht
    rw [getLast?_append_of_ne_nil _ _ hne, hlast] at ht'
    cases ht'
    exact hstop.symm

/-- closing an element: the same rule on locations (`closeSpan`) and on indices (`traceStep`) -/
theorem SpanI.close (style : Nat) {T : Trace} (hs : SpanI T) (p : String) : SpanI (traceStep style T (.cl p)) := by
  have hfind : T.st.opened.find? (fun x => x.1 == p) = (T.opened.find? (fun x => x.1 == p)).map (locOfOpened T.toks) := by
    rw [hs.opened, List.find?_map]
    rfl
  simp only [traceStep, renderItem, closeSpan, hfind]
  cases hq : T.opened.find? (fun x => x.1 == p) with
  | none => exact hs.congr T.st rfl rfl rfl
  | some e =>
    obtain ⟨q, i⟩ := e
    have hmem : (q, i) ∈ T.opened := List.mem_of_find?_eq_some hq
    have hi : i < T.toks.length := hs.openedLt _ hmem
    simp only [Option.map_some, locOfOpened]
    refine ⟨?_, ?_, ?_, ?_, ?_⟩
    · show (T.st.opened.filter (fun x => x.1 != p)) = (T.opened.filter (fun x => x.1 != p)).map (locOfOpened T.toks)
      rw [hs.opened, List.filter_map]
      rfl
    · show (⟨p, (T.toks.getD i default).spellStart, T.st.lastEnd⟩ :: T.st.spans) =
        ((p, i, T.toks.length - 1) :: T.spans).map (spanOfTokens T.toks)
      rw [List.map_cons, ← hs.spans]
      congr 1
      cases hl : T.toks.getLast? with
      | none =>
        have : T.toks = [] := List.getLast?_eq_none_iff.mp hl
        rw [this] at hi; simp at hi
      | some t =>
        simp only [spanOfTokens, getD_pred_length _ _ _ hl, hs.lastEnd t hl]
    · intro e he
      exact hs.openedLt e (List.mem_filter.mp he).1
    · intro e he
      have he' : e ∈ (p, i, T.toks.length - 1) :: T.spans := he
      rcases List.mem_cons.mp he' with rfl | h
      · exact ⟨by simp only; omega, by simp only; omega⟩
      · exact hs.spansLt e h
    · exact hs.lastEnd

theorem toItem_inj_head {new : List LTok} {i : LLexItem} {tl : List LLexItem} (h : new.map LTok.toItem = i :: tl) :
    ∃ first, new.head? = some first ∧ first.toItem = i := by
  cases new with
  | nil => cases h
  | cons f r =>
    simp only [List.map_cons, List.cons.injEq] at h
    exact ⟨f, rfl, h.1⟩

theorem toItem_getLast {new : List LTok} {it : LLexItem} (h : (new.map LTok.toItem).getLast? = some it) :
    ∃ last, new.getLast? = some last ∧ last.toItem = it := by
  rw [List.getLast?_map] at h
  cases hq : new.getLast? with
  | none => rw [hq] at h; cases h
  | some l => rw [hq] at h; simp only [Option.map_some, Option.some.injEq] at h; exact ⟨l, rfl, h⟩

theorem spellStart_of_not_doc (t : LTok) (h : ∀ d, t.tok ≠ .doc d) : t.spellStart = t.start := by
  obtain ⟨tk, a, b⟩ := t
  cases tk <;> first | rfl | exact absurd rfl (h _)

/-- a doc line that is a doc comment on one line, read from `cur`: one token from after the `///` to the end of the line -/
theorem lexRunLoc_docSpelling (a : Bool) (cur : Loc) (s : String) (h1 : s.toList.head? ≠ some '/') (h2 : s.toList.contains '\n' = false) :
    (lexRunLoc a cur ("///" ++ s).toList).items =
      [⟨.tok (.doc (stripCr s.toList)), ⟨cur.row, cur.col + 3⟩, advanceStr cur ("///" ++ s)⟩] := by
  have e : ("///" ++ s).toList = '/' :: '/' :: '/' :: s.toList := by
    have : ("///" : String).toList = ['/', '/', '/'] := by decide
    simp [String.toList_append, this]
  have hall := not_contains_all _ _ h2
  have e1 : lexNext a '/' ('/' :: '/' :: s.toList) = ⟨.tok (.doc (stripCr s.toList)), [], a⟩ := by
    rw [lexNext_slash]
    simp only [lexSlash, lexLineComment]
    split
    · rename_i heq; rw [heq] at h1; exact absurd rfl h1
    · rw [dropWhile_all _ _ hall, takeWhile_all _ _ hall]
  simp only [advanceStr, e]
  rw [lexRunLoc_oneCall a cur '/' _ (by rw [e1])]
  simp only [e1, StepRes.items, List.map_cons, List.map_nil, tokStart, advance_slash]

theorem tightText_ends {cs : List Char} (h : tightText cs = true) :
    ∃ c r d, cs = c :: r ∧ cs.getLast? = some d ∧ isWs c = false ∧ c ≠ '/' ∧ isWs d = false ∧ d ≠ '/' := by
  unfold tightText at h
  cases cs with
  | nil => simp at h
  | cons c r =>
    cases hq : (c :: r).getLast? with
    | none => simp at hq
    | some d =>
      rw [hq] at h
      simp only [List.head?_cons, Bool.and_eq_true, Bool.not_eq_true', bne_iff_ne, ne_eq] at h
      exact ⟨c, r, d, rfl, rfl, h.1.1.1, h.1.1.2, h.1.2, h.2⟩

/-- **The span fold.** With tight items the printer's span bookkeeping and the index bookkeeping of `trace` stay in step. -/
theorem span_fold (style : Nat) : ∀ (items : List Item) (T : Trace) (ck ck' : CkSt),
    T.attr = ck.attr → SpanI T → ckRun ck items = some ck' → itemsTight items = true →
    SpanI (items.foldl (traceStep style) T) := by
  intro items
  induction items with
  | nil => intro T ck ck' _ hs _ _; exact hs
  | cons it r ih =>
    intro T ck ck' ha hs hck htight
    simp only [ckRun] at hck
    simp only [itemsTight, List.all_cons, Bool.and_eq_true] at htight
    obtain ⟨hti, htr⟩ := htight
    cases hit : ckItem ck it with
    | none => rw [hit] at hck; cases hck
    | some ck1 =>
      rw [hit] at hck
      simp only [List.foldl_cons]
      cases it with
      | tok s =>
        obtain ⟨_, hnoerr, hck1, hline, _⟩ := ckText_some hit
        obtain ⟨c, rr, d, hcs, hd, hw1, hs1, hw2, hs2⟩ := tightText_ends hti
        have hnew : (lexRunLoc T.attr T.st.loc s.toList).items = (toksLocOf (lexRunLoc T.attr T.st.loc s.toList).items).map LTok.toItem :=
          (toItem_toksLocOf _ (by rw [lexRunLoc_items_erase, ha]; exact hnoerr)).symm
        obtain ⟨i, tl, hhd, hist, hind⟩ := lexRunLoc_head T.attr T.st.loc c rr hw1 hs1
        rw [← hcs, hnew] at hhd
        obtain ⟨first, hf1, hf2⟩ := toItem_inj_head hhd
        obtain ⟨it, hl1, hl2⟩ := lexRunLoc_getLast T.attr T.st.loc s.toList d hd hw2 hs2 (by rw [ha]; exact hline rfl)
        rw [hnew] at hl1
        obtain ⟨last, hl3, hl4⟩ := toItem_getLast hl1
        have hs1' : SpanI (traceStep style T (.tok s)) := by
          refine hs.emit T.st.rng s false _ _ first last hf1 hl3 ?_ ?_
          · rw [spellStart_of_not_doc first (fun d e => hind d (by rw [← hf2]; simp only [LTok.toItem, e]))]
            rw [← hist, ← hf2]; rfl
          · have : last.stop = it.stop := by rw [← hl4]; rfl
            rw [this, hl2]; rfl
        refine ih _ ck1 ck' ?_ hs1' hck htr
        simp only [traceStep, Trace.emit]
        rw [lexRunLoc_attr, ha, hck1]
      | docLine s =>
        obtain ⟨_, _, hck1, _, _⟩ := ckText_some hit
        simp only [itemTight, Bool.and_eq_true, bne_iff_ne, ne_eq, Bool.not_eq_true'] at hti
        have hrun := lexRunLoc_docSpelling T.attr T.st.loc s hti.1 hti.2
        have hs1' : SpanI (traceStep style T (.docLine s)) := by
          simp only [traceStep, hrun, toksLocOf]
          refine hs.emit T.st.rng ("///" ++ s) true _ _ _ _ rfl rfl ?_ rfl
          simp only [LTok.spellStart, Nat.add_sub_cancel]
        refine ih _ ck1 ck' ?_ hs1' hck htr
        simp only [traceStep, Trace.emit]
        rw [lexRunLoc_attr, ha, hck1]
      | ident s =>
        simp only [ckItem] at hit
        split at hit
        · cases hit
          obtain ⟨rng, esc, _, hren⟩ := renderItem_ident style T.st s
          have hs1' : SpanI (traceStep style T (.ident s)) := by
            simp only [traceStep, hren]
            exact hs.emit rng _ false _ _ _ _ rfl rfl rfl rfl
          exact ih _ ⟨ck.attr, .word⟩ ck' ha hs1' hck htr
        · cases hit
      | optComma =>
        simp only [ckItem] at hit
        split at hit
        · cases hit
          obtain ⟨rng, hren | ⟨_, hren⟩⟩ := renderItem_optComma style T.st
          · have hT : traceStep style T .optComma = { T with st := { T.st with rng := rng } } := by
              simp only [traceStep, hren]
              simp
            rw [hT]
            exact ih _ ck ck' ha (hs.congr _ rfl rfl rfl) hck htr
          · have hne : ((emitTok { T.st with rng := rng } "," false).loc == T.st.loc) = false := by
              have : (emitTok { T.st with rng := rng } "," false).loc = advance T.st.loc ',' := rfl
              rw [this]
              exact beq_eq_false_iff_ne.mpr (advance_ne_self _ _)
            have hT : traceStep style T .optComma =
                T.emit (emitTok { T.st with rng := rng } "," false) T.attr
                  [⟨.comma, T.st.loc, (emitTok { T.st with rng := rng } "," false).lastEnd⟩] := by
              simp only [traceStep, hren, hne]
              simp
            rw [hT]
            exact ih _ ck ck' ha (hs.emit rng _ false _ _ _ _ rfl rfl rfl rfl) hck htr
        · cases hit
      | nl n =>
        simp only [ckItem, Option.some.injEq] at hit
        subst hit
        refine ih _ ⟨ck.attr, .closed⟩ ck' ha ?_ hck htr
        have : traceStep style T (.nl n) = { T with st := renderItem style T.st (.nl n) } := rfl
        rw [this]
        refine hs.congr _ ?_ ?_ ?_ <;> (simp only [renderItem]; rw [emitGap_eq])
      | sp =>
        simp only [ckItem, Option.some.injEq] at hit
        subst hit
        refine ih _ ⟨ck.attr, .closed⟩ ck' ha ?_ hck htr
        have : traceStep style T .sp = { T with st := renderItem style T.st .sp } := rfl
        rw [this]
        refine hs.congr _ ?_ ?_ ?_ <;> (simp only [renderItem]; rw [emitGap_eq])
      | glue =>
        simp only [ckItem, Option.some.injEq] at hit
        subst hit
        refine ih _ ck ck' ha ?_ hck htr
        have : traceStep style T .glue = { T with st := renderItem style T.st .glue } := rfl
        rw [this]
        refine hs.congr _ ?_ ?_ ?_ <;> (simp only [renderItem]; rw [emitGap_eq])
      | op p =>
        simp only [ckItem, Option.some.injEq] at hit
        subst hit
        exact ih _ _ ck' ha (hs.congr _ rfl rfl rfl) hck htr
      | cl p =>
        simp only [ckItem, Option.some.injEq] at hit
        subst hit
        have ha1 : (traceStep style T (.cl p)).attr = ck.attr := by
          simp only [traceStep]
          split <;> exact ha
        exact ih _ _ ck' ha1 (hs.close style p) hck htr

/-- **Spans are token extents.** For every item list that passes the separation check and writes only tight texts, every
    layout and seed: the spans `render` reports are, one for one and in order, (spelling start of token `i`, end of token
    `j`) of the located token list of the rendered text, where `(path, i, j) = spanTokens …` names the first token written
    after the element's `op` marker and the last token written before its `cl` marker. -/
theorem spans_render (style seed : Nat) (items : List Item) (hok : itemsOk items = true) (ht : itemsTight items = true) :
    (render style seed items).2 = (spanTokens style seed items).map (spanOfTokens (tokenLocs style seed items)) ∧
    ∀ e ∈ spanTokens style seed items, e.2.1 ≤ e.2.2 ∧ e.2.2 < (tokenLocs style seed items).length := by
  unfold itemsOk at hok
  cases hck : ckRun ⟨false, .closed⟩ items with
  | none => rw [hck] at hok; cases hok
  | some ck' =>
    have hs0 : SpanI ⟨renderInit seed, false, [], [], []⟩ :=
      ⟨rfl, rfl, fun e he => (by cases he), fun e he => (by cases he), fun t ht => (by cases ht)⟩
    have hs := span_fold style items ⟨renderInit seed, false, [], [], []⟩ _ ck' rfl hs0 hck ht
    change SpanI (trace style seed items) at hs
    refine ⟨?_, ?_⟩
    · rw [render_spans, hs.spans, spanTokens, tokenLocs, List.map_reverse]
    · intro e he
      exact hs.spansLt e (List.mem_reverse.mp he)

end Slicec.SLex
