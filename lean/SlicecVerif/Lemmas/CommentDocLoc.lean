/-
  Lemmas about the located model of the comment PARSER (Model/CommentDocLoc.lean), C09:
  every span the parser computes is made of token boundaries of the comment's located token stream (`Bnd`, `DocPartsOk`,
  `parseCommentLocG_ok`), and a rejected comment is reported at a token of that stream or at the lexer's error
  (`FailOk`, `parseCommentLocG_fail`); the parser never runs out of tokens (`parseCommentLocG_not_eof`: an error-free stream
  ends in `Newline`, what the sub-parsers consume contains none).  One lemma per parser function, by functional induction.
-/
import SlicecVerif.Model.CommentDocLoc
import SlicecVerif.Lemmas.CommentLoc

namespace Slicec.CLoc

open Slicec

/-- `l` is the start or the end of a token of `toks` -/
def Bnd (toks : List LCTok) (l : Loc) : Prop := ∃ t ∈ toks, l = t.start ∨ l = t.stop
def SpOk (toks : List LCTok) (s : Sp) : Prop := Bnd toks s.start ∧ Bnd toks s.stop
def LinkOk (toks : List LCTok) (l : LLink) : Prop := SpOk toks l.span ∧ SpOk toks l.idSpan
def MsgOk (toks : List LCTok) (m : LMsg) : Prop := SpOk toks m.span ∧ ∀ l ∈ m.links, LinkOk toks l
def TagOk (toks : List LCTok) (t : LTag) : Prop :=
  SpOk toks t.span ∧ (∀ i s, t.ident = some (i, s) → SpOk toks s) ∧ MsgOk toks t.message
def DocPartsOk (toks : List LCTok) (d : LDoc) : Prop :=
  Bnd toks d.span.stop ∧ (∀ m, d.overview = some m → MsgOk toks m) ∧ (∀ t ∈ d.params, TagOk toks t) ∧
  (∀ t ∈ d.returns, TagOk toks t) ∧ (∀ l ∈ d.see, LinkOk toks l)

theorem Bnd.mono {a b : List LCTok} {l : Loc} (h : a ⊆ b) (hb : Bnd a l) : Bnd b l := by
  obtain ⟨t, ht, hl⟩ := hb; exact ⟨t, h ht, hl⟩
theorem SpOk.mono {a b : List LCTok} {s : Sp} (h : a ⊆ b) (hb : SpOk a s) : SpOk b s := ⟨hb.1.mono h, hb.2.mono h⟩
theorem LinkOk.mono {a b : List LCTok} {l : LLink} (h : a ⊆ b) (hb : LinkOk a l) : LinkOk b l := ⟨hb.1.mono h, hb.2.mono h⟩
theorem MsgOk.mono {a b : List LCTok} {m : LMsg} (h : a ⊆ b) (hb : MsgOk a m) : MsgOk b m :=
  ⟨hb.1.mono h, fun l hl => (hb.2 l hl).mono h⟩

theorem Bnd.start {toks : List LCTok} {t : LCTok} (h : t ∈ toks) : Bnd toks t.start := ⟨t, h, Or.inl rfl⟩
theorem Bnd.stop {toks : List LCTok} {t : LCTok} (h : t ∈ toks) : Bnd toks t.stop := ⟨t, h, Or.inr rfl⟩

theorem LRes.bind_ok {α β} {x : LRes α} {f : α → LRes β} {b : β} (h : x.bind f = .ok b) : ∃ a, x = .ok a ∧ f a = .ok b := by
  cases x with
  | ok a => exact ⟨a, rfl, h⟩
  | fail e => cases h
  | panic s => cases h

theorem parseIdTailLoc_ok (pend : Option LCErr) (last : Loc) (toks : List LCTok) (v : List Str) (r : Loc) (rest : List LCTok)
    (h : parseIdTailLoc pend last toks = .ok (v, r, rest)) :
    rest <:+ toks ∧ (r = last ∨ Bnd toks r) := by
  fun_induction parseIdTailLoc pend last toks generalizing v r rest with
  | case1 last a b c s e rest' ih =>
    obtain ⟨⟨v', r', rest''⟩, h1, h2⟩ := LRes.bind_ok h
    simp only [LRes.ok.injEq, Prod.mk.injEq] at h2
    obtain ⟨_, hr, hrest⟩ := h2
    subst hr hrest
    obtain ⟨i1, i2⟩ := ih _ _ _ h1
    refine ⟨?_, Or.inr ?_⟩
    · exact List.IsSuffix.trans i1 (List.suffix_cons_iff.mpr (Or.inr (List.suffix_cons _ _)))
    · cases i2 with
      | inl h => rw [h]; exact ⟨⟨c, .ident s, e⟩, by simp, Or.inr rfl⟩
      | inr h => exact h.mono (fun x hx => by simp [hx])
  | case2 => cases h
  | case3 =>
    simp only [LRes.ok.injEq, Prod.mk.injEq] at h
    obtain ⟨_, hr, hrest⟩ := h
    subst hr hrest
    exact ⟨List.suffix_refl _, Or.inl rfl⟩

theorem suffix_cons2 {a b : LCTok} {r rest : List LCTok} (h : r <:+ rest) : r <:+ a :: b :: rest :=
  List.IsSuffix.trans h (List.IsSuffix.trans (List.suffix_cons _ _) (List.suffix_cons _ _))

theorem parseScopedIdLoc_ok (pend : Option LCErr) (toks : List LCTok) (id : Str) (sp : Sp) (rest : List LCTok)
    (h : parseScopedIdLoc pend toks = .ok (id, sp, rest)) :
    rest <:+ toks ∧ SpOk toks sp := by
  unfold parseScopedIdLoc at h
  split at h
  · rename_i l a b s e rest'
    obtain ⟨⟨v', r', rest''⟩, h1, h2⟩ := LRes.bind_ok h
    simp only [LRes.ok.injEq, Prod.mk.injEq] at h2
    obtain ⟨_, hsp, hrest⟩ := h2
    subst hsp hrest
    obtain ⟨i1, i2⟩ := parseIdTailLoc_ok _ _ _ _ _ _ h1
    refine ⟨suffix_cons2 i1, ⟨⟨l, .dcolon, a⟩, by simp, Or.inl rfl⟩, ?_⟩
    cases i2 with
    | inl h => simp only; rw [h]; exact ⟨⟨b, .ident s, e⟩, by simp, Or.inr rfl⟩
    | inr h => exact h.mono (fun x hx => by simp [hx])
  · cases h
  · rename_i l s e rest'
    obtain ⟨⟨v', r', rest''⟩, h1, h2⟩ := LRes.bind_ok h
    simp only [LRes.ok.injEq, Prod.mk.injEq] at h2
    obtain ⟨_, hsp, hrest⟩ := h2
    subst hsp hrest
    obtain ⟨i1, i2⟩ := parseIdTailLoc_ok _ _ _ _ _ _ h1
    refine ⟨List.IsSuffix.trans i1 (List.suffix_cons _ _), ⟨⟨l, .ident s, e⟩, by simp, Or.inl rfl⟩, ?_⟩
    cases i2 with
    | inl h => simp only; rw [h]; exact ⟨⟨l, .ident s, e⟩, by simp, Or.inr rfl⟩
    | inr h => exact h.mono (fun x hx => by simp [hx])
  · cases h

theorem parseCompsLoc_ok (pend : Option LCErr) (fuel : Nat) (toks : List LCTok) (cs : List Comp) (ls : List LLink) (rest : List LCTok)
    (h : parseCompsLoc pend fuel toks = .ok (cs, ls, rest)) :
    rest <:+ toks ∧ ∀ l ∈ ls, LinkOk toks l := by
  fun_induction parseCompsLoc pend fuel toks generalizing cs ls rest with
  | case1 => cases h
  | case2 fuel a s b rest' ih =>
    obtain ⟨⟨cs', ls', r'⟩, h1, h2⟩ := LRes.bind_ok h
    simp only [LRes.ok.injEq, Prod.mk.injEq] at h2
    obtain ⟨_, hls, hrest⟩ := h2
    subst hls hrest
    obtain ⟨i1, i2⟩ := ih _ _ _ h1
    exact ⟨List.IsSuffix.trans i1 (List.suffix_cons _ _), fun l hl => (i2 l hl).mono (fun x hx => by simp [hx])⟩
  | case3 fuel a b l c rest' ih =>
    obtain ⟨⟨id, sp, rest1⟩, h1, h2⟩ := LRes.bind_ok h
    obtain ⟨j1, j2⟩ := parseScopedIdLoc_ok _ _ _ _ _ h1
    simp only at h2
    split at h2
    · rename_i x y rest2
      obtain ⟨⟨cs', ls', r'⟩, h3, h4⟩ := LRes.bind_ok h2
      simp only [LRes.ok.injEq, Prod.mk.injEq] at h4
      obtain ⟨_, hls, hrest⟩ := h4
      subst hls hrest
      obtain ⟨i1, i2⟩ := ih _ _ _ _ h3
      have hsub : rest2 ⊆ ⟨a, .lbrace, b⟩ :: ⟨l, .kw .LinkKeyword, c⟩ :: rest' :=
        (List.IsSuffix.trans (List.suffix_cons _ _) (suffix_cons2 j1)).subset
      refine ⟨List.IsSuffix.trans i1 (List.IsSuffix.trans (List.suffix_cons _ _) (suffix_cons2 j1)), ?_⟩
      intro lk hlk
      simp only [List.mem_cons] at hlk
      cases hlk with
      | inl h =>
        subst h
        have hsp : SpOk (⟨a, .lbrace, b⟩ :: ⟨l, .kw .LinkKeyword, c⟩ :: rest') sp := j2.mono (fun x hx => by simp [hx])
        exact ⟨⟨⟨⟨l, .kw .LinkKeyword, c⟩, by simp, Or.inl rfl⟩, hsp.2⟩, hsp⟩
      | inr h => exact (i2 lk h).mono hsub
    · cases h2
  | case4 => cases h
  | case5 =>
    simp only [LRes.ok.injEq, Prod.mk.injEq] at h
    obtain ⟨_, hls, hrest⟩ := h
    subst hls hrest
    exact ⟨List.suffix_refl _, fun l hl => by cases hl⟩

theorem parseLinesLoc_ok (pend : Option LCErr) (fuel : Nat) (last : Loc) (toks : List LCTok)
    (mls : List MLine) (lk : List LLink) (r : Loc) (rest : List LCTok)
    (h : parseLinesLoc pend fuel last toks = .ok (mls, lk, r, rest)) :
    rest <:+ toks ∧ (∀ l ∈ lk, LinkOk toks l) ∧
    ((mls = [] ∧ r = last ∧ rest = toks) ∨ (mls ≠ [] ∧ Bnd toks r ∧ toks ≠ [])) := by
  fun_induction parseLinesLoc pend fuel last toks generalizing mls lk r rest with
  | case1 => cases h
  | case2 fuel last toks hs ih =>
    obtain ⟨⟨cs, lk1, rest1⟩, h1, h2⟩ := LRes.bind_ok h
    obtain ⟨j1, j2⟩ := parseCompsLoc_ok _ _ _ _ _ _ h1
    simp only at h2
    split at h2
    · rename_i a e rest2
      obtain ⟨⟨ls', lk', r', rest3⟩, h3, h4⟩ := LRes.bind_ok h2
      simp only [LRes.ok.injEq, Prod.mk.injEq] at h4
      obtain ⟨hm, hlk, hr, hrest⟩ := h4
      subst hm hlk hr hrest
      obtain ⟨i1, i2, i3⟩ := ih _ _ _ _ _ _ h3
      have hsub : rest2 ⊆ toks := (List.IsSuffix.trans (List.suffix_cons _ _) j1).subset
      have hnl : (⟨a, .newline, e⟩ : LCTok) ∈ toks := j1.subset (by simp)
      refine ⟨List.IsSuffix.trans i1 (List.IsSuffix.trans (List.suffix_cons _ _) j1), ?_, Or.inr ⟨by simp, ?_, ?_⟩⟩
      · intro l hl
        simp only [List.mem_append] at hl
        cases hl with
        | inl h => exact j2 l h
        | inr h => exact (i2 l h).mono hsub
      · cases i3 with
        | inl h => rw [h.2.1]; exact Bnd.stop hnl
        | inr h => exact h.2.1.mono hsub
      · intro hn; rw [hn] at hnl; cases hnl
    · cases h2
  | case3 fuel last toks hs =>
    simp only [LRes.ok.injEq, Prod.mk.injEq] at h
    obtain ⟨hm, hlk, hr, hrest⟩ := h
    subst hm hlk hr hrest
    exact ⟨List.suffix_refl _, (fun l hl => by cases hl), Or.inl ⟨rfl, rfl, rfl⟩⟩

theorem headStart_bnd (d : Loc) (toks : List LCTok) (h : toks ≠ []) : Bnd toks (headStart d toks) := by
  cases toks with
  | nil => exact absurd rfl h
  | cons t ts => exact ⟨t, by simp, Or.inl rfl⟩

theorem reduceLinesLoc_ok (san : Sanitizer) (pend : Option LCErr) (start stop : Loc) (ls : List MLine) (links : List LLink)
    (rest : List LCTok) (o : Option LMsg) (h : reduceLinesLoc san pend start stop ls links rest = .ok o) :
    (ls = [] ∧ o = none) ∨ (ls ≠ [] ∧ ∃ m, o = some m ∧ m.span = ⟨start, stop⟩ ∧ m.links = links) := by
  unfold reduceLinesLoc at h
  split at h
  · split at h
    · simp only [LRes.ok.injEq] at h; exact Or.inl ⟨rfl, h.symm⟩
    · obtain ⟨m, _, h2⟩ := LRes.bind_ok h
      simp only [LRes.ok.injEq] at h2
      exact Or.inr ⟨by simp, _, h2.symm, rfl, rfl⟩
  · cases h

theorem parseSectionLoc_ok (san : Sanitizer) (pend : Option LCErr) (toks : List LCTok) (m : LMsg) (rest : List LCTok)
    (h : parseSectionLoc san pend toks = .ok (m, rest)) :
    rest <:+ toks ∧ MsgOk toks m := by
  unfold parseSectionLoc at h
  simp only at h
  obtain ⟨⟨inl, lk, l, e, r⟩, hh, h2⟩ := LRes.bind_ok h
  -- the header: `:` … newline, or newline
  have hdr : r <:+ toks ∧ (∀ x ∈ lk, LinkOk toks x) ∧ Bnd toks l ∧ Bnd toks e := by
    split at hh
    · rename_i l' a rest0
      obtain ⟨⟨cs, lk1, rest1⟩, h3, h4⟩ := LRes.bind_ok hh
      obtain ⟨j1, j2⟩ := parseCompsLoc_ok _ _ _ _ _ _ h3
      simp only at h4
      split at h4
      · rename_i b e' r'
        simp only [LRes.ok.injEq, Prod.mk.injEq] at h4
        obtain ⟨_, hlk, hl, he, hr⟩ := h4
        subst hlk hl he hr
        have hsub : rest0 ⊆ ⟨l', .colon, a⟩ :: rest0 := (List.suffix_cons _ _).subset
        refine ⟨List.IsSuffix.trans (List.suffix_cons _ _) (List.IsSuffix.trans j1 (List.suffix_cons _ _)),
          fun x hx => (j2 x hx).mono hsub, ⟨⟨l', .colon, a⟩, by simp, Or.inl rfl⟩, ?_⟩
        have hnl : (⟨b, .newline, e'⟩ : LCTok) ∈ rest0 := j1.subset (by simp)
        exact Bnd.stop (hsub hnl)
      · cases h4
    · rename_i l' e' r'
      simp only [LRes.ok.injEq, Prod.mk.injEq] at hh
      obtain ⟨_, hlk, hl, he, hr⟩ := hh
      subst hlk hl he hr
      exact ⟨List.suffix_cons _ _, (fun x hx => by cases hx), ⟨⟨l', .newline, e'⟩, by simp, Or.inl rfl⟩,
        ⟨⟨l', .newline, e'⟩, by simp, Or.inr rfl⟩⟩
    · cases hh
  obtain ⟨d1, d2, d3, d4⟩ := hdr
  simp only at h2
  obtain ⟨⟨ls, lk', stop, rest'⟩, h5, h6⟩ := LRes.bind_ok h2
  obtain ⟨k1, k2, k3⟩ := parseLinesLoc_ok _ _ _ _ _ _ _ _ h5
  simp only at h6
  obtain ⟨ml, _, h8⟩ := LRes.bind_ok h6
  simp only [LRes.ok.injEq, Prod.mk.injEq] at h8
  obtain ⟨hm, hrest⟩ := h8
  subst hm hrest
  have hstop : Bnd toks stop := by
    cases k3 with
    | inl h => rw [h.2.1]; exact d4
    | inr h => exact h.2.1.mono d1.subset
  refine ⟨List.IsSuffix.trans k1 d1, ⟨d3, hstop⟩, ?_⟩
  intro x hx
  simp only [List.mem_append] at hx
  cases hx with
  | inl h => exact d2 x h
  | inr h => exact (k2 x h).mono d1.subset

theorem DocPartsOk.addParam {all : List LCTok} {c : LDoc} (hc : DocPartsOk all c) (t : LTag) (ht : TagOk all t) (e : Loc) (he : Bnd all e) :
    DocPartsOk all { c with span := ⟨c.span.start, e⟩, params := c.params ++ [t] } := by
  obtain ⟨_, b, p, r, s⟩ := hc
  refine ⟨he, b, ?_, r, s⟩
  intro x hx
  simp only [List.mem_append, List.mem_singleton] at hx
  cases hx with
  | inl h => exact p x h
  | inr h => rw [h]; exact ht

theorem DocPartsOk.addReturns {all : List LCTok} {c : LDoc} (hc : DocPartsOk all c) (t : LTag) (ht : TagOk all t) (e : Loc) (he : Bnd all e) :
    DocPartsOk all { c with span := ⟨c.span.start, e⟩, returns := c.returns ++ [t] } := by
  obtain ⟨_, b, p, r, s⟩ := hc
  refine ⟨he, b, p, ?_, s⟩
  intro x hx
  simp only [List.mem_append, List.mem_singleton] at hx
  cases hx with
  | inl h => exact r x h
  | inr h => rw [h]; exact ht

theorem DocPartsOk.addSee {all : List LCTok} {c : LDoc} (hc : DocPartsOk all c) (t : LLink) (ht : LinkOk all t) (e : Loc) (he : Bnd all e) :
    DocPartsOk all { c with span := ⟨c.span.start, e⟩, see := c.see ++ [t] } := by
  obtain ⟨_, b, p, r, s⟩ := hc
  refine ⟨he, b, p, r, ?_⟩
  intro x hx
  simp only [List.mem_append, List.mem_singleton] at hx
  cases hx with
  | inl h => exact s x h
  | inr h => rw [h]; exact ht

theorem parseBlocksLoc_ok (san : Sanitizer) (pend : Option LCErr) (fuel : Nat) (c : LDoc) (toks : List LCTok) (d : LDoc)
    (all : List LCTok) (hsub : toks ⊆ all) (hc : DocPartsOk all c)
    (h : parseBlocksLoc san pend fuel c toks = .ok d) : d.span.start = c.span.start ∧ DocPartsOk all d := by
  fun_induction parseBlocksLoc san pend fuel c toks generalizing d with
  | case1 => cases h
  | case2 =>
    simp only [LRes.ok.injEq] at h
    subst h
    exact ⟨rfl, hc⟩
  | case3 => cases h
  | case4 fuel c l a il id ie rest ih =>
    obtain ⟨⟨m, r⟩, h1, h2⟩ := LRes.bind_ok h
    obtain ⟨j1, j2⟩ := parseSectionLoc_ok _ _ _ _ _ h1
    have hr : rest ⊆ all := fun x hx => hsub (by simp [hx])
    have hkw : (⟨l, .kw .ParamKeyword, a⟩ : LCTok) ∈ all := hsub (by simp)
    have hid : (⟨il, .ident id, ie⟩ : LCTok) ∈ all := hsub (by simp)
    have ht : TagOk all ⟨⟨l, ie⟩, some (id, ⟨il, ie⟩), m⟩ :=
      ⟨⟨Bnd.start hkw, Bnd.stop hid⟩, (fun i s hs => by
        simp only [Option.some.injEq, Prod.mk.injEq] at hs; rw [← hs.2]; exact ⟨Bnd.start hid, Bnd.stop hid⟩), j2.mono hr⟩
    obtain ⟨i1, i2⟩ := ih m r d (fun x hx => hr (j1.subset hx)) (hc.addParam _ ht ie (Bnd.stop hid)) h2
    exact ⟨i1, i2⟩
  | case5 => cases h
  | case6 fuel c l a il id ie rest ih =>
    obtain ⟨⟨m, r⟩, h1, h2⟩ := LRes.bind_ok h
    obtain ⟨j1, j2⟩ := parseSectionLoc_ok _ _ _ _ _ h1
    have hr : rest ⊆ all := fun x hx => hsub (by simp [hx])
    have hkw : (⟨l, .kw .ReturnsKeyword, a⟩ : LCTok) ∈ all := hsub (by simp)
    have hid : (⟨il, .ident id, ie⟩ : LCTok) ∈ all := hsub (by simp)
    have ht : TagOk all ⟨⟨l, ie⟩, some (id, ⟨il, ie⟩), m⟩ :=
      ⟨⟨Bnd.start hkw, Bnd.stop hid⟩, (fun i s hs => by
        simp only [Option.some.injEq, Prod.mk.injEq] at hs; rw [← hs.2]; exact ⟨Bnd.start hid, Bnd.stop hid⟩), j2.mono hr⟩
    obtain ⟨i1, i2⟩ := ih m r d (fun x hx => hr (j1.subset hx)) (hc.addReturns _ ht ie (Bnd.stop hid)) h2
    exact ⟨i1, i2⟩
  | case7 fuel c l a rest hne ih =>
    obtain ⟨⟨m, r⟩, h1, h2⟩ := LRes.bind_ok h
    obtain ⟨j1, j2⟩ := parseSectionLoc_ok _ _ _ _ _ h1
    have hr : rest ⊆ all := fun x hx => hsub (by simp [hx])
    have hkw : (⟨l, .kw .ReturnsKeyword, a⟩ : LCTok) ∈ all := hsub (by simp)
    have hm := j2.mono hr
    have ht : TagOk all ⟨⟨l, m.span.start⟩, none, m⟩ :=
      ⟨⟨Bnd.start hkw, hm.1.1⟩, (fun i s hs => by cases hs), hm⟩
    obtain ⟨i1, i2⟩ := ih m r d (fun x hx => hr (j1.subset hx)) (hc.addReturns _ ht _ hm.1.1) h2
    exact ⟨i1, i2⟩
  | case8 fuel c l a rest ih =>
    obtain ⟨⟨id, sp, rest1⟩, h1, h2⟩ := LRes.bind_ok h
    obtain ⟨j1, j2⟩ := parseScopedIdLoc_ok _ _ _ _ _ h1
    have hr : rest ⊆ all := fun x hx => hsub (by simp [hx])
    have hkw : (⟨l, .kw .SeeKeyword, a⟩ : LCTok) ∈ all := hsub (by simp)
    have hsp := j2.mono hr
    simp only at h2
    split at h2
    · rename_i x y r
      split at h2
      · have ht : LinkOk all ⟨⟨l, sp.stop⟩, id, sp⟩ := ⟨⟨Bnd.start hkw, hsp.2⟩, hsp⟩
        obtain ⟨i1, i2⟩ := ih id sp r d (fun z hz => hr (j1.subset (by simp [hz]))) (hc.addSee _ ht _ hsp.2) h2
        exact ⟨i1, i2⟩
      · cases h2
    · cases h2
  | case9 => cases h

/-- a comment with at least one line yields a token or a lexer error -/
theorem lexCommentLoc_nonempty (l0 : CLine) (ls : List CLine) (h : (lexCommentLoc (l0 :: ls)).toks = []) :
    (lexCommentLoc (l0 :: ls)).err ≠ none := by
  have hs := lexOneLineLoc_shape l0
  unfold LineShape at hs
  simp only [lexCommentLoc] at h ⊢
  cases he : (lexOneLineLoc l0).err with
  | some e => simp [he]
  | none =>
    rw [he] at hs h
    obtain ⟨init, h1, _⟩ := hs
    rw [h1] at h
    simp at h

/-- **the spans of a parsed comment are made of token boundaries**: the comment starts three columns left of the first
    token of its stream; its end and both ends of the span of every part (overview, tags, tag identifiers, messages, inline
    links, link identifiers, see tags) are the start or the end of a token of the comment's located token stream -/
def docStart (ov : Option LMsg) (dflt : Loc) : Loc := match ov with | some m => m.span.start | none => dflt

def ovStop (ov : Option LMsg) (l : Loc) : Loc := match ov with | some m => m.span.stop | none => l

theorem createDocComment_ok (ov : Option LMsg) (l : Loc) (c : LDoc) (h : createDocComment ov l = .ok c) :
    3 ≤ l.col ∧ c = { span := ⟨⟨l.row, l.col - 3⟩, ovStop ov l⟩, overview := ov, params := [], returns := [], see := [] } := by
  unfold createDocComment at h
  by_cases hc : l.col < 3
  · simp [hc] at h
  · simp only [hc, if_false, LRes.ok.injEq] at h
    exact ⟨by omega, h.symm⟩

theorem parseCommentLocG_ok (san : Sanitizer) (lines : List CLine) (d : LDoc) (h : parseCommentLocG san lines = .ok d) :
    ∃ t0 ts, (lexCommentLoc lines).toks = t0 :: ts ∧ 3 ≤ t0.start.col ∧
      d.span.start = ⟨t0.start.row, t0.start.col - 3⟩ ∧ DocPartsOk (lexCommentLoc lines).toks d := by
  unfold parseCommentLocG at h
  cases lines with
  | nil => cases h
  | cons l0 ls =>
    simp only at h
    have hne := lexCommentLoc_nonempty l0 ls
    generalize lexCommentLoc (l0 :: ls) = lx at h hne ⊢
    obtain ⟨⟨mls, lk, stop, rest⟩, h1, h2⟩ := LRes.bind_ok h
    obtain ⟨j1, j2, j3⟩ := parseLinesLoc_ok _ _ _ _ _ _ _ _ h1
    obtain ⟨ov, h3, h4⟩ := LRes.bind_ok h2
    obtain ⟨c, h5, h6⟩ := LRes.bind_ok h4
    clear h h2 h4
    dsimp only at h3 h5 h6
    obtain ⟨hcol, hc⟩ := createDocComment_ok _ _ _ h5
    -- the token list is not empty
    have htoks : lx.toks ≠ [] := by
      intro hnil
      have hov := reduceLinesLoc_ok _ _ _ _ _ _ _ _ h3
      cases j3 with
      | inl k =>
        obtain ⟨k1, _, k3⟩ := k
        cases hov with
        | inl o =>
          rw [k3, hnil] at h6
          cases hp : lx.err with
          | none => exact hne hnil hp
          | some e => rw [hp] at h6; simp [parseBlocksLoc] at h6
        | inr o => exact o.1 k1
      | inr k => exact k.2.2 hnil
    cases htk : lx.toks with
    | nil => exact absurd htk htoks
    | cons t0 ts =>
      refine ⟨t0, ts, rfl, ?_⟩
      rw [htk] at j1 j2 j3 h3 h1
      have hov := reduceLinesLoc_ok _ _ _ _ _ _ _ _ h3
      have ht0 : t0 ∈ t0 :: ts := by simp
      -- the location handed to `create_doc_comment` is the start of the first token
      have hl : docStart ov (headStart l0.start rest) = t0.start := by
        cases hov with
        | inl o =>
          obtain ⟨o1, o2⟩ := o
          cases j3 with
          | inl k => rw [o2, k.2.2]; rfl
          | inr k => exact absurd o1 k.1
        | inr o =>
          obtain ⟨_, m, o2, o3, _⟩ := o
          rw [o2]
          simp only [docStart, o3]
          rfl
      have hcol' : 3 ≤ (docStart ov (headStart l0.start rest)).col := hcol
      have hc' : c = { span := ⟨⟨(docStart ov (headStart l0.start rest)).row, (docStart ov (headStart l0.start rest)).col - 3⟩,
                                ovStop ov (docStart ov (headStart l0.start rest))⟩,
                       overview := ov, params := [], returns := [], see := [] } := hc
      rw [hl] at hcol' hc'
      clear hcol hc h5
      have hdc : DocPartsOk (t0 :: ts) c := by
        subst hc'
        cases hov with
        | inl o =>
          obtain ⟨_, o2⟩ := o
          subst o2
          exact ⟨Bnd.start ht0, (fun m hm => by cases hm), (fun t ht => by cases ht), (fun t ht => by cases ht), (fun t ht => by cases ht)⟩
        | inr o =>
          obtain ⟨o1, m, o2, o3, o4⟩ := o
          subst o2
          have hstop : Bnd (t0 :: ts) stop := by
            cases j3 with
            | inl k => exact absurd k.1 o1
            | inr k => exact k.2.1
          refine ⟨by simp only [ovStop, o3]; exact hstop, ?_, (fun t ht => by cases ht), (fun t ht => by cases ht), (fun t ht => by cases ht)⟩
          intro m' hm'
          simp only [Option.some.injEq] at hm'
          subst hm'
          refine ⟨by rw [o3]; exact ⟨Bnd.start ht0, hstop⟩, ?_⟩
          rw [o4]
          exact j2
      obtain ⟨i1, i2⟩ := parseBlocksLoc_ok _ _ _ _ _ _ (t0 :: ts) j1.subset hdc h6
      refine ⟨hcol', ?_, i2⟩
      rw [i1, hc']

/-! ### where a rejected comment is reported -/

/-- the span of the `MalformedDocComment` lint is the extent of a token of the stream or of the lexer's error -/
def FailOk (toks : List LCTok) (pend : Option LCErr) : LFail → Prop
  | .at s => (∃ t ∈ toks, s = ⟨t.start, t.stop⟩) ∨ (∃ e, pend = some e ∧ s = ⟨e.start, e.stop⟩)
  | .eof => pend = none

theorem FailOk.mono {a b : List LCTok} {pend : Option LCErr} {f : LFail} (h : a ⊆ b) (hf : FailOk a pend f) : FailOk b pend f := by
  cases f with
  | «at» s =>
    cases hf with
    | inl x => obtain ⟨t, ht, hs⟩ := x; exact Or.inl ⟨t, h ht, hs⟩
    | inr x => exact Or.inr x
  | eof => exact hf

theorem failHere_ok (pend : Option LCErr) (toks : List LCTok) : FailOk toks pend (failHere pend toks) := by
  unfold failHere
  cases toks with
  | nil =>
    cases pend with
    | none => rfl
    | some e => exact Or.inr ⟨e, rfl, rfl⟩
  | cons t ts => exact Or.inl ⟨t, by simp, rfl⟩

theorem failHere_sub {pend : Option LCErr} {toks all : List LCTok} (h : toks ⊆ all) : FailOk all pend (failHere pend toks) :=
  (failHere_ok pend toks).mono h

theorem LRes.bind_fail {α β} {x : LRes α} {f : α → LRes β} {e : LFail} (h : x.bind f = .fail e) :
    x = .fail e ∨ ∃ a, x = .ok a ∧ f a = .fail e := by
  cases x with
  | ok a => exact Or.inr ⟨a, rfl, h⟩
  | fail e' => simp only [LRes.bind, LRes.fail.injEq] at h; rw [h]; exact Or.inl rfl
  | panic s => cases h

theorem sub_cons {a : LCTok} {r : List LCTok} : r ⊆ a :: r := fun _ hx => by simp [hx]
theorem sub_cons2 {a b : LCTok} {r : List LCTok} : r ⊆ a :: b :: r := fun _ hx => by simp [hx]

theorem parseIdTailLoc_fail (pend : Option LCErr) (last : Loc) (toks : List LCTok) (f : LFail)
    (h : parseIdTailLoc pend last toks = .fail f) : FailOk toks pend f := by
  fun_induction parseIdTailLoc pend last toks with
  | case1 last a b c s e rest' ih =>
    cases LRes.bind_fail h with
    | inl h1 => exact (ih h1).mono sub_cons2
    | inr h1 => obtain ⟨_, _, h2⟩ := h1; cases h2
  | case2 =>
    simp only [LRes.fail.injEq] at h
    rw [← h]; exact failHere_sub sub_cons
  | case3 => cases h

theorem parseScopedIdLoc_fail (pend : Option LCErr) (toks : List LCTok) (f : LFail)
    (h : parseScopedIdLoc pend toks = .fail f) : FailOk toks pend f := by
  unfold parseScopedIdLoc at h
  split at h
  · cases LRes.bind_fail h with
    | inl h1 => exact (parseIdTailLoc_fail _ _ _ _ h1).mono sub_cons2
    | inr h1 => obtain ⟨_, _, h2⟩ := h1; cases h2
  · simp only [LRes.fail.injEq] at h
    rw [← h]; exact failHere_sub sub_cons
  · cases LRes.bind_fail h with
    | inl h1 => exact (parseIdTailLoc_fail _ _ _ _ h1).mono sub_cons
    | inr h1 => obtain ⟨_, _, h2⟩ := h1; cases h2
  · simp only [LRes.fail.injEq] at h
    rw [← h]; exact failHere_ok _ _

theorem parseCompsLoc_fail (pend : Option LCErr) (fuel : Nat) (toks : List LCTok) (f : LFail)
    (h : parseCompsLoc pend fuel toks = .fail f) : FailOk toks pend f := by
  fun_induction parseCompsLoc pend fuel toks with
  | case1 =>
    simp only [LRes.fail.injEq] at h
    rw [← h]; exact failHere_ok _ _
  | case2 fuel a s b rest' ih =>
    cases LRes.bind_fail h with
    | inl h1 => exact (ih h1).mono sub_cons
    | inr h1 => obtain ⟨_, _, h2⟩ := h1; cases h2
  | case3 fuel a b l c rest' ih =>
    cases LRes.bind_fail h with
    | inl h1 => exact (parseScopedIdLoc_fail _ _ _ h1).mono sub_cons2
    | inr h1 =>
      obtain ⟨⟨id, sp, rest1⟩, h1, h2⟩ := h1
      obtain ⟨j1, _⟩ := parseScopedIdLoc_ok _ _ _ _ _ h1
      simp only at h2
      split at h2
      · rename_i x y rest2
        have hsub : rest2 ⊆ ⟨a, .lbrace, b⟩ :: ⟨l, .kw .LinkKeyword, c⟩ :: rest' :=
          (List.IsSuffix.trans (List.suffix_cons _ _) (suffix_cons2 j1)).subset
        cases LRes.bind_fail h2 with
        | inl h3 => exact (ih _ h3).mono hsub
        | inr h3 => obtain ⟨_, _, h4⟩ := h3; cases h4
      · simp only [LRes.fail.injEq] at h2
        rw [← h2]; exact failHere_sub (suffix_cons2 j1).subset
  | case4 =>
    simp only [LRes.fail.injEq] at h
    rw [← h]; exact failHere_sub sub_cons
  | case5 => cases h

theorem parseLinesLoc_fail (pend : Option LCErr) (fuel : Nat) (last : Loc) (toks : List LCTok) (f : LFail)
    (h : parseLinesLoc pend fuel last toks = .fail f) : FailOk toks pend f := by
  fun_induction parseLinesLoc pend fuel last toks with
  | case1 =>
    simp only [LRes.fail.injEq] at h
    rw [← h]; exact failHere_ok _ _
  | case2 fuel last toks hs ih =>
    cases LRes.bind_fail h with
    | inl h1 => exact parseCompsLoc_fail _ _ _ _ h1
    | inr h1 =>
      obtain ⟨⟨cs, lk1, rest1⟩, h1, h2⟩ := h1
      obtain ⟨j1, _⟩ := parseCompsLoc_ok _ _ _ _ _ _ h1
      simp only at h2
      split at h2
      · rename_i a e rest2
        have hsub : rest2 ⊆ toks := (List.IsSuffix.trans (List.suffix_cons _ _) j1).subset
        cases LRes.bind_fail h2 with
        | inl h3 => exact (ih _ _ h3).mono hsub
        | inr h3 => obtain ⟨_, _, h4⟩ := h3; cases h4
      · simp only [LRes.fail.injEq] at h2
        rw [← h2]; exact failHere_sub j1.subset
  | case3 => cases h

theorem reduceLinesLoc_fail (san : Sanitizer) (pend : Option LCErr) (start stop : Loc) (ls : List MLine) (links : List LLink)
    (rest : List LCTok) (f : LFail) (h : reduceLinesLoc san pend start stop ls links rest = .fail f) : FailOk rest pend f := by
  unfold reduceLinesLoc at h
  split at h
  · split at h
    · cases h
    · cases LRes.bind_fail h with
      | inl h1 =>
        unfold sanitizeL at h1
        split at h1 <;> cases h1
      | inr h1 => obtain ⟨_, _, h2⟩ := h1; cases h2
  · simp only [LRes.fail.injEq] at h
    rw [← h]; exact failHere_ok _ _

theorem parseSectionLoc_fail (san : Sanitizer) (pend : Option LCErr) (toks : List LCTok) (f : LFail)
    (h : parseSectionLoc san pend toks = .fail f) : FailOk toks pend f := by
  unfold parseSectionLoc at h
  simp only at h
  cases LRes.bind_fail h with
  | inl hh =>
    split at hh
    · rename_i l' a rest0
      cases LRes.bind_fail hh with
      | inl h1 => exact (parseCompsLoc_fail _ _ _ _ h1).mono sub_cons
      | inr h1 =>
        obtain ⟨⟨cs, lk1, rest1⟩, h3, h4⟩ := h1
        obtain ⟨j1, _⟩ := parseCompsLoc_ok _ _ _ _ _ _ h3
        simp only at h4
        split at h4
        · cases h4
        · simp only [LRes.fail.injEq] at h4
          rw [← h4]; exact failHere_sub (fun x hx => sub_cons (j1.subset hx))
    · cases hh
    · simp only [LRes.fail.injEq] at hh
      rw [← hh]; exact failHere_ok _ _
  | inr hh =>
    obtain ⟨⟨inl, lk, l, e, r⟩, hh, h2⟩ := hh
    have hr : r ⊆ toks := by
      split at hh
      · rename_i l' a rest0
        obtain ⟨⟨cs, lk1, rest1⟩, h3, h4⟩ := LRes.bind_ok hh
        obtain ⟨j1, _⟩ := parseCompsLoc_ok _ _ _ _ _ _ h3
        simp only at h4
        split at h4
        · simp only [LRes.ok.injEq, Prod.mk.injEq] at h4
          obtain ⟨_, _, _, _, hr⟩ := h4
          subst hr
          exact fun x hx => sub_cons (j1.subset (by simp [hx]))
        · cases h4
      · simp only [LRes.ok.injEq, Prod.mk.injEq] at hh
        obtain ⟨_, _, _, _, hr⟩ := hh
        subst hr
        exact sub_cons
      · cases hh
    simp only at h2
    cases LRes.bind_fail h2 with
    | inl h5 => exact (parseLinesLoc_fail _ _ _ _ _ h5).mono hr
    | inr h5 =>
      obtain ⟨⟨ls, lk', stop, rest'⟩, h5, h6⟩ := h5
      obtain ⟨k1, _, _⟩ := parseLinesLoc_ok _ _ _ _ _ _ _ _ h5
      simp only at h6
      cases LRes.bind_fail h6 with
      | inl h7 => exact (reduceLinesLoc_fail _ _ _ _ _ _ _ _ h7).mono (fun x hx => hr (k1.subset hx))
      | inr h7 => obtain ⟨_, _, h8⟩ := h7; cases h8

theorem parseBlocksLoc_fail (san : Sanitizer) (pend : Option LCErr) (fuel : Nat) (c : LDoc) (toks : List LCTok) (f : LFail)
    (h : parseBlocksLoc san pend fuel c toks = .fail f) : FailOk toks pend f := by
  fun_induction parseBlocksLoc san pend fuel c toks with
  | case1 =>
    simp only [LRes.fail.injEq] at h
    rw [← h]; exact failHere_ok _ _
  | case2 => cases h
  | case3 fuel c val hp =>
    simp only [LRes.fail.injEq] at h
    rw [← h, hp]; exact failHere_ok _ _
  | case4 fuel c l a il id ie rest ih =>
    cases LRes.bind_fail h with
    | inl h1 => exact (parseSectionLoc_fail _ _ _ _ h1).mono sub_cons2
    | inr h1 =>
      obtain ⟨⟨m, r⟩, h1, h2⟩ := h1
      obtain ⟨j1, _⟩ := parseSectionLoc_ok _ _ _ _ _ h1
      exact (ih m r h2).mono (fun x hx => sub_cons2 (j1.subset hx))
  | case5 =>
    simp only [LRes.fail.injEq] at h
    rw [← h]; exact failHere_sub sub_cons
  | case6 fuel c l a il id ie rest ih =>
    cases LRes.bind_fail h with
    | inl h1 => exact (parseSectionLoc_fail _ _ _ _ h1).mono sub_cons2
    | inr h1 =>
      obtain ⟨⟨m, r⟩, h1, h2⟩ := h1
      obtain ⟨j1, _⟩ := parseSectionLoc_ok _ _ _ _ _ h1
      exact (ih m r h2).mono (fun x hx => sub_cons2 (j1.subset hx))
  | case7 fuel c l a rest hne ih =>
    cases LRes.bind_fail h with
    | inl h1 => exact (parseSectionLoc_fail _ _ _ _ h1).mono sub_cons
    | inr h1 =>
      obtain ⟨⟨m, r⟩, h1, h2⟩ := h1
      obtain ⟨j1, _⟩ := parseSectionLoc_ok _ _ _ _ _ h1
      exact (ih m r h2).mono (fun x hx => sub_cons (j1.subset hx))
  | case8 fuel c l a rest ih =>
    cases LRes.bind_fail h with
    | inl h1 => exact (parseScopedIdLoc_fail _ _ _ h1).mono sub_cons
    | inr h1 =>
      obtain ⟨⟨id, sp, rest1⟩, h1, h2⟩ := h1
      obtain ⟨j1, _⟩ := parseScopedIdLoc_ok _ _ _ _ _ h1
      simp only at h2
      split at h2
      · rename_i x y r
        have hsub : r ⊆ ⟨l, .kw .SeeKeyword, a⟩ :: rest := fun z hz => sub_cons (j1.subset (by simp [hz]))
        split at h2
        · exact (ih id sp r h2).mono hsub
        · simp only [LRes.fail.injEq] at h2
          rw [← h2]; exact failHere_sub hsub
      · simp only [LRes.fail.injEq] at h2
        rw [← h2]; exact failHere_sub (fun z hz => sub_cons (j1.subset hz))
  | case9 =>
    simp only [LRes.fail.injEq] at h
    rw [← h]; exact failHere_ok _ _

theorem createDocComment_not_fail (ov : Option LMsg) (l : Loc) (f : LFail) : createDocComment ov l ≠ .fail f := by
  unfold createDocComment
  by_cases hc : l.col < 3 <;> simp [hc]

/-- **where a rejected comment is reported**: at a token of the comment's stream, or at the lexer's error -/
theorem parseCommentLocG_fail (san : Sanitizer) (lines : List CLine) (f : LFail) (h : parseCommentLocG san lines = .fail f) :
    FailOk (lexCommentLoc lines).toks (lexCommentLoc lines).err f := by
  unfold parseCommentLocG at h
  cases lines with
  | nil => cases h
  | cons l0 ls =>
    simp only at h
    generalize lexCommentLoc (l0 :: ls) = lx at h ⊢
    cases LRes.bind_fail h with
    | inl h1 => exact parseLinesLoc_fail _ _ _ _ _ h1
    | inr h1 =>
      obtain ⟨⟨mls, lk, stop, rest⟩, h1, h2⟩ := h1
      obtain ⟨j1, _, _⟩ := parseLinesLoc_ok _ _ _ _ _ _ _ _ h1
      cases LRes.bind_fail h2 with
      | inl h3 => exact (reduceLinesLoc_fail _ _ _ _ _ _ _ _ h3).mono j1.subset
      | inr h3 =>
        obtain ⟨ov, h3, h4⟩ := h3
        cases LRes.bind_fail h4 with
        | inl h5 =>
          exact absurd h5 (createDocComment_not_fail _ _ _)
        | inr h5 =>
          obtain ⟨c, _, h6⟩ := h5
          exact (parseBlocksLoc_fail _ _ _ _ _ _ h6).mono j1.subset

/-! ### the parser never runs out of tokens unless the lexer reported an error -/

/-- a non-empty token list ends in a `Newline` -/
def NlTail (toks : List LCTok) : Prop := ∀ t, toks.getLast? = some t → t.tok = .newline

def NoNl (pre : List LCTok) : Prop := ∀ t ∈ pre, t.tok ≠ .newline

theorem NlTail.suffix {rest toks : List LCTok} (h : rest <:+ toks) (hn : NlTail toks) : NlTail rest := by
  obtain ⟨pre, rfl⟩ := h
  intro t ht
  cases rest with
  | nil => cases ht
  | cons a r => exact hn t (by rw [List.getLast?_append, ht]; rfl)

theorem NlTail.not_single {t : LCTok} (ht : t.tok ≠ .newline) : ¬ NlTail [t] := fun h => ht (h t rfl)

theorem NlTail.tail {a : LCTok} {r : List LCTok} (h : NlTail (a :: r)) : NlTail r := NlTail.suffix (List.suffix_cons _ _) h

theorem nl_contra {pre : List LCTok} (hne : pre ≠ []) (hno : NoNl pre) (hn : NlTail pre) : False := by
  have hl := List.getLast?_eq_some_getLast hne
  exact hno _ (List.getLast_mem hne) (hn _ hl)

theorem failHere_eof {toks : List LCTok} (h : failHere none toks = .eof) : toks = [] := by
  cases toks with
  | nil => rfl
  | cons t ts => simp [failHere] at h

theorem NoNl.cons {t : LCTok} {pre : List LCTok} (ht : t.tok ≠ .newline) (h : NoNl pre) : NoNl (t :: pre) := by
  intro x hx
  cases hx with
  | head => exact ht
  | tail _ hx => exact h x hx

theorem parseIdTailLoc_pre (pend : Option LCErr) (last : Loc) (toks : List LCTok) (v : List Str) (r : Loc) (rest : List LCTok)
    (h : parseIdTailLoc pend last toks = .ok (v, r, rest)) : ∃ pre, toks = pre ++ rest ∧ NoNl pre := by
  fun_induction parseIdTailLoc pend last toks generalizing v r rest with
  | case1 last a b c s e rest' ih =>
    obtain ⟨⟨v', r', rest''⟩, h1, h2⟩ := LRes.bind_ok h
    simp only [LRes.ok.injEq, Prod.mk.injEq] at h2
    obtain ⟨_, _, hrest⟩ := h2
    subst hrest
    obtain ⟨pre, hp, hn⟩ := ih _ _ _ h1
    exact ⟨_ :: _ :: pre, by rw [hp]; rfl, NoNl.cons (by simp) (NoNl.cons (by simp) hn)⟩
  | case2 => cases h
  | case3 =>
    simp only [LRes.ok.injEq, Prod.mk.injEq] at h
    obtain ⟨_, _, hrest⟩ := h
    subst hrest
    exact ⟨[], rfl, fun t ht => by cases ht⟩

theorem parseScopedIdLoc_pre (pend : Option LCErr) (toks : List LCTok) (id : Str) (sp : Sp) (rest : List LCTok)
    (h : parseScopedIdLoc pend toks = .ok (id, sp, rest)) : ∃ pre, toks = pre ++ rest ∧ NoNl pre ∧ pre ≠ [] := by
  unfold parseScopedIdLoc at h
  split at h
  · obtain ⟨⟨v', r', rest''⟩, h1, h2⟩ := LRes.bind_ok h
    simp only [LRes.ok.injEq, Prod.mk.injEq] at h2
    obtain ⟨_, _, hrest⟩ := h2
    subst hrest
    obtain ⟨pre, hp, hn⟩ := parseIdTailLoc_pre _ _ _ _ _ _ h1
    exact ⟨_ :: _ :: pre, by rw [hp]; rfl, NoNl.cons (by simp) (NoNl.cons (by simp) hn), by simp⟩
  · cases h
  · obtain ⟨⟨v', r', rest''⟩, h1, h2⟩ := LRes.bind_ok h
    simp only [LRes.ok.injEq, Prod.mk.injEq] at h2
    obtain ⟨_, _, hrest⟩ := h2
    subst hrest
    obtain ⟨pre, hp, hn⟩ := parseIdTailLoc_pre _ _ _ _ _ _ h1
    exact ⟨_ :: pre, by rw [hp]; rfl, NoNl.cons (by simp) hn, by simp⟩
  · cases h

theorem NoNl.append {a b : List LCTok} (ha : NoNl a) (hb : NoNl b) : NoNl (a ++ b) := by
  intro x hx
  simp only [List.mem_append] at hx
  cases hx with
  | inl h => exact ha x h
  | inr h => exact hb x h

theorem parseCompsLoc_pre (pend : Option LCErr) (fuel : Nat) (toks : List LCTok) (cs : List Comp) (ls : List LLink) (rest : List LCTok)
    (h : parseCompsLoc pend fuel toks = .ok (cs, ls, rest)) : ∃ pre, toks = pre ++ rest ∧ NoNl pre := by
  fun_induction parseCompsLoc pend fuel toks generalizing cs ls rest with
  | case1 => cases h
  | case2 fuel a s b rest' ih =>
    obtain ⟨⟨cs', ls', r'⟩, h1, h2⟩ := LRes.bind_ok h
    simp only [LRes.ok.injEq, Prod.mk.injEq] at h2
    obtain ⟨_, _, hrest⟩ := h2
    subst hrest
    obtain ⟨pre, hp, hn⟩ := ih _ _ _ h1
    exact ⟨_ :: pre, by rw [hp]; rfl, NoNl.cons (by simp) hn⟩
  | case3 fuel a b l c rest' ih =>
    obtain ⟨⟨id, sp, rest1⟩, h1, h2⟩ := LRes.bind_ok h
    obtain ⟨pre1, hp1, hn1, _⟩ := parseScopedIdLoc_pre _ _ _ _ _ h1
    simp only at h2
    split at h2
    · rename_i x y rest2
      obtain ⟨⟨cs', ls', r'⟩, h3, h4⟩ := LRes.bind_ok h2
      simp only [LRes.ok.injEq, Prod.mk.injEq] at h4
      obtain ⟨_, _, hrest⟩ := h4
      subst hrest
      obtain ⟨pre2, hp2, hn2⟩ := ih _ _ _ _ h3
      refine ⟨⟨a, .lbrace, b⟩ :: ⟨l, .kw .LinkKeyword, c⟩ :: (pre1 ++ (⟨x, .rbrace, y⟩ :: pre2)), ?_, NoNl.cons (by simp) (NoNl.cons (by simp) (NoNl.append hn1 (NoNl.cons (by simp) hn2)))⟩
      rw [hp1, hp2]; simp [List.append_assoc]
    · cases h2
  | case4 => cases h
  | case5 =>
    simp only [LRes.ok.injEq, Prod.mk.injEq] at h
    obtain ⟨_, _, hrest⟩ := h
    subst hrest
    exact ⟨[], rfl, fun t ht => by cases ht⟩

theorem LRes.bind_eof {α β} {x : LRes α} {f : α → LRes β} (h : x.bind f = .fail .eof) :
    x = .fail .eof ∨ ∃ a, x = .ok a ∧ f a = .fail .eof := LRes.bind_fail h

theorem parseIdTailLoc_eof (last : Loc) (toks : List LCTok) (h : parseIdTailLoc none last toks = .fail .eof)
    (hn : NlTail toks) : False := by
  fun_induction parseIdTailLoc none last toks with
  | case1 last a b c s e rest' ih =>
    cases LRes.bind_eof h with
    | inl h1 => exact ih h1 hn.tail.tail
    | inr h1 => obtain ⟨_, _, h2⟩ := h1; cases h2
  | case2 last a b rest hne =>
    simp only [LRes.fail.injEq] at h
    have := failHere_eof h
    subst this
    exact NlTail.not_single (by simp) hn
  | case3 => cases h

theorem parseScopedIdLoc_eof (toks : List LCTok) (h : parseScopedIdLoc none toks = .fail .eof) (hn : NlTail toks) : toks = [] := by
  unfold parseScopedIdLoc at h
  split at h
  · cases LRes.bind_eof h with
    | inl h1 => exact (parseIdTailLoc_eof _ _ h1 hn.tail.tail).elim
    | inr h1 => obtain ⟨_, _, h2⟩ := h1; cases h2
  · simp only [LRes.fail.injEq] at h
    have := failHere_eof h
    subst this
    exact (NlTail.not_single (by simp) hn).elim
  · cases LRes.bind_eof h with
    | inl h1 => exact (parseIdTailLoc_eof _ _ h1 hn.tail).elim
    | inr h1 => obtain ⟨_, _, h2⟩ := h1; cases h2
  · simp only [LRes.fail.injEq] at h
    exact failHere_eof h

/-- a list that ends in a `Newline` is not a non-empty list without `Newline` -/
theorem nl_contra_append {pre : List LCTok} (hne : pre ≠ []) (hno : NoNl pre) (hn : NlTail (pre ++ [])) : False := by
  rw [List.append_nil] at hn
  exact nl_contra hne hno hn

theorem parseCompsLoc_eof (fuel : Nat) (toks : List LCTok) (h : parseCompsLoc none fuel toks = .fail .eof)
    (hn : NlTail toks) (hf : toks.length < fuel) : False := by
  fun_induction parseCompsLoc none fuel toks with
  | case1 => omega
  | case2 fuel a s b rest' ih =>
    cases LRes.bind_eof h with
    | inl h1 => exact ih h1 hn.tail (by simp at hf; omega)
    | inr h1 => obtain ⟨_, _, h2⟩ := h1; cases h2
  | case3 fuel a b l c rest' ih =>
    cases LRes.bind_eof h with
    | inl h1 =>
      have := parseScopedIdLoc_eof _ h1 hn.tail.tail
      subst this
      exact NlTail.not_single (t := ⟨l, .kw .LinkKeyword, c⟩) (by simp) hn.tail
    | inr h1 =>
      obtain ⟨⟨id, sp, rest1⟩, h1, h2⟩ := h1
      obtain ⟨j1, _⟩ := parseScopedIdLoc_ok _ _ _ _ _ h1
      obtain ⟨pre1, hp1, hn1, hne1⟩ := parseScopedIdLoc_pre _ _ _ _ _ h1
      simp only at h2
      split at h2
      · rename_i x y rest2
        cases LRes.bind_eof h2 with
        | inl h3 =>
          have hs : rest2 <:+ rest' := List.IsSuffix.trans (List.suffix_cons _ _) j1
          have hl := j1.length_le
          simp at hl hf
          exact ih _ h3 (NlTail.suffix hs hn.tail.tail) (by omega)
        | inr h3 => obtain ⟨_, _, h4⟩ := h3; cases h4
      · simp only [LRes.fail.injEq] at h2
        have := failHere_eof h2
        subst this
        rw [hp1] at hn
        exact nl_contra_append hne1 hn1 hn.tail.tail
  | case4 n a b rest hne =>
    simp only [LRes.fail.injEq] at h
    have := failHere_eof h
    subst this
    exact NlTail.not_single (by simp) hn
  | case5 => cases h

theorem parseLinesLoc_eof (fuel : Nat) (last : Loc) (toks : List LCTok) (h : parseLinesLoc none fuel last toks = .fail .eof)
    (hn : NlTail toks) (hf : toks.length < fuel) : False := by
  fun_induction parseLinesLoc none fuel last toks with
  | case1 => omega
  | case2 fuel last toks hs ih =>
    cases LRes.bind_eof h with
    | inl h1 => exact parseCompsLoc_eof _ _ h1 hn (by omega)
    | inr h1 =>
      obtain ⟨⟨cs, lk1, rest1⟩, h1, h2⟩ := h1
      obtain ⟨j1, _⟩ := parseCompsLoc_ok _ _ _ _ _ _ h1
      obtain ⟨pre1, hp1, hn1⟩ := parseCompsLoc_pre _ _ _ _ _ _ h1
      simp only at h2
      split at h2
      · rename_i a e rest2
        cases LRes.bind_eof h2 with
        | inl h3 =>
          have hsuf : rest2 <:+ toks := List.IsSuffix.trans (List.suffix_cons _ _) j1
          have hl := j1.length_le
          simp at hl
          exact ih _ _ h3 (NlTail.suffix hsuf hn) (by omega)
        | inr h3 => obtain ⟨_, _, h4⟩ := h3; cases h4
      · simp only [LRes.fail.injEq] at h2
        have := failHere_eof h2
        subst this
        have hne : pre1 ≠ [] := by
          intro hp
          rw [hp] at hp1
          simp only [List.append_nil] at hp1
          rw [hp1] at hs
          simp [startsLineL, startsLine] at hs
        rw [hp1] at hn
        exact nl_contra_append hne hn1 hn
  | case3 => cases h

theorem reduceLinesLoc_eof (san : Sanitizer) (start stop : Loc) (ls : List MLine) (links : List LLink)
    (rest : List LCTok) (h : reduceLinesLoc san none start stop ls links rest = .fail .eof) : False := by
  unfold reduceLinesLoc at h
  split at h
  · split at h
    · cases h
    · cases LRes.bind_eof h with
      | inl h1 =>
        unfold sanitizeL at h1
        split at h1 <;> cases h1
      | inr h1 => obtain ⟨_, _, h2⟩ := h1; cases h2
  · rename_i hv
    simp only [LRes.fail.injEq] at h
    have := failHere_eof h
    subst this
    simp [validFollowerL, validFollower] at hv

theorem parseSectionLoc_eof (san : Sanitizer) (toks : List LCTok) (h : parseSectionLoc san none toks = .fail .eof)
    (hn : NlTail toks) : toks = [] := by
  unfold parseSectionLoc at h
  simp only at h
  cases LRes.bind_eof h with
  | inl hh =>
    split at hh
    · rename_i l' a rest0
      exfalso
      cases LRes.bind_eof hh with
      | inl h1 => exact parseCompsLoc_eof _ _ h1 hn.tail (by omega)
      | inr h1 =>
        obtain ⟨⟨cs, lk1, rest1⟩, h3, h4⟩ := h1
        obtain ⟨pre1, hp1, hn1⟩ := parseCompsLoc_pre _ _ _ _ _ _ h3
        simp only at h4
        split at h4
        · cases h4
        · simp only [LRes.fail.injEq] at h4
          have := failHere_eof h4
          subst this
          rw [hp1] at hn
          have hno : NoNl (⟨l', .colon, a⟩ :: pre1) := NoNl.cons (by simp) hn1
          exact nl_contra_append (pre := ⟨l', .colon, a⟩ :: pre1) (by simp) hno (by simpa using hn)
    · cases hh
    · simp only [LRes.fail.injEq] at hh
      exact failHere_eof hh
  | inr hh =>
    exfalso
    obtain ⟨⟨inl, lk, l, e, r⟩, hh, h2⟩ := hh
    have hr : r <:+ toks := by
      split at hh
      · rename_i l' a rest0
        obtain ⟨⟨cs, lk1, rest1⟩, h3, h4⟩ := LRes.bind_ok hh
        obtain ⟨j1, _⟩ := parseCompsLoc_ok _ _ _ _ _ _ h3
        simp only at h4
        split at h4
        · simp only [LRes.ok.injEq, Prod.mk.injEq] at h4
          obtain ⟨_, _, _, _, hr⟩ := h4
          subst hr
          exact List.IsSuffix.trans (List.suffix_cons _ _) (List.IsSuffix.trans j1 (List.suffix_cons _ _))
        · cases h4
      · simp only [LRes.ok.injEq, Prod.mk.injEq] at hh
        obtain ⟨_, _, _, _, hr⟩ := hh
        subst hr
        exact List.suffix_cons _ _
      · cases hh
    simp only at h2
    cases LRes.bind_eof h2 with
    | inl h5 => exact parseLinesLoc_eof _ _ _ h5 (NlTail.suffix hr hn) (by omega)
    | inr h5 =>
      obtain ⟨⟨ls, lk', stop, rest'⟩, h5, h6⟩ := h5
      simp only at h6
      cases LRes.bind_eof h6 with
      | inl h7 => exact reduceLinesLoc_eof _ _ _ _ _ _ h7
      | inr h7 => obtain ⟨_, _, h8⟩ := h7; cases h8

theorem parseBlocksLoc_eof (san : Sanitizer) (fuel : Nat) (c : LDoc) (toks : List LCTok)
    (h : parseBlocksLoc san none fuel c toks = .fail .eof) (hn : NlTail toks) (hf : toks.length < fuel) : False := by
  fun_induction parseBlocksLoc san none fuel c toks with
  | case1 => omega
  | case2 => cases h
  | case3 fuel c val hp => cases hp
  | case4 fuel c l a il id ie rest ih =>
    cases LRes.bind_eof h with
    | inl h1 =>
      have := parseSectionLoc_eof _ _ h1 hn.tail.tail
      subst this
      exact NlTail.not_single (t := ⟨il, .ident id, ie⟩) (by simp) hn.tail
    | inr h1 =>
      obtain ⟨⟨m, r⟩, h1, h2⟩ := h1
      obtain ⟨j1, _⟩ := parseSectionLoc_ok _ _ _ _ _ h1
      have hl := j1.length_le
      simp at hf
      exact ih m r h2 (NlTail.suffix j1 hn.tail.tail) (by omega)
  | case5 fuel c a b rest hne =>
    simp only [LRes.fail.injEq] at h
    have := failHere_eof h
    subst this
    exact NlTail.not_single (by simp) hn
  | case6 fuel c l a il id ie rest ih =>
    cases LRes.bind_eof h with
    | inl h1 =>
      have := parseSectionLoc_eof _ _ h1 hn.tail.tail
      subst this
      exact NlTail.not_single (t := ⟨il, .ident id, ie⟩) (by simp) hn.tail
    | inr h1 =>
      obtain ⟨⟨m, r⟩, h1, h2⟩ := h1
      obtain ⟨j1, _⟩ := parseSectionLoc_ok _ _ _ _ _ h1
      have hl := j1.length_le
      simp at hf
      exact ih m r h2 (NlTail.suffix j1 hn.tail.tail) (by omega)
  | case7 fuel c l a rest hne ih =>
    cases LRes.bind_eof h with
    | inl h1 =>
      have := parseSectionLoc_eof _ _ h1 hn.tail
      subst this
      exact NlTail.not_single (by simp) hn
    | inr h1 =>
      obtain ⟨⟨m, r⟩, h1, h2⟩ := h1
      obtain ⟨j1, _⟩ := parseSectionLoc_ok _ _ _ _ _ h1
      have hl := j1.length_le
      simp at hf
      exact ih m r h2 (NlTail.suffix j1 hn.tail) (by omega)
  | case8 fuel c l a rest ih =>
    cases LRes.bind_eof h with
    | inl h1 =>
      have := parseScopedIdLoc_eof _ h1 hn.tail
      subst this
      exact NlTail.not_single (by simp) hn
    | inr h1 =>
      obtain ⟨⟨id, sp, rest1⟩, h1, h2⟩ := h1
      obtain ⟨j1, _⟩ := parseScopedIdLoc_ok _ _ _ _ _ h1
      obtain ⟨pre1, hp1, hn1, hne1⟩ := parseScopedIdLoc_pre _ _ _ _ _ h1
      simp only at h2
      split at h2
      · rename_i x y r
        have hs : r <:+ rest := List.IsSuffix.trans (List.suffix_cons _ _) j1
        have hl := j1.length_le
        simp at hl hf
        split at h2
        · exact ih id sp r h2 (NlTail.suffix hs hn.tail) (by omega)
        · rename_i hv
          simp only [LRes.fail.injEq] at h2
          have := failHere_eof h2
          subst this
          simp [validFollowerL, validFollower] at hv
      · simp only [LRes.fail.injEq] at h2
        have := failHere_eof h2
        subst this
        rw [hp1] at hn
        exact nl_contra_append hne1 hn1 hn.tail
  | case9 fuel c toks hne =>
    simp only [LRes.fail.injEq] at h
    exact hne (failHere_eof h)

/-- an error-free stream ends in `Newline` -/
theorem lexCommentLoc_nlTail (ls : List CLine) (h : (lexCommentLoc ls).err = none) : NlTail (lexCommentLoc ls).toks := by
  induction ls with
  | nil => intro t ht; cases ht
  | cons l ls ih =>
    have hs := lexOneLineLoc_shape l
    unfold LineShape at hs
    simp only [lexCommentLoc] at h ⊢
    cases he : (lexOneLineLoc l).err with
    | some e => rw [he] at h; simp only at h; rw [he] at h; cases h
    | none =>
      rw [he] at hs h
      simp only at h ⊢
      obtain ⟨init, h1, _⟩ := hs
      intro t ht
      have ih' := ih h
      cases hr : (lexCommentLoc ls).toks with
      | nil =>
        rw [hr, List.append_nil, h1] at ht
        simp at ht
        rw [← ht]; rfl
      | cons a r =>
        rw [hr] at ht ih'
        rw [List.getLast?_append] at ht
        cases hq : (a :: r).getLast? with
        | none => simp at hq
        | some q => rw [hq] at ht; simp at ht; rw [← ht]; exact ih' q hq

/-- **the parser never runs out of tokens**: `UnrecognizedEof` is not a possible outcome -/
theorem parseCommentLocG_not_eof (san : Sanitizer) (lines : List CLine) : parseCommentLocG san lines ≠ .fail .eof := by
  intro h
  have hpend : (lexCommentLoc lines).err = none := parseCommentLocG_fail _ _ _ h
  have hn := lexCommentLoc_nlTail lines hpend
  unfold parseCommentLocG at h
  cases lines with
  | nil => cases h
  | cons l0 ls =>
    simp only at h
    generalize lexCommentLoc (l0 :: ls) = lx at h hpend hn
    rw [hpend] at h
    cases LRes.bind_eof h with
    | inl h1 => exact parseLinesLoc_eof _ _ _ h1 hn (by omega)
    | inr h1 =>
      obtain ⟨⟨mls, lk, stop, rest⟩, h1, h2⟩ := h1
      obtain ⟨j1, _, _⟩ := parseLinesLoc_ok _ _ _ _ _ _ _ _ h1
      cases LRes.bind_eof h2 with
      | inl h3 => exact reduceLinesLoc_eof _ _ _ _ _ _ h3
      | inr h3 =>
        obtain ⟨ov, h3, h4⟩ := h3
        cases LRes.bind_eof h4 with
        | inl h5 => exact absurd h5 (createDocComment_not_fail _ _ _)
        | inr h5 =>
          obtain ⟨c, _, h6⟩ := h5
          exact parseBlocksLoc_eof _ _ _ _ h6 (NlTail.suffix j1 hn) (by omega)

/-! ### membership of part spans -/

theorem msgOk_spans {toks : List LCTok} {m : LMsg} (h : MsgOk toks m) : ∀ s ∈ m.spans, SpOk toks s := by
  intro s hs
  simp only [LMsg.spans, List.mem_cons, List.mem_flatMap] at hs
  cases hs with
  | inl h1 => rw [h1]; exact h.1
  | inr h1 =>
    obtain ⟨l, hl, hs⟩ := h1
    simp only [List.mem_cons, List.not_mem_nil, or_false] at hs
    cases hs with
    | inl h2 => rw [h2]; exact (h.2 l hl).1
    | inr h2 => rw [h2]; exact (h.2 l hl).2

theorem tagOk_spans {toks : List LCTok} {t : LTag} (h : TagOk toks t) : ∀ s ∈ t.spans, SpOk toks s := by
  intro s hs
  simp only [LTag.spans, List.mem_cons, List.mem_append] at hs
  rcases hs with (h1 | h1) | h1
  · rw [h1]; exact h.1
  · cases hi : t.ident with
    | none => rw [hi] at h1; cases h1
    | some x =>
      obtain ⟨i, sp⟩ := x
      rw [hi] at h1
      simp only [List.mem_cons, List.not_mem_nil, or_false] at h1
      rw [h1]; exact h.2.1 i sp hi
  · exact msgOk_spans h.2.2 s h1

theorem link_id_mem_msg_spans {m : LMsg} {lk : LLink} (h : lk ∈ m.links) : lk.idSpan ∈ m.spans := by
  simp only [LMsg.spans, List.mem_cons, List.mem_flatMap]
  exact Or.inr ⟨lk, h, by simp⟩

theorem msg_spans_sub_tag {t : LTag} {s : Sp} (h : s ∈ t.message.spans) : s ∈ t.spans := by
  simp only [LTag.spans, List.mem_cons, List.mem_append]
  exact Or.inr h

theorem tag_span_mem (t : LTag) : t.span ∈ t.spans := by simp [LTag.spans]

theorem tag_msg_span_mem (t : LTag) : t.message.span ∈ t.spans := msg_spans_sub_tag (by simp [LMsg.spans])

theorem Sp.add_ends (a b : Sp) : ((a.add b).start = a.start ∨ (a.add b).start = b.start) ∧ ((a.add b).stop = a.stop ∨ (a.add b).stop = b.stop) := by
  unfold Sp.add
  constructor <;> (simp only; split <;> simp)

end Slicec.CLoc
