/-
  Lemmas for C20, events: the kind and the own/other-file flag of every callback are determined by its position.

  * `kindAt f p` — the kind of the element at position `p` (read off the last step; for a definition, off the definition).
  * `flagTy t self fuel sc fr ty p` — the flag with which position `p` below a reference (written as `ty` in scope `sc`,
    itself presented with flag `fr`) is presented: unchanged through written nesting; on passing through a name bound to
    an alias of an anonymous type it becomes "the alias chain ends in another file" (`exprFile t id sc != self`).
  * `flagAt t self f p` — the same read from the file: `false` for elements, `flagTy … false ty r` below an owner's reference.
  * `event_at_position` — every callback of a walk is `⟨kindAt f p, p, flagAt t self f p⟩` for its path `p`.
-/
import SlicecVerif.Lemmas.VisitComplete

namespace Slicec.Visit

open Slicec

/-! ## kinds -/

/-- the kind of callback a step stands for (a definition's kind depends on the definition) -/
def segKind : Seg → String
  | .file => "file" | .mod => "module" | .d _ => "definition" | .f _ => "field" | .o _ => "operation"
  | .p _ => "parameter" | .r _ => "parameter" | .e _ => "enumerator"
  | .t | .te | .tk | .tv | .ts | .tf => "typeref"

/-- the kind of the element at position `p` of file `f` -/
def kindAt (f : SFile) (p : Path) : String :=
  match p.getLast? with
  | some (.d j) => match f.defs[j]? with | some d => defKind d | none => ""
  | some s => segKind s
  | none => ""

/-! ## the own/other-file flag below a reference -/

def flagTy (t : Table) (self : Nat) (fuel : Nat) (sc : String) (fr : Bool) (ty : TyExpr) (p : Path) : Bool :=
  match p with
  | [] => fr
  | s :: p' =>
    match ty with
    | .named id =>
      match fuel with
      | 0 => fr
      | fuel' + 1 =>
        match resolveNamed t .type id sc with
        | .ok (.expr e s', _) => flagTy t self fuel' s' (exprFile t id sc != self) e (s :: p')
        | _ => fr
    | ty => match TyExpr.child ty s with | some c => flagTy t self fuel sc fr c p' | none => fr
termination_by (fuel, p.length)

theorem flagTy_nil (t : Table) (self fuel : Nat) (sc : String) (fr : Bool) (ty : TyExpr) :
    flagTy t self fuel sc fr ty [] = fr := by
  unfold flagTy; rfl

theorem flagTy_step (t : Table) (self fuel : Nat) (sc : String) (fr : Bool) (ty c : TyExpr) (s : Seg) (p : Path)
    (h : ∀ id, ty ≠ .named id) (hc : TyExpr.child ty s = some c) :
    flagTy t self fuel sc fr ty (s :: p) = flagTy t self fuel sc fr c p := by
  rw [flagTy.eq_def]
  cases ty with
  | named id => exact absurd rfl (h id)
  | prim pr => simp [child_prim] at hc
  | seq e => simp [hc]
  | dict k v => simp [hc]
  | result a b => simp [hc]

theorem flagTy_named (t : Table) (self fuel : Nat) (sc : String) (fr : Bool) (id : String) (e : TyExpr) (s' : String)
    (attrs : List Attr) (p : Path) (hp : p ≠ []) (hr : resolveNamed t .type id sc = .ok (.expr e s', attrs)) :
    flagTy t self (fuel + 1) sc fr (.named id) p = flagTy t self fuel s' (exprFile t id sc != self) e p := by
  cases p with
  | nil => exact absurd rfl hp
  | cons x p' => rw [flagTy.eq_def]; simp [hr]

/-- written nesting does not change the flag -/
theorem flagTy_declared (t : Table) (self fuel : Nat) (sc : String) (fr : Bool) :
    ∀ (p : Path) (ty : TyExpr), DeclaredTy ty p → flagTy t self fuel sc fr ty p = fr
  | [], ty, _ => flagTy_nil _ _ _ _ _ _
  | s :: p, ty, h => by
    obtain ⟨c, hc, hd⟩ := (declaredTy_step ty s p).mp h
    have hn : ∀ id, ty ≠ .named id := by
      intro id hid; subst hid; simp [child_named] at hc
    rw [flagTy_step _ _ _ _ _ _ c s p hn hc]
    exact flagTy_declared t self fuel sc fr p c hd

/-- the callbacks below a reference: type references at non-empty positions made of `.e .k .v .s .f`, flagged `flagTy` -/
theorem tyF_events (t : Table) (self fuel : Nat) (sc : String) (fr : Bool) (ty : TyExpr) :
    ∀ (q : Path) (e : PEvent), e ∈ flat q (tyF t self fuel sc fr ty) →
      ∃ r, r ≠ [] ∧ (∀ s ∈ r, 9 ≤ s.cls) ∧ e = ⟨"typeref", q ++ r, flagTy t self fuel sc fr ty r⟩ := by
  have one : ∀ (ty c : TyExpr) (s : Seg) (fuel : Nat) (sc : String) (fr : Bool), (∀ id, ty ≠ .named id) → TyExpr.child ty s = some c →
      9 ≤ s.cls →
      (∀ (q : Path) (e : PEvent), e ∈ flat q (tyF t self fuel sc fr c) →
        ∃ r, r ≠ [] ∧ (∀ s ∈ r, 9 ≤ s.cls) ∧ e = ⟨"typeref", q ++ r, flagTy t self fuel sc fr c r⟩) →
      ∀ (q : Path) (e : PEvent), (e = ⟨"typeref", q ++ [s], fr⟩ ∨ e ∈ flat (q ++ [s]) (tyF t self fuel sc fr c)) →
        ∃ r, r ≠ [] ∧ (∀ s ∈ r, 9 ≤ s.cls) ∧ e = ⟨"typeref", q ++ r, flagTy t self fuel sc fr ty r⟩ := by
    intro ty c s fuel sc fr hn hc hs ih q e he
    rcases he with rfl | he
    · exact ⟨[s], by simp, by simpa using hs, by rw [flagTy_step _ _ _ _ _ _ c s [] hn hc, flagTy_nil]⟩
    · obtain ⟨r, hr, hcls, rfl⟩ := ih _ e he
      refine ⟨s :: r, by simp, ?_, by rw [flagTy_step _ _ _ _ _ _ c s r hn hc]; simp⟩
      intro x hx
      rcases List.mem_cons.mp hx with rfl | hx
      · exact hs
      · exact hcls x hx
  fun_induction tyF t self fuel sc fr ty with
  | case1 fuel sc fr pr => intro q e he; simp [flat] at he
  | case2 fuel sc fr a x o ih =>
    intro q e he
    simp only [flat, List.append_nil, List.mem_cons] at he
    exact one _ x .te fuel sc fr (by intro id h; cases h) rfl (by decide) ih q e he
  | case3 fuel sc fr a k o a' v o' ihk ihv =>
    intro q e he
    simp only [flat, List.append_nil, List.mem_cons, List.mem_append, List.cons_append] at he
    rcases he with he | he | he | he
    · exact one _ k .tk fuel sc fr (by intro id h; cases h) rfl (by decide) ihk q e (Or.inl he)
    · exact one _ k .tk fuel sc fr (by intro id h; cases h) rfl (by decide) ihk q e (Or.inr he)
    · exact one _ v .tv fuel sc fr (by intro id h; cases h) rfl (by decide) ihv q e (Or.inl he)
    · exact one _ v .tv fuel sc fr (by intro id h; cases h) rfl (by decide) ihv q e (Or.inr he)
  | case4 fuel sc fr a k o a' v o' ihk ihv =>
    intro q e he
    simp only [flat, List.append_nil, List.mem_cons, List.mem_append, List.cons_append] at he
    rcases he with he | he | he | he
    · exact one _ k .ts fuel sc fr (by intro id h; cases h) rfl (by decide) ihk q e (Or.inl he)
    · exact one _ k .ts fuel sc fr (by intro id h; cases h) rfl (by decide) ihk q e (Or.inr he)
    · exact one _ v .tf fuel sc fr (by intro id h; cases h) rfl (by decide) ihv q e (Or.inl he)
    · exact one _ v .tf fuel sc fr (by intro id h; cases h) rfl (by decide) ihv q e (Or.inr he)
  | case5 sc fr id => intro q e he; simp [flat] at he
  | case6 fuel sc fr id e' s attrs h ih =>
    intro q e he
    obtain ⟨r, hr, hcls, rfl⟩ := ih q e he
    exact ⟨r, hr, hcls, by rw [flagTy_named _ _ _ _ _ _ _ _ _ _ hr h]⟩
  | case7 fuel sc fr id n attrs h => intro q e he; simp [flat] at he
  | case8 fuel sc fr id err h => intro q e he; simp [flat] at he

/-! ## every callback of a level is an element at a located position, or a type reference below a located owner -/

/-- what a callback `e` of a level walked at base path `q` is, in terms of the level's location function `loc`:
    an element (kind from its last step, own file) at a position `loc` finds, or a type reference at/below the reference
    of an owner `loc` finds, flagged by `flagTy` -/
def EvOK (c : Ctx) (loc : Path → Loc) (q : Path) (e : PEvent) : Prop :=
  (∃ r s, e = ⟨segKind s, q ++ r ++ [s], false⟩ ∧ loc (r ++ [s]) = .elem ∧ (∀ j, s ≠ .d j)) ∨
  (∃ r ty r', loc (r ++ [.t]) = .ref ty [] ∧ (∀ s ∈ r', 9 ≤ s.cls) ∧
    e = ⟨"typeref", q ++ r ++ .t :: r', flagTy c.table c.self c.fuel c.scope false ty r'⟩)

theorem evOK_lift {c : Ctx} {loc loc' : Path → Loc} (s : Seg) (h : ∀ p', loc' (s :: p') = loc p') {q : Path} {e : PEvent}
    (he : EvOK c loc (q ++ [s]) e) : EvOK c loc' q e := by
  rcases he with ⟨r, x, rfl, hl, hx⟩ | ⟨r, ty, r', hl, hcls, rfl⟩
  · exact Or.inl ⟨s :: r, x, by simp, by rw [List.cons_append, h]; exact hl, hx⟩
  · exact Or.inr ⟨s :: r, ty, r', by rw [List.cons_append, h]; exact hl, hcls, by simp⟩

theorem evOK_same {c : Ctx} {loc loc' : Path → Loc} (h : ∀ p, p ≠ [] → loc' p = loc p) {q : Path} {e : PEvent}
    (he : EvOK c loc q e) : EvOK c loc' q e := by
  rcases he with ⟨r, x, rfl, hl, hx⟩ | ⟨r, ty, r', hl, hcls, rfl⟩
  · exact Or.inl ⟨r, x, rfl, by rw [h _ (by simp)]; exact hl, hx⟩
  · exact Or.inr ⟨r, ty, r', by rw [h _ (by simp)]; exact hl, hcls, rfl⟩

theorem idxF_events {α} (seg : Nat → Seg) (kind : α → String) (ch : α → Forest) :
    ∀ (xs : List α) (i : Nat) (q : Path) (e : PEvent), e ∈ flat q (idxF seg kind ch i xs) →
      ∃ k x, xs[k]? = some x ∧ (e = ⟨kind x, q ++ [seg (i + k)], false⟩ ∨ e ∈ flat (q ++ [seg (i + k)]) (ch x))
  | [], _, _, _, h => by simp [idxF, flat] at h
  | x :: xs, i, q, e, h => by
    simp only [idxF, flat, List.cons_append, List.mem_cons, List.mem_append] at h
    rcases h with h | h | h
    · exact ⟨0, x, by simp, Or.inl h⟩
    · exact ⟨0, x, by simp, Or.inr h⟩
    · obtain ⟨k, y, hk, hy⟩ := idxF_events seg kind ch xs (i + 1) q e h
      exact ⟨k + 1, y, by simpa using hk, by rw [← Nat.add_assoc, Nat.add_right_comm]; exact hy⟩

theorem owner_events (c : Ctx) (ty : TRef) (q : Path) (e : PEvent) (h : e ∈ flat q (c.tref ty)) : EvOK c (locOwner ty) q e := by
  simp only [Ctx.tref, trefF, flat, List.append_nil, List.mem_cons] at h
  right
  rcases h with rfl | h
  · exact ⟨[], ty.ty, [], by simp [locOwner], by simp, by simp [flagTy_nil]⟩
  · obtain ⟨r, _, hcls, rfl⟩ := tyF_events _ _ _ _ _ _ _ e h
    exact ⟨[], ty.ty, r, by simp [locOwner], hcls, by simp⟩

theorem fields_events (c : Ctx) (fs : List Field) (q : Path) (e : PEvent) (h : e ∈ flat q (fieldsF c fs)) :
    EvOK c (locFields fs) q e := by
  obtain ⟨k, fl, hk, he⟩ := idxF_events _ _ _ fs 0 q e h
  rw [Nat.zero_add] at he
  rcases he with rfl | he
  · exact Or.inl ⟨[], .f k, by simp [segKind], by simp [locFields, hk, locOwner], by intro j hj; cases hj⟩
  · exact evOK_lift (.f k) (fun p' => by simp [locFields, hk]) (owner_events c fl.ty _ e he)

theorem params_events (c : Ctx) (seg : Nat → Seg) (ps : List Param)
    (q : Path) (e : PEvent) (h : e ∈ flat q (paramsF c seg ps)) :
    ∃ k, (e = ⟨"parameter", q ++ [seg k], false⟩ ∧ locParams ps k [] = .elem) ∨ EvOK c (locParams ps k) (q ++ [seg k]) e := by
  obtain ⟨k, pa, hk, he⟩ := idxF_events _ _ _ ps 0 q e h
  rw [Nat.zero_add] at he
  refine ⟨k, ?_⟩
  rcases he with rfl | he
  · exact Or.inl ⟨rfl, by simp [locParams, hk, locOwner]⟩
  · right
    have e' : locParams ps k = locOwner pa.ty := by funext p; simp [locParams, hk]
    rw [e']
    exact owner_events c pa.ty _ e he

theorem op_events (c : Ctx) (o : Op) (q : Path) (e : PEvent) (h : e ∈ flat q (opF c o)) : EvOK c (locOp o) q e := by
  unfold opF at h
  rw [flat_append, List.mem_append] at h
  rcases h with h | h
  · obtain ⟨k, he⟩ := params_events c .p _ q e h
    rcases he with ⟨rfl, hl⟩ | he
    · exact Or.inl ⟨[], .p k, by simp [segKind], by simpa [locOp] using hl, by intro j hj; cases hj⟩
    · exact evOK_lift (.p k) (fun p' => by simp [locOp]) he
  · obtain ⟨k, he⟩ := params_events c .r _ q e h
    rcases he with ⟨rfl, hl⟩ | he
    · exact Or.inl ⟨[], .r k, by simp [segKind], by simpa [locOp] using hl, by intro j hj; cases hj⟩
    · exact evOK_lift (.r k) (fun p' => by simp [locOp]) he

theorem enumerator_events (c : Ctx) (en : Enumerator) (q : Path) (e : PEvent) (h : e ∈ flat q (enumeratorF c en)) :
    EvOK c (locEnumerator en) q e := by
  unfold enumeratorF at h
  cases hf : en.fields with
  | none => simp [hf, flat] at h
  | some fs =>
    simp only [hf] at h
    refine evOK_same (fun p hp => ?_) (fields_events c fs q e h)
    cases p with
    | nil => exact absurd rfl hp
    | cons s tl => simp [locEnumerator, hf]

theorem def_events (c : Ctx) (d : Def) (q : Path) (e : PEvent) (h : e ∈ flat q (defF c d)) : EvOK c (locDef d) q e := by
  cases d with
  | struct _ _ _ _ fs =>
    refine evOK_same (fun p hp => ?_) (fields_events c fs q e h)
    cases p with
    | nil => exact absurd rfl hp
    | cons s tl => simp [locDef]
  | iface _ _ _ _ ops =>
    obtain ⟨k, o, hk, he⟩ := idxF_events _ _ _ ops 0 q e h
    rw [Nat.zero_add] at he
    rcases he with rfl | he
    · exact Or.inl ⟨[], .o k, by simp [segKind], by simp [locDef, hk, locOp], by intro j hj; cases hj⟩
    · exact evOK_lift (.o k) (fun p' => by simp [locDef, hk]) (op_events c o _ e he)
  | «enum» _ _ _ _ _ _ es =>
    obtain ⟨k, en, hk, he⟩ := idxF_events _ _ _ es 0 q e h
    rw [Nat.zero_add] at he
    rcases he with rfl | he
    · exact Or.inl ⟨[], .e k, by simp [segKind], by simp [locDef, hk, locEnumerator], by intro j hj; cases hj⟩
    · exact evOK_lift (.e k) (fun p' => by simp [locDef, hk]) (enumerator_events c en _ e he)
  | custom _ _ _ => simp [defF, flat] at h
  | «alias» _ _ _ ty =>
    refine evOK_same (fun p hp => ?_) (owner_events c ty q e h)
    cases p with
    | nil => exact absurd rfl hp
    | cons s tl => cases s <;> simp [locDef, locOwner]

/-- every callback of the walk of a file: the file, the module, a definition, or what `EvOK` says with `locate` -/
theorem file_events (c : Ctx) (f : SFile) (e : PEvent) (h : e ∈ flat [] (fileF c f)) :
    e = ⟨"file", [.file], false⟩ ∨ (e = ⟨"module", [.mod], false⟩ ∧ f.module.isSome) ∨
    (∃ j d, f.defs[j]? = some d ∧ e = ⟨defKind d, [.d j], false⟩) ∨ EvOK c (locate f) [] e := by
  unfold fileF at h
  simp only [flat, List.nil_append, List.mem_cons, List.mem_append, flat_append] at h
  rcases h with (h | h) | h | h
  · exact Or.inl h
  · cases h
  · cases hm : f.module with
    | none => simp [hm, flat] at h
    | some m =>
      simp [hm, flat] at h
      exact Or.inr (Or.inl ⟨h, rfl⟩)
  · obtain ⟨j, d, hj, he⟩ := idxF_events _ _ _ f.defs 0 [] e h
    rw [Nat.zero_add] at he
    rcases he with rfl | he
    · exact Or.inr (Or.inr (Or.inl ⟨j, d, hj, rfl⟩))
    · exact Or.inr (Or.inr (Or.inr (evOK_lift (.d j) (fun p' => by simp [locate, hj]) (def_events c d _ e he))))

/-! ## the event at a position -/

/-- the own/other-file flag of the callback at position `p`: elements are own; below the reference of an owner it is `flagTy`
    started with "own" -/
def flagAt (t : Table) (self : Nat) (f : SFile) (p : Path) : Bool :=
  match locate f p with
  | .ref ty r => flagTy t self (visitFuel t) (fileScope f) false ty r
  | _ => false

theorem kindAt_snoc (f : SFile) (p : Path) (s : Seg) (h : ∀ j, s ≠ .d j) : kindAt f (p ++ [s]) = segKind s := by
  unfold kindAt
  rw [List.getLast?_append]
  cases s <;> first | rfl | exact absurd rfl (h _)

/-- **every callback is the event of its position** -/
theorem event_at_position (t : Table) (self : Nat) (f : SFile) (e : PEvent) (h : e ∈ visitP t self f) :
    e = ⟨kindAt f e.path, e.path, flagAt t self f e.path⟩ := by
  rcases file_events _ f e h with rfl | ⟨rfl, hm⟩ | ⟨j, d, hj, rfl⟩ | he
  · simp [kindAt, segKind, flagAt, locate]
  · cases hm' : f.module with
    | none => simp [hm'] at hm
    | some m => simp [kindAt, segKind, flagAt, locate, hm']
  · simp [kindAt, hj, flagAt, locate, locDef]
  · rcases he with ⟨r, s, rfl, hl, hs⟩ | ⟨r, ty, r', hl, hcls, rfl⟩
    · simp only [List.nil_append] at hl ⊢
      rw [kindAt_snoc f r s hs]
      simp [flagAt, hl]
    · simp only [List.nil_append] at hl ⊢
      obtain ⟨q0, hq0, hq⟩ := rooted_locate f _ ty [] hl
      have : q0 = r := by
        have := List.append_inj_left' hq0 rfl
        exact this.symm
      subst this
      have hk : kindAt f (q0 ++ .t :: r') = "typeref" := by
        have hne : (Seg.t :: r') ≠ [] := by simp
        have : q0 ++ .t :: r' = (q0 ++ (Seg.t :: r').dropLast) ++ [(Seg.t :: r').getLast hne] := by
          rw [List.append_assoc, List.dropLast_concat_getLast]
        rw [this, kindAt_snoc]
        · have hm := List.getLast_mem hne
          rcases List.mem_cons.mp hm with h' | h'
          · rw [h']; rfl
          · have := hcls _ h'
            revert this
            cases (Seg.t :: r').getLast hne <;> simp [Seg.cls, segKind]
        · intro j hj
          have hm := List.getLast_mem hne
          rw [hj] at hm
          rcases List.mem_cons.mp hm with h' | h'
          · cases h'
          · have := hcls _ h'; simp [Seg.cls] at this
      simp [hk, flagAt, hq r', ctxOf]

/-- a declared position is presented as "own file" -/
theorem flagAt_declared (t : Table) (self : Nat) (f : SFile) (p : Path) (h : Declared f p) : flagAt t self f p = false := by
  rw [declared_iff_locate] at h
  unfold flagAt
  cases hl : locate f p with
  | elem => rfl
  | none => rfl
  | ref ty r =>
    simp only [hl, Loc.sat] at h
    exact flagTy_declared _ _ _ _ _ r ty h

/-- below a written position the flag is the flag below the type expression written there -/
theorem flagTy_append (t : Table) (self fuel : Nat) (sc : String) (fr : Bool) :
    ∀ (a : Path) (ty ty' : TyExpr) (tl : Path), subTy ty a = some ty' → tl ≠ [] →
      flagTy t self fuel sc fr ty (a ++ tl) = flagTy t self fuel sc fr ty' tl
  | [], ty, ty', tl, h, _ => by simp [subTy_nil] at h; subst h; rfl
  | s :: a, ty, ty', tl, h, htl => by
    rw [subTy_cons] at h
    cases hc : TyExpr.child ty s with
    | none => simp [hc] at h
    | some c =>
      simp only [hc] at h
      have hn : ∀ id, ty ≠ .named id := by intro id hid; subst hid; simp [child_named] at hc
      rw [List.cons_append, flagTy_step _ _ _ _ _ _ c s _ hn hc]
      exact flagTy_append t self fuel sc fr a c ty' tl h htl

/-- the flag of an alias-descended position: started with "the alias chain of the written name ends in another file" and
    continued inside the anonymous type -/
theorem flagAt_below (t : Table) (self : Nat) (f : SFile) (q tl : Path) (id : String) (e : TyExpr) (s : String) (attrs : List Attr)
    (hq : refAt f q = some (.named id)) (hr : resolveNamed t .type id (fileScope f) = .ok (.expr e s, attrs)) (htl : tl ≠ []) :
    flagAt t self f (q ++ tl) = flagTy t self (numAliases t) s (exprFile t id (fileScope f) != self) e tl := by
  obtain ⟨ty, a, _, hs, hb⟩ := refAt_locate hq
  unfold flagAt
  rw [hb tl]
  simp only
  rw [flagTy_append _ _ _ _ _ a ty _ tl hs htl]
  exact flagTy_named _ _ _ _ _ _ _ _ _ _ htl hr

end Slicec.Visit
