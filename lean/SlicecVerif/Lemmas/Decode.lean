import SlicecVerif.Lemmas.Codec
namespace Slicec

/-- `rest` is what is left of `bs` after consuming a prefix -/
def Pfx (bs rest : Bytes) : Prop := ∃ pre, bs = pre ++ rest
/-- ... a non-empty prefix -/
def SPfx (bs rest : Bytes) : Prop := ∃ pre, pre ≠ [] ∧ bs = pre ++ rest

theorem SPfx.pfx {bs rest : Bytes} (h : SPfx bs rest) : Pfx bs rest := let ⟨p, _, e⟩ := h; ⟨p, e⟩
theorem Pfx.refl (bs : Bytes) : Pfx bs bs := ⟨[], rfl⟩
theorem Pfx.trans {a b c : Bytes} (h1 : Pfx a b) (h2 : Pfx b c) : Pfx a c := by
  obtain ⟨p, rfl⟩ := h1; obtain ⟨q, rfl⟩ := h2; exact ⟨p ++ q, by simp⟩
theorem SPfx.trans_pfx {a b c : Bytes} (h1 : SPfx a b) (h2 : Pfx b c) : SPfx a c := by
  obtain ⟨p, hp, rfl⟩ := h1; obtain ⟨q, rfl⟩ := h2
  exact ⟨p ++ q, by simp [hp], by simp⟩
theorem Pfx.trans_spfx {a b c : Bytes} (h1 : Pfx a b) (h2 : SPfx b c) : SPfx a c := by
  obtain ⟨p, rfl⟩ := h1; obtain ⟨q, hq, rfl⟩ := h2
  exact ⟨p ++ q, by simp [hq], by simp⟩
theorem SPfx.length_lt {a b : Bytes} (h : SPfx a b) : b.length < a.length := by
  obtain ⟨p, hp, rfl⟩ := h
  have : 0 < p.length := List.length_pos_iff.mpr hp
  simp; omega
theorem Pfx.length_le {a b : Bytes} (h : Pfx a b) : b.length ≤ a.length := by
  obtain ⟨p, rfl⟩ := h; simp

theorem readN_pfx (n : Nat) (bs raw rest : Bytes) (h : readN n bs = .ok (raw, rest)) :
    bs = raw ++ rest ∧ raw.length = n := by
  unfold readN at h
  split at h
  · simp at h
  · simp at h; obtain ⟨rfl, rfl⟩ := h
    simp; omega

theorem readN_spfx (n : Nat) (hn : 0 < n) (bs raw rest : Bytes) (h : readN n bs = .ok (raw, rest)) :
    SPfx bs rest := by
  obtain ⟨e, hl⟩ := readN_pfx n bs raw rest h
  exact ⟨raw, by intro h0; subst h0; simp at hl; omega, e⟩

theorem lookupWidth_pos_u (c w : Nat) (s : Bool) (h : lookupWidth Gen.varuintDecode c = some (w, s)) : 0 < w := by
  unfold lookupWidth at h
  simp only [Gen.varuintDecode, List.find?_cons, List.find?_nil] at h
  repeat' split at h
  all_goals simp at h
  all_goals omega

theorem lookupWidth_pos_s (c w : Nat) (s : Bool) (h : lookupWidth Gen.varintDecode c = some (w, s)) : 0 < w := by
  unfold lookupWidth at h
  simp only [Gen.varintDecode, List.find?_cons, List.find?_nil] at h
  repeat' split at h
  all_goals simp at h
  all_goals omega

theorem decVaruintRaw_spfx (bs : Bytes) (v : Nat) (rest : Bytes) (h : decVaruintRaw bs = .ok (v, rest)) :
    SPfx bs rest := by
  unfold decVaruintRaw at h
  split at h
  · simp at h
  · split at h
    · simp at h
    · rename_i w s hl
      split at h
      · simp at h
      · rename_i raw r hr
        simp at h; obtain ⟨_, rfl⟩ := h
        exact readN_spfx w (lookupWidth_pos_u _ _ _ hl) _ _ _ hr

theorem decVarintRaw_spfx (bs : Bytes) (v : Int) (rest : Bytes) (h : decVarintRaw bs = .ok (v, rest)) :
    SPfx bs rest := by
  unfold decVarintRaw at h
  split at h
  · simp at h
  · split at h
    · simp at h
    · rename_i w s hl
      split at h
      · simp at h
      · rename_i raw r hr
        simp at h; obtain ⟨_, rfl⟩ := h
        exact readN_spfx w (lookupWidth_pos_s _ _ _ hl) _ _ _ hr

theorem narrow_ok (lo hi : Int) (r : Dec Int) (v : Int) (rest : Bytes) (h : narrow lo hi r = .ok (v, rest)) :
    r = .ok (v, rest) ∧ lo ≤ v ∧ v ≤ hi := by
  unfold narrow at h
  split at h
  · simp at h
  · split at h
    · simp at h; obtain ⟨rfl, rfl⟩ := h; exact ⟨rfl, ‹_›⟩
    · simp at h

theorem decVaruintRawI_ok (bs : Bytes) (v : Int) (rest : Bytes) (h : decVaruintRawI bs = .ok (v, rest)) :
    ∃ n : Nat, decVaruintRaw bs = .ok (n, rest) ∧ v = n := by
  unfold decVaruintRawI at h
  split at h
  · simp at h
  · rename_i n r hn
    simp at h; obtain ⟨rfl, rfl⟩ := h; exact ⟨n, hn, rfl⟩

theorem decList_pfx {α} (dec : Bytes → Dec α) (n : Nat) (bs : Bytes) (xs : List α) (rest : Bytes)
    (hp : ∀ b x r, dec b = .ok (x, r) → SPfx b r)
    (h : decList dec n bs = .ok (xs, rest)) : Pfx bs rest ∧ xs.length = n ∧ xs.length ≤ bs.length - rest.length := by
  induction n generalizing bs xs with
  | zero => simp [decList] at h; obtain ⟨rfl, rfl⟩ := h; exact ⟨Pfx.refl _, rfl, by simp⟩
  | succ n ih =>
    unfold decList at h
    split at h
    · simp at h
    · rename_i x r hx
      split at h
      · simp at h
      · rename_i xs' r' hxs
        simp at h; obtain ⟨rfl, rfl⟩ := h
        have h1 := hp _ _ _ hx
        obtain ⟨h2, h3, h4⟩ := ih r xs' hxs
        refine ⟨h1.pfx.trans h2, by simp [h3], ?_⟩
        have := h1.length_lt; have := h2.length_le
        simp; omega

theorem decPair_spfx {α β} (dk : Bytes → Dec α) (dv : Bytes → Dec β) (bs : Bytes) (p : α × β) (rest : Bytes)
    (hk : ∀ b x r, dk b = .ok (x, r) → SPfx b r) (hv : ∀ b x r, dv b = .ok (x, r) → SPfx b r)
    (h : decPair dk dv bs = .ok (p, rest)) : SPfx bs rest := by
  unfold decPair at h
  split at h
  · simp at h
  · rename_i k r hk'
    split at h
    · simp at h
    · rename_i v r' hv'
      simp at h; obtain ⟨_, rfl⟩ := h
      exact (hk _ _ _ hk').trans_pfx (hv _ _ _ hv').pfx

theorem decEntries_pfx {α β} [DecidableEq α] (dk : Bytes → Dec α) (dv : Bytes → Dec β) (n : Nat) (seen : List α)
    (bs : Bytes) (es : List (α × β)) (rest : Bytes)
    (hk : ∀ b x r, dk b = .ok (x, r) → SPfx b r) (hv : ∀ b x r, dv b = .ok (x, r) → SPfx b r)
    (h : decEntries dk dv n seen bs = .ok (es, rest)) :
    Pfx bs rest ∧ es.length = n ∧ (es.map Prod.fst).Nodup ∧ (∀ p ∈ es, p.1 ∉ seen) := by
  induction n generalizing bs es seen with
  | zero => simp [decEntries] at h; obtain ⟨rfl, rfl⟩ := h; exact ⟨Pfx.refl _, rfl, by simp, by simp⟩
  | succ n ih =>
    unfold decEntries at h
    split at h
    · simp at h
    · rename_i k v r hp
      split at h
      · simp at h
      · rename_i hns
        split at h
        · simp at h
        · rename_i es' r' hes
          simp at h; obtain ⟨rfl, rfl⟩ := h
          obtain ⟨h1, h2, h3, h4⟩ := ih (k :: seen) r es' hes
          refine ⟨(decPair_spfx dk dv _ _ _ hk hv hp).pfx.trans h1, by simp [h2], ?_, ?_⟩
          · simp only [List.map_cons, List.nodup_cons]
            refine ⟨?_, h3⟩
            intro hm
            obtain ⟨q, hq, hqk⟩ := List.mem_map.mp hm
            exact h4 q hq (by rw [hqk]; simp)
          · intro p hp'
            simp only [List.mem_cons] at hp'
            rcases hp' with rfl | hp'
            · exact hns
            · intro hs; exact h4 p hp' (by simp [hs])



theorem fixed_spfx (w : Width) : 0 < w.n := by cases w <;> simp [Width.n]

theorem decode_spfx (t : Ty) : ∀ (bs : Bytes) (v : Val t) (rest : Bytes), decode t bs = .ok (v, rest) → SPfx bs rest := by
  induction t with
  | bool =>
    intro bs v rest h
    change decBool bs = _ at h
    unfold decBool at h
    split at h
    · simp at h
    · rename_i b r
      repeat' split at h
      all_goals simp at h
      all_goals (obtain ⟨_, rfl⟩ := h; exact ⟨[b], by simp, rfl⟩)
  | uint w =>
    intro bs v rest h
    change decFixedU w.n bs = _ at h
    unfold decFixedU at h
    split at h
    · simp at h
    · rename_i raw r hr
      simp at h; obtain ⟨_, rfl⟩ := h
      exact readN_spfx _ (fixed_spfx w) _ _ _ hr
  | sint w =>
    intro bs v rest h
    change decFixedS w.n bs = _ at h
    unfold decFixedS at h
    split at h
    · simp at h
    · rename_i raw r hr
      simp at h; obtain ⟨_, rfl⟩ := h
      exact readN_spfx _ (fixed_spfx w) _ _ _ hr
  | f32 =>
    intro bs v rest h
    change decBits 4 bs = _ at h
    unfold decBits at h
    split at h
    · simp at h
    · rename_i raw r hr
      simp at h; obtain ⟨_, rfl⟩ := h
      exact readN_spfx _ (by decide) _ _ _ hr
  | f64 =>
    intro bs v rest h
    change decBits 8 bs = _ at h
    unfold decBits at h
    split at h
    · simp at h
    · rename_i raw r hr
      simp at h; obtain ⟨_, rfl⟩ := h
      exact readN_spfx _ (by decide) _ _ _ hr
  | varint32 =>
    intro bs v rest h
    exact decVarintRaw_spfx _ _ _ (narrow_ok _ _ _ _ _ h).1
  | varuint32 =>
    intro bs v rest h
    obtain ⟨n, hn, _⟩ := decVaruintRawI_ok _ _ _ (narrow_ok _ _ _ _ _ h).1
    exact decVaruintRaw_spfx _ _ _ hn
  | varint62 => intro bs v rest h; exact decVarintRaw_spfx _ _ _ h
  | varuint62 =>
    intro bs v rest h
    obtain ⟨n, hn, _⟩ := decVaruintRawI_ok _ _ _ h
    exact decVaruintRaw_spfx _ _ _ hn
  | size =>
    intro bs v rest h
    obtain ⟨n, hn, _⟩ := decVaruintRawI_ok _ _ _ h
    exact decVaruintRaw_spfx _ _ _ hn
  | str =>
    intro bs v rest h
    change decStr bs = _ at h
    unfold decStr at h
    split at h
    · simp at h
    · rename_i n r hn
      split at h
      · simp at h
      · rename_i raw r' hr
        split at h
        · simp at h; obtain ⟨rfl, rfl⟩ := h
          obtain ⟨e, _⟩ := readN_pfx _ _ _ _ hr
          exact (decVaruintRaw_spfx _ _ _ hn).trans_pfx ⟨_, e⟩
        · simp at h
  | seq t ih =>
    intro bs v rest h
    simp only [decode] at h
    split at h
    · simp at h
    · rename_i n r hn
      exact (decVaruintRaw_spfx _ _ _ hn).trans_pfx (decList_pfx _ _ _ _ _ ih h).1
  | dictB k v ihk ihv =>
    intro bs es rest h
    simp only [decode] at h
    split at h
    · simp at h
    · rename_i n r hn
      exact (decVaruintRaw_spfx _ _ _ hn).trans_pfx (decEntries_pfx _ _ _ _ _ _ _ ihk ihv h).1
  | dictH k v ihk ihv =>
    intro bs es rest h
    simp only [decode] at h
    split at h
    · simp at h
    · rename_i n r hn
      exact (decVaruintRaw_spfx _ _ _ hn).trans_pfx (decEntries_pfx _ _ _ _ _ _ _ ihk ihv h).1

/-- number of element decodes attempted by the sequence loop -/
def decListCalls {α} (dec : Bytes → Dec α) : Nat → Bytes → Nat
  | 0, _ => 0
  | n + 1, bs =>
    match dec bs with
    | .error _ => 1
    | .ok (_, rest) => 1 + decListCalls dec n rest

theorem decListCalls_le {α} (dec : Bytes → Dec α) (hp : ∀ b x r, dec b = .ok (x, r) → SPfx b r)
    (n : Nat) (bs : Bytes) : decListCalls dec n bs ≤ bs.length + 1 := by
  induction n generalizing bs with
  | zero => simp [decListCalls]
  | succ n ih =>
    unfold decListCalls
    split
    · omega
    · rename_i x r hx
      have := (hp _ _ _ hx).length_lt
      have := ih r
      omega

theorem skipTagged_fuel (f1 : Nat) : ∀ (f2 : Nat) (bs : Bytes), bs.length < f1 → bs.length < f2 →
    skipTagged f1 bs = skipTagged f2 bs := by
  induction f1 with
  | zero => intro f2 bs h; omega
  | succ f ih =>
    intro f2 bs h1 h2
    obtain ⟨g, rfl⟩ : ∃ g, f2 = g + 1 := ⟨f2 - 1, by omega⟩
    unfold skipTagged
    split
    · rfl
    · rename_i tag rest ht
      split
      · rfl
      · split
        · rfl
        · rename_i n rest' hn
          split
          · rfl
          · rename_i raw rest'' hr
            have l1 := (decVarintRaw_spfx _ _ _ (narrow_ok _ _ _ _ _ ht).1).length_lt
            have l2 := (decVaruintRaw_spfx _ _ _ hn).length_lt
            have l3 := (Pfx.length_le ⟨raw, (readN_pfx _ _ _ _ hr).1⟩ : rest''.length ≤ rest'.length)
            exact ih g rest'' (by omega) (by omega)

end Slicec
