/-
  Lemmas for C03: scoped-identifier strings (split / join round trip, injectivity of `joinSegs`),
  the table (`Table.find` vs membership), the lookup loop against the segment-level specification.
-/
import SlicecVerif.Model.Bind

namespace Slicec

/-! ### characters -/

theorem splitAux_nil (acc : List Char) : splitAux acc [] = [acc] := by simp [splitAux]

theorem splitAux_sep (acc rest : List Char) : splitAux acc (':' :: ':' :: rest) = acc :: splitAux [] rest := by
  simp [splitAux]

theorem splitAux_cons_ne (acc : List Char) (c : Char) (rest : List Char) (h : c ≠ ':') :
    splitAux acc (c :: rest) = splitAux (acc ++ [c]) rest := by
  rw [splitAux]
  intro _ hc _
  exact h hc

/-- a run of characters without `':'` is swallowed into the current segment -/
theorem splitAux_run (s : List Char) (hs : ':' ∉ s) (acc tail : List Char) :
    splitAux acc (s ++ tail) = splitAux (acc ++ s) tail := by
  induction s generalizing acc with
  | nil => simp
  | cons c s ih =>
    have hc : c ≠ ':' := by intro h; apply hs; simp [h]
    have hs' : ':' ∉ s := by intro h; apply hs; simp [h]
    rw [List.cons_append, splitAux_cons_ne _ _ _ hc, ih hs']
    simp

/-- a well-formed identifier segment: non-empty, no colon inside -/
def SegOK (s : String) : Prop := s ≠ "" ∧ ':' ∉ s.toList

/-- a well-formed scoped identifier as a segment list -/
def PathOK (l : List String) : Prop := l ≠ [] ∧ ∀ s ∈ l, SegOK s

theorem joinSegs_cons2 (a b : String) (r : List String) : joinSegs (a :: b :: r) = a ++ "::" ++ joinSegs (b :: r) := rfl

theorem toList_colons : ("::" : String).toList = [':', ':'] := by decide

theorem splitAux_join (l : List String) (hne : l ≠ []) (hl : ∀ s ∈ l, ':' ∉ s.toList) :
    splitAux [] (joinSegs l).toList = l.map String.toList := by
  induction l with
  | nil => exact absurd rfl hne
  | cons a r ih =>
    cases r with
    | nil =>
      have := splitAux_run a.toList (hl a (by simp)) [] []
      simp [joinSegs] at this ⊢
      rw [this, splitAux_nil]
    | cons b r =>
      rw [joinSegs_cons2, String.toList_append, String.toList_append, toList_colons, List.append_assoc,
        splitAux_run a.toList (hl a (by simp))]
      simp only [List.nil_append, List.cons_append, splitAux_sep, List.map_cons]
      rw [ih (by simp) (fun s hs => hl s (by simp [hs]))]
      simp

theorem splitSegs_join (l : List String) (hne : l ≠ []) (hl : ∀ s ∈ l, ':' ∉ s.toList) :
    splitSegs (joinSegs l) = l := by
  unfold splitSegs
  rw [splitAux_join l hne hl, List.map_map]
  have : (String.ofList ∘ String.toList) = id := by funext s; simp
  rw [this]; simp

theorem splitSegs_empty : splitSegs "" = [""] := by decide

theorem joinSegs_inj (a b : List String) (ha : PathOK a) (hb : PathOK b) (h : joinSegs a = joinSegs b) : a = b := by
  have h1 := splitSegs_join a ha.1 (fun s hs => (ha.2 s hs).2)
  have h2 := splitSegs_join b hb.1 (fun s hs => (hb.2 s hs).2)
  rw [← h1, ← h2, h]

end Slicec

namespace Slicec

theorem stripGlobal_global (s : String) : stripGlobal ("::" ++ s) = some s := by
  unfold stripGlobal
  rw [String.toList_append, toList_colons]
  simp

theorem joinSegs_toList_cons (a : String) (r : List String) : ∃ tl, (joinSegs (a :: r)).toList = a.toList ++ tl := by
  cases r with
  | nil => exact ⟨[], by simp [joinSegs]⟩
  | cons b r => exact ⟨[':', ':'] ++ (joinSegs (b :: r)).toList, by rw [joinSegs_cons2]; simp [String.toList_append, toList_colons]⟩

theorem stripGlobal_path (l : List String) (h : PathOK l) : stripGlobal (joinSegs l) = none := by
  obtain ⟨hne, hall⟩ := h
  cases l with
  | nil => exact absurd rfl hne
  | cons a r =>
    obtain ⟨tl, htl⟩ := joinSegs_toList_cons a r
    have ha := hall a (by simp)
    unfold stripGlobal
    rw [htl]
    cases hc : a.toList with
    | nil => exact absurd (String.toList_eq_nil_iff.mp hc) ha.1
    | cons c cs =>
      have : c ≠ ':' := by intro h; apply ha.2; rw [hc, h]; simp
      split
      · rename_i heq; simp at heq; exact absurd heq.1 this
      · rfl

theorem joinSegs_append (p id : List String) (hp : p ≠ []) (hid : id ≠ []) :
    joinSegs p ++ "::" ++ joinSegs id = joinSegs (p ++ id) := by
  induction p with
  | nil => exact absurd rfl hp
  | cons a r ih =>
    cases r with
    | nil =>
      cases id with
      | nil => exact absurd rfl hid
      | cons b r => simp [joinSegs]
    | cons b r =>
      have := ih (by simp)
      simp only [List.cons_append] at this ⊢
      rw [joinSegs_cons2, joinSegs_cons2, ← this]
      simp [String.append_assoc]

theorem scopedId_join (m : List String) (n : String) (hm : ∀ s ∈ m, SegOK s) :
    scopedId n (joinSegs m) = joinSegs (m ++ [n]) := by
  unfold scopedId
  cases m with
  | nil => simp [joinSegs]
  | cons a r =>
    have hne : ¬ (joinSegs (a :: r)).isEmpty = true := by
      intro h
      have h0 := String.isEmpty_iff.mp h
      have := stripGlobal_path (a :: r) ⟨by simp, hm⟩
      obtain ⟨tl, htl⟩ := joinSegs_toList_cons a r
      rw [h0] at htl
      have ha := (hm a (by simp)).1
      have : a.toList = [] := by
        have h1 : ([] : List Char) = a.toList ++ tl := by simpa using htl
        cases hh : a.toList with
        | nil => rfl
        | cons c cs => rw [hh] at h1; simp at h1
      exact ha (String.toList_eq_nil_iff.mp this)
    simp only [hne]
    have := joinSegs_append (a :: r) [n] (by simp) (by simp)
    simpa [joinSegs] using this

/-! ### the table -/

theorem Table.find_mem {t : Table} {k : String} {n : NodeInfo} (h : t.find k = some n) : (k, n) ∈ t := by
  induction t with
  | nil => simp [Table.find] at h
  | cons e rest ih =>
    simp only [Table.find] at h
    cases hr : Table.find rest k with
    | some m =>
      rw [hr] at h
      simp at h
      subst h
      exact List.mem_cons_of_mem _ (ih hr)
    | none =>
      rw [hr] at h
      by_cases hk : (e.1 == k) = true
      · simp [hk] at h
        have : e.1 = k := by simpa using hk
        subst h; subst this
        simp
      · simp [hk] at h

theorem SegTable.find_toTable (st : SegTable) (hst : ∀ e ∈ st, PathOK e.1) (c : List String) (hc : PathOK c) :
    st.toTable.find (joinSegs c) = st.find c := by
  induction st with
  | nil => simp [SegTable.toTable, Table.find, SegTable.find]
  | cons e rest ih =>
    have ih' := ih (fun x hx => hst x (by simp [hx]))
    simp only [SegTable.toTable, List.map_cons, Table.find, SegTable.find] at ih' ⊢
    rw [ih']
    cases SegTable.find rest c with
    | some m => rfl
    | none =>
      simp only
      by_cases hk : e.1 = c
      · simp [hk]
      · have : joinSegs e.1 ≠ joinSegs c := fun h => hk (joinSegs_inj _ _ (hst e (by simp)) hc h)
        simp [hk, this]

theorem SegTable.find_global_none (st : SegTable) (hst : ∀ e ∈ st, PathOK e.1) (x : String) :
    st.toTable.find ("::" ++ x) = none := by
  induction st with
  | nil => simp [SegTable.toTable, Table.find]
  | cons e rest ih =>
    have ih' := ih (fun x hx => hst x (by simp [hx]))
    simp only [SegTable.toTable, List.map_cons, Table.find] at ih' ⊢
    rw [ih']
    have : joinSegs e.1 ≠ "::" ++ x := by
      intro h
      have h1 := stripGlobal_path e.1 (hst e (by simp))
      rw [h, stripGlobal_global] at h1
      cases h1
    simp [this]

end Slicec

namespace Slicec

theorem option_match_id {α} (x : Option α) : (match x with | some y => some y | none => none) = x := by
  cases x <;> rfl

/-- the lookup loop followed by the global lookup = first hit among the candidates of the specification -/
theorem scopeLoop_spec (st : SegTable) (hst : ∀ e ∈ st, PathOK e.1) (id : List String) (hid : PathOK id)
    (m : List String) (hm : ∀ s ∈ m, SegOK s) :
    (match scopeLoop st.toTable (joinSegs id) m with
     | some n => some n
     | none => st.toTable.find (joinSegs id))
    = firstSome st.find ((scopesOutward m).map (· ++ id)) := by
  induction m using scopesOutward.induct with
  | case1 =>
    simp only [scopeLoop, scopesOutward, List.map_cons, List.map_nil, List.nil_append, firstSome]
    rw [SegTable.find_toTable st hst id hid]
    cases SegTable.find st id <;> rfl
  | case2 a m ih =>
    have hok : PathOK ((a :: m) ++ id) := ⟨by simp, fun s hs => by
      rcases List.mem_append.mp hs with h | h
      · exact hm s h
      · exact hid.2 s h⟩
    have ih' := ih (fun s hs => hm s (List.dropLast_subset _ hs))
    rw [scopeLoop, scopesOutward]
    simp only [List.map_cons, firstSome]
    rw [joinSegs_append (a :: m) id (by simp) hid.1, SegTable.find_toTable st hst _ hok]
    cases hf : SegTable.find st (a :: m ++ id) with
    | some n => simp
    | none => simpa using ih'

end Slicec

namespace Slicec

/-! ### lookups only return stored nodes -/

theorem scopeLoop_mem (t : Table) (id : String) (m : List String) (n : NodeInfo)
    (h : scopeLoop t id m = some n) : ∃ k, (k, n) ∈ t := by
  induction m using scopeLoop.induct t id with
  | case1 => simp [scopeLoop] at h
  | case2 a m n' hf =>
    rw [scopeLoop, hf] at h
    simp at h
    subst h
    exact ⟨_, Table.find_mem hf⟩
  | case3 a m hf ih =>
    rw [scopeLoop, hf] at h
    exact ih h

theorem findNodeWithScope_mem (t : Table) (id scope : String) (n : NodeInfo)
    (h : findNodeWithScope t id scope = some n) : ∃ k, (k, n) ∈ t := by
  unfold findNodeWithScope at h
  cases hg : stripGlobal id with
  | some rest => rw [hg] at h; exact ⟨_, Table.find_mem h⟩
  | none =>
    rw [hg] at h
    simp only at h
    cases hl : scopeLoop t id (splitSegs scope) with
    | some m => rw [hl] at h; simp at h; subst h; exact scopeLoop_mem t id _ _ hl
    | none => rw [hl] at h; exact ⟨_, Table.find_mem h⟩

/-! ### pigeonhole -/

theorem nodup_subset_length : ∀ (l m : List String), l.Nodup → (∀ x ∈ l, x ∈ m) → l.length ≤ m.length
  | [], _, _, _ => by simp
  | x :: xs, m, hnd, hsub => by
    have hx : x ∈ m := hsub x (by simp)
    have hnd' := List.nodup_cons.mp hnd
    have ih := nodup_subset_length xs (m.erase x) hnd'.2 (fun y hy => by
      have hne : y ≠ x := fun h => hnd'.1 (h ▸ hy)
      exact (List.mem_erase_of_ne hne).mpr (hsub y (by simp [hy])))
    have hl := List.length_erase_of_mem hx
    have hpos : 0 < m.length := List.length_pos_of_mem hx
    simp only [List.length_cons]
    omega

theorem mem_aliasKeys (t : Table) (k : String) (n : NodeInfo) (h : (k, n) ∈ t) (ha : n.isAlias = true) :
    n.key ∈ aliasKeys t := by
  unfold aliasKeys
  exact List.mem_map.mpr ⟨(k, n), List.mem_filter.mpr ⟨h, ha⟩, rfl⟩

/-- invariant of the alias walk: the chain has no repeats and consists of identifiers of aliases of the table,
    so it is never longer than the number of aliases and the recursion bound is not reached -/
theorem walkAlias_no_fuel (t : Table) : ∀ (fuel : Nat) (chain : List String) (attrs : List Attr) (cur : NodeInfo),
    chain.Nodup → (∀ k ∈ chain, k ∈ aliasKeys t) → (∃ k, (k, cur) ∈ t) → numAliases t + 1 ≤ chain.length + fuel →
    walkAlias t fuel chain attrs cur ≠ .error .fuel := by
  intro fuel
  induction fuel with
  | zero =>
    intro chain attrs cur hnd hsub _ hlen
    have := nodup_subset_length chain (aliasKeys t) hnd hsub
    unfold numAliases at hlen
    omega
  | succ fuel ih =>
    intro chain attrs cur hnd hsub hcur hlen
    obtain ⟨kc, hkc⟩ := hcur
    simp only [walkAlias]
    by_cases hc : cur.key ∈ chain
    · simp [hc]
    · have hc' : ¬ (chain.contains cur.key = true) := by simpa using hc
      rw [if_neg hc']
      cases hu : cur.aliasOf with
      | none => simp
      | some u =>
        simp only
        have hcurA : cur.isAlias = true := by simp [NodeInfo.isAlias, hu]
        cases hty : u.ty with
        | named id =>
          simp only
          cases hf : findNodeWithScope t id cur.modScope with
          | none => simp
          | some n =>
            simp only
            by_cases hn : n.isAlias = true
            · simp only [hn, if_true]
              apply ih
              · rw [List.nodup_append]
                refine ⟨hnd, by simp, ?_⟩
                intro a ha b hb
                simp at hb
                subst hb
                intro hab
                subst hab
                exact hc ha
              · intro k hk
                rcases List.mem_append.mp hk with h | h
                · exact hsub k h
                · simp at h; subst h; exact mem_aliasKeys t kc cur hkc hcurA
              · exact findNodeWithScope_mem t id _ n hf
              · simp; omega
            · simp [hn]
        | prim p => simp
        | seq e => simp
        | dict k v => simp
        | result s f => simp

/-! ### alias chains -/

/-- `AliasPath t a links tgt`: starting at the alias `a`, `links` are the underlying type references of the
    aliases walked through (in order), each resolved in the module scope of the alias it is written in, and
    `tgt` is what the last one designates: a node that is not an alias, or a written primitive / anonymous type -/
inductive AliasPath (t : Table) : NodeInfo → List TRef → Target → Prop
  | endNode {cur : NodeInfo} {u : TRef} {id : String} {n : NodeInfo} :
      cur.aliasOf = some u → u.ty = .named id → findNodeWithScope t id cur.modScope = some n → n.isAlias = false →
      AliasPath t cur [u] (.node n)
  | endExpr {cur : NodeInfo} {u : TRef} :
      cur.aliasOf = some u → (∀ id, u.ty ≠ .named id) → AliasPath t cur [u] (.expr u.ty cur.modScope)
  | step {cur : NodeInfo} {u : TRef} {id : String} {n : NodeInfo} {us : List TRef} {tgt : Target} :
      cur.aliasOf = some u → u.ty = .named id → findNodeWithScope t id cur.modScope = some n → n.isAlias = true →
      AliasPath t n us tgt → AliasPath t cur (u :: us) tgt

/-- the end of a resolution is never an alias -/
def Target.NonAlias : Target → Prop
  | .node n => n.isAlias = false
  | .expr e _ => ∀ id, e ≠ .named id

theorem AliasPath.nonAlias {t : Table} {cur : NodeInfo} {links : List TRef} {tgt : Target}
    (h : AliasPath t cur links tgt) : tgt.NonAlias := by
  induction h with
  | endNode _ _ _ hn => exact hn
  | endExpr _ hne => exact hne
  | step _ _ _ _ _ ih => exact ih

theorem AliasPath.ne_nil {t : Table} {cur : NodeInfo} {links : List TRef} {tgt : Target}
    (h : AliasPath t cur links tgt) : links ≠ [] := by
  cases h <;> simp

theorem walkAlias_path (t : Table) : ∀ (fuel : Nat) (chain : List String) (attrs : List Attr) (cur : NodeInfo)
    (tgt : Target) (out : List Attr),
    walkAlias t fuel chain attrs cur = .ok (tgt, out) → cur.isAlias = true →
    ∃ links, AliasPath t cur links tgt ∧ out = attrs ++ links.flatMap TRef.attrs := by
  intro fuel
  induction fuel with
  | zero => intro chain attrs cur tgt out h; simp [walkAlias] at h
  | succ fuel ih =>
    intro chain attrs cur tgt out h hcur
    simp only [walkAlias] at h
    by_cases hc : cur.key ∈ chain
    · simp [hc] at h
    · have hc' : ¬ (chain.contains cur.key = true) := by simpa using hc
      rw [if_neg hc'] at h
      cases hu : cur.aliasOf with
      | none => simp [NodeInfo.isAlias, hu] at hcur
      | some u =>
        rw [hu] at h
        simp only at h
        cases hty : u.ty with
        | named id =>
          rw [hty] at h
          simp only at h
          cases hf : findNodeWithScope t id cur.modScope with
          | none => rw [hf] at h; simp at h
          | some n =>
            rw [hf] at h
            simp only at h
            by_cases hn : n.isAlias = true
            · simp only [hn, if_true] at h
              obtain ⟨links, hp, hout⟩ := ih _ _ _ _ _ h hn
              exact ⟨u :: links, .step hu hty hf hn hp, by simp [hout, List.append_assoc]⟩
            · simp only [hn] at h
              simp at h
              obtain ⟨h1, h2⟩ := h
              subst h1; subst h2
              exact ⟨[u], .endNode hu hty hf (by simpa using hn), by simp⟩
        | prim p =>
          rw [hty] at h; simp at h; obtain ⟨h1, h2⟩ := h; subst h1; subst h2
          exact ⟨[u], by rw [← hty]; exact .endExpr hu (by intro id; rw [hty]; simp), by simp⟩
        | seq e =>
          rw [hty] at h; simp at h; obtain ⟨h1, h2⟩ := h; subst h1; subst h2
          exact ⟨[u], by rw [← hty]; exact .endExpr hu (by intro id; rw [hty]; simp), by simp⟩
        | dict k v =>
          rw [hty] at h; simp at h; obtain ⟨h1, h2⟩ := h; subst h1; subst h2
          exact ⟨[u], by rw [← hty]; exact .endExpr hu (by intro id; rw [hty]; simp), by simp⟩
        | result s f =>
          rw [hty] at h; simp at h; obtain ⟨h1, h2⟩ := h; subst h1; subst h2
          exact ⟨[u], by rw [← hty]; exact .endExpr hu (by intro id; rw [hty]; simp), by simp⟩

end Slicec

namespace Slicec

/-! ### retrieval -/

theorem Table.find_of_nodup : ∀ (t : Table), (t.map (·.1)).Nodup → ∀ k n, (k, n) ∈ t → t.find k = some n
  | [], _, _, _, h => by simp at h
  | e :: rest, hnd, k, n, h => by
    simp only [List.map_cons, List.nodup_cons] at hnd
    simp only [Table.find]
    rcases List.mem_cons.mp h with h | h
    · subst h
      cases hr : Table.find rest k with
      | some m =>
        exfalso
        apply hnd.1
        exact List.mem_map.mpr ⟨(k, m), Table.find_mem hr, rfl⟩
      | none => simp
    · rw [Table.find_of_nodup rest hnd.2 k n h]

def Def.nodeKind : Def → NodeKind
  | .struct .. => .struct | .iface .. => .interface | .enum .. => .enum | .custom .. => .custom | .alias .. => .alias

/-- the entities a file declares, with their parser-scoped identifier, kind and own identifier:
    definitions, struct fields, operations, enumerators and enumerator fields -/
inductive EntityOf (f : SFile) : String → NodeKind → String → Prop
  | defn (d : Def) : d ∈ f.defs → EntityOf f (scopedId d.name f.modPath) d.nodeKind d.name
  | field (doc attrs compact name fields) (fld : Field) :
      Def.struct doc attrs compact name fields ∈ f.defs → fld ∈ fields →
      EntityOf f (scopedId fld.name (scopedId name f.modPath)) .field fld.name
  | operation (doc attrs name bases ops) (o : Op) :
      Def.iface doc attrs name bases ops ∈ f.defs → o ∈ ops →
      EntityOf f (scopedId o.name (scopedId name f.modPath)) .operation o.name
  | enumerator (doc attrs compact unchecked name underlying es) (e : Enumerator) :
      Def.enum doc attrs compact unchecked name underlying es ∈ f.defs → e ∈ es →
      EntityOf f (scopedId e.name (scopedId name f.modPath)) .enumerator e.name
  | enumeratorField (doc attrs compact unchecked name underlying es) (e : Enumerator) (fs : List Field) (fld : Field) :
      Def.enum doc attrs compact unchecked name underlying es ∈ f.defs → e ∈ es → e.fields = some fs → fld ∈ fs →
      EntityOf f (scopedId fld.name (scopedId e.name (scopedId name f.modPath))) .field fld.name

theorem mem_buildTable (p : Program) (f : SFile) (i : Nat) (d : Def) (e : String × NodeInfo)
    (hf : (f, i) ∈ p.zipIdx) (hd : d ∈ f.defs) (he : e ∈ defEntries i f.modPath d) : e ∈ buildTable p := by
  unfold buildTable
  apply List.mem_append_right
  apply List.mem_flatMap.mpr
  refine ⟨(f, i), hf, ?_⟩
  simp only [fileEntries]
  apply List.mem_append_left
  exact List.mem_flatMap.mpr ⟨d, hd, he⟩

/-- what the table stores for an entity -/
def StoredAs (n : NodeInfo) (key : String) (kind : NodeKind) (ident : String) (file : Nat) : Prop :=
  n.key = key ∧ n.kind = kind ∧ n.ident = ident ∧ n.file = file

theorem entity_mem (p : Program) (f : SFile) (i : Nat) (hf : (f, i) ∈ p.zipIdx) (key : String) (kind : NodeKind)
    (ident : String) (h : EntityOf f key kind ident) :
    ∃ n, (key, n) ∈ buildTable p ∧ StoredAs n key kind ident i := by
  cases h with
  | defn d hd =>
    cases d with
    | struct doc attrs compact name fields =>
      refine ⟨{ kind := .struct, key := scopedId name f.modPath, modScope := f.modPath, ident := name, attrs := attrs, file := i },
        mem_buildTable p f i _ _ hf hd ?_, by simp [StoredAs, Def.name, Def.nodeKind]⟩
      simp only [defEntries, Def.name]
      apply List.mem_append_right
      simp
    | iface doc attrs name bases ops =>
      refine ⟨{ kind := .interface, key := scopedId name f.modPath, modScope := f.modPath, ident := name, attrs := attrs, file := i },
        mem_buildTable p f i _ _ hf hd ?_, by simp [StoredAs, Def.name, Def.nodeKind]⟩
      simp only [defEntries, Def.name]
      apply List.mem_append_right
      simp
    | enum doc attrs compact unchecked name underlying es =>
      refine ⟨{ kind := .enum, key := scopedId name f.modPath, modScope := f.modPath, ident := name, attrs := attrs, file := i },
        mem_buildTable p f i _ _ hf hd ?_, by simp [StoredAs, Def.name, Def.nodeKind]⟩
      simp only [defEntries, Def.name]
      apply List.mem_append_right
      simp
    | custom doc attrs name =>
      refine ⟨{ kind := .custom, key := scopedId name f.modPath, modScope := f.modPath, ident := name, attrs := attrs, file := i },
        mem_buildTable p f i _ _ hf hd ?_, by simp [StoredAs, Def.name, Def.nodeKind]⟩
      simp [defEntries, Def.name]
    | alias doc attrs name ty =>
      refine ⟨{ kind := .alias, key := scopedId name f.modPath, modScope := f.modPath, ident := name, aliasOf := some ty, attrs := attrs, file := i },
        mem_buildTable p f i _ _ hf hd ?_, by simp [StoredAs, Def.name, Def.nodeKind]⟩
      simp [defEntries, Def.name]
  | field doc attrs compact name fields fld hd hfld =>
    refine ⟨{ kind := .field, key := scopedId fld.name (scopedId name f.modPath), modScope := f.modPath, ident := fld.name, attrs := fld.attrs, file := i }, mem_buildTable p f i _ _ hf hd ?_, ?_⟩
    · simp only [defEntries]
      apply List.mem_append_left
      exact List.mem_map.mpr ⟨fld, hfld, rfl⟩
    · simp [StoredAs]
  | operation doc attrs name bases ops o hd ho =>
    refine ⟨{ kind := .operation, key := scopedId o.name (scopedId name f.modPath), modScope := f.modPath, ident := o.name, attrs := o.attrs, file := i }, mem_buildTable p f i _ _ hf hd ?_, ?_⟩
    · simp only [defEntries]
      apply List.mem_append_left
      apply List.mem_flatMap.mpr
      refine ⟨o, ho, ?_⟩
      simp only [opEntries]
      apply List.mem_append_right
      simp
    · simp [StoredAs]
  | enumerator doc attrs compact unchecked name underlying es e hd he =>
    refine ⟨{ kind := .enumerator, key := scopedId e.name (scopedId name f.modPath), modScope := f.modPath, ident := e.name, attrs := e.attrs, file := i }, mem_buildTable p f i _ _ hf hd ?_, ?_⟩
    · simp only [defEntries]
      apply List.mem_append_left
      apply List.mem_flatMap.mpr
      refine ⟨e, he, ?_⟩
      simp only [enumeratorEntries]
      apply List.mem_append_right
      simp
    · simp [StoredAs]
  | enumeratorField doc attrs compact unchecked name underlying es e fs fld hd he hfs hfld =>
    refine ⟨{ kind := .field, key := scopedId fld.name (scopedId e.name (scopedId name f.modPath)), modScope := f.modPath, ident := fld.name, attrs := fld.attrs, file := i }, mem_buildTable p f i _ _ hf hd ?_, ?_⟩
    · simp only [defEntries]
      apply List.mem_append_left
      apply List.mem_flatMap.mpr
      refine ⟨e, he, ?_⟩
      simp only [enumeratorEntries]
      apply List.mem_append_left
      rw [hfs]
      exact List.mem_map.mpr ⟨fld, hfld, rfl⟩
    · simp [StoredAs]

end Slicec

namespace Slicec

/-! ### bindings -/

theorem errCodes_ne_nil (e : ResErr) : errCodes e ≠ [] := by
  cases e with
  | aliasCycle b id => cases b <;> simp [errCodes]
  | _ => simp [errCodes]

theorem boundOfTarget_isBound (tgt : Target) : (boundOfTarget tgt).isBound = true := by
  cases tgt with
  | node n => simp only [boundOfTarget]; cases n.prim <;> rfl
  | expr e s => cases e <;> rfl

/-- a reference is left unpatched exactly when an error was recorded for it -/
theorem bindRef_bound_iff (t : Table) (w : Want) (scope : String) (r : TRef) :
    (bindRef t w scope r).bound.isBound = true ↔ (bindRef t w scope r).codes = [] := by
  unfold bindRef
  cases hty : r.ty with
  | named id =>
    simp only
    cases hr : resolveNamed t w id scope with
    | ok v => simp [boundOfTarget_isBound]
    | error e => simp [Bound.isBound, errCodes_ne_nil]
  | prim p => simp [Bound.isBound]
  | seq e => simp [Bound.isBound]
  | dict k v => simp [Bound.isBound]
  | result s f => simp [Bound.isBound]

theorem bindBasesGo_spec (t : Table) (scope : String) : ∀ (bs : List TRef) (o : Option (List BindRes)) (c : List String),
    bindBasesGo t scope bs = (o, c) →
    match o with
    | none => c ≠ []
    | some rs => c = [] ∧ ∀ r ∈ rs, r.bound.isBound = true
  | [], o, c, h => by
    simp [bindBasesGo] at h
    obtain ⟨h1, h2⟩ := h
    subst h1; subst h2
    simp
  | b :: bs, o, c, h => by
    simp only [bindBasesGo] at h
    by_cases hb : (bindRef t .interface scope b).bound.isBound = true
    · simp only [hb, if_true] at h
      cases hgo : bindBasesGo t scope bs with
      | mk o' c' =>
        have ih := bindBasesGo_spec t scope bs o' c' hgo
        rw [hgo] at h
        cases o' with
        | none =>
          simp at h
          obtain ⟨h1, h2⟩ := h
          subst h1; subst h2
          exact ih
        | some rs =>
          simp at h
          obtain ⟨h1, h2⟩ := h
          subst h1; subst h2
          refine ⟨ih.1, ?_⟩
          intro r hr
          rcases List.mem_cons.mp hr with h | h
          · subst h; exact hb
          · exact ih.2 r h
    · simp only [hb] at h
      simp at h
      obtain ⟨h1, h2⟩ := h
      subst h1; subst h2
      intro hc
      exact hb ((bindRef_bound_iff t .interface scope b).mpr hc)

theorem site_bound_of_no_codes (t : Table) (s : Site) (h : siteCodes t s = []) :
    ∀ l ∈ siteLines t s, l.res.bound.isBound = true := by
  cases s with
  | ref path w scope r =>
    intro l hl
    simp only [siteLines, List.mem_singleton] at hl
    subst hl
    exact (bindRef_bound_iff t w scope r).mpr h
  | bases path scope bs =>
    intro l hl
    simp only [siteCodes, bindBases] at h
    simp only [siteLines, bindBases] at hl
    cases hgo : bindBasesGo t scope bs with
    | mk o c =>
      have spec := bindBasesGo_spec t scope bs o c hgo
      rw [hgo] at h hl
      cases o with
      | none => simp at h; exact absurd h spec
      | some rs =>
        simp only at hl
        obtain ⟨x, hx, rfl⟩ := List.mem_map.mp hl
        have h1 := List.fst_mem_of_mem_zipIdx hx
        have h2 := (List.of_mem_zip (a := x.1.1) (b := x.1.2) h1).1
        exact spec.2 _ h2

end Slicec
