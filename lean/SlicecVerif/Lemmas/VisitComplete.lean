/-
  Lemmas for C20, completeness: the exact set of paths a walk presents.

  * `InTy t fuel sc ty p` — the specification, by position, of "following `p` from a reference written as `ty` in module
    scope `sc` stays inside the type, where a reference naming an alias of an anonymous type continues into that type"
    (`tyF_has_iff`: exactly the positions of the forest `tyF`).
  * `locate f p : Loc` — where a path points in the abstract syntax of a file (an element, or at/below the reference of an
    owner, or nowhere); `Declared`, the forest of the walk and `refAt` are all read off `locate` (`declared_iff_locate`,
    `file_has_iff`).
  * `refAt f q` — the written type expression of the reference at position `q`, if `q` is the position of a written reference.
  * `BelowAlias t f p` — `p` lies strictly below a written reference that names an alias of an anonymous type, inside that type.
  * `file_has_split` — a position of the forest is declared or below such an alias (exact).
-/
import SlicecVerif.Lemmas.Visit

namespace Slicec.Visit

open Slicec

/-! ## written types by position -/

/-- the reference nested directly in a written type at step `s` -/
def TyExpr.child : TyExpr → Seg → Option TyExpr
  | .seq (.mk _ e _), .te => some e
  | .dict (.mk _ k _) _, .tk => some k
  | .dict _ (.mk _ v _), .tv => some v
  | .result (.mk _ s _) _, .ts => some s
  | .result _ (.mk _ f _), .tf => some f
  | _, _ => none

/-- the written type expression at relative position `p` below a reference written as `ty` -/
def subTy : TyExpr → Path → Option TyExpr
  | ty, [] => some ty
  | ty, s :: p => match TyExpr.child ty s with | some c => subTy c p | none => none

/-- `InTy t fuel sc ty p`: `p` is a position at or below a reference written as `ty` in module scope `sc`, where a reference
    that names an alias of an anonymous type (`resolveNamed = .ok (.expr e s, _)`) continues into that type, read in the
    alias's scope. `fuel` bounds the number of aliases passed on the way (as in `tyF`). -/
def InTy (t : Table) (fuel : Nat) (sc : String) (ty : TyExpr) (p : Path) : Prop :=
  match p with
  | [] => True
  | s :: p' =>
    match ty with
    | .named id =>
      match fuel with
      | 0 => False
      | fuel' + 1 =>
        match resolveNamed t .type id sc with
        | .ok (.expr e s', _) => InTy t fuel' s' e (s :: p')
        | _ => False
    | ty => match TyExpr.child ty s with | some c => InTy t fuel sc c p' | none => False
termination_by (fuel, p.length)

theorem InTy_nil (t : Table) (fuel : Nat) (sc : String) (ty : TyExpr) : InTy t fuel sc ty [] := by
  unfold InTy; trivial

theorem child_named (id : String) (s : Seg) : TyExpr.child (.named id) s = none := by
  cases s <;> rfl

theorem child_prim (pr : Prim) (s : Seg) : TyExpr.child (.prim pr) s = none := by
  cases s <;> rfl

/-- one written step: a reference that is not a name is continued through its nested reference at `s` -/
theorem InTy_step (t : Table) (fuel : Nat) (sc : String) (ty : TyExpr) (s : Seg) (p : Path) (h : ∀ id, ty ≠ .named id) :
    InTy t fuel sc ty (s :: p) ↔ ∃ c, TyExpr.child ty s = some c ∧ InTy t fuel sc c p := by
  rw [InTy.eq_def]
  cases ty with
  | named id => exact absurd rfl (h id)
  | prim pr => simp [child_prim]
  | seq e => cases hc : TyExpr.child (.seq e) s <;> simp [hc]
  | dict k v => cases hc : TyExpr.child (.dict k v) s <;> simp [hc]
  | result a b => cases hc : TyExpr.child (.result a b) s <;> simp [hc]

theorem InTy_named_zero (t : Table) (sc id : String) (s : Seg) (p : Path) : ¬ InTy t 0 sc (.named id) (s :: p) := by
  rw [InTy.eq_def]; simp

/-- one alias step: a name continues exactly if it is bound to an alias of an anonymous type, into that type -/
theorem InTy_named (t : Table) (fuel : Nat) (sc id : String) (p : Path) (hp : p ≠ []) :
    InTy t fuel sc (.named id) p ↔
      ∃ n e s attrs, fuel = n + 1 ∧ resolveNamed t .type id sc = .ok (.expr e s, attrs) ∧ InTy t n s e p := by
  cases p with
  | nil => exact absurd rfl hp
  | cons x p' =>
    rw [InTy.eq_def]
    cases fuel with
    | zero => simp
    | succ n =>
      cases hr : resolveNamed t .type id sc with
      | error err => simp [hr]
      | ok v =>
        obtain ⟨tg, attrs⟩ := v
        cases tg with
        | node m => simp [hr]
        | expr e s =>
          simp only [hr]
          constructor
          · intro h; exact ⟨n, e, s, attrs, rfl, rfl, h⟩
          · rintro ⟨n', e', s', attrs', hn, he, h⟩
            cases hn; cases he; exact h

theorem subTy_nil (ty : TyExpr) : subTy ty [] = some ty := rfl

theorem subTy_cons (ty : TyExpr) (s : Seg) (p : Path) :
    subTy ty (s :: p) = match TyExpr.child ty s with | some c => subTy c p | none => none := rfl

theorem declaredTy_step (ty : TyExpr) (s : Seg) (p : Path) :
    DeclaredTy ty (s :: p) ↔ ∃ c, TyExpr.child ty s = some c ∧ DeclaredTy c p := by
  cases ty with
  | named id => simp [DeclaredTy, child_named]
  | prim pr => simp [DeclaredTy, child_prim]
  | seq e => obtain ⟨_, e, _⟩ := e; cases s <;> simp [DeclaredTy, TyExpr.child]
  | dict k v => obtain ⟨_, k, _⟩ := k; obtain ⟨_, v, _⟩ := v; cases s <;> simp [DeclaredTy, TyExpr.child]
  | result a b => obtain ⟨_, a, _⟩ := a; obtain ⟨_, b, _⟩ := b; cases s <;> simp [DeclaredTy, TyExpr.child]

/-- a path is written below a reference iff there is a written type expression at that position -/
theorem declaredTy_iff_subTy : ∀ (p : Path) (ty : TyExpr), DeclaredTy ty p ↔ ∃ ty', subTy ty p = some ty'
  | [], ty => by simp [declaredTy_nil, subTy_nil]
  | s :: p, ty => by
    rw [declaredTy_step, subTy_cons]
    cases hc : TyExpr.child ty s with
    | none => simp
    | some c => simp [declaredTy_iff_subTy p c]

theorem subTy_append : ∀ (a b : Path) (ty : TyExpr),
    subTy ty (a ++ b) = match subTy ty a with | some c => subTy c b | none => none
  | [], b, ty => by simp [subTy_nil]
  | s :: a, b, ty => by
    simp only [List.cons_append, subTy_cons]
    cases hc : TyExpr.child ty s with
    | none => rfl
    | some c => exact subTy_append a b c

/-- nothing is written below a name -/
theorem subTy_named (id : String) (s : Seg) (p : Path) : subTy (.named id) (s :: p) = none := by
  simp [subTy_cons, child_named]

/-- more fuel never removes a position: `fuel` only bounds the number of aliases passed -/
theorem InTy_mono (t : Table) (fuel : Nat) (sc : String) (ty : TyExpr) (p : Path) :
    InTy t fuel sc ty p → InTy t (fuel + 1) sc ty p := by
  fun_induction InTy t fuel sc ty p with
  | case1 fuel sc ty => intro _; exact InTy_nil _ _ _ _
  | case2 sc s p' id => intro h; exact h.elim
  | case3 sc s p' id fuel' e s' attrs hr ih =>
    intro h
    exact (InTy_named t _ sc id (s :: p') (by simp)).mpr ⟨fuel' + 1, e, s', attrs, rfl, hr, ih h⟩
  | case4 sc s p' id fuel' hne => intro h; exact h.elim
  | case5 fuel sc s p' ty hnn c hc ih =>
    intro h
    have hn : ∀ id, ty ≠ .named id := by intro id h'; exact hnn id h'
    exact (InTy_step t _ sc ty s p' hn).mpr ⟨c, hc, ih h⟩
  | case6 fuel sc s p' ty hnn hc => intro h; exact h.elim

/-! ## the forest of a type reference presents exactly the positions `InTy` -/

theorem has_nil : ∀ (F : Forest), ¬ F.has []
  | .nil => by simp [Forest.has]
  | .cons s k fr ch rest => by simp [Forest.has, has_nil rest]

theorem tyF_has_iff (t : Table) (self fuel : Nat) (sc : String) (fr : Bool) (ty : TyExpr) :
    ∀ p, (tyF t self fuel sc fr ty).has p ↔ p ≠ [] ∧ InTy t fuel sc ty p := by
  fun_induction tyF t self fuel sc fr ty with
  | case1 fuel sc fr pr =>
    intro p
    cases p with
    | nil => simp [Forest.has]
    | cons s p => simp [Forest.has, InTy_step, child_prim]
  | case2 fuel sc fr a e o ih =>
    intro p
    cases p with
    | nil => simp [has_nil]
    | cons s p =>
      rw [InTy_step _ _ _ _ _ _ (by intro id h; cases h)]
      cases s <;> simp [Forest.has, TyExpr.child, ih]
      cases p <;> simp [InTy_nil]
  | case3 fuel sc fr a k o a' v o' ihk ihv =>
    intro p
    cases p with
    | nil => simp [has_nil]
    | cons s p =>
      rw [InTy_step _ _ _ _ _ _ (by intro id h; cases h)]
      cases s <;> simp [Forest.has, TyExpr.child, ihk, ihv] <;> cases p <;> simp [InTy_nil]
  | case4 fuel sc fr a k o a' v o' ihk ihv =>
    intro p
    cases p with
    | nil => simp [has_nil]
    | cons s p =>
      rw [InTy_step _ _ _ _ _ _ (by intro id h; cases h)]
      cases s <;> simp [Forest.has, TyExpr.child, ihk, ihv] <;> cases p <;> simp [InTy_nil]
  | case5 sc fr id =>
    intro p
    cases p with
    | nil => simp [Forest.has]
    | cons s p => simp [Forest.has, InTy_named_zero]
  | case6 fuel sc fr id e s attrs h ih =>
    intro p
    rw [ih p]
    constructor
    · rintro ⟨hp, hin⟩
      exact ⟨hp, (InTy_named t _ sc id p hp).mpr ⟨fuel, e, s, attrs, rfl, h, hin⟩⟩
    · rintro ⟨hp, hin⟩
      obtain ⟨n, e', s', attrs', hn, hr, hin'⟩ := (InTy_named t _ sc id p hp).mp hin
      rw [h] at hr
      cases hn
      cases hr
      exact ⟨hp, hin'⟩
  | case7 fuel sc fr id n attrs h =>
    intro p
    simp only [Forest.has, false_iff, not_and]
    intro hp hin
    obtain ⟨n, e', s', attrs', hn, hr, hin'⟩ := (InTy_named t _ sc id p hp).mp hin
    rw [h] at hr; cases hr
  | case8 fuel sc fr id err h =>
    intro p
    simp only [Forest.has, false_iff, not_and]
    intro hp hin
    obtain ⟨n, e', s', attrs', hn, hr, hin'⟩ := (InTy_named t _ sc id p hp).mp hin
    rw [h] at hr; cases hr

/-! ## a position of `InTy` is written, or below a written name of an alias of an anonymous type -/

/-- `InTy` = written positions (`DeclaredTy`) plus, below every written name `q` (`subTy ty q = some (.named id)`), the
    positions `InTy` gives for that name -/
theorem InTy_split (t : Table) (fuel : Nat) (sc : String) : ∀ (p : Path) (ty : TyExpr),
    InTy t fuel sc ty p ↔
      DeclaredTy ty p ∨ ∃ q tl id, p = q ++ tl ∧ tl ≠ [] ∧ subTy ty q = some (.named id) ∧ InTy t fuel sc (.named id) tl
  | [], ty => by simp [InTy_nil, declaredTy_nil]
  | s :: p, ty => by
    cases hty : ty with
    | named id =>
      constructor
      · intro h; exact Or.inr ⟨[], s :: p, id, rfl, by simp, rfl, h⟩
      · rintro (h | ⟨q, tl, id', hp, htl, hq, h⟩)
        · simp [declaredTy_step, child_named] at h
        · cases q with
          | nil => simp [subTy_nil] at hq; subst hq; simp at hp; subst hp; exact h
          | cons x q => simp [subTy_named] at hq
    | _ =>
      all_goals
        rw [← hty]
        have hn : ∀ id, ty ≠ .named id := by intro id h; rw [h] at hty; cases hty
        rw [InTy_step t fuel sc ty s p hn, declaredTy_step]
        constructor
        · rintro ⟨c, hc, h⟩
          rcases (InTy_split t fuel sc p c).mp h with h | ⟨q, tl, id, rfl, htl, hq, h⟩
          · exact Or.inl ⟨c, hc, h⟩
          · exact Or.inr ⟨s :: q, tl, id, rfl, htl, by simp [subTy_cons, hc, hq], h⟩
        · rintro (⟨c, hc, h⟩ | ⟨q, tl, id, hp, htl, hq, h⟩)
          · exact ⟨c, hc, (InTy_split t fuel sc p c).mpr (Or.inl h)⟩
          · cases q with
            | nil => simp [subTy_nil] at hq; exact absurd hq (hn id)
            | cons x q =>
              simp only [List.cons_append, List.cons.injEq] at hp
              obtain ⟨rfl, rfl⟩ := hp
              rw [subTy_cons] at hq
              cases hc : TyExpr.child ty s with
              | none => simp [hc] at hq
              | some c =>
                simp only [hc] at hq
                exact ⟨c, rfl, (InTy_split t fuel sc _ c).mpr (Or.inr ⟨q, tl, id, rfl, htl, hq, h⟩)⟩

/-! ## where a path points in a file -/

/-- where a path points: at an element that is not a type reference; at or below the reference of an owner (the written
    type of that reference and the rest of the path); nowhere -/
inductive Loc where
  | elem
  | ref (ty : TyExpr) (tl : Path)
  | none

/-- a location is fine if it is an element, or a position below a reference that `P` accepts -/
def Loc.sat (P : TyExpr → Path → Prop) : Loc → Prop
  | .elem => True
  | .ref ty tl => P ty tl
  | .none => False

def locOwner (ty : TRef) : Path → Loc
  | [] => .elem
  | .t :: p => .ref ty.ty p
  | _ => .none

def locFields (fs : List Field) : Path → Loc
  | .f k :: p => match fs[k]? with | some fl => locOwner fl.ty p | none => .none
  | _ => .none

def locParams (ps : List Param) (k : Nat) (p : Path) : Loc :=
  match ps[k]? with | some pa => locOwner pa.ty p | none => .none

def locOp (o : Op) : Path → Loc
  | [] => .elem
  | .p k :: p => locParams o.params k p
  | .r k :: p => locParams (retParams o.ret) k p
  | _ => .none

def locEnumerator (en : Enumerator) : Path → Loc
  | [] => .elem
  | p => match en.fields with | some fs => locFields fs p | none => .none

def locDef : Def → Path → Loc
  | _, [] => .elem
  | .struct _ _ _ _ fs, p => locFields fs p
  | .iface _ _ _ _ ops, .o k :: p => match ops[k]? with | some o => locOp o p | none => .none
  | .enum _ _ _ _ _ _ es, .e k :: p => match es[k]? with | some en => locEnumerator en p | none => .none
  | .alias _ _ _ ty, .t :: p => .ref ty.ty p
  | _, _ => .none

/-- where `p` points in file `f` (lookup by position, as `Declared`) -/
def locate (f : SFile) : Path → Loc
  | [.file] => .elem
  | [.mod] => if f.module.isSome then .elem else .none
  | .d j :: p => match f.defs[j]? with | some d => locDef d p | none => .none
  | _ => .none

/-- the written type expression of the reference at position `q` of file `f`, if `q` is the position of a written
    reference (an owner's `.t` or a reference nested in it) -/
def refAt (f : SFile) (q : Path) : Option TyExpr :=
  match locate f q with
  | .ref ty tl => subTy ty tl
  | _ => none

/-! ### `Declared` read off `locate` -/

theorem declaredOwner_iff (ty : TRef) (p : Path) : DeclaredOwner ty p ↔ (locOwner ty p).sat DeclaredTy := by
  cases p with
  | nil => simp [DeclaredOwner, locOwner, Loc.sat]
  | cons s tl => cases s <;> simp [DeclaredOwner, locOwner, Loc.sat]

theorem declaredFields_iff (fs : List Field) (p : Path) : DeclaredFields fs p ↔ (locFields fs p).sat DeclaredTy := by
  cases p with
  | nil => simp [DeclaredFields, locFields, Loc.sat]
  | cons s tl =>
    cases s <;> simp [DeclaredFields, locFields, Loc.sat]
    rename_i k
    cases fs[k]? <;> simp [Loc.sat, declaredOwner_iff]

theorem declaredParams_iff (ps : List Param) (k : Nat) (p : Path) :
    DeclaredParams ps k p ↔ (locParams ps k p).sat DeclaredTy := by
  unfold DeclaredParams locParams
  cases ps[k]? <;> simp [Loc.sat, declaredOwner_iff]

theorem declaredOp_iff (o : Op) (p : Path) : DeclaredOp o p ↔ (locOp o p).sat DeclaredTy := by
  cases p with
  | nil => simp [DeclaredOp, locOp, Loc.sat]
  | cons s tl => cases s <;> simp [DeclaredOp, locOp, Loc.sat, declaredParams_iff]

theorem declaredEnumerator_iff (en : Enumerator) (p : Path) :
    DeclaredEnumerator en p ↔ (locEnumerator en p).sat DeclaredTy := by
  cases p with
  | nil => simp [DeclaredEnumerator, locEnumerator, Loc.sat]
  | cons s tl =>
    simp only [DeclaredEnumerator, locEnumerator]
    cases en.fields <;> simp [Loc.sat, declaredFields_iff]

theorem declaredIn_iff (d : Def) (p : Path) : DeclaredIn d p ↔ (locDef d p).sat DeclaredTy := by
  cases p with
  | nil => cases d <;> simp [DeclaredIn, locDef, Loc.sat]
  | cons s tl =>
    cases d with
    | struct _ _ _ _ fs => simp only [DeclaredIn, locDef, declaredFields_iff]
    | iface _ _ _ _ ops =>
      cases s <;> simp [DeclaredIn, locDef, Loc.sat]
      rename_i k
      cases ops[k]? <;> simp [Loc.sat, declaredOp_iff]
    | «enum» _ _ _ _ _ _ es =>
      cases s <;> simp [DeclaredIn, locDef, Loc.sat]
      rename_i k
      cases es[k]? <;> simp [Loc.sat, declaredEnumerator_iff]
    | custom _ _ _ => simp [DeclaredIn, locDef, Loc.sat]
    | «alias» _ _ _ ty => cases s <;> simp [DeclaredIn, locDef, Loc.sat]

/-- `Declared` is: `locate` finds an element, or a written position below the reference of an owner -/
theorem declared_iff_locate (f : SFile) (p : Path) : Declared f p ↔ (locate f p).sat DeclaredTy := by
  match p with
  | [] => simp [Declared, locate, Loc.sat]
  | [.file] => simp [Declared, locate, Loc.sat]
  | [.mod] => cases hm : f.module <;> simp [Declared, locate, Loc.sat, hm]
  | .d j :: tl =>
    simp only [Declared, locate]
    cases f.defs[j]? <;> simp [Loc.sat, declaredIn_iff]
  | .file :: _ :: _ => simp [Declared, locate, Loc.sat]
  | .mod :: _ :: _ => simp [Declared, locate, Loc.sat]
  | .f _ :: _ => simp [Declared, locate, Loc.sat]
  | .o _ :: _ => simp [Declared, locate, Loc.sat]
  | .p _ :: _ => simp [Declared, locate, Loc.sat]
  | .r _ :: _ => simp [Declared, locate, Loc.sat]
  | .e _ :: _ => simp [Declared, locate, Loc.sat]
  | .t :: _ => simp [Declared, locate, Loc.sat]
  | .te :: _ => simp [Declared, locate, Loc.sat]
  | .tk :: _ => simp [Declared, locate, Loc.sat]
  | .tv :: _ => simp [Declared, locate, Loc.sat]
  | .ts :: _ => simp [Declared, locate, Loc.sat]
  | .tf :: _ => simp [Declared, locate, Loc.sat]

/-! ### the forest of the walk read off `locate` -/

/-- what the chain below needs to know about the type level: the forest below a reference written in the walked file
    has exactly the positions `P` -/
def TyLevel (c : Ctx) (P : TyExpr → Path → Prop) : Prop :=
  (∀ ty, P ty []) ∧ ∀ ty p, (tyF c.table c.self c.fuel c.scope false ty).has p ↔ p ≠ [] ∧ P ty p

theorem tyLevel_InTy (c : Ctx) : TyLevel c (InTy c.table c.fuel c.scope) :=
  ⟨fun ty => InTy_nil _ _ _ ty, fun ty p => tyF_has_iff _ _ _ _ _ ty p⟩

theorem owner_sat (c : Ctx) (P : TyExpr → Path → Prop) (hP : TyLevel c P) (ty : TRef) (p : Path) :
    (p = [] ∨ (c.tref ty).has p) ↔ (locOwner ty p).sat P := by
  cases p with
  | nil => simp [locOwner, Loc.sat]
  | cons s tl =>
    simp only [Ctx.tref, trefF, Forest.has, hP.2]
    cases s <;> simp [locOwner, Loc.sat]
    cases tl with
    | nil => simp [hP.1]
    | cons x tl => simp

theorem idxF_sat {α} (seg : Nat → Seg) (kind : α → String) (ch : α → Forest) (hinj : ∀ a b, seg a = seg b → a = b)
    (sub : α → Path → Loc) (P : TyExpr → Path → Prop) (h : ∀ x r, (r = [] ∨ (ch x).has r) ↔ (sub x r).sat P)
    (xs : List α) (k : Nat) (r : Path) :
    (idxF seg kind ch 0 xs).has (seg k :: r) ↔ ∃ x, xs[k]? = some x ∧ (sub x r).sat P := by
  rw [idxF_has seg kind ch hinj xs 0]
  constructor
  · rintro ⟨k', x, r', hp, hk, hr⟩
    simp only [Nat.zero_add, List.cons.injEq] at hp
    obtain ⟨hk', rfl⟩ := hp
    cases hinj _ _ hk'
    exact ⟨x, hk, (h x r).mp hr⟩
  · rintro ⟨x, hk, hs⟩
    exact ⟨k, x, r, by simp, hk, (h x r).mpr hs⟩

theorem idxF_has_seg {α} (seg : Nat → Seg) (kind : α → String) (ch : α → Forest) (hinj : ∀ a b, seg a = seg b → a = b)
    (xs : List α) (p : Path) (h : (idxF seg kind ch 0 xs).has p) : ∃ k r, p = seg k :: r := by
  obtain ⟨k, x, r, hp, _, _⟩ := (idxF_has seg kind ch hinj xs 0 p).mp h
  exact ⟨k, r, by simpa using hp⟩

theorem locFields_sat (P : TyExpr → Path → Prop) (fs : List Field) (k : Nat) (r : Path) :
    (locFields fs (.f k :: r)).sat P ↔ ∃ x, fs[k]? = some x ∧ (locOwner x.ty r).sat P := by
  simp only [locFields]; cases fs[k]? <;> simp [Loc.sat]

theorem locParams_sat (P : TyExpr → Path → Prop) (ps : List Param) (k : Nat) (r : Path) :
    (locParams ps k r).sat P ↔ ∃ x, ps[k]? = some x ∧ (locOwner x.ty r).sat P := by
  simp only [locParams]; cases ps[k]? <;> simp [Loc.sat]

theorem fields_sat (c : Ctx) (P : TyExpr → Path → Prop) (hP : TyLevel c P) (fs : List Field) (p : Path) :
    (fieldsF c fs).has p ↔ (locFields fs p).sat P := by
  have hinj : ∀ a b, Seg.f a = Seg.f b → a = b := by intro a b h; cases h; rfl
  have key := fun k r => idxF_sat .f (fun _ => "field") (fun fl => c.tref fl.ty) hinj (fun fl => locOwner fl.ty) P
    (fun x r => owner_sat c P hP x.ty r) fs k r
  constructor
  · intro h
    obtain ⟨k, r, rfl⟩ := idxF_has_seg _ _ _ hinj fs p h
    exact (locFields_sat P fs k r).mpr ((key k r).mp h)
  · intro h
    cases p with
    | nil => simp [locFields, Loc.sat] at h
    | cons s r =>
      cases s <;> try (simp [locFields, Loc.sat] at h; done)
      exact (key _ r).mpr ((locFields_sat P fs _ r).mp h)

theorem params_sat (c : Ctx) (P : TyExpr → Path → Prop) (hP : TyLevel c P) (seg : Nat → Seg)
    (hinj : ∀ a b, seg a = seg b → a = b) (ps : List Param) (k : Nat) (r : Path) :
    (paramsF c seg ps).has (seg k :: r) ↔ (locParams ps k r).sat P := by
  unfold paramsF
  exact (idxF_sat seg (fun _ => "parameter") (fun pa => c.tref pa.ty) hinj (fun pa => locOwner pa.ty) P
    (fun x r => owner_sat c P hP x.ty r) ps k r).trans (locParams_sat P ps k r).symm

theorem op_sat (c : Ctx) (P : TyExpr → Path → Prop) (hP : TyLevel c P) (o : Op) (p : Path) :
    (p = [] ∨ (opF c o).has p) ↔ (locOp o p).sat P := by
  have hp : ∀ a b, Seg.p a = Seg.p b → a = b := by intro a b h; cases h; rfl
  have hr : ∀ a b, Seg.r a = Seg.r b → a = b := by intro a b h; cases h; rfl
  cases p with
  | nil => simp [locOp, Loc.sat]
  | cons s tl =>
    simp only [opF, has_append, List.cons_ne_nil, false_or]
    constructor
    · rintro (h | h)
      · obtain ⟨k, r, hkr⟩ := idxF_has_seg _ _ _ hp _ _ h
        cases hkr
        exact (params_sat c P hP .p hp _ _ _).mp h
      · obtain ⟨k, r, hkr⟩ := idxF_has_seg _ _ _ hr _ _ h
        cases hkr
        exact (params_sat c P hP .r hr _ _ _).mp h
    · intro h
      cases s <;> try (simp [locOp, Loc.sat] at h; done)
      · exact Or.inl ((params_sat c P hP .p hp _ _ _).mpr h)
      · exact Or.inr ((params_sat c P hP .r hr _ _ _).mpr h)

theorem enumerator_sat (c : Ctx) (P : TyExpr → Path → Prop) (hP : TyLevel c P) (en : Enumerator) (p : Path) :
    (p = [] ∨ (enumeratorF c en).has p) ↔ (locEnumerator en p).sat P := by
  cases p with
  | nil => simp [locEnumerator, Loc.sat]
  | cons s tl =>
    simp only [enumeratorF, locEnumerator, List.cons_ne_nil, false_or]
    cases en.fields with
    | none => simp [Forest.has, Loc.sat]
    | some fs => exact fields_sat c P hP fs _

theorem locDef_iface_sat (P : TyExpr → Path → Prop) (a b c' d) (ops : List Op) (k : Nat) (r : Path) :
    (locDef (.iface a b c' d ops) (.o k :: r)).sat P ↔ ∃ x, ops[k]? = some x ∧ (locOp x r).sat P := by
  simp only [locDef]; cases ops[k]? <;> simp [Loc.sat]

theorem locDef_enum_sat (P : TyExpr → Path → Prop) (a b c' d e g) (es : List Enumerator) (k : Nat) (r : Path) :
    (locDef (.enum a b c' d e g es) (.e k :: r)).sat P ↔ ∃ x, es[k]? = some x ∧ (locEnumerator x r).sat P := by
  simp only [locDef]; cases es[k]? <;> simp [Loc.sat]

theorem def_sat (c : Ctx) (P : TyExpr → Path → Prop) (hP : TyLevel c P) (d : Def) (p : Path) :
    (p = [] ∨ (defF c d).has p) ↔ (locDef d p).sat P := by
  cases p with
  | nil => cases d <;> simp [locDef, Loc.sat]
  | cons s tl =>
    simp only [List.cons_ne_nil, false_or]
    cases d with
    | struct _ _ _ _ fs => simp only [defF, locDef]; exact fields_sat c P hP fs _
    | iface _ _ _ _ ops =>
      have hinj : ∀ a b, Seg.o a = Seg.o b → a = b := by intro a b h; cases h; rfl
      have key := fun k r => idxF_sat .o (fun _ => "operation") (opF c) hinj locOp P (op_sat c P hP) ops k r
      simp only [defF]
      constructor
      · intro h
        obtain ⟨k, r, hkr⟩ := idxF_has_seg _ _ _ hinj _ _ h
        cases hkr
        exact (locDef_iface_sat P _ _ _ _ ops _ _).mpr ((key _ _).mp h)
      · intro h
        cases s <;> try (simp [locDef, Loc.sat] at h; done)
        exact (key _ _).mpr ((locDef_iface_sat P _ _ _ _ ops _ _).mp h)
    | «enum» _ _ _ _ _ _ es =>
      have hinj : ∀ a b, Seg.e a = Seg.e b → a = b := by intro a b h; cases h; rfl
      have key := fun k r => idxF_sat .e (fun _ => "enumerator") (enumeratorF c) hinj locEnumerator P (enumerator_sat c P hP) es k r
      simp only [defF]
      constructor
      · intro h
        obtain ⟨k, r, hkr⟩ := idxF_has_seg _ _ _ hinj _ _ h
        cases hkr
        exact (locDef_enum_sat P _ _ _ _ _ _ es _ _).mpr ((key _ _).mp h)
      · intro h
        cases s <;> try (simp [locDef, Loc.sat] at h; done)
        exact (key _ _).mpr ((locDef_enum_sat P _ _ _ _ _ _ es _ _).mp h)
    | custom _ _ _ => simp [defF, locDef, Forest.has, Loc.sat]
    | «alias» _ _ _ ty =>
      have := owner_sat c P hP ty (s :: tl)
      simp only [List.cons_ne_nil, false_or] at this
      rw [defF, this]
      cases s <;> simp [locOwner, locDef, Loc.sat]

theorem locate_d_sat (P : TyExpr → Path → Prop) (f : SFile) (k : Nat) (r : Path) :
    (locate f (.d k :: r)).sat P ↔ ∃ x, f.defs[k]? = some x ∧ (locDef x r).sat P := by
  simp only [locate]; cases f.defs[k]? <;> simp [Loc.sat]

/-- the positions of the forest of a walk are exactly: the elements `locate` finds, and the positions `P` below the
    references of owners -/
theorem file_sat (c : Ctx) (P : TyExpr → Path → Prop) (hP : TyLevel c P) (f : SFile) (p : Path) :
    (fileF c f).has p ↔ (locate f p).sat P := by
  have hinj : ∀ a b, Seg.d a = Seg.d b → a = b := by intro a b h; cases h; rfl
  have key := fun k r => idxF_sat .d defKind (defF c) hinj locDef P (def_sat c P hP) f.defs k r
  unfold fileF
  simp only [Forest.has, has_append]
  constructor
  · rintro (rfl | ⟨tl, _, h⟩ | h | h)
    · simp [locate, Loc.sat]
    · exact absurd h (by simp)
    · cases hm : f.module with
      | none => simp [hm, Forest.has] at h
      | some m =>
        simp [hm, Forest.has] at h
        subst h
        simp [locate, Loc.sat, hm]
    · obtain ⟨k, r, hkr⟩ := idxF_has_seg _ _ _ hinj _ _ h
      cases hkr
      exact (locate_d_sat P f _ _).mpr ((key _ _).mp h)
  · intro h
    match p, h with
    | [.file], _ => exact Or.inl rfl
    | [.mod], h =>
      cases hm : f.module with
      | none => simp [locate, Loc.sat, hm] at h
      | some m => exact Or.inr (Or.inr (Or.inl (by simp [Forest.has])))
    | .d j :: tl, h =>
      exact Or.inr (Or.inr (Or.inr ((key j tl).mpr ((locate_d_sat P f j tl).mp h))))
    | [], h => simp [locate, Loc.sat] at h
    | .file :: _ :: _, h => simp [locate, Loc.sat] at h
    | .mod :: _ :: _, h => simp [locate, Loc.sat] at h
    | .f _ :: _, h => simp [locate, Loc.sat] at h
    | .o _ :: _, h => simp [locate, Loc.sat] at h
    | .p _ :: _, h => simp [locate, Loc.sat] at h
    | .r _ :: _, h => simp [locate, Loc.sat] at h
    | .e _ :: _, h => simp [locate, Loc.sat] at h
    | .t :: _, h => simp [locate, Loc.sat] at h
    | .te :: _, h => simp [locate, Loc.sat] at h
    | .tk :: _, h => simp [locate, Loc.sat] at h
    | .tv :: _, h => simp [locate, Loc.sat] at h
    | .ts :: _, h => simp [locate, Loc.sat] at h
    | .tf :: _, h => simp [locate, Loc.sat] at h

/-! ### a located reference position splits at the reference of its owner -/

/-- whenever `loc p = .ref ty r`, `p` is `q0 ++ .t :: r` for an owner at `q0` (its reference is at `q0 ++ [.t]`), and every
    position below that reference is located the same way -/
def Rooted (loc : Path → Loc) : Prop :=
  ∀ p ty r, loc p = .ref ty r → ∃ q0, p = q0 ++ .t :: r ∧ ∀ r', loc (q0 ++ .t :: r') = .ref ty r'

theorem rooted_cons {loc loc' : Path → Loc} (s : Seg) (hl : Rooted loc) (h : ∀ p', loc' (s :: p') = loc p')
    (p' : Path) (ty : TyExpr) (r : Path) (hr : loc' (s :: p') = .ref ty r) :
    ∃ q0, s :: p' = q0 ++ .t :: r ∧ ∀ r', loc' (q0 ++ .t :: r') = .ref ty r' := by
  rw [h] at hr
  obtain ⟨q0, rfl, hq⟩ := hl p' ty r hr
  exact ⟨s :: q0, rfl, fun r' => by rw [List.cons_append, h, hq]⟩

/-- the same for a level that only passes non-empty paths on (`loc' p = loc p` for `p ≠ []`) -/
theorem rooted_same {loc loc' : Path → Loc} (hl : Rooted loc) (h : ∀ s p', loc' (s :: p') = loc (s :: p'))
    (s : Seg) (p' : Path) (ty : TyExpr) (r : Path) (hr : loc' (s :: p') = .ref ty r) :
    ∃ q0, s :: p' = q0 ++ .t :: r ∧ ∀ r', loc' (q0 ++ .t :: r') = .ref ty r' := by
  rw [h] at hr
  obtain ⟨q0, hq, hq'⟩ := hl _ ty r hr
  refine ⟨q0, hq, fun r' => ?_⟩
  cases q0 with
  | nil => rw [List.nil_append, h]; exact hq' r'
  | cons x q0 => rw [List.cons_append, h, ← List.cons_append]; exact hq' r'

theorem rooted_owner (ty : TRef) : Rooted (locOwner ty) := by
  intro p ty' r h
  cases p with
  | nil => simp [locOwner] at h
  | cons s tl =>
    cases s <;> simp [locOwner] at h
    obtain ⟨rfl, rfl⟩ := h
    exact ⟨[], rfl, fun r' => by simp [locOwner]⟩

theorem rooted_fields (fs : List Field) : Rooted (locFields fs) := by
  intro p ty r h
  cases p with
  | nil => simp [locFields] at h
  | cons s tl =>
    cases s <;> try (simp [locFields] at h; done)
    rename_i k
    cases hk : fs[k]? with
    | none => simp [locFields, hk] at h
    | some fl => exact rooted_cons (.f k) (rooted_owner fl.ty) (fun p' => by simp [locFields, hk]) tl ty r h

theorem rooted_params (ps : List Param) (k : Nat) : Rooted (locParams ps k) := by
  intro p ty r h
  cases hk : ps[k]? with
  | none => simp [locParams, hk] at h
  | some pa =>
    have e : locParams ps k = locOwner pa.ty := by funext p; simp [locParams, hk]
    rw [e] at h ⊢
    exact rooted_owner pa.ty p ty r h

theorem rooted_op (o : Op) : Rooted (locOp o) := by
  intro p ty r h
  cases p with
  | nil => simp [locOp] at h
  | cons s tl =>
    cases s <;> try (simp [locOp] at h; done)
    · rename_i k
      exact rooted_cons (.p k) (rooted_params o.params k) (fun p' => by simp [locOp]) tl ty r h
    · rename_i k
      exact rooted_cons (.r k) (rooted_params (retParams o.ret) k) (fun p' => by simp [locOp]) tl ty r h

theorem rooted_enumerator (en : Enumerator) : Rooted (locEnumerator en) := by
  intro p ty r h
  cases p with
  | nil => simp [locEnumerator] at h
  | cons s tl =>
    cases hf : en.fields with
    | none => simp [locEnumerator, hf] at h
    | some fs => exact rooted_same (rooted_fields fs) (fun s tl => by simp [locEnumerator, hf]) s tl ty r h

theorem rooted_def (d : Def) : Rooted (locDef d) := by
  intro p ty r h
  cases p with
  | nil => cases d <;> simp [locDef] at h
  | cons s tl =>
    cases d with
    | struct _ _ _ _ fs => exact rooted_same (rooted_fields fs) (fun s tl => by simp [locDef]) s tl ty r h
    | iface _ _ _ _ ops =>
      cases s <;> try (simp [locDef] at h; done)
      rename_i k
      cases hk : ops[k]? with
      | none => simp [locDef, hk] at h
      | some o => exact rooted_cons (.o k) (rooted_op o) (fun p' => by simp [locDef, hk]) tl ty r h
    | «enum» _ _ _ _ _ _ es =>
      cases s <;> try (simp [locDef] at h; done)
      rename_i k
      cases hk : es[k]? with
      | none => simp [locDef, hk] at h
      | some en => exact rooted_cons (.e k) (rooted_enumerator en) (fun p' => by simp [locDef, hk]) tl ty r h
    | custom _ _ _ => simp [locDef] at h
    | «alias» _ _ _ ty0 =>
      cases s <;> try (simp [locDef] at h; done)
      simp [locDef] at h
      obtain ⟨rfl, rfl⟩ := h
      exact ⟨[], rfl, fun r' => by simp [locDef]⟩

theorem rooted_locate (f : SFile) : Rooted (locate f) := by
  intro p ty r h
  match p, h with
  | .d j :: tl, h =>
    cases hj : f.defs[j]? with
    | none => simp [locate, hj] at h
    | some d => exact rooted_cons (.d j) (rooted_def d) (fun p' => by simp [locate, hj]) tl ty r h
  | [], h => simp [locate] at h
  | [.file], h => simp [locate] at h
  | [.mod], h => cases hm : f.module <;> simp [locate, hm] at h
  | .file :: _ :: _, h => simp [locate] at h
  | .mod :: _ :: _, h => simp [locate] at h
  | .f _ :: _, h => simp [locate] at h
  | .o _ :: _, h => simp [locate] at h
  | .p _ :: _, h => simp [locate] at h
  | .r _ :: _, h => simp [locate] at h
  | .e _ :: _, h => simp [locate] at h
  | .t :: _, h => simp [locate] at h
  | .te :: _, h => simp [locate] at h
  | .tk :: _, h => simp [locate] at h
  | .tv :: _, h => simp [locate] at h
  | .ts :: _, h => simp [locate] at h
  | .tf :: _, h => simp [locate] at h

/-! ## written references and what lies below a name -/

/-- a written reference is located at/below the reference of an owner, and so is everything below it -/
theorem refAt_locate {f : SFile} {q : Path} {ty' : TyExpr} (h : refAt f q = some ty') :
    ∃ ty a, locate f q = .ref ty a ∧ subTy ty a = some ty' ∧ ∀ tl, locate f (q ++ tl) = .ref ty (a ++ tl) := by
  unfold refAt at h
  cases hl : locate f q with
  | elem => simp [hl] at h
  | none => simp [hl] at h
  | ref ty a =>
    simp only [hl] at h
    obtain ⟨q0, rfl, hq⟩ := rooted_locate f q ty a hl
    exact ⟨ty, a, rfl, h, fun tl => by rw [List.append_assoc, List.cons_append]; exact hq _⟩

/-- the position of a written reference is declared -/
theorem refAt_declared {f : SFile} {q : Path} {ty' : TyExpr} (h : refAt f q = some ty') : Declared f q := by
  obtain ⟨ty, a, hl, hs, _⟩ := refAt_locate h
  rw [declared_iff_locate, hl]
  exact (declaredTy_iff_subTy a ty).mpr ⟨ty', hs⟩

/-- conversely, a declared position is an element or a written reference -/
theorem declared_cases {f : SFile} {p : Path} (h : Declared f p) : locate f p = .elem ∨ ∃ ty, refAt f p = some ty := by
  rw [declared_iff_locate] at h
  unfold refAt
  cases hl : locate f p with
  | elem => exact Or.inl rfl
  | none => simp [hl, Loc.sat] at h
  | ref ty a =>
    simp only [hl, Loc.sat] at h
    exact Or.inr ((declaredTy_iff_subTy a ty).mp h)

/-- nothing is written below a name: below a written reference that is a name there is no written reference -/
theorem refAt_below_named {f : SFile} {q : Path} {id : String} (h : refAt f q = some (.named id)) (tl : Path) (htl : tl ≠ []) :
    refAt f (q ++ tl) = none ∧ ¬ Declared f (q ++ tl) := by
  obtain ⟨ty, a, hl, hs, hb⟩ := refAt_locate h
  have hsub : subTy ty (a ++ tl) = none := by
    rw [subTy_append, hs]
    cases tl with
    | nil => exact absurd rfl htl
    | cons x tl => exact subTy_named id x tl
  constructor
  · unfold refAt; rw [hb tl]; exact hsub
  · rw [declared_iff_locate, hb tl]
    simp only [Loc.sat]
    intro hd
    obtain ⟨ty', hty'⟩ := (declaredTy_iff_subTy _ ty).mp hd
    rw [hsub] at hty'; cases hty'

/-- **the positions of the forest of a walk**: the declared ones and, below every written name, what `InTy` gives for it -/
theorem file_has_split (c : Ctx) (f : SFile) (p : Path) :
    (fileF c f).has p ↔
      Declared f p ∨ ∃ q tl id, p = q ++ tl ∧ tl ≠ [] ∧ refAt f q = some (.named id) ∧ InTy c.table c.fuel c.scope (.named id) tl := by
  rw [file_sat c _ (tyLevel_InTy c) f p, declared_iff_locate]
  constructor
  · intro h
    cases hl : locate f p with
    | elem => exact Or.inl trivial
    | none => simp [hl, Loc.sat] at h
    | ref ty r =>
      simp only [hl, Loc.sat] at h ⊢
      rcases (InTy_split _ _ _ r ty).mp h with h | ⟨a, b, id, rfl, hb, hs, h⟩
      · exact Or.inl h
      · obtain ⟨q0, rfl, hq⟩ := rooted_locate f p ty _ hl
        refine Or.inr ⟨q0 ++ .t :: a, b, id, by simp, hb, ?_, h⟩
        unfold refAt; rw [hq a]; exact hs
  · rintro (h | ⟨q, tl, id, rfl, htl, hq, h⟩)
    · cases hl : locate f p with
      | elem => trivial
      | none => simp [hl, Loc.sat] at h
      | ref ty r =>
        simp only [hl, Loc.sat] at h ⊢
        exact (InTy_split _ _ _ r ty).mpr (Or.inl h)
    · obtain ⟨ty, a, _, hs, hb⟩ := refAt_locate hq
      rw [hb tl]
      exact (InTy_split _ _ _ _ ty).mpr (Or.inr ⟨a, tl, id, rfl, htl, hs, h⟩)

/-- a step below a written type is one of `.e .k .v .s .f` (element, key, value, success, failure) -/
theorem child_cls {ty c : TyExpr} {s : Seg} (h : TyExpr.child ty s = some c) : 9 ≤ s.cls := by
  cases s <;> first | (simp [Seg.cls]; done) | skip
  all_goals (exfalso; cases ty <;> simp [TyExpr.child] at h)

theorem subTy_cls : ∀ (a : Path) (ty ty' : TyExpr), subTy ty a = some ty' → ∀ s ∈ a, 9 ≤ s.cls
  | [], _, _, _, s, hs => by cases hs
  | x :: a, ty, ty', h, s, hs => by
    rw [subTy_cons] at h
    cases hc : TyExpr.child ty x with
    | none => simp [hc] at h
    | some c =>
      simp only [hc] at h
      rcases List.mem_cons.mp hs with rfl | hs
      · exact child_cls hc
      · exact subTy_cls a c ty' h s hs

/-- the position of a written reference is `owner ++ [.t]` followed by steps `.e .k .v .s .f` only -/
theorem refAt_shape {f : SFile} {q : Path} {ty' : TyExpr} (h : refAt f q = some ty') :
    ∃ q0 a, q = q0 ++ .t :: a ∧ ∀ s ∈ a, 9 ≤ s.cls := by
  unfold refAt at h
  cases hl : locate f q with
  | elem => simp [hl] at h
  | none => simp [hl] at h
  | ref ty a =>
    simp only [hl] at h
    obtain ⟨q0, rfl, _⟩ := rooted_locate f q ty a hl
    exact ⟨q0, a, rfl, subTy_cls a ty ty' h⟩

/-- … in particular it ends in `.t` or one of `.e .k .v .s .f`, never in `file`, `mod` or an indexed step -/
theorem refAt_last {f : SFile} {q : Path} {ty' : TyExpr} (h : refAt f q = some ty') :
    ∃ s, q.getLast? = some s ∧ 8 ≤ s.cls := by
  obtain ⟨q0, a, rfl, ha⟩ := refAt_shape h
  have hne : (Seg.t :: a) ≠ [] := by simp
  refine ⟨(Seg.t :: a).getLast hne, ?_, ?_⟩
  · rw [List.getLast?_append, List.getLast?_eq_some_getLast hne]; rfl
  · have hm := List.getLast_mem hne
    rcases List.mem_cons.mp hm with h' | h'
    · rw [h']; simp [Seg.cls]
    · exact Nat.le_trans (by decide) (ha _ h')

/-- **one use, one decomposition**: a path lies below at most one written name -/
theorem use_unique {f : SFile} {q q' tl tl' : Path} {id id' : String} (hq : refAt f q = some (.named id))
    (hq' : refAt f q' = some (.named id')) (htl : tl ≠ []) (htl' : tl' ≠ []) (h : q ++ tl = q' ++ tl') : q = q' ∧ tl = tl' := by
  rcases List.append_eq_append_iff.mp h with ⟨a, rfl, rfl⟩ | ⟨c, rfl, rfl⟩
  · cases a with
    | nil => simp
    | cons x a =>
      have := (refAt_below_named hq (x :: a) (by simp)).1
      rw [this] at hq'; cases hq'
  · cases c with
    | nil => simp
    | cons x c =>
      have := (refAt_below_named hq' (x :: c) (by simp)).1
      rw [this] at hq; cases hq

/-- `p` lies strictly below a written reference `q` of file `f` that names an alias of an anonymous type (the patcher bound
    it to the type expression `e` written in module scope `s`), at a position `tl` inside that type (`InTy`; aliases of
    anonymous types named inside `e` are entered in turn) -/
def BelowAlias (t : Table) (f : SFile) (p : Path) : Prop :=
  ∃ q tl id e s attrs, p = q ++ tl ∧ tl ≠ [] ∧ refAt f q = some (.named id) ∧
    resolveNamed t .type id (fileScope f) = .ok (.expr e s, attrs) ∧ InTy t (numAliases t) s e tl

theorem visitP_mem_iff (t : Table) (self : Nat) (f : SFile) (p : Path) :
    p ∈ (visitP t self f).map PEvent.path ↔ Declared f p ∨ BelowAlias t f p := by
  unfold visitP
  rw [mem_flat_iff]
  simp only [List.nil_append, exists_eq_right']
  rw [file_has_split]
  apply or_congr Iff.rfl
  unfold BelowAlias
  constructor
  · rintro ⟨q, tl, id, hp, htl, hq, h⟩
    obtain ⟨n, e, s, attrs, hn, hr, h'⟩ := (InTy_named _ _ _ id tl htl).mp h
    have : n = numAliases t := by simp [ctxOf, visitFuel] at hn; omega
    subst this
    exact ⟨q, tl, id, e, s, attrs, hp, htl, hq, hr, h'⟩
  · rintro ⟨q, tl, id, e, s, attrs, hp, htl, hq, hr, h⟩
    exact ⟨q, tl, id, hp, htl, hq, (InTy_named _ _ _ id tl htl).mpr ⟨numAliases t, e, s, attrs, rfl, hr, h⟩⟩

end Slicec.Visit
