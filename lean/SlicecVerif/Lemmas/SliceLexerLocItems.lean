/-
  Everything the printer writes for a well-formed, tight file is a tight text (C09): `itemsTight (fileItems f)`.
  Same walk over the printer functions as Lemmas/SliceLexerItems.lean, with the context-free predicate `itemTight`.
-/
import SlicecVerif.Lemmas.SliceLexerLoc
import SlicecVerif.Lemmas.SliceLexerItems
import SlicecVerif.Lemmas.SliceLexerNames

namespace Slicec.SLex

open Slicec

/-! ## combinators -/

theorem tight_nil : itemsTight [] = true := rfl

theorem tight_cons {it : Item} {r : List Item} (h1 : itemTight it = true) (h2 : itemsTight r = true) :
    itemsTight (it :: r) = true := by
  simp only [itemsTight, List.all_cons, Bool.and_eq_true]; exact ⟨h1, h2⟩

theorem tight_append {a b : List Item} (ha : itemsTight a = true) (hb : itemsTight b = true) : itemsTight (a ++ b) = true := by
  simp only [itemsTight, List.all_append, Bool.and_eq_true] at *; exact ⟨ha, hb⟩

theorem tight_flatMap {β : Type} (xs : List β) (f : β → List Item) (h : ∀ x ∈ xs, itemsTight (f x) = true) :
    itemsTight (xs.flatMap f) = true := by
  unfold itemsTight
  rw [List.all_flatMap, List.all_eq_true]
  exact h

theorem tight_ite (c : Bool) {a b : List Item} (ha : itemsTight a = true) (hb : itemsTight b = true) :
    itemsTight (if c then a else b) = true := by
  cases c
  · exact hb
  · exact ha

/-- a literal item list: markers and separators are tight by definition, constant spellings by evaluation -/
macro "tight_lit" : tactic =>
  `(tactic| repeat (first | exact tight_nil | refine tight_cons (by first | rfl | decide) ?_))

/-! ## spellings -/

theorem not_ws_of_wordChar (c : Char) (h : isWordChar c = true) : isWs c = false := by
  cases hw : isWs c with
  | false => rfl
  | true =>
    obtain ⟨_, _, _, _, _, _, _, _, _, _, h', _⟩ := ws_arms c (isWs_mem c hw)
    rw [h] at h'; cases h'

theorem not_slash_of_wordChar (c : Char) (h : isWordChar c = true) : c ≠ '/' := by
  intro e; subst e; revert h; decide

theorem tight_of_wordChars (cs : List Char) (hne : cs ≠ []) (h : ∀ c ∈ cs, isWordChar c = true) : tightText cs = true := by
  cases cs with
  | nil => exact absurd rfl hne
  | cons c r =>
    cases hq : (c :: r).getLast? with
    | none => simp at hq
    | some d =>
      have hd := h d (List.mem_of_getLast? hq)
      have hc := h c (by simp)
      simp only [tightText, List.head?_cons, hq, not_ws_of_wordChar c hc, not_ws_of_wordChar d hd, Bool.not_false, Bool.true_and,
        Bool.and_eq_true, bne_iff_ne, ne_eq]
      exact ⟨⟨not_slash_of_wordChar c hc, trivial⟩, not_slash_of_wordChar d hd⟩

theorem tight_word (s : String) (h : isIdentText s.toList = true) : itemTight (.tok s) = true := by
  show tightText s.toList = true
  cases hq : s.toList with
  | nil => rw [hq] at h; simp [isIdentText] at h
  | cons c r =>
    rw [hq] at h
    simp only [isIdentText, Bool.and_eq_true, List.all_eq_true] at h
    refine tight_of_wordChars _ (by simp) ?_
    intro x hx
    rcases List.mem_cons.mp hx with rfl | hx
    · exact isWordChar_of_isAlpha _ h.1
    · exact h.2 x hx

theorem isWordChar_of_isDigit (c : Char) (h : c.isDigit = true) : isWordChar c = true := by
  simp [isWordChar, Char.isAlphanum, h]

theorem tight_int (s : String) (h : isIntText s.toList = true) : itemTight (.tok s) = true := by
  show tightText s.toList = true
  cases hq : s.toList with
  | nil => rw [hq] at h; simp [isIntText] at h
  | cons c r =>
    rw [hq] at h
    simp only [isIntText, Bool.and_eq_true, List.all_eq_true] at h
    refine tight_of_wordChars _ (by simp) ?_
    intro x hx
    rcases List.mem_cons.mp hx with rfl | hx
    · exact isWordChar_of_isDigit _ h.1
    · exact h.2 x hx

theorem tight_quoted (x : String) : itemTight (.tok ("\"" ++ escapeStrLit x ++ "\"")) = true := by
  show tightText ("\"" ++ escapeStrLit x ++ "\"").toList = true
  rw [quoted_toList]
  have hl : ('"' :: (escL x.toList ++ ['"'])).getLast? = some '"' := by
    rw [← List.cons_append, getLast?_append_of_ne_nil _ _ (by simp)]; rfl
  simp only [tightText, List.head?_cons, hl]
  decide

/-- one attribute argument: a bare identifier or a quoted string -/
theorem tight_arg (x : String) :
    itemTight (if isIdentLike x && !(keywords.contains x) then Item.tok x else Item.tok ("\"" ++ escapeStrLit x ++ "\"")) = true := by
  split
  · rename_i hc
    simp only [Bool.and_eq_true] at hc
    exact tight_word x (by rw [← isIdentLike_eq]; exact hc.1)
  · exact tight_quoted x

/-! ## the printer's item lists -/

theorem tight_attr (path : String) (a : Attr) (h : attrTight a = true) : itemsTight (attrItems path a) = true := by
  unfold attrItems
  refine tight_append (tight_append (tight_cons rfl (tight_cons h tight_nil)) ?_) (by tight_lit)
  refine tight_ite _ tight_nil ?_
  refine tight_append (tight_append (by tight_lit) (tight_flatMap _ _ ?_)) (by tight_lit)
  intro p _
  obtain ⟨x, i⟩ := p
  dsimp only
  exact tight_append (tight_ite _ (by tight_lit) (by tight_lit)) (tight_cons (tight_arg x) tight_nil)

theorem tight_localAttrsWith (sfx path : String) (as : List Attr) (sep : Item) (h : as.all attrTight = true)
    (hsep : itemTight sep = true) : itemsTight (localAttrsWith sfx path as sep) = true := by
  unfold localAttrsWith
  refine tight_flatMap _ _ ?_
  intro p hp
  obtain ⟨a, i⟩ := p
  have ha := all_mem _ _ h a (List.fst_mem_of_mem_zipIdx hp)
  dsimp only
  exact tight_append (tight_append (by tight_lit) (tight_attr _ a ha))
    (tight_cons rfl (tight_cons (by decide) (tight_cons hsep tight_nil)))

theorem tight_localAttrs (path : String) (as : List Attr) (sep : Item) (h : as.all attrTight = true)
    (hsep : itemTight sep = true) : itemsTight (localAttrs path as sep) = true :=
  tight_localAttrsWith ".a" path as sep h hsep

mutual
theorem tight_ty : ∀ (path : String) (t : TyExpr), tyTight t = true → itemsTight (tyItems path t) = true
  | path, .prim p, _ => by
    simp only [tyItems]
    exact tight_cons (tight_word _ (prim_kw_ident p)) tight_nil
  | path, .named id, h => by
    simp only [tyItems]
    simp only [tyTight] at h
    exact tight_cons h tight_nil
  | path, .seq e, h => by
    simp only [tyItems]
    simp only [tyTight] at h
    exact tight_append (tight_append (by tight_lit) (tight_tref _ e h)) (by tight_lit)
  | path, .dict k v, h => by
    simp only [tyItems]
    simp only [tyTight, Bool.and_eq_true] at h
    exact tight_append (tight_append (tight_append (tight_append (by tight_lit) (tight_tref _ k h.1)) (by tight_lit))
      (tight_tref _ v h.2)) (by tight_lit)
  | path, .result s f, h => by
    simp only [tyItems]
    simp only [tyTight, Bool.and_eq_true] at h
    exact tight_append (tight_append (tight_append (tight_append (by tight_lit) (tight_tref _ s h.1)) (by tight_lit))
      (tight_tref _ f h.2)) (by tight_lit)
theorem tight_tref : ∀ (path : String) (t : TRef), trefTight t = true → itemsTight (trefItems path t) = true
  | path, .mk attrs ty opt, h => by
    simp only [trefItems]
    simp only [trefTight, Bool.and_eq_true] at h
    exact tight_append (tight_append (tight_append (tight_append (by tight_lit) (tight_localAttrsWith _ _ _ _ h.1 rfl))
      (tight_ty path ty h.2)) (tight_ite _ (by tight_lit) tight_nil)) (by tight_lit)
end

theorem tight_minus_int (neg : Bool) (l : IntLit) (hl : intLitOk l = true) (r : List Item) (hr : itemsTight r = true) :
    itemsTight ((if neg then [Item.tok "-", .glue] else []) ++ (.tok l.magText :: r)) = true :=
  tight_append (tight_ite _ (by tight_lit) tight_nil) (tight_cons (tight_int _ (magText_int l hl)) hr)

theorem tight_tag (path : String) (t : Option IntLit) (h : tagOk t = true) : itemsTight (tagItems path t) = true := by
  cases t with
  | none => rfl
  | some l =>
    simp only [tagItems]
    have := tight_append (a := [.tok "tag", .glue, .tok "(", .glue, .op (path ++ ".tag")]) (by tight_lit)
      (tight_minus_int l.neg l h [.cl (path ++ ".tag"), .glue, .tok ")", .sp] (by tight_lit))
    simpa [List.append_assoc] using this

theorem tight_doc (doc : List String) (indent : Nat) (h : docOk doc = true) (ht : docTight doc = true) :
    itemsTight (docItems doc indent) = true := by
  unfold docItems
  refine tight_flatMap _ _ ?_
  intro l hl
  have h1 : l.toList.contains '\n' = false := by
    simp only [docOk, List.all_eq_true, Bool.not_eq_true'] at h
    exact h l hl
  have h2 := all_mem _ _ ht l hl
  refine tight_cons ?_ (by tight_lit)
  simp only [itemTight, h1, Bool.not_false, Bool.and_true]
  exact h2

theorem tight_ident (path name : String) : itemsTight (identItems path name) = true := by
  unfold identItems; tight_lit

theorem tight_sepInl (inl : Bool) (indent : Nat) : itemTight (if inl then Item.sp else Item.nl indent) = true := by
  cases inl <;> rfl

theorem tight_field (path : String) (indent : Nat) (inl : Bool) (f : Field) (h : fieldOk f = true) (ht : fieldTight f = true) :
    itemsTight (fieldItems path indent inl f) = true := by
  simp only [fieldOk, Bool.and_eq_true] at h
  obtain ⟨⟨⟨⟨hdoc, _⟩, htag⟩, _⟩, _⟩ := h
  simp only [fieldTight, Bool.and_eq_true] at ht
  obtain ⟨⟨tdoc, tattrs⟩, tty⟩ := ht
  unfold fieldItems
  exact tight_append (tight_append (tight_append (tight_append (tight_append (tight_append (tight_append
    (tight_doc _ _ hdoc tdoc) (tight_localAttrs _ _ _ tattrs (tight_sepInl inl indent))) (by tight_lit)) (tight_tag _ _ htag))
    (tight_ident _ _)) (by tight_lit)) (tight_tref _ _ tty)) (by tight_lit)

theorem tight_stream (b : Bool) : itemsTight (if b then [Item.tok "stream", .sp] else []) = true :=
  tight_ite b (by tight_lit) tight_nil

theorem tight_param (path : String) (p : Param) (h : paramOk p = true) (ht : paramTight p = true) :
    itemsTight (paramItems path p) = true := by
  simp only [paramOk, Bool.and_eq_true] at h
  obtain ⟨⟨⟨_, htag⟩, _⟩, _⟩ := h
  simp only [paramTight, Bool.and_eq_true] at ht
  unfold paramItems
  exact tight_append (tight_append (tight_append (tight_append (tight_append (tight_append (tight_append
    (tight_localAttrs _ _ _ ht.1 rfl) (by tight_lit)) (tight_tag _ _ htag))
    (tight_ident _ _)) (by tight_lit)) (tight_stream _)) (tight_tref _ _ ht.2)) (by tight_lit)

theorem tight_commaSep (xs : List (List Item)) (h : ∀ x ∈ xs, itemsTight x = true) : itemsTight (commaSep xs) = true := by
  unfold commaSep
  refine tight_flatMap _ _ ?_
  intro p hp
  obtain ⟨x, i⟩ := p
  dsimp only
  exact tight_append (tight_ite _ tight_nil (by tight_lit)) (h x (List.fst_mem_of_mem_zipIdx hp))

theorem mem_zipIdx_map2 {α : Type} (xs : List α) (g : α × Nat → List Item) (P Q : α → Prop) (R : List Item → Prop)
    (hP : ∀ x ∈ xs, P x) (hQ : ∀ x ∈ xs, Q x) (h : ∀ x i, P x → Q x → R (g (x, i))) : ∀ m ∈ xs.zipIdx.map g, R m := by
  intro m hm
  obtain ⟨p, hp, rfl⟩ := List.mem_map.mp hm
  obtain ⟨x, i⟩ := p
  exact h x i (hP x (List.fst_mem_of_mem_zipIdx hp)) (hQ x (List.fst_mem_of_mem_zipIdx hp))

theorem tight_params (path : String) (sfx : String) (ps : List Param) (h : ps.all paramOk = true) (ht : ps.all paramTight = true) :
    itemsTight (commaSep (ps.zipIdx.map fun (p, i) => paramItems (path ++ sfx ++ toString i) p)) = true :=
  tight_commaSep _ (mem_zipIdx_map2 ps _ (fun p => paramOk p = true) (fun p => paramTight p = true)
    (fun m => itemsTight m = true) (all_mem _ _ h) (all_mem _ _ ht) (fun p _ hp hq => tight_param _ p hp hq))

theorem tight_ret (path : String) (r : Ret) (h : retOk r = true) (ht : retTight r = true) : itemsTight (retItems path r) = true := by
  cases r with
  | none => rfl
  | single tag stream ty =>
    simp only [retOk, Bool.and_eq_true] at h
    simp only [retTight] at ht
    simp only [retItems]
    exact tight_append (tight_append (tight_append (tight_append (by tight_lit) (tight_tag _ _ h.1)) (tight_stream _))
      (tight_tref _ _ ht)) (by tight_lit)
  | tuple ps =>
    simp only [retOk] at h
    simp only [retTight] at ht
    simp only [retItems]
    exact tight_append (tight_append (by tight_lit) (tight_params path ".r" ps h ht)) (by tight_lit)

theorem tight_op (path : String) (o : Op) (h : opOk o = true) (ht : opTight o = true) : itemsTight (opItems path o) = true := by
  simp only [opOk, Bool.and_eq_true] at h
  obtain ⟨⟨⟨⟨hdoc, _⟩, _⟩, hparams⟩, hret⟩ := h
  simp only [opTight, Bool.and_eq_true] at ht
  obtain ⟨⟨⟨tdoc, tattrs⟩, tparams⟩, tret⟩ := ht
  unfold opItems
  exact tight_append (tight_append (tight_append (tight_append (tight_append (tight_append (tight_append (tight_append (tight_append
    (tight_doc _ _ hdoc tdoc) (tight_localAttrs _ _ _ tattrs rfl)) (by tight_lit)) (tight_ite _ (by tight_lit) tight_nil))
    (tight_ident _ _)) (by tight_lit)) (tight_params path ".p" o.params hparams tparams)) (by tight_lit))
    (tight_ret _ _ hret tret)) (by tight_lit)

theorem tight_enumerator (path : String) (e : Enumerator) (h : enumeratorOk e = true) (ht : enumeratorTight e = true) :
    itemsTight (enumeratorItems path e) = true := by
  simp only [enumeratorOk, Bool.and_eq_true] at h
  obtain ⟨⟨⟨⟨hdoc, _⟩, _⟩, hfields⟩, hval⟩ := h
  simp only [enumeratorTight, Bool.and_eq_true] at ht
  obtain ⟨⟨tdoc, tattrs⟩, tfields⟩ := ht
  unfold enumeratorItems
  have t5 : itemsTight
      (match e.fields with
       | none => []
       | some fs => [.glue, .tok "(", .glue] ++
          commaSep (fs.zipIdx.map fun (f, i) => fieldItems (path ++ ".f" ++ toString i) 1 true f) ++ [.glue, .tok ")"]) = true := by
    cases hf : e.fields with
    | none => rfl
    | some fs =>
      rw [hf] at hfields tfields
      simp only [] at hfields tfields ⊢
      refine tight_append (tight_append (by tight_lit) (tight_commaSep _ ?_)) (by tight_lit)
      exact mem_zipIdx_map2 fs _ (fun f => fieldOk f = true) (fun f => fieldTight f = true) (fun m => itemsTight m = true)
        (all_mem _ _ hfields) (all_mem _ _ tfields) (fun f _ hf hq => tight_field _ 1 true f hf hq)
  have t6 : itemsTight
      (match e.value with
       | none => []
       | some l => [.sp, .tok "=", .sp, .op (path ++ ".val")] ++ (if l.neg then [.tok "-", .glue] else []) ++
          [.tok l.magText, .cl (path ++ ".val")]) = true := by
    cases hv : e.value with
    | none => rfl
    | some l =>
      rw [hv] at hval
      simp only [] at hval ⊢
      have := tight_append (a := [.sp, .tok "=", .sp, .op (path ++ ".val")]) (by tight_lit)
        (tight_minus_int l.neg l hval [.cl (path ++ ".val")] (by tight_lit))
      simpa [List.append_assoc] using this
  exact tight_append (tight_append (tight_append (tight_append (tight_append (tight_append
    (tight_doc _ _ hdoc tdoc) (tight_localAttrs _ _ _ tattrs rfl)) (by tight_lit)) (tight_ident _ _)) t5) t6) (by tight_lit)

theorem tight_membersBlock (ms : List (List Item)) (h : ∀ m ∈ ms, itemsTight m = true) : itemsTight (membersBlock ms) = true := by
  unfold membersBlock
  refine tight_append (tight_append (by tight_lit) (tight_flatMap _ _ ?_)) (by tight_lit)
  intro m hm
  exact tight_append (tight_append (by tight_lit) (h m hm)) (by tight_lit)

theorem tight_def_head (path : String) (doc : List String) (attrs : List Attr) (hdoc : docOk doc = true) (tdoc : docTight doc = true)
    (tattrs : attrs.all attrTight = true) : itemsTight (docItems doc 0 ++ localAttrs path attrs (.nl 0)) = true :=
  tight_append (tight_doc _ _ hdoc tdoc) (tight_localAttrs _ _ _ tattrs rfl)

theorem tight_flag (b : Bool) (kw : String) (hid : isIdentText kw.toList = true) :
    itemsTight (if b then [Item.tok kw, .sp] else []) = true :=
  tight_ite b (tight_cons (tight_word kw hid) (by tight_lit)) tight_nil

theorem tight_def (path : String) (d : Def) (h : defOk d = true) (ht : defTight d = true) : itemsTight (defItems path d) = true := by
  cases d with
  | struct doc attrs compact name fields =>
    simp only [defOk, Bool.and_eq_true] at h
    obtain ⟨⟨⟨hdoc, _⟩, _⟩, hfields⟩ := h
    simp only [defTight, Bool.and_eq_true] at ht
    obtain ⟨⟨tdoc, tattrs⟩, tfields⟩ := ht
    simp only [defItems]
    have t8 := tight_membersBlock (fields.zipIdx.map fun (f, i) => fieldItems (path ++ ".f" ++ toString i) 1 false f)
      (mem_zipIdx_map2 fields _ (fun f => fieldOk f = true) (fun f => fieldTight f = true) (fun m => itemsTight m = true)
        (all_mem _ _ hfields) (all_mem _ _ tfields) (fun f i hf hq => tight_field _ 1 false f hf hq))
    exact tight_append (tight_append (tight_append (tight_append (tight_append (tight_append
      (tight_def_head path doc attrs hdoc tdoc tattrs) (by tight_lit)) (tight_flag compact "compact" (by decide)))
      (by tight_lit)) (tight_ident _ _)) (by tight_lit)) t8
  | iface doc attrs name bases ops =>
    simp only [defOk, Bool.and_eq_true] at h
    obtain ⟨⟨⟨⟨hdoc, _⟩, _⟩, _⟩, hops⟩ := h
    simp only [defTight, Bool.and_eq_true] at ht
    obtain ⟨⟨⟨tdoc, tattrs⟩, tbases⟩, tops⟩ := ht
    simp only [defItems]
    have t6 : itemsTight (if bases.isEmpty then [] else [.sp, .tok ":", .sp] ++
        (bases.zipIdx.flatMap fun (b, i) => (if i == 0 then [] else [.glue, .tok ",", .sp]) ++ trefItems (path ++ ".b" ++ toString i) b)) = true := by
      refine tight_ite _ tight_nil (tight_append (by tight_lit) (tight_flatMap _ _ ?_))
      intro p hp
      obtain ⟨b, i⟩ := p
      dsimp only
      exact tight_append (tight_ite _ tight_nil (by tight_lit))
        (tight_tref _ b (all_mem _ _ tbases b (List.fst_mem_of_mem_zipIdx hp)))
    have t8 : itemsTight (ops.zipIdx.flatMap fun (o, i) => [.nl 1] ++ opItems (path ++ ".o" ++ toString i) o) = true := by
      refine tight_flatMap _ _ ?_
      intro p hp
      obtain ⟨o, i⟩ := p
      dsimp only
      exact tight_append (by tight_lit) (tight_op _ o (all_mem _ _ hops o (List.fst_mem_of_mem_zipIdx hp))
        (all_mem _ _ tops o (List.fst_mem_of_mem_zipIdx hp)))
    exact tight_append (tight_append (tight_append (tight_append (tight_append (tight_append (tight_append
      (tight_def_head path doc attrs hdoc tdoc tattrs) (by tight_lit)) (tight_ident _ _)) (by tight_lit)) t6) (by tight_lit)) t8)
      (by tight_lit)
  | enum doc attrs compact unchecked name underlying es =>
    simp only [defOk, Bool.and_eq_true] at h
    obtain ⟨⟨⟨⟨hdoc, _⟩, _⟩, _⟩, hes⟩ := h
    simp only [defTight, Bool.and_eq_true] at ht
    obtain ⟨⟨⟨tdoc, tattrs⟩, tund⟩, tes⟩ := ht
    simp only [defItems]
    have t9 : itemsTight (match (generalizing := false) underlying with
        | none => [] | some u => [.sp, .tok ":", .sp] ++ trefItems (path ++ ".u") u) = true := by
      cases underlying with
      | none => rfl
      | some u =>
        simp only [] at tund ⊢
        exact tight_append (by tight_lit) (tight_tref _ u tund)
    have t10 := tight_membersBlock (es.zipIdx.map fun (e, i) => enumeratorItems (path ++ ".e" ++ toString i) e)
      (mem_zipIdx_map2 es _ (fun e => enumeratorOk e = true) (fun e => enumeratorTight e = true) (fun m => itemsTight m = true)
        (all_mem _ _ hes) (all_mem _ _ tes) (fun e i he hq => tight_enumerator _ e he hq))
    exact tight_append (tight_append (tight_append (tight_append (tight_append (tight_append (tight_append (tight_append
      (tight_def_head path doc attrs hdoc tdoc tattrs) (by tight_lit)) (tight_flag compact "compact" (by decide)))
      (tight_flag unchecked "unchecked" (by decide))) (by tight_lit)) (tight_ident _ _)) (by tight_lit)) t9) t10
  | custom doc attrs name =>
    simp only [defOk, Bool.and_eq_true] at h
    simp only [defTight, Bool.and_eq_true] at ht
    simp only [defItems]
    exact tight_append (tight_append (tight_append (tight_def_head path doc attrs h.1.1 ht.1 ht.2) (by tight_lit))
      (tight_ident _ _)) (by tight_lit)
  | alias doc attrs name ty =>
    simp only [defOk, Bool.and_eq_true] at h
    simp only [defTight, Bool.and_eq_true] at ht
    simp only [defItems]
    exact tight_append (tight_append (tight_append (tight_append (tight_append
      (tight_def_head path doc attrs h.1.1.1 ht.1.1 ht.1.2) (by tight_lit)) (tight_ident _ _)) (by tight_lit)) (by tight_lit))
      (tight_tref _ _ ht.2)

/-- **Everything the printer writes for a well-formed, tight file starts and ends with a token.** -/
theorem itemsTight_fileItems (f : SFile) (h : fileOk f = true) (ht : fileTight f = true) : itemsTight (fileItems f) = true := by
  simp only [fileOk, Bool.and_eq_true] at h
  obtain ⟨⟨_, _⟩, hdefs⟩ := h
  simp only [fileTight, Bool.and_eq_true] at ht
  obtain ⟨⟨tfa, tmod⟩, tdefs⟩ := ht
  unfold fileItems
  have p1 : itemsTight (f.fileAttrs.zipIdx.flatMap fun (a, i) =>
      [.tok "[[", .glue] ++ attrItems ("fa" ++ toString i) a ++ [.glue, .tok "]]", .nl 0]) = true := by
    refine tight_flatMap _ _ ?_
    intro p hp
    obtain ⟨a, i⟩ := p
    dsimp only
    exact tight_append (tight_append (by tight_lit) (tight_attr _ a (all_mem _ _ tfa a (List.fst_mem_of_mem_zipIdx hp)))) (by tight_lit)
  have p2 : itemsTight (match f.module with
      | none => []
      | some m => localAttrs "mod" m.attrs (.nl 0) ++
          [.op "mod", .tok "module", .sp, .op "mod.id", .tok (escapeScoped m.path), .cl "mod.id", .cl "mod", .nl 0]) = true := by
    cases hm : f.module with
    | none => rfl
    | some m =>
      rw [hm] at tmod
      simp only [Bool.and_eq_true] at tmod ⊢
      exact tight_append (tight_localAttrs _ _ _ tmod.1 rfl)
        (tight_cons rfl (tight_cons (by decide) (tight_cons rfl (tight_cons rfl (tight_cons tmod.2 (by tight_lit))))))
  have p3 : itemsTight (f.defs.zipIdx.flatMap fun (d, i) => [.nl 0] ++ defItems ("d" ++ toString i) d ++ [.nl 0]) = true := by
    refine tight_flatMap _ _ ?_
    intro p hp
    obtain ⟨d, i⟩ := p
    dsimp only
    exact tight_append (tight_append (by tight_lit) (tight_def _ d (all_mem _ _ hdefs d (List.fst_mem_of_mem_zipIdx hp))
      (all_mem _ _ tdefs d (List.fst_mem_of_mem_zipIdx hp)))) (by tight_lit)
  exact tight_append (tight_append p1 p2) p3


/-! ## a syntactic criterion for tight names: `::`-joined identifiers -/

theorem tightText_iff (cs : List Char) :
    tightText cs = true ↔ ∃ c d, cs.head? = some c ∧ cs.getLast? = some d ∧ isWs c = false ∧ c ≠ '/' ∧ isWs d = false ∧ d ≠ '/' := by
  unfold tightText
  cases h1 : cs.head? with
  | none => simp
  | some c =>
    cases h2 : cs.getLast? with
    | none => simp
    | some d => simp [and_assoc]

/-- text that starts with a tight text and ends with a tight text is tight, whatever is in between -/
theorem tightText_append_mid (u m v : List Char) (hu : tightText u = true) (hv : tightText v = true) :
    tightText (u ++ m ++ v) = true := by
  obtain ⟨c, _, hc, _, h1, h2, _, _⟩ := (tightText_iff u).mp hu
  obtain ⟨_, d, _, hd, _, _, h3, h4⟩ := (tightText_iff v).mp hv
  have hune : u ≠ [] := by intro e; rw [e] at hc; cases hc
  have hvne : v ≠ [] := by intro e; rw [e] at hd; cases hd
  refine (tightText_iff _).mpr ⟨c, d, ?_, ?_, h1, h2, h3, h4⟩
  · rw [List.append_assoc, List.head?_append, hc]; rfl
  · rw [getLast?_append_of_ne_nil _ _ hvne]; exact hd

theorem tightText_segForm (a : Bool) (w : List Char) (h : SegForm a w) : tightText w = true := by
  obtain ⟨v, hv, h | h⟩ := h
  · rw [h.1]
    have := tight_word (String.ofList v) (by rw [String.toList_ofList]; exact hv)
    simpa [itemTight] using this
  · subst h
    have hvt : tightText v = true := by
      have := tight_word (String.ofList v) (by rw [String.toList_ofList]; exact hv)
      simpa [itemTight] using this
    obtain ⟨_, d, _, hd, _, _, h3, h4⟩ := (tightText_iff v).mp hvt
    have hvne : v ≠ [] := by intro e; rw [e] at hd; cases hd
    refine (tightText_iff _).mpr ⟨'\\', d, rfl, ?_, by decide, by decide, h3, h4⟩
    have : ('\\' :: v) = ['\\'] ++ v := rfl
    rw [this, getLast?_append_of_ne_nil _ _ hvne]; exact hd

theorem tightText_joined (a : Bool) (ws : List (List Char)) (hne : ws ≠ []) (h : ∀ w ∈ ws, SegForm a w) :
    tightText ([':', ':'].intercalate ws) = true := by
  induction ws with
  | nil => exact absurd rfl hne
  | cons w rest ih =>
    cases rest with
    | nil => rw [List.intercalate_singleton]; exact tightText_segForm a w (h w (by simp))
    | cons w' rest' =>
      rw [List.intercalate_cons_cons]
      exact tightText_append_mid w [':', ':'] _ (tightText_segForm a w (h w (by simp)))
        (ih (by simp) (fun x hx => h x (by simp [hx])))

theorem tightText_joined_global (a : Bool) (ws : List (List Char)) (hne : ws ≠ []) (h : ∀ w ∈ ws, SegForm a w) :
    tightText ([':', ':'].intercalate ([] :: ws)) = true := by
  have ht := tightText_joined a ws hne h
  cases ws with
  | nil => exact absurd rfl hne
  | cons w rest =>
    rw [List.intercalate_cons_cons]
    generalize [':', ':'].intercalate (w :: rest) = T at ht
    obtain ⟨_, d, _, hd, _, _, h3, h4⟩ := (tightText_iff T).mp ht
    have hTne : T ≠ [] := by intro e; rw [e] at hd; cases hd
    refine (tightText_iff _).mpr ⟨':', d, rfl, ?_, by decide, by decide, h3, h4⟩
    rw [getLast?_append_of_ne_nil _ _ hTne]; exact hd

/-- **Names.** A scoped name whose `::`-separated segments are identifiers (the first may be empty: global scope) is printed
    as a tight text — the same criterion that gives the name condition of `fileOk` (`nameTextOk_of_segments`). -/
theorem tightText_of_segments (id : String) (h : nameSegsOk (id.splitOn "::") = true) :
    tightText (escapeScoped id).toList = true := by
  have e : ("::" : String).toList = [':', ':'] := by decide
  unfold escapeScoped
  rw [String.toList_intercalate, e, List.map_map]
  generalize id.splitOn "::" = segs at h
  have hseg : ∀ s : String, isIdentText s.toList = true →
      SegForm false ((String.toList ∘ fun seg => if keywords.contains seg = true then "\\" ++ seg else seg) s) :=
    fun s hs => segForm_escaped s hs
  cases segs with
  | nil => simp [nameSegsOk] at h
  | cons s rest =>
    cases rest with
    | nil =>
      simp only [nameSegsOk, nameSegsOk.identOk'] at h
      exact tightText_joined false _ (by simp) (by
        intro w hw
        simp only [List.map_cons, List.map_nil, List.mem_cons, List.mem_nil_iff, or_false] at hw
        subst hw
        exact hseg s h)
    | cons s' rest' =>
      simp only [nameSegsOk, nameSegsOk.identOk', Bool.and_eq_true, Bool.or_eq_true, List.all_eq_true] at h
      have hrest : ∀ w ∈ (s' :: rest').map (String.toList ∘ fun seg => if keywords.contains seg = true then "\\" ++ seg else seg),
          SegForm false w := by
        intro w hw
        obtain ⟨t, ht, rfl⟩ := List.mem_map.mp hw
        exact hseg t (h.2 t ht)
      rcases h.1 with hs | hs
      · have hs' : s.toList = [] := by simpa using hs
        have hsE : s = "" := by rw [← String.ofList_toList (s := s), hs']
        subst hsE
        have e0 : (String.toList ∘ fun seg => if keywords.contains seg = true then "\\" ++ seg else seg) "" = [] := by decide
        rw [List.map_cons, e0]
        exact tightText_joined_global false _ (by simp) hrest
      · exact tightText_joined false _ (by simp) (by
          intro w hw
          rw [List.map_cons, List.mem_cons] at hw
          rcases hw with rfl | hw
          · exact hseg s hs
          · exact hrest w hw)

/-- **Directives.** Identifiers joined by `::` are a tight directive. -/
theorem tightText_directive (segs : List String) (hne : segs ≠ []) (h : ∀ s ∈ segs, isIdentText s.toList = true) :
    tightText ("::".intercalate segs).toList = true := by
  have e : ("::" : String).toList = [':', ':'] := by decide
  rw [String.toList_intercalate, e]
  refine tightText_joined true _ (by simpa using hne) ?_
  intro w hw
  obtain ⟨s, hs, rfl⟩ := List.mem_map.mp hw
  exact ⟨s.toList, h s hs, Or.inl ⟨rfl, Or.inl rfl⟩⟩

end Slicec.SLex
