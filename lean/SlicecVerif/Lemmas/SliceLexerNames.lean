/-
  A syntactic criterion for the name condition of `fileOk` (C02): a scoped name whose `::`-separated segments are
  identifiers prints (with the printer's keyword escaping) as text that satisfies `nameTextOk`; likewise an attribute
  directive `a::b::c` in attribute mode, keywords included.
-/
import SlicecVerif.Lemmas.SliceLexerLayout

namespace Slicec.SLex

open Slicec

/-- a segment as written: the identifier itself (not a keyword, unless inside an attribute) or backslash + identifier -/
def SegForm (a : Bool) (w : List Char) : Prop :=
  ∃ v, isIdentText v = true ∧ ((w = v ∧ (a = true ∨ checkKeyword v = .ident v)) ∨ w = '\\' :: v)

theorem segForm_run (a : Bool) (w : List Char) (h : SegForm a w) :
    ∃ v, lexRun a w = ⟨[.tok (.ident v)], a, .word⟩ ∧ compat .afterLBracket w = true ∧ w ≠ [] := by
  obtain ⟨v, hv, h | h⟩ := h
  · obtain ⟨rfl, hk⟩ := h
    refine ⟨w, ?_, compat_word_start' w hv, ?_⟩
    · rw [lexRun_word a w hv]
      rcases hk with rfl | hk
      · rfl
      · cases a
        · simp [hk]
        · rfl
    · intro e; subst e; simp [isIdentText] at hv
  · subst h
    exact ⟨v, lexRun_escaped a v hv, by simp [compat], by simp⟩
where
  compat_word_start' (w : List Char) (hv : isIdentText w = true) : compat .afterLBracket w = true := by
    cases w with
    | nil => simp [isIdentText] at hv
    | cons c r =>
      simp only [isIdentText, Bool.and_eq_true] at hv
      simp [compat, bne, beq_false_of_isAlpha c '[' (by decide) hv.1]

theorem lexRun_dcolon (a : Bool) (t : List Char) :
    lexRun a (':' :: ':' :: t) = ⟨.tok .dcolon :: (lexRun a t).items, (lexRun a t).attr,
      if t.isEmpty then .closed else (lexRun a t).last⟩ := by
  have e : lexNext a ':' (':' :: t) = ⟨.tok .dcolon, t, a⟩ := by
    unfold lexNext
    simp only [show simpleTok ':' = none by decide]
    simp [lexPair]
  rw [lexRun_cons, e]
  simp [StepRes.items, StepRes.endClass]

/-- identifiers joined by `::` read as identifiers and `::` tokens, ending in an identifier -/
theorem lexRun_joined (a : Bool) (ws : List (List Char)) (hne : ws ≠ []) (h : ∀ w ∈ ws, SegForm a w) :
    (lexRun a ([':', ':'].intercalate ws)).items.all isNameItem = true ∧ (lexRun a ([':', ':'].intercalate ws)).attr = a ∧
    (lexRun a ([':', ':'].intercalate ws)).last = .word ∧ [':', ':'].intercalate ws ≠ [] := by
  induction ws with
  | nil => exact absurd rfl hne
  | cons w rest ih =>
    obtain ⟨v, hrun, _, hwne⟩ := segForm_run a w (h w (by simp))
    cases rest with
    | nil =>
      rw [List.intercalate_singleton, hrun]
      exact ⟨by simp [isNameItem], rfl, rfl, hwne⟩
    | cons w' rest' =>
      obtain ⟨i1, i2, i3, i4⟩ := ih (by simp) (fun x hx => h x (by simp [hx]))
      rw [List.intercalate_cons_cons]
      generalize [':', ':'].intercalate (w' :: rest') = T at i1 i2 i3 i4
      have hcomp : compat (lexRun a w).last ([':', ':'] ++ T) = true := by rw [hrun]; simp [compat]; decide
      have happ := lexRun_append a w ([':', ':'] ++ T) hcomp
      rw [hrun] at happ
      simp only [List.cons_append, List.nil_append] at happ
      rw [List.append_assoc, List.cons_append, List.cons_append, List.nil_append, happ, lexRun_dcolon]
      have hT : T.isEmpty = false := by cases T with | nil => exact absurd rfl i4 | cons c r => rfl
      simp only [hT, Bool.false_eq_true, if_false, List.isEmpty_cons]
      refine ⟨?_, i2, i3, by simp⟩
      simpa [isNameItem] using i1

/-- the same with a leading `::` (global scope) -/
theorem lexRun_joined_global (a : Bool) (ws : List (List Char)) (hne : ws ≠ []) (h : ∀ w ∈ ws, SegForm a w) :
    (lexRun a ([':', ':'].intercalate ([] :: ws))).items.all isNameItem = true ∧
    (lexRun a ([':', ':'].intercalate ([] :: ws))).attr = a ∧
    (lexRun a ([':', ':'].intercalate ([] :: ws))).last = .word := by
  obtain ⟨i1, i2, i3, i4⟩ := lexRun_joined a ws hne h
  cases ws with
  | nil => exact absurd rfl hne
  | cons w rest =>
    rw [List.intercalate_cons_cons]
    generalize [':', ':'].intercalate (w :: rest) = T at i1 i2 i3 i4
    simp only [List.nil_append, List.cons_append]
    rw [lexRun_dcolon]
    have hT : T.isEmpty = false := by cases T with | nil => exact absurd rfl i4 | cons c r => rfl
    simp only [hT, Bool.false_eq_true, if_false]
    exact ⟨by simpa [isNameItem] using i1, i2, i3⟩

theorem nameTextOk_joined (a : Bool) (ws : List (List Char)) (hne : ws ≠ []) (h : ∀ w ∈ ws, SegForm a w) :
    nameTextOk a ([':', ':'].intercalate ws) = true := by
  obtain ⟨i1, i2, i3, i4⟩ := lexRun_joined a ws hne h
  have hhead : compat .afterLBracket ([':', ':'].intercalate ws) = true := by
    cases ws with
    | nil => exact absurd rfl hne
    | cons w rest =>
      obtain ⟨_, _, hc, hwne⟩ := segForm_run a w (h w (by simp))
      cases w with
      | nil => exact absurd rfl hwne
      | cons c r =>
        cases rest with
        | nil => rw [List.intercalate_singleton]; exact hc
        | cons w' rest' => rw [List.intercalate_cons_cons, List.append_assoc, List.cons_append, compat_head]; rw [compat_head] at hc; exact hc
  have hemp : ([':', ':'].intercalate ws).isEmpty = false := by
    cases hq : [':', ':'].intercalate ws with
    | nil => exact absurd hq i4
    | cons c r => rfl
  simp [nameTextOk, i1, i2, i3, hemp, hhead]

theorem nameTextOk_joined_global (a : Bool) (ws : List (List Char)) (hne : ws ≠ []) (h : ∀ w ∈ ws, SegForm a w) :
    nameTextOk a ([':', ':'].intercalate ([] :: ws)) = true := by
  obtain ⟨i1, i2, i3⟩ := lexRun_joined_global a ws hne h
  have hform : ∃ T, [':', ':'].intercalate ([] :: ws) = ':' :: ':' :: T := by
    cases ws with
    | nil => exact absurd rfl hne
    | cons w rest => exact ⟨_, by rw [List.intercalate_cons_cons]; rfl⟩
  obtain ⟨T, hT⟩ := hform
  have hhead : compat .afterLBracket ([':', ':'].intercalate ([] :: ws)) = true := by rw [hT]; simp [compat]
  have hemp : ([':', ':'].intercalate ([] :: ws)).isEmpty = false := by rw [hT]; rfl
  simp [nameTextOk, i1, i2, i3, hemp, hhead]

/-- the printer's escaping of one segment has the form the lexer reads as that identifier -/
theorem segForm_escaped (seg : String) (h : isIdentText seg.toList = true) :
    SegForm false (if keywords.contains seg then "\\" ++ seg else seg).toList := by
  refine ⟨seg.toList, h, ?_⟩
  cases hk : keywords.contains seg with
  | true =>
    refine Or.inr ?_
    have e : ("\\" : String).toList = ['\\'] := by decide
    simp [String.toList_append, e]
  | false =>
    exact Or.inl ⟨by simp, Or.inr (checkKeyword_of_not_keyword seg hk)⟩

/-- **Names.** A scoped name whose `::`-separated segments (as the printer splits them) are identifiers — the first
    may be empty for the global scope — satisfies the name condition of `fileOk`, keywords included (the printer
    escapes them). -/
theorem nameTextOk_of_segments (id : String) (h : nameSegsOk (id.splitOn "::") = true) :
    nameTextOk false (escapeScoped id).toList = true := by
  have e : ("::" : String).toList = [':', ':'] := by decide
  unfold escapeScoped
  rw [String.toList_intercalate, e, List.map_map]
  generalize id.splitOn "::" = segs at h
  have hseg : ∀ s : String, isIdentText s.toList = true →
      SegForm false ((String.toList ∘ fun seg => if keywords.contains seg = true then "\\" ++ seg else seg) s) :=
    fun s hs => segForm_escaped s hs
  cases segs with
  | nil => simp [nameSegsOk] at h
  | cons s rest =>
    cases rest with
    | nil =>
      simp only [nameSegsOk, nameSegsOk.identOk'] at h
      exact nameTextOk_joined false _ (by simp) (by
        intro w hw
        simp only [List.map_cons, List.map_nil, List.mem_cons, List.mem_nil_iff, or_false] at hw
        subst hw
        exact hseg s h)
    | cons s' rest' =>
      simp only [nameSegsOk, nameSegsOk.identOk', Bool.and_eq_true, Bool.or_eq_true, List.all_eq_true] at h
      have hrest : ∀ w ∈ (s' :: rest').map (String.toList ∘ fun seg => if keywords.contains seg = true then "\\" ++ seg else seg),
          SegForm false w := by
        intro w hw
        obtain ⟨t, ht, rfl⟩ := List.mem_map.mp hw
        exact hseg t (h.2 t ht)
      rcases h.1 with hs | hs
      · have hs' : s.toList = [] := by simpa using hs
        have hsE : s = "" := by rw [← String.ofList_toList (s := s), hs']
        subst hsE
        have e0 : (String.toList ∘ fun seg => if keywords.contains seg = true then "\\" ++ seg else seg) "" = [] := by decide
        rw [List.map_cons, e0]
        exact nameTextOk_joined_global false _ (by simp) hrest
      · exact nameTextOk_joined false _ (by simp) (by
          intro w hw
          rw [List.map_cons, List.mem_cons] at hw
          rcases hw with rfl | hw
          · exact hseg s hs
          · exact hrest w hw)

/-- **Directives.** Inside an attribute any identifiers joined by `::` will do — keywords included, since
    `attribute_mode` switches the keyword table off. -/
theorem nameTextOk_directive (segs : List String) (hne : segs ≠ []) (h : ∀ s ∈ segs, isIdentText s.toList = true) :
    nameTextOk true ("::".intercalate segs).toList = true := by
  have e : ("::" : String).toList = [':', ':'] := by decide
  rw [String.toList_intercalate, e]
  refine nameTextOk_joined true _ (by simpa using hne) ?_
  intro w hw
  obtain ⟨s, hs, rfl⟩ := List.mem_map.mp hw
  exact ⟨s.toList, h s hs, Or.inl ⟨rfl, Or.inl rfl⟩⟩

end Slicec.SLex
