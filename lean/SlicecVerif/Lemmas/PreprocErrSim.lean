/-
  C06: the error-collecting line-by-line machine `cerrRun` over the RAW lines of a file and the recovery mirror
  `runLines ∘ tokLines` over the located token stream of the lexer model report the same rows, line by line
  (`sim_file`), up to the one licensed difference (the pending error in front of a lexical error is lost).
-/
import SlicecVerif.Lemmas.PreprocErrLines

namespace Slicec.Pp

/-! ## the `#` of a directive line -/

/-- what `next()` returns at the `#` of a directive line (modes Unknown and Directive alike) -/
def hashRes (cur : Cur) : Option (Except LexErr LTok) × LexSt :=
  match lexKeyword cur with
  | (.tok t, cur') => (some (.ok t), { cur := cur', mode := .directive })
  | (.err e, cur') => (some (.error e), { cur := cur', mode := .directive })
  | (.skip, cur') => (none, { cur := cur', mode := .directive })

theorem lexDirTok_hash (st : LexSt) :
    lexDirTok '#' st = ((lexKeyword st.cur).1, { st with cur := (lexKeyword st.cur).2 }) := by
  unfold lexDirTok
  simp only
  rw [if_neg (by decide), if_neg (by decide), if_neg (by decide), if_neg (by decide), if_neg (by decide), if_pos trivial]

theorem lexKeyword_ne_skip (cur : Cur) (r : List Char) (h : cur.rest = '#' :: r) : (lexKeyword cur).1 ≠ .skip := by
  intro e
  have := (lexKeyword_kind' cur r h).1
  rw [e] at this
  exact kwK_ne_skip r this.symm

/-- in directive mode at a `#` -/
theorem lexES_hash (f : List Char) (st : LexSt) (r : List Char) (hm : st.mode = .directive) (h : st.cur.rest = '#' :: r) :
    lexES f st = contE f (hashRes st.cur) := by
  rw [lexES_unfold]
  unfold lexNext
  have hsk : st.cur.skipWs = st.cur := Cur.skipWhile_stop _ st.cur '#' r h (by decide)
  rw [hsk, h]
  simp only [List.length_cons]
  rw [nextLoop_cons f _ _ none '#' r h]
  simp only [hm, ↓reduceIte]
  rw [lexDirTok_hash]
  have hns := lexKeyword_ne_skip st.cur r h
  unfold hashRes
  cases hd : lexKeyword st.cur with
  | mk ds cur' =>
    rw [hd] at hns
    cases ds with
    | tok t =>
      simp only [contE]
      have : ({ cur := cur', mode := st.mode } : LexSt) = { cur := cur', mode := .directive } := by rw [hm]
      rw [this]
    | err e => rfl
    | skip => exact absurd rfl hns

/-- the located stream from the `#` of a directive line on -/
theorem hash_line (f d' tl : List Char) (cur : Cur) (hinv : CurInv f cur) (hrest : cur.rest = '#' :: d' ++ tl)
    (hd : noNl d') (htl : stopNl tl) :
    LineSpec f tl cur.loc.row (contE f (hashRes cur)) (dirLine ('#' :: d')) := by
  have hrest' : cur.rest = '#' :: (d' ++ tl) := hrest
  have hk2 := lexKeyword_kind' cur (d' ++ tl) hrest'
  have hkf := lexKeyword_facts f cur
  have hrow := lexKeyword_row cur (by simp [Cur.peek, hrest'])
  rw [kwK_append d' tl htl] at hk2
  have hsuf : (kwK d').2 <:+ d' := kwK_suffix d'
  have hnn : noNl (kwK d').2 := noNl_of_suffix hsuf hd
  have hlen := kwK_len d'
  unfold dirLine
  simp only [List.length_cons]
  unfold dirLexR
  rw [dirNextK_hash]
  unfold hashRes
  cases hd1 : lexKeyword cur with
  | mk ds cur' =>
    rw [hd1] at hk2 hkf hrow
    obtain ⟨hk2a, hk2b⟩ := hk2
    simp only at hk2a hk2b hrow
    have hinv' : CurInv f cur' := (hkf.1 hinv).1
    cases hKw : kwK d' with
    | mk kk r'' =>
      rw [hKw] at hk2a hk2b hnn hlen
      simp only at hk2a hk2b hnn hlen
      cases ds with
      | tok t =>
        simp only [DirStep.kind] at hk2a
        subst hk2a
        have hne : t.tok ≠ .dend := by
          intro e
          have := kwK_ne_dend d'
          rw [hKw, e] at this
          exact this rfl
        have hspec := lexES_dir f tl htl (d'.length + 1) r'' ⟨cur', .directive⟩ rfl hinv' hk2b hnn (by omega)
        simp only at hspec
        rw [hrow.2] at hspec
        have h2 := LineSpec.cons t hspec hne hkf.2 hrow.1
        simp only [contE, hne, ↓reduceIte]
        cases hrec : dirLexR (d'.length + 1) r'' with
        | none => rw [hrec] at h2; exact h2
        | some y => rw [hrec] at h2; exact h2
      | err e =>
        simp only [DirStep.kind] at hk2a
        subst hk2a
        exact ⟨[], e, rfl, by simp, hrow.1.1, hrow.1.2⟩
      | skip =>
        simp only [DirStep.kind] at hk2a
        subst hk2a
        rcases kwK_cases d' with ⟨k', h'⟩ | h' <;> rw [hKw] at h' <;> simp at h'

/-! ## the lines of a token list -/

theorem tokLines_nil (n : Nat) : tokLines n [] = ([], []) := by cases n <;> rfl

theorem takeLine_none : ∀ (ts : List LTok), (∀ t ∈ ts, t.tok ≠ .dend) → takeLine ts = (ts, none, []) := by
  intro ts
  induction ts with
  | nil => intro _; rfl
  | cons t ts ih =>
    intro h
    rw [takeLine, if_neg (h t (by simp)), ih (fun x hx => h x (by simp [hx]))]

theorem tokLines_block (n : Nat) (t : LTok) (r : List LTok) (b : Block) (h : t.tok = .block b) :
    tokLines (n + 1) (t :: r) = (.block t :: (tokLines n r).1, (tokLines n r).2) := by
  rw [tokLines]
  simp only [h]

theorem tokLines_block' (n : Nat) (s : Loc) (b : Block) (e : Loc) (r : List LTok) :
    tokLines (n + 1) (⟨s, .block b, e⟩ :: r) = (.block ⟨s, .block b, e⟩ :: (tokLines n r).1, (tokLines n r).2) :=
  tokLines_block n _ r b rfl

theorem tokLines_dir (n : Nat) (K : LTok) (ts : List LTok) (d : LTok) (rest : List LTok) (hK1 : K.tok.notBlock)
    (hK2 : K.tok ≠ .dend) (hts : ∀ t ∈ ts, t.tok ≠ .dend) (hd : d.tok = .dend) :
    tokLines (n + 1) (K :: (ts ++ d :: rest)) = (.dir K ts d :: (tokLines n rest).1, (tokLines n rest).2) := by
  rw [tokLines]
  split
  · rename_i b hb; rw [hb] at hK1; exact absurd hK1 (by simp [PTok.notBlock])
  · rename_i hb; exact absurd hb hK2
  · rw [takeLine_append ts d rest hts hd]

theorem tokLines_cut (n : Nat) (K : LTok) (ts : List LTok) (hK1 : K.tok.notBlock) (hK2 : K.tok ≠ .dend)
    (hts : ∀ t ∈ ts, t.tok ≠ .dend) : tokLines (n + 1) (K :: ts) = ([], K :: ts) := by
  rw [tokLines]
  split
  · rename_i b hb; rw [hb] at hK1; exact absurd hK1 (by simp [PTok.notBlock])
  · rename_i hb; exact absurd hb hK2
  · rw [takeLine_none ts hts]

/-! ## the relation between the two reports -/

def rowsOf (L : List Span) : List Nat := L.map (·.1.row)

/-- the recovery mirror on a located stream -/
def mir (n : Nat) (S : List LTok × Option LexErr) (stk : List Bool) (pend : Option Span) (last : Loc) : List Span × Bool :=
  runLines (tokLines n S.1).1 stk pend last (tokLines n S.1).2 S.2

theorem dropLast_append_ne (a b : List Nat) (h : b ≠ []) : (a ++ b).dropLast = a ++ b.dropLast := by
  induction a with
  | nil => rfl
  | cons x a ih =>
    cases hab : a ++ b with
    | nil =>
      have := (List.append_eq_nil_iff.mp hab).2
      exact absurd this h
    | cons y l =>
      rw [List.cons_append, hab, List.dropLast_cons_cons, ← hab, ih]
      rfl

/-- `out` (what the mirror reports after the pending rows `pr`) against the line machine's record `R` -/
structure Rel (pr : List Nat) (R : ErrRows) (out : List Span × Bool) (lex : Bool) : Prop where
  stop : out.2 = R.stop.isSome
  lex : lex = R.lexical
  lexStop : R.lexical = true → R.stop.isSome = true
  same : ∀ sp ∈ out.1, sp.1.row = sp.2.row
  rows : rowsOf out.1 = pr ++ R.rows ++ R.stop.toList ∨
    (R.lexical = true ∧ rowsOf out.1 = (pr ++ R.rows).dropLast ++ R.stop.toList)

theorem Rel.pre {q : List Nat} {R : ErrRows} {out : List Span × Bool} {lex : Bool} (h : Rel q R out lex)
    (pend : Option Span) (hp : ∀ p, pend = some p → p.1.row = p.2.row) :
    Rel (rowsOf pend.toList) ⟨q ++ R.rows, R.stop, R.lexical⟩ (commit pend out) lex := by
  refine ⟨h.stop, h.lex, h.lexStop, ?_, ?_⟩
  · intro sp hsp
    simp only [commit, List.mem_append] at hsp
    rcases hsp with hsp | hsp
    · cases pend with
      | none => cases hsp
      | some p => simp only [Option.toList, List.mem_singleton] at hsp; subst hsp; exact hp _ rfl
    · exact h.same sp hsp
  · have hr : rowsOf (commit pend out).1 = rowsOf pend.toList ++ rowsOf out.1 := by
      simp [commit, rowsOf]
    rw [hr]
    simp only
    rcases h.rows with h1 | ⟨hl, h2⟩
    · left; rw [h1]; simp [List.append_assoc]
    · by_cases hnil : q ++ R.rows = []
      · left; rw [h2, hnil]; simp
      · right
        refine ⟨hl, ?_⟩
        rw [dropLast_append_ne _ _ hnil, h2]
        simp [List.append_assoc]

/-! ## one step of the line machine -/

def cerrStep (C : Nat → List Bool → Nat × Bool → ErrRows) (line : List Char) (row : Nat) (stk : List Bool)
    (lastTok : Nat × Bool) : ErrRows :=
  match classify line with
  | .blank => C (row + 1) stk lastTok
  | .source => C (row + 1) stk (row, true)
  | .malformed =>
    if lexicallyBad line then ⟨[], some row, true⟩
    else
      let r := C (row + 1) stk (row, false)
      { r with rows := row :: r.rows }
  | .dir l =>
    match frameStep stk l with
    | some stk' => C (row + 1) stk' (row, false)
    | none =>
      let r := C (row + 1) stk (row, false)
      { r with rows := row :: r.rows }

theorem cerrRun_cons (l : List Char) (ls : List (List Char)) (row : Nat) (stk : List Bool) (lt : Nat × Bool) :
    cerrRun (l :: ls) row stk lt = cerrStep (cerrRun ls) l row stk lt := by
  rw [cerrRun]
  rfl

theorem lexicallyBad_eq (l d' : List Char) (hl : noNl l) (hd : l.dropWhile isInlineWs = '#' :: d') :
    lexicallyBad l = (dirLine ('#' :: d')).isNone := by
  have := lexPre_dirline l d' hl hd
  unfold lexicallyBad
  cases hlex : lexPre l <;> rw [hlex] at this <;> cases hdl : dirLine ('#' :: d') <;> rw [hdl] at this <;> simp at this ⊢

/-- a directive line: the mirror on the located stream `S` of the line (and what follows) against one step of the
    line machine -/
theorem dirline_sim (f l d' tl : List Char) (C : Nat → List Bool → Nat × Bool → ErrRows) (row : Nat)
    (hl : noNl l) (hd : l.dropWhile isInlineWs = '#' :: d')
    (S : List LTok × Option LexErr) (hS : LineSpec f tl row S (dirLine ('#' :: d')))
    (hk : ∀ stk pend m last, (∀ p, pend = some p → p.1.row = p.2.row) →
      (lexES f (stAt f tl .unknown)).1.length < m → CurInv f (curOf f tl) → (curOf f tl).loc.row = row → last.row = row →
      Rel (rowsOf pend.toList) (C (row + 1) stk (row, false)) (mir m (lexES f (stAt f tl .unknown)) stk pend last)
        (lexES f (stAt f tl .unknown)).2.isSome) :
    ∀ stk pend last lt m, (∀ p, pend = some p → p.1.row = p.2.row) → S.1.length < m →
      Rel (rowsOf pend.toList) (cerrStep C l row stk lt) (mir m S stk pend last) S.2.isSome := by
  intro stk pend last lt m hp hm
  have hbad := lexicallyBad_eq l d' hl hd
  have hcl := classify_eq l hl
  unfold lineKind at hcl
  rw [hd] at hcl
  simp only [ne_eq, not_true_eq_false, ↓reduceIte] at hcl
  unfold cerrStep
  rw [hcl, hbad]
  cases hdl : dirLine ('#' :: d') with
  | none =>
    rw [hdl] at hS
    obtain ⟨ts, e, hSe, hts, he1, he2⟩ := hS
    subst hSe
    simp only [Option.bind, Option.isNone, ↓reduceIte]
    cases ts with
    | nil =>
      unfold mir
      simp only [tokLines_nil]
      unfold runLines
      refine ⟨rfl, rfl, fun _ => rfl, ?_, ?_⟩
      · intro sp hsp
        simp only [List.isEmpty_nil, ↓reduceIte, List.nil_append, List.mem_singleton] at hsp
        subst hsp
        simp only [he1, he2]
      · right
        refine ⟨rfl, ?_⟩
        cases pend <;> simp [rowsOf, he1]
    | cons K ts' =>
      obtain ⟨m, rfl⟩ : ∃ k, m = k + 1 := ⟨m - 1, by simp only [List.length_cons] at hm; omega⟩
      have hK := hts K (by simp)
      unfold mir
      simp only [tokLines_cut m K ts' hK.2 hK.1 (fun x hx => (hts x (by simp [hx])).1)]
      unfold runLines
      refine ⟨rfl, rfl, fun _ => rfl, ?_, ?_⟩
      · intro sp hsp
        simp only [List.isEmpty_cons, Bool.false_eq_true, ↓reduceIte, List.mem_append, List.mem_singleton] at hsp
        rcases hsp with hsp | hsp
        · cases pend with
          | none => cases hsp
          | some p => simp only [Option.toList, List.mem_singleton] at hsp; subst hsp; exact hp _ rfl
        · subst hsp
          simp only [he1, he2]
      · left
        simp [rowsOf, he1]
  | some ks =>
    rw [hdl] at hS
    obtain ⟨ts, d, hSe, hks, hdd, hrows, hci, hcr⟩ := hS
    subst hSe
    obtain ⟨k, ks', hkk⟩ := dirLine_hash d' ks hdl
    subst hkk
    cases ts with
    | nil => simp at hks
    | cons K ts' =>
      simp only [List.map_cons, List.cons.injEq] at hks
      obtain ⟨hK, hks'⟩ := hks
      have hnd := dirLine_noDend _ _ hdl
      simp only [List.mem_cons, not_or] at hnd
      have hts' : ∀ t ∈ ts', t.tok ≠ .dend := by
        intro t ht e
        apply hnd.2
        rw [← hks', ← e]
        exact List.mem_map.mpr ⟨t, ht, rfl⟩
      obtain ⟨m, rfl⟩ : ∃ k, m = k + 1 := ⟨m - 1, by simp only [List.length_cons, List.cons_append] at hm; omega⟩
      have hm' : (lexES f (stAt f tl .unknown)).1.length < m := by
        simp only [List.cons_append, List.length_cons, List.length_append] at hm
        omega
      have hKrow := hrows K (by simp)
      have hdrow := hrows d (by simp)
      unfold mir
      simp only [List.cons_append]
      simp only [tokLines_dir m K ts' d _ (by rw [hK]; trivial) (by rw [hK]; simp) hts' hdd]
      unfold runLines
      have hls : lineStep stk K ts' = (alineOf (PTok.kw k :: ks' ++ [.dend])).bind (frameStep stk) := by
        unfold lineStep
        rw [dirOf_eq, hK, hks']
      rw [hls]
      simp only [Option.bind, Option.isNone]
      have hbrow : ∀ (top : Option Bool), (badTokG top K ts' d).s.row = row ∧ (badTokG top K ts' d).e.row = row := by
        intro top
        have hmem := badTokG_mem top K ts' d
        exact hrows _ (by simpa using hmem)
      have hpush : ∀ (top : Option Bool),
          Rel (rowsOf pend.toList)
            (let r := C (row + 1) stk (row, false); { r with rows := row :: r.rows })
            (commit pend (runLines (tokLines m (lexES f (stAt f tl .unknown)).1).1 stk (some (badTokG top K ts' d).span) d.e
              (tokLines m (lexES f (stAt f tl .unknown)).1).2 (lexES f (stAt f tl .unknown)).2))
            (lexES f (stAt f tl .unknown)).2.isSome := by
        intro top
        have hb := hbrow top
        have h1 := hk stk (some (badTokG top K ts' d).span) m d.e (by
          intro p hpe
          simp only [Option.some.injEq] at hpe
          subst hpe
          simp only [LTok.span, hb.1, hb.2]) hm' hci hcr hdrow.2
        have h2 := h1.pre pend hp
        simp only [rowsOf, Option.toList, List.map_cons, List.map_nil, LTok.span, hb.1] at h2
        exact h2
      cases hal : alineOf (PTok.kw k :: ks' ++ [.dend]) with
      | none =>
        simp only []
        exact hpush _
      | some a =>
        simp only []
        cases hfs : frameStep stk a with
        | none =>
          simp only []
          exact hpush _
        | some stk' =>
          simp only []
          have h1 := hk stk' none m d.e (fun _ h => by cases h) hm' hci hcr hdrow.2
          exact h1.pre pend hp

/-! ## the simulation, line by line -/

/-- the lexer's mode / block start against the line machine's `lastTok` -/
def ModeRel (m : Mode) (start : Option (Loc × Nat)) (last : Loc) (lt : Nat × Bool) : Prop :=
  (m = .unknown ∧ start = none ∧ last.row = lt.1 ∧ lt.2 = false) ∨ (m = .sourceBlock ∧ (∃ sp, start = some sp) ∧ lt.2 = true)

/-- the statement for the input `tl` left at the end of a line of row `row` (the line machine goes on with `C (row + 1)`) -/
def SimK (f tl : List Char) (C : Nat → List Bool → Nat × Bool → ErrRows) : Prop :=
  ∀ n st start row stk pend last lt m, st.cur.rest = tl → CurInv f st.cur → tl.length + 1 ≤ n → st.cur.loc.row = row →
    (∀ p, pend = some p → p.1.row = p.2.row) → ModeRel st.mode start last lt →
    (contE f (nextLoop f n st start)).1.length < m →
    Rel (rowsOf pend.toList) (C (row + 1) stk lt) (mir m (contE f (nextLoop f n st start)) stk pend last)
      (contE f (nextLoop f n st start)).2.isSome

theorem commit_none (x : List Span × Bool) : commit none x = x := rfl

theorem Rel.final (pend : Option Span) (hp : ∀ p, pend = some p → p.1.row = p.2.row) (stk : List Bool) (loc : Loc) (r : Nat)
    (hr : loc.row = r) :
    Rel (rowsOf pend.toList) (if stk.isEmpty then ⟨[], none, false⟩ else ⟨[], some r, false⟩)
      (commit pend (if stk.isEmpty then ([], false) else ([(loc, loc)], true))) false := by
  cases hs : stk.isEmpty
  · simp only [Bool.false_eq_true, ↓reduceIte]
    have h0 : Rel [] ⟨[], some r, false⟩ ([(loc, loc)], true) false :=
      ⟨rfl, rfl, by simp, by simp, Or.inl (by simp [rowsOf, hr])⟩
    exact h0.pre pend hp
  · simp only [↓reduceIte]
    have h0 : Rel [] ⟨[], none, false⟩ ([], false) false := ⟨rfl, rfl, by simp, by simp, Or.inl rfl⟩
    exact h0.pre pend hp

theorem lexES_eof (f : List Char) (st : LexSt) (hm : st.mode = .unknown) (h : st.cur.rest = []) : lexES f st = ([], none) := by
  rw [lexES_unfold]
  unfold lexNext
  have hr2 : (st.cur.skipWs).rest = [] := by rw [Cur.skipWs_rest, h]; rfl
  rw [nextLoop_nil f _ _ none hr2]
  simp only [hm]
  rfl

theorem Cur.adv_row_nl (c : Cur) (r : List Char) (h : c.rest = '\n' :: r) : c.adv.loc.row = c.loc.row + 1 := by
  obtain ⟨rest, o, l⟩ := c
  simp only at h
  subst h
  simp [Cur.adv, advance]

theorem sim_nil (f : List Char) : SimK f [] (cerrRun []) := by
  intro n st start row stk pend last lt m hrest hinv hn hrow hp hmode hlen
  obtain ⟨lr, src⟩ := lt
  obtain ⟨n, rfl⟩ : ∃ k, n = k + 1 := ⟨n - 1, by simp only [List.length_nil] at hn; omega⟩
  have hnl := nextLoop_nil f n st start hrest
  rcases hmode with ⟨hm, hs, hlast, hsrc⟩ | ⟨hm, ⟨sp, hs⟩, hsrc⟩
  · simp only at hlast hsrc
    subst hsrc
    have hS : nextLoop f (n + 1) st start = (none, st) := by rw [hnl]; simp only [hm]
    rw [hS]
    simp only [contE]
    unfold mir
    simp only [tokLines_nil]
    unfold runLines cerrRun
    simp only [List.getLast?_nil, Bool.false_eq_true, ↓reduceIte]
    exact Rel.final pend hp stk last lr hlast
  · simp only at hsrc
    subst hsrc
    obtain ⟨l0, p0⟩ := sp
    subst hs
    have hS : nextLoop f (n + 1) st (some (l0, p0)) =
        (some (.ok ⟨l0, .block ⟨l0, p0, (f.drop p0).take (f.length - p0)⟩, st.cur.loc⟩), { st with mode := .unknown }) := by
      rw [hnl]; simp only [hm]; rfl
    rw [hS] at hlen ⊢
    simp only [contE] at hlen ⊢
    rw [lexES_eof f { st with mode := .unknown } rfl hrest] at hlen ⊢
    obtain ⟨m, rfl⟩ : ∃ k, m = k + 1 := ⟨m - 1, by simp only [List.length_cons] at hlen; omega⟩
    unfold mir
    simp only [tokLines_block', tokLines_nil]
    unfold runLines
    unfold runLines cerrRun
    simp only [List.getLast?_nil, commit_none, ↓reduceIte, Nat.add_sub_cancel]
    exact Rel.final pend hp stk st.cur.loc row hrow

theorem sim_line (f l tl : List Char) (C : Nat → List Bool → Nat × Bool → ErrRows) (hl : noNl l) (htl : stopNl tl)
    (hK : SimK f tl C) :
    ∀ n st start row stk pend last lt m, st.cur.rest = l.dropWhile isInlineWs ++ tl → CurInv f st.cur →
      (l.dropWhile isInlineWs ++ tl).length + 1 ≤ n → st.cur.loc.row = row →
      (∀ p, pend = some p → p.1.row = p.2.row) → ModeRel st.mode start last lt →
      (contE f (nextLoop f n st start)).1.length < m →
      Rel (rowsOf pend.toList) (cerrStep C l row stk lt) (mir m (contE f (nextLoop f n st start)) stk pend last)
        (contE f (nextLoop f n st start)).2.isSome := by
  intro n st start row stk pend last lt m hrest hinv hn hrow hp hmode hlen
  have hdn : noNl (l.dropWhile isInlineWs) := noNl_of_suffix (List.dropWhile_suffix _) hl
  cases hd : l.dropWhile isInlineWs with
  | nil =>
    rw [hd] at hrest hn
    have hc : classify l = .blank := by unfold classify; rw [hd]
    unfold cerrStep
    rw [hc]
    exact hK n st start row stk pend last lt m hrest hinv (by simpa using hn) hrow hp hmode hlen
  | cons c d' =>
    rw [hd] at hrest hn hdn
    have hc : c ≠ '\n' := hdn c (by simp)
    have hd' : noNl d' := fun x hx => hdn x (by simp [hx])
    have hmd : st.mode ≠ .directive := by
      rcases hmode with ⟨h, _⟩ | ⟨h, _⟩ <;> rw [h] <;> simp
    simp only [List.cons_append] at hrest
    simp only [List.cons_append, List.length_cons] at hn
    obtain ⟨n, rfl⟩ : ∃ k, n = k + 1 := ⟨n - 1, by omega⟩
    have hnl := nextLoop_cons f n st start c (d' ++ tl) hrest
    rw [if_neg hmd, if_neg hc] at hnl
    by_cases hh : c = '#'
    · subst hh
      rw [if_pos rfl] at hnl
      have hspec := hash_line f d' tl st.cur hinv hrest hd' htl
      rw [hrow] at hspec
      have hk : ∀ stk pend m last, (∀ p, pend = some p → p.1.row = p.2.row) →
          (lexES f (stAt f tl .unknown)).1.length < m → CurInv f (curOf f tl) → (curOf f tl).loc.row = row → last.row = row →
          Rel (rowsOf pend.toList) (C (row + 1) stk (row, false)) (mir m (lexES f (stAt f tl .unknown)) stk pend last)
            (lexES f (stAt f tl .unknown)).2.isSome := by
        intro stk pend m last hp' hm' hci hcr hlast
        rw [lexES_unfold] at hm' ⊢
        unfold lexNext at hm' ⊢
        have hr2 : ((stAt f tl .unknown).cur.skipWs).rest = tl := by
          rw [Cur.skipWs_rest]; exact dropWhile_stop _ isInlineWs_nl _ htl
        exact hK _ { stAt f tl .unknown with cur := (stAt f tl .unknown).cur.skipWs } none row stk pend last (row, false) m hr2
          ((reach_skipWs f _) hci).1 (by simp [stAt, curOf]) (by rw [Cur.skipWs_row]; exact hcr) hp'
          (Or.inl ⟨rfl, rfl, hlast, rfl⟩) hm'
      rcases hmode with ⟨hm, hs, _, _⟩ | ⟨hm, ⟨sp, hs⟩, _⟩
      · have hS : nextLoop f (n + 1) st start = hashRes st.cur := by rw [hnl]; simp only [hm]; rfl
        rw [hS] at hlen ⊢
        exact dirline_sim f l d' tl C row hl hd _ hspec hk stk pend last lt m hp hlen
      · obtain ⟨l0, p0⟩ := sp
        subst hs
        have hS : nextLoop f (n + 1) st (some (l0, p0)) =
            (some (.ok ⟨l0, .block ⟨l0, p0, (f.drop p0).take (st.cur.off - p0)⟩, st.cur.loc⟩), { st with mode := .directive }) := by
          rw [hnl]; simp only [hm]; rfl
        rw [hS] at hlen ⊢
        simp only [contE] at hlen ⊢
        rw [lexES_hash f { st with mode := .directive } (d' ++ tl) rfl hrest] at hlen ⊢
        obtain ⟨m, rfl⟩ : ∃ k, m = k + 1 := ⟨m - 1, by simp only [List.length_cons] at hlen; omega⟩
        have h1 := dirline_sim f l d' tl C row hl hd _ hspec hk stk none st.cur.loc lt m (fun _ h => by cases h)
          (by simpa using hlen)
        have h2 := h1.pre pend hp
        unfold mir
        simp only [tokLines_block']
        unfold runLines
        exact h2
    · rw [if_neg hh] at hnl
      have hcs : classify l = .source := by unfold classify; rw [hd]; simp [hh]
      unfold cerrStep
      rw [hcs]
      simp only []
      rw [hnl] at hlen ⊢
      have hr3 : (st.cur.toEol.skipWs).rest = tl := by
        rw [Cur.skipWs_rest, Cur.toEol_rest, hrest]
        have := dropWhile_append_stop notNewline notNewline_nl (c :: d') tl htl
        rw [List.cons_append] at this
        rw [this, dropWhile_notNewline_noNl (c :: d') hdn, List.nil_append]
        exact dropWhile_stop _ isInlineWs_nl _ htl
      have hinv3 : CurInv f (st.cur.toEol.skipWs) := (((reach_toEol f st.cur).trans (reach_skipWs f _)) hinv).1
      have hst : ∃ sp, (if st.mode = .unknown then some (st.cur.loc, st.cur.off) else start) = some sp := by
        rcases hmode with ⟨hm, _⟩ | ⟨hm, ⟨sp, hs⟩, _⟩
        · simp [hm]
        · simp [hm, hs]
      exact hK n ⟨st.cur.toEol.skipWs, .sourceBlock⟩ _ row stk pend last (row, true) m hr3 hinv3
        (by simp only [List.length_append] at hn ⊢; omega) (by rw [Cur.skipWs_row, Cur.toEol_row]; exact hrow) hp
        (Or.inr ⟨rfl, hst, rfl⟩) hlen

theorem sim_lines (f : List Char) : ∀ (ls : List (List Char)), (∀ l ∈ ls, noNl l) → SimK f (tailLines ls) (cerrRun ls) := by
  intro ls
  induction ls with
  | nil => intro _; exact sim_nil f
  | cons l ls ih =>
    intro hnl n st start row stk pend last lt m hrest hinv hn hrow hp hmode hlen
    have hl : noNl l := hnl l (by simp)
    have hmd : st.mode ≠ .directive := by
      rcases hmode with ⟨h, _⟩ | ⟨h, _⟩ <;> rw [h] <;> simp
    simp only [tailLines] at hrest
    simp only [tailLines, List.length_cons] at hn
    obtain ⟨n, rfl⟩ : ∃ k, n = k + 1 := ⟨n - 1, by omega⟩
    have hnx := nextLoop_cons f n st start '\n' (l ++ tailLines ls) hrest
    rw [if_neg hmd, if_pos rfl] at hnx
    rw [hnx] at hlen ⊢
    rw [cerrRun_cons]
    have htl := stopNl_tailLines ls
    have hr2 : (st.cur.adv.skipWs).rest = l.dropWhile isInlineWs ++ tailLines ls := by
      rw [Cur.skipWs_rest, Cur.adv_rest, hrest, List.tail_cons]
      exact dropWhile_append_stop _ isInlineWs_nl _ _ htl
    have hinv2 : CurInv f (st.cur.adv.skipWs) := (((reach_adv f st.cur).trans (reach_skipWs f _)) hinv).1
    have hlen2 : (l.dropWhile isInlineWs ++ tailLines ls).length + 1 ≤ n := by
      have := length_dropWhile_le isInlineWs l
      simp only [List.length_append] at hn ⊢
      omega
    have hrow2 : (st.cur.adv.skipWs).loc.row = row + 1 := by
      rw [Cur.skipWs_row, Cur.adv_row_nl st.cur _ hrest, hrow]
    exact sim_line f l (tailLines ls) (cerrRun ls) hl htl (ih (fun l' hl' => hnl l' (by simp [hl']))) n
      { st with cur := st.cur.adv.skipWs } start (row + 1) stk pend last lt m hr2 hinv2 hlen2 hrow2 hp hmode hlen

/-- THE ROW-BY-ROW AGREEMENT: the record of the line-by-line machine against the report of the recovery mirror -/
theorem sim_file (f : List Char) : Rel [] (cerrFile f) (reportedFull f) (lexPreLE f).2.isSome := by
  obtain ⟨hj, hnl, hne⟩ := splitLines_spec f
  have key : reportedFull f = mir ((lexPreLE f).1.length + 1) (lexPreLE f) [] none Loc.init := rfl
  unfold cerrFile
  rw [key]
  cases hs : splitLines f with
  | nil => exact absurd hs hne
  | cons l ls =>
    rw [hs] at hj hnl
    rw [cerrRun_cons, lexPreLE_eq_S, lexES_unfold]
    unfold lexNext
    have hinv : CurInv f (lexInit f).cur := ⟨Nat.zero_le _, rfl, rfl⟩
    have htl := stopNl_tailLines ls
    have hr2 : ((lexInit f).cur.skipWs).rest = l.dropWhile isInlineWs ++ tailLines ls := by
      rw [Cur.skipWs_rest]
      show f.dropWhile isInlineWs = _
      rw [← hj]
      exact dropWhile_append_stop _ isInlineWs_nl _ _ htl
    have hinv2 : CurInv f ((lexInit f).cur.skipWs) := ((reach_skipWs f _) hinv).1
    have hlen : (l.dropWhile isInlineWs ++ tailLines ls).length + 1 ≤ (lexInit f).cur.rest.length + 1 := by
      have := length_dropWhile_le isInlineWs l
      show _ ≤ f.length + 1
      rw [← hj]
      simp only [joinLines, List.length_append] at *
      omega
    exact sim_line f l (tailLines ls) (cerrRun ls) (hnl l (by simp)) htl
      (sim_lines f ls (fun l' hl' => hnl l' (by simp [hl']))) _ { lexInit f with cur := (lexInit f).cur.skipWs } none 1 []
      none Loc.init (1, false) _ hr2 hinv2 hlen (by rw [Cur.skipWs_row]; rfl) (fun _ h => by cases h)
      (Or.inl ⟨rfl, rfl, rfl, rfl⟩) (Nat.lt_succ_self _)

/-! ## consequences -/

/-- `ErrRows.agree (cerrFile f) (mirrorRows f)`, unfolded -/
theorem cerr_agree (f : List Char) :
    cerrFile f = mirrorRows f ∨ ((cerrFile f).lexical = true ∧ (mirrorRows f).lexical = true ∧
      (cerrFile f).stop = (mirrorRows f).stop ∧ (cerrFile f).rows.dropLast = (mirrorRows f).rows) := by
  have h := sim_file f
  have hm : mirrorRows f = (if (reportedFull f).2 then
      ⟨(rowsOf (reportedFull f).1).dropLast, (rowsOf (reportedFull f).1).getLast?, (lexPreLE f).2.isSome⟩
      else ⟨rowsOf (reportedFull f).1, none, false⟩) := rfl
  rw [hm]
  generalize cerrFile f = R at h ⊢
  generalize reportedFull f = out at h ⊢
  generalize (lexPreLE f).2.isSome = lex at h ⊢
  obtain ⟨rows, stop, lexical⟩ := R
  obtain ⟨L, b⟩ := out
  obtain ⟨h1, h2, h3, _, h5⟩ := h
  simp only at h1 h2 h3 h5
  subst h1 h2
  cases stop with
  | none =>
    have hl : lex = false := by
      cases lex
      · rfl
      · exact absurd (h3 rfl) (by simp)
    subst hl
    left
    rcases h5 with h5 | ⟨h5, _⟩
    · simp [h5]
    · cases h5
  | some s =>
    simp only [Option.isSome, ↓reduceIte]
    rcases h5 with h5 | ⟨hl, h5⟩
    · left; rw [h5]; simp
    · right; subst hl; rw [h5]; simp

theorem classify_isDirLine (l : List Char) (h : classify l = .malformed ∨ ∃ a, classify l = .dir a) : isDirLine l := by
  unfold classify at h
  cases hd : l.dropWhile isInlineWs with
  | nil => rw [hd] at h; simp at h
  | cons c d' =>
    by_cases hc : c = '#'
    · subst hc; exact ⟨d', hd⟩
    · rw [hd] at h; simp [hc] at h

theorem getElem?_shift (l : List Char) (ls : List (List Char)) (row r : Nat) (l' : List Char) (h1 : row + 1 ≤ r)
    (h2 : ls[r - (row + 1)]? = some l') : (l :: ls)[r - row]? = some l' := by
  have : r - row = (r - (row + 1)) + 1 := by omega
  rw [this, List.getElem?_cons_succ]
  exact h2

/-- every row the line machine collects is the row of a directive line -/
theorem cerrRun_rows : ∀ (ls : List (List Char)) (row : Nat) (stk : List Bool) (lt : Nat × Bool),
    ∀ r ∈ (cerrRun ls row stk lt).rows, row ≤ r ∧ ∃ l, ls[r - row]? = some l ∧ isDirLine l := by
  intro ls
  induction ls with
  | nil =>
    intro row stk lt r hr
    obtain ⟨lr, src⟩ := lt
    unfold cerrRun at hr
    split at hr <;> simp at hr
  | cons l ls ih =>
    intro row stk lt r hr
    rw [cerrRun_cons] at hr
    have hrec : ∀ stk' lt', r ∈ (cerrRun ls (row + 1) stk' lt').rows → row ≤ r ∧ ∃ l', (l :: ls)[r - row]? = some l' ∧ isDirLine l' := by
      intro stk' lt' h
      obtain ⟨h1, l', h2, h3⟩ := ih (row + 1) stk' lt' r h
      exact ⟨by omega, l', getElem?_shift l ls row r l' h1 h2, h3⟩
    have hhere : isDirLine l → r = row → row ≤ r ∧ ∃ l', (l :: ls)[r - row]? = some l' ∧ isDirLine l' := by
      intro hd e
      subst e
      exact ⟨Nat.le_refl _, l, by simp, hd⟩
    unfold cerrStep at hr
    cases hc : classify l with
    | blank => rw [hc] at hr; exact hrec _ _ hr
    | source => rw [hc] at hr; exact hrec _ _ hr
    | malformed =>
      rw [hc] at hr
      have hd := classify_isDirLine l (Or.inl hc)
      simp only at hr
      split at hr
      · simp at hr
      · simp only [List.mem_cons] at hr
        rcases hr with hr | hr
        · exact hhere hd hr
        · exact hrec _ _ hr
    | dir a =>
      rw [hc] at hr
      have hd := classify_isDirLine l (Or.inr ⟨a, hc⟩)
      simp only at hr
      split at hr
      · exact hrec _ _ hr
      · simp only [List.mem_cons] at hr
        rcases hr with hr | hr
        · exact hhere hd hr
        · exact hrec _ _ hr

/-- every reported span lies on one row; the row of a recoverable error is the row of a directive line of the file -/
theorem reported_rows (f : List Char) (k : Nat) (sp : Loc × Loc) (h : (reportedErrors f)[k]? = some sp) :
    sp.1.row = sp.2.row ∧ ((parseStopped f = false ∨ k + 1 < (reportedErrors f).length) →
      ∃ l, (splitLines f)[sp.1.row - 1]? = some l ∧ isDirLine l) := by
  have hsim := sim_file f
  have hre : reportedErrors f = (reportedFull f).1 := rfl
  have hps : parseStopped f = (reportedFull f).2 := rfl
  rw [hre] at h ⊢
  rw [hps]
  refine ⟨hsim.same sp (List.mem_of_getElem? h), ?_⟩
  intro hrec
  have hk : (rowsOf (reportedFull f).1)[k]? = some sp.1.row := by
    simp [rowsOf, List.getElem?_map, h]
  have hlen : (rowsOf (reportedFull f).1).length = (reportedFull f).1.length := by simp [rowsOf]
  -- the rows in front of the stop row are rows of the line machine
  obtain ⟨A, hA, hsub⟩ : ∃ A, rowsOf (reportedFull f).1 = A ++ (cerrFile f).stop.toList ∧ ∀ x ∈ A, x ∈ (cerrFile f).rows := by
    rcases hsim.rows with h1 | ⟨_, h1⟩
    · exact ⟨(cerrFile f).rows, by simpa using h1, fun x hx => hx⟩
    · exact ⟨(cerrFile f).rows.dropLast, by simpa using h1, fun x hx => (List.dropLast_sublist _).subset hx⟩
  have hstop := hsim.stop
  have hkA : k < A.length := by
    have hklt : k < (rowsOf (reportedFull f).1).length := by
      rcases Nat.lt_or_ge k (rowsOf (reportedFull f).1).length with h' | h'
      · exact h'
      · rw [List.getElem?_eq_none h'] at hk; cases hk
    rcases hrec with hrec | hrec
    · rw [hrec] at hstop
      cases hst : (cerrFile f).stop with
      | none => rw [hA, hst] at hklt; simpa using hklt
      | some s => rw [hst] at hstop; cases hstop
    · rw [← hlen, hA] at hrec
      have : (cerrFile f).stop.toList.length ≤ 1 := by cases (cerrFile f).stop <;> simp
      simp only [List.length_append] at hrec
      omega
  rw [hA, List.getElem?_append_left hkA] at hk
  have hmem := hsub _ (List.mem_of_getElem? hk)
  obtain ⟨_, l, h2, h3⟩ := cerrRun_rows (splitLines f) 1 [] (1, false) sp.1.row hmem
  exact ⟨l, h2, h3⟩

/-! ## start offset ≤ end offset -/

/-- `s` and `e` are the locations of offsets `i ≤ j ≤ |f|` of the file -/
def SpanIn (f : List Char) (s e : Loc) : Prop := ∃ i j, i ≤ j ∧ j ≤ f.length ∧ s = locAt f i ∧ e = locAt f j

theorem spanIn_of_reach {f : List Char} {c c' : Cur} (h : CurInv f c) (hr : Reach f c c') : SpanIn f c.loc c'.loc :=
  ⟨c.off, c'.off, (hr h).2, (hr h).1.le, h.loc, (hr h).1.loc⟩

theorem spanIn_refl {f : List Char} {c : Cur} (h : CurInv f c) : SpanIn f c.loc c.loc := spanIn_of_reach h (Reach.refl f c)

theorem SpanIn.right {f : List Char} {s e : Loc} (h : SpanIn f s e) : SpanIn f e e := by
  obtain ⟨i, j, _, h2, _, h4⟩ := h
  exact ⟨j, j, Nat.le_refl _, h2, h4, h4⟩

def DirStep.spanIn (f : List Char) : DirStep → Prop
  | .tok t => SpanIn f t.s t.e
  | .err e => SpanIn f e.s e.e
  | .skip => True

theorem lexKeyword_span (f : List Char) (cur : Cur) (h : CurInv f cur) : (lexKeyword cur).1.spanIn f := by
  unfold lexKeyword
  have hr : Reach f cur ((cur.adv.skipWs).skipWhile isIdentChar) :=
    ((reach_adv f cur).trans (reach_skipWs f _)).trans (reach_skipWhile f isIdentChar _)
  simp only
  split <;> exact spanIn_of_reach h hr

theorem lexDirTok_span (f : List Char) (c : Char) (st : LexSt) (h : CurInv f st.cur) : (lexDirTok c st).1.spanIn f := by
  have s0 : SpanIn f st.cur.loc st.cur.loc := spanIn_refl h
  have s1 : SpanIn f st.cur.loc st.cur.adv.loc := spanIn_of_reach h (reach_adv f st.cur)
  have s2 : SpanIn f st.cur.loc st.cur.adv.adv.loc := spanIn_of_reach h ((reach_adv f st.cur).trans (reach_adv f st.cur.adv))
  unfold lexDirTok simpleTok
  simp only
  split
  · exact s1
  split
  · exact s1
  split
  · exact s1
  split
  · split
    · exact s2
    · exact s1
  split
  · split
    · exact s2
    · exact s1
  split
  · exact lexKeyword_span f st.cur h
  split
  · split
    · trivial
    · exact s1
  split
  · exact spanIn_of_reach h (reach_skipWhile f isIdentChar st.cur)
  split
  · exact s1
  split
  · exact s0
  · exact s0

def ResSpan (f : List Char) : Option (Except LexErr LTok) → Prop
  | some (.ok t) => SpanIn f t.s t.e
  | some (.error e) => SpanIn f e.s e.e
  | none => True

theorem mkBlock_span (f : List Char) (start : Option (Loc × Nat)) (endPos : Nat) (cur : Cur) (hc : CurInv f cur)
    (hs : ∀ l p, start = some (l, p) → l = locAt f p ∧ 0 ≤ p ∧ p ≤ cur.off) :
    ResSpan f (some (mkBlock f start endPos cur.loc)) := by
  unfold mkBlock
  split
  · rename_i l p
    obtain ⟨h1, _, h3⟩ := hs l p rfl
    exact ⟨p, cur.off, h3, hc.le, h1, hc.loc⟩
  · exact spanIn_refl hc

theorem nextLoop_span (f : List Char) : ∀ (fuel : Nat) (st : LexSt) (start : Option (Loc × Nat)),
    CurInv f st.cur → (∀ l p, start = some (l, p) → l = locAt f p ∧ 0 ≤ p ∧ p ≤ st.cur.off) →
    ResSpan f (nextLoop f fuel st start).1 := by
  intro fuel
  induction fuel with
  | zero => intro st start _ _; trivial
  | succ fuel ih =>
    intro st start hinv hstart
    unfold nextLoop
    split
    · split
      · exact mkBlock_span f start _ st.cur hinv hstart
      · exact spanIn_refl hinv
      · trivial
    · rename_i c crest hrest
      split
      · have hf := lexDirTok_facts f c st
        have hl := lexDirTok_span f c st hinv
        split
        · rename_i t st' heq; rw [heq] at hl; exact hl
        · rename_i e st' heq; rw [heq] at hl; exact hl
        · rename_i st' heq
          rw [heq] at hf
          obtain ⟨hi', hle⟩ := hf.1 hinv
          obtain ⟨hi2, hle2⟩ := reach_skipWs f st'.cur hi'
          exact ih { st' with cur := st'.cur.skipWs } start hi2
            (start_mono hstart (by dsimp only at hle hle2 ⊢; omega))
      · split
        · obtain ⟨hi2, hle2⟩ := ((reach_adv f st.cur).trans (reach_skipWs f _)) hinv
          exact ih { st with cur := st.cur.adv.skipWs } start hi2 (start_mono hstart hle2)
        · split
          · split
            · exact mkBlock_span f start _ st.cur hinv hstart
            · have hl := lexKeyword_span f st.cur hinv
              split
              · rename_i t cur' heq; rw [heq] at hl; exact hl
              · rename_i e cur' heq; rw [heq] at hl; exact hl
              · trivial
          · obtain ⟨hi2, hle2⟩ := ((reach_toEol f st.cur).trans (reach_skipWs f _)) hinv
            exact ih { cur := st.cur.toEol.skipWs, mode := .sourceBlock } _ hi2 (fun l p h => by
              dsimp only
              split at h
              · simp only [Option.some.injEq, Prod.mk.injEq] at h
                obtain ⟨rfl, rfl⟩ := h
                exact ⟨hinv.loc, Nat.zero_le _, hle2⟩
              · exact start_mono hstart hle2 l p h)

theorem lexNext_span (f : List Char) (st : LexSt) (h : CurInv f st.cur) : ResSpan f (lexNext f st).1 := by
  unfold lexNext
  obtain ⟨h2, _⟩ := reach_skipWs f st.cur h
  exact nextLoop_span f _ { st with cur := st.cur.skipWs } none h2 (fun l p hs => by cases hs)

theorem lexAllE_span (f : List Char) : ∀ (n : Nat) (st : LexSt), CurInv f st.cur →
    (∀ t ∈ (lexAllE f n st).1, SpanIn f t.s t.e) ∧ (∀ e, (lexAllE f n st).2 = some e → SpanIn f e.s e.e) := by
  intro n
  induction n with
  | zero => intro st _; simp [lexAllE]
  | succ n ih =>
    intro st hinv
    have hf := lexNext_facts f st hinv
    have hl := lexNext_span f st hinv
    unfold lexAllE
    rcases h : lexNext f st with ⟨_ | r, st'⟩
    · simp
    · rw [h] at hf hl
      cases r with
      | error e =>
        refine ⟨by simp, ?_⟩
        intro e' he'
        simp only [Option.some.injEq] at he'
        subst he'
        exact hl
      | ok t =>
        obtain ⟨h1, h2⟩ := ih st' hf.1
        refine ⟨?_, h2⟩
        intro x hx
        simp only [List.mem_cons] at hx
        rcases hx with rfl | hx
        · exact hl
        · exact h1 x hx

theorem lexPreLE_span (f : List Char) :
    (∀ t ∈ (lexPreLE f).1, SpanIn f t.s t.e) ∧ (∀ e, (lexPreLE f).2 = some e → SpanIn f e.s e.e) :=
  lexAllE_span f _ (lexInit f) ⟨Nat.zero_le _, rfl, rfl⟩

/-- `runLines_spans` for a predicate on SPANS: every reported span is the span of a token, the zero-width end of a token,
    the zero-width `last`, or the span of the lexical error -/
theorem runLines_spans2 (P : Loc → Loc → Prop) : ∀ (ls : List TLine) (stk : List Bool) (pend : Option Span) (last : Loc)
    (left : List LTok) (le : Option LexErr),
    (∀ l ∈ ls, l.all (fun t => P t.s t.e ∧ P t.e t.e)) → (∀ sp, pend = some sp → P sp.1 sp.2) → P last last →
    (∀ t ∈ left, P t.e t.e) → (∀ e, le = some e → P e.s e.e) →
    ∀ sp ∈ (runLines ls stk pend last left le).1, P sp.1 sp.2 := by
  intro ls
  induction ls with
  | nil =>
    intro stk pend last left le _ hp hlast hleft hle sp hsp
    unfold runLines at hsp
    cases le with
    | some e =>
      simp only [List.mem_append, List.mem_singleton] at hsp
      rcases hsp with hsp | rfl
      · split at hsp
        · cases hsp
        · cases pend with
          | none => cases hsp
          | some p => simp only [Option.toList, List.mem_singleton] at hsp; subst hsp; exact hp _ rfl
      · exact hle e rfl
    | none =>
      simp only [] at hsp
      have hpend : ∀ x ∈ pend.toList, P x.1 x.2 := by
        intro x hx
        cases pend with
        | none => cases hx
        | some p => simp only [Option.toList, List.mem_singleton] at hx; subst hx; exact hp _ rfl
      cases hgl : left.getLast? with
      | none =>
        rw [hgl] at hsp
        simp only [commit, List.mem_append] at hsp
        rcases hsp with hsp | hsp
        · exact hpend sp hsp
        · split at hsp
          · cases hsp
          · simp only [List.mem_singleton] at hsp; subst hsp; exact hlast
      | some t =>
        rw [hgl] at hsp
        simp only [commit, List.mem_append, List.mem_singleton] at hsp
        rcases hsp with hsp | rfl
        · exact hpend sp hsp
        · exact hleft t (List.mem_of_getLast? hgl)
  | cons l ls ih =>
    intro stk pend last left le hls hp hlast hleft hle sp hsp
    have hpend : ∀ x ∈ pend.toList, P x.1 x.2 := by
      intro x hx
      cases pend with
      | none => cases hx
      | some p => simp only [Option.toList, List.mem_singleton] at hx; subst hx; exact hp _ rfl
    have hl := hls l (by simp)
    have hls' : ∀ x ∈ ls, x.all (fun t => P t.s t.e ∧ P t.e t.e) := fun x hx => hls x (by simp [hx])
    cases l with
    | block t =>
      unfold runLines at hsp
      simp only [commit, List.mem_append] at hsp
      rcases hsp with hsp | hsp
      · exact hpend sp hsp
      · exact ih stk none t.e left le hls' (fun _ h => by cases h) hl.2 hleft hle sp hsp
    | dir K ts d =>
      obtain ⟨hK, hts, hd⟩ := hl
      unfold runLines at hsp
      simp only [commit, List.mem_append] at hsp
      rcases hsp with hsp | hsp
      · exact hpend sp hsp
      · split at hsp
        · exact ih _ none d.e left le hls' (fun _ h => by cases h) hd.2 hleft hle sp hsp
        · refine ih _ _ d.e left le hls' ?_ hd.2 hleft hle sp hsp
          intro sp' hsp'
          simp only [Option.some.injEq] at hsp'
          subst hsp'
          have hm := badTokG_mem stk.head? K ts d
          simp only [List.cons_append, List.mem_cons, List.mem_append, List.not_mem_nil, or_false] at hm
          rcases hm with hm | hm | hm
          · rw [hm]; exact hK.1
          · exact (hts _ hm).1
          · rw [hm]; exact hd.1

/-- both ends of every reported span are the locations of offsets `i ≤ j ≤ |f|` of the file -/
theorem reported_spanIn (f : List Char) : ∀ sp ∈ reportedErrors f, SpanIn f sp.1 sp.2 := by
  unfold reportedErrors reportedFull
  obtain ⟨h1, h2⟩ := lexPreLE_span f
  obtain ⟨h3, h4⟩ := tokLines_all (fun t => SpanIn f t.s t.e ∧ SpanIn f t.e t.e) ((lexPreLE f).1.length + 1) (lexPreLE f).1
    (fun t ht => ⟨h1 t ht, (h1 t ht).right⟩)
  exact runLines_spans2 (SpanIn f) _ _ _ _ _ _ h3 (fun _ h => by cases h)
    ⟨0, 0, Nat.le_refl _, Nat.zero_le _, rfl, rfl⟩ (fun t ht => (h4 t ht).2) h2

end Slicec.Pp
