/-
  Lemmas about the model of the Slice lexer (Model/SliceLexer.lean), C02:
  §1 the fuel-free equations of `lexRun`; §2 the scanning helpers and `++`; §3 one call of `lex_next_slice_token`
  is local; §4 `lexRun_append`: reading is local (the separation lemma in its general form); …
-/
import SlicecVerif.Model.SliceLexer
import SlicecVerif.Lemmas.Layout

namespace Slicec.SLex

open Slicec

/-! ## §1 fuel -/

theorem readString_rest_le (e : Bool) (cs : List Char) : (readString e cs).2.length ≤ cs.length := by
  induction cs generalizing e with
  | nil => simp [readString]
  | cons c cs ih =>
    simp only [readString]
    split
    · simp
    · split
      · simp only [List.length_cons]; have := ih false; omega
      · split
        · simp
        · simp only [List.length_cons]; have := ih (c == '\\'); omega

theorem consumeBlock_rest_le (s : Bool) (cs rest : List Char) (h : consumeBlock s cs = some rest) :
    rest.length ≤ cs.length := by
  induction cs generalizing s with
  | nil => simp [consumeBlock] at h
  | cons c cs ih =>
    simp only [consumeBlock] at h
    split at h
    · cases h; simp
    · have := ih _ h; simp only [List.length_cons]; omega

theorem lexPair_rest_le (d : Char) (s t : SliceTok) (a : Bool) (cs : List Char) :
    (lexPair d s t a cs).rest.length ≤ cs.length := by
  unfold lexPair
  split
  · split <;> simp
  · simp

theorem dropWhile_length_le (p : Char → Bool) (l : List Char) : (l.dropWhile p).length ≤ l.length :=
  (List.dropWhile_sublist p).length_le

theorem lexLineComment_rest_le (a : Bool) (cs : List Char) : (lexLineComment a cs).rest.length ≤ cs.length := by
  unfold lexLineComment
  split
  · rename_i r3
    have := dropWhile_length_le (· != '\n') r3
    split <;> simp only [List.length_cons] at * <;> omega
  · exact dropWhile_length_le _ _

theorem lexSlash_rest_le (a : Bool) (cs : List Char) : (lexSlash a cs).rest.length ≤ cs.length := by
  unfold lexSlash
  split
  · rename_i r2
    have := lexLineComment_rest_le a r2
    simp only [List.length_cons]; omega
  · rename_i r2
    split
    · rename_i rest h
      have := consumeBlock_rest_le _ _ _ h
      simp only [List.length_cons]; omega
    · simp
  · simp

theorem lexBackslash_rest_le (a : Bool) (cs : List Char) : (lexBackslash a cs).rest.length ≤ cs.length := by
  unfold lexBackslash
  split
  · split
    · exact dropWhile_length_le _ _
    · simp
  · simp

theorem lexString_rest_le (a : Bool) (cs : List Char) : (lexString a cs).rest.length ≤ cs.length := by
  have := readString_rest_le false cs
  unfold lexString
  split <;> (rename_i h; rw [h] at this; exact this)

theorem lexNext_rest_le (a : Bool) (c : Char) (cs : List Char) : (lexNext a c cs).rest.length ≤ cs.length := by
  unfold lexNext
  split
  · simp
  · repeat' split
    all_goals first
      | exact lexPair_rest_le _ _ _ _ _
      | exact lexSlash_rest_le _ _
      | exact lexBackslash_rest_le _ _
      | exact lexString_rest_le _ _
      | exact dropWhile_length_le _ _
      | simp

theorem lexRunF_fuel (n m : Nat) (a : Bool) (cs : List Char) (hn : cs.length ≤ n) (hm : cs.length ≤ m) :
    lexRunF n a cs = lexRunF m a cs := by
  induction n generalizing m a cs with
  | zero =>
    have : cs = [] := List.length_eq_zero_iff.mp (by omega)
    subst this
    cases m <;> rfl
  | succ n ih =>
    cases cs with
    | nil => cases m <;> rfl
    | cons c cs =>
      cases m with
      | zero => simp at hm
      | succ m =>
        simp only [lexRunF]
        have hr := lexNext_rest_le a c cs
        simp only [List.length_cons] at hn hm
        rw [ih m _ _ (by omega) (by omega)]

@[simp] theorem lexRun_nil (a : Bool) : lexRun a [] = ⟨[], a, .closed⟩ := rfl

/-- the loop of `Iterator::next`, without fuel -/
theorem lexRun_cons (a : Bool) (c : Char) (cs : List Char) :
    lexRun a (c :: cs) =
      ⟨(lexNext a c cs).res.items ++ (lexRun (lexNext a c cs).attr (lexNext a c cs).rest).items,
       (lexRun (lexNext a c cs).attr (lexNext a c cs).rest).attr,
       if (lexNext a c cs).rest.isEmpty then (lexNext a c cs).res.endClass
       else (lexRun (lexNext a c cs).attr (lexNext a c cs).rest).last⟩ := by
  have hr := lexNext_rest_le a c cs
  simp only [lexRun, List.length_cons, lexRunF]
  rw [lexRunF_fuel cs.length (lexNext a c cs).rest.length _ _ hr (Nat.le_refl _)]


/-! ## §2 the scanning helpers and `++` -/

/-- the scan over `p` stops in front of `r` -/
def stops (p : Char → Bool) : List Char → Bool
  | [] => true
  | c :: _ => !p c

theorem span_append (p : Char → Bool) (cs r : List Char) (h : cs.dropWhile p ≠ [] ∨ stops p r = true) :
    (cs ++ r).takeWhile p = cs.takeWhile p ∧ (cs ++ r).dropWhile p = cs.dropWhile p ++ r := by
  induction cs with
  | nil =>
    cases r with
    | nil => simp
    | cons x r =>
      have hx : p x = false := by simpa [stops] using h
      simp [hx]
  | cons d cs ih =>
    by_cases hd : p d = true
    · simp only [List.cons_append, List.takeWhile_cons, List.dropWhile_cons, hd, if_true] at h ⊢
      have := ih h
      exact ⟨by rw [this.1], this.2⟩
    · have hd' : p d = false := by simpa using hd
      simp [hd']

theorem readString_append (e : Bool) (cs r : List Char)
    (h : (readString e cs).2 ≠ [] ∨ (readString e cs).1.isSome = true) :
    readString e (cs ++ r) = ((readString e cs).1, (readString e cs).2 ++ r) := by
  induction cs generalizing e with
  | nil => simp [readString] at h
  | cons c cs ih =>
    simp only [List.cons_append, readString] at h ⊢
    by_cases h1 : (c == '\n') = true
    · simp [h1]
    · simp only [h1, Bool.false_eq_true, if_false] at h ⊢
      by_cases h2 : e = true
      · simp only [h2, if_true] at h ⊢
        rw [ih false (by simpa using h)]
      · simp only [h2, Bool.false_eq_true, if_false] at h ⊢
        by_cases h3 : (c == '"') = true
        · simp [h3]
        · simp only [h3, Bool.false_eq_true, if_false] at h ⊢
          rw [ih (c == '\\') (by simpa using h)]

theorem consumeBlock_append (s : Bool) (cs r rest : List Char) (h : consumeBlock s cs = some rest) :
    consumeBlock s (cs ++ r) = some (rest ++ r) := by
  induction cs generalizing s with
  | nil => simp [consumeBlock] at h
  | cons c cs ih =>
    simp only [List.cons_append, consumeBlock] at h ⊢
    split
    · rename_i hc; simp only [hc, if_true] at h; cases h; rfl
    · rename_i hc; simp only [hc] at h; exact ih _ h


/-! ## §3 one call of `lex_next_slice_token` is local

  If the call stopped inside the buffer, or consumed it entirely but what follows cannot change what it read
  (`stepCompat`), then appending text to the buffer changes nothing but the unread rest. -/

def stepCompat : StepRes → List Char → Bool
  | .skip .whitespace, r => stops isWs r
  | res, r => compat res.endClass r

theorem stepCompat_tok (t : SliceTok) (r : List Char) :
    stepCompat (.tok t) r = compat (StepRes.tok t).endClass r := rfl

/-- the conclusion shared by the lemmas of this section -/
def Step.extends (S S' : Step) (r : List Char) : Prop := S' = ⟨S.res, S.rest ++ r, S.attr⟩

theorem lexPair_append (d : Char) (s t : SliceTok) (a : Bool) (cs r : List Char)
    (h : cs ≠ [] ∨ (match r with | [] => True | x :: _ => x ≠ d)) :
    (lexPair d s t a cs).extends (lexPair d s t a (cs ++ r)) r := by
  unfold Step.extends lexPair
  cases cs with
  | nil =>
    cases r with
    | nil => rfl
    | cons x r =>
      have hx : x ≠ d := by simpa using h
      simp [hx]
  | cons e cs => simp only [List.cons_append]; split <;> rfl

theorem lexString_append (a : Bool) (cs r : List Char)
    (h : (lexString a cs).rest ≠ [] ∨ stepCompat (lexString a cs).res r = true) :
    (lexString a cs).extends (lexString a (cs ++ r)) r := by
  cases r with
  | nil => simp [Step.extends]
  | cons x r =>
    have h' : (readString false cs).2 ≠ [] ∨ (readString false cs).1.isSome = true := by
      unfold lexString at h
      cases hq : readString false cs with
      | mk o rest =>
        rw [hq] at h
        cases o with
        | none => simpa [stepCompat, StepRes.endClass, compat] using h
        | some q => simp
    unfold Step.extends lexString
    rw [readString_append false cs (x :: r) h']
    cases hq : readString false cs with
    | mk o rest => cases o <;> rfl

theorem lexLineComment_append (a : Bool) (cs r : List Char)
    (h : (lexLineComment a cs).rest ≠ [] ∨ stepCompat (lexLineComment a cs).res r = true) :
    (lexLineComment a cs).extends (lexLineComment a (cs ++ r)) r := by
  cases r with
  | nil => simp [Step.extends]
  | cons x r =>
    have line : ∀ l : List Char, ((l.dropWhile (· != '\n')) ≠ [] ∨ x = '\n') →
        (l ++ x :: r).takeWhile (· != '\n') = l.takeWhile (· != '\n') ∧
        (l ++ x :: r).dropWhile (· != '\n') = l.dropWhile (· != '\n') ++ x :: r := by
      intro l hl
      apply span_append
      rcases hl with hl | hl
      · exact Or.inl hl
      · exact Or.inr (by simp [stops, hl])
    unfold Step.extends
    cases cs with
    | nil =>
      have hx : x = '\n' := by simpa [lexLineComment, stepCompat, StepRes.endClass, compat] using h
      subst hx
      simp [lexLineComment]
    | cons c cs =>
      by_cases hc : c = '/'
      · subst hc
        cases cs with
        | nil =>
          have hx : x = '\n' := by simpa [lexLineComment, stepCompat, StepRes.endClass, compat] using h
          subst hx
          simp [lexLineComment]
        | cons c2 cs =>
          by_cases hc2 : c2 = '/'
          · subst hc2
            have := line ('/' :: cs) (by simpa [lexLineComment, stepCompat, StepRes.endClass, compat] using h)
            simp only [lexLineComment, List.cons_append]
            rw [← List.cons_append, this.2]
          · have := line (c2 :: cs) (by
              have : ¬ (c2 = '/') := hc2
              simpa [lexLineComment, this, stepCompat, StepRes.endClass, compat] using h)
            have e1 : ∀ l : List Char, lexLineComment a ('/' :: c2 :: l) =
                ⟨.tok (.doc (stripCr ((c2 :: l).takeWhile (· != '\n')))), (c2 :: l).dropWhile (· != '\n'), a⟩ := by
              intro l; simp only [lexLineComment]; split
              · rename_i heq; cases heq; exact absurd rfl hc2
              · rfl
            simp only [List.cons_append, e1]
            rw [← List.cons_append, this.1, this.2]
      · have e1 : ∀ l : List Char, lexLineComment a (c :: l) = ⟨.skip .lineComment, (c :: l).dropWhile (· != '\n'), a⟩ := by
          intro l; simp only [lexLineComment]; split
          · rename_i heq; cases heq; exact absurd rfl hc
          · rfl
        have := line (c :: cs) (by simpa [e1, stepCompat, StepRes.endClass, compat] using h)
        simp only [List.cons_append, e1]
        rw [← List.cons_append, this.2]


theorem lexSlash_append (a : Bool) (cs r : List Char)
    (h : (lexSlash a cs).rest ≠ [] ∨ stepCompat (lexSlash a cs).res r = true) :
    (lexSlash a cs).extends (lexSlash a (cs ++ r)) r := by
  cases r with
  | nil => simp [Step.extends]
  | cons x r =>
    cases cs with
    | nil => simp [lexSlash, stepCompat, StepRes.endClass, compat] at h
    | cons c cs =>
      by_cases hc : c = '/'
      · subst hc
        simp only [lexSlash, List.cons_append] at h ⊢
        exact lexLineComment_append a cs (x :: r) h
      · by_cases hs : c = '*'
        · subst hs
          simp only [lexSlash, List.cons_append, Step.extends] at h ⊢
          cases hb : consumeBlock false cs with
          | none => simp [hb, stepCompat, StepRes.endClass, compat] at h
          | some rest => rw [consumeBlock_append _ _ _ _ hb]
        · have e1 : ∀ l : List Char, lexSlash a (c :: l) = ⟨.err (.unknownSymbol ['/'] (some "//")), c :: l, a⟩ := by
            intro l; unfold lexSlash; split
            · rename_i heq; cases heq; exact absurd rfl hc
            · rename_i heq; cases heq; exact absurd rfl hs
            · rfl
          simp only [List.cons_append, e1, Step.extends]

theorem lexBackslash_append (a : Bool) (cs r : List Char)
    (h : (lexBackslash a cs).rest ≠ [] ∨ stepCompat (lexBackslash a cs).res r = true) :
    (lexBackslash a cs).extends (lexBackslash a (cs ++ r)) r := by
  cases r with
  | nil => simp [Step.extends]
  | cons x r =>
    cases cs with
    | nil => simp [lexBackslash, stepCompat, StepRes.endClass, compat] at h
    | cons d cs =>
      simp only [lexBackslash, List.cons_append, Step.extends] at h ⊢
      by_cases hd : d.isAlpha = true
      · simp only [hd, if_true] at h ⊢
        have := span_append isWordChar (d :: cs) (x :: r) (by
          rcases h with h | h
          · exact Or.inl h
          · exact Or.inr (by simpa [stepCompat, StepRes.endClass, compat, stops] using h))
        rw [← List.cons_append, this.1, this.2]
      · simp only [hd, Bool.false_eq_true, if_false]
        rfl

theorem lexWord_append (a : Bool) (c : Char) (cs r : List Char)
    (h : (lexWord a c cs).rest ≠ [] ∨ stepCompat (lexWord a c cs).res r = true) :
    (lexWord a c cs).extends (lexWord a c (cs ++ r)) r := by
  have hw : ∀ w, (StepRes.tok (if a = true then SliceTok.ident w else checkKeyword w)).endClass = .word := by
    intro w
    cases a with
    | true => rfl
    | false =>
      simp only [Bool.false_eq_true, if_false, checkKeyword]
      split <;> rfl
  have := span_append isWordChar cs r (by
    rcases h with h | h
    · exact Or.inl h
    · refine Or.inr ?_
      have h' : compat .word r = true := by
        have e : stepCompat (lexWord a c cs).res r = compat .word r := by
          simp only [lexWord]; rw [stepCompat_tok, hw]
        rw [← e]; exact h
      cases r with
      | nil => rfl
      | cons x r => simpa [compat, stops] using h')
  simp only [lexWord, Step.extends, this.1, this.2]

theorem lexInteger_append (a : Bool) (c : Char) (cs r : List Char)
    (h : (lexInteger a c cs).rest ≠ [] ∨ stepCompat (lexInteger a c cs).res r = true) :
    (lexInteger a c cs).extends (lexInteger a c (cs ++ r)) r := by
  have := span_append isWordChar cs r (by
    rcases h with h | h
    · exact Or.inl h
    · refine Or.inr ?_
      cases r with
      | nil => rfl
      | cons x r => simpa [lexInteger, stepCompat, StepRes.endClass, compat, stops] using h)
  simp only [lexInteger, Step.extends, this.1, this.2]

theorem lexWhitespace_append (a : Bool) (cs r : List Char)
    (h : (lexWhitespace a cs).rest ≠ [] ∨ stepCompat (lexWhitespace a cs).res r = true) :
    (lexWhitespace a cs).extends (lexWhitespace a (cs ++ r)) r := by
  have := span_append isWs cs r (by
    rcases h with h | h
    · exact Or.inl h
    · exact Or.inr (by simpa [lexWhitespace, stepCompat] using h))
  simp only [lexWhitespace, Step.extends, this.2]

theorem lexPair_append' (d : Char) (s t : SliceTok) (a : Bool) (cs r : List Char)
    (hs : ∀ x r', compat (StepRes.tok s).endClass (x :: r') = (x != d))
    (h : (lexPair d s t a cs).rest ≠ [] ∨ stepCompat (lexPair d s t a cs).res r = true) :
    (lexPair d s t a cs).extends (lexPair d s t a (cs ++ r)) r := by
  apply lexPair_append
  cases cs with
  | cons e cs => exact Or.inl (by simp)
  | nil =>
    refine Or.inr ?_
    cases r with
    | nil => trivial
    | cons x r =>
      have : stepCompat (StepRes.tok s) (x :: r) = compat (StepRes.tok s).endClass (x :: r) := by
        unfold stepCompat; split
        · rename_i heq; cases heq
        · rfl
      simp only [lexPair, ne_eq, not_true_eq_false, false_or, this, hs] at h
      simpa using h

/-- **Step locality.** -/
theorem lexNext_append (a : Bool) (c : Char) (cs r : List Char)
    (h : (lexNext a c cs).rest ≠ [] ∨ stepCompat (lexNext a c cs).res r = true) :
    (lexNext a c cs).extends (lexNext a c (cs ++ r)) r := by
  unfold lexNext at h ⊢
  split
  · rfl
  · rename_i hsimple
    simp only [hsimple] at h
    by_cases h1 : (c == '[') = true
    · simp only [h1, if_true] at h ⊢; exact lexPair_append' _ _ _ _ _ _ (fun _ _ => rfl) h
    simp only [h1, Bool.false_eq_true, if_false] at h ⊢
    by_cases h2 : (c == ']') = true
    · simp only [h2, if_true] at h ⊢; exact lexPair_append' _ _ _ _ _ _ (fun _ _ => rfl) h
    simp only [h2, Bool.false_eq_true, if_false] at h ⊢
    by_cases h3 : (c == ':') = true
    · simp only [h3, if_true] at h ⊢; exact lexPair_append' _ _ _ _ _ _ (fun _ _ => rfl) h
    simp only [h3, Bool.false_eq_true, if_false] at h ⊢
    by_cases h4 : (c == '-') = true
    · simp only [h4, if_true] at h ⊢; exact lexPair_append' _ _ _ _ _ _ (fun _ _ => rfl) h
    simp only [h4, Bool.false_eq_true, if_false] at h ⊢
    by_cases h5 : (c == '"') = true
    · simp only [h5, if_true] at h ⊢; exact lexString_append _ _ _ h
    simp only [h5, Bool.false_eq_true, if_false] at h ⊢
    by_cases h6 : (c == '/') = true
    · simp only [h6, if_true] at h ⊢; exact lexSlash_append _ _ _ h
    simp only [h6, Bool.false_eq_true, if_false] at h ⊢
    by_cases h7 : (c == '\\') = true
    · simp only [h7, if_true] at h ⊢; exact lexBackslash_append _ _ _ h
    simp only [h7, Bool.false_eq_true, if_false] at h ⊢
    by_cases h8 : c.isAlpha = true
    · simp only [h8, if_true] at h ⊢; exact lexWord_append _ _ _ _ h
    simp only [h8, Bool.false_eq_true, if_false] at h ⊢
    by_cases h9 : c.isDigit = true
    · simp only [h9, if_true] at h ⊢; exact lexInteger_append _ _ _ _ h
    simp only [h9, Bool.false_eq_true, if_false] at h ⊢
    by_cases h10 : isWs c = true
    · simp only [h10, if_true] at h ⊢; exact lexWhitespace_append _ _ _ h
    simp only [h10, Bool.false_eq_true, if_false] at h ⊢
    rfl


/-! ## §4 reading is local: `lexRun (s ++ r)` -/

def wsCodes : List Nat :=
  [0x09, 0x0A, 0x0B, 0x0C, 0x0D, 0x20, 0x85, 0xA0, 0x1680, 0x2000, 0x2001, 0x2002, 0x2003, 0x2004, 0x2005, 0x2006,
   0x2007, 0x2008, 0x2009, 0x200A, 0x2028, 0x2029, 0x202F, 0x205F, 0x3000]

theorem isWs_mem (c : Char) (h : isWs c = true) : c ∈ wsCodes.map Char.ofNat := by
  have hm : c.toNat ∈ wsCodes := by
    simp only [isWs, Bool.or_eq_true, Bool.and_eq_true, decide_eq_true_eq, beq_iff_eq] at h
    simp only [wsCodes, List.mem_cons, List.mem_nil_iff, or_false]
    omega
  exact List.mem_map.mpr ⟨c.toNat, hm, Char.ofNat_toNat c⟩

/-- a whitespace character is none of the characters the earlier arms of the `match` look for -/
theorem ws_arms : ∀ c ∈ wsCodes.map Char.ofNat,
    simpleTok c = none ∧ (c == '[') = false ∧ (c == ']') = false ∧ (c == ':') = false ∧ (c == '-') = false ∧
    (c == '"') = false ∧ (c == '/') = false ∧ (c == '\\') = false ∧ c.isAlpha = false ∧ c.isDigit = false ∧
    isWordChar c = false ∧ (c == '>') = false := by decide

theorem lexNext_ws (a : Bool) (c : Char) (cs : List Char) (h : isWs c = true) : lexNext a c cs = lexWhitespace a cs := by
  obtain ⟨h0, h1, h2, h3, h4, h5, h6, h7, h8, h9, _, _⟩ := ws_arms c (isWs_mem c h)
  unfold lexNext
  simp [h0, h1, h2, h3, h4, h5, h6, h7, h8, h9, h]

theorem lexPair_res_ne_ws (d : Char) (s t : SliceTok) (a : Bool) (cs : List Char) :
    (lexPair d s t a cs).res ≠ .skip .whitespace := by
  unfold lexPair; split
  · split <;> simp
  · simp

theorem lexSlash_res_ne_ws (a : Bool) (cs : List Char) : (lexSlash a cs).res ≠ .skip .whitespace := by
  unfold lexSlash; split
  · unfold lexLineComment; split
    · split <;> simp
    · simp
  · split <;> simp
  · simp

/-- only the `is_whitespace` arm skips whitespace -/
theorem isWs_of_skip (a : Bool) (c : Char) (cs : List Char) (h : (lexNext a c cs).res = .skip .whitespace) :
    isWs c = true := by
  unfold lexNext at h
  split at h
  · simp at h
  · repeat' split at h
    all_goals first
      | assumption
      | exact absurd h (lexPair_res_ne_ws _ _ _ _ _)
      | exact absurd h (lexSlash_res_ne_ws _ _)
      | (unfold lexString at h; split at h <;> simp at h)
      | (unfold lexBackslash at h; split at h <;> try split at h) <;> simp at h
      | simp [lexWord, lexInteger] at h

theorem all_of_dropWhile_nil (p : Char → Bool) (cs : List Char) (h : cs.dropWhile p = []) : ∀ c ∈ cs, p c = true := by
  induction cs with
  | nil => simp
  | cons d cs ih =>
    by_cases hd : p d = true
    · simp only [List.dropWhile_cons, hd, if_true] at h
      intro c hc
      rcases List.mem_cons.mp hc with rfl | hc
      · exact hd
      · exact ih h c hc
    · simp [hd] at h

/-- **Separation lemma, general form.** If the text `s` ends in a way that `r` cannot change (`compat`), reading
    `s ++ r` is reading `s` and then reading `r` in the attribute mode reached at the end of `s`. -/
theorem lexRun_append (a : Bool) (s r : List Char) (h : compat (lexRun a s).last r = true) :
    lexRun a (s ++ r) =
      ⟨(lexRun a s).items ++ (lexRun (lexRun a s).attr r).items, (lexRun (lexRun a s).attr r).attr,
       if r.isEmpty then (lexRun a s).last else (lexRun (lexRun a s).attr r).last⟩ := by
  cases r with
  | nil => simp
  | cons x r =>
  induction hn : s.length using Nat.strongRecOn generalizing a s with
  | _ n ih =>
    cases s with
    | nil => simp
    | cons c cs =>
      subst hn
      have hle := lexNext_rest_le a c cs
      have hS := lexRun_cons a c cs
      by_cases hB : (lexNext a c cs).rest = [] ∧ (lexNext a c cs).res = .skip .whitespace ∧ isWs x = true
      · -- the text ends in whitespace and more whitespace follows: the same call skips both
        obtain ⟨hrest, hres, hx⟩ := hB
        have hc := isWs_of_skip a c cs hres
        have hall : ∀ d ∈ cs, isWs d = true := by
          have := lexNext_ws a c cs hc
          rw [this] at hrest
          exact all_of_dropWhile_nil isWs cs hrest
        have hd : cs.dropWhile isWs = [] := by rw [lexNext_ws a c cs hc] at hrest; exact hrest
        have hS' : lexRun a (c :: cs) = ⟨[], a, .closed⟩ := by
          rw [hS, lexNext_ws a c cs hc]
          simp [lexWhitespace, hd, StepRes.items, StepRes.endClass]
        rw [hS']
        simp only [List.cons_append]
        rw [lexRun_cons a c (cs ++ x :: r), lexNext_ws a c (cs ++ x :: r) hc]
        simp only [lexWhitespace, List.dropWhile_append_of_pos hall]
        rw [lexRun_cons a x r, lexNext_ws a x r hx]
        simp [lexWhitespace, hx, StepRes.items, StepRes.endClass]
      · have hstep : (lexNext a c cs).extends (lexNext a c (cs ++ x :: r)) (x :: r) := by
          apply lexNext_append
          by_cases hrest : (lexNext a c cs).rest = []
          · refine Or.inr ?_
            have hlast : (lexRun a (c :: cs)).last = (lexNext a c cs).res.endClass := by rw [hS]; simp [hrest]
            rw [hlast] at h
            unfold stepCompat
            split
            · rename_i heq
              simp only [stops]
              cases hx : isWs x with
              | true => exact absurd ⟨hrest, heq, hx⟩ hB
              | false => rfl
            · exact h
          · exact Or.inl hrest
        unfold Step.extends at hstep
        simp only [List.cons_append]
        rw [lexRun_cons a c (cs ++ x :: r), hstep]
        simp only []
        have hcompat : compat (lexRun (lexNext a c cs).attr (lexNext a c cs).rest).last (x :: r) = true := by
          by_cases hrest : (lexNext a c cs).rest = []
          · rw [hrest]; rfl
          · rw [hS] at h; simpa [hrest] using h
        have := ih (lexNext a c cs).rest.length (by simp only [List.length_cons]; omega) (lexNext a c cs).attr
          (lexNext a c cs).rest hcompat rfl
        rw [this, hS]
        simp [List.append_assoc]


/-! ## §5 what single spellings read as -/

theorem compat_head (e : EndClass) (c : Char) (r : List Char) : compat e (c :: r) = compat e [c] := by
  cases e <;> rfl

theorem compat_closed (r : List Char) : compat .closed r = true := by cases r <;> rfl

theorem compat_nil (e : EndClass) : compat e [] = true := by cases e <;> rfl

theorem endClass_wordTok (a : Bool) (w : List Char) :
    (StepRes.tok (if a = true then SliceTok.ident w else checkKeyword w)).endClass = .word := by
  cases a with
  | true => rfl
  | false =>
    simp only [Bool.false_eq_true, if_false, checkKeyword]
    split <;> rfl

theorem beq_false_of_isAlpha (c d : Char) (hd : d.isAlpha = false) (hc : c.isAlpha = true) : (c == d) = false := by
  by_cases h : c = d
  · subst h; rw [hc] at hd; cases hd
  · simpa using h

theorem alpha_simpleTok (c : Char) (hc : c.isAlpha = true) : simpleTok c = none := by
  unfold simpleTok
  simp only [beq_false_of_isAlpha c '(' (by decide) hc, beq_false_of_isAlpha c ')' (by decide) hc,
    beq_false_of_isAlpha c '{' (by decide) hc, beq_false_of_isAlpha c '}' (by decide) hc,
    beq_false_of_isAlpha c '<' (by decide) hc, beq_false_of_isAlpha c '>' (by decide) hc,
    beq_false_of_isAlpha c ',' (by decide) hc, beq_false_of_isAlpha c '=' (by decide) hc,
    beq_false_of_isAlpha c '?' (by decide) hc, Bool.false_eq_true, if_false]

theorem lexNext_alpha (a : Bool) (c : Char) (cs : List Char) (hc : c.isAlpha = true) : lexNext a c cs = lexWord a c cs := by
  unfold lexNext
  simp only [alpha_simpleTok c hc, beq_false_of_isAlpha c '[' (by decide) hc, beq_false_of_isAlpha c ']' (by decide) hc,
    beq_false_of_isAlpha c ':' (by decide) hc, beq_false_of_isAlpha c '-' (by decide) hc,
    beq_false_of_isAlpha c '"' (by decide) hc, beq_false_of_isAlpha c '/' (by decide) hc,
    beq_false_of_isAlpha c '\\' (by decide) hc, hc, Bool.false_eq_true, if_false, if_true]

theorem takeWhile_all (p : Char → Bool) (cs : List Char) (h : cs.all p = true) : cs.takeWhile p = cs := by
  induction cs with
  | nil => rfl
  | cons c cs ih =>
    simp only [List.all_cons, Bool.and_eq_true] at h
    simp [h.1, ih h.2]

theorem dropWhile_all (p : Char → Bool) (cs : List Char) (h : cs.all p = true) : cs.dropWhile p = [] := by
  induction cs with
  | nil => rfl
  | cons c cs ih =>
    simp only [List.all_cons, Bool.and_eq_true] at h
    simp [h.1, ih h.2]

/-- a word on its own: a keyword or an identifier outside attributes, always an identifier inside -/
theorem lexRun_word (a : Bool) (w : List Char) (h : isIdentText w = true) :
    lexRun a w = ⟨[.tok (if a = true then .ident w else checkKeyword w)], a, .word⟩ := by
  cases w with
  | nil => simp [isIdentText] at h
  | cons c cs =>
    simp only [isIdentText, Bool.and_eq_true] at h
    rw [lexRun_cons, lexNext_alpha a c cs h.1]
    simp [lexWord, takeWhile_all _ _ h.2, dropWhile_all _ _ h.2, StepRes.items, endClass_wordTok]

theorem isWordChar_of_isAlpha (c : Char) (h : c.isAlpha = true) : isWordChar c = true := by
  simp [isWordChar, Char.isAlphanum, h]

/-- a backslash-escaped word on its own: the identifier, never a keyword -/
theorem lexRun_escaped (a : Bool) (w : List Char) (h : isIdentText w = true) :
    lexRun a ('\\' :: w) = ⟨[.tok (.ident w)], a, .word⟩ := by
  cases w with
  | nil => simp [isIdentText] at h
  | cons c cs =>
    simp only [isIdentText, Bool.and_eq_true] at h
    have hall : (c :: cs).all isWordChar = true := by simp [isWordChar_of_isAlpha c h.1, h.2]
    have e : lexNext a '\\' (c :: cs) = lexBackslash a (c :: cs) := by
      unfold lexNext
      simp only [show simpleTok '\\' = none by decide]
      simp
    rw [lexRun_cons, e]
    simp only [lexBackslash, h.1, if_true, takeWhile_all _ _ hall, dropWhile_all _ _ hall]
    simp [StepRes.items, StepRes.endClass]

theorem lexRun_comma (a : Bool) : lexRun a [','] = ⟨[.tok .comma], a, .closed⟩ := by cases a <;> decide

theorem lexRun_newline (a : Bool) : lexRun a ['\n'] = ⟨[], a, .closed⟩ := by cases a <;> decide

/-- whitespace on its own -/
theorem lexRun_ws (a : Bool) (g : List Char) (h : g.all isWs = true) : lexRun a g = ⟨[], a, .closed⟩ := by
  cases g with
  | nil => rfl
  | cons c cs =>
    simp only [List.all_cons, Bool.and_eq_true] at h
    rw [lexRun_cons, lexNext_ws a c cs h.1]
    simp [lexWhitespace, dropWhile_all _ _ h.2, StepRes.items, StepRes.endClass]

/-- the head of a gap: nothing that could continue a word or complete a two-character token -/
def gapHeadOk : List Char → Bool
  | [] => true
  | c :: _ => !isWordChar c && c != '[' && c != ']' && c != ':' && c != '>'

theorem compat_of_gapHeadOk (e : EndClass) (g : List Char) (h : gapHeadOk g = true) (h1 : e ≠ .line) (h2 : e ≠ .err) :
    compat e g = true := by
  cases g with
  | nil => exact compat_nil e
  | cons c r =>
    simp only [gapHeadOk, Bool.and_eq_true] at h
    cases e <;> simp_all [compat]

/-- text that reads as nothing, in every attribute mode, and may follow anything but an open line comment -/
structure GapOk (g : List Char) : Prop where
  run : ∀ a, lexRun a g = ⟨[], a, .closed⟩
  head : gapHeadOk g = true

theorem gapOk_nil : GapOk [] := ⟨fun _ => rfl, rfl⟩

theorem gapOk_ws (g : List Char) (h : g.all isWs = true) : GapOk g := by
  refine ⟨fun a => lexRun_ws a g h, ?_⟩
  cases g with
  | nil => rfl
  | cons c r =>
    simp only [List.all_cons, Bool.and_eq_true] at h
    obtain ⟨_, h1, h2, h3, _, _, _, _, _, _, hw, h4⟩ := ws_arms c (isWs_mem c h.1)
    simp only [gapHeadOk, hw, bne, h1, h2, h3, h4]
    rfl

theorem gapOk_newline_cons (g : List Char) (h : GapOk g) : GapOk ('\n' :: g) := by
  refine ⟨fun a => ?_, by simp only [gapHeadOk]; decide⟩
  have := lexRun_append a ['\n'] g (by rw [lexRun_newline]; exact compat_closed g)
  simp only [List.cons_append, List.nil_append, lexRun_newline, h.run] at this
  rw [this]; simp

/-- every entry of the printer's gap catalogue reads as nothing and is not empty -/
theorem gapCatalogue_ok : ∀ g ∈ gapCatalogue,
    (∀ a, lexRun a g.toList = ⟨[], a, .closed⟩) ∧ gapHeadOk g.toList = true ∧ g.toList ≠ [] := by decide


/-! ## §5b ordinary comments with arbitrary bodies -/

theorem lexNext_slash (a : Bool) (cs : List Char) : lexNext a '/' cs = lexSlash a cs := by
  unfold lexNext
  simp only [show simpleTok '/' = none by decide]
  simp

/-- `//` + any text without a line break that does not start with a further `/` (that would be `///`): nothing, and
    the comment is open until the line break -/
theorem lexRun_lineComment (a : Bool) (t : List Char) (h1 : t.all (· != '\n') = true) (h2 : t.head? ≠ some '/') :
    lexRun a ('/' :: '/' :: t) = ⟨[], a, .line⟩ := by
  rw [lexRun_cons, lexNext_slash]
  have e : lexLineComment a t = ⟨.skip .lineComment, t.dropWhile (· != '\n'), a⟩ := by
    unfold lexLineComment
    split
    · rename_i r3 heq; exact absurd rfl h2
    · rfl
  simp only [lexSlash, e, dropWhile_all _ _ h1]
  simp [StepRes.items, StepRes.endClass]

theorem lexRun_lineComment_nl (a : Bool) (t : List Char) (h1 : t.all (· != '\n') = true) (h2 : t.head? ≠ some '/') :
    lexRun a ('/' :: '/' :: (t ++ ['\n'])) = ⟨[], a, .closed⟩ := by
  have := lexRun_append a ('/' :: '/' :: t) ['\n'] (by rw [lexRun_lineComment a t h1 h2]; rfl)
  rw [lexRun_lineComment a t h1 h2] at this
  simp only [List.cons_append] at this
  rw [this, lexRun_newline]
  simp

/-- `*/` does not occur in the text -/
def noClose : List Char → Bool
  | [] => true
  | c :: r => !(c == '*' && r.head? == some '/') && noClose r

theorem consumeBlock_body (star : Bool) (body rest : List Char) (h : noClose body = true)
    (hs : star = true → body.head? ≠ some '/') : consumeBlock star (body ++ '*' :: '/' :: rest) = some rest := by
  induction body generalizing star with
  | nil =>
    simp only [List.nil_append, consumeBlock]
    simp
  | cons c body ih =>
    simp only [noClose, Bool.and_eq_true, Bool.not_eq_true'] at h
    simp only [List.cons_append, consumeBlock]
    have hc : (c == '/' && star) = false := by
      cases hstar : star with
      | false => simp
      | true =>
        have := hs hstar
        simp only [List.head?_cons, ne_eq, Option.some.injEq] at this
        simp [this]
    simp only [hc, Bool.false_eq_true, if_false]
    apply ih _ h.2
    intro hstar'
    have hc' : c = '*' := by simpa using hstar'
    subst hc'
    intro hh
    have := h.1
    simp [hh] at this

/-- `/*` + any text without `*/` + `*/`: nothing -/
theorem lexRun_blockComment (a : Bool) (body : List Char) (h : noClose body = true) :
    lexRun a ('/' :: '*' :: (body ++ ['*', '/'])) = ⟨[], a, .closed⟩ := by
  rw [lexRun_cons, lexNext_slash]
  simp only [lexSlash, consumeBlock_body false body [] h (fun e => by cases e)]
  simp [StepRes.items, StepRes.endClass]

end Slicec.SLex
