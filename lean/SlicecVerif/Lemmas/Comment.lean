/- Helper lemmas for C16 (doc comments). -/
import SlicecVerif.Model.Comment

namespace Slicec

/-! ## indentation: counting whitespace characters -/

def spaces (k : Nat) : Str := List.replicate k ' '

/-- `body` begins with a character that is not whitespace -/
def StartsNonWs (body : Str) : Prop := ∃ c r, body = c :: r ∧ isWsC c = false

theorem isWs_space : isWsC ' ' = true := by decide

theorem spaces_all_ws (k : Nat) : (spaces k).all isWsC = true := by
  simp only [List.all_eq_true, spaces]
  intro x hx
  rw [(List.mem_replicate.mp hx).2]; exact isWs_space

theorem leadWs_le (t : Str) : leadWs t ≤ t.length := by
  unfold leadWs
  induction t with
  | nil => simp
  | cons c cs ih =>
    rw [List.takeWhile_cons]
    split <;> simp <;> omega

/-- `whitespace_count == text.chars().count()` says that the text consists of whitespace only -/
theorem leadWs_eq_length (t : Str) : (leadWs t == t.length) = t.all isWsC := by
  unfold leadWs
  induction t with
  | nil => simp
  | cons c cs ih =>
    rw [List.takeWhile_cons]
    cases hc : isWsC c with
    | true => simpa [hc] using ih
    | false => simp [hc]

theorem leadWs_append (ws body : Str) (hws : ws.all isWsC = true) (hb : StartsNonWs body) : leadWs (ws ++ body) = ws.length := by
  obtain ⟨c, r, rfl, hc⟩ := hb
  unfold leadWs
  induction ws with
  | nil => simp [hc]
  | cons w ws ih =>
    simp only [List.all_cons, Bool.and_eq_true] at hws
    simp [hws.1, ih hws.2]

theorem not_all_ws_append (ws body : Str) (hb : StartsNonWs body) : (ws ++ body).all isWsC = false := by
  obtain ⟨c, r, rfl, hc⟩ := hb
  simp [hc]

/-- the first `m ≤ leadWs t` characters of a text are whitespace -/
theorem take_all_ws (t : Str) (m : Nat) (h : m ≤ leadWs t) : (t.take m).all isWsC = true := by
  unfold leadWs at h
  induction t generalizing m with
  | nil => simp
  | cons c cs ih =>
    cases m with
    | zero => simp
    | succ m =>
      rw [List.takeWhile_cons] at h
      cases hc : isWsC c with
      | false => simp [hc] at h
      | true =>
        simp only [hc, if_true, List.length_cons] at h
        simp [hc, ih m (by omega)]

theorem take_all_ws_of_all (t : Str) (m : Nat) (h : t.all isWsC = true) : (t.take m).all isWsC = true := by
  simp only [List.all_eq_true] at h ⊢
  exact fun x hx => h x (List.mem_of_mem_take hx)

/-! ## the first loop computes the minimum of the line indentations -/

/-- minimum of two optional counts (`none` = no count yet) -/
def optMin : Option Nat → Option Nat → Option Nat
  | none, b => b
  | some a, none => some a
  | some a, some b => some (min a b)

theorem commonWs_eq_minOpt (ls : List MLine) (acc : Option Nat) :
    commonWs acc ls = optMin acc (minOpt (ls.map lineIndent)) := by
  induction ls generalizing acc with
  | nil => cases acc <;> simp [commonWs, minOpt, optMin]
  | cons l ls ih =>
    match l with
    | none => simp [commonWs, lineIndent, minOpt, ih]
    | some (.link id, more) =>
      simp only [commonWs, List.map_cons, lineIndent, minOpt]
      cases minOpt (ls.map lineIndent) <;> cases acc <;> simp [optMin]
    | some (.text t, more) =>
      simp only [commonWs, List.map_cons, lineIndent]
      rw [leadWs_eq_length]
      cases hall : t.all isWsC with
      | false =>
        simp only [Bool.and_false, Bool.false_eq_true, if_false, minOpt, ih]
        cases minOpt (ls.map lineIndent) <;> cases acc <;> simp [optMin] <;> omega
      | true =>
        have hlen : leadWs t = t.length := by
          have := leadWs_eq_length t; rw [hall] at this; simpa using this
        cases more with
        | nil => simp [minOpt, ih]
        | cons c cs =>
          simp only [List.isEmpty_cons, Bool.false_and, Bool.false_eq_true, if_false, ih, hlen, if_true, minOpt]
          cases minOpt (ls.map lineIndent) <;> cases acc <;> simp [optMin] <;> omega

theorem normaliseCommon_commonWs (ls : List MLine) : normaliseCommon (commonWs none ls) = commonIndent ls := by
  simp [normaliseCommon, commonIndent, commonWs_eq_minOpt, optMin]

theorem minOpt_le (l : List (Option Nat)) (k : Nat) (h : some k ∈ l) : ∃ m, minOpt l = some m ∧ m ≤ k := by
  induction l with
  | nil => simp at h
  | cons x l ih =>
    rcases List.mem_cons.mp h with h | h
    · subst h
      simp only [minOpt]
      cases minOpt l with
      | none => exact ⟨k, rfl, Nat.le_refl _⟩
      | some b => exact ⟨min k b, rfl, Nat.min_le_left _ _⟩
    · obtain ⟨m, hm, hle⟩ := ih h
      match x with
      | none => exact ⟨m, by simpa [minOpt] using hm, hle⟩
      | some a => exact ⟨min a m, by simp [minOpt, hm], Nat.le_trans (Nat.min_le_right _ _) hle⟩

theorem minOpt_mem (l : List (Option Nat)) (m : Nat) (h : minOpt l = some m) : some m ∈ l := by
  induction l generalizing m with
  | nil => simp [minOpt] at h
  | cons x l ih =>
    match x with
    | none => simp only [minOpt] at h; exact List.mem_cons_of_mem _ (ih m h)
    | some a =>
      simp only [minOpt] at h
      cases hr : minOpt l with
      | none => simp [hr] at h; simp [h]
      | some b =>
        simp only [hr, Option.some.injEq] at h
        by_cases hab : a ≤ b
        · have : a = m := by omega
          simp [this]
        · have : b = m := by omega
          exact List.mem_cons_of_mem _ (ih m (by rw [hr, this]))

theorem minOpt_none (l : List (Option Nat)) (h : ∀ x ∈ l, x = none) : minOpt l = none := by
  induction l with
  | nil => rfl
  | cons x l ih =>
    have hx := h x (by simp)
    subst hx
    simpa [minOpt] using ih (fun y hy => h y (by simp [hy]))

/-! ## character boundaries: the second loop cannot panic -/

def utf8Len (s : Str) : Nat := (s.map Char.utf8Size).sum

/-- byte offset `n` is a character boundary of `t` (and within it) -/
def OnBoundary (t : Str) (n : Nat) : Prop := ∃ pre suf, t = pre ++ suf ∧ utf8Len pre = n

theorem dropBytes_of_prefix (pre suf : Str) : dropBytes (pre ++ suf) (utf8Len pre) = some suf := by
  induction pre with
  | nil => simp [utf8Len, dropBytes]
  | cons c p ih =>
    have hpos := Char.utf8Size_pos c
    have : utf8Len (c :: p) = (c.utf8Size + utf8Len p - 1) + 1 := by simp [utf8Len]; omega
    rw [List.cons_append, this, dropBytes, if_pos (by omega)]
    have : c.utf8Size + utf8Len p - 1 + 1 - c.utf8Size = utf8Len p := by omega
    rw [this, ih]

theorem prefix_of_dropBytes (t : Str) (n : Nat) (suf : Str) (h : dropBytes t n = some suf) :
    ∃ pre, t = pre ++ suf ∧ utf8Len pre = n := by
  induction t generalizing n with
  | nil =>
    cases n with
    | zero => simp [dropBytes] at h; exact ⟨[], by simp [h], rfl⟩
    | succ n => simp [dropBytes] at h
  | cons c cs ih =>
    cases n with
    | zero => simp [dropBytes] at h; exact ⟨[], by simp [h], rfl⟩
    | succ n =>
      rw [dropBytes] at h
      split at h
      · obtain ⟨pre, hp, hl⟩ := ih _ h
        refine ⟨c :: pre, by simp [hp], ?_⟩
        simp [utf8Len] at hl ⊢
        omega
      · simp at h

/-- the model of `replace_range(..n, "")` returns normally exactly when `n` is a character boundary -/
theorem dropBytes_isSome_iff (t : Str) (n : Nat) : (dropBytes t n).isSome ↔ OnBoundary t n := by
  constructor
  · intro h
    obtain ⟨suf, hs⟩ := Option.isSome_iff_exists.mp h
    obtain ⟨pre, hp, hl⟩ := prefix_of_dropBytes t n suf hs
    exact ⟨pre, suf, hp, hl⟩
  · rintro ⟨pre, suf, rfl, rfl⟩
    simp [dropBytes_of_prefix]

/-- `char_indices().nth(n).unwrap_or(len)` is the UTF-8 length of the first `n` characters -/
theorem endIndex_eq (t : Str) (n : Nat) : endIndex t n = utf8Len (t.take n) := by
  induction t generalizing n with
  | nil => simp [endIndex, utf8Len]
  | cons c cs ih =>
    cases n with
    | zero => simp [endIndex, utf8Len]
    | succ n => simp [endIndex, ih n, utf8Len]

theorem endIndex_onBoundary (t : Str) (n : Nat) : OnBoundary t (endIndex t n) :=
  ⟨t.take n, t.drop n, (List.take_append_drop n t).symm, (endIndex_eq t n).symm⟩

theorem dropBytes_endIndex (t : Str) (n : Nat) : dropBytes t (endIndex t n) = some (t.drop n) := by
  have := dropBytes_of_prefix (t.take n) (t.drop n)
  rwa [List.take_append_drop, ← endIndex_eq] at this

theorem stripLine_endIndex (n : Nat) (l : MLine) : stripLine (fun t => endIndex t n) l = some (lineWithout n l) := by
  match l with
  | none => rfl
  | some (.link id, rest) => rfl
  | some (.text t, rest) => simp [stripLine, dropBytes_endIndex, lineWithout]

theorem stripLines_endIndex (n : Nat) (ls : List MLine) :
    stripLines (fun t => endIndex t n) ls = some (ls.flatMap (lineWithout n)) := by
  induction ls with
  | nil => rfl
  | cons l ls ih => simp [stripLines, stripLine_endIndex, ih]

/-! ## written lines: whitespace, then a body that starts with a non-blank character, then further components -/

/-- a written line: empty, or a run of whitespace characters `ws` (any of the 25 code points, any mixture of widths), a body
    that starts with a non-blank character, and further components -/
abbrev ILine := Option (Str × Str × List Comp)

def ILine.toMLine : ILine → MLine
  | none => none
  | some (ws, body, rest) => some (.text (ws ++ body), rest)

def WellFormedI (l : ILine) : Prop :=
  match l with
  | none => True
  | some (ws, body, _) => ws.all isWsC = true ∧ StartsNonWs body

/-- the indentation of a written line, in characters -/
def ILine.indent : ILine → Option Nat
  | none => none
  | some (ws, _, _) => some ws.length

/-- what is left of a line after removing `m` characters of indentation -/
def ILine.stripped (m : Nat) : ILine → List Comp
  | none => [nl]
  | some (ws, body, rest) => .text (ws.drop m ++ body) :: rest ++ [nl]

theorem lineIndent_written (l : ILine) (h : WellFormedI l) : lineIndent l.toMLine = l.indent := by
  match l, h with
  | none, _ => rfl
  | some (ws, body, rest), ⟨hws, hb⟩ =>
    simp [ILine.toMLine, lineIndent, ILine.indent, not_all_ws_append ws body hb, leadWs_append ws body hws hb]

theorem lineWithout_written (m : Nat) (l : ILine) (h : ∀ k, l.indent = some k → m ≤ k) :
    lineWithout m l.toMLine = l.stripped m := by
  match l with
  | none => rfl
  | some (ws, body, rest) =>
    have := h ws.length rfl
    simp [ILine.toMLine, lineWithout, ILine.stripped, List.drop_append_of_le_length this]

theorem map_lineIndent_written (ls : List ILine) (h : ∀ l ∈ ls, WellFormedI l) :
    (ls.map ILine.toMLine).map lineIndent = ls.map ILine.indent := by
  rw [List.map_map]
  exact List.map_congr_left fun l hl => lineIndent_written l (h l hl)

end Slicec

namespace Slicec
open Gen (TagKw)

/-! ## what a parsing step consumes -/

theorem Outcome.bind_eq_ok {ε α β} (x : Outcome ε α) (f : α → Outcome ε β) (b : β) (h : x.bind f = .ok b) :
    ∃ a, x = .ok a ∧ f a = .ok b := by
  cases x with
  | ok a => exact ⟨a, rfl, h⟩
  | err e => simp [Outcome.bind] at h
  | panic s => simp [Outcome.bind] at h

def isBlockKw : CTok → Bool
  | .kw .ParamKeyword => true
  | .kw .ReturnsKeyword => true
  | .kw .SeeKeyword => true
  | _ => false

/-- `pre` is what a parsing step consumed: `toks = pre ++ rest`, and no block keyword is in it -/
def Consumed (toks rest : List CTok) : Prop := ∃ pre, toks = pre ++ rest ∧ ∀ t ∈ pre, isBlockKw t = false

theorem Consumed.refl (toks : List CTok) : Consumed toks toks := ⟨[], by simp, by simp⟩

theorem Consumed.cons {t : CTok} {toks rest : List CTok} (ht : isBlockKw t = false) (h : Consumed toks rest) :
    Consumed (t :: toks) rest := by
  obtain ⟨pre, rfl, hp⟩ := h
  exact ⟨t :: pre, by simp, by intro x hx; rcases List.mem_cons.mp hx with rfl | hx; exact ht; exact hp x hx⟩

theorem Consumed.trans {a b c : List CTok} (h1 : Consumed a b) (h2 : Consumed b c) : Consumed a c := by
  obtain ⟨p1, rfl, hp1⟩ := h1
  obtain ⟨p2, rfl, hp2⟩ := h2
  exact ⟨p1 ++ p2, by simp, by intro x hx; rcases List.mem_append.mp hx with h | h; exact hp1 x h; exact hp2 x h⟩

theorem parseIdTail_consumed (toks : List CTok) (v : List Str) (r : List CTok) (h : parseIdTail toks = some (v, r)) :
    Consumed toks r := by
  fun_induction parseIdTail toks generalizing v r with
  | case1 s rest v' r' hrec ih =>
    simp at h
    obtain ⟨_, rfl⟩ := h
    exact Consumed.cons rfl (Consumed.cons rfl (ih _ _ hrec))
  | case2 s rest hrec => simp at h
  | case3 => simp at h
  | case4 => simp at h; obtain ⟨_, rfl⟩ := h; exact Consumed.refl _

theorem parseScopedId_consumed (toks : List CTok) (id : Str) (r : List CTok) (h : parseScopedId toks = some (id, r)) :
    Consumed toks r := by
  unfold parseScopedId at h
  split at h
  · split at h
    · rename_i hv
      simp at h; obtain ⟨_, rfl⟩ := h
      exact Consumed.cons rfl (Consumed.cons rfl (parseIdTail_consumed _ _ _ hv))
    · simp at h
  · split at h
    · rename_i hv
      simp at h; obtain ⟨_, rfl⟩ := h
      exact Consumed.cons rfl (parseIdTail_consumed _ _ _ hv)
    · simp at h
  · simp at h

theorem parseComps_consumed (fuel : Nat) (toks : List CTok) (cs : List Comp) (r : List CTok)
    (h : parseComps fuel toks = some (cs, r)) : Consumed toks r := by
  fun_induction parseComps fuel toks generalizing cs r with
  | case1 => simp at h
  | case2 fuel s rest cs' r' hrec ih =>
    simp at h; obtain ⟨_, rfl⟩ := h
    exact Consumed.cons rfl (ih _ _ hrec)
  | case3 => simp at h
  | case4 fuel rest id rest' hid cs' r' hrec ih =>
    simp at h; obtain ⟨_, rfl⟩ := h
    exact Consumed.cons rfl (Consumed.cons rfl ((parseScopedId_consumed _ _ _ hid).trans (Consumed.cons rfl (ih _ _ hrec))))
  | case5 => simp at h
  | case6 => simp at h
  | case7 => simp at h
  | case8 => simp at h; obtain ⟨_, rfl⟩ := h; exact Consumed.refl _

theorem parseLines_consumed (fuel : Nat) (toks : List CTok) (ls : List MLine) (r : List CTok)
    (h : parseLines fuel toks = some (ls, r)) : Consumed toks r := by
  fun_induction parseLines fuel toks generalizing ls r with
  | case1 => simp at h
  | case2 fuel toks hs cs rest hc ls' r' hrec ih =>
    simp at h; obtain ⟨_, rfl⟩ := h
    exact (parseComps_consumed _ _ _ _ hc).trans (Consumed.cons rfl (ih _ _ hrec))
  | case3 => simp at h
  | case4 => simp at h
  | case5 => simp at h; obtain ⟨_, rfl⟩ := h; exact Consumed.refl _

theorem parseSectionG_consumed (san : Sanitizer) (pend : Option CLexErr) (toks : List CTok) (m : Msg) (r : List CTok)
    (h : parseSectionG san pend toks = .ok (m, r)) : Consumed toks r := by
  unfold parseSectionG at h
  simp only at h
  split at h
  · simp at h
  · rename_i inl r0 hhdr
    split at h
    · simp at h
    · rename_i ls rest hl
      obtain ⟨ml, _, h2⟩ := Outcome.bind_eq_ok _ _ _ h
      simp at h2
      obtain ⟨_, rfl⟩ := h2
      have hc2 := parseLines_consumed _ _ _ _ hl
      refine Consumed.trans ?_ hc2
      split at hhdr
      · split at hhdr
        · rename_i hc
          simp at hhdr; obtain ⟨_, rfl⟩ := hhdr
          exact Consumed.cons rfl ((parseComps_consumed _ _ _ _ hc).trans (Consumed.cons rfl (Consumed.refl _)))
        · simp at hhdr
      · simp at hhdr; obtain ⟨_, rfl⟩ := hhdr
        exact Consumed.cons rfl (Consumed.refl _)
      · simp at hhdr

/-! ## the tags as written: a scan of the token stream for block keywords -/

def scan {α} (hd : CTok → List CTok → List α) : List CTok → List α
  | [] => []
  | t :: r => hd t r ++ scan hd r

theorem scan_consumed {α} (hd : CTok → List CTok → List α) (hh : ∀ t r, isBlockKw t = false → hd t r = [])
    (toks rest : List CTok) (h : Consumed toks rest) : scan hd toks = scan hd rest := by
  obtain ⟨pre, rfl, hp⟩ := h
  induction pre with
  | nil => rfl
  | cons t pre ih =>
    simp only [List.cons_append, scan]
    rw [hh t _ (hp t (by simp)), ih (fun x hx => hp x (by simp [hx]))]
    rfl

/-- the identifier written after each `@param` -/
def hdParam : CTok → List CTok → List Str
  | .kw .ParamKeyword, .ident s :: _ => [s]
  | _, _ => []
/-- the identifier (or its absence) written after each `@returns` -/
def hdReturns : CTok → List CTok → List (Option Str)
  | .kw .ReturnsKeyword, .ident s :: _ => [some s]
  | .kw .ReturnsKeyword, _ => [none]
  | _, _ => []
/-- the scoped identifier written after each `@see` -/
def hdSee : CTok → List CTok → List Str
  | .kw .SeeKeyword, r => match parseScopedId r with | some (id, _) => [id] | none => []
  | _, _ => []

def writtenParams (toks : List CTok) : List Str := scan hdParam toks
def writtenReturns (toks : List CTok) : List (Option Str) := scan hdReturns toks
def writtenSee (toks : List CTok) : List Str := scan hdSee toks

theorem hdParam_nb (t : CTok) (r : List CTok) (h : isBlockKw t = false) : hdParam t r = [] := by
  unfold hdParam; split <;> simp_all [isBlockKw]
theorem hdReturns_nb (t : CTok) (r : List CTok) (h : isBlockKw t = false) : hdReturns t r = [] := by
  unfold hdReturns; split <;> simp_all [isBlockKw]
theorem hdSee_nb (t : CTok) (r : List CTok) (h : isBlockKw t = false) : hdSee t r = [] := by
  unfold hdSee; split <;> simp_all [isBlockKw]

theorem parseBlocksG_tags (san : Sanitizer) (pend : Option CLexErr) (fuel : Nat) (c : DocC) (toks : List CTok) (c' : DocC)
    (h : parseBlocksG san pend fuel c toks = .ok c') :
    c'.params.map (·.1) = c.params.map (·.1) ++ writtenParams toks ∧
    c'.returns.map (·.1) = c.returns.map (·.1) ++ writtenReturns toks ∧
    c'.see = c.see ++ writtenSee toks := by
  induction fuel generalizing c toks with
  | zero => simp [parseBlocksG] at h
  | succ fuel ih =>
    unfold parseBlocksG at h
    split at h
    · split at h
      · simp at h; subst h; simp [writtenParams, writtenReturns, writtenSee, scan]
      · simp at h
    · rename_i id rest
      obtain ⟨⟨m, r⟩, hs, h2⟩ := Outcome.bind_eq_ok _ _ _ h
      have hc := parseSectionG_consumed _ _ _ _ _ hs
      obtain ⟨i1, i2, i3⟩ := ih _ _ h2
      refine ⟨?_, ?_, ?_⟩
      · rw [i1]; simp [writtenParams, scan, hdParam, scan_consumed hdParam hdParam_nb _ _ hc]
      · rw [i2]; simp [writtenReturns, scan, hdReturns, scan_consumed hdReturns hdReturns_nb _ _ hc]
      · rw [i3]; simp [writtenSee, scan, hdSee, scan_consumed hdSee hdSee_nb _ _ hc]
    · rename_i id rest
      obtain ⟨⟨m, r⟩, hs, h2⟩ := Outcome.bind_eq_ok _ _ _ h
      have hc := parseSectionG_consumed _ _ _ _ _ hs
      obtain ⟨i1, i2, i3⟩ := ih _ _ h2
      refine ⟨?_, ?_, ?_⟩
      · rw [i1]; simp [writtenParams, scan, hdParam, scan_consumed hdParam hdParam_nb _ _ hc]
      · rw [i2]; simp [writtenReturns, scan, hdReturns, scan_consumed hdReturns hdReturns_nb _ _ hc]
      · rw [i3]; simp [writtenSee, scan, hdSee, scan_consumed hdSee hdSee_nb _ _ hc]
    · rename_i rest hni
      obtain ⟨⟨m, r⟩, hs, h2⟩ := Outcome.bind_eq_ok _ _ _ h
      have hc := parseSectionG_consumed _ _ _ _ _ hs
      obtain ⟨i1, i2, i3⟩ := ih _ _ h2
      have hR : hdReturns (.kw .ReturnsKeyword) rest = [none] := by
        cases rest with
        | nil => rfl
        | cons t tl => cases t <;> first | rfl | exact (hni _ _ rfl).elim
      refine ⟨?_, ?_, ?_⟩
      · rw [i1]; simp [writtenParams, scan, hdParam, scan_consumed hdParam hdParam_nb _ _ hc]
      · rw [i2]; simp [writtenReturns, scan, hR, scan_consumed hdReturns hdReturns_nb _ _ hc]
      · rw [i3]; simp [writtenSee, scan, hdSee, scan_consumed hdSee hdSee_nb _ _ hc]
    · rename_i rest
      split at h
      · rename_i id r hid
        split at h
        · obtain ⟨i1, i2, i3⟩ := ih _ _ h
          have hc : Consumed rest r := (parseScopedId_consumed _ _ _ hid).trans (Consumed.cons rfl (Consumed.refl _))
          refine ⟨?_, ?_, ?_⟩
          · rw [i1]; simp [writtenParams, scan, hdParam, scan_consumed hdParam hdParam_nb _ _ hc]
          · rw [i2]; simp [writtenReturns, scan, hdReturns, scan_consumed hdReturns hdReturns_nb _ _ hc]
          · rw [i3]; simp [writtenSee, scan, hdSee, hid, scan_consumed hdSee hdSee_nb _ _ hc]
        · simp at h
      · simp at h
    · simp at h


theorem parseBlocksG_pend_not_ok (san : Sanitizer) (e : CLexErr) (fuel : Nat) (c : DocC) (toks : List CTok) (c' : DocC) :
    parseBlocksG san (some e) fuel c toks ≠ .ok c' := by
  induction fuel generalizing c toks with
  | zero => simp [parseBlocksG]
  | succ fuel ih =>
    intro h
    unfold parseBlocksG at h
    split at h
    · simp at h
    · obtain ⟨a, _, h2⟩ := Outcome.bind_eq_ok _ _ _ h
      exact ih _ _ h2
    · obtain ⟨a, _, h2⟩ := Outcome.bind_eq_ok _ _ _ h
      exact ih _ _ h2
    · obtain ⟨a, _, h2⟩ := Outcome.bind_eq_ok _ _ _ h
      exact ih _ _ h2
    · split at h
      · split at h
        · exact ih _ _ h
        · simp at h
      · simp at h
    · simp at h

end Slicec

namespace Slicec

/-! ## plain-text overview comments (the fragment of the round-trip theorem) -/

/-- a line body the lexer turns into exactly one `Text`: starts with a non-blank character other than `@`, no `{` -/
def PlainBody (b : Str) : Prop := ∃ c r, b = c :: r ∧ isWsC c = false ∧ c ≠ '@' ∧ ∀ x ∈ b, x ≠ '{'

theorem PlainBody.startsNonWs {b : Str} (h : PlainBody b) : StartsNonWs b := by
  obtain ⟨c, r, rfl, hc, _, _⟩ := h; exact ⟨c, r, rfl, hc⟩

/-- a written overview line: empty, or `j` spaces of own indentation and a plain body -/
abbrev PLine := Option (Nat × Str)

def PLine.comps : PLine → List Comp
  | none => []
  | some (j, b) => [.text (spaces j ++ b)]

def plainMsg (ls : List PLine) : Msg := ls.flatMap fun l => l.comps ++ [nl]

def PLine.WF : PLine → Prop
  | none => True
  | some (_, b) => PlainBody b

theorem spaces_append_ne_nl (j : Nat) (b : Str) (h : PlainBody b) : Comp.text (spaces j ++ b) ≠ nl := by
  obtain ⟨c, r, rfl, hc, _, _⟩ := h
  intro heq
  simp only [nl, Comp.text.injEq] at heq
  cases j with
  | zero =>
    simp [spaces] at heq
    obtain ⟨rfl, _⟩ := heq
    exact absurd hc (by decide)
  | succ j =>
    simp [spaces, List.replicate_succ] at heq

theorem splitLines_plain (ls : List PLine) (h : ∀ l ∈ ls, l.WF) : splitLines (plainMsg ls) = ls.map PLine.comps := by
  unfold splitLines
  induction ls with
  | nil => simp [plainMsg, splitLinesAux]
  | cons l ls ih =>
    have ih' := ih (fun x hx => h x (by simp [hx]))
    match l, h l (by simp) with
    | none, _ =>
      simp only [plainMsg, List.flatMap_cons, PLine.comps, List.nil_append, List.cons_append, List.map_cons] at ih' ⊢
      rw [splitLinesAux, if_pos rfl]
      simp [ih']
    | some (j, b), hb =>
      simp only [plainMsg, List.flatMap_cons, PLine.comps, List.cons_append, List.nil_append, List.map_cons] at ih' ⊢
      rw [splitLinesAux, if_neg (spaces_append_ne_nl j b hb), splitLinesAux, if_pos rfl]
      simp [ih']

theorem dropWhile_ws_append (ws b : Str) (hws : ws.all isWsC = true) (h : StartsNonWs b) : (ws ++ b).dropWhile isWsC = b := by
  obtain ⟨c, r, rfl, hc⟩ := h
  induction ws with
  | nil => simp [hc]
  | cons w ws ih =>
    simp only [List.all_cons, Bool.and_eq_true] at hws
    rw [List.cons_append, List.dropWhile_cons, if_pos hws.1, ih hws.2]

theorem ws_ne_lbrace {x : Char} (h : isWsC x = true) : x ≠ '{' := by
  intro hx; subst hx; exact absurd h (by decide)

theorem takeWhile_all (p : Char → Bool) (l : Str) (h : ∀ y ∈ l, p y = true) : l.takeWhile p = l := by
  induction l with
  | nil => rfl
  | cons a l ih => simp [h a (by simp), ih (fun y hy => h y (by simp [hy]))]

theorem dropWhile_all (p : Char → Bool) (l : Str) (h : ∀ y ∈ l, p y = true) : l.dropWhile p = [] := by
  induction l with
  | nil => rfl
  | cons a l ih => simp [h a (by simp), ih (fun y hy => h y (by simp [hy]))]

theorem lexMessage_plain (x : Char) (xs : Str) (h : ∀ y ∈ x :: xs, y ≠ '{') :
    lexMessage (x :: xs) = (.text (x :: xs), .message, []) := by
  have hx : x ≠ '{' := h x (by simp)
  have hall : ∀ y ∈ x :: xs, (y != '{') = true := fun y hy => by simpa using h y hy
  unfold lexMessage
  split
  · rename_i rest heq
    simp at heq
    exact absurd heq.1 hx
  · rw [takeWhile_all _ _ hall, dropWhile_all _ _ hall]

theorem lexLine_plain (f : Nat) (x : Char) (xs : Str) (h : ∀ y ∈ x :: xs, y ≠ '{') :
    lexLine (f + 2) .message (x :: xs) = ⟨[.text (x :: xs), .newline], none⟩ := by
  rw [lexLine]
  simp only [lexMessage_plain x xs h]
  simp [lexLine, LexOut.cons]

/-- a line made of any whitespace and a plain body is lexed as one `Text` (whitespace included) and the `Newline` -/
theorem lexOneLine_plain (ws : Str) (hws : ws.all isWsC = true) (b : Str) (h : PlainBody b) :
    lexOneLine (ws ++ b) = ⟨[.text (ws ++ b), .newline], none⟩ := by
  have hs := h.startsNonWs
  obtain ⟨c, r, rfl, hc, hat, hbr⟩ := h
  have hmode : startMode (ws ++ c :: r) = .message := by
    unfold startMode trimStart
    rw [dropWhile_ws_append ws _ hws hs]
    split
    · rename_i heq; simp at heq; exact absurd heq.1 hat
    · rfl
  have hall : ∀ y ∈ ws ++ c :: r, y ≠ '{' := by
    intro y hy
    rcases List.mem_append.mp hy with hy | hy
    · exact ws_ne_lbrace (List.all_eq_true.mp hws y hy)
    · exact hbr y hy
  unfold lexOneLine
  rw [hmode]
  cases ws with
  | nil =>
    simp only [List.nil_append] at hall ⊢
    exact lexLine_plain _ c r hall
  | cons w ws =>
    rw [List.cons_append] at hall ⊢
    exact lexLine_plain _ _ _ hall

/-- the source text of a plain line written after the indentation `ind` -/
def PLine.src (ind : Str) : PLine → Str
  | none => []
  | some (j, b) => (ind ++ spaces j) ++ b

def PLine.toks (ind : Str) : PLine → List CTok
  | none => [.newline]
  | some (j, b) => [.text ((ind ++ spaces j) ++ b), .newline]

def PLine.iline (ind : Str) : PLine → ILine
  | none => none
  | some (j, b) => some (ind ++ spaces j, b, [])

theorem all_ws_append_spaces (ind : Str) (hind : ind.all isWsC = true) (j : Nat) : (ind ++ spaces j).all isWsC = true := by
  rw [List.all_append, hind, spaces_all_ws]; rfl

theorem lineSrc_plain (ind : Str) (l : PLine) : lineSrc ind l.comps = l.src ind := by
  match l with
  | none => rfl
  | some (j, b) => simp [PLine.comps, lineSrc, compSrc, PLine.src]

theorem lexOneLine_pline (ind : Str) (hind : ind.all isWsC = true) (l : PLine) (h : l.WF) :
    lexOneLine (l.src ind) = ⟨l.toks ind, none⟩ := by
  match l, h with
  | none, _ => rfl
  | some (j, b), hb => exact lexOneLine_plain (ind ++ spaces j) (all_ws_append_spaces ind hind j) b hb

theorem lexComment_plain (ind : Str) (hind : ind.all isWsC = true) (ls : List PLine) (h : ∀ l ∈ ls, l.WF) :
    lexComment (ls.map (PLine.src ind)) = ⟨ls.flatMap (PLine.toks ind), none⟩ := by
  induction ls with
  | nil => rfl
  | cons l ls ih =>
    simp only [List.map_cons, lexComment, lexOneLine_pline ind hind l (h l (by simp)), ih (fun x hx => h x (by simp [hx])),
      List.flatMap_cons]

theorem parseLines_plain (ind : Str) (ls : List PLine) (fuel : Nat) (hf : ls.length < fuel) :
    parseLines fuel (ls.flatMap (PLine.toks ind)) = some (ls.map fun l => (l.iline ind).toMLine, []) := by
  induction ls generalizing fuel with
  | nil =>
    cases fuel with
    | zero => omega
    | succ f => simp [parseLines, startsLine]
  | cons l ls ih =>
    cases fuel with
    | zero => omega
    | succ f =>
      have ih' := ih f (by simp at hf; omega)
      match l with
      | none =>
        simp only [List.flatMap_cons, PLine.toks, List.cons_append, List.nil_append, List.map_cons]
        rw [parseLines]
        simp [startsLine, parseComps, ih', toMLine, PLine.iline, ILine.toMLine]
      | some (j, b) =>
        simp only [List.flatMap_cons, PLine.toks, List.cons_append, List.nil_append, List.map_cons]
        rw [parseLines]
        simp [startsLine, parseComps, ih', toMLine, PLine.iline, ILine.toMLine]


theorem length_le_toks (ind : Str) (ls : List PLine) : ls.length ≤ (ls.flatMap (PLine.toks ind)).length := by
  induction ls with
  | nil => simp
  | cons l ls ih =>
    match l with
    | none => simp only [List.flatMap_cons, PLine.toks, List.length_append, List.length_cons, List.length_nil]; omega
    | some (j, b) => simp only [List.flatMap_cons, PLine.toks, List.length_append, List.length_cons, List.length_nil]; omega

theorem parseCommentG_nonempty (san : Sanitizer) (lines : List Str) (h : lines ≠ []) :
    parseCommentG san lines =
      match parseLines ((lexComment lines).toks.length + 1) (lexComment lines).toks with
      | none => .err (.malformed (lexComment lines).err)
      | some (ls, rest) =>
        (reduceLines san (lexComment lines).err ls rest).bind fun ov =>
          parseBlocksG san (lexComment lines).err (rest.length + 1) { overview := ov, params := [], returns := [], see := [] } rest := by
  cases lines with
  | nil => exact absurd rfl h
  | cons l ls => rfl

theorem reduceLines_end (san : Sanitizer) (mls : List MLine) (h : mls ≠ []) :
    reduceLines san none mls [] = (san mls).bind fun m => .ok (some m) := by
  cases mls with
  | nil => exact absurd rfl h
  | cons a b => simp [reduceLines, validFollower]

theorem flatMap_congr_mem {α β} (l : List α) (f g : α → List β) (h : ∀ x ∈ l, f x = g x) : l.flatMap f = l.flatMap g := by
  induction l with
  | nil => rfl
  | cons a l ih => simp [h a (by simp), ih (fun x hx => h x (by simp [hx]))]

def plainDoc (ls : List PLine) : DocC := { overview := some (plainMsg ls), params := [], returns := [], see := [] }

theorem render_plainDoc (ls : List PLine) (ind : Str) (h : ∀ l ∈ ls, l.WF) :
    renderComment (plainDoc ls) ind = ls.map (PLine.src ind) := by
  simp [renderComment, plainDoc, renderMsgLines, splitLines_plain ls h, lineSrc_plain]

/-! ## a doc comment cannot make the parser panic unless the sanitizer does -/

theorem Outcome.bind_eq_panic {ε α β} (x : Outcome ε α) (f : α → Outcome ε β) (s : String) (h : x.bind f = .panic s) :
    x = .panic s ∨ ∃ a, x = .ok a ∧ f a = .panic s := by
  cases x with
  | ok a => exact Or.inr ⟨a, rfl, h⟩
  | err e => simp [Outcome.bind] at h
  | panic s' => simp [Outcome.bind] at h; exact Or.inl (by rw [h])

/-- the sanitizer never panics -/
def SanTotal (san : Sanitizer) : Prop := ∀ ls s, san ls ≠ .panic s

theorem reduceLines_no_panic (san : Sanitizer) (hs : SanTotal san) (pend : Option CLexErr) (ls : List MLine) (rest : List CTok) (s : String) :
    reduceLines san pend ls rest ≠ .panic s := by
  unfold reduceLines
  split
  · cases ls with
    | nil => simp
    | cons l ls =>
      intro h
      rcases Outcome.bind_eq_panic _ _ _ h with h | ⟨a, _, h⟩
      · exact hs _ _ h
      · simp at h
  · simp

theorem parseSectionG_no_panic (san : Sanitizer) (hs : SanTotal san) (pend : Option CLexErr) (toks : List CTok) (s : String) :
    parseSectionG san pend toks ≠ .panic s := by
  unfold parseSectionG
  simp only
  split
  · simp
  · split
    · simp
    · intro h
      rcases Outcome.bind_eq_panic _ _ _ h with h | ⟨a, _, h⟩
      · exact reduceLines_no_panic san hs _ _ _ _ h
      · simp at h

theorem parseBlocksG_no_panic (san : Sanitizer) (hs : SanTotal san) (pend : Option CLexErr) (fuel : Nat) (c : DocC) (toks : List CTok)
    (s : String) : parseBlocksG san pend fuel c toks ≠ .panic s := by
  induction fuel generalizing c toks with
  | zero => simp [parseBlocksG]
  | succ fuel ih =>
    intro h
    unfold parseBlocksG at h
    split at h
    · split at h <;> simp at h
    · rcases Outcome.bind_eq_panic _ _ _ h with h | ⟨a, _, h⟩
      · exact parseSectionG_no_panic san hs _ _ _ h
      · exact ih _ _ h
    · rcases Outcome.bind_eq_panic _ _ _ h with h | ⟨a, _, h⟩
      · exact parseSectionG_no_panic san hs _ _ _ h
      · exact ih _ _ h
    · rcases Outcome.bind_eq_panic _ _ _ h with h | ⟨a, _, h⟩
      · exact parseSectionG_no_panic san hs _ _ _ h
      · exact ih _ _ h
    · split at h
      · split at h
        · exact ih _ _ h
        · simp at h
      · simp at h
    · simp at h

theorem parseCommentG_no_panic (san : Sanitizer) (hs : SanTotal san) (l : Str) (ls : List Str) (s : String) :
    parseCommentG san (l :: ls) ≠ .panic s := by
  rw [parseCommentG_nonempty san (l :: ls) (by simp)]
  split
  · simp
  · intro h
    rcases Outcome.bind_eq_panic _ _ _ h with h | ⟨a, _, h⟩
    · exact reduceLines_no_panic san hs _ _ _ _ h
    · exact parseBlocksG_no_panic san hs _ _ _ _ _ h

end Slicec
