/- Helper lemmas for C16 (doc comments). -/
import SlicecVerif.Model.Comment

namespace Slicec

/-! ## indentation: byte index, dropping bytes -/

def spaces (k : Nat) : Str := List.replicate k ' '

/-- `body` begins with a character that is not whitespace -/
def StartsNonWs (body : Str) : Prop := ∃ c r, body = c :: r ∧ isWsC c = false

theorem isWs_space : isWsC ' ' = true := by decide
theorem utf8Size_space : (' ' : Char).utf8Size = 1 := by decide

theorem wsIndexAux_spaces (k : Nat) (body : Str) (h : StartsNonWs body) :
    wsIndexAux (spaces k ++ body) = some k := by
  obtain ⟨c, r, rfl, hc⟩ := h
  induction k with
  | zero => simp [spaces, wsIndexAux, hc]
  | succ k ih =>
    have : spaces (k + 1) ++ c :: r = ' ' :: (spaces k ++ c :: r) := by simp [spaces, List.replicate_succ]
    rw [this, wsIndexAux, if_pos isWs_space, ih]
    simp [utf8Size_space]

theorem wsIndex_spaces (k : Nat) (body : Str) (h : StartsNonWs body) : wsIndex (spaces k ++ body) = k := by
  simp [wsIndex, wsIndexAux_spaces k body h]

theorem dropBytes_spaces (k m : Nat) (body : Str) (h : m ≤ k) :
    dropBytes (spaces k ++ body) m = some (spaces (k - m) ++ body) := by
  induction m generalizing k with
  | zero => simp [dropBytes]
  | succ m ih =>
    cases k with
    | zero => omega
    | succ k =>
      have : spaces (k + 1) ++ body = ' ' :: (spaces k ++ body) := by simp [spaces, List.replicate_succ]
      rw [this, dropBytes, utf8Size_space, if_pos (by omega)]
      have h2 : m + 1 - 1 = m := by omega
      rw [h2, ih k (by omega)]
      have : k + 1 - (m + 1) = k - m := by omega
      rw [this]

/-! ## the shape of lines the common-indentation theorem talks about -/

/-- a written line: empty, or `k` spaces, a body that starts with a non-blank character, and further components -/
abbrev ILine := Option (Nat × Str × List Comp)

def ILine.toMLine : ILine → MLine
  | none => none
  | some (k, body, rest) => some (.text (spaces k ++ body), rest)

/-- minimum indentation over the non-empty lines, starting from `acc` (`none` = no line seen yet) -/
def minIndent : Option Nat → List ILine → Option Nat
  | acc, [] => acc
  | acc, none :: r => minIndent acc r
  | acc, some (k, _, _) :: r => minIndent (some (match acc with | none => k | some a => min k a)) r

def WellFormedI (l : ILine) : Prop :=
  match l with
  | none => True
  | some (_, body, _) => StartsNonWs body

theorem commonWs_eq_minIndent (ls : List ILine) (h : ∀ l ∈ ls, WellFormedI l) (acc : Option Nat) :
    commonWs acc (ls.map ILine.toMLine) = minIndent acc ls := by
  induction ls generalizing acc with
  | nil => simp [commonWs, minIndent]
  | cons l ls ih =>
    have hl := h l (by simp)
    have hr : ∀ l ∈ ls, WellFormedI l := fun x hx => h x (by simp [hx])
    match l with
    | none => simp [ILine.toMLine, commonWs, minIndent, ih hr]
    | some (k, body, rest) =>
      simp only [List.map_cons, ILine.toMLine, commonWs, minIndent]
      rw [wsIndex_spaces k body hl]
      exact ih hr _

theorem minIndent_le_acc (ls : List ILine) (a : Nat) : ∃ m, minIndent (some a) ls = some m ∧ m ≤ a := by
  induction ls generalizing a with
  | nil => exact ⟨a, rfl, Nat.le_refl _⟩
  | cons l ls ih =>
    match l with
    | none => simpa [minIndent] using ih a
    | some (k, _, _) =>
      obtain ⟨m, hm, hle⟩ := ih (min k a)
      exact ⟨m, by simpa [minIndent] using hm, Nat.le_trans hle (Nat.min_le_right _ _)⟩

theorem minIndent_le_mem (ls : List ILine) (acc : Option Nat) (k : Nat) (body : Str) (rest : List Comp)
    (hm : some (k, body, rest) ∈ ls) : ∃ m, minIndent acc ls = some m ∧ m ≤ k := by
  induction ls generalizing acc with
  | nil => simp at hm
  | cons l ls ih =>
    rcases List.mem_cons.mp hm with h | h
    · subst h
      simp only [minIndent]
      cases acc with
      | none => exact minIndent_le_acc ls k
      | some a =>
        obtain ⟨m, hm', hle⟩ := minIndent_le_acc ls (min k a)
        exact ⟨m, hm', Nat.le_trans hle (Nat.min_le_left _ _)⟩
    · match l with
      | none => simpa [minIndent] using ih acc h
      | some (k', _, _) => simpa [minIndent] using ih _ h

/-- what is left of a line after removing `m` columns of indentation -/
def ILine.stripped (m : Nat) : ILine → List Comp
  | none => [nl]
  | some (k, body, rest) => .text (spaces (k - m) ++ body) :: rest ++ [nl]

theorem stripLines_spaces (ls : List ILine) (m : Nat)
    (h : ∀ k body rest, some (k, body, rest) ∈ ls → m ≤ k) :
    stripLines m (ls.map ILine.toMLine) = some (ls.flatMap (ILine.stripped m)) := by
  induction ls with
  | nil => simp [stripLines]
  | cons l ls ih =>
    have hr : ∀ k body rest, some (k, body, rest) ∈ ls → m ≤ k := fun k b r hx => h k b r (by simp [hx])
    simp only [List.map_cons, stripLines, ih hr, List.flatMap_cons]
    match l with
    | none => simp [ILine.toMLine, stripLine, ILine.stripped]
    | some (k, body, rest) =>
      have := h k body rest (by simp)
      simp [ILine.toMLine, stripLine, dropBytes_spaces k m body this, ILine.stripped]

end Slicec

namespace Slicec

theorem minIndent_attained (ls : List ILine) (acc : Option Nat) (m : Nat) (h : minIndent acc ls = some m) :
    acc = some m ∨ ∃ k body rest, some (k, body, rest) ∈ ls ∧ k = m := by
  induction ls generalizing acc with
  | nil => left; simpa [minIndent] using h
  | cons l ls ih =>
    match l with
    | none =>
      rcases ih acc (by simpa [minIndent] using h) with h' | ⟨k, b, r, hm, hk⟩
      · exact Or.inl h'
      · exact Or.inr ⟨k, b, r, by simp [hm], hk⟩
    | some (k, body, rest) =>
      simp only [minIndent] at h
      rcases ih _ h with h' | ⟨k', b, r, hm, hk⟩
      · cases acc with
        | none =>
          simp at h'
          exact Or.inr ⟨k, body, rest, by simp, h'⟩
        | some a =>
          simp at h'
          by_cases hka : k ≤ a
          · exact Or.inr ⟨k, body, rest, by simp, by omega⟩
          · left; congr 1; omega
      · exact Or.inr ⟨k', b, r, by simp [hm], hk⟩

/-! ## character boundaries -/

def utf8Len (s : Str) : Nat := (s.map Char.utf8Size).sum

/-- byte offset `n` is a character boundary of `t` (and within it) -/
def OnBoundary (t : Str) (n : Nat) : Prop := ∃ pre suf, t = pre ++ suf ∧ utf8Len pre = n

theorem dropBytes_of_prefix (pre suf : Str) : dropBytes (pre ++ suf) (utf8Len pre) = some suf := by
  induction pre with
  | nil => simp [utf8Len, dropBytes]
  | cons c p ih =>
    have hpos := Char.utf8Size_pos c
    have : utf8Len (c :: p) = (c.utf8Size + utf8Len p - 1) + 1 := by simp [utf8Len]; omega
    rw [List.cons_append, this, dropBytes, if_pos (by omega)]
    have : c.utf8Size + utf8Len p - 1 + 1 - c.utf8Size = utf8Len p := by omega
    rw [this, ih]

theorem prefix_of_dropBytes (t : Str) (n : Nat) (suf : Str) (h : dropBytes t n = some suf) :
    ∃ pre, t = pre ++ suf ∧ utf8Len pre = n := by
  induction t generalizing n with
  | nil =>
    cases n with
    | zero => simp [dropBytes] at h; exact ⟨[], by simp [h], rfl⟩
    | succ n => simp [dropBytes] at h
  | cons c cs ih =>
    cases n with
    | zero => simp [dropBytes] at h; exact ⟨[], by simp [h], rfl⟩
    | succ n =>
      rw [dropBytes] at h
      split at h
      · obtain ⟨pre, hp, hl⟩ := ih _ h
        refine ⟨c :: pre, by simp [hp], ?_⟩
        simp [utf8Len] at hl ⊢
        omega
      · simp at h

theorem dropBytes_isSome_iff (t : Str) (n : Nat) : (dropBytes t n).isSome ↔ OnBoundary t n := by
  constructor
  · intro h
    obtain ⟨suf, hs⟩ := Option.isSome_iff_exists.mp h
    obtain ⟨pre, hp, hl⟩ := prefix_of_dropBytes t n suf hs
    exact ⟨pre, suf, hp, hl⟩
  · rintro ⟨pre, suf, rfl, rfl⟩
    simp [dropBytes_of_prefix]

theorem stripLines_cons_isSome (n : Nat) (l : MLine) (ls : List MLine) :
    (stripLines n (l :: ls)).isSome ↔ (stripLine n l).isSome ∧ (stripLines n ls).isSome := by
  simp only [stripLines]
  cases stripLine n l <;> cases stripLines n ls <;> simp

theorem stripLine_isSome_iff (n : Nat) (l : MLine) :
    (stripLine n l).isSome ↔ ∀ t rest, l = some (Comp.text t, rest) → (dropBytes t n).isSome := by
  match l with
  | none => simp [stripLine]
  | some (.link id, rest) => simp [stripLine]
  | some (.text t0, rest0) =>
    constructor
    · intro h t rest heq
      simp at heq
      obtain ⟨rfl, rfl⟩ := heq
      cases hd : dropBytes t0 n with
      | none => simp [stripLine, hd] at h
      | some x => simp
    · intro h
      have := h t0 rest0 rfl
      obtain ⟨x, hx⟩ := Option.isSome_iff_exists.mp this
      simp [stripLine, hx]

theorem stripLines_isSome_iff (n : Nat) (ls : List MLine) :
    (stripLines n ls).isSome ↔ ∀ t rest, some (Comp.text t, rest) ∈ ls → (dropBytes t n).isSome := by
  induction ls with
  | nil => simp [stripLines]
  | cons l ls ih =>
    rw [stripLines_cons_isSome, stripLine_isSome_iff, ih]
    constructor
    · rintro ⟨h1, h2⟩ t rest hm
      rcases List.mem_cons.mp hm with h | h
      · exact h1 t rest h.symm
      · exact h2 t rest h
    · intro h
      exact ⟨fun t rest heq => h t rest (by simp [heq]), fun t rest hm => h t rest (by simp [hm])⟩

end Slicec

namespace Slicec
open Gen (TagKw)

/-! ## what a parsing step consumes -/

theorem Outcome.bind_eq_ok {ε α β} (x : Outcome ε α) (f : α → Outcome ε β) (b : β) (h : x.bind f = .ok b) :
    ∃ a, x = .ok a ∧ f a = .ok b := by
  cases x with
  | ok a => exact ⟨a, rfl, h⟩
  | err e => simp [Outcome.bind] at h
  | panic s => simp [Outcome.bind] at h

def isBlockKw : CTok → Bool
  | .kw .ParamKeyword => true
  | .kw .ReturnsKeyword => true
  | .kw .SeeKeyword => true
  | _ => false

/-- `pre` is what a parsing step consumed: `toks = pre ++ rest`, and no block keyword is in it -/
def Consumed (toks rest : List CTok) : Prop := ∃ pre, toks = pre ++ rest ∧ ∀ t ∈ pre, isBlockKw t = false

theorem Consumed.refl (toks : List CTok) : Consumed toks toks := ⟨[], by simp, by simp⟩

theorem Consumed.cons {t : CTok} {toks rest : List CTok} (ht : isBlockKw t = false) (h : Consumed toks rest) :
    Consumed (t :: toks) rest := by
  obtain ⟨pre, rfl, hp⟩ := h
  exact ⟨t :: pre, by simp, by intro x hx; rcases List.mem_cons.mp hx with rfl | hx; exact ht; exact hp x hx⟩

theorem Consumed.trans {a b c : List CTok} (h1 : Consumed a b) (h2 : Consumed b c) : Consumed a c := by
  obtain ⟨p1, rfl, hp1⟩ := h1
  obtain ⟨p2, rfl, hp2⟩ := h2
  exact ⟨p1 ++ p2, by simp, by intro x hx; rcases List.mem_append.mp hx with h | h; exact hp1 x h; exact hp2 x h⟩

theorem parseIdTail_consumed (toks : List CTok) (v : List Str) (r : List CTok) (h : parseIdTail toks = some (v, r)) :
    Consumed toks r := by
  fun_induction parseIdTail toks generalizing v r with
  | case1 s rest v' r' hrec ih =>
    simp at h
    obtain ⟨_, rfl⟩ := h
    exact Consumed.cons rfl (Consumed.cons rfl (ih _ _ hrec))
  | case2 s rest hrec => simp at h
  | case3 => simp at h
  | case4 => simp at h; obtain ⟨_, rfl⟩ := h; exact Consumed.refl _

theorem parseScopedId_consumed (toks : List CTok) (id : Str) (r : List CTok) (h : parseScopedId toks = some (id, r)) :
    Consumed toks r := by
  unfold parseScopedId at h
  split at h
  · split at h
    · rename_i hv
      simp at h; obtain ⟨_, rfl⟩ := h
      exact Consumed.cons rfl (Consumed.cons rfl (parseIdTail_consumed _ _ _ hv))
    · simp at h
  · split at h
    · rename_i hv
      simp at h; obtain ⟨_, rfl⟩ := h
      exact Consumed.cons rfl (parseIdTail_consumed _ _ _ hv)
    · simp at h
  · simp at h

theorem parseComps_consumed (fuel : Nat) (toks : List CTok) (cs : List Comp) (r : List CTok)
    (h : parseComps fuel toks = some (cs, r)) : Consumed toks r := by
  fun_induction parseComps fuel toks generalizing cs r with
  | case1 => simp at h
  | case2 fuel s rest cs' r' hrec ih =>
    simp at h; obtain ⟨_, rfl⟩ := h
    exact Consumed.cons rfl (ih _ _ hrec)
  | case3 => simp at h
  | case4 fuel rest id rest' hid cs' r' hrec ih =>
    simp at h; obtain ⟨_, rfl⟩ := h
    exact Consumed.cons rfl (Consumed.cons rfl ((parseScopedId_consumed _ _ _ hid).trans (Consumed.cons rfl (ih _ _ hrec))))
  | case5 => simp at h
  | case6 => simp at h
  | case7 => simp at h
  | case8 => simp at h; obtain ⟨_, rfl⟩ := h; exact Consumed.refl _

theorem parseLines_consumed (fuel : Nat) (toks : List CTok) (ls : List MLine) (r : List CTok)
    (h : parseLines fuel toks = some (ls, r)) : Consumed toks r := by
  fun_induction parseLines fuel toks generalizing ls r with
  | case1 => simp at h
  | case2 fuel toks hs cs rest hc ls' r' hrec ih =>
    simp at h; obtain ⟨_, rfl⟩ := h
    exact (parseComps_consumed _ _ _ _ hc).trans (Consumed.cons rfl (ih _ _ hrec))
  | case3 => simp at h
  | case4 => simp at h
  | case5 => simp at h; obtain ⟨_, rfl⟩ := h; exact Consumed.refl _

theorem parseSectionG_consumed (san : Sanitizer) (pend : Option CLexErr) (toks : List CTok) (m : Msg) (r : List CTok)
    (h : parseSectionG san pend toks = .ok (m, r)) : Consumed toks r := by
  unfold parseSectionG at h
  simp only at h
  split at h
  · simp at h
  · rename_i inl r0 hhdr
    split at h
    · simp at h
    · rename_i ls rest hl
      obtain ⟨ml, _, h2⟩ := Outcome.bind_eq_ok _ _ _ h
      simp at h2
      obtain ⟨_, rfl⟩ := h2
      have hc2 := parseLines_consumed _ _ _ _ hl
      refine Consumed.trans ?_ hc2
      split at hhdr
      · split at hhdr
        · rename_i hc
          simp at hhdr; obtain ⟨_, rfl⟩ := hhdr
          exact Consumed.cons rfl ((parseComps_consumed _ _ _ _ hc).trans (Consumed.cons rfl (Consumed.refl _)))
        · simp at hhdr
      · simp at hhdr; obtain ⟨_, rfl⟩ := hhdr
        exact Consumed.cons rfl (Consumed.refl _)
      · simp at hhdr

/-! ## the tags as written: a scan of the token stream for block keywords -/

def scan {α} (hd : CTok → List CTok → List α) : List CTok → List α
  | [] => []
  | t :: r => hd t r ++ scan hd r

theorem scan_consumed {α} (hd : CTok → List CTok → List α) (hh : ∀ t r, isBlockKw t = false → hd t r = [])
    (toks rest : List CTok) (h : Consumed toks rest) : scan hd toks = scan hd rest := by
  obtain ⟨pre, rfl, hp⟩ := h
  induction pre with
  | nil => rfl
  | cons t pre ih =>
    simp only [List.cons_append, scan]
    rw [hh t _ (hp t (by simp)), ih (fun x hx => hp x (by simp [hx]))]
    rfl

/-- the identifier written after each `@param` -/
def hdParam : CTok → List CTok → List Str
  | .kw .ParamKeyword, .ident s :: _ => [s]
  | _, _ => []
/-- the identifier (or its absence) written after each `@returns` -/
def hdReturns : CTok → List CTok → List (Option Str)
  | .kw .ReturnsKeyword, .ident s :: _ => [some s]
  | .kw .ReturnsKeyword, _ => [none]
  | _, _ => []
/-- the scoped identifier written after each `@see` -/
def hdSee : CTok → List CTok → List Str
  | .kw .SeeKeyword, r => match parseScopedId r with | some (id, _) => [id] | none => []
  | _, _ => []

def writtenParams (toks : List CTok) : List Str := scan hdParam toks
def writtenReturns (toks : List CTok) : List (Option Str) := scan hdReturns toks
def writtenSee (toks : List CTok) : List Str := scan hdSee toks

theorem hdParam_nb (t : CTok) (r : List CTok) (h : isBlockKw t = false) : hdParam t r = [] := by
  unfold hdParam; split <;> simp_all [isBlockKw]
theorem hdReturns_nb (t : CTok) (r : List CTok) (h : isBlockKw t = false) : hdReturns t r = [] := by
  unfold hdReturns; split <;> simp_all [isBlockKw]
theorem hdSee_nb (t : CTok) (r : List CTok) (h : isBlockKw t = false) : hdSee t r = [] := by
  unfold hdSee; split <;> simp_all [isBlockKw]

theorem parseBlocksG_tags (san : Sanitizer) (pend : Option CLexErr) (fuel : Nat) (c : DocC) (toks : List CTok) (c' : DocC)
    (h : parseBlocksG san pend fuel c toks = .ok c') :
    c'.params.map (·.1) = c.params.map (·.1) ++ writtenParams toks ∧
    c'.returns.map (·.1) = c.returns.map (·.1) ++ writtenReturns toks ∧
    c'.see = c.see ++ writtenSee toks := by
  induction fuel generalizing c toks with
  | zero => simp [parseBlocksG] at h
  | succ fuel ih =>
    unfold parseBlocksG at h
    split at h
    · split at h
      · simp at h; subst h; simp [writtenParams, writtenReturns, writtenSee, scan]
      · simp at h
    · rename_i id rest
      obtain ⟨⟨m, r⟩, hs, h2⟩ := Outcome.bind_eq_ok _ _ _ h
      have hc := parseSectionG_consumed _ _ _ _ _ hs
      obtain ⟨i1, i2, i3⟩ := ih _ _ h2
      refine ⟨?_, ?_, ?_⟩
      · rw [i1]; simp [writtenParams, scan, hdParam, scan_consumed hdParam hdParam_nb _ _ hc]
      · rw [i2]; simp [writtenReturns, scan, hdReturns, scan_consumed hdReturns hdReturns_nb _ _ hc]
      · rw [i3]; simp [writtenSee, scan, hdSee, scan_consumed hdSee hdSee_nb _ _ hc]
    · rename_i id rest
      obtain ⟨⟨m, r⟩, hs, h2⟩ := Outcome.bind_eq_ok _ _ _ h
      have hc := parseSectionG_consumed _ _ _ _ _ hs
      obtain ⟨i1, i2, i3⟩ := ih _ _ h2
      refine ⟨?_, ?_, ?_⟩
      · rw [i1]; simp [writtenParams, scan, hdParam, scan_consumed hdParam hdParam_nb _ _ hc]
      · rw [i2]; simp [writtenReturns, scan, hdReturns, scan_consumed hdReturns hdReturns_nb _ _ hc]
      · rw [i3]; simp [writtenSee, scan, hdSee, scan_consumed hdSee hdSee_nb _ _ hc]
    · rename_i rest hni
      obtain ⟨⟨m, r⟩, hs, h2⟩ := Outcome.bind_eq_ok _ _ _ h
      have hc := parseSectionG_consumed _ _ _ _ _ hs
      obtain ⟨i1, i2, i3⟩ := ih _ _ h2
      have hR : hdReturns (.kw .ReturnsKeyword) rest = [none] := by
        cases rest with
        | nil => rfl
        | cons t tl => cases t <;> first | rfl | exact (hni _ _ rfl).elim
      refine ⟨?_, ?_, ?_⟩
      · rw [i1]; simp [writtenParams, scan, hdParam, scan_consumed hdParam hdParam_nb _ _ hc]
      · rw [i2]; simp [writtenReturns, scan, hR, scan_consumed hdReturns hdReturns_nb _ _ hc]
      · rw [i3]; simp [writtenSee, scan, hdSee, scan_consumed hdSee hdSee_nb _ _ hc]
    · rename_i rest
      split at h
      · rename_i id r hid
        split at h
        · obtain ⟨i1, i2, i3⟩ := ih _ _ h
          have hc : Consumed rest r := (parseScopedId_consumed _ _ _ hid).trans (Consumed.cons rfl (Consumed.refl _))
          refine ⟨?_, ?_, ?_⟩
          · rw [i1]; simp [writtenParams, scan, hdParam, scan_consumed hdParam hdParam_nb _ _ hc]
          · rw [i2]; simp [writtenReturns, scan, hdReturns, scan_consumed hdReturns hdReturns_nb _ _ hc]
          · rw [i3]; simp [writtenSee, scan, hdSee, hid, scan_consumed hdSee hdSee_nb _ _ hc]
        · simp at h
      · simp at h
    · simp at h


theorem parseBlocksG_pend_not_ok (san : Sanitizer) (e : CLexErr) (fuel : Nat) (c : DocC) (toks : List CTok) (c' : DocC) :
    parseBlocksG san (some e) fuel c toks ≠ .ok c' := by
  induction fuel generalizing c toks with
  | zero => simp [parseBlocksG]
  | succ fuel ih =>
    intro h
    unfold parseBlocksG at h
    split at h
    · simp at h
    · obtain ⟨a, _, h2⟩ := Outcome.bind_eq_ok _ _ _ h
      exact ih _ _ h2
    · obtain ⟨a, _, h2⟩ := Outcome.bind_eq_ok _ _ _ h
      exact ih _ _ h2
    · obtain ⟨a, _, h2⟩ := Outcome.bind_eq_ok _ _ _ h
      exact ih _ _ h2
    · split at h
      · split at h
        · exact ih _ _ h
        · simp at h
      · simp at h
    · simp at h

end Slicec

namespace Slicec

/-! ## plain-text overview comments (the fragment of the round-trip theorem) -/

/-- a line body the lexer turns into exactly one `Text`: starts with a non-blank character other than `@`, no `{` -/
def PlainBody (b : Str) : Prop := ∃ c r, b = c :: r ∧ isWsC c = false ∧ c ≠ '@' ∧ ∀ x ∈ b, x ≠ '{'

theorem PlainBody.startsNonWs {b : Str} (h : PlainBody b) : StartsNonWs b := by
  obtain ⟨c, r, rfl, hc, _, _⟩ := h; exact ⟨c, r, rfl, hc⟩

/-- a written overview line: empty, or `j` spaces of own indentation and a plain body -/
abbrev PLine := Option (Nat × Str)

def PLine.comps : PLine → List Comp
  | none => []
  | some (j, b) => [.text (spaces j ++ b)]

def plainMsg (ls : List PLine) : Msg := ls.flatMap fun l => l.comps ++ [nl]

def PLine.WF : PLine → Prop
  | none => True
  | some (_, b) => PlainBody b

theorem spaces_append_ne_nl (j : Nat) (b : Str) (h : PlainBody b) : Comp.text (spaces j ++ b) ≠ nl := by
  obtain ⟨c, r, rfl, hc, _, _⟩ := h
  intro heq
  simp only [nl, Comp.text.injEq] at heq
  cases j with
  | zero =>
    simp [spaces] at heq
    obtain ⟨rfl, _⟩ := heq
    exact absurd hc (by decide)
  | succ j =>
    simp [spaces, List.replicate_succ] at heq

theorem splitLines_plain (ls : List PLine) (h : ∀ l ∈ ls, l.WF) : splitLines (plainMsg ls) = ls.map PLine.comps := by
  unfold splitLines
  induction ls with
  | nil => simp [plainMsg, splitLinesAux]
  | cons l ls ih =>
    have ih' := ih (fun x hx => h x (by simp [hx]))
    match l, h l (by simp) with
    | none, _ =>
      simp only [plainMsg, List.flatMap_cons, PLine.comps, List.nil_append, List.cons_append, List.map_cons] at ih' ⊢
      rw [splitLinesAux, if_pos rfl]
      simp [ih']
    | some (j, b), hb =>
      simp only [plainMsg, List.flatMap_cons, PLine.comps, List.cons_append, List.nil_append, List.map_cons] at ih' ⊢
      rw [splitLinesAux, if_neg (spaces_append_ne_nl j b hb), splitLinesAux, if_pos rfl]
      simp [ih']

theorem dropWhile_spaces (n : Nat) (b : Str) (h : StartsNonWs b) : (spaces n ++ b).dropWhile isWsC = b := by
  obtain ⟨c, r, rfl, hc⟩ := h
  induction n with
  | zero => simp [spaces, hc]
  | succ n ih =>
    have : spaces (n + 1) ++ c :: r = ' ' :: (spaces n ++ c :: r) := by simp [spaces, List.replicate_succ]
    rw [this, List.dropWhile_cons, if_pos isWs_space, ih]

theorem mem_spaces_append {n : Nat} {b : Str} {x : Char} (hx : x ∈ spaces n ++ b) : x = ' ' ∨ x ∈ b := by
  rcases List.mem_append.mp hx with h | h
  · left; exact (List.mem_replicate.mp h).2
  · right; exact h

theorem takeWhile_all (p : Char → Bool) (l : Str) (h : ∀ y ∈ l, p y = true) : l.takeWhile p = l := by
  induction l with
  | nil => rfl
  | cons a l ih => simp [h a (by simp), ih (fun y hy => h y (by simp [hy]))]

theorem dropWhile_all (p : Char → Bool) (l : Str) (h : ∀ y ∈ l, p y = true) : l.dropWhile p = [] := by
  induction l with
  | nil => rfl
  | cons a l ih => simp [h a (by simp), ih (fun y hy => h y (by simp [hy]))]

theorem lexMessage_plain (x : Char) (xs : Str) (h : ∀ y ∈ x :: xs, y ≠ '{') :
    lexMessage (x :: xs) = (.text (x :: xs), .message, []) := by
  have hx : x ≠ '{' := h x (by simp)
  have hall : ∀ y ∈ x :: xs, (y != '{') = true := fun y hy => by simpa using h y hy
  unfold lexMessage
  split
  · rename_i rest heq
    simp at heq
    exact absurd heq.1 hx
  · rw [takeWhile_all _ _ hall, dropWhile_all _ _ hall]

theorem lexLine_plain (f : Nat) (x : Char) (xs : Str) (h : ∀ y ∈ x :: xs, y ≠ '{') :
    lexLine (f + 2) .message (x :: xs) = ⟨[.text (x :: xs), .newline], none⟩ := by
  rw [lexLine]
  simp only [lexMessage_plain x xs h]
  simp [lexLine, LexOut.cons]

theorem lexOneLine_plain (n : Nat) (b : Str) (h : PlainBody b) :
    lexOneLine (spaces n ++ b) = ⟨[.text (spaces n ++ b), .newline], none⟩ := by
  have hs := h.startsNonWs
  obtain ⟨c, r, rfl, hc, hat, hbr⟩ := h
  have hmode : startMode (spaces n ++ c :: r) = .message := by
    unfold startMode trimStart
    rw [dropWhile_spaces n _ hs]
    split
    · rename_i heq; simp at heq; exact absurd heq.1 hat
    · rfl
  have hall : ∀ y ∈ spaces n ++ c :: r, y ≠ '{' := by
    intro y hy
    rcases mem_spaces_append hy with rfl | hy
    · decide
    · exact hbr y hy
  unfold lexOneLine
  rw [hmode]
  cases n with
  | zero =>
    simp only [spaces, List.replicate_zero, List.nil_append] at hall ⊢
    exact lexLine_plain _ c r hall
  | succ n =>
    have e : spaces (n + 1) ++ c :: r = ' ' :: (spaces n ++ c :: r) := by simp [spaces, List.replicate_succ]
    rw [e] at hall ⊢
    exact lexLine_plain _ _ _ hall

/-- the source text of a plain line at indentation `k` -/
def PLine.src (k : Nat) : PLine → Str
  | none => []
  | some (j, b) => spaces (k + j) ++ b

def PLine.toks (k : Nat) : PLine → List CTok
  | none => [.newline]
  | some (j, b) => [.text (spaces (k + j) ++ b), .newline]

def PLine.iline (k : Nat) : PLine → ILine
  | none => none
  | some (j, b) => some (k + j, b, [])

theorem spaces_add (k j : Nat) : spaces k ++ spaces j = spaces (k + j) := by
  simp [spaces, List.replicate_append_replicate]

theorem lineSrc_plain (k : Nat) (l : PLine) : lineSrc (spaces k) l.comps = l.src k := by
  match l with
  | none => rfl
  | some (j, b) => simp [PLine.comps, lineSrc, compSrc, PLine.src, ← spaces_add]

theorem lexOneLine_pline (k : Nat) (l : PLine) (h : l.WF) : lexOneLine (l.src k) = ⟨l.toks k, none⟩ := by
  match l, h with
  | none, _ => rfl
  | some (j, b), hb => exact lexOneLine_plain (k + j) b hb

theorem lexComment_plain (k : Nat) (ls : List PLine) (h : ∀ l ∈ ls, l.WF) :
    lexComment (ls.map (PLine.src k)) = ⟨ls.flatMap (PLine.toks k), none⟩ := by
  induction ls with
  | nil => rfl
  | cons l ls ih =>
    simp only [List.map_cons, lexComment, lexOneLine_pline k l (h l (by simp)), ih (fun x hx => h x (by simp [hx])),
      List.flatMap_cons]

theorem parseLines_plain (k : Nat) (ls : List PLine) (fuel : Nat) (hf : ls.length < fuel) :
    parseLines fuel (ls.flatMap (PLine.toks k)) = some (ls.map fun l => (l.iline k).toMLine, []) := by
  induction ls generalizing fuel with
  | nil =>
    cases fuel with
    | zero => omega
    | succ f => simp [parseLines, startsLine]
  | cons l ls ih =>
    cases fuel with
    | zero => omega
    | succ f =>
      have ih' := ih f (by simp at hf; omega)
      match l with
      | none =>
        simp only [List.flatMap_cons, PLine.toks, List.cons_append, List.nil_append, List.map_cons]
        rw [parseLines]
        simp [startsLine, parseComps, ih', toMLine, PLine.iline, ILine.toMLine]
      | some (j, b) =>
        simp only [List.flatMap_cons, PLine.toks, List.cons_append, List.nil_append, List.map_cons]
        rw [parseLines]
        simp [startsLine, parseComps, ih', toMLine, PLine.iline, ILine.toMLine]


theorem length_le_toks (k : Nat) (ls : List PLine) : ls.length ≤ (ls.flatMap (PLine.toks k)).length := by
  induction ls with
  | nil => simp
  | cons l ls ih =>
    match l with
    | none => simp only [List.flatMap_cons, PLine.toks, List.length_append, List.length_cons, List.length_nil]; omega
    | some (j, b) => simp only [List.flatMap_cons, PLine.toks, List.length_append, List.length_cons, List.length_nil]; omega

theorem parseCommentG_nonempty (san : Sanitizer) (lines : List Str) (h : lines ≠ []) :
    parseCommentG san lines =
      match parseLines ((lexComment lines).toks.length + 1) (lexComment lines).toks with
      | none => .err (.malformed (lexComment lines).err)
      | some (ls, rest) =>
        (reduceLines san (lexComment lines).err ls rest).bind fun ov =>
          parseBlocksG san (lexComment lines).err (rest.length + 1) { overview := ov, params := [], returns := [], see := [] } rest := by
  cases lines with
  | nil => exact absurd rfl h
  | cons l ls => rfl

theorem reduceLines_end (san : Sanitizer) (mls : List MLine) (h : mls ≠ []) :
    reduceLines san none mls [] = (san mls).bind fun m => .ok (some m) := by
  cases mls with
  | nil => exact absurd rfl h
  | cons a b => simp [reduceLines, validFollower]

theorem flatMap_congr_mem {α β} (l : List α) (f g : α → List β) (h : ∀ x ∈ l, f x = g x) : l.flatMap f = l.flatMap g := by
  induction l with
  | nil => rfl
  | cons a l ih => simp [h a (by simp), ih (fun x hx => h x (by simp [hx]))]

def plainDoc (ls : List PLine) : DocC := { overview := some (plainMsg ls), params := [], returns := [], see := [] }

theorem render_plainDoc (ls : List PLine) (k : Nat) (h : ∀ l ∈ ls, l.WF) :
    renderComment (plainDoc ls) (spaces k) = ls.map (PLine.src k) := by
  simp [renderComment, plainDoc, renderMsgLines, splitLines_plain ls h, lineSrc_plain]

end Slicec
