/-
  Helper lemmas for the full pipeline `validateFull` (Model/Pipeline.lean): every new phase reports nothing exactly when its
  declarative rule holds; decidability of the rules (through the mirrors of the code and C05's theorems about them).
-/
import SlicecVerif.Model.Pipeline
import SlicecVerif.Lemmas.Validate
import SlicecVerif.Lemmas.Cycles

namespace Slicec.Validate

open Slicec

/-! ## the shape of bases and underlying types -/

theorem tyIsName_iff (e : TyExpr) : tyIsName e = true ↔ ∃ id, e = .named id := by
  cases e <;> simp [tyIsName]

theorem tyIsAnonymous_false_iff (e : TyExpr) :
    tyIsAnonymous e = false ↔ (∀ x, e ≠ .seq x) ∧ (∀ k v, e ≠ .dict k v) ∧ (∀ s f, e ≠ .result s f) := by
  cases e <;> simp [tyIsAnonymous]

/-- `construct_interface` / `construct_enum` report nothing for a definition exactly when its bases are names resp. its
    underlying type is not an anonymous type -/
theorem defShapeCodes_nil_iff (d : Def) : defShapeCodes d = [] ↔ DefShapeOK d := by
  cases d with
  | struct doc attrs compact name fields => simp [defShapeCodes, DefShapeOK]
  | custom doc attrs name => simp [defShapeCodes, DefShapeOK]
  | alias doc attrs name ty => simp [defShapeCodes, DefShapeOK]
  | iface doc attrs name bases ops =>
    simp only [defShapeCodes, DefShapeOK, List.map_eq_nil_iff, List.filter_eq_nil_iff]
    refine forall_congr' fun b => forall_congr' fun _ => ?_
    rw [← tyIsName_iff]
    cases tyIsName b.ty <;> simp
  | «enum» doc attrs compact unchecked name underlying es =>
    cases underlying with
    | none => simp [defShapeCodes, DefShapeOK]
    | some u =>
      simp only [defShapeCodes, DefShapeOK]
      rw [← tyIsAnonymous_false_iff]
      cases tyIsAnonymous u.ty <;> simp

theorem defShapeB_iff (d : Def) : defShapeB d = true ↔ DefShapeOK d := by
  cases d with
  | struct doc attrs compact name fields => simp [defShapeB, DefShapeOK]
  | custom doc attrs name => simp [defShapeB, DefShapeOK]
  | alias doc attrs name ty => simp [defShapeB, DefShapeOK]
  | iface doc attrs name bases ops =>
    simp only [defShapeB, DefShapeOK, List.all_eq_true]
    refine forall_congr' fun b => forall_congr' fun _ => ?_
    exact tyIsName_iff b.ty
  | «enum» doc attrs compact unchecked name underlying es =>
    cases underlying with
    | none => simp [defShapeB, DefShapeOK]
    | some u =>
      simp only [defShapeB, DefShapeOK]
      rw [← tyIsAnonymous_false_iff]
      cases tyIsAnonymous u.ty <;> simp

theorem shapeB_iff (P : Program) : shapeB P = true ↔ ShapeOK P := by
  unfold shapeB ShapeOK
  simp only [List.all_eq_true, defShapeB_iff]

instance (P : Program) : Decidable (ShapeOK P) := decidable_of_iff _ (shapeB_iff P)

theorem fileShapeCodes_nil_iff (f : SFile) : fileShapeCodes f = [] ↔ ∀ d ∈ f.defs, DefShapeOK d := by
  unfold fileShapeCodes
  simp only [List.flatMap_eq_nil_iff, defShapeCodes_nil_iff]

theorem defShapeCodes_kind (d : Def) (c : String) (h : c ∈ defShapeCodes d) : c = code "TypeMismatch" := by
  cases d with
  | struct doc attrs compact name fields => simp [defShapeCodes] at h
  | custom doc attrs name => simp [defShapeCodes] at h
  | alias doc attrs name ty => simp [defShapeCodes] at h
  | iface doc attrs name bases ops =>
    simp only [defShapeCodes, List.mem_map] at h
    obtain ⟨_, _, rfl⟩ := h; rfl
  | «enum» doc attrs compact unchecked name underlying es =>
    cases underlying with
    | none => simp [defShapeCodes] at h
    | some u =>
      simp only [defShapeCodes] at h
      split at h
      · simpa using h
      · cases h

theorem fileShapeCodes_kind (f : SFile) (c : String) (h : c ∈ fileShapeCodes f) : c = code "TypeMismatch" := by
  unfold fileShapeCodes at h
  obtain ⟨d, _, hd⟩ := List.mem_flatMap.mp h
  exact defShapeCodes_kind d c hd

/-- per file: the full parse phase reports nothing iff the parse phase of `validate` reports nothing and the shape rule
    holds in the file -/
theorem fileParseCodesFull_nil_iff (f : SFile) :
    fileParseCodesFull f = [] ↔ fileParseCodes f = [] ∧ ∀ d ∈ f.defs, DefShapeOK d := by
  unfold fileParseCodesFull fileParseCodes fileActionCodesFull
  simp only
  rw [← fileShapeCodes_nil_iff]
  cases ha : fileActionCodes f with
  | nil =>
    cases hs : fileShapeCodes f with
    | nil => simp
    | cons x xs => simp
  | cons x xs => simp

theorem parseCodesFull_nil_iff (P : Program) : parseCodesFull P = [] ↔ parseCodes P = [] ∧ ShapeOK P := by
  unfold parseCodesFull parseCodes ShapeOK
  simp only [List.flatMap_eq_nil_iff, fileParseCodesFull_nil_iff]
  exact ⟨fun h => ⟨fun f hf => (h f hf).1, fun f hf => (h f hf).2⟩, fun h f hf => ⟨h.1 f hf, h.2 f hf⟩⟩

/-- when the shape rule holds the full parse phase IS the parse phase of `validate` -/
theorem parseCodesFull_eq_of_shape (P : Program) (h : ShapeOK P) : parseCodesFull P = parseCodes P := by
  unfold parseCodesFull parseCodes
  have key : ∀ f ∈ P, fileParseCodesFull f = fileParseCodes f := by
    intro f hf
    unfold fileParseCodesFull fileParseCodes fileActionCodesFull
    rw [(fileShapeCodes_nil_iff f).mpr (h f hf), List.append_nil]
  clear h
  induction P with
  | nil => rfl
  | cons f P ih =>
    simp only [List.flatMap_cons]
    rw [key f (by simp), ih (fun g hg => key g (by simp [hg]))]

/-- a code of the full parse phase is a code of `validate`'s parse phase, or the E017 of a violated shape rule -/
theorem parseCodesFull_mem (P : Program) (c : String) (h : c ∈ parseCodesFull P) :
    c ∈ parseCodes P ∨ (c = code "TypeMismatch" ∧ ¬ ShapeOK P) := by
  unfold parseCodesFull at h
  obtain ⟨f, hf, hc⟩ := List.mem_flatMap.mp h
  have inOld : c ∈ fileParseCodes f → c ∈ parseCodes P := fun hm => by
    unfold parseCodes; exact List.mem_flatMap.mpr ⟨f, hf, hm⟩
  unfold fileParseCodesFull fileActionCodesFull at hc
  simp only at hc
  cases ha : fileActionCodes f with
  | nil =>
    rw [ha, List.nil_append] at hc
    cases hs : fileShapeCodes f with
    | nil =>
      rw [hs] at hc
      simp only [List.isEmpty_nil, if_true] at hc
      refine .inl (inOld ?_)
      unfold fileParseCodes
      simp only [ha, List.isEmpty_nil, if_true]
      exact hc
    | cons x xs =>
      rw [hs] at hc
      simp only [List.isEmpty_cons, Bool.false_eq_true, if_false] at hc
      refine .inr ⟨fileShapeCodes_kind f c (by rw [hs]; exact hc), fun hok => ?_⟩
      rw [(fileShapeCodes_nil_iff f).mpr (hok f hf)] at hs
      cases hs
  | cons x xs =>
    rw [ha] at hc
    simp only [List.cons_append, List.isEmpty_cons, Bool.false_eq_true, if_false] at hc
    rw [← List.cons_append, ← ha] at hc
    rcases List.mem_append.mp hc with hc | hc
    · refine .inl (inOld ?_)
      unfold fileParseCodes
      simp only [ha, List.isEmpty_cons, Bool.false_eq_true, if_false]
      rw [← ha]; exact hc
    · refine .inr ⟨fileShapeCodes_kind f c hc, fun hok => ?_⟩
      rw [(fileShapeCodes_nil_iff f).mpr (hok f hf)] at hc
      cases hc

/-! ## the alias gate and the inheritance check -/

theorem aliasGateCodes_nil_iff (P : Program) : aliasGateCodes P = [] ↔ Cyc.aliasGateErrors P = [] := by
  unfold aliasGateCodes; rw [List.map_eq_nil_iff]

theorem inheritCodes_nil_iff (P : Program) : inheritCodes P = [] ↔ Cyc.ifaceLoopErrors (Cyc.igraphOfProgram P) = [] := by
  unfold inheritCodes; rw [List.map_eq_nil_iff]

theorem aliasGateErrors_eq (P : Program) :
    Cyc.aliasGateErrors P =
      (Cyc.aliasGate (Cyc.anonGraph P).1 (Cyc.anonGraph P).2).map fun a => ((Cyc.aliasDefs P).map (·.1)).getD a "" := rfl

/-- **the alias gate is exact**: `revisits_anonymous_type` reports no alias exactly when no alias leads into a cycle of
    anonymous types (C05 `alias_gate_reports_iff`, lifted to the program) -/
theorem aliasGate_nil_iff_noLoop (P : Program) : Cyc.aliasGateErrors P = [] ↔ NoAliasLoop P := by
  rw [aliasGateErrors_eq, List.map_eq_nil_iff]
  unfold NoAliasLoop
  constructor
  · intro h a x hs y hy hyy
    have hlt : a < (Cyc.anonGraph P).2.length := by
      rcases Nat.lt_or_ge a (Cyc.anonGraph P).2.length with hl | hl
      · exact hl
      · rw [List.getD_eq_getElem?_getD, List.getElem?_eq_none hl] at hs; cases hs
    have : a ∈ Cyc.aliasGate (Cyc.anonGraph P).1 (Cyc.anonGraph P).2 :=
      (Cyc.mem_aliasGate _ _ a).2 ⟨hlt, x, hs, y, hy, hyy⟩
    rw [h] at this; cases this
  · intro h
    cases hg : Cyc.aliasGate (Cyc.anonGraph P).1 (Cyc.anonGraph P).2 with
    | nil => rfl
    | cons a as =>
      have hm : a ∈ Cyc.aliasGate (Cyc.anonGraph P).1 (Cyc.anonGraph P).2 := by rw [hg]; exact List.mem_cons_self ..
      obtain ⟨_, x, hs, y, hy, hyy⟩ := (Cyc.mem_aliasGate _ _ a).1 hm
      exact absurd hyy (h a x hs y hy)

/-- **the inheritance check is exact**: no interface is reported exactly when no interface reaches itself through base
    references (C05 `inheritance_loop_rejected`, lifted to the program) -/
theorem ifaceLoop_nil_iff_noLoop (P : Program) :
    Cyc.ifaceLoopErrors (Cyc.igraphOfProgram P) = [] ↔ NoInheritanceLoop P := by
  unfold NoInheritanceLoop
  constructor
  · exact Cyc.acyclic_of_no_ifaceLoopErrors _
  · intro h
    cases he : Cyc.ifaceLoopErrors (Cyc.igraphOfProgram P) with
    | nil => rfl
    | cons e es =>
      have hm : (e.1, e.2) ∈ Cyc.ifaceLoopErrors (Cyc.igraphOfProgram P) := by rw [he]; exact List.mem_cons_self ..
      obtain ⟨_, hc⟩ := (Cyc.mem_ifaceLoopErrors _ e.1 e.2).1 hm
      have : (Cyc.checkInterface (Cyc.igraphOfProgram P) e.1).isSome = true := by rw [hc]; rfl
      exact absurd ((Cyc.checkInterface_isSome_iff _ e.1).1 this) (h e.1)

instance (P : Program) : Decidable (NoAliasLoop P) := decidable_of_iff _ (aliasGate_nil_iff_noLoop P)
instance (P : Program) : Decidable (NoInheritanceLoop P) := decidable_of_iff _ (ifaceLoop_nil_iff_noLoop P)

theorem cyclePhaseCodes_nil_iff (P : Program) :
    cyclePhaseCodes P = [] ↔ Cyc.ifaceLoopErrors (Cyc.igraphOfProgram P) = [] ∧ cycleRule.codes P = [] := by
  unfold cyclePhaseCodes
  rw [List.append_eq_nil_iff, inheritCodes_nil_iff]

/-! ## the pipeline as a whole -/

theorem phasesFull_nil_iff (P : Program) :
    (∀ l ∈ phasesFull P, l = []) ↔
      (∀ l ∈ phases P, l = []) ∧ ShapeOK P ∧ Cyc.aliasGateErrors P = [] ∧ Cyc.ifaceLoopErrors (Cyc.igraphOfProgram P) = [] := by
  unfold phasesFull phases
  simp only [List.mem_cons, List.not_mem_nil, or_false, forall_eq_or_imp, forall_eq]
  rw [parseCodesFull_nil_iff, aliasGateCodes_nil_iff, cyclePhaseCodes_nil_iff]
  constructor
  · rintro ⟨⟨h1, hs⟩, h2, h3, ha, ⟨hi, h4⟩, h5, h6⟩
    exact ⟨⟨h1, h2, h3, h4, h5, h6⟩, hs, ha, hi⟩
  · rintro ⟨⟨h1, h2, h3, h4, h5, h6⟩, hs, ha, hi⟩
    exact ⟨⟨h1, hs⟩, h2, h3, ha, ⟨hi, h4⟩, h5, h6⟩

/-- the full pipeline accepts exactly the programs `validate` accepts that also pass the three additional checks -/
theorem validateFull_nil_iff (P : Program) :
    validateFull P = [] ↔
      validate P = [] ∧ ShapeOK P ∧ Cyc.aliasGateErrors P = [] ∧ Cyc.ifaceLoopErrors (Cyc.igraphOfProgram P) = [] := by
  unfold validateFull validate
  rw [firstNonEmpty_nil_iff, firstNonEmpty_nil_iff]
  exact phasesFull_nil_iff P

/-- on a program that passes the three additional checks the two pipelines report the same codes -/
theorem validateFull_eq_validate (P : Program) (hs : ShapeOK P) (ha : Cyc.aliasGateErrors P = [])
    (hi : Cyc.ifaceLoopErrors (Cyc.igraphOfProgram P) = []) : validateFull P = validate P := by
  unfold validateFull validate phasesFull phases
  rw [parseCodesFull_eq_of_shape P hs, (aliasGateCodes_nil_iff P).mpr ha]
  unfold cyclePhaseCodes
  rw [(inheritCodes_nil_iff P).mpr hi, List.nil_append]
  simp only [firstNonEmpty, List.isEmpty_nil, if_true]

end Slicec.Validate

namespace Slicec

open Slicec.Validate

instance (P : Program) : Decidable (WellFormedFull P) := by unfold WellFormedFull; infer_instance
instance (c : String) (P : Program) : Decidable (ViolatesFull c P) := by unfold ViolatesFull; infer_instance

end Slicec
