/- Helper lemmas for C14 (emitter model). -/
import SlicecVerif.Model.Emit

namespace Slicec.Emit

open Slicec

/-! ## escaping round trip -/

theorem hex4_low : ∀ n, n < 32 → hex4 '0' '0' (hexDigit (n / 16)) (hexDigit (n % 16)) = some (Char.ofNat n) := by
  decide

theorem optmap_id {α β} (o : Option (α × β)) : o.map (fun p => (p.1, p.2)) = o := by
  cases o <;> simp

/-- reading what `escChar c` wrote yields `c` and continues with the rest -/
theorem readBody_escChar (c : Char) (tail : List Char) :
    readBody (escChar c ++ tail) = (readBody tail).map fun p => (c :: p.1, p.2) := by
  unfold escChar
  split
  · next h => subst h; rw [readBody.eq_def]; simp [unescSimple]
  split
  · next h => subst h; rw [readBody.eq_def]; simp [unescSimple]
  split
  · next h => subst h; rw [readBody.eq_def]; simp [unescSimple]
  split
  · next h => subst h; rw [readBody.eq_def]; simp [unescSimple]
  split
  · next h => subst h; rw [readBody.eq_def]; simp [unescSimple]
  split
  · next h => subst h; rw [readBody.eq_def]; simp [unescSimple]
  split
  · next h => subst h; rw [readBody.eq_def]; simp [unescSimple]
  split
  · next h1 h2 h3 h4 h5 h6 h7 h =>
    have hx := hex4_low c.toNat h
    rw [Char.ofNat_toNat] at hx
    rw [readBody.eq_def]; simp [hx]
  · next h1 h2 h3 h4 h5 h6 h7 h =>
    rw [readBody.eq_def]; simp [h1, h2, h]

theorem readBody_escChars (cs rest : List Char) :
    readBody (escChars cs ++ '"' :: rest) = some (cs, rest) := by
  induction cs with
  | nil => rw [readBody.eq_def]; simp [escChars]
  | cons c cs ih =>
    have : escChars (c :: cs) = escChar c ++ escChars cs := by simp [escChars]
    rw [this, List.append_assoc, readBody_escChar, ih]
    rfl


/-! ## every character of a JSON object is printable (code point ≥ 0x20) -/

/-- all characters of the list are at or above U+0020 -/
def PR (l : List Char) : Prop := ∀ x ∈ l, 32 ≤ x.toNat

@[simp] theorem PR_nil : PR [] := by simp [PR]
@[simp] theorem PR_cons (c : Char) (l : List Char) : PR (c :: l) ↔ 32 ≤ c.toNat ∧ PR l := by simp [PR]
@[simp] theorem PR_append (a b : List Char) : PR (a ++ b) ↔ PR a ∧ PR b := by
  simp only [PR, List.mem_append]
  constructor
  · intro h; exact ⟨fun x hx => h x (Or.inl hx), fun x hx => h x (Or.inr hx)⟩
  · intro h x hx; rcases hx with hx | hx
    · exact h.1 x hx
    · exact h.2 x hx

theorem hexDigit_pr : ∀ n, n < 16 → 32 ≤ (hexDigit n).toNat := by decide

theorem PR_escChar (c : Char) : PR (escChar c) := by
  unfold escChar
  repeat' split
  all_goals first
    | (simp; done)
    | skip
  · next h =>
    simp
    exact ⟨hexDigit_pr _ (by omega), hexDigit_pr _ (by omega)⟩
  · next h => simp; omega

theorem PR_escChars (cs : List Char) : PR (escChars cs) := by
  induction cs with
  | nil => simp [escChars]
  | cons c cs ih =>
    have : escChars (c :: cs) = escChar c ++ escChars cs := by simp [escChars]
    rw [this]; simp [PR_escChar, ih]

theorem PR_jsonStr (s : String) : PR (jsonStr s) := by
  simp [jsonStr, PR_escChars]

theorem digit_isDigit : ∀ k, k < 10 → isDigit (digitChar k) = true := by decide

theorem decChars_digits (n : Nat) : ∀ x ∈ decChars n, isDigit x = true := by
  induction n using decChars.induct with
  | case1 n h =>
    rw [decChars]; simp [h]; exact digit_isDigit n h
  | case2 n h ih =>
    rw [decChars]; simp only [h, if_false, List.mem_append, List.mem_singleton]
    intro x hx
    rcases hx with hx | hx
    · exact ih x hx
    · subst hx; exact digit_isDigit _ (by omega)

theorem isDigit_pr (c : Char) (h : isDigit c = true) : 32 ≤ c.toNat := by
  simp [isDigit] at h; omega

theorem PR_decChars (n : Nat) : PR (decChars n) := fun x hx => isDigit_pr x (decChars_digits n x hx)

theorem decChars_ne_nil (n : Nat) : decChars n ≠ [] := by
  rw [decChars]; split <;> simp

theorem PR_jsonLoc (l : Loc) : PR (jsonLoc l) := by
  simp [jsonLoc, key, PR_decChars, Gen.locKeys]

theorem PR_jsonSpan (s : Span) : PR (jsonSpan s) := by
  simp [jsonSpan, key, PR_jsonLoc, PR_jsonStr, Gen.spanKeys]

theorem PR_jsonOptSpan (s : Option Span) : PR (jsonOptSpan s) := by
  cases s <;> simp [jsonOptSpan, PR_jsonSpan]

theorem PR_jsonNote (n : Note) : PR (jsonNote n) := by
  simp [jsonNote, key, PR_jsonStr, PR_jsonOptSpan, Gen.noteKeys]

theorem PR_jsonNotesBody (ns : List Note) : PR (jsonNotesBody ns) := by
  induction ns with
  | nil => simp [jsonNotesBody]
  | cons n ns ih =>
    cases ns with
    | nil => simp [jsonNotesBody, PR_jsonNote]
    | cons m ms => simp [jsonNotesBody, PR_jsonNote] at ih ⊢; exact ih

theorem PR_jsonObj (d : Diag) : PR (jsonObj d) := by
  simp [jsonObj, key, PR_jsonStr, PR_jsonOptSpan, PR_jsonNotesBody, Gen.diagKeys]

/-! ## the loops: one block per diagnostic that is not allowed, in order -/

/-- run the block computations in order, stop at the first panic, concatenate -/
def seqRes : List Res → Res
  | [] => .ok []
  | r :: rs => r.bind fun b => (seqRes rs).bind fun t => .ok (b ++ t)

theorem notAllowed_iff (d : Diag) : notAllowed d = true ↔ d.level ≠ .allowed := by
  simp [notAllowed]

theorem emitJsonChars_eq (ds : List Diag) :
    emitJsonChars ds = ((ds.filter notAllowed).map jsonLine).flatten := by
  induction ds with
  | nil => simp [emitJsonChars]
  | cons d ds ih =>
    cases h : d.level <;> simp [emitJsonChars, h, notAllowed, ih]

theorem emitHumanChars_eq (files : List SrcFile) (ds : List Diag) :
    emitHumanChars files ds = seqRes ((ds.filter notAllowed).map (humanBlock files)) := by
  induction ds with
  | nil => simp [emitHumanChars, seqRes]
  | cons d ds ih =>
    cases h : d.level <;> simp [emitHumanChars, h, notAllowed, ih, seqRes]

theorem filter_notAllowed_idem (ds : List Diag) : (ds.filter notAllowed).filter notAllowed = ds.filter notAllowed := by
  simp [List.filter_filter]

theorem seqRes_ok (rs : List Res) (out : List Char) (h : seqRes rs = .ok out) :
    ∃ blocks : List (List Char), rs = blocks.map Outcome.ok ∧ out = blocks.flatten := by
  induction rs generalizing out with
  | nil => simp [seqRes] at h; exact ⟨[], rfl, by simp [h]⟩
  | cons r rs ih =>
    cases r with
    | ok b =>
      simp only [seqRes, Outcome.bind] at h
      cases h2 : seqRes rs with
      | ok t =>
        rw [h2] at h; simp only at h
        obtain ⟨bl, h3, h4⟩ := ih t h2
        refine ⟨b :: bl, by simp [h3], ?_⟩
        cases h; simp [h4]
      | err e => rw [h2] at h; simp at h
      | panic s => rw [h2] at h; simp at h
    | err e => simp [seqRes, Outcome.bind] at h
    | panic s => simp [seqRes, Outcome.bind] at h

/-! ## totals -/

theorem totals_eq (ds : List Diag) :
    totals ds = ((ds.filter fun d => d.level == .warning).length, (ds.filter fun d => d.level == .error).length) := by
  induction ds with
  | nil => simp [totals]
  | cons d ds ih =>
    cases h : d.level <;> simp [totals, h, ih]

theorem totals_filter (ds : List Diag) : totals (ds.filter notAllowed) = totals ds := by
  induction ds with
  | nil => simp
  | cons d ds ih =>
    have hn : notAllowed d = (d.level != .allowed) := rfl
    cases h : d.level <;> simp [hn, totals, h, ih]

theorem totals_sum (ds : List Diag) : (totals ds).1 + (totals ds).2 = (ds.filter notAllowed).length := by
  induction ds with
  | nil => simp [totals]
  | cons d ds ih =>
    have hn : notAllowed d = (d.level != .allowed) := rfl
    cases h : d.level <;> simp [hn, totals, h] <;> omega

/-! ## reading the emitted shape back -/

theorem expect_append (lit rest : List Char) : expect lit (lit ++ rest) = some ((), rest) := by
  simp [expect, List.isPrefixOf_iff_prefix]

theorem expect_one (c : Char) (rest : List Char) : expect [c] (c :: rest) = some ((), rest) :=
  expect_append [c] rest

theorem readKey_key (k : String) (rest : List Char) : readKey k (key k ++ rest) = some ((), rest) :=
  expect_append _ rest

theorem readStr_jsonStr (s : String) (rest : List Char) : readStr (jsonStr s ++ rest) = some (s, rest) := by
  simp [readStr, jsonStr, readBody_escChars, String.ofList_toList]

/-- value of a digit string read left to right -/
def digitsVal (acc : Nat) (ds : List Char) : Nat := ds.foldl (fun a c => a * 10 + (c.toNat - 48)) acc

theorem readNatAux_digits (ds rest : List Char) (acc : Nat) (h : ∀ x ∈ ds, isDigit x = true) :
    readNatAux acc (ds ++ rest) = readNatAux (digitsVal acc ds) rest := by
  induction ds generalizing acc with
  | nil => simp [digitsVal]
  | cons c cs ih =>
    have hc : isDigit c = true := h c (by simp)
    simp only [List.cons_append, readNatAux, hc, if_true]
    rw [ih _ (fun x hx => h x (by simp [hx]))]
    simp [digitsVal]

theorem digit_val : ∀ k, k < 10 → (digitChar k).toNat - 48 = k := by decide

theorem digitsVal_append (acc : Nat) (a b : List Char) : digitsVal acc (a ++ b) = digitsVal (digitsVal acc a) b := by
  simp [digitsVal]

theorem digitsVal_dec (n : Nat) : digitsVal 0 (decChars n) = n := by
  induction n using decChars.induct with
  | case1 n h => rw [decChars]; simp [h, digitsVal, digit_val n h]
  | case2 n h ih =>
    rw [decChars]; simp only [h, if_false]
    rw [digitsVal_append, ih]
    simp [digitsVal, digit_val (n % 10) (by omega)]
    omega

theorem readNat_dec (n : Nat) (c : Char) (rest : List Char) (hc : isDigit c = false) :
    readNat (decChars n ++ c :: rest) = some (n, c :: rest) := by
  have hd := decChars_digits n
  have hne := decChars_ne_nil n
  cases hds : decChars n with
  | nil => exact absurd hds hne
  | cons x xs =>
    have hx : isDigit x = true := hd x (by simp [hds])
    simp only [readNat, List.cons_append, hx, if_true]
    rw [← List.cons_append, ← hds, readNatAux_digits _ _ _ hd, digitsVal_dec]
    simp [readNatAux, hc]

theorem readNat_dec_comma (n : Nat) (rest : List Char) : readNat (decChars n ++ ',' :: rest) = some (n, ',' :: rest) :=
  readNat_dec n ',' rest (by decide)

theorem readNat_dec_brace (n : Nat) (rest : List Char) : readNat (decChars n ++ '}' :: rest) = some (n, '}' :: rest) :=
  readNat_dec n '}' rest (by decide)

theorem readLoc_jsonLoc (l : Loc) (rest : List Char) : readLoc (jsonLoc l ++ rest) = some (l, rest) := by
  simp only [jsonLoc, Gen.locKeys, List.getD_cons_zero, List.getD_cons_succ, List.append_assoc, List.cons_append,
    List.nil_append, readLoc]
  simp [expect_one, readKey_key, readNat_dec_comma, readNat_dec_brace]

theorem readSpan_jsonSpan (s : Span) (rest : List Char) : readSpan (jsonSpan s ++ rest) = some (s, rest) := by
  simp only [jsonSpan, Gen.spanKeys, List.getD_cons_zero, List.getD_cons_succ, List.append_assoc, List.cons_append,
    List.nil_append, readSpan]
  simp [expect_one, readKey_key, readLoc_jsonLoc, readStr_jsonStr]

theorem readOptSpan_json (s : Option Span) (rest : List Char) :
    readOptSpan (jsonOptSpan s ++ rest) = some (s, rest) := by
  cases s with
  | none => simp [jsonOptSpan, readOptSpan]
  | some sp =>
    have h := readSpan_jsonSpan sp rest
    have hhead : ∃ t, jsonSpan sp ++ rest = '{' :: t := ⟨_, by simp only [jsonSpan, List.append_assoc, List.cons_append, List.nil_append]; rfl⟩
    obtain ⟨t, ht⟩ := hhead
    simp only [jsonOptSpan, readOptSpan]
    rw [ht] at h ⊢
    simp [h]

theorem readNote_jsonNote (n : Note) (rest : List Char) : readNote (jsonNote n ++ rest) = some (n, rest) := by
  simp only [jsonNote, Gen.noteKeys, List.getD_cons_zero, List.getD_cons_succ, List.append_assoc, List.cons_append,
    List.nil_append, readNote]
  simp [expect_one, readKey_key, readOptSpan_json, readStr_jsonStr]

theorem readNotesTail_body (n : Note) (ns : List Note) (rest : List Char) (fuel : Nat) (hf : (n :: ns).length ≤ fuel) :
    readNotesTail fuel (jsonNotesBody (n :: ns) ++ ']' :: rest) = some (n :: ns, rest) := by
  induction ns generalizing n fuel with
  | nil =>
    cases fuel with
    | zero => simp at hf
    | succ f => simp [readNotesTail, jsonNotesBody, readNote_jsonNote]
  | cons m ms ih =>
    cases fuel with
    | zero => simp at hf
    | succ f =>
      have hf' : (m :: ms).length ≤ f := by simp at hf ⊢; omega
      simp only [readNotesTail, jsonNotesBody, List.append_assoc, List.cons_append, List.nil_append]
      simp [readNote_jsonNote, ih m f hf']

theorem jsonNote_length_pos (n : Note) : 1 ≤ (jsonNote n).length := by
  simp [jsonNote]

theorem jsonNotesBody_length (ns : List Note) : ns.length ≤ (jsonNotesBody ns).length := by
  induction ns with
  | nil => simp
  | cons n ns ih =>
    cases ns with
    | nil => simp [jsonNotesBody]; exact jsonNote_length_pos n
    | cons m ms =>
      simp only [jsonNotesBody, List.length_append, List.length_cons] at ih ⊢
      have := jsonNote_length_pos n
      simp at ih ⊢; omega

theorem readNotes_json (ns : List Note) (rest : List Char) :
    readNotes (['['] ++ jsonNotesBody ns ++ [']'] ++ rest) = some (ns, rest) := by
  cases ns with
  | nil => simp [jsonNotesBody, readNotes]
  | cons n ns =>
    have hhead : ∃ t, jsonNotesBody (n :: ns) = '{' :: t := by
      cases ns <;> exact ⟨_, by simp [jsonNotesBody, jsonNote]; rfl⟩
    obtain ⟨t, ht⟩ := hhead
    have hlen := jsonNotesBody_length (n :: ns)
    have h := readNotesTail_body n ns rest ((jsonNotesBody (n :: ns) ++ ']' :: rest).length) (by simp at hlen ⊢; omega)
    simp only [List.append_assoc, List.cons_append, List.nil_append, readNotes]
    rw [ht] at h ⊢
    simpa using h

theorem readDiagChars_jsonObj (d : Diag) (rest : List Char) :
    readDiagChars (jsonObj d ++ rest) = some (⟨d.message, severity d.level, d.span, d.notes, d.code⟩, rest) := by
  have hn := fun r => readNotes_json d.notes r
  simp only [List.append_assoc, List.cons_append, List.nil_append] at hn
  simp only [jsonObj, Gen.diagKeys, List.getD_cons_zero, List.getD_cons_succ, List.append_assoc, List.cons_append,
    List.nil_append, readDiagChars]
  simp [expect_one, readKey_key, readOptSpan_json, readStr_jsonStr, hn]

/-! ## where the characters of the human output come from -/

/-- the characters the emitter itself contributes (colours off): punctuation, digits, the format literals -/
def fixedAlphabet : List Char :=
  " -/\\|[]:>\n0123456789".toList ++ (Gen.errorPrefix ++ Gen.warningPrefix ++ Gen.notePrefix).toList ++
    Gen.arrow.toList ++ Gen.pointer.toList ++ Gen.expandedTab.toList

/-- every character of `l` is a fixed one or occurs in the input characters `I` -/
def From (I l : List Char) : Prop := ∀ c ∈ l, c ∈ fixedAlphabet ∨ c ∈ I

theorem From_nil (I : List Char) : From I [] := by simp [From]

theorem From_append (I a b : List Char) : From I (a ++ b) ↔ From I a ∧ From I b := by
  simp only [From, List.mem_append]
  constructor
  · intro h; exact ⟨fun x hx => h x (Or.inl hx), fun x hx => h x (Or.inr hx)⟩
  · intro h x hx; rcases hx with hx | hx
    · exact h.1 x hx
    · exact h.2 x hx

theorem From_fixed (I l : List Char) (h : ∀ c ∈ l, c ∈ fixedAlphabet) : From I l := fun c hc => Or.inl (h c hc)
theorem From_input (I l : List Char) (h : ∀ c ∈ l, c ∈ I) : From I l := fun c hc => Or.inr (h c hc)

theorem Outcome.bind_ok {ε α β} (x : Outcome ε α) (f : α → Outcome ε β) (b : β) (h : x.bind f = .ok b) :
    ∃ a, x = .ok a ∧ f a = .ok b := by
  cases x with
  | ok a => exact ⟨a, rfl, h⟩
  | err e => simp [Outcome.bind] at h
  | panic s => simp [Outcome.bind] at h

theorem digit_fixed : ∀ k, k < 10 → digitChar k ∈ fixedAlphabet := by decide

theorem decChars_mem (n : Nat) : ∀ x ∈ decChars n, ∃ k, k < 10 ∧ x = digitChar k := by
  induction n using decChars.induct with
  | case1 n h => rw [decChars]; simp [h]; exact ⟨n, h, rfl⟩
  | case2 n h ih =>
    rw [decChars]; simp only [h, if_false, List.mem_append, List.mem_singleton]
    intro x hx
    rcases hx with hx | hx
    · exact ih x hx
    · exact ⟨n % 10, by omega, hx⟩

theorem From_dec (I : List Char) (n : Nat) : From I (decChars n) := by
  apply From_fixed
  intro c hc
  obtain ⟨k, hk, rfl⟩ := decChars_mem n c hc
  exact digit_fixed k hk

theorem From_replicate (I : List Char) (n : Nat) (c : Char) (h : c ∈ fixedAlphabet) : From I (List.replicate n c) := by
  apply From_fixed
  intro x hx
  rw [List.mem_replicate] at hx
  rw [hx.2]; exact h

theorem From_gutter (I : List Char) (plen : Nat) (num : List Char) (h : From I num) : From I (gutter plen num) := by
  simp only [gutter, From_append]
  exact ⟨⟨h, From_replicate I _ _ (by decide)⟩, From_fixed I _ (by decide)⟩

/-- closes the side goals `From I <piece>` of the output assembly lemmas -/
macro "from_close" : tactic => `(tactic| first
  | assumption
  | exact From_nil _
  | exact From_dec _ _
  | (apply From_fixed; decide)
  | (apply From_gutter; first | exact From_dec _ _ | exact From_nil _))

theorem From_expandTabs (I line : List Char) (h : ∀ c ∈ line, c ∈ I) : From I (expandTabs line) := by
  intro c hc
  simp only [expandTabs, List.mem_flatMap] at hc
  obtain ⟨a, ha, hca⟩ := hc
  unfold expandTab at hca
  split at hca
  · left
    have : ∀ x ∈ Gen.expandedTab.toList, x ∈ fixedAlphabet := by decide
    exact this c hca
  · simp at hca; subst hca; exact Or.inr (h _ ha)

theorem From_highlight (I line : List Char) (hs he : Nat) (out : List Char) (h : getHighlight line hs he = .ok out) :
    From I out := by
  unfold getHighlight at h
  simp only at h
  split at h
  · cases h
    rw [From_append]
    exact ⟨From_replicate I _ _ (by decide), From_fixed I _ (by decide)⟩
  · split at h
    · cases h
      exact From_replicate I _ _ (by decide)
    · cases h
      rw [From_append]
      exact ⟨From_replicate I _ _ (by decide), From_replicate I _ _ (by decide)⟩

theorem linesAux_mem (t acc : List Char) : ∀ l ∈ linesAux t acc, ∀ c ∈ l, c ∈ t ∨ c ∈ acc := by
  induction t generalizing acc with
  | nil =>
    intro l hl c hc
    simp only [linesAux] at hl
    split at hl
    · simp at hl
    · simp at hl; subst hl; right; simpa using hc
  | cons x xs ih =>
    intro l hl c hc
    simp only [linesAux] at hl
    split at hl
    · rw [List.mem_cons] at hl
      rcases hl with hl | hl
      · right
        subst hl
        split at hc
        · simp at hc ⊢; exact Or.inr hc
        · simpa using hc
      · rcases ih [] l hl c hc with h | h
        · left; simp [h]
        · simp at h
    · rcases ih (x :: acc) l hl c hc with h | h
      · left; simp [h]
      · rw [List.mem_cons] at h
        rcases h with h | h
        · left; simp [h]
        · right; exact h

theorem lines_mem (t : List Char) : ∀ l ∈ lines t, ∀ c ∈ l, c ∈ t := by
  intro l hl c hc
  rcases linesAux_mem t [] l hl c hc with h | h
  · exact h
  · simp at h

theorem From_snippetLines (I : List Char) (plen : Nat) (s e : Loc) (ls : List (List Char))
    (hI : ∀ l ∈ ls, ∀ c ∈ l, c ∈ I) : ∀ (i : Nat) (out : List Char), snippetLines plen s e i ls = .ok out → From I out := by
  induction ls with
  | nil => intro i out h; simp [snippetLines] at h; subst h; exact From_nil I
  | cons line rest ih =>
    intro i out h
    have hrest : ∀ l ∈ rest, ∀ c ∈ l, c ∈ I := fun l hl => hI l (by simp [hl])
    have hline : ∀ c ∈ line, c ∈ I := hI line (by simp)
    simp only [snippetLines] at h
    split at h
    · cases h
    · split at h
      · split at h
        · cases h
        · split at h
          · cases h
          · obtain ⟨hl, hh, h⟩ := Outcome.bind_ok _ _ _ h
            obtain ⟨r, hr, h⟩ := Outcome.bind_ok _ _ _ h
            cases h
            have h1 := From_expandTabs I _ hline
            have h2 := From_highlight I _ _ _ _ hh
            have h3 := ih hrest _ _ hr
            simp only [From_append]
            repeat' apply And.intro
            all_goals from_close
      · exact ih hrest _ _ h

theorem From_getSnippet (I text : List Char) (s e : Loc) (out : List Char) (hI : ∀ c ∈ text, c ∈ I)
    (h : getSnippet text s e = .ok out) : From I out := by
  unfold getSnippet at h
  split at h
  · cases h
  · obtain ⟨body, hb, h⟩ := Outcome.bind_ok _ _ _ h
    cases h
    have h1 := From_snippetLines I _ s e _ (fun l hl c hc => hI c (lines_mem text l hl c hc)) 0 body hb
    simp only [From_append]
    repeat' apply And.intro
    all_goals from_close

theorem From_emitSnippet (I : List Char) (files : List SrcFile) (sp : Span) (out : List Char)
    (hF : ∀ f ∈ files, ∀ c ∈ f.text.toList, c ∈ I) (hS : ∀ c ∈ sp.file.toList, c ∈ I)
    (h : emitSnippet files sp = .ok out) : From I out := by
  unfold emitSnippet at h
  simp only at h
  split at h
  · cases h
  · next f hf =>
    obtain ⟨sn, hsn, h⟩ := Outcome.bind_ok _ _ _ h
    cases h
    have hmem : f ∈ files := List.mem_of_find?_eq_some hf
    have h1 := From_getSnippet I _ _ _ _ (hF f hmem) hsn
    have h2 := From_input I _ hS
    simp only [From_append]
    repeat' apply And.intro
    all_goals from_close

/-- the characters of a span that reach the output: its file name -/
def spanChars : Option Span → List Char
  | none => []
  | some s => s.file.toList

theorem From_emitOptSnippet (I : List Char) (files : List SrcFile) (sp : Option Span) (out : List Char)
    (hF : ∀ f ∈ files, ∀ c ∈ f.text.toList, c ∈ I) (hS : ∀ c ∈ spanChars sp, c ∈ I)
    (h : emitOptSnippet files sp = .ok out) : From I out := by
  cases sp with
  | none => simp [emitOptSnippet] at h; subst h; exact From_nil I
  | some s => exact From_emitSnippet I files s out hF hS h

def noteChars (n : Note) : List Char := n.message.toList ++ spanChars n.span

theorem From_emitNotes (I : List Char) (files : List SrcFile) (ns : List Note)
    (hF : ∀ f ∈ files, ∀ c ∈ f.text.toList, c ∈ I) (hN : ∀ n ∈ ns, ∀ c ∈ noteChars n, c ∈ I) :
    ∀ out, emitNotes files ns = .ok out → From I out := by
  induction ns with
  | nil => intro out h; simp [emitNotes] at h; subst h; exact From_nil I
  | cons n rest ih =>
    intro out h
    simp only [emitNotes] at h
    obtain ⟨sn, hsn, h⟩ := Outcome.bind_ok _ _ _ h
    obtain ⟨r, hr, h⟩ := Outcome.bind_ok _ _ _ h
    cases h
    have hn := hN n (by simp)
    have h1 := From_input I _ (fun c hc => hn c (by simp [noteChars, hc]) : ∀ c ∈ n.message.toList, c ∈ I)
    have h2 := From_emitOptSnippet I files _ _ hF (fun c hc => hn c (by simp [noteChars, hc])) hsn
    have h3 := ih (fun m hm => hN m (by simp [hm])) r hr
    simp only [From_append]
    repeat' apply And.intro
    all_goals from_close

def diagChars (d : Diag) : List Char :=
  d.code.toList ++ d.message.toList ++ spanChars d.span ++ d.notes.flatMap noteChars

theorem From_humanBlock (I : List Char) (files : List SrcFile) (d : Diag) (out : List Char)
    (hF : ∀ f ∈ files, ∀ c ∈ f.text.toList, c ∈ I) (hD : ∀ c ∈ diagChars d, c ∈ I)
    (h : humanBlock files d = .ok out) : From I out := by
  unfold humanBlock at h
  obtain ⟨sn, hsn, h⟩ := Outcome.bind_ok _ _ _ h
  obtain ⟨ns, hns, h⟩ := Outcome.bind_ok _ _ _ h
  cases h
  have h1 := From_input I _ (fun c hc => hD c (by simp [diagChars, hc]) : ∀ c ∈ d.code.toList, c ∈ I)
  have h2 := From_input I _ (fun c hc => hD c (by simp [diagChars, hc]) : ∀ c ∈ d.message.toList, c ∈ I)
  have h3 := From_emitOptSnippet I files _ _ hF (fun c hc => hD c (by simp [diagChars, hc])) hsn
  have h4 := From_emitNotes I files _ hF (fun n hn c hc => hD c (by
    simp only [diagChars, List.mem_append, List.mem_flatMap]; exact Or.inr ⟨n, hn, hc⟩)) ns hns
  have h5 : From I (humanPrefix d.level).toList := by
    apply From_fixed
    cases d.level <;> decide
  simp only [From_append]
  repeat' apply And.intro
  all_goals from_close

/-- everything the human emitter can copy into its output: source texts and the diagnostics' strings -/
def inputChars (files : List SrcFile) (ds : List Diag) : List Char :=
  files.flatMap (fun f => f.text.toList) ++ ds.flatMap diagChars

theorem From_emitHumanChars (files : List SrcFile) (ds : List Diag) (I : List Char)
    (hF : ∀ f ∈ files, ∀ c ∈ f.text.toList, c ∈ I) (hD : ∀ d ∈ ds, ∀ c ∈ diagChars d, c ∈ I) :
    ∀ out, emitHumanChars files ds = .ok out → From I out := by
  induction ds with
  | nil => intro out h; simp [emitHumanChars] at h; subst h; exact From_nil I
  | cons d rest ih =>
    intro out h
    have hrest := ih (fun d' hd' => hD d' (by simp [hd']))
    simp only [emitHumanChars] at h
    split at h
    · exact hrest out h
    · obtain ⟨b, hb, h⟩ := Outcome.bind_ok _ _ _ h
      obtain ⟨r, hr, h⟩ := Outcome.bind_ok _ _ _ h
      cases h
      rw [From_append]
      exact ⟨From_humanBlock I files d b hF (hD d (by simp)) hb, hrest r hr⟩

/-! ## snippets do not underflow on spans inside the kept text -/

theorem getHighlight_ok (line : List Char) (hs he : Nat) (h : hs ≤ he) : ∃ out, getHighlight line hs he = .ok out := by
  unfold getHighlight
  simp only
  split
  · exact ⟨_, rfl⟩
  · split
    · omega
    · exact ⟨_, rfl⟩

/-- a span the snippet code can draw: rows and columns are 1-based, start is not after end, and when
    the span covers several lines its start column is not behind the end of its line *as `lines()`
    keeps it* (i.e. without the `\r` of a `\r\n`) -/
def SpanOk (text : List Char) (s e : Loc) : Prop :=
  1 ≤ s.row ∧ 1 ≤ s.col ∧ 1 ≤ e.col ∧ locLe s e = true ∧
  (s.row < e.row → ∀ line, (lines text)[s.row - 1]? = some line → s.col - 1 ≤ line.length)

theorem snippetLines_ok (plen : Nat) (text : List Char) (s e : Loc) (hok : SpanOk text s e) :
    ∀ (ls : List (List Char)) (i : Nat), ls = (lines text).drop i → ∃ out, snippetLines plen s e i ls = .ok out := by
  obtain ⟨hr, hc, hec, hle, hml⟩ := hok
  have hle' : s.row < e.row ∨ (s.row = e.row ∧ s.col ≤ e.col) := by
    simp [locLe] at hle; exact hle
  intro ls
  induction ls with
  | nil => intro i _; exact ⟨[], by simp [snippetLines]⟩
  | cons line rest ih =>
    intro i hdrop
    have hline : (lines text)[i]? = some line := by
      have : ((lines text).drop i)[0]? = some line := by rw [← hdrop]; rfl
      simpa using this
    have hrest : rest = (lines text).drop (i + 1) := by
      have : (line :: rest).tail = ((lines text).drop i).tail := by rw [hdrop]
      simpa using this
    obtain ⟨r, hrr⟩ := ih (i + 1) hrest
    simp only [snippetLines]
    split
    · omega
    · split
      · next hin =>
        split
        · omega
        · split
          · omega
          · have hhl : (if i + 1 = s.row then s.col - 1 else 0) ≤ (if i + 1 = e.row then e.col - 1 else line.length) := by
              by_cases h1 : i + 1 = s.row
              · by_cases h2 : i + 1 = e.row
                · rw [if_pos h1, if_pos h2]
                  rcases hle' with h | h
                  · omega
                  · omega
                · rw [if_pos h1, if_neg h2]
                  have hlt : s.row < e.row := by omega
                  have hi : s.row - 1 = i := by omega
                  exact hml hlt line (by rw [hi]; exact hline)
              · rw [if_neg h1]; omega
            obtain ⟨hl, hh⟩ := getHighlight_ok line _ _ hhl
            rw [hh, hrr]
            exact ⟨_, rfl⟩
      · exact ⟨r, hrr⟩

theorem getSnippet_ok (text : List Char) (s e : Loc) (hok : SpanOk text s e) : ∃ out, getSnippet text s e = .ok out := by
  unfold getSnippet
  have hle := hok.2.2.2.1
  simp only [hle, Bool.not_true, Bool.false_eq_true, if_false]
  obtain ⟨body, hb⟩ := snippetLines_ok ((decChars e.row).length + 1) text s e hok (lines text) 0 (by simp)
  rw [hb]
  exact ⟨_, rfl⟩

/-! ## highlight geometry -/

theorem tabLen : Gen.expandedTab.length = 4 := by decide
theorem tabLen' : Gen.expandedTab.toList.length = 4 := by decide

theorem expandTabs_length (l : List Char) : (expandTabs l).length = widthOf l := by
  induction l with
  | nil => simp [expandTabs, widthOf]
  | cons c cs ih =>
    have h : expandTabs (c :: cs) = expandTab c ++ expandTabs cs := by simp [expandTabs]
    rw [h, List.length_append, ih]
    simp only [widthOf, List.map_cons, List.sum_cons, cw, expandTab]
    split <;> simp [tabLen, tabLen']

theorem widthOf_eq (l : List Char) : widthOf l = l.length + (l.filter (· = '\t')).length * (Gen.expandedTab.length - 1) := by
  induction l with
  | nil => simp [widthOf]
  | cons c cs ih =>
    simp only [widthOf, List.map_cons, List.sum_cons] at ih ⊢
    rw [ih]
    by_cases hc : c = '\t'
    · simp [cw, hc, tabLen]; omega
    · simp [cw, hc, tabLen]; omega

end Slicec.Emit
