/-
  Helper lemmas for Props/C05.lean: invariants of the depth-first search of Model/Cycles.lean
  (distinct stack ⇒ fuel suffices; the stack is a path ⇒ every report is a closed path of fields).
-/
import SlicecVerif.Model.Cycles
import SlicecVerif.Lemmas.Resolve

namespace Slicec.Cyc

/-! ## wrapper trees -/

theorem mem_targets_iff (t : CTy) (j : Nat) : j ∈ t.targets ↔ t.Contains j := by
  induction t with
  | node k =>
    simp only [CTy.targets, List.mem_singleton]
    constructor
    · intro h; subst h; exact .node _
    · intro h; cases h; rfl
  | terminal =>
    simp only [CTy.targets, List.not_mem_nil, false_iff]
    intro h; cases h
  | opt t ih =>
    simp only [CTy.targets]; rw [ih]
    exact ⟨fun h => .opt h, fun h => by cases h; assumption⟩
  | seq t ih =>
    simp only [CTy.targets]; rw [ih]
    exact ⟨fun h => .seq h, fun h => by cases h; assumption⟩
  | dict k v ihk ihv =>
    simp only [CTy.targets, List.mem_append]; rw [ihk, ihv]
    constructor
    · intro h; cases h with
      | inl h => exact .dictKey h
      | inr h => exact .dictValue h
    · intro h; cases h with
      | dictKey h => exact .inl h
      | dictValue h => exact .inr h
  | result s f ihs ihf =>
    simp only [CTy.targets, List.mem_append]; rw [ihs, ihf]
    constructor
    · intro h; cases h with
      | inl h => exact .resultSuccess h
      | inr h => exact .resultFailure h
    · intro h; cases h with
      | resultSuccess h => exact .inl h
      | resultFailure h => exact .inr h

/-- an edge of the edge function of a graph is exactly a field whose wrapper tree contains the target -/
theorem mem_edges_iff (g : Graph) (c f t : Nat) :
    (f, t) ∈ edges g c ↔
      ∃ nd fld, g[c]? = some nd ∧ nd.fields[f]? = some fld ∧ fld.ty.Contains t ∧ t < g.length := by
  unfold edges
  cases hc : g[c]? with
  | none => simp
  | some nd =>
    simp only [List.mem_filter, fieldEdges, List.mem_flatMap, List.mem_map, decide_eq_true_eq, Option.some.injEq]
    constructor
    · rintro ⟨⟨⟨fld, k⟩, hmem, t', ht', heq⟩, hlt⟩
      simp only [Prod.mk.injEq] at heq
      obtain ⟨rfl, rfl⟩ := heq
      have := (List.mem_zipIdx_iff_getElem? (x := (fld, k))).1 hmem
      exact ⟨nd, fld, rfl, this, (mem_targets_iff _ _).1 ht', hlt⟩
    · rintro ⟨nd', fld, rfl, hf, hcont, hlt⟩
      refine ⟨⟨(fld, f), ?_, t, (mem_targets_iff _ _).2 hcont, rfl⟩, hlt⟩
      exact (List.mem_zipIdx_iff_getElem? (x := (fld, f))).2 hf

theorem edges_lt (g : Graph) (a : Nat) (e : Nat × Nat) (h : e ∈ edges g a) : e.2 < g.length := by
  unfold edges at h
  cases hc : g[a]? with
  | none => simp [hc] at h
  | some nd =>
    simp only [hc, List.mem_filter, decide_eq_true_eq] at h
    exact h.2

/-! ## `report` and `tick` -/

@[simp] theorem report_exhausted (root : Nat) (stack : List Entry) (st : DState) :
    (report root stack st).exhausted = st.exhausted := by
  unfold report; split <;> rfl

@[simp] theorem tick_exhausted (st : DState) : st.tick.exhausted = st.exhausted := rfl
@[simp] theorem tick_reports (st : DState) : st.tick.reports = st.reports := rfl
@[simp] theorem tick_seen (st : DState) : st.tick.seen = st.seen := rfl
@[simp] theorem tick_steps (st : DState) : st.tick.steps = st.steps + 1 := rfl

theorem report_reports (root : Nat) (stack : List Entry) (st : DState) :
    (report root stack st).reports = st.reports ∨ (report root stack st).reports = st.reports ++ [⟨root, stack⟩] := by
  unfold report; split
  · exact .inl rfl
  · exact .inr rfl

/-- unfolding of one level of the search -/
theorem dfs_succ (E : EdgeFn) (root fuel : Nat) (stack : List Entry) (cur : Nat) (st : DState) :
    dfs E root (fuel + 1) stack cur st =
      (E cur).foldl (fun st e =>
        if e.2 == root then report root (stack ++ [⟨e.2, cur, e.1⟩]) st.tick
        else if stack.any (fun x => x.target == e.2) then st.tick
        else dfs E root fuel (stack ++ [⟨e.2, cur, e.1⟩]) e.2 st.tick) st := rfl

/-! ## a general induction principle for the search

  `P stack cur` is an invariant of the (stack, current node) pairs the search visits, `Q` an invariant of the state.
  If pushing an edge of `cur` that is neither the root nor on the stack keeps `P`, and the three cases keep `Q`, then the
  whole search keeps `Q`. -/
theorem dfs_induct (E : EdgeFn) (root : Nat)
    (P : Nat → List Entry → Nat → Prop) (Q : DState → Prop)
    (hpush : ∀ fuel stack cur e, P (fuel + 1) stack cur → e ∈ E cur → e.2 ≠ root →
      stack.any (fun x => x.target == e.2) = false → P fuel (stack ++ [⟨e.2, cur, e.1⟩]) e.2)
    (htick : ∀ st, Q st → Q st.tick)
    (hreport : ∀ fuel stack cur e st, P (fuel + 1) stack cur → e ∈ E cur → e.2 = root → Q st →
      Q (report root (stack ++ [⟨e.2, cur, e.1⟩]) st))
    (hfuel : ∀ stack cur st, P 0 stack cur → Q st → Q { st with exhausted := true }) :
    ∀ fuel stack cur st, P fuel stack cur → Q st → Q (dfs E root fuel stack cur st) := by
  intro fuel
  induction fuel with
  | zero => intro stack cur st hP hQ; exact hfuel stack cur st hP hQ
  | succ fuel ih =>
    intro stack cur st hP hQ
    rw [dfs_succ]
    have key : ∀ (es : List (Nat × Nat)), (∀ e ∈ es, e ∈ E cur) → ∀ st, Q st →
        Q (es.foldl (fun st e =>
          if e.2 == root then report root (stack ++ [⟨e.2, cur, e.1⟩]) st.tick
          else if stack.any (fun x => x.target == e.2) then st.tick
          else dfs E root fuel (stack ++ [⟨e.2, cur, e.1⟩]) e.2 st.tick) st) := by
      intro es
      induction es with
      | nil => intro _ st hQ; exact hQ
      | cons e es ihes =>
        intro hsub st hQ
        rw [List.foldl_cons]
        apply ihes (fun x hx => hsub x (List.mem_cons_of_mem _ hx))
        have he : e ∈ E cur := hsub e (List.mem_cons_self ..)
        by_cases h1 : e.2 = root
        · simp only [h1, beq_self_eq_true, if_true]
          have := hreport fuel stack cur e st.tick hP he h1 (htick st hQ)
          rw [h1] at this; exact this
        · have h1' : (e.2 == root) = false := by simpa using h1
          simp only [h1', Bool.false_eq_true, if_false]
          cases h2 : stack.any (fun x => x.target == e.2) with
          | true => simp only [if_true]; exact htick st hQ
          | false =>
            simp only [Bool.false_eq_true, if_false]
            exact ih _ _ _ (hpush fuel stack cur e hP he h1 h2) (htick st hQ)
    exact key (E cur) (fun _ h => h) st hQ

/-- the same principle for the whole detector -/
theorem detectE_induct (E : EdgeFn) (n : Nat) (Q : DState → Prop)
    (h0 : Q {})
    (hroot : ∀ r st, r < n → Q st → Q (dfs E r n [] r st)) :
    Q (detectE E n) := by
  unfold detectE
  have key : ∀ (rs : List Nat), (∀ r ∈ rs, r < n) → ∀ st, Q st → Q (rs.foldl (fun st r => dfs E r n [] r st) st) := by
    intro rs
    induction rs with
    | nil => intro _ st h; exact h
    | cons r rs ih =>
      intro hlt st h
      rw [List.foldl_cons]
      exact ih (fun x hx => hlt x (List.mem_cons_of_mem _ hx)) _ (hroot r st (hlt r (List.mem_cons_self ..)) h)
  exact key (List.range n) (fun r hr => List.mem_range.1 hr) {} h0

/-! ## (a) the stack is duplicate-free ⇒ the fuel suffices -/

/-- ids on the stack are distinct, different from the root, and nodes of the graph -/
def StackInv (n root : Nat) (stack : List Entry) : Prop :=
  (root :: stack.map (·.target)).Nodup ∧ ∀ x ∈ root :: stack.map (·.target), x < n

theorem StackInv.length_lt {n root : Nat} {stack : List Entry} (h : StackInv n root stack) : stack.length < n := by
  have hsub : (root :: stack.map (·.target)) ⊆ List.range n := fun x hx => List.mem_range.2 (h.2 x hx)
  have := List.Nodup.length_le_of_subset h.1 hsub
  simp only [List.length_cons, List.length_map, List.length_range] at this
  omega

theorem StackInv.push {n root : Nat} {stack : List Entry} (h : StackInv n root stack) (e : Entry)
    (hroot : e.target ≠ root) (hnot : stack.any (fun x => x.target == e.target) = false) (hlt : e.target < n) :
    StackInv n root (stack ++ [e]) := by
  obtain ⟨hnd, hall⟩ := h
  have hnotmem : e.target ∉ stack.map (·.target) := by
    intro hm
    obtain ⟨x, hx, hxe⟩ := List.mem_map.1 hm
    have := (List.any_eq_false.1 hnot) x hx
    simp [hxe] at this
  constructor
  · rw [List.map_append, List.map_singleton, ← List.cons_append]
    rw [List.nodup_append]
    refine ⟨hnd, by simp, ?_⟩
    intro a ha b hb
    simp only [List.mem_singleton] at hb
    subst hb
    intro hab
    subst hab
    rcases List.mem_cons.1 ha with h | h
    · exact hroot h
    · exact hnotmem h
  · intro x hx
    rw [List.map_append, List.map_singleton, ← List.cons_append, List.mem_append] at hx
    rcases hx with hx | hx
    · exact hall x hx
    · simp only [List.mem_singleton] at hx; subst hx; exact hlt

/-! ## (b) the stack is a path -/

/-- every entry is a field of the previous entry's target (of `prev` for the first) whose type contains its own target -/
def Linked (E : EdgeFn) : Nat → List Entry → Prop
  | _, [] => True
  | prev, e :: rest => e.container = prev ∧ (e.field, e.target) ∈ E prev ∧ Linked E e.target rest

/-- where a path from `prev` along `stack` ends -/
def lastTarget : Nat → List Entry → Nat
  | prev, [] => prev
  | _, e :: rest => lastTarget e.target rest

theorem linked_append (E : EdgeFn) (prev : Nat) (s : List Entry) (e : Entry) :
    Linked E prev (s ++ [e]) ↔
      Linked E prev s ∧ e.container = lastTarget prev s ∧ (e.field, e.target) ∈ E (lastTarget prev s) := by
  induction s generalizing prev with
  | nil => simp [Linked, lastTarget]
  | cons x xs ih =>
    simp only [List.cons_append, Linked, lastTarget, ih]
    constructor
    · rintro ⟨h1, h2, h3, h4, h5⟩; exact ⟨⟨h1, h2, h3⟩, h4, h5⟩
    · rintro ⟨⟨h1, h2, h3⟩, h4, h5⟩; exact ⟨h1, h2, h3, h4, h5⟩

theorem lastTarget_append (prev : Nat) (s : List Entry) (e : Entry) : lastTarget prev (s ++ [e]) = e.target := by
  induction s generalizing prev with
  | nil => rfl
  | cons x xs ih => simp only [List.cons_append, lastTarget, ih]

/-- a report is a real closed path of fields: non-empty, linked from its root, and back at its root -/
def SoundReport (E : EdgeFn) (r : Report) : Prop :=
  r.stack ≠ [] ∧ Linked E r.root r.stack ∧ lastTarget r.root r.stack = r.root

theorem dfs_reports_sound (E : EdgeFn) (root fuel : Nat) (st : DState)
    (h : ∀ r ∈ st.reports, SoundReport E r) :
    ∀ r ∈ (dfs E root fuel [] root st).reports, SoundReport E r := by
  refine dfs_induct E root (fun _ stack cur => Linked E root stack ∧ lastTarget root stack = cur)
    (fun st => ∀ r ∈ st.reports, SoundReport E r) ?_ ?_ ?_ ?_ fuel [] root st ⟨trivial, rfl⟩ h
  · intro _ stack cur e ⟨hl, hlast⟩ he _ _
    refine ⟨(linked_append ..).2 ⟨hl, by simp [hlast], by simpa [hlast] using he⟩, lastTarget_append ..⟩
  · intro st h; simpa using h
  · intro _ stack cur e st ⟨hl, hlast⟩ he hroot hQ r hr
    rcases report_reports root (stack ++ [⟨e.2, cur, e.1⟩]) st with h | h
    · rw [h] at hr; exact hQ r hr
    · rw [h, List.mem_append, List.mem_singleton] at hr
      rcases hr with hr | hr
      · exact hQ r hr
      · subst hr
        refine ⟨by simp, (linked_append ..).2 ⟨hl, by simp [hlast], by simpa [hlast] using he⟩, ?_⟩
        simp only [lastTarget_append]; exact hroot
  · intro stack cur st _ hQ; exact hQ

/-! ## a sound report witnesses `root →⁺ root` -/

theorem linked_reach (E : EdgeFn) : ∀ (s : List Entry) (prev : Nat), s ≠ [] → Linked E prev s → EReach E prev (lastTarget prev s)
  | [], _, h, _ => absurd rfl h
  | [e], prev, _, hl => by
    obtain ⟨_, hmem, _⟩ := hl
    exact .single ⟨e.field, hmem⟩
  | e :: e' :: rest, prev, _, hl => by
    obtain ⟨_, hmem, hrest⟩ := hl
    exact .cons ⟨e.field, hmem⟩ (linked_reach E (e' :: rest) e.target (by simp) hrest)

theorem SoundReport.reach {E : EdgeFn} {r : Report} (h : SoundReport E r) : EReach E r.root r.root := by
  have := linked_reach E r.stack r.root h.1 h.2.1
  rw [h.2.2] at this
  exact this

/-! ## interface inheritance -/

theorem allBases_fold_none (ig : IGraph) (fuel : Nat) (bs : List Nat) :
    bs.foldl (fun acc b => joinBases acc (allBases ig fuel b)) none = none := by
  induction bs with
  | nil => rfl
  | cons b bs ih => simpa [List.foldl_cons, joinBases] using ih

theorem allBases_fold_none_of_mem (ig : IGraph) (fuel : Nat) (bs : List Nat) (acc : Option (List Nat))
    (h : ∃ b ∈ bs, allBases ig fuel b = none) :
    bs.foldl (fun acc b => joinBases acc (allBases ig fuel b)) acc = none := by
  induction bs generalizing acc with
  | nil => obtain ⟨b, hb, _⟩ := h; cases hb
  | cons x xs ih =>
    rw [List.foldl_cons]
    obtain ⟨b, hb, hnone⟩ := h
    rcases List.mem_cons.1 hb with rfl | hb
    · rw [hnone]
      have : joinBases acc none = none := by cases acc <;> rfl
      rw [this]; exact allBases_fold_none ig fuel xs
    · exact ih _ ⟨b, hb, hnone⟩

/-! ## (c) D-05b: the search enumerates every simple path — exponential on dense DAGs -/

theorem report_steps (root : Nat) (stack : List Entry) (st : DState) : (report root stack st).steps = st.steps := by
  unfold report; split <;> rfl

/-- the search never decreases the step counter -/
theorem dfs_steps_mono (E : EdgeFn) (root fuel : Nat) (stack : List Entry) (cur : Nat) (st : DState) (c : Nat)
    (h : c ≤ st.steps) : c ≤ (dfs E root fuel stack cur st).steps := by
  refine dfs_induct E root (fun _ _ _ => True) (fun st => c ≤ st.steps) ?_ ?_ ?_ ?_ fuel stack cur st trivial h
  · intros; trivial
  · intro st h; simp only [tick_steps]; omega
  · intro _ _ _ _ st _ _ _ h; rw [report_steps]; exact h
  · intro _ _ st _ h; exact h

/-- an edge function is *dense on n nodes* when node `k` points to exactly the nodes `k+1 … n-1`, in this order -/
def DenseOn (E : EdgeFn) (n : Nat) : Prop := ∀ k, k < n → (E k).map (·.2) = List.range' (k + 1) (n - (k + 1))

/-- from node `k` of a dense DAG the search makes `2^(n-1-k) - 1` steps: one per path starting at `k` -/
theorem dense_dfs_steps (E : EdgeFn) (n root : Nat) (hE : DenseOn E n) :
    ∀ (fuel : Nat) (stack : List Entry) (k m : Nat) (st : DState),
      k + 1 + m = n → m < fuel → root ≤ k → (∀ x ∈ stack, x.target ≤ k) →
      (dfs E root fuel stack k st).steps + 1 = st.steps + 2 ^ m := by
  intro fuel
  induction fuel with
  | zero => intro _ _ _ _ _ h; omega
  | succ fuel ih =>
    intro stack k m st hkm hfuel hroot hstack
    rw [dfs_succ]
    have key : ∀ (es : List (Nat × Nat)) (a m' : Nat) (st : DState),
        es.map (·.2) = List.range' a m' → k < a → a + m' = n →
        (es.foldl (fun st e =>
          if e.2 == root then report root (stack ++ [⟨e.2, k, e.1⟩]) st.tick
          else if stack.any (fun x => x.target == e.2) then st.tick
          else dfs E root fuel (stack ++ [⟨e.2, k, e.1⟩]) e.2 st.tick) st).steps + 1 = st.steps + 2 ^ m' := by
      intro es
      induction es with
      | nil =>
        intro a m' st hmap _ _
        have : m' = 0 := by
          cases m' with
          | zero => rfl
          | succ q => simp [List.range'_succ] at hmap
        subst this; simp
      | cons e es ihes =>
        intro a m' st hmap hka ham
        cases m' with
        | zero => simp at hmap
        | succ q =>
          rw [List.range'_succ, List.map_cons] at hmap
          have he : e.2 = a := (List.cons.inj hmap).1
          have hrest : es.map (·.2) = List.range' (a + 1) q := (List.cons.inj hmap).2
          rw [List.foldl_cons]
          have h1 : (e.2 == root) = false := by
            have : e.2 ≠ root := by omega
            simpa using this
          have h2 : stack.any (fun x => x.target == e.2) = false := by
            rw [List.any_eq_false]
            intro x hx
            have := hstack x hx
            have : x.target ≠ e.2 := by omega
            simpa using this
          simp only [h1, h2, Bool.false_eq_true, if_false]
          have hrec := ih (stack ++ [⟨e.2, k, e.1⟩]) e.2 q st.tick (by omega) (by omega) (by omega)
            (by
              intro x hx
              rcases List.mem_append.1 hx with hx | hx
              · have := hstack x hx; omega
              · simp only [List.mem_singleton] at hx; subst hx; exact Nat.le_refl _)
          have hfold := ihes (a + 1) q (dfs E root fuel (stack ++ [⟨e.2, k, e.1⟩]) e.2 st.tick) hrest (by omega) (by omega)
          rw [tick_steps] at hrec
          rw [Nat.pow_succ]
          omega
    have := key (E k) (k + 1) m st (by rw [hE k (by omega)]; congr 1; omega) (by omega) (by omega)
    exact this

/-- D-05b: on the dense DAG over `n ≥ 1` nodes (node `i` has a field of every node `j > i`; acyclic, nothing to report)
    the detector makes at least `2^(n-1) - 1` calls of `push_to_stack_and_check`: the search from the first node alone
    walks every path. -/
theorem dense_steps_exponential_E (E : EdgeFn) (n : Nat) (hE : DenseOn E (n + 1)) :
    2 ^ n ≤ (detectE E (n + 1)).steps + 1 := by
  unfold detectE
  rw [List.range_succ_eq_map, List.foldl_cons]
  have h0 := dense_dfs_steps E (n + 1) 0 hE (n + 1) [] 0 n {} (by omega) (by omega) (Nat.le_refl _) (by intro x hx; cases hx)
  have hmono : ∀ (rs : List Nat) (st : DState) (c : Nat), c ≤ st.steps →
      c ≤ (rs.foldl (fun st r => dfs E r (n + 1) [] r st) st).steps := by
    intro rs
    induction rs with
    | nil => intro st c h; exact h
    | cons r rs ih => intro st c h; rw [List.foldl_cons]; exact ih _ c (dfs_steps_mono E r (n + 1) [] r st c h)
  have := hmono ((List.range n).map Nat.succ) (dfs E 0 (n + 1) [] 0 {}) ((dfs E 0 (n + 1) [] 0 {}).steps) (Nat.le_refl _)
  have hz : ({} : DState).steps = 0 := rfl
  omega

theorem fieldEdges_targets (fs : List CField) : (fieldEdges fs).map (·.2) = fs.flatMap (·.ty.targets) := by
  unfold fieldEdges
  rw [List.map_flatMap]
  have : ∀ (k : Nat) , ((fs.zipIdx k).flatMap fun fk => (fk.1.ty.targets.map fun t => (fk.2, t)).map (·.2)) = fs.flatMap (·.ty.targets) := by
    induction fs with
    | nil => intro k; rfl
    | cons f fs ih =>
      intro k
      simp only [List.zipIdx_cons, List.flatMap_cons]
      rw [ih (k + 1)]
      congr 1
      simp [Function.comp_def]
  exact this 0

theorem dense_denseOn (n : Nat) : DenseOn (edges (dense n)) n := by
  intro k hk
  have hlen : (dense n).length = n := by simp [dense]
  have hget : (dense n)[k]? = some (denseNode n k) := by
    simp [dense, hk]
  unfold edges
  rw [hget]
  simp only [hlen]
  refine Eq.trans (List.filter_map (f := fun x : Nat × Nat => x.2) (p := fun x => decide (x < n))).symm ?_
  rw [fieldEdges_targets]
  simp only [denseNode, List.flatMap_map, CTy.targets]
  rw [List.filter_eq_self.2]
  · simp
  · intro a ha
    simp only [List.mem_flatMap, List.mem_singleton, List.mem_range'_1] at ha
    obtain ⟨b, hb, rfl⟩ := ha
    simp only [decide_eq_true_eq]; omega

/-! ## (d) completeness for simple cycles: the search from `root` walks every simple path back to `root` -/

theorem sameSet_refl (a : List Nat) : sameSet a a = true := by
  simp [sameSet]

theorem report_seen_mono (root : Nat) (stack : List Entry) (st : DState) (K : List Nat) (h : K ∈ st.seen) :
    K ∈ (report root stack st).seen := by
  unfold report; split
  · exact h
  · exact List.mem_cons_of_mem _ h

theorem report_seen_has (root : Nat) (stack : List Entry) (st : DState) :
    ∃ K ∈ (report root stack st).seen, sameSet (stack.map (·.target)) K = true := by
  unfold report; split
  · rename_i h
    obtain ⟨K, hK, hs⟩ := List.any_eq_true.1 h
    exact ⟨K, hK, hs⟩
  · exact ⟨_, List.mem_cons_self .., sameSet_refl _⟩

theorem dfs_seen_mono (E : EdgeFn) (root fuel : Nat) (stack : List Entry) (cur : Nat) (st : DState) (K : List Nat)
    (h : K ∈ st.seen) : K ∈ (dfs E root fuel stack cur st).seen := by
  refine dfs_induct E root (fun _ _ _ => True) (fun st => K ∈ st.seen) ?_ ?_ ?_ ?_ fuel stack cur st trivial h
  · intros; trivial
  · intro st h; exact h
  · intro _ _ _ _ st _ _ _ h; exact report_seen_mono _ _ _ _ h
  · intro _ _ st _ h; exact h

/-- one iteration of the loop over the edges of `cur` -/
def stepFn (E : EdgeFn) (root fuel : Nat) (stack : List Entry) (cur : Nat) : DState → Nat × Nat → DState :=
  fun st e =>
    if e.2 == root then report root (stack ++ [⟨e.2, cur, e.1⟩]) st.tick
    else if stack.any (fun x => x.target == e.2) then st.tick
    else dfs E root fuel (stack ++ [⟨e.2, cur, e.1⟩]) e.2 st.tick

theorem dfs_succ' (E : EdgeFn) (root fuel : Nat) (stack : List Entry) (cur : Nat) (st : DState) :
    dfs E root (fuel + 1) stack cur st = (E cur).foldl (stepFn E root fuel stack cur) st := rfl

theorem stepFn_seen_mono (E : EdgeFn) (root fuel : Nat) (stack : List Entry) (cur : Nat) (st : DState) (e : Nat × Nat)
    (K : List Nat) (h : K ∈ st.seen) : K ∈ (stepFn E root fuel stack cur st e).seen := by
  unfold stepFn
  split
  · exact report_seen_mono _ _ _ _ h
  · split
    · exact h
    · exact dfs_seen_mono _ _ _ _ _ _ _ h

theorem fold_seen_mono (E : EdgeFn) (root fuel : Nat) (stack : List Entry) (cur : Nat) (es : List (Nat × Nat)) :
    ∀ (st : DState) (K : List Nat), K ∈ st.seen → K ∈ (es.foldl (stepFn E root fuel stack cur) st).seen := by
  induction es with
  | nil => intro st K h; exact h
  | cons e es ih => intro st K h; rw [List.foldl_cons]; exact ih _ K (stepFn_seen_mono _ _ _ _ _ _ _ K h)

/-- `ws = [w₁, …, w_m]` is a path `cur → w₁ → … → w_m = root` whose inner nodes differ from `root` -/
def PathToRoot (E : EdgeFn) (root : Nat) : Nat → List Nat → Prop
  | _, [] => False
  | cur, [w] => EStep E cur w ∧ w = root
  | cur, w :: w' :: rest => EStep E cur w ∧ w ≠ root ∧ PathToRoot E root w (w' :: rest)

/-- the search walks every simple path from `cur` back to the root that avoids the stack; at its end the vertex set
    of (stack + path) is in `reported_cycles` (put there now, or found there) -/
theorem dfs_explores (E : EdgeFn) (n root : Nat) (hE : ∀ a e, e ∈ E a → e.2 < n) :
    ∀ (ws : List Nat) (fuel : Nat) (stack : List Entry) (cur : Nat) (st : DState),
      StackInv n root stack → n ≤ stack.length + fuel → PathToRoot E root cur ws → ws.Nodup →
      (∀ w ∈ ws, w ∉ stack.map (·.target)) →
      ∃ K ∈ (dfs E root fuel stack cur st).seen, sameSet (stack.map (·.target) ++ ws) K = true := by
  intro ws
  induction ws with
  | nil => intro _ _ _ _ _ _ hp; exact absurd hp (by simp [PathToRoot])
  | cons w rest ih =>
    intro fuel stack cur st hinv hlen hp hnd havoid
    cases fuel with
    | zero => have := hinv.length_lt; omega
    | succ fuel =>
      rw [dfs_succ']
      have hstep : EStep E cur w := by
        cases rest with
        | nil => exact hp.1
        | cons _ _ => exact hp.1
      obtain ⟨f, hf⟩ := hstep
      obtain ⟨pre, post, hsplit⟩ := List.append_of_mem hf
      rw [hsplit, List.foldl_append, List.foldl_cons]
      suffices h : ∃ K ∈ (stepFn E root fuel stack cur (pre.foldl (stepFn E root fuel stack cur) st) (f, w)).seen,
          sameSet (stack.map (·.target) ++ w :: rest) K = true by
        obtain ⟨K, hK, hs⟩ := h
        exact ⟨K, fold_seen_mono _ _ _ _ _ post _ K hK, hs⟩
      generalize pre.foldl (stepFn E root fuel stack cur) st = st1
      cases rest with
      | nil =>
        obtain ⟨_, hroot⟩ := hp
        unfold stepFn
        simp only [hroot, beq_self_eq_true, if_true]
        have := report_seen_has root (stack ++ [⟨root, cur, f⟩]) st1.tick
        simpa using this
      | cons w' rest' =>
        obtain ⟨_, hne, hp'⟩ := hp
        have h1 : (w == root) = false := by simpa using hne
        have hwnot : w ∉ stack.map (·.target) := havoid w (List.mem_cons_self ..)
        have h2 : stack.any (fun x => x.target == w) = false := by
          rw [List.any_eq_false]
          intro x hx hxe
          exact hwnot (List.mem_map.2 ⟨x, hx, by simpa using hxe⟩)
        unfold stepFn
        simp only [h1, h2, Bool.false_eq_true, if_false]
        have hnd' := (List.nodup_cons.1 hnd)
        have := ih fuel (stack ++ [⟨w, cur, f⟩]) w st1.tick
          (hinv.push ⟨w, cur, f⟩ hne h2 (hE cur (f, w) hf))
          (by simp only [List.length_append, List.length_singleton]; omega) hp' hnd'.2
          (by
            intro x hx
            simp only [List.map_append, List.map_singleton, List.mem_append, List.mem_singleton, not_or]
            refine ⟨havoid x (List.mem_cons_of_mem _ hx), ?_⟩
            intro hxw; subst hxw; exact hnd'.1 hx)
        simpa [List.append_assoc] using this

/-- every vertex set in `reported_cycles` belongs to a diagnostic -/
def SeenInv (st : DState) : Prop := ∀ K ∈ st.seen, ∃ r ∈ st.reports, r.ids = K

theorem report_seenInv (root : Nat) (stack : List Entry) (st : DState) (h : SeenInv st) : SeenInv (report root stack st) := by
  unfold report; split
  · exact h
  · intro K hK
    rcases List.mem_cons.1 hK with rfl | hK
    · exact ⟨⟨root, stack⟩, by simp, rfl⟩
    · obtain ⟨r, hr, hrK⟩ := h K hK
      exact ⟨r, List.mem_append_left _ hr, hrK⟩

theorem dfs_seenInv (E : EdgeFn) (root fuel : Nat) (stack : List Entry) (cur : Nat) (st : DState) (h : SeenInv st) :
    SeenInv (dfs E root fuel stack cur st) := by
  refine dfs_induct E root (fun _ _ _ => True) SeenInv ?_ ?_ ?_ ?_ fuel stack cur st trivial h
  · intros; trivial
  · intro st h; exact h
  · intro _ _ _ _ st _ _ _ h; exact report_seenInv _ _ _ h
  · intro _ _ st _ h; exact h

theorem detectE_seenInv (E : EdgeFn) (n : Nat) : SeenInv (detectE E n) :=
  detectE_induct E n SeenInv (by intro K hK; cases hK) (fun r st _ h => dfs_seenInv E r n [] r st h)

theorem roots_seen_mono (E : EdgeFn) (n : Nat) (rs : List Nat) :
    ∀ (st : DState) (K : List Nat), K ∈ st.seen → K ∈ (rs.foldl (fun st r => dfs E r n [] r st) st).seen := by
  induction rs with
  | nil => intro st K h; exact h
  | cons r rs ih => intro st K h; rw [List.foldl_cons]; exact ih _ K (dfs_seen_mono _ _ _ _ _ _ K h)

theorem sameSet_mem {a b : List Nat} (h : sameSet a b = true) {w : Nat} (hw : w ∈ a) : w ∈ b := by
  simp only [sameSet, Bool.and_eq_true, List.all_eq_true] at h
  simpa using h.1 w hw

/-- completeness for simple cycles: if `T → w₁ → … → w_m = T` is a simple cycle, some diagnostic's chain passes through
    every one of its types -/
theorem detect_complete_simple (E : EdgeFn) (n : Nat) (hE : ∀ a e, e ∈ E a → e.2 < n) (T : Nat) (hT : T < n)
    (ws : List Nat) (hp : PathToRoot E T T ws) (hnd : ws.Nodup) :
    ∃ r ∈ (detectE E n).reports, ∀ w ∈ ws, w ∈ r.ids := by
  have hmem : T ∈ List.range n := List.mem_range.2 hT
  obtain ⟨pre, post, hsplit⟩ := List.append_of_mem hmem
  have hseen : ∃ K ∈ (detectE E n).seen, sameSet ws K = true := by
    unfold detectE
    rw [hsplit, List.foldl_append, List.foldl_cons]
    generalize pre.foldl (fun st r => dfs E r n [] r st) {} = st1
    obtain ⟨K, hK, hs⟩ := dfs_explores E n T hE ws n [] T st1 ⟨by simp, by simpa using hT⟩ (by simp) hp hnd (by simp)
    exact ⟨K, roots_seen_mono E n post _ K hK, by simpa using hs⟩
  obtain ⟨K, hK, hs⟩ := hseen
  obtain ⟨r, hr, hrK⟩ := detectE_seenInv E n K hK
  exact ⟨r, hr, fun w hw => by rw [hrK]; exact sameSet_mem hs hw⟩

/-! ## loop erasure: a closed walk through `a` contains a simple cycle through `a` -/

theorem pathToRoot_suffix (E : EdgeFn) (root w : Nat) (q : List Nat) :
    ∀ (p : List Nat) (c : Nat), PathToRoot E root c (p ++ w :: q) →
      (q = [] → w = root) ∧ (q ≠ [] → PathToRoot E root w q) := by
  intro p
  induction p with
  | nil =>
    intro c h
    cases q with
    | nil => exact ⟨fun _ => h.2, fun hne => absurd rfl hne⟩
    | cons y ys => exact ⟨fun hq => (by cases hq), fun _ => h.2.2⟩
  | cons x p' ih =>
    intro c h
    have : ∃ y ys, p' ++ w :: q = y :: ys := by cases p' <;> simp
    obtain ⟨y, ys, hy⟩ := this
    simp only [List.cons_append, hy, PathToRoot] at h
    rw [← hy] at h
    exact ih x h.2.2

theorem reach_simple (E : EdgeFn) {a c : Nat} (h : EReach E a c) : ∃ ws, PathToRoot E c a ws ∧ ws.Nodup := by
  induction h with
  | single hs => exact ⟨[_], ⟨hs, rfl⟩, by simp⟩
  | @cons a b c hs _ ih =>
    obtain ⟨ws, hp, hnd⟩ := ih
    by_cases hb : b = c
    · exact ⟨[b], ⟨hs, hb⟩, by simp⟩
    · by_cases hmem : b ∈ ws
      · obtain ⟨p, q, rfl⟩ := List.append_of_mem hmem
        have hsuf := pathToRoot_suffix E c b q p b hp
        have hq : q ≠ [] := fun hq => hb (hsuf.1 hq)
        have hpq := hsuf.2 hq
        have hnd' : (b :: q).Nodup := (List.nodup_append.1 hnd).2.1
        cases q with
        | nil => exact absurd rfl hq
        | cons y ys => exact ⟨b :: y :: ys, ⟨hs, hb, hpq⟩, hnd'⟩
      · cases ws with
        | nil => exact absurd hp (by simp [PathToRoot])
        | cons y ys => exact ⟨b :: y :: ys, ⟨hs, hb, hp⟩, List.nodup_cons.2 ⟨hmem, hnd⟩⟩

theorem pathToRoot_root_mem (E : EdgeFn) (n root : Nat) (hE : ∀ a e, e ∈ E a → e.2 < n) :
    ∀ (ws : List Nat) (cur : Nat), PathToRoot E root cur ws → root ∈ ws ∧ root < n := by
  intro ws
  induction ws with
  | nil => intro _ h; exact absurd h (by simp [PathToRoot])
  | cons w rest ih =>
    intro cur h
    cases rest with
    | nil =>
      obtain ⟨⟨f, hf⟩, rfl⟩ := h
      exact ⟨List.mem_cons_self .., hE cur (f, w) hf⟩
    | cons y ys =>
      obtain ⟨hm, hlt⟩ := ih w h.2.2
      exact ⟨List.mem_cons_of_mem _ hm, hlt⟩

/-- completeness: a type that contains itself is passed through by the chain of some diagnostic -/
theorem detect_complete (E : EdgeFn) (n : Nat) (hE : ∀ a e, e ∈ E a → e.2 < n) (a : Nat) (h : EReach E a a) :
    ∃ r ∈ (detectE E n).reports, a ∈ r.ids := by
  obtain ⟨ws, hp, hnd⟩ := reach_simple E h
  obtain ⟨hmem, hlt⟩ := pathToRoot_root_mem E n a hE ws a hp
  obtain ⟨r, hr, hall⟩ := detect_complete_simple E n hE a hlt ws hp hnd
  exact ⟨r, hr, hall a hmem⟩


end Slicec.Cyc
